(* Translator tie of C04: what the committed encoder-language terms (Model/EncAst.v) compute.
   For every encoder X and ALL arguments:   run ast_X (the arguments as values) = Model.Requests.encode_X arguments,
   i.e. the term the translator must produce from the source denotes the hand-written model the C04 theorems are about. *)
From Coq Require Import String Lia.
From AV Require Import Base.Util Model.Prim Model.Crc Model.MsgSet Model.Requests Model.EncDSL Model.EncDSLV Model.EncAst
     Proofs.ReqParseGroup Proofs.ReqParseProducer.
Open Scope string_scope.
Open Scope list_scope.

(* ---- arguments as values ---- *)
Definition vbytes (b : list Z) : val := VStr (Some b).
Definition vpair (f g : text -> val) (p : text * obytes) : val := VTup [f (fst p); g (snd p)].

(* ---- generic facts ---- *)
Lemma enc_all_map {A B} (f : B -> res (list Z)) (g : A -> B) l : enc_all f (map g l) = enc_all (fun a => f (g a)) l.
Proof. induction l as [|x r IH]; cbn [map enc_all]; [reflexivity|]. now rewrite IH. Qed.

Lemma llen_map {A B} (g : A -> B) l : llen (map g l) = llen l.
Proof. unfold llen. now rewrite map_length. Qed.

Lemma pack1 f z : pack_list [(f, z)] = pack f z.
Proof. cbn [pack_list]. destruct (pack f z); cbn [bind]; [now rewrite app_nil_r|reflexivity]. Qed.

(* flatten nested do-blocks by cases on every step, then compare the concatenations *)
Ltac bind_cases :=
  unfold text, obytes in *;
  repeat match goal with
         | |- context [bind ?e _] =>
             lazymatch e with
             | bind _ _ => fail
             | _ => destruct e; cbn [bind]
             end
         end;
  rewrite ?app_nil_r, <- ?app_assoc; try reflexivity.

Ltac dsl := cbn [run run_item eval eval_int eval_str eval_fields nth_error app vfield assoc String.eqb Ascii.eqb Bool.eqb
                 bind vbytes fst snd].

(* ------------------------------------------------------------------ _encode_message_header *)
Theorem header_sound cid corr key ver :
  run ast_encode_message_header [vbytes cid; VInt corr; VInt key; VInt ver] = encode_message_header cid corr key ver.
Proof. unfold ast_encode_message_header, encode_message_header. dsl. bind_cases. Qed.

(* ------------------------------------------------------------------ ApiVersions *)
Theorem api_versions_sound cid corr key ver :
  run ast_encode_api_versions_request [vbytes cid; VInt corr; VRec [("api_key", VInt key); ("api_version", VInt ver)]]
  = encode_api_versions_request cid corr key ver.
Proof. unfold ast_encode_api_versions_request, encode_api_versions_request. dsl. bind_cases. Qed.

(* ------------------------------------------------------------------ Metadata *)
Theorem metadata_sound cid corr topics :
  run ast_encode_metadata_request [vbytes cid; VInt corr; VList (map VStr topics)] = encode_metadata_request cid corr topics.
Proof.
  unfold ast_encode_metadata_request, encode_metadata_request. cbn [run]. rewrite run_item_for. dsl.
  rewrite llen_map, pack1, enc_all_map.
  rewrite (enc_all_ext _ write_short_ascii).
  2:{ intros t _. dsl. destruct (write_short_ascii t); cbn [bind]; [now rewrite app_nil_r|reflexivity]. }
  unfold METADATA_KEY. bind_cases.
Qed.

(* ------------------------------------------------------------------ FindCoordinator *)
Theorem consumermetadata_sound cid corr group :
  run ast_encode_consumermetadata_request [vbytes cid; VInt corr; VStr group] = encode_consumermetadata_request cid corr group.
Proof. unfold ast_encode_consumermetadata_request, encode_consumermetadata_request, CONSUMER_METADATA_KEY. dsl. bind_cases. Qed.

(* ------------------------------------------------------------------ Heartbeat, LeaveGroup *)
Theorem heartbeat_sound cid corr group gen member :
  run ast_encode_heartbeat_request
      [vbytes cid; VInt corr; VRec [("group", VStr group); ("generation_id", VInt gen); ("member_id", VStr member)]]
  = encode_heartbeat_request cid corr group gen member.
Proof.
  unfold ast_encode_heartbeat_request, encode_heartbeat_request, HEARTBEAT_KEY. dsl. rewrite pack1. bind_cases.
Qed.

Theorem leave_group_sound cid corr group member :
  run ast_encode_leave_group_request [vbytes cid; VInt corr; VRec [("group", VStr group); ("member_id", VStr member)]]
  = encode_leave_group_request cid corr group member.
Proof. unfold ast_encode_leave_group_request, encode_leave_group_request, LEAVE_GROUP_KEY. dsl. bind_cases. Qed.

(* ------------------------------------------------------------------ JoinGroup, SyncGroup and the embedded blobs *)
Definition join_val (p : join_group_request) : val :=
  VRec [("group", VStr (jg_group p)); ("session_timeout", VInt (jg_session_timeout p)); ("member_id", VStr (jg_member_id p));
        ("protocol_type", VStr (jg_protocol_type p));
        ("group_protocols", VList (map (fun gp : text * obytes =>
                                          VRec [("protocol_name", VStr (fst gp)); ("protocol_metadata", VStr (snd gp))])
                                       (jg_protocols p)))].

Theorem join_group_sound cid corr p :
  run ast_encode_join_group_request [vbytes cid; VInt corr; join_val p] = encode_join_group_request cid corr p.
Proof.
  unfold ast_encode_join_group_request, encode_join_group_request, JOIN_GROUP_KEY, join_val. cbn [run]. rewrite run_item_for. dsl.
  rewrite llen_map, !pack1, enc_all_map.
  rewrite (enc_all_ext _ (fun gp : text * obytes => do n <- write_short_ascii (fst gp); do md <- write_int_string (snd gp); Ok (n ++ md))).
  2:{ intros gp _. dsl. bind_cases. }
  bind_cases.
Qed.

Definition sync_val (p : sync_group_request) : val :=
  VRec [("group", VStr (sg_group p)); ("generation_id", VInt (sg_generation_id p)); ("member_id", VStr (sg_member_id p));
        ("group_assignment", VList (map (fun ma : text * obytes =>
                                           VRec [("member_id", VStr (fst ma)); ("member_metadata", VStr (snd ma))])
                                        (sg_assignment p)))].

Theorem sync_group_sound cid corr p :
  run ast_encode_sync_group_request [vbytes cid; VInt corr; sync_val p] = encode_sync_group_request cid corr p.
Proof.
  unfold ast_encode_sync_group_request, encode_sync_group_request, SYNC_GROUP_KEY, sync_val. cbn [run]. rewrite run_item_for. dsl.
  rewrite llen_map, !pack1, enc_all_map.
  rewrite (enc_all_ext _ (fun ma : text * obytes => do n <- write_short_text (fst ma); do md <- write_int_string (snd ma); Ok (n ++ md))).
  2:{ intros ma _. dsl. bind_cases. }
  bind_cases.
Qed.

Theorem join_protocol_metadata_sound version subs ud :
  run ast_encode_join_group_protocol_metadata [VInt version; VList (map VStr subs); VStr ud]
  = encode_join_group_protocol_metadata version subs ud.
Proof.
  unfold ast_encode_join_group_protocol_metadata, encode_join_group_protocol_metadata. cbn [run]. rewrite run_item_for. dsl.
  rewrite llen_map, enc_all_map.
  rewrite (enc_all_ext _ write_short_text).
  2:{ intros t _. dsl. destruct (write_short_text t); cbn [bind]; [now rewrite app_nil_r|reflexivity]. }
  bind_cases.
Qed.

Lemma ints_of_map l : ints_of (map VInt l) = Ok l.
Proof. induction l as [|x r IH]; cbn [map ints_of]; [reflexivity|]. rewrite IH. reflexivity. Qed.

Theorem sync_member_assignment_sound version asg ud :
  run ast_encode_sync_group_member_assignment
      [VInt version; VList (map (fun tp : text * list Z => VTup [VStr (fst tp); VList (map VInt (snd tp))]) asg); VStr ud]
  = encode_sync_group_member_assignment version asg ud.
Proof.
  unfold ast_encode_sync_group_member_assignment, encode_sync_group_member_assignment. cbn [run]. rewrite run_item_for. dsl.
  rewrite llen_map, enc_all_map.
  rewrite (enc_all_ext _ (fun tp : text * list Z =>
                            do n <- write_short_ascii (fst tp);
                            do ps <- pack_list ((Fi, len (snd tp)) :: map (fun x => (Fi, x)) (snd tp)); Ok (n ++ ps))).
  2:{ intros tp _. dsl. rewrite ints_of_map. cbn [bind]. bind_cases. }
  cbn [pack_list]. bind_cases.
Qed.

(* ------------------------------------------------------------------ grouped payloads *)
Lemma group_map_gen {P Q} (topic : P -> text) (part : P -> Z) (topic' : Q -> text) (part' : Q -> Z) (F : P -> Q) ps :
  (forall p, topic' (F p) = topic p) -> (forall p, part' (F p) = part p) ->
  group_by_topic_and_partition topic' part' (map F ps) = map_vals (map_vals F) (group_by_topic_and_partition topic part ps).
Proof.
  intros Ht Hp. induction ps as [|x ps IH] using rev_ind; [reflexivity|].
  rewrite map_app. cbn [map]. rewrite !group_snoc, IH. unfold group_step. rewrite Ht, Hp.
  symmetry. apply aset_map. intros o.
  rewrite (aset_map Z.eqb F (part x) (fun _ => x) (fun _ => F x)); [|reflexivity].
  destruct o; reflexivity.
Qed.

Definition vgrouped {P} (fv : P -> val) (g : list (text * list (Z * P))) : list val :=
  map (fun tp => VTup [VStr (fst tp); VList (map (fun pp => VTup [VInt (fst pp); fv (snd pp)]) (snd tp))]) g.

Lemma vgroup_map {P} (topic : P -> text) (part : P -> Z) (fv : P -> val) ps :
  (forall p, vtopic (fv p) = topic p) -> (forall p, vpartition (fv p) = part p) ->
  vgroup (map fv ps) = vgrouped fv (group_by_topic_and_partition topic part ps).
Proof.
  intros Ht Hp. unfold vgroup, vgrouped. rewrite (group_map_gen topic part vtopic vpartition fv ps Ht Hp).
  unfold map_vals. rewrite map_map. apply map_ext. intros [t inner]. cbn [fst snd]. rewrite map_map. reflexivity.
Qed.

(* the two nested loops over a grouped dict, against Model.Requests.encode_topics *)
Lemma grouped_loops {P} (fv : P -> val) (enc_part : Z * P -> res (list Z)) (inner_body : prog) env (g : list (text * list (Z * P))) :
  (forall t inner pt x, run inner_body ((env ++ [VTup [VStr t; VList (map (fun pp => VTup [VInt (fst pp); fv (snd pp)]) inner)]])
                                        ++ [VTup [VInt pt; fv x]]) = enc_part (pt, x)) ->
  enc_all (fun v => run [IAscii (EIdx (EVar (length env)) 0);
                         IPack [(Fi, ELen (EIdx (EVar (length env)) 1))];
                         IFor (EIdx (EVar (length env)) 1) inner_body] (env ++ [v])) (vgrouped fv g)
  = encode_topics enc_part g.
Proof.
  intros H. unfold vgrouped, encode_topics. rewrite enc_all_map. apply enc_all_ext. intros [t inner] _.
  cbn [run]. rewrite run_item_for.
  cbn [run_item eval_fields]. unfold eval_str, eval_int. cbn [eval].
  rewrite !nth_error_app2 by lia. rewrite !Nat.sub_diag. cbn [nth_error bind fst snd].
  rewrite llen_map, pack1, enc_all_map.
  rewrite (enc_all_ext _ enc_part).
  2:{ intros [pt x] _. apply H. }
  bind_cases.
Qed.

Lemma llen_vgrouped {P} (fv : P -> val) g : llen (vgrouped fv g) = llen g.
Proof. unfold vgrouped. apply llen_map. Qed.

(* ------------------------------------------------------------------ Fetch *)
Definition fetch_val (p : fetch_payload) : val :=
  VRec [("topic", VStr (fe_topic p)); ("partition", VInt (fe_partition p)); ("offset", VInt (fe_offset p));
        ("max_bytes", VInt (fe_max_bytes p))].

Definition offset_val (p : offset_payload) : val :=
  VRec [("topic", VStr (of_topic p)); ("partition", VInt (of_partition p)); ("time", VInt (of_time p));
        ("max_offsets", VInt (of_max_offsets p))].

Definition commit_val (p : commit_payload) : val :=
  VRec [("topic", VStr (co_topic p)); ("partition", VInt (co_partition p)); ("offset", VInt (co_offset p));
        ("timestamp", VInt (co_timestamp p)); ("metadata", VStr (co_metadata p))].

Theorem fetch_sound cid corr ps max_wait min_bytes v :
  run ast_encode_fetch_request [vbytes cid; VInt corr; VList (map fetch_val ps); VInt max_wait; VInt min_bytes; VInt v]
  = encode_fetch_request cid corr ps max_wait min_bytes v.
Proof.
  unfold ast_encode_fetch_request, encode_fetch_request, FETCH_KEY, fetch_header_version. cbn [run]. rewrite run_item_for.
  cbn [eval nth_error app]. rewrite (vgroup_map fe_topic fe_partition fetch_val ps) by reflexivity.
  pose proof (grouped_loops fetch_val
                (fun pp : Z * fetch_payload => pack_list [(Fi, fst pp); (Fq, fe_offset (snd pp)); (Fi, fe_max_bytes (snd pp))])
                [IPack [(Fi, EIdx (EVar 7) 0); (Fq, EField (EIdx (EVar 7) 1) "offset"); (Fi, EField (EIdx (EVar 7) 1) "max_bytes")]]
                [vbytes cid; VInt corr; VList (map fetch_val ps); VInt max_wait; VInt min_bytes; VInt v]
                (group_by_topic_and_partition fe_topic fe_partition ps)) as G.
  cbn [length app] in G. rewrite G; [|intros; unfold fetch_val, offset_val, commit_val; dsl; bind_cases]. clear G.
  dsl. rewrite (vgroup_map fe_topic fe_partition fetch_val ps) by reflexivity. dsl. rewrite llen_vgrouped.
  unfold eval_int. cbn [eval nth_error]. destruct (2 <=? v)%Z; dsl; bind_cases.
Qed.

(* ------------------------------------------------------------------ ListOffsets *)
Theorem offset_sound cid corr ps :
  run ast_encode_offset_request [vbytes cid; VInt corr; VList (map offset_val ps)] = encode_offset_request cid corr ps.
Proof.
  unfold ast_encode_offset_request, encode_offset_request, OFFSET_KEY. cbn [run]. rewrite run_item_for.
  cbn [eval nth_error app]. rewrite (vgroup_map of_topic of_partition offset_val ps) by reflexivity.
  pose proof (grouped_loops offset_val
                (fun pp : Z * offset_payload => pack_list [(Fi, fst pp); (Fq, of_time (snd pp)); (Fi, of_max_offsets (snd pp))])
                [IPack [(Fi, EIdx (EVar 4) 0); (Fq, EField (EIdx (EVar 4) 1) "time"); (Fi, EField (EIdx (EVar 4) 1) "max_offsets")]]
                [vbytes cid; VInt corr; VList (map offset_val ps)]
                (group_by_topic_and_partition of_topic of_partition ps)) as G.
  cbn [length app] in G. rewrite G; [|intros; unfold fetch_val, offset_val, commit_val; dsl; bind_cases]. clear G.
  dsl. rewrite (vgroup_map of_topic of_partition offset_val ps) by reflexivity. dsl. rewrite llen_vgrouped.
  bind_cases.
Qed.

(* ------------------------------------------------------------------ OffsetCommit *)
Theorem offset_commit_sound cid corr group gen consumer ps :
  run ast_encode_offset_commit_request [vbytes cid; VInt corr; VStr group; VInt gen; VStr consumer; VList (map commit_val ps)]
  = encode_offset_commit_request cid corr group gen consumer ps.
Proof.
  unfold ast_encode_offset_commit_request, encode_offset_commit_request, OFFSET_COMMIT_KEY. cbn [run]. rewrite run_item_for.
  cbn [eval nth_error app]. rewrite (vgroup_map co_topic co_partition commit_val ps) by reflexivity.
  pose proof (grouped_loops commit_val
                (fun pp : Z * commit_payload =>
                   do f <- pack_list [(Fi, fst pp); (Fq, co_offset (snd pp)); (Fq, co_timestamp (snd pp))];
                   do m <- write_short_bytes (co_metadata (snd pp)); Ok (f ++ m))
                [IPack [(Fi, EIdx (EVar 7) 0); (Fq, EField (EIdx (EVar 7) 1) "offset"); (Fq, EField (EIdx (EVar 7) 1) "timestamp")];
                 IShortBytes (EField (EIdx (EVar 7) 1) "metadata")]
                [vbytes cid; VInt corr; VStr group; VInt gen; VStr consumer; VList (map commit_val ps)]
                (group_by_topic_and_partition co_topic co_partition ps)) as G.
  cbn [length app] in G. rewrite G; [|intros; unfold fetch_val, offset_val, commit_val; dsl; bind_cases]. clear G.
  dsl. rewrite (vgroup_map co_topic co_partition commit_val ps) by reflexivity. dsl. rewrite llen_vgrouped, !pack1.
  bind_cases.
Qed.

(* ------------------------------------------------------------------ OffsetFetch: the inner loop runs over the dict KEYS *)
Definition ofetch_val (p : ofetch_payload) : val :=
  VRec [("topic", VStr (og_topic p)); ("partition", VInt (og_partition p))].

Theorem offset_fetch_sound cid corr group ps :
  run ast_encode_offset_fetch_request [vbytes cid; VInt corr; VStr group; VList (map ofetch_val ps)]
  = encode_offset_fetch_request cid corr group ps.
Proof.
  unfold ast_encode_offset_fetch_request, encode_offset_fetch_request, OFFSET_FETCH_KEY. cbn [run]. rewrite run_item_for.
  cbn [eval nth_error app]. rewrite (vgroup_map og_topic og_partition ofetch_val ps) by reflexivity.
  assert (G : enc_all (fun v => run [IAscii (EIdx (EVar 4) 0); IPack [(Fi, ELen (EIdx (EVar 4) 1))];
                                     IFor (EKeys (EIdx (EVar 4) 1)) [IPack [(Fi, EVar 5)]]]
                                    ([vbytes cid; VInt corr; VStr group; VList (map ofetch_val ps)] ++ [v]))
                      (vgrouped ofetch_val (group_by_topic_and_partition og_topic og_partition ps))
              = encode_topics (fun pp : Z * ofetch_payload => pack Fi (fst pp))
                              (group_by_topic_and_partition og_topic og_partition ps)).
  { unfold vgrouped, encode_topics. rewrite enc_all_map. apply enc_all_ext. intros [t inner] _.
    cbn [run]. rewrite run_item_for. dsl. rewrite llen_map, pack1, map_map. cbn [fst snd]. rewrite enc_all_map.
    rewrite (enc_all_ext _ (fun pp : Z * ofetch_payload => pack Fi (fst pp))).
    2:{ intros [pt x] _. dsl. rewrite pack1. destruct (pack Fi pt); cbn [bind]; [now rewrite app_nil_r|reflexivity]. }
    bind_cases. }
  cbn [app] in G. rewrite G. clear G.
  dsl. rewrite (vgroup_map og_topic og_partition ofetch_val ps) by reflexivity. dsl. rewrite llen_vgrouped, !pack1.
  bind_cases.
Qed.

(* ================================================================== the clocked part: messages, message sets, Produce *)
Lemma msg_of_msg_val m : msg_of_val (msg_val m) = Some m.
Proof. destruct m as [mg at_ k v [t|]]; reflexivity. Qed.

Lemma msgs_of_msg_vals ms : msgs_of_vals (map msg_val ms) = Some ms.
Proof. induction ms as [|m r IH]; cbn [map msgs_of_vals]; [reflexivity|]. now rewrite msg_of_msg_val, IH. Qed.

Ltac dslc := cbn [runc runc_item pure_c run_item eval eval_int eval_str eval_fields eval_cond nth_error app vfield assoc
                  String.eqb Ascii.eqb Bool.eqb bind vbytes fst snd].

(* ------------------------------------------------------------------ _encode_message *)
Theorem message_sound clock k m :
  runc ast_encode_message [msg_val m] clock k
  = do b <- encode_message (clock k) m; Ok (b, if uses_clock m then S k else k).
Proof.
  unfold ast_encode_message, encode_message, uses_clock, msg_val. cbn [runc]. rewrite runc_item_cond.
  cbn [eval_cond eval nth_error vfield assoc String.eqb Ascii.eqb Bool.eqb].
  destruct (m_magic m =? 0)%Z eqn:M0.
  - cbn [runc]. rewrite runc_item_crc, runc_simple by reflexivity. unfold pure_c. dsl. cbn [pack_list].
    assert (M1 : (m_magic m =? 1)%Z = false) by (apply Z.eqb_eq in M0; rewrite M0; reflexivity).
    rewrite M1. cbn [andb]. bind_cases.
  - cbn [runc]. rewrite runc_item_cond. cbn [eval_cond eval nth_error vfield assoc String.eqb Ascii.eqb Bool.eqb].
    destruct (m_magic m =? 1)%Z eqn:M1; [|reflexivity]. cbn [andb].
    cbn [runc]. rewrite runc_item_cond. cbn [eval_cond eval nth_error vfield assoc String.eqb Ascii.eqb Bool.eqb].
    destruct (m_ts m) as [t|].
    + cbn [runc]. rewrite runc_item_crc, runc_simple by reflexivity. unfold pure_c. dsl. cbn [pack_list]. bind_cases.
    + cbn [runc]. rewrite runc_item_letnow. cbn [runc]. rewrite runc_item_crc, runc_simple by reflexivity.
      unfold pure_c. dsl. cbn [pack_list]. bind_cases.
Qed.

(* ------------------------------------------------------------------ _encode_message_set *)
Definition optint_val (o : option Z) : val := match o with Some z => VInt z | None => VNone end.

Lemma clock_uses_cons m r k :
  ((if uses_clock m then S k else k) + clock_uses r = k + clock_uses (m :: r))%nat.
Proof. unfold clock_uses. cbn [filter]. destruct (uses_clock m); cbn [length]; lia. Qed.

Definition set_body : prog :=
  [ICond (CEq (EVar 2) 0)
     [ILetMessage (EVar 4)
        [IPack [(Fq, EAdd (EIfNone (EVar 1) (EConst 0) (EVar 1)) (EMul (EVar 3) (EIfNone (EVar 1) (EConst 0) (EConst 1)))); (Fi, ELen (EVar 5))];
         IRaw (EVar 5)]]
     [ICond (CEq (EVar 2) 1)
        [ILetMessage (EVar 4)
           [IPack [(Fq, EAdd (EIfNone (EVar 1) (EConst 0) (EVar 1)) (EMul (EVar 3) (EIfNone (EVar 1) (EConst 0) (EConst 1)))); (Fi, ELen (EVar 5))];
            IRaw (EVar 5)]]
        [IRaise NameErr]]].

Lemma message_set_loop clock msgsv offset magic : forall msgs n k,
  let o0 := match offset with Some o => o | None => 0%Z end in
  let incr := match offset with Some _ => 1%Z | None => 0%Z end in
  foldc (fun n v k => runc set_body [VList msgsv; optint_val offset; VInt magic; VInt (Z.of_nat n); v] clock k)
        (map msg_val msgs) n k
  = do b <- encode_message_set_from clock k msgs (o0 + Z.of_nat n * incr)%Z incr magic; Ok (b, (k + clock_uses msgs)%nat).
Proof.
  intros msgs. induction msgs as [|m r IH]; intros n k o0 incr; cbn [map foldc encode_message_set_from].
  - cbn [bind]. unfold clock_uses. cbn. now rewrite Nat.add_0_r.
  - unfold set_body at 1. cbn [runc app]. rewrite runc_item_cond. cbn [eval_cond eval nth_error].
    assert (OFF : eval [VList msgsv; optint_val offset; VInt magic; VInt (Z.of_nat n); msg_val m]
                    (EAdd (EIfNone (EVar 1) (EConst 0) (EVar 1)) (EMul (EVar 3) (EIfNone (EVar 1) (EConst 0) (EConst 1))))
                  = Some (VInt (o0 + Z.of_nat n * incr))).
    { subst o0 incr. destruct offset as [o|]; reflexivity. }
    assert (STEP : forall k' b,
              runc [IPack [(Fq, EAdd (EIfNone (EVar 1) (EConst 0) (EVar 1)) (EMul (EVar 3) (EIfNone (EVar 1) (EConst 0) (EConst 1)))); (Fi, ELen (EVar 5))];
                    IRaw (EVar 5)]
                   ([VList msgsv; optint_val offset; VInt magic; VInt (Z.of_nat n); msg_val m] ++ [VStr (Some b)]) clock k'
              = do h <- pack_list [(Fq, (o0 + Z.of_nat n * incr)%Z); (Fi, len b)]; Ok (h ++ b, k')).
    { intros k' b. rewrite runc_simple by reflexivity. unfold pure_c. cbn [run run_item eval_fields app]. unfold eval_int.
      change (eval [VList msgsv; optint_val offset; VInt magic; VInt (Z.of_nat n); msg_val m; VStr (Some b)]
                   (EAdd (EIfNone (EVar 1) (EConst 0) (EVar 1)) (EMul (EVar 3) (EIfNone (EVar 1) (EConst 0) (EConst 1)))))
        with (eval [VList msgsv; optint_val offset; VInt magic; VInt (Z.of_nat n); msg_val m]
                   (EAdd (EIfNone (EVar 1) (EConst 0) (EVar 1)) (EMul (EVar 3) (EIfNone (EVar 1) (EConst 0) (EConst 1))))).
      rewrite OFF. dsl. bind_cases. }
    specialize (IH (S n) (if uses_clock m then S k else k)). cbv zeta in IH. fold o0 in IH. fold incr in IH.
    replace (o0 + Z.of_nat (S n) * incr)%Z with (o0 + Z.of_nat n * incr + incr)%Z in IH by lia.
    destruct (magic =? 0)%Z eqn:M0; [|destruct (magic =? 1)%Z eqn:M1]; cbn [orb].
    + cbn [runc]. rewrite runc_item_letmessage. cbn [eval nth_error]. rewrite msg_of_msg_val.
      destruct (encode_message (clock k) m) as [e|]; cbn [bind]; [|reflexivity].
      rewrite STEP. destruct (pack_list [(Fq, (o0 + Z.of_nat n * incr)%Z); (Fi, len e)]) as [h|]; cbn [bind fst snd]; [|reflexivity].
      rewrite IH. destruct (encode_message_set_from clock _ r _ incr magic) as [t|]; cbn [bind fst snd]; [|reflexivity].
      rewrite clock_uses_cons, !app_nil_r, <- app_assoc. reflexivity.
    + cbn [runc]. rewrite runc_item_cond. cbn [eval_cond eval nth_error]. rewrite M1.
      cbn [runc]. rewrite runc_item_letmessage. cbn [eval nth_error]. rewrite msg_of_msg_val.
      destruct (encode_message (clock k) m) as [e|]; cbn [bind]; [|reflexivity].
      rewrite STEP. destruct (pack_list [(Fq, (o0 + Z.of_nat n * incr)%Z); (Fi, len e)]) as [h|]; cbn [bind fst snd]; [|reflexivity].
      rewrite IH. destruct (encode_message_set_from clock _ r _ incr magic) as [t|]; cbn [bind fst snd]; [|reflexivity].
      rewrite clock_uses_cons, !app_nil_r, <- app_assoc. reflexivity.
    + cbn [runc]. rewrite runc_item_cond. cbn [eval_cond eval nth_error]. rewrite M1. reflexivity.
Qed.

Theorem message_set_sound clock k msgs offset magic :
  runc ast_encode_message_set [VList (map msg_val msgs); optint_val offset; VInt magic] clock k
  = do b <- encode_message_set clock k msgs offset magic; Ok (b, (k + clock_uses msgs)%nat).
Proof.
  unfold ast_encode_message_set. fold set_body. cbn [runc]. rewrite runc_item_foridx. cbn [eval nth_error app].
  rewrite (message_set_loop clock (map msg_val msgs) offset magic msgs O k). cbn [Z.of_nat].
  unfold encode_message_set. destruct offset as [o|]; rewrite Z.mul_0_l, Z.add_0_r;
    destruct (encode_message_set_from clock k msgs _ _ magic); cbn [bind fst snd]; rewrite ?app_nil_r; reflexivity.
Qed.

(* ------------------------------------------------------------------ Produce, in full: the clock is threaded *)
Definition produce_val (p : produce_payload) : val :=
  VRec [("topic", VStr (pr_topic p)); ("partition", VInt (pr_partition p)); ("messages", VList (map msg_val (pr_messages p)))].

Definition group_clock_uses (g : list (text * list (Z * produce_payload))) : nat :=
  fold_right (fun tp n => (topic_clock_uses (snd tp) + n)%nat) O g.
Definition produce_clock_uses (ps : list produce_payload) : nat :=
  group_clock_uses (group_by_topic_and_partition pr_topic pr_partition ps).

Definition part_body : prog :=
  [ILetMsgSet (EField (EIdx (EVar 7) 1) "messages") (EIfGe (EVar 5) 2 (EConst 1) (EConst 0))
     [IPack [(Fi, EIdx (EVar 7) 0); (Fi, ELen (EVar 8))]; IRaw (EVar 8)]].
Definition topic_body : prog :=
  [IAscii (EIdx (EVar 6) 0); IPack [(Fi, ELen (EIdx (EVar 6) 1))]; IFor (EIdx (EVar 6) 1) part_body].

Section ProduceLoops.
  Variables (clock : nat -> Z) (cid : list Z) (corr : Z) (psv : val) (acks timeout v : Z).
  Let pv (pp : Z * produce_payload) : val := VTup [VInt (fst pp); produce_val (snd pp)].

  Lemma parts_loop vt : forall inner i k,
    foldc (fun _ x k => runc part_body [vbytes cid; VInt corr; psv; VInt acks; VInt timeout; VInt v; vt; x] clock k) (map pv inner) i k
    = do b <- encode_produce_partitions clock k (produce_magic v) inner; Ok (b, (k + topic_clock_uses inner)%nat).
  Proof.
    induction inner as [|[pt x] r IH]; intros i k; cbn [map foldc encode_produce_partitions topic_clock_uses fold_right].
    - cbn [bind]. now rewrite Nat.add_0_r.
    - unfold part_body at 1. cbn [runc]. rewrite runc_item_letmsgset. subst pv. unfold produce_val at 1.
      cbn [app eval nth_error vfield assoc String.eqb Ascii.eqb Bool.eqb fst snd]. rewrite msgs_of_msg_vals.
      unfold eval_int. cbn [eval nth_error]. unfold produce_magic.
      assert (MG : match (if (2 <=? v)%Z then Some (VInt 1) else Some (VInt 0)) with Some (VInt z) => Ok z | _ => Err TypeErr end
                   = Ok (if (2 <=? v)%Z then 1 else 0)%Z) by (destruct (2 <=? v)%Z; reflexivity).
      rewrite MG. cbn [bind].
      destruct (encode_message_set clock k (pr_messages x) None (if (2 <=? v)%Z then 1 else 0)%Z) as [ms|]; cbn [bind]; [|reflexivity].
      rewrite runc_simple by reflexivity. unfold pure_c. dsl. cbn [fst snd].
      destruct (pack_list [(Fi, pt); (Fi, len ms)]) as [ph|]; cbn [bind fst snd]; [|reflexivity].
      rewrite (IH (S i) (k + clock_uses (pr_messages x))%nat). fold (produce_magic v).
      destruct (encode_produce_partitions clock (k + clock_uses (pr_messages x)) (produce_magic v) r) as [t|]; cbn [bind fst snd]; [|reflexivity].
      rewrite !app_nil_r, <- app_assoc, Nat.add_assoc. reflexivity.
  Qed.

  Lemma topics_loop : forall g i k,
    foldc (fun _ x k => runc topic_body [vbytes cid; VInt corr; psv; VInt acks; VInt timeout; VInt v; x] clock k) (vgrouped produce_val g) i k
    = do b <- encode_produce_topics clock k (produce_magic v) g; Ok (b, (k + group_clock_uses g)%nat).
  Proof.
    induction g as [|[t inner] r IH]; intros i k; cbn [vgrouped map foldc encode_produce_topics group_clock_uses fold_right].
    - cbn [bind]. now rewrite Nat.add_0_r.
    - unfold topic_body at 1. cbn [runc fst snd].
      rewrite runc_item_simple by reflexivity. unfold pure_c at 1. cbn [run_item]. unfold eval_str. cbn [eval nth_error bind].
      destruct (write_short_ascii t) as [n|]; cbn [bind fst snd]; [|reflexivity].
      rewrite runc_item_simple by reflexivity. unfold pure_c at 1. cbn [run_item eval_fields]. unfold eval_int. cbn [eval nth_error bind].
      rewrite llen_map, pack1.
      destruct (pack Fi (llen inner)) as [c|]; cbn [bind fst snd]; [|reflexivity].
      rewrite runc_item_for. cbn [eval nth_error app].
      pose proof (parts_loop (VTup [VStr t; VList (map (fun pp : Z * produce_payload => VTup [VInt (fst pp); produce_val (snd pp)]) inner)]) inner O k) as PL.
      subst pv. rewrite PL. clear PL.
      destruct (encode_produce_partitions clock k (produce_magic v) inner) as [ps|]; cbn [bind fst snd]; [|reflexivity].
      pose proof (IH (S i) (k + topic_clock_uses inner)%nat) as IH'. unfold vgrouped in IH'. rewrite IH'.
      destruct (encode_produce_topics clock (k + topic_clock_uses inner) (produce_magic v) r) as [tt|]; cbn [bind fst snd]; [|reflexivity].
      rewrite !app_nil_r, <- !app_assoc, Nat.add_assoc. reflexivity.
  Qed.
End ProduceLoops.

Theorem produce_sound clock cid corr ps acks timeout v :
  runc ast_encode_produce_request [vbytes cid; VInt corr; VList (map produce_val ps); VInt acks; VInt timeout; VInt v] clock O
  = do w <- encode_produce_request clock cid corr ps acks timeout v; Ok (w, produce_clock_uses ps).
Proof.
  unfold ast_encode_produce_request, encode_produce_request, PRODUCE_KEY, produce_header_version, produce_clock_uses.
  fold part_body. fold topic_body. cbn [runc].
  pose proof (topics_loop clock cid corr (VList (map produce_val ps)) acks timeout v
                (group_by_topic_and_partition pr_topic pr_partition ps) O) as TL.
  rewrite runc_item_simple by reflexivity. unfold pure_c at 1. cbn [run_item]. unfold eval_str, eval_int. cbn [eval nth_error vbytes bind].
  assert (HV : match (if (2 <=? v)%Z then Some (VInt 2) else Some (VInt v)) with Some (VInt z) => Ok z | _ => Err TypeErr end
               = Ok (if (2 <=? v)%Z then 2 else v)%Z) by (destruct (2 <=? v)%Z; reflexivity).
  rewrite HV. cbn [bind].
  destruct (encode_message_header cid corr 0 (if (2 <=? v)%Z then 2 else v)%Z) as [h|]; cbn [bind fst snd]; [|reflexivity].
  rewrite runc_item_simple by reflexivity. unfold pure_c at 1. cbn [run_item eval_fields]. unfold eval_int. cbn [eval nth_error bind].
  rewrite (vgroup_map pr_topic pr_partition produce_val ps) by reflexivity. rewrite llen_vgrouped.
  destruct (pack_list [(Fh, acks); (Fi, timeout); (Fi, llen (group_by_topic_and_partition pr_topic pr_partition ps))]) as [b|];
    cbn [bind fst snd]; [|reflexivity].
  rewrite runc_item_for. cbn [eval nth_error app].
  rewrite (vgroup_map pr_topic pr_partition produce_val ps) by reflexivity. rewrite TL.
  destruct (encode_produce_topics clock 0 (produce_magic v) (group_by_topic_and_partition pr_topic pr_partition ps)) as [t|];
    cbn [bind fst snd]; [|reflexivity].
  rewrite !app_nil_r. reflexivity.
Qed.
