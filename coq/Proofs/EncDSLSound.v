(* Translator tie of C04: what the committed encoder-language terms (Model/EncAst.v) compute.
   For every encoder X and ALL arguments:   run ast_X (the arguments as values) = Model.Requests.encode_X arguments,
   i.e. the term the translator must produce from the source denotes the hand-written model the C04 theorems are about. *)
From Coq Require Import String Lia.
From AV Require Import Base.Util Model.Prim Model.MsgSet Model.Requests Model.EncDSL Model.EncAst
     Proofs.ReqParseGroup Proofs.ReqParseProducer.
Open Scope string_scope.

(* ---- arguments as values ---- *)
Definition vbytes (b : list Z) : val := VStr (Some b).
Definition vpair (f g : text -> val) (p : text * obytes) : val := VTup [f (fst p); g (snd p)].

(* ---- generic facts ---- *)
Lemma enc_all_map {A B} (f : B -> res (list Z)) (g : A -> B) l : enc_all f (map g l) = enc_all (fun a => f (g a)) l.
Proof. induction l as [|x r IH]; cbn [map enc_all]; [reflexivity|]. now rewrite IH. Qed.

Lemma llen_map {A B} (g : A -> B) l : llen (map g l) = llen l.
Proof. unfold llen. now rewrite map_length. Qed.

Lemma pack1 f z : pack_list [(f, z)] = pack f z.
Proof. cbn [pack_list]. destruct (pack f z); cbn [bind]; [now rewrite app_nil_r|reflexivity]. Qed.

(* flatten nested do-blocks by cases on every step, then compare the concatenations *)
Ltac bind_cases :=
  repeat match goal with
         | |- context [bind ?e _] =>
             lazymatch e with
             | bind _ _ => fail
             | _ => destruct e; cbn [bind]
             end
         end;
  rewrite ?app_nil_r, <- ?app_assoc; try reflexivity.

Ltac dsl := cbn [run run_item eval eval_int eval_str eval_fields nth_error app vfield assoc String.eqb Ascii.eqb Bool.eqb
                 bind vbytes fst snd].

(* ------------------------------------------------------------------ _encode_message_header *)
Theorem header_sound cid corr key ver :
  run ast_encode_message_header [vbytes cid; VInt corr; VInt key; VInt ver] = encode_message_header cid corr key ver.
Proof. unfold ast_encode_message_header, encode_message_header. dsl. bind_cases. Qed.

(* ------------------------------------------------------------------ ApiVersions *)
Theorem api_versions_sound cid corr key ver :
  run ast_encode_api_versions_request [vbytes cid; VInt corr; VRec [("api_key", VInt key); ("api_version", VInt ver)]]
  = encode_api_versions_request cid corr key ver.
Proof. unfold ast_encode_api_versions_request, encode_api_versions_request. dsl. bind_cases. Qed.

(* ------------------------------------------------------------------ Metadata *)
Theorem metadata_sound cid corr topics :
  run ast_encode_metadata_request [vbytes cid; VInt corr; VList (map VStr topics)] = encode_metadata_request cid corr topics.
Proof.
  unfold ast_encode_metadata_request, encode_metadata_request. cbn [run]. rewrite run_item_for. dsl.
  rewrite llen_map, pack1, enc_all_map.
  rewrite (enc_all_ext _ write_short_ascii).
  2:{ intros t _. dsl. destruct (write_short_ascii t); cbn [bind]; [now rewrite app_nil_r|reflexivity]. }
  unfold METADATA_KEY. bind_cases.
Qed.

(* ------------------------------------------------------------------ FindCoordinator *)
Theorem consumermetadata_sound cid corr group :
  run ast_encode_consumermetadata_request [vbytes cid; VInt corr; VStr group] = encode_consumermetadata_request cid corr group.
Proof. unfold ast_encode_consumermetadata_request, encode_consumermetadata_request, CONSUMER_METADATA_KEY. dsl. bind_cases. Qed.

(* ------------------------------------------------------------------ Heartbeat, LeaveGroup *)
Theorem heartbeat_sound cid corr group gen member :
  run ast_encode_heartbeat_request
      [vbytes cid; VInt corr; VRec [("group", VStr group); ("generation_id", VInt gen); ("member_id", VStr member)]]
  = encode_heartbeat_request cid corr group gen member.
Proof.
  unfold ast_encode_heartbeat_request, encode_heartbeat_request, HEARTBEAT_KEY. dsl. rewrite pack1. bind_cases.
Qed.

Theorem leave_group_sound cid corr group member :
  run ast_encode_leave_group_request [vbytes cid; VInt corr; VRec [("group", VStr group); ("member_id", VStr member)]]
  = encode_leave_group_request cid corr group member.
Proof. unfold ast_encode_leave_group_request, encode_leave_group_request, LEAVE_GROUP_KEY. dsl. bind_cases. Qed.
