(* C05, part 1: the protocol guide's primitive types (Model.KafkaSpecResp) are read back by afkak's primitive readers
   (Model.Prim) and counted loops (Model.Responses), whatever follows them in the buffer.

     INTn v ++ rest           --read_iN-->        (v, rest)             for v in the range of the type
     STRING s ++ rest         --read_short_ascii/text--> (s, rest)      for |s| <= 32767, s valid ASCII / UTF-8
     NULLABLE_STRING s ++ rest --read_short_bytes--> (s, rest)          null stays null, empty stays empty
     (NULLABLE_)BYTES b ++ rest --read_int_string--> (b, rest)          for |b| <= 2^31-1
     ARRAY elem xs            the counted loops [for_range]/[loop]/[read_n]/[read_ints] read back the elements one by
                              one when the body reads back one element ([for_range_ok], [loop_ok], [read_n_ok])

   Every API theorem of Proofs/RespRoundTrip.v is a composition of these. *)
From Coq Require Import Lia.
From AV Require Import Base.Util Model.Prim Model.Crc Model.MsgSet Model.KafkaSpecResp Model.Responses Model.RespView
     Proofs.PrimFacts.

(* ------------------------------------------------------------------ booleans *)
Ltac split_andb :=
  repeat match goal with
         | H : andb _ _ = true |- _ => apply andb_prop in H; destruct H
         end.

Lemma i16_range v : in_i16 v = true <-> -32768 <= v <= 32767.
Proof. unfold in_i16. rewrite andb_true_iff, !Z.leb_le. tauto. Qed.
Lemma i32_range v : in_i32 v = true <-> -2147483648 <= v <= 2147483647.
Proof. unfold in_i32. rewrite andb_true_iff, !Z.leb_le. tauto. Qed.
Lemma i64_range v : in_i64 v = true <-> -9223372036854775808 <= v <= 9223372036854775807.
Proof. unfold in_i64. rewrite andb_true_iff, !Z.leb_le. tauto. Qed.
Lemma u8_range v : in_u8 v = true <-> 0 <= v <= 255.
Proof. unfold in_u8. rewrite andb_true_iff, !Z.leb_le. tauto. Qed.
Lemma u32_range v : in_u32 v = true <-> 0 <= v <= 4294967295.
Proof. unfold in_u32. rewrite andb_true_iff, !Z.leb_le. tauto. Qed.

(* ------------------------------------------------------------------ the grammar's integers are struct.pack's *)
Lemma INT8_enc v : INT8 v = enc_be 1 v.
Proof. reflexivity. Qed.
Lemma INT16_enc v : INT16 v = enc_be 2 v.
Proof. reflexivity. Qed.
Lemma INT32_enc v : INT32 v = enc_be 4 v.
Proof. reflexivity. Qed.
Lemma INT64_enc v : INT64 v = enc_be 8 v.
Proof. reflexivity. Qed.

Lemma INT8_length v : length (INT8 v) = 1%nat. Proof. reflexivity. Qed.
Lemma INT16_length v : length (INT16 v) = 2%nat. Proof. reflexivity. Qed.
Lemma INT32_length v : length (INT32 v) = 4%nat. Proof. reflexivity. Qed.
Lemma INT64_length v : length (INT64 v) = 8%nat. Proof. reflexivity. Qed.

Lemma unpack_enc f v rest : fmt_in f v = true -> unpack f (enc_be (fmt_size f) v ++ rest) = Ok (v, rest).
Proof. intros H. apply unpack_pack. unfold pack. now rewrite H. Qed.

Lemma rd_i8 v rest : in_i8 v = true -> read_i8 (INT8 v ++ rest) = Ok (v, rest).
Proof. intros H. rewrite INT8_enc. now apply (unpack_enc Fb). Qed.
Lemma rd_u8 v rest : in_u8 v = true -> read_u8 (INT8 v ++ rest) = Ok (v, rest).
Proof. intros H. rewrite INT8_enc. now apply (unpack_enc FB). Qed.
Lemma rd_i16 v rest : in_i16 v = true -> read_i16 (INT16 v ++ rest) = Ok (v, rest).
Proof. intros H. rewrite INT16_enc. now apply (unpack_enc Fh). Qed.
Lemma rd_i32 v rest : in_i32 v = true -> read_i32 (INT32 v ++ rest) = Ok (v, rest).
Proof. intros H. rewrite INT32_enc. now apply (unpack_enc Fi). Qed.
Lemma rd_u32 v rest : in_u32 v = true -> read_u32 (INT32 v ++ rest) = Ok (v, rest).
Proof. intros H. rewrite INT32_enc. now apply (unpack_enc FI). Qed.
Lemma rd_i64 v rest : in_i64 v = true -> read_i64 (INT64 v ++ rest) = Ok (v, rest).
Proof. intros H. rewrite INT64_enc. now apply (unpack_enc Fq). Qed.

(* the bytes of an integer field are bytes *)
Lemma enc_be_bytes_ok n v : bytes_ok (enc_be n v) = true.
Proof.
  induction n as [|k IH]; [reflexivity|]. cbn [enc_be bytes_ok forallb]. unfold bytes_ok in IH. rewrite IH.
  pose proof (Z.mod_pos_bound (v / 256 ^ Z.of_nat k) 256 ltac:(lia)) as B.
  unfold is_byte. replace (0 <=? _) with true by (symmetry; apply Z.leb_le; lia).
  replace (_ <? 256) with true by (symmetry; apply Z.ltb_lt; lia). reflexivity.
Qed.
Lemma INT8_bytes v : bytes_ok (INT8 v) = true. Proof. rewrite INT8_enc. apply enc_be_bytes_ok. Qed.
Lemma INT16_bytes v : bytes_ok (INT16 v) = true. Proof. rewrite INT16_enc. apply enc_be_bytes_ok. Qed.
Lemma INT32_bytes v : bytes_ok (INT32 v) = true. Proof. rewrite INT32_enc. apply enc_be_bytes_ok. Qed.
Lemma INT64_bytes v : bytes_ok (INT64 v) = true. Proof. rewrite INT64_enc. apply enc_be_bytes_ok. Qed.
Lemma bytes_ok_app a b : bytes_ok (a ++ b) = bytes_ok a && bytes_ok b.
Proof. apply forallb_app. Qed.

(* ------------------------------------------------------------------ lengths *)
Lemma blen_len (b : list Z) : blen b = len b.
Proof. reflexivity. Qed.
Lemma blen_nonneg {A} (l : list A) : 0 <= blen l.
Proof. unfold blen. lia. Qed.
Lemma blen_i32 {A} (l : list A) : count_ok l = true -> in_i32 (blen l) = true.
Proof. unfold count_ok, MAX32. intros H. apply Z.leb_le in H. pose proof (blen_nonneg l). apply i32_range. lia. Qed.

(* ------------------------------------------------------------------ strings and byte fields *)
Lemma rd_string_some f b rest :
  fmt_in f (len b) = true -> read_string f (enc_be (fmt_size f) (len b) ++ b ++ rest) = Ok (Some b, rest).
Proof. intros H. apply read_string_prefixed. unfold pack. now rewrite H. Qed.
Lemma rd_string_none f rest :
  fmt_in f (-1) = true -> read_string f (enc_be (fmt_size f) (-1) ++ rest) = Ok (None, rest).
Proof. intros H. apply read_string_null. unfold pack. now rewrite H. Qed.

Lemma short_len_ok b : len b <=? 32767 = true -> fmt_in Fh (len b) = true.
Proof. intros H. apply Z.leb_le in H. pose proof (len_nonneg b). apply i16_range. lia. Qed.
Lemma long_len_ok b : long_bytes b = true -> fmt_in Fi (len b) = true.
Proof. unfold long_bytes, MAX32. intros H. apply Z.leb_le in H. pose proof (len_nonneg b). apply i32_range. lia. Qed.

(* STRING, as bytes *)
Lemma rd_short_bytes_string s rest :
  len s <=? 32767 = true -> read_short_bytes (STRING s ++ rest) = Ok (Some s, rest).
Proof.
  intros H. unfold STRING, read_short_bytes. rewrite <- app_assoc, blen_len, INT16_enc.
  apply (rd_string_some Fh). now apply short_len_ok.
Qed.
(* NULLABLE_STRING: null stays null, empty stays empty *)
Lemma rd_short_bytes_nullable s rest :
  short_bytes s = true -> read_short_bytes (NULLABLE_STRING s ++ rest) = Ok (s, rest).
Proof.
  destruct s as [b|]; cbn [short_bytes NULLABLE_STRING]; intros H.
  - now apply rd_short_bytes_string.
  - unfold read_short_bytes. rewrite INT16_enc. now apply (rd_string_none Fh).
Qed.
(* STRING decoded as ASCII / UTF-8 text *)
Lemma rd_short_ascii s rest : ascii_string s = true -> read_short_ascii (STRING s ++ rest) = Ok (s, rest).
Proof.
  unfold ascii_string. intros H. split_andb. unfold read_short_ascii, read_short_decoded.
  rewrite rd_short_bytes_string by assumption. cbn [bind]. now replace (ascii_valid s) with true.
Qed.
Lemma rd_short_text s rest : text_string s = true -> read_short_text (STRING s ++ rest) = Ok (s, rest).
Proof.
  unfold text_string. intros H. split_andb. unfold read_short_text, read_short_decoded.
  rewrite rd_short_bytes_string by assumption. cbn [bind]. now replace (utf8_valid s) with true.
Qed.

(* BYTES / NULLABLE_BYTES *)
Lemma rd_bytes b rest : long_bytes b = true -> read_int_string (BYTES b ++ rest) = Ok (Some b, rest).
Proof.
  intros H. unfold BYTES, read_int_string. rewrite <- app_assoc, blen_len, INT32_enc.
  apply (rd_string_some Fi). now apply long_len_ok.
Qed.
Lemma rd_nullable_bytes b rest :
  opt_long_bytes b = true -> read_int_string (NULLABLE_BYTES b ++ rest) = Ok (b, rest).
Proof.
  destruct b as [x|]; cbn [opt_long_bytes NULLABLE_BYTES]; intros H.
  - now apply rd_bytes.
  - unfold read_int_string. rewrite INT32_enc. now apply (rd_string_none Fi).
Qed.

(* ------------------------------------------------------------------ counted loops *)
Lemma Forall_forallb {A} (p : A -> bool) l : forallb p l = true -> Forall (fun x => p x = true) l.
Proof. intros H. apply Forall_forall. now apply forallb_forall. Qed.

Lemma blen_cons {A} (x : A) l : blen (x :: l) = blen l + 1.
Proof. unfold blen. cbn [length]. lia. Qed.

(* `for _ in range(len xs): body` over the concatenated encodings of xs: when the body reads back one element
   (yielding [ys x]) whatever follows, the loop yields the items of all elements in order and stops at [rest] *)
Lemma for_range_ok {A B} (body : list Z -> gen B) (enc : A -> list Z) (ys : A -> list B) (P : A -> Prop) :
  (forall x rest, P x -> body (enc x ++ rest) = (ys x, Ok rest)) ->
  forall xs fuel rest, Forall P xs -> (length xs <= fuel)%nat ->
  for_range body fuel (blen xs) (flat_map enc xs ++ rest) = (flat_map ys xs, Ok rest).
Proof.
  intros Hb. induction xs as [|x xs IH]; intros fuel rest HP Hf.
  - destruct fuel; reflexivity.
  - destruct fuel as [|f]; [cbn in Hf; lia|].
    inversion HP as [|? ? Px Pxs]; subst.
    cbn [for_range flat_map]. rewrite blen_cons.
    pose proof (blen_nonneg xs).
    replace (blen xs + 1 <=? 0) with false by (symmetry; apply Z.leb_gt; lia).
    rewrite <- app_assoc, (Hb x _ Px).
    replace (blen xs + 1 - 1) with (blen xs) by lia.
    rewrite (IH f rest Pxs) by (cbn in Hf; lia). reflexivity.
Qed.

Lemma flat_map_length_ge {A} (enc : A -> list Z) (P : A -> Prop) xs :
  (forall x, P x -> (1 <= length (enc x))%nat) -> Forall P xs -> (length xs <= length (flat_map enc xs))%nat.
Proof.
  intros Hn. induction 1 as [|x xs Px _ IH]; [cbn; lia|].
  cbn [flat_map length]. rewrite app_length. specialize (Hn x Px). lia.
Qed.

(* the same with the loop's own fuel: enough because no element is encoded in zero bytes *)
Lemma loop_ok {A B} (body : list Z -> gen B) (enc : A -> list Z) (ys : A -> list B) (P : A -> Prop) :
  (forall x rest, P x -> body (enc x ++ rest) = (ys x, Ok rest)) ->
  (forall x, P x -> (1 <= length (enc x))%nat) ->
  forall xs rest, Forall P xs ->
  loop body (blen xs) (flat_map enc xs ++ rest) = (flat_map ys xs, Ok rest).
Proof.
  intros Hb Hn xs rest HP. unfold loop. apply (for_range_ok body enc ys P Hb); [assumption|].
  rewrite app_length. pose proof (flat_map_length_ge enc P xs Hn HP). lia.
Qed.

Lemma flat_map_singleton {A B} (f : A -> B) xs : flat_map (fun x => [f x]) xs = map f xs.
Proof. induction xs as [|x xs IH]; [reflexivity|]. cbn. now rewrite IH. Qed.

(* a loop that collects one value per element *)
Lemma read_n_ok {A B} (rd : list Z -> res (B * list Z)) (enc : A -> list Z) (view : A -> B) (P : A -> Prop) :
  (forall x rest, P x -> rd (enc x ++ rest) = Ok (view x, rest)) ->
  (forall x, P x -> (1 <= length (enc x))%nat) ->
  forall xs rest, Forall P xs ->
  read_n rd (blen xs) (flat_map enc xs ++ rest) = Ok (map view xs, rest).
Proof.
  intros Hr Hn xs rest HP. unfold read_n.
  rewrite (loop_ok (one rd) enc (fun x => [view x]) P); [now rewrite flat_map_singleton| |assumption|assumption].
  intros x r Px. unfold one. now rewrite (Hr x r Px).
Qed.

(* ARRAY(elem) read by an INT32 count followed by a collecting loop *)
Lemma rd_array {A B} (rd : list Z -> res (B * list Z)) (enc : A -> list Z) (view : A -> B) (p : A -> bool) :
  (forall x rest, p x = true -> rd (enc x ++ rest) = Ok (view x, rest)) ->
  (forall x, p x = true -> (1 <= length (enc x))%nat) ->
  forall xs rest, array_ok p xs = true ->
  (do (n, r) <- read_i32 (ARRAY enc xs ++ rest); read_n rd n r) = Ok (map view xs, rest).
Proof.
  intros Hr Hn xs rest H. unfold array_ok in H. split_andb. unfold ARRAY. rewrite <- app_assoc.
  rewrite rd_i32 by now apply blen_i32. cbn [bind].
  apply (read_n_ok rd enc view (fun x => p x = true)); try assumption. now apply Forall_forallb.
Qed.

(* relative_unpack(">%di" % n): an ARRAY(INT32) body *)
Lemma flat_map_INT32_length xs : len (flat_map INT32 xs) = 4 * blen xs.
Proof.
  unfold len, blen. induction xs as [|x xs IH]; [reflexivity|].
  cbn [flat_map]. rewrite app_length, INT32_length. cbn [length]. lia.
Qed.
Lemma map_id_ext {A} (f : A -> A) l : (forall x, f x = x) -> map f l = l.
Proof. intros H. induction l as [|x l IH]; [reflexivity|]. cbn. now rewrite H, IH. Qed.

Lemma read_ints_ok xs rest :
  forallb in_i32 xs = true -> read_ints (blen xs) (flat_map INT32 xs ++ rest) = Ok (xs, rest).
Proof.
  intros H. unfold read_ints. pose proof (blen_nonneg xs).
  replace (blen xs <? 0) with false by (symmetry; apply Z.ltb_ge; lia).
  replace (len (flat_map INT32 xs ++ rest) <? 4 * blen xs) with false.
  2:{ symmetry. apply Z.ltb_ge. pose proof (flat_map_INT32_length xs) as L. pose proof (len_nonneg rest).
      unfold len in *. rewrite app_length. lia. }
  rewrite (read_n_ok read_i32 INT32 (fun x => x) (fun x => in_i32 x = true)).
  - now rewrite map_id_ext.
  - intros x r Hx. now apply rd_i32.
  - intros x _. rewrite INT32_length. lia.
  - now apply Forall_forallb.
Qed.

Lemma rd_int_array xs rest :
  array_ok in_i32 xs = true ->
  (do (n, r) <- read_i32 (ARRAY INT32 xs ++ rest); read_ints n r) = Ok (xs, rest).
Proof.
  intros H. unfold array_ok in H. split_andb. unfold ARRAY. rewrite <- app_assoc.
  rewrite rd_i32 by now apply blen_i32. cbn [bind]. now apply read_ints_ok.
Qed.

(* ------------------------------------------------------------------ topic / partition generators
   by_topic: one `name [partitions]` group yields the items of its partitions *)
Lemma by_topic_ok {A B} (part : list Z -> list Z -> gen B) (enc : A -> list Z) (item : list Z -> A -> B)
      (p : A -> bool) name :
  (forall x rest, p x = true -> part name (enc x ++ rest) = ([item name x], Ok rest)) ->
  (forall x, p x = true -> (1 <= length (enc x))%nat) ->
  forall xs rest, ascii_string name = true -> array_ok p xs = true ->
  by_topic part (STRING name ++ ARRAY enc xs ++ rest) = (map (item name) xs, Ok rest).
Proof.
  intros Hp Hn xs rest Hname H. unfold array_ok in H. split_andb. unfold by_topic.
  rewrite rd_short_ascii by assumption. cbn [bind]. unfold ARRAY. rewrite <- app_assoc.
  rewrite rd_i32 by now apply blen_i32. cbn [bind].
  rewrite (loop_ok (part name) enc (fun x => [item name x]) (fun x => p x = true));
    [now rewrite flat_map_singleton|assumption|assumption|now apply Forall_forallb].
Qed.

Lemma STRING_length_pos s : (1 <= length (STRING s))%nat.
Proof. unfold STRING. rewrite app_length, INT16_length. lia. Qed.
