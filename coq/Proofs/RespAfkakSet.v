(* C05, part 5: encoding with afkak's OWN encoder (Model.MsgSet: _encode_message, _encode_message_set,
   create_gzip_message) and then decoding is the identity on messages, also through compressed wrappers.

   Plain sets are Proofs.Truncation.complete_set (builder of C12).  Here: one message of any kind goes through
   _decode_message to the codec switch with every field intact ([dec_message_encoded]); a wrapper whose value
   decompresses to a decodable set yields that set, relocated for format 1 ([wrapper_dec]); hence sets produced by
   create_gzip_message, and wrappers of wrappers, come back message for message. *)
From Coq Require Import Lia.
From AV Require Import Base.Util Model.Prim Model.Crc Model.MsgSet Model.KafkaSpecResp Model.Responses Model.RespView
     Proofs.PrimFacts Proofs.CrcBurst Proofs.DecodeTotal Proofs.Truncation.

(* _decode_message on the output of _encode_message: checksum accepted, every field read back *)
Lemma dec_message_encoded rec orc now m bs off :
  encode_message now m = Ok bs -> obytes_ok (m_key m) = true -> obytes_ok (m_value m) = true ->
  dec_message rec orc (Some bs) off
  = dec_payload rec orc (m_magic m) (m_attr m) off (m_key m) (m_value m) (m_ts (wire_view now m)).
Proof.
  intros E Hk Hv. pose proof (encode_message_parts now m bs E) as p.
  pose proof (body_bytes _ _ _ p Hk Hv) as Hb.
  rewrite (encoded_eq _ _ _ p). unfold dec_message.
  pose proof (drop_app_exact (enc_be 4 (crc32 (body_of p))) (body_of p)) as D. rewrite enc_be_length in D. rewrite D.
  unfold read_u32. rewrite (unpack_pack FI _ _ (body_of p) (pack_crc _ Hb)). cbn [bind].
  unfold body_of at 1. unfold read_u8.
  rewrite (unpack_pack FB _ _ _ (mp_m _ _ _ p)). cbn [bind].
  rewrite (unpack_pack FB _ _ _ (mp_a _ _ _ p)). cbn [bind].
  rewrite Z.eqb_refl. cbn [negb].
  pose proof (mp_t _ _ _ p) as T. pose proof (mp_k _ _ _ p) as K. pose proof (mp_v _ _ _ p) as V.
  unfold wire_view. cbn [m_ts].
  destruct (mp_magic _ _ _ p) as [M|M]; rewrite M in *; cbn [Z.eqb] in *.
  - rewrite T. cbn [app].
    rewrite (read_write_int_string _ _ _ K). cbn [bind].
    rewrite <- (app_nil_r (mp_val now m bs p)). rewrite (read_write_int_string _ _ _ V). cbn [bind].
    rewrite <- M. reflexivity.
  - unfold read_i64. rewrite (unpack_pack Fq _ _ _ T). cbn [bind].
    rewrite (read_write_int_string _ _ _ K). cbn [bind].
    rewrite <- (app_nil_r (mp_val now m bs p)). rewrite (read_write_int_string _ _ _ V). cbn [bind].
    rewrite <- M. reflexivity.
Qed.

Lemma encode_message_magic now m bs : encode_message now m = Ok bs -> m_magic m = 0 \/ m_magic m = 1.
Proof. intros E. exact (mp_magic _ _ _ (encode_message_parts now m bs E)). Qed.

(* a set holding one gzip wrapper [w] whose value decompresses to a set that decodes to [ys] *)
Lemma wrapper_dec d orc clock k w off incr mg bs z e ys :
  m_value w = Some z -> Z.land (m_attr w) ATTRIBUTE_CODEC_MASK = CODEC_GZIP ->
  obytes_ok (m_key w) = true -> bytes_ok z = true ->
  gz_dec orc z = Ok e -> dec_set (S d) orc e = (ys, None) ->
  encode_message_set_from clock k [w] off incr mg = Ok bs ->
  dec_set (S (S d)) orc bs = ((if (m_magic w =? 0) then ys else absolute off ys), None).
Proof.
  intros Hval Hcodec Hk Hz Hgz Hin He.
  destruct (encode_set_cons _ _ _ _ _ _ _ _ He) as (e' & h & t & Ee & Eh & Et & ->).
  cbn [encode_message_set_from] in Et. injection Et as <-.
  pose proof (pack_list2_length _ _ _ _ _ Eh) as Lh. cbn [fmt_size] in Lh.
  change (dec_set (S (S d)) orc (h ++ e' ++ []))
    with (dec_loop (dec_set (S d) orc) orc (length (h ++ e' ++ [])) (h ++ e' ++ []) false).
  rewrite dec_loop_unfold.
  destruct (h ++ e' ++ []) as [|b0 t0] eqn:Ebs.
  { apply (f_equal (@length Z)) in Ebs. rewrite app_length in Ebs. cbn [length] in Ebs. lia. }
  cbn [length]. rewrite <- Ebs. rewrite (header_complete off e' h [] Eh).
  rewrite (dec_message_encoded _ orc _ w e' off Ee Hk) by (rewrite Hval; exact Hz).
  unfold dec_payload. rewrite Hcodec. change (CODEC_GZIP =? CODEC_NONE) with false.
  change (CODEC_GZIP =? CODEC_GZIP) with true. cbv iota.
  rewrite Hval. unfold gzip_decode. rewrite Hgz, Hin.
  destruct (encode_message_magic _ _ _ Ee) as [M|M]; rewrite M.
  - change (0 =? 0) with true. cbv iota. unfold wrap_v0. cbv beta iota.
    destruct (length t0); cbn [dec_loop]; now rewrite app_nil_r.
  - change (1 =? 0) with false. cbv iota. unfold wrap_v1. cbv beta iota.
    destruct (length t0); cbn [dec_loop]; now rewrite app_nil_r.
Qed.

(* ------------------------------------------------------------------ the encoder emits bytes *)
Definition kv_bytes (m : message) : bool := obytes_ok (m_key m) && obytes_ok (m_value m).

Lemma plain_kv_bytes m : plain m = true -> kv_bytes m = true.
Proof.
  unfold plain, kv_bytes. intros H. apply andb_prop in H. destruct H as [H Hv]. apply andb_prop in H.
  destruct H as [_ Hk]. now rewrite Hk, Hv.
Qed.

Lemma encode_message_bytes now m bs : encode_message now m = Ok bs -> kv_bytes m = true -> bytes_ok bs = true.
Proof.
  intros E H. unfold kv_bytes in H. apply andb_prop in H. destruct H as [Hk Hv].
  pose proof (encode_message_parts now m bs E) as p. rewrite (encoded_eq _ _ _ p), bytes_ok_app.
  rewrite (body_bytes _ _ _ p Hk Hv), andb_true_r. apply bytes_ok_Forall, enc_be_bytes.
Qed.

Lemma encode_set_bytes clock msgs : forall k offset incr magic bs,
  forallb kv_bytes msgs = true -> encode_message_set_from clock k msgs offset incr magic = Ok bs -> bytes_ok bs = true.
Proof.
  induction msgs as [|m r IH]; intros k offset incr magic bs Hb He.
  - cbn in He. injection He as <-. reflexivity.
  - cbn [forallb] in Hb. apply andb_prop in Hb. destruct Hb as [Hm Hr].
    destruct (encode_set_cons _ _ _ _ _ _ _ _ He) as (e & h & t & Ee & Eh & Et & ->).
    destruct (pack_list2 _ _ _ _ _ Eh) as (a & b & Pa & Pb & ->).
    rewrite !bytes_ok_app, (pack_bytes _ _ _ Pa), (pack_bytes _ _ _ Pb), (encode_message_bytes _ _ _ Ee Hm).
    now rewrite (IH _ _ _ _ _ Hr Et).
Qed.

(* ------------------------------------------------------------------ create_gzip_message *)
Section Gzip.
  Variable orc : oracle.
  (* the codec's round-trip law on byte strings; its output is a byte string *)
  Hypothesis gz_roundtrip :
    forall x z, bytes_ok x = true -> gz_enc orc x = Ok z -> gz_dec orc z = Ok x /\ bytes_ok z = true.

  Lemma create_gzip_shape clock k msgs magic w :
    create_gzip_message orc clock k msgs magic = Ok w ->
    exists e z, encode_message_set_from clock k msgs 0 0 0 = Ok e /\ gz_enc orc e = Ok z /\
                m_magic w = magic /\ m_attr w = CODEC_GZIP /\ m_key w = None /\ m_value w = Some z.
  Proof.
    unfold create_gzip_message, create_compressed_message, encode_message_set.
    destruct (encode_message_set_from clock k msgs 0 0 0) as [e|] eqn:E; cbn [bind]; [|discriminate].
    destruct (gz_enc orc e) as [z|] eqn:Z; cbn [bind]; [|discriminate].
    destruct (magic =? 1); intros [= <-]; exists e, z; repeat split; auto.
  Qed.

  (* the wrapper create_gzip_message returns is itself made of bytes *)
  Lemma create_gzip_kv_bytes clock k msgs magic w :
    forallb kv_bytes msgs = true -> create_gzip_message orc clock k msgs magic = Ok w -> kv_bytes w = true.
  Proof.
    intros Hb Hw. destruct (create_gzip_shape _ _ _ _ _ Hw) as (e & z & Ee & Ez & _ & _ & Hk & Hv).
    destruct (gz_roundtrip _ _ (encode_set_bytes _ _ _ _ _ _ _ Hb Ee) Ez) as [_ Hz].
    unfold kv_bytes. rewrite Hk, Hv. exact Hz.
  Qed.

  (* a set of plain messages wrapped by create_gzip_message, stored by _encode_message_set, decoded *)
  Theorem gzip_set_roundtrip d clock k k' msgs magic w off incr mg bs :
    forallb plain msgs = true ->
    create_gzip_message orc clock k msgs magic = Ok w ->
    encode_message_set_from clock k' [w] off incr mg = Ok bs ->
    dec_set (S (S d)) orc bs
    = ((if (magic =? 0) then expected clock k msgs 0 0 else absolute off (expected clock k msgs 0 0)), None).
  Proof.
    intros Hp Hw He. destruct (create_gzip_shape _ _ _ _ _ Hw) as (e & z & Ee & Ez & Hm & Ha & Hk & Hv).
    assert (Hkv : forallb kv_bytes msgs = true).
    { rewrite forallb_forall in *. intros m I. apply plain_kv_bytes. now apply Hp. }
    destruct (gz_roundtrip _ _ (encode_set_bytes _ _ _ _ _ _ _ Hkv Ee) Ez) as [Hdec Hbytes].
    rewrite <- Hm.
    apply (wrapper_dec d orc clock k' w off incr mg bs z e); auto.
    - rewrite Ha. reflexivity.
    - rewrite Hk. reflexivity.
    - now apply complete_set with (magic := 0).
  Qed.

  (* a wrapper of a wrapper (nesting depth 2), any combination of formats *)
  Theorem gzip_nested_roundtrip d clock k k1 k2 msgs magic1 w1 magic2 w2 off incr mg bs :
    forallb plain msgs = true ->
    create_gzip_message orc clock k msgs magic1 = Ok w1 ->
    create_gzip_message orc clock k1 [w1] magic2 = Ok w2 ->
    encode_message_set_from clock k2 [w2] off incr mg = Ok bs ->
    let inner := if (magic1 =? 0) then expected clock k msgs 0 0 else absolute 0 (expected clock k msgs 0 0) in
    dec_set (S (S (S d))) orc bs = ((if (magic2 =? 0) then inner else absolute off inner), None).
  Proof.
    intros Hp Hw1 Hw2 He inner.
    destruct (create_gzip_shape _ _ _ _ _ Hw2) as (e & z & Ee & Ez & Hm & Ha & Hk & Hv).
    assert (Hkv : forallb kv_bytes msgs = true).
    { rewrite forallb_forall in *. intros m I. apply plain_kv_bytes. now apply Hp. }
    assert (Hkv1 : forallb kv_bytes [w1] = true).
    { cbn [forallb]. now rewrite (create_gzip_kv_bytes _ _ _ _ _ Hkv Hw1). }
    destruct (gz_roundtrip _ _ (encode_set_bytes _ _ _ _ _ _ _ Hkv1 Ee) Ez) as [Hdec Hbytes].
    rewrite <- Hm.
    apply (wrapper_dec (S d) orc clock k2 w2 off incr mg bs z e); auto.
    - rewrite Ha. reflexivity.
    - rewrite Hk. reflexivity.
    - exact (gzip_set_roundtrip d clock k k1 msgs magic1 w1 0 0 0 e Hp Hw1 Ee).
  Qed.
End Gzip.

(* what the offsets are: afkak stores every inner message at offset 0, so a format-1 wrapper at [off] reports all of
   them at [off] (wrapper_offset - 0 + 0) and a format-0 wrapper at 0; the messages themselves are untouched *)
Lemma expected_zero_offsets clock msgs : forall k, map fst (expected clock k msgs 0 0) = map (fun _ => 0) msgs.
Proof. induction msgs as [|m r IH]; intros k; [reflexivity|]. cbn [expected map fst]. now rewrite IH. Qed.

Lemma absolute_zero off (ys : list omsg) :
  Forall (fun om => fst om = 0) ys -> absolute off ys = map (fun om => (off, snd om)) ys.
Proof.
  intros H. unfold absolute, last_offset.
  destruct (rev ys) as [|[o m] r] eqn:R.
  - apply (f_equal (@rev omsg)) in R. rewrite rev_involutive in R. now subst.
  - assert (Ho : o = 0).
    { assert (I : In (o, m) ys) by (apply (proj2 (in_rev ys (o, m))); rewrite R; now left).
      rewrite Forall_forall in H. exact (H _ I). }
    subst o. apply map_ext_in. intros [o' m'] I. rewrite Forall_forall in H. specialize (H _ I). cbn [fst snd] in *.
    subst o'. f_equal. lia.
Qed.

Lemma expected_messages clock msgs : forall k offset incr,
  map snd (expected clock k msgs offset incr)
  = map snd (expected clock k msgs 0 0).
Proof.
  induction msgs as [|m r IH]; intros k offset incr; [reflexivity|]. cbn [expected map snd]. f_equal.
  rewrite (IH _ (offset + incr) incr). symmetry. apply IH.
Qed.

(* the results above with the offsets spelled out (no decoder function in the statement): afkak stores every inner
   message at offset 0; a format-0 outer wrapper passes that through, a format-1 outer wrapper at [off] reports
   everything it contains at [off] *)
Lemma expected_all_zero clock k msgs : Forall (fun om : omsg => fst om = 0) (expected clock k msgs 0 0).
Proof.
  apply Forall_forall. intros [o m] I.
  assert (Io : In o (map fst (expected clock k msgs 0 0))) by (apply in_map_iff; exists (o, m); auto).
  rewrite expected_zero_offsets in Io. apply in_map_iff in Io. destruct Io as (_ & <- & _). reflexivity.
Qed.

Lemma zero_offsets_all_at (ys : list omsg) : Forall (fun om => fst om = 0) ys -> ys = all_at 0 (map snd ys).
Proof.
  induction 1 as [|[o m] ys H _ IH]; [reflexivity|]. cbn [fst] in H. subst o. unfold all_at in *. cbn [map snd]. now rewrite <- IH.
Qed.

Lemma absolute_all_at off (ys : list omsg) :
  Forall (fun om => fst om = 0) ys -> absolute off ys = all_at off (map snd ys).
Proof. intros H. rewrite (absolute_zero off ys H). unfold all_at. now rewrite map_map. Qed.

Lemma all_at_zero_forall off ms : Forall (fun om : omsg => fst om = 0) (all_at off ms) -> off = 0 \/ ms = [].
Proof. destruct ms as [|m ms]; [now right|]. intros H. inversion H. now left. Qed.

Section GzipOffsets.
  Variable orc : oracle.
  Hypothesis gz_roundtrip :
    forall x z, bytes_ok x = true -> gz_enc orc x = Ok z -> gz_dec orc z = Ok x /\ bytes_ok z = true.

  Theorem gzip_set_roundtrip_at d clock k k' msgs magic w off incr mg bs :
    forallb plain msgs = true ->
    create_gzip_message orc clock k msgs magic = Ok w ->
    encode_message_set_from clock k' [w] off incr mg = Ok bs ->
    dec_set (S (S d)) orc bs = (all_at (if (magic =? 0) then 0 else off) (map snd (expected clock k msgs 0 0)), None).
  Proof.
    intros Hp Hw He. rewrite (gzip_set_roundtrip orc gz_roundtrip d clock k k' msgs magic w off incr mg bs Hp Hw He).
    pose proof (expected_all_zero clock k msgs) as Hz. destruct (magic =? 0).
    - now rewrite <- (zero_offsets_all_at _ Hz).
    - now rewrite (absolute_all_at off _ Hz).
  Qed.

  Theorem gzip_nested_roundtrip_at d clock k k1 k2 msgs magic1 w1 magic2 w2 off incr mg bs :
    forallb plain msgs = true ->
    create_gzip_message orc clock k msgs magic1 = Ok w1 ->
    create_gzip_message orc clock k1 [w1] magic2 = Ok w2 ->
    encode_message_set_from clock k2 [w2] off incr mg = Ok bs ->
    dec_set (S (S (S d))) orc bs = (all_at (if (magic2 =? 0) then 0 else off) (map snd (expected clock k msgs 0 0)), None).
  Proof.
    intros Hp Hw1 Hw2 He.
    rewrite (gzip_nested_roundtrip orc gz_roundtrip d clock k k1 k2 msgs magic1 w1 magic2 w2 off incr mg bs Hp Hw1 Hw2 He).
    pose proof (expected_all_zero clock k msgs) as Hz.
    assert (Hin : (if magic1 =? 0 then expected clock k msgs 0 0 else absolute 0 (expected clock k msgs 0 0))
                  = all_at 0 (map snd (expected clock k msgs 0 0))).
    { destruct (magic1 =? 0); [now rewrite <- (zero_offsets_all_at _ Hz)|now rewrite (absolute_all_at 0 _ Hz)]. }
    rewrite Hin.
    destruct (magic2 =? 0); [reflexivity|].
    rewrite absolute_all_at.
    - unfold all_at. now rewrite !map_map.
    - apply Forall_forall. intros om I. unfold all_at in I. apply in_map_iff in I. destruct I as (x & <- & _). reflexivity.
  Qed.
End GzipOffsets.

(* ------------------------------------------------------------------ the producer's path: create_message_set
   (requests = (key, [payload...])) -> _encode_message_set -> decode gives back exactly the messages built from the
   (key, payload) pairs, numbered as written *)
Lemma map_snd_combine_seq {A} (l : list A) : forall s, map snd (combine (seq s (length l)) l) = l.
Proof. induction l as [|x l IH]; intros s; [reflexivity|]. cbn [length seq combine map snd]. now rewrite IH. Qed.

Lemma create_messages_kv clock reqs magic : map kv (create_messages clock reqs magic) = flatten_requests reqs.
Proof.
  unfold create_messages. rewrite map_map.
  transitivity (map snd (combine (seq 0 (length (flatten_requests reqs))) (flatten_requests reqs)));
    [|apply map_snd_combine_seq].
  apply map_ext. intros [i [k p]]. unfold kv, create_message. cbn [fst snd].
  destruct ((if magic =? 1 then 1 else 0) =? 1); reflexivity.
Qed.

(* every message create_message_set builds: format (magic = 1 ? 1 : 0), attributes 0, the request's key, the payload,
   and for format 1 the clock reading made when it was built *)
Lemma create_messages_spec clock reqs magic :
  create_messages clock reqs magic
  = map (fun ikp => mkMessage (if (magic =? 1) then 1 else 0) 0 (fst (snd ikp)) (snd (snd ikp))
                              (if (magic =? 1) then Some (clock (fst ikp)) else None))
        (combine (seq 0 (length (flatten_requests reqs))) (flatten_requests reqs)).
Proof.
  unfold create_messages. apply map_ext. intros [i [k p]]. unfold create_message. cbn [fst snd].
  destruct (magic =? 1); reflexivity.
Qed.

Lemma created_in clock reqs magic m :
  In m (create_messages clock reqs magic) ->
  m_attr m = 0 /\ In (kv m) (flatten_requests reqs) /\ uses_clock m = false /\ (forall now, wire_view now m = m).
Proof.
  intros I. split; [|split; [|split]].
  - rewrite create_messages_spec in I. apply in_map_iff in I. destruct I as (x & <- & _). reflexivity.
  - rewrite <- (create_messages_kv clock reqs magic). now apply in_map.
  - rewrite create_messages_spec in I. apply in_map_iff in I. destruct I as (x & <- & _).
    unfold uses_clock. cbn [m_magic m_ts]. destruct (magic =? 1); reflexivity.
  - rewrite create_messages_spec in I. apply in_map_iff in I. destruct I as (x & <- & _). intros now.
    unfold wire_view. cbn [m_magic m_attr m_key m_value m_ts]. destruct (magic =? 1); reflexivity.
Qed.

Lemma create_messages_plain clock reqs magic :
  forallb kv_ok (flatten_requests reqs) = true -> forallb plain (create_messages clock reqs magic) = true.
Proof.
  intros H. apply forallb_forall. intros m I. destruct (created_in _ _ _ _ I) as (Ha & Ik & _ & _).
  rewrite forallb_forall in H. specialize (H _ Ik). unfold kv_ok, kv in H. cbn [fst snd] in H.
  apply andb_prop in H. destruct H as [Hk Hv]. change bytes_or_null with obytes_ok in *.
  unfold plain. now rewrite Ha, Hk, Hv.
Qed.

(* messages that neither read the clock nor change on the wire come back numbered off, off+incr, ... *)
Lemma expected_fixed clock msgs : forall k s offset incr,
  (forall m, In m msgs -> uses_clock m = false /\ forall now, wire_view now m = m) ->
  expected clock k msgs (offset + Z.of_nat s * incr) incr
  = map (fun im => (offset + Z.of_nat (fst im) * incr, snd im)) (combine (seq s (length msgs)) msgs).
Proof.
  induction msgs as [|m r IH]; intros k s offset incr H; [reflexivity|].
  destruct (H m (or_introl eq_refl)) as [Hu Hw].
  cbn [expected length seq combine map fst snd]. rewrite Hu, Hw. f_equal.
  replace (offset + Z.of_nat s * incr + incr) with (offset + Z.of_nat (S s) * incr) by lia.
  apply IH. intros m' I. apply H. now right.
Qed.

Lemma expected_numbered clock k msgs offset incr :
  (forall m, In m msgs -> uses_clock m = false /\ forall now, wire_view now m = m) ->
  expected clock k msgs offset incr = numbered offset incr msgs.
Proof.
  intros H. pose proof (expected_fixed clock msgs k 0%nat offset incr H) as E.
  replace (offset + Z.of_nat 0 * incr) with offset in E by lia. exact E.
Qed.

(* uncompressed *)
Theorem producer_plain_roundtrip d orc clock reqs magic ws k' off incr mg bs :
  forallb kv_ok (flatten_requests reqs) = true ->
  create_message_set orc clock reqs CODEC_NONE magic = Ok ws ->
  encode_message_set_from clock k' ws off incr mg = Ok bs ->
  dec_set (S d) orc bs = (numbered off incr (create_messages clock reqs magic), None).
Proof.
  intros Hb Hc He. unfold create_message_set in Hc. change (CODEC_NONE =? CODEC_NONE) with true in Hc. cbv iota in Hc.
  injection Hc as <-.
  rewrite (complete_set d orc clock k' (create_messages clock reqs magic) off incr mg bs); [|now apply create_messages_plain|exact He].
  f_equal. apply expected_numbered. intros m I. destruct (created_in _ _ _ _ I) as (_ & _ & Hu & Hw). now split.
Qed.

(* gzip: one wrapper; a format-1 wrapper reports every message at the wrapper's offset, a format-0 wrapper at the
   stored inner offset 0 *)
Theorem producer_gzip_roundtrip d orc clock reqs magic ws k' off incr mg bs :
  (forall x z, bytes_ok x = true -> gz_enc orc x = Ok z -> gz_dec orc z = Ok x /\ bytes_ok z = true) ->
  forallb kv_ok (flatten_requests reqs) = true ->
  create_message_set orc clock reqs CODEC_GZIP magic = Ok ws ->
  encode_message_set_from clock k' ws off incr mg = Ok bs ->
  dec_set (S (S d)) orc bs = (all_at (if (magic =? 0) then 0 else off) (create_messages clock reqs magic), None).
Proof.
  intros Hgz Hb Hc He. unfold create_message_set in Hc.
  change (CODEC_GZIP =? CODEC_NONE) with false in Hc. change (CODEC_GZIP =? CODEC_GZIP) with true in Hc. cbv iota in Hc.
  set (msgs := create_messages clock reqs magic) in *.
  set (k := if magic =? 1 then length msgs else 0%nat) in *.
  destruct (create_gzip_message orc clock k msgs magic) as [w|] eqn:Hw; cbn [bind] in Hc; [|discriminate].
  injection Hc as <-.
  pose proof (create_messages_plain clock reqs magic Hb) as Hp. fold msgs in Hp.
  rewrite (gzip_set_roundtrip_at orc Hgz d clock k k' msgs magic w off incr mg bs Hp Hw He).
  f_equal. f_equal.
  rewrite (expected_numbered clock k msgs 0 0).
  - unfold numbered. rewrite map_map. cbn [snd]. apply map_snd_combine_seq.
  - intros m I. destruct (created_in _ _ _ _ I) as (_ & _ & Hu & Hwv). now split.
Qed.
