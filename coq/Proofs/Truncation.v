(* C12, part 2: a message set cut short yields exactly the complete messages before the cut;
   and the corollaries of the CRC burst theorem for _decode_message (a corrupted message is a ChecksumError). *)
From Coq Require Import Lia.
From AV Require Import Base.Util Model.Prim Model.Crc Model.MsgSet Proofs.PrimFacts Proofs.CrcBurst Proofs.DecodeTotal.

(* ------------------------------------------------------------------ vocabulary of the statements *)

Definition obytes_ok (o : option (list Z)) : bool := match o with None => true | Some b => bytes_ok b end.

(* an ordinary (not compressed) message whose key and value are byte strings *)
Definition plain (m : message) : bool :=
  (Z.land (m_attr m) ATTRIBUTE_CODEC_MASK =? CODEC_NONE) && obytes_ok (m_key m) && obytes_ok (m_value m).

(* what a message looks like after a trip over the wire: format 0 has no timestamp, format 1 always has one
   (the clock reading when the producer supplied none) *)
Definition wire_view (now : Z) (m : message) : message :=
  mkMessage (m_magic m) (m_attr m) (m_key m) (m_value m)
            (if (m_magic m =? 1) then Some (match m_ts m with Some t => t | None => now end) else None).

(* the (offset, message) pairs a complete decode of _encode_message_set's output delivers *)
Fixpoint expected (clock : nat -> Z) (k : nat) (msgs : list message) (offset incr : Z) : list omsg :=
  match msgs with
  | [] => []
  | m :: r => (offset, wire_view (clock k) m) :: expected clock (if uses_clock m then S k else k) r (offset + incr) incr
  end.

(* size on the wire of one message-set entry: 8 offset + 4 size + 4 crc + magic + attributes (+ 8 timestamp)
   + 4 + key + 4 + value *)
Definition entry_size (m : message) : nat :=
  ((if (m_magic m =? 1)%Z then 34 else 26) + olen (m_key m) + olen (m_value m))%nat.

(* the entries wholly contained in the first [cut] bytes *)
Fixpoint whole (cut : nat) (oms : list omsg) : list omsg :=
  match oms with
  | [] => []
  | om :: r => if Nat.leb (entry_size (snd om)) cut then om :: whole (cut - entry_size (snd om)) r else []
  end.

(* how iteration ends after the complete messages [ys] of a prefix of [cut] bytes *)
Definition cut_outcome (read : bool) (cut : nat) (ys : list omsg) : option err :=
  match ys with
  | [] => if Nat.eqb cut 0 then None else if read then None else Some FetchTooSmall
  | _ :: _ => None
  end.

(* ------------------------------------------------------------------ lists *)
Lemma take_app_plus {A} (a b : list A) k : take (length a + k) (a ++ b) = a ++ take k b.
Proof. induction a as [|x a IH]; cbn [length app Nat.add take]; [reflexivity|]. now rewrite IH. Qed.

Lemma take_app_le {A} (a b : list A) k : (k <= length a)%nat -> take k (a ++ b) = take k a.
Proof.
  revert k. induction a as [|x a IH]; intros k H.
  - cbn in H. assert (k = O) by lia. subst. reflexivity.
  - destruct k as [|k]; [reflexivity|]. cbn [app take]. f_equal. apply IH. cbn in H. lia.
Qed.

Lemma take_all {A} (l : list A) k : (length l <= k)%nat -> take k l = l.
Proof. revert k. induction l as [|x l IH]; intros [|k] H; cbn in *; try reflexivity; try lia. f_equal. apply IH. lia. Qed.

Lemma bytes_ok_Forall l : Forall (fun b => 0 <= b < 256) l -> bytes_ok l = true.
Proof.
  induction 1 as [|x l H _ IH]; [reflexivity|]. cbn [bytes_ok forallb]. unfold bytes_ok in IH. rewrite IH.
  unfold is_byte. replace (0 <=? x) with true by (symmetry; apply Z.leb_le; lia).
  replace (x <? 256) with true by (symmetry; apply Z.ltb_lt; lia). reflexivity.
Qed.

(* ------------------------------------------------------------------ shape of an encoded message *)
Lemma pack_length f v w : pack f v = Ok w -> length w = fmt_size f.
Proof. unfold pack. destruct (fmt_in f v); [|discriminate]. intros [= <-]. apply enc_be_length. Qed.

Lemma pack_bytes f v w : pack f v = Ok w -> bytes_ok w = true.
Proof. unfold pack. destruct (fmt_in f v); [|discriminate]. intros [= <-]. apply bytes_ok_Forall, enc_be_bytes. Qed.

Lemma write_int_string_shape s w : write_int_string s = Ok w ->
  length w = (4 + olen s)%nat /\ (obytes_ok s = true -> bytes_ok w = true).
Proof.
  destruct s as [b|]; cbn [write_int_string olen obytes_ok].
  - destruct (write_i32 (len b)) as [h|] eqn:P; cbn [bind]; [|discriminate]. intros [= <-].
    rewrite app_length, (pack_length _ _ _ P). split; [reflexivity|]. intros Hb.
    rewrite bytes_ok_app, (pack_bytes _ _ _ P), Hb. reflexivity.
  - intros P. rewrite (pack_length _ _ _ P). split; [reflexivity|]. intros _. exact (pack_bytes _ _ _ P).
Qed.

(* the parts of _encode_message's output *)
Record msg_parts (now : Z) (m : message) (bs : list Z) : Type := {
  mp_ts : list Z;      (* 8 timestamp bytes for format 1, nothing for format 0 *)
  mp_key : list Z;
  mp_val : list Z;
  mp_magic : m_magic m = 0 \/ m_magic m = 1;
  mp_eq : bs = enc_be 4 (crc32 (enc_be 1 (m_magic m) ++ enc_be 1 (m_attr m) ++ mp_ts ++ mp_key ++ mp_val))
               ++ enc_be 1 (m_magic m) ++ enc_be 1 (m_attr m) ++ mp_ts ++ mp_key ++ mp_val;
  mp_m : pack FB (m_magic m) = Ok (enc_be 1 (m_magic m));
  mp_a : pack FB (m_attr m) = Ok (enc_be 1 (m_attr m));
  mp_t : if (m_magic m =? 1) then pack Fq (match m_ts m with Some t => t | None => now end) = Ok mp_ts else mp_ts = [];
  mp_k : write_int_string (m_key m) = Ok mp_key;
  mp_v : write_int_string (m_value m) = Ok mp_val
}.

Lemma pack_ok_eq f v w : pack f v = Ok w -> w = enc_be (fmt_size f) v.
Proof. unfold pack. destruct (fmt_in f v); [|discriminate]. now intros [= <-]. Qed.

Lemma encode_message_parts now m bs : encode_message now m = Ok bs -> msg_parts now m bs.
Proof.
  unfold encode_message.
  destruct (m_magic m =? 0) eqn:M0; [|destruct (m_magic m =? 1) eqn:M1; [|discriminate]].
  - apply Z.eqb_eq in M0. cbn [pack_list].
    destruct (pack FB (m_magic m)) as [a|] eqn:Pa; cbn [bind]; [|discriminate].
    destruct (pack FB (m_attr m)) as [b|] eqn:Pb; cbn [bind]; [|discriminate].
    destruct (write_int_string (m_key m)) as [k|] eqn:Pk; cbn [bind]; [|discriminate].
    destruct (write_int_string (m_value m)) as [v|] eqn:Pv; cbn [bind]; [|discriminate].
    intros [= <-]. pose proof (pack_ok_eq _ _ _ Pa) as ->. pose proof (pack_ok_eq _ _ _ Pb) as ->. cbn [fmt_size] in *.
    refine (Build_msg_parts now m _ [] k v (or_introl M0) _ Pa Pb _ Pk Pv).
    + rewrite app_nil_r, <- !app_assoc. reflexivity.
    + rewrite M0. reflexivity.
  - apply Z.eqb_eq in M1. cbn [pack_list].
    destruct (pack FB (m_magic m)) as [a|] eqn:Pa; cbn [bind]; [|discriminate].
    destruct (pack FB (m_attr m)) as [b|] eqn:Pb; cbn [bind]; [|discriminate].
    destruct (pack Fq (match m_ts m with Some t => t | None => now end)) as [t|] eqn:Pt; cbn [bind]; [|discriminate].
    destruct (write_int_string (m_key m)) as [k|] eqn:Pk; cbn [bind]; [|discriminate].
    destruct (write_int_string (m_value m)) as [v|] eqn:Pv; cbn [bind]; [|discriminate].
    intros [= <-]. pose proof (pack_ok_eq _ _ _ Pa) as ->. pose proof (pack_ok_eq _ _ _ Pb) as ->. cbn [fmt_size] in *.
    refine (Build_msg_parts now m _ t k v (or_intror M1) _ Pa Pb _ Pk Pv).
    + rewrite app_nil_r, <- !app_assoc. reflexivity.
    + rewrite M1. rewrite Z.eqb_refl. exact Pt.
Qed.

Definition body_of {now m bs} (p : msg_parts now m bs) : list Z :=
  enc_be 1 (m_magic m) ++ enc_be 1 (m_attr m) ++ mp_ts _ _ _ p ++ mp_key _ _ _ p ++ mp_val _ _ _ p.

Lemma parts_ts_length now m bs (p : msg_parts now m bs) :
  length (mp_ts _ _ _ p) = if (m_magic m =? 1) then 8%nat else 0%nat.
Proof. pose proof (mp_t _ _ _ p) as T. destruct (m_magic m =? 1); [apply (pack_length _ _ _ T)|now rewrite T]. Qed.

Lemma parts_ts_bytes now m bs (p : msg_parts now m bs) : bytes_ok (mp_ts _ _ _ p) = true.
Proof. pose proof (mp_t _ _ _ p) as T. destruct (m_magic m =? 1); [apply (pack_bytes _ _ _ T)|now rewrite T]. Qed.

Lemma body_bytes now m bs (p : msg_parts now m bs) :
  obytes_ok (m_key m) = true -> obytes_ok (m_value m) = true -> bytes_ok (body_of p) = true.
Proof.
  intros Hk Hv. unfold body_of. rewrite !bytes_ok_app.
  rewrite (pack_bytes _ _ _ (mp_m _ _ _ p)), (pack_bytes _ _ _ (mp_a _ _ _ p)), parts_ts_bytes.
  destruct (write_int_string_shape _ _ (mp_k _ _ _ p)) as [_ ->]; auto.
  destruct (write_int_string_shape _ _ (mp_v _ _ _ p)) as [_ ->]; auto.
Qed.

Lemma body_length now m bs (p : msg_parts now m bs) :
  length (body_of p) = ((if (m_magic m =? 1)%Z then 18 else 10) + olen (m_key m) + olen (m_value m))%nat.
Proof.
  unfold body_of. rewrite !app_length, !enc_be_length, parts_ts_length.
  destruct (write_int_string_shape _ _ (mp_k _ _ _ p)) as [-> _].
  destruct (write_int_string_shape _ _ (mp_v _ _ _ p)) as [-> _].
  destruct (m_magic m =? 1); lia.
Qed.

Lemma encoded_eq now m bs (p : msg_parts now m bs) : bs = enc_be 4 (crc32 (body_of p)) ++ body_of p.
Proof. exact (mp_eq _ _ _ p). Qed.

Lemma encoded_length now m bs (p : msg_parts now m bs) : (12 + length bs = entry_size m)%nat.
Proof.
  rewrite (encoded_eq _ _ _ p) at 1. rewrite app_length, enc_be_length, body_length. unfold entry_size.
  destruct (m_magic m =? 1); lia.
Qed.

(* ------------------------------------------------------------------ decoding one intact message *)
Lemma pack_crc d : bytes_ok d = true -> pack FI (crc32 d) = Ok (enc_be 4 (crc32 d)).
Proof.
  intros H. pose proof (crc32_range d H) as R. unfold pack. cbn [fmt_in fmt_size]. unfold in_u32.
  replace (0 <=? crc32 d) with true by (symmetry; apply Z.leb_le; lia).
  replace (crc32 d <=? 4294967295) with true by (symmetry; apply Z.leb_le; lia). reflexivity.
Qed.

Theorem dec_message_intact rec orc now m bs off :
  encode_message now m = Ok bs -> plain m = true ->
  dec_message rec orc (Some bs) off = ([(off, wire_view now m)], None).
Proof.
  intros E P. pose proof (encode_message_parts now m bs E) as p.
  unfold plain in P. apply andb_prop in P. destruct P as [P Hv]. apply andb_prop in P. destruct P as [Hc Hk].
  pose proof (body_bytes _ _ _ p Hk Hv) as Hb.
  rewrite (encoded_eq _ _ _ p). unfold dec_message.
  pose proof (drop_app_exact (enc_be 4 (crc32 (body_of p))) (body_of p)) as D. rewrite enc_be_length in D. rewrite D.
  unfold read_u32. rewrite (unpack_pack FI _ _ (body_of p) (pack_crc _ Hb)). cbn [bind].
  unfold body_of at 1. unfold read_u8.
  rewrite (unpack_pack FB _ _ _ (mp_m _ _ _ p)). cbn [bind].
  rewrite (unpack_pack FB _ _ _ (mp_a _ _ _ p)). cbn [bind].
  rewrite Z.eqb_refl. cbn [negb].
  pose proof (mp_t _ _ _ p) as T. pose proof (mp_k _ _ _ p) as K. pose proof (mp_v _ _ _ p) as V.
  unfold wire_view.
  destruct (mp_magic _ _ _ p) as [M|M]; rewrite M in *; cbn [Z.eqb] in *.
  - rewrite T. cbn [app].
    rewrite (read_write_int_string _ _ _ K). cbn [bind].
    rewrite <- (app_nil_r (mp_val now m bs p)). rewrite (read_write_int_string _ _ _ V). cbn [bind].
    unfold dec_payload. rewrite Hc. rewrite <- M. reflexivity.
  - unfold read_i64. rewrite (unpack_pack Fq _ _ _ T). cbn [bind].
    rewrite (read_write_int_string _ _ _ K). cbn [bind].
    rewrite <- (app_nil_r (mp_val now m bs p)). rewrite (read_write_int_string _ _ _ V). cbn [bind].
    unfold dec_payload. rewrite Hc. rewrite <- M. reflexivity.
Qed.

(* ------------------------------------------------------------------ one entry of a set: complete, or cut *)
Lemma pack_list2 f1 v1 f2 v2 h : pack_list [(f1, v1); (f2, v2)] = Ok h ->
  exists a b, pack f1 v1 = Ok a /\ pack f2 v2 = Ok b /\ h = a ++ b.
Proof.
  cbn [pack_list]. destruct (pack f1 v1) as [a|]; cbn [bind]; [|discriminate].
  destruct (pack f2 v2) as [b|]; cbn [bind]; [|discriminate]. intros [= <-]. exists a, b. now rewrite app_nil_r.
Qed.

Lemma header_complete off e h rest :
  pack_list [(Fq, off); (Fi, len e)] = Ok h -> header (h ++ e ++ rest) = Ok (off, Some e, rest).
Proof.
  intros P. destruct (pack_list2 _ _ _ _ _ P) as (a & b & Pa & Pb & ->).
  unfold header, read_i64, read_int_string. rewrite <- app_assoc. rewrite (unpack_pack Fq _ _ _ Pa). cbn [bind].
  rewrite (read_string_prefixed Fi e b rest Pb). reflexivity.
Qed.

Lemma header_cut off e h rest cut :
  pack_list [(Fq, off); (Fi, len e)] = Ok h -> (cut < 12 + length e)%nat ->
  header (take cut (h ++ e ++ rest)) = Err Underflow.
Proof.
  intros P C. destruct (pack_list2 _ _ _ _ _ P) as (a & b & Pa & Pb & ->).
  pose proof (pack_length _ _ _ Pa) as La. pose proof (pack_length _ _ _ Pb) as Lb. cbn [fmt_size] in La, Lb.
  unfold header, read_i64, read_int_string. rewrite <- app_assoc.
  destruct (Nat.lt_ge_cases cut 8) as [C8|C8].
  { assert (U : unpack Fq (take cut (a ++ b ++ e ++ rest)) = Err Underflow).
    { apply unpack_underflow. rewrite take_length. cbn [fmt_size]. lia. }
    rewrite U. reflexivity. }
  replace cut with (length a + (cut - 8))%nat by lia. rewrite take_app_plus.
  rewrite (unpack_pack Fq _ _ _ Pa). cbn [bind].
  destruct (Nat.lt_ge_cases cut 12) as [C12|C12].
  { unfold read_string.
    assert (U : unpack Fi (take (cut - 8) (b ++ e ++ rest)) = Err Underflow).
    { apply unpack_underflow. rewrite take_length. cbn [fmt_size]. lia. }
    rewrite U. reflexivity. }
  replace (cut - 8)%nat with (length b + (cut - 12))%nat by lia. rewrite take_app_plus.
  rewrite (read_string_overlong Fi _ (len e) (take (cut - 12) (e ++ rest))); [reflexivity| |].
  - apply (unpack_pack Fi _ _ _ Pb).
  - unfold len. rewrite take_length. lia.
Qed.

(* ------------------------------------------------------------------ the truncation theorem *)
Lemma encode_set_cons clock k m r offset incr magic bs :
  encode_message_set_from clock k (m :: r) offset incr magic = Ok bs ->
  exists e h t, encode_message (clock k) m = Ok e /\ pack_list [(Fq, offset); (Fi, len e)] = Ok h /\
                encode_message_set_from clock (if uses_clock m then S k else k) r (offset + incr) incr magic = Ok t /\
                bs = h ++ e ++ t.
Proof.
  cbn [encode_message_set_from]. destruct ((magic =? 0) || (magic =? 1)); [|discriminate].
  destruct (encode_message (clock k) m) as [e|] eqn:E1; cbn [bind]; [|discriminate].
  destruct (pack_list [(Fq, offset); (Fi, len e)]) as [h|] eqn:E2; cbn [bind]; [|discriminate].
  destruct (encode_message_set_from clock (if uses_clock m then S k else k) r (offset + incr) incr magic) as [t|] eqn:E3;
    cbn [bind]; [|discriminate].
  intros [= <-]. exists e, h, t. repeat split; auto.
Qed.

Lemma pack_list2_length f1 v1 f2 v2 h : pack_list [(f1, v1); (f2, v2)] = Ok h -> length h = (fmt_size f1 + fmt_size f2)%nat.
Proof.
  intros P. destruct (pack_list2 _ _ _ _ _ P) as (a & b & Pa & Pb & ->).
  rewrite app_length, (pack_length _ _ _ Pa), (pack_length _ _ _ Pb). reflexivity.
Qed.

Lemma truncation_loop rec orc msgs : forall clock k offset incr magic bs cut n read,
  forallb plain msgs = true ->
  encode_message_set_from clock k msgs offset incr magic = Ok bs ->
  (cut <= length bs)%nat -> (cut <= n)%nat ->
  dec_loop rec orc n (take cut bs) read
  = (whole cut (expected clock k msgs offset incr), cut_outcome read cut (whole cut (expected clock k msgs offset incr))).
Proof.
  induction msgs as [|m r IH]; intros clock k offset incr magic bs cut n read Hp He Hc Hn.
  - cbn in He. injection He as <-. cbn in Hc. assert (cut = O) by lia. subst cut.
    rewrite dec_loop_unfold. reflexivity.
  - cbn [forallb] in Hp. apply andb_prop in Hp. destruct Hp as [Pm Pr].
    destruct (encode_set_cons _ _ _ _ _ _ _ _ He) as (e & h & t & Ee & Eh & Et & ->).
    pose proof (encode_message_parts _ _ _ Ee) as p. pose proof (encoded_length _ _ _ p) as Ls.
    pose proof (pack_list2_length _ _ _ _ _ Eh) as Lh. cbn [fmt_size] in Lh.
    cbn [expected whole snd]. change (entry_size (wire_view (clock k) m)) with (entry_size m).
    destruct (Nat.leb (entry_size m) cut) eqn:L.
    + apply Nat.leb_le in L.
      assert (Ecut : take cut (h ++ e ++ t) = h ++ e ++ take (cut - entry_size m) t).
      { rewrite !app_assoc. replace cut with (length (h ++ e) + (cut - entry_size m))%nat at 1
          by (rewrite app_length; lia). apply take_app_plus. }
      rewrite Ecut, dec_loop_unfold.
      destruct (h ++ e ++ take (cut - entry_size m) t) as [|x0 t0] eqn:Nz.
      { apply (f_equal (@length Z)) in Nz. rewrite !app_length in Nz. cbn in Nz. lia. }
      rewrite <- Nz. destruct n as [|n]; [lia|].
      rewrite (header_complete _ _ _ _ Eh), (dec_message_intact rec orc _ _ _ offset Ee Pm).
      cbn [nonempty]. rewrite orb_true_r.
      rewrite !app_length in Hc.
      rewrite (IH clock _ (offset + incr) incr magic t (cut - entry_size m)%nat n true Pr Et) by lia.
      cbn [app cut_outcome]. f_equal. unfold cut_outcome.
      destruct (whole (cut - entry_size m) _); [destruct (Nat.eqb (cut - entry_size m) 0)|]; reflexivity.
    + apply Nat.leb_gt in L. cbn [cut_outcome].
      destruct cut as [|cut]; [rewrite dec_loop_unfold; reflexivity|].
      rewrite dec_loop_unfold.
      destruct (take (S cut) (h ++ e ++ t)) as [|x0 t0] eqn:Nz.
      { apply (f_equal (@length Z)) in Nz. rewrite take_length in Nz. cbn [length] in Nz. lia. }
      rewrite <- Nz. destruct n as [|n]; [lia|].
      rewrite (header_cut _ _ _ _ (S cut) Eh) by lia. reflexivity.
Qed.

Theorem truncation d orc clock k msgs offset incr magic bs cut :
  forallb plain msgs = true ->
  encode_message_set_from clock k msgs offset incr magic = Ok bs ->
  (cut <= length bs)%nat ->
  dec_set (S d) orc (take cut bs)
  = (whole cut (expected clock k msgs offset incr),
     match whole cut (expected clock k msgs offset incr) with
     | [] => if Nat.eqb cut 0 then None else Some FetchTooSmall
     | _ :: _ => None
     end).
Proof.
  intros Hp He Hc. cbn [dec_set].
  rewrite (truncation_loop (dec_set d orc) orc msgs clock k offset incr magic bs cut _ false Hp He Hc).
  - reflexivity.
  - rewrite take_length. lia.
Qed.

(* the uncut set delivers everything *)
Lemma whole_all clock msgs : forall k offset incr magic bs,
  encode_message_set_from clock k msgs offset incr magic = Ok bs ->
  whole (length bs) (expected clock k msgs offset incr) = expected clock k msgs offset incr.
Proof.
  induction msgs as [|m r IH]; intros k offset incr magic bs He; [reflexivity|].
  destruct (encode_set_cons _ _ _ _ _ _ _ _ He) as (e & h & t & Ee & Eh & Et & ->).
  pose proof (encode_message_parts _ _ _ Ee) as p. pose proof (encoded_length _ _ _ p) as Ls.
  pose proof (pack_list2_length _ _ _ _ _ Eh) as Lh. cbn [fmt_size] in Lh.
  cbn [expected whole snd]. change (entry_size (wire_view (clock k) m)) with (entry_size m).
  rewrite !app_length.
  replace (Nat.leb (entry_size m) (length h + (length e + length t))) with true by (symmetry; apply Nat.leb_le; lia).
  f_equal. replace (length h + (length e + length t) - entry_size m)%nat with (length t) by lia.
  apply (IH _ _ _ _ _ Et).
Qed.

Corollary complete_set d orc clock k msgs offset incr magic bs :
  forallb plain msgs = true ->
  encode_message_set_from clock k msgs offset incr magic = Ok bs ->
  dec_set (S d) orc bs = (expected clock k msgs offset incr, None).
Proof.
  intros Hp He. pose proof (truncation d orc clock k msgs offset incr magic bs (length bs) Hp He (le_n _)) as T.
  rewrite take_all in T by lia. rewrite (whole_all _ _ _ _ _ _ _ He) in T. rewrite T. f_equal.
  destruct (expected clock k msgs offset incr) eqn:E; [|reflexivity].
  destruct msgs; [cbn in He; injection He as <-; reflexivity|discriminate].
Qed.

(* ------------------------------------------------------------------ a corrupted message is a ChecksumError *)
Lemma dec_message_checksum rec orc d off :
  (6 <= length d)%nat -> dec_be_unsigned (take 4 d) <> crc32 (drop 4 d) ->
  dec_message rec orc (Some d) off = fail Checksum.
Proof.
  intros L H.
  destruct d as [|b0 [|b1 [|b2 [|b3 [|b4 [|b5 r]]]]]]; cbn [length] in L; try lia.
  unfold dec_message, read_u32, read_u8, unpack.
  cbn [length fmt_size Nat.ltb Nat.leb take drop fmt_signed bind] in *.
  destruct (dec_be_unsigned [b0; b1; b2; b3] =? crc32 (b4 :: b5 :: r)) eqn:E; [apply Z.eqb_eq in E; contradiction|].
  reflexivity.
Qed.

Lemma dec_be4_inj a b : length a = 4%nat -> length b = 4%nat -> bytes_ok a = true -> bytes_ok b = true ->
  dec_be_unsigned a = dec_be_unsigned b -> a = b.
Proof.
  intros La Lb Ha Hb.
  destruct a as [|a0 [|a1 [|a2 [|a3 [|]]]]]; try discriminate.
  destruct b as [|b0 [|b1 [|b2 [|b3 [|]]]]]; try discriminate.
  cbn [bytes_ok forallb] in Ha, Hb. unfold is_byte in Ha, Hb.
  repeat (apply andb_prop in Ha; destruct Ha as [? Ha]). repeat (apply andb_prop in Hb; destruct Hb as [? Hb]).
  repeat match goal with H : (_ <=? _) = true |- _ => apply Z.leb_le in H | H : (_ <? _) = true |- _ => apply Z.ltb_lt in H end.
  cbn [dec_be_unsigned length].
  change (256 ^ Z.of_nat 3) with 16777216. change (256 ^ Z.of_nat 2) with 65536.
  change (256 ^ Z.of_nat 1) with 256. change (256 ^ Z.of_nat 0) with 1.
  intros E. assert (a0 = b0 /\ a1 = b1 /\ a2 = b2 /\ a3 = b3) as (-> & -> & -> & ->) by lia. reflexivity.
Qed.

(* (a) a burst inside the checksummed region *)
Theorem flip_detected rec orc now m bs e off :
  encode_message now m = Ok bs -> obytes_ok (m_key m) = true -> obytes_ok (m_value m) = true ->
  bytes_ok e = true -> length e = length (drop 4 bs) -> burst_pattern (zbits e) ->
  dec_message rec orc (Some (take 4 bs ++ zxor (drop 4 bs) e)) off = fail Checksum.
Proof.
  intros E Hk Hv He Le Hb. pose proof (encode_message_parts now m bs E) as p.
  pose proof (body_bytes _ _ _ p Hk Hv) as Bb. pose proof (body_length _ _ _ p) as Bl.
  rewrite (encoded_eq _ _ _ p) in *.
  pose proof (drop_app_exact (enc_be 4 (crc32 (body_of p))) (body_of p)) as D. rewrite enc_be_length in D.
  pose proof (take_app_exact (enc_be 4 (crc32 (body_of p))) (body_of p)) as T. rewrite enc_be_length in T.
  rewrite D in *. rewrite T.
  set (body' := zxor (body_of p) e).
  assert (Lb' : length body' = length (body_of p)) by (apply zxor_length; auto).
  apply dec_message_checksum.
  - rewrite app_length, enc_be_length, Lb', Bl. destruct (m_magic m =? 1); lia.
  - pose proof (take_app_exact (enc_be 4 (crc32 (body_of p))) body') as T'. rewrite enc_be_length in T'. rewrite T'.
    pose proof (drop_app_exact (enc_be 4 (crc32 (body_of p))) body') as D'. rewrite enc_be_length in D'. rewrite D'.
    pose proof (crc32_range _ Bb) as R.
    rewrite dec_enc_unsigned_small by (change (256 ^ Z.of_nat 4) with 4294967296; lia).
    intros X. apply (crc_burst (body_of p) e Bb He (eq_sym Le) Hb). symmetry. exact X.
Qed.

(* (b) the stored CRC field altered in any way *)
Theorem crc_field_detected rec orc now m bs c' off :
  encode_message now m = Ok bs -> obytes_ok (m_key m) = true -> obytes_ok (m_value m) = true ->
  bytes_ok c' = true -> length c' = 4%nat -> c' <> take 4 bs ->
  dec_message rec orc (Some (c' ++ drop 4 bs)) off = fail Checksum.
Proof.
  intros E Hk Hv Hc Lc Ne. pose proof (encode_message_parts now m bs E) as p.
  pose proof (body_bytes _ _ _ p Hk Hv) as Bb. pose proof (body_length _ _ _ p) as Bl.
  rewrite (encoded_eq _ _ _ p) in *.
  pose proof (drop_app_exact (enc_be 4 (crc32 (body_of p))) (body_of p)) as D. rewrite enc_be_length in D.
  pose proof (take_app_exact (enc_be 4 (crc32 (body_of p))) (body_of p)) as T. rewrite enc_be_length in T.
  rewrite D. rewrite T in Ne.
  apply dec_message_checksum.
  - rewrite app_length, Lc, Bl. destruct (m_magic m =? 1); lia.
  - pose proof (take_app_exact c' (body_of p)) as T'. rewrite Lc in T'. rewrite T'.
    pose proof (drop_app_exact c' (body_of p)) as D'. rewrite Lc in D'. rewrite D'.
    pose proof (crc32_range _ Bb) as R.
    intros X. apply Ne.
    apply dec_be4_inj; [exact Lc|apply enc_be_length|exact Hc|apply bytes_ok_Forall, enc_be_bytes|].
    rewrite X. symmetry. apply dec_enc_unsigned_small. change (256 ^ Z.of_nat 4) with 4294967296. lia.
Qed.

(* (c) inside a set: the messages before the damaged entry are delivered, then ChecksumError - the damaged
   message and everything after it are not delivered *)
Lemma corrupt_loop rec orc msgs : forall clock k offset incr magic bs n read off' bad h' rest,
  forallb plain msgs = true ->
  encode_message_set_from clock k msgs offset incr magic = Ok bs ->
  pack_list [(Fq, off'); (Fi, len bad)] = Ok h' ->
  (6 <= length bad)%nat -> dec_be_unsigned (take 4 bad) <> crc32 (drop 4 bad) ->
  (length (bs ++ h' ++ bad ++ rest) <= n)%nat ->
  dec_loop rec orc n (bs ++ h' ++ bad ++ rest) read = (expected clock k msgs offset incr, Some Checksum).
Proof.
  induction msgs as [|m r IH]; intros clock k offset incr magic bs n read off' bad h' rest Hp He Eh' Lb Hbad Hn.
  - cbn in He. injection He as <-. cbn [app expected] in *.
    rewrite dec_loop_unfold.
    destruct (h' ++ bad ++ rest) as [|x0 t0] eqn:Nz.
    { apply (f_equal (@length Z)) in Nz. rewrite !app_length in Nz. cbn in Nz. lia. }
    rewrite <- Nz in *. destruct n as [|n]; [rewrite Nz in Hn; cbn in Hn; lia|].
    rewrite (header_complete _ _ _ _ Eh'), (dec_message_checksum rec orc bad off' Lb Hbad). reflexivity.
  - cbn [forallb] in Hp. apply andb_prop in Hp. destruct Hp as [Pm Pr].
    destruct (encode_set_cons _ _ _ _ _ _ _ _ He) as (e & h & t & Ee & Eh & Et & ->).
    rewrite <- !app_assoc in *. rewrite dec_loop_unfold.
    pose proof (pack_list2_length _ _ _ _ _ Eh) as Lh. cbn [fmt_size] in Lh.
    destruct (h ++ e ++ t ++ h' ++ bad ++ rest) as [|x0 t0] eqn:Nz.
    { apply (f_equal (@length Z)) in Nz. rewrite !app_length in Nz. cbn in Nz. lia. }
    rewrite <- Nz in *. destruct n as [|n]; [rewrite Nz in Hn; cbn in Hn; lia|].
    rewrite (header_complete _ _ _ _ Eh), (dec_message_intact rec orc _ _ _ offset Ee Pm).
    cbn [nonempty]. rewrite orb_true_r.
    rewrite (IH clock _ (offset + incr) incr magic t n true off' bad h' rest Pr Et Eh' Lb Hbad).
    + reflexivity.
    + rewrite !app_length in *. lia.
Qed.

Theorem corrupt_in_set d orc clock k msgs offset incr magic bs off' bad h' rest :
  forallb plain msgs = true ->
  encode_message_set_from clock k msgs offset incr magic = Ok bs ->
  pack_list [(Fq, off'); (Fi, len bad)] = Ok h' ->
  (6 <= length bad)%nat -> dec_be_unsigned (take 4 bad) <> crc32 (drop 4 bad) ->
  dec_set (S d) orc (bs ++ h' ++ bad ++ rest) = (expected clock k msgs offset incr, Some Checksum).
Proof. intros. cbn [dec_set]. eapply corrupt_loop; eauto. Qed.
