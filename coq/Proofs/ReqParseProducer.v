(* C04, part 6: the Producer's path composed - version resolved by the client (Model.ClientVersion), message set
   built by create_message_set in the format chosen from it (producer.py:403-406), request encoded with the
   version looked up for Produce (client.py:693-696): the request is grammatical, carries exactly the messages,
   and its message format is the one of the version written in the header. *)
From AV Require Import Base.Util Model.Prim Model.Crc Model.MsgSet Model.KafkaSpecReq Model.Requests Model.ClientVersion
     Proofs.PrimFacts Proofs.Truncation Proofs.ReqParsePrim Proofs.ReqParseGroup Proofs.ReqParseApis
     Proofs.ReqParseProduce Proofs.ClientVersionFacts.
From Coq Require Import Lia.

Lemma plain_views_magics clock msgs : forall k o i,
  map p_magic (plain_views clock k o i msgs) = map m_magic msgs.
Proof. induction msgs as [|m r IH]; intros k o i; cbn [plain_views map]; [reflexivity|]. now rewrite IH. Qed.

Lemma created_magic clock reqs magic m :
  In m (create_messages clock reqs magic) -> m_magic m = (if (magic =? 1) then 1 else 0).
Proof.
  unfold create_messages. intros I. apply in_map_iff in I. destruct I as ((i & (key & p)) & <- & _).
  unfold create_message. destruct (magic =? 1); reflexivity.
Qed.

Lemma forallb_map_const {A} (f : A -> Z) (l : list A) c :
  (forall x, In x l -> f x = c) -> forallb (fun x => x =? c) (map f l) = true.
Proof.
  intros H. apply forallb_forall. intros x I. apply in_map_iff in I. destruct I as (a & <- & Ia).
  rewrite (H a Ia). apply Z.eqb_refl.
Qed.

Lemma created_views_magics orc clock reqs codec mg ms :
  mg = 0 \/ mg = 1 ->
  create_message_set orc clock reqs codec mg = Ok ms ->
  codec = CODEC_NONE \/ codec = CODEC_GZIP ->
  forallb (fun x => x =? mg) (flat_map smsg_magics (created_views clock reqs codec mg ms)) = true.
Proof.
  intros MG C CD.
  assert (IM : forall m, In m (create_messages clock reqs mg) -> m_magic m = mg).
  { intros m I. rewrite (created_magic _ _ _ _ I). destruct MG as [-> | ->]; reflexivity. }
  unfold create_message_set in C. unfold created_views.
  destruct CD as [-> | ->]; cbn [Z.eqb CODEC_NONE CODEC_GZIP Pos.eqb] in *.
  - clear C. set (inner := create_messages clock reqs mg) in *.
    assert (E : flat_map smsg_magics (map SPlain (plain_views clock 0 0 0 inner)) = map m_magic inner).
    { rewrite <- (plain_views_magics clock inner 0 0 0).
      induction (plain_views clock 0 0 0 inner) as [|x r IH]; [reflexivity|]. cbn [map flat_map smsg_magics app]. now rewrite IH. }
    rewrite E. apply forallb_map_const. exact IM.
  - destruct (create_gzip_message orc clock _ (create_messages clock reqs mg) mg) as [w|] eqn:G; cbn [bind] in C; [|discriminate].
    injection C as <-. cbn [flat_map smsg_magics app]. rewrite app_nil_r. cbn [forallb].
    assert (W : m_magic w = mg).
    { unfold create_gzip_message, create_compressed_message in G.
      destruct (encode_message_set clock _ _ None 0) as [ee|]; cbn [bind] in G; [|discriminate].
      destruct (gz_enc orc ee) as [zz|]; cbn [bind] in G; [|discriminate].
      destruct (mg =? 1); injection G as <-; reflexivity. }
    cbn [plain_pmsg p_magic]. rewrite W, Z.eqb_refl. cbn [andb].
    rewrite plain_views_magics. apply forallb_map_const. exact IM.
Qed.

Definition resolved_ok (st : vstate) : Prop :=
  st = VFallback \/ exists t, st = VTable t /\ table_ok t = true.

Lemma resolved_versions st : resolved_ok st ->
  exists pv mg, version_for st PRODUCE_KEY = Some pv /\ producer_magic st = Some mg /\ 0 <= pv /\
                (mg = 0 \/ mg = 1) /\ mg = (if (produce_header_version pv =? 2) then 1 else 0).
Proof.
  intros [-> | (t & -> & OK)].
  - exists 0, 0. cbn. repeat split; auto; lia.
  - destruct (choose_table t OK) as (pv & fv & P2 & _ & _ & _ & C).
    unfold choose in C. cbn [producer_magic] in C.
    destruct (version_for (VTable t) PRODUCE_KEY) as [pv'|] eqn:VP; [|discriminate].
    destruct (version_for (VTable t) FETCH_KEY) as [fv'|]; [|discriminate].
    injection C as -> _ _ _ _. exists pv, 1. cbn [producer_magic]. repeat split; auto; try lia.
    unfold produce_header_version. replace (2 <=? pv) with true by (symmetry; apply Z.leb_le; lia). reflexivity.
Qed.

Theorem producer_request_conforms orc clock eclock cid corr topic partition reqs codec acks timeout st pv mg ms w :
  oracle_gzip_ok orc ->
  resolved_ok st -> version_for st PRODUCE_KEY = Some pv -> producer_magic st = Some mg ->
  create_message_set orc clock reqs codec mg = Ok ms ->
  forallb request_ok reqs = true -> codec = CODEC_NONE \/ codec = CODEC_GZIP ->
  present topic = true ->
  encode_produce_request eclock cid corr [mkProduce topic partition ms] acks timeout pv = Ok w ->
  exists r, parse_request orc w = Some r /\
            r = mkSreq 0 (produce_header_version pv) corr (Some cid)
                       (SProduce acks timeout [(abytes topic, [(partition, created_views clock reqs codec mg ms)])]) /\
            format_matches_version r = true.
Proof.
  intros OR RS VP PM C RQ CD PT E.
  destruct (resolved_versions st RS) as (pv' & mg' & VP' & PM' & V0 & MG & MV).
  rewrite VP in VP'. injection VP' as <-. rewrite PM in PM'. injection PM' as <-.
  destruct (created_set_view orc clock reqs codec mg ms eclock 0%nat OR C RQ CD MG) as [SV _].
  eexists. split; [|split; [reflexivity|]].
  - eapply produce_parses; [exact E| |exact V0|].
    + cbn. rewrite PT. reflexivity.
    + change (group_by_topic_and_partition pr_topic pr_partition [mkProduce topic partition ms])
        with [(topic, [(partition, mkProduce topic partition ms)])].
      constructor; [|constructor]. constructor; [exact SV|constructor].
  - unfold format_matches_version. cbn [s_body s_version body_magics flat_map snd app]. rewrite !app_nil_r.
    rewrite <- MV. exact (created_views_magics orc clock reqs codec mg ms MG C CD).
Qed.
