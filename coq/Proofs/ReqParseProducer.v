(* C04, part 6: the Producer's path composed - version resolved by the client (Model.ClientVersion), message set
   built by create_message_set in the format chosen from it (producer.py:403-406), request encoded with the
   version looked up for Produce (client.py:693-696): the request is grammatical, carries exactly the messages,
   and its message format is the one of the version written in the header. *)
From AV Require Import Base.Util Model.Prim Model.Crc Model.MsgSet Model.KafkaSpecReq Model.Requests Model.ClientVersion
     Proofs.PrimFacts Proofs.Truncation Proofs.ReqParsePrim Proofs.ReqParseGroup Proofs.ReqParseApis
     Proofs.ReqParseProduce Proofs.ClientVersionFacts.
From Coq Require Import Lia.

Lemma plain_views_magics clock msgs : forall k o i,
  map p_magic (plain_views clock k o i msgs) = map m_magic msgs.
Proof. induction msgs as [|m r IH]; intros k o i; cbn [plain_views map]; [reflexivity|]. now rewrite IH. Qed.

Lemma created_magic clock reqs magic m :
  In m (create_messages clock reqs magic) -> m_magic m = (if (magic =? 1) then 1 else 0).
Proof.
  unfold create_messages. intros I. apply in_map_iff in I. destruct I as ((i & (key & p)) & <- & _).
  unfold create_message. destruct (magic =? 1); reflexivity.
Qed.

Lemma forallb_map_const {A} (f : A -> Z) (l : list A) c :
  (forall x, In x l -> f x = c) -> forallb (fun x => x =? c) (map f l) = true.
Proof.
  intros H. apply forallb_forall. intros x I. apply in_map_iff in I. destruct I as (a & <- & Ia).
  rewrite (H a Ia). apply Z.eqb_refl.
Qed.

Lemma created_views_magics orc clock reqs codec mg ms :
  mg = 0 \/ mg = 1 ->
  create_message_set orc clock reqs codec mg = Ok ms ->
  codec = CODEC_NONE \/ codec = CODEC_GZIP ->
  forallb (fun x => x =? mg) (flat_map smsg_magics (created_views clock reqs codec mg ms)) = true.
Proof.
  intros MG C CD.
  assert (IM : forall m, In m (create_messages clock reqs mg) -> m_magic m = mg).
  { intros m I. rewrite (created_magic _ _ _ _ I). destruct MG as [-> | ->]; reflexivity. }
  unfold create_message_set in C. unfold created_views.
  destruct CD as [-> | ->]; cbn [Z.eqb CODEC_NONE CODEC_GZIP Pos.eqb] in *.
  - clear C. set (inner := create_messages clock reqs mg) in *.
    assert (E : flat_map smsg_magics (map SPlain (plain_views clock 0 0 0 inner)) = map m_magic inner).
    { rewrite <- (plain_views_magics clock inner 0 0 0).
      induction (plain_views clock 0 0 0 inner) as [|x r IH]; [reflexivity|]. cbn [map flat_map smsg_magics app]. now rewrite IH. }
    rewrite E. apply forallb_map_const. exact IM.
  - destruct (create_gzip_message orc clock _ (create_messages clock reqs mg) mg) as [w|] eqn:G; cbn [bind] in C; [|discriminate].
    injection C as <-. cbn [flat_map smsg_magics app]. rewrite app_nil_r. cbn [forallb].
    assert (W : m_magic w = mg).
    { unfold create_gzip_message, create_compressed_message in G.
      destruct (encode_message_set clock _ _ None 0) as [ee|]; cbn [bind] in G; [|discriminate].
      destruct (gz_enc orc ee) as [zz|]; cbn [bind] in G; [|discriminate].
      destruct (mg =? 1); injection G as <-; reflexivity. }
    cbn [plain_pmsg p_magic]. rewrite W, Z.eqb_refl. cbn [andb].
    rewrite plain_views_magics. apply forallb_map_const. exact IM.
Qed.

Definition resolved_ok (st : vstate) : Prop :=
  st = VFallback \/ exists t, st = VTable t /\ table_ok t = true.

Lemma resolved_versions st : resolved_ok st ->
  exists pv mg, version_for st PRODUCE_KEY = Some pv /\ producer_magic st = Some mg /\ 0 <= pv /\
                (mg = 0 \/ mg = 1) /\ mg = (if (produce_header_version pv =? 2) then 1 else 0).
Proof.
  intros [-> | (t & -> & OK)].
  - exists 0, 0. cbn. repeat split; auto; lia.
  - destruct (choose_table t OK) as (pv & fv & P2 & _ & _ & _ & C).
    unfold choose in C. cbn [producer_magic] in C.
    destruct (version_for (VTable t) PRODUCE_KEY) as [pv'|] eqn:VP; [|discriminate].
    destruct (version_for (VTable t) FETCH_KEY) as [fv'|]; [|discriminate].
    injection C as -> _ _ _ _. exists pv, 1. cbn [producer_magic]. repeat split; auto; try lia.
    unfold produce_header_version. replace (2 <=? pv) with true by (symmetry; apply Z.leb_le; lia). reflexivity.
Qed.

Theorem producer_request_conforms orc clock eclock cid corr topic partition reqs codec acks timeout st pv mg ms w :
  oracle_gzip_ok orc ->
  resolved_ok st -> version_for st PRODUCE_KEY = Some pv -> producer_magic st = Some mg ->
  create_message_set orc clock reqs codec mg = Ok ms ->
  forallb request_ok reqs = true -> codec = CODEC_NONE \/ codec = CODEC_GZIP ->
  present topic = true ->
  encode_produce_request eclock cid corr [mkProduce topic partition ms] acks timeout pv = Ok w ->
  exists r, parse_request orc w = Some r /\
            r = mkSreq 0 (produce_header_version pv) corr (Some cid)
                       (SProduce acks timeout [(abytes topic, [(partition, created_views clock reqs codec mg ms)])]) /\
            format_matches_version r = true.
Proof.
  intros OR RS VP PM C RQ CD PT E.
  destruct (resolved_versions st RS) as (pv' & mg' & VP' & PM' & V0 & MG & MV).
  rewrite VP in VP'. injection VP' as <-. rewrite PM in PM'. injection PM' as <-.
  destruct (created_set_view orc clock reqs codec mg ms eclock 0%nat OR C RQ CD MG) as [SV _].
  eexists. split; [|split; [reflexivity|]].
  - eapply produce_parses; [exact E| |exact V0|].
    + cbn. rewrite PT. reflexivity.
    + change (group_by_topic_and_partition pr_topic pr_partition [mkProduce topic partition ms])
        with [(topic, [(partition, mkProduce topic partition ms)])].
      constructor; [|constructor]. constructor; [exact SV|constructor].
  - unfold format_matches_version. cbn [s_body s_version body_magics flat_map snd app]. rewrite !app_nil_r.
    rewrite <- MV. exact (created_views_magics orc clock reqs codec mg ms MG C CD).
Qed.

(* ------------------------------------------------------------------ the same for a LIST of payloads (one per
   topic-partition in the Producer, producer.py:403-411; the theorem does not need the keys to be distinct: grouping
   is done on the records the payloads were built from) *)
Record built := mkBuilt { b_topic : text; b_partition : Z; b_clock : nat -> Z; b_reqs : list send_request;
                          b_msgs : list message }.
Definition payload_of (b : built) : produce_payload := mkProduce (b_topic b) (b_partition b) (b_msgs b).
Definition built_ok (orc : oracle) (codec mg : Z) (b : built) : Prop :=
  create_message_set orc (b_clock b) (b_reqs b) codec mg = Ok (b_msgs b) /\
  forallb request_ok (b_reqs b) = true /\ present (b_topic b) = true.

Definition map_vals {K A B} (h : A -> B) (l : list (K * A)) : list (K * B) := map (fun kv => (fst kv, h (snd kv))) l.

Lemma aset_map {K A B} (eqb : K -> K -> bool) (h : A -> B) k (f : option A -> A) (f' : option B -> B) l :
  (forall o, h (f o) = f' (option_map h o)) ->
  map_vals h (aset eqb k f l) = aset eqb k f' (map_vals h l).
Proof.
  intros Hf. induction l as [|[k' v'] r IH]; cbn [aset map_vals map fst snd].
  - rewrite (Hf None). reflexivity.
  - destruct (eqb k' k); cbn [map fst snd].
    + rewrite (Hf (Some v')). reflexivity.
    + unfold map_vals in IH. rewrite IH. reflexivity.
Qed.

Lemma group_map_payloads bs :
  group_by_topic_and_partition pr_topic pr_partition (map payload_of bs)
  = map_vals (map_vals payload_of) (group_by_topic_and_partition b_topic b_partition bs).
Proof.
  induction bs as [|x bs IH] using rev_ind; [reflexivity|].
  rewrite map_app. cbn [map]. rewrite !group_snoc, IH. unfold group_step. cbn [payload_of pr_topic pr_partition].
  symmetry. apply aset_map. intros o.
  rewrite (aset_map Z.eqb payload_of (b_partition x) (fun _ => x) (fun _ => payload_of x)); [|reflexivity].
  destruct o; reflexivity.
Qed.

Definition built_views (codec mg : Z) (g : list (text * list (Z * built))) : list (list Z * list (Z * list smsg)) :=
  map (fun tp => (abytes (fst tp),
                  map (fun pb => (fst pb, created_views (b_clock (snd pb)) (b_reqs (snd pb)) codec mg (b_msgs (snd pb))))
                      (snd tp))) g.

Lemma built_parts_view orc eclock codec mg : oracle_gzip_ok orc ->
  codec = CODEC_NONE \/ codec = CODEC_GZIP -> mg = 0 \/ mg = 1 ->
  forall inner k, (forall pb, In pb inner -> built_ok orc codec mg (snd pb)) ->
  parts_view orc eclock k (map_vals payload_of inner)
    (map (fun pb => (fst pb, created_views (b_clock (snd pb)) (b_reqs (snd pb)) codec mg (b_msgs (snd pb)))) inner).
Proof.
  intros OR CD MG. induction inner as [|[p b] r IH]; intros k H; cbn [map_vals map fst snd]; constructor.
  - destruct (H (p, b) (or_introl eq_refl)) as (C & RQ & _). cbn [payload_of pr_messages snd] in *.
    exact (proj1 (created_set_view orc (b_clock b) (b_reqs b) codec mg (b_msgs b) eclock k OR C RQ CD MG)).
  - apply IH. intros pb I. apply H. right. exact I.
Qed.

Lemma built_topics_view orc eclock codec mg : oracle_gzip_ok orc ->
  codec = CODEC_NONE \/ codec = CODEC_GZIP -> mg = 0 \/ mg = 1 ->
  forall g k, (forall tp pb, In tp g -> In pb (snd tp) -> built_ok orc codec mg (snd pb)) ->
  topics_view orc eclock k (map_vals (map_vals payload_of) g) (built_views codec mg g).
Proof.
  intros OR CD MG. induction g as [|[t inner] r IH]; intros k H; cbn [map_vals built_views map fst snd]; constructor.
  - apply built_parts_view; auto. intros pb I. apply (H (t, inner) pb); [left; reflexivity|exact I].
  - apply IH. intros tp pb I1 I2. apply (H tp pb); [right; exact I1|exact I2].
Qed.

Lemma built_views_magics orc codec mg : mg = 0 \/ mg = 1 -> codec = CODEC_NONE \/ codec = CODEC_GZIP ->
  forall g, (forall tp pb, In tp g -> In pb (snd tp) -> built_ok orc codec mg (snd pb)) ->
  forallb (fun x => x =? mg)
          (flat_map (fun t => flat_map (fun pm => flat_map smsg_magics (snd pm)) (snd t)) (built_views codec mg g)) = true.
Proof.
  intros MG CD g H. apply forallb_forall. intros x I.
  apply in_flat_map in I. destruct I as (tv & Itv & I). unfold built_views in Itv. apply in_map_iff in Itv.
  destruct Itv as (tp & <- & Itp). cbn [snd] in I.
  apply in_flat_map in I. destruct I as (pv & Ipv & I). apply in_map_iff in Ipv. destruct Ipv as (pb & <- & Ipb). cbn [snd] in I.
  destruct (H tp pb Itp Ipb) as (C & _ & _).
  pose proof (created_views_magics orc _ _ codec mg _ MG C CD) as M. rewrite forallb_forall in M. exact (M x I).
Qed.

Theorem producer_batch_conforms orc eclock cid corr bs codec acks timeout st pv mg w :
  oracle_gzip_ok orc ->
  resolved_ok st -> version_for st PRODUCE_KEY = Some pv -> producer_magic st = Some mg ->
  codec = CODEC_NONE \/ codec = CODEC_GZIP ->
  Forall (built_ok orc codec mg) bs ->
  encode_produce_request eclock cid corr (map payload_of bs) acks timeout pv = Ok w ->
  exists r, parse_request orc w = Some r /\
            r = mkSreq 0 (produce_header_version pv) corr (Some cid)
                       (SProduce acks timeout (built_views codec mg (group_by_topic_and_partition b_topic b_partition bs))) /\
            format_matches_version r = true.
Proof.
  intros OR RS VP PM CD OKs E.
  destruct (resolved_versions st RS) as (pv' & mg' & VP' & PM' & V0 & MG & MV).
  rewrite VP in VP'. injection VP' as <-. rewrite PM in PM'. injection PM' as <-.
  rewrite Forall_forall in OKs.
  assert (HG : forall tp pb, In tp (group_by_topic_and_partition b_topic b_partition bs) -> In pb (snd tp) ->
                             built_ok orc codec mg (snd pb)).
  { intros [t inner] [p b] I1 I2. cbn [snd] in *.
    destruct (group_sound b_topic b_partition bs t inner p b I1 I2) as (Ib & _ & _). now apply OKs. }
  eexists. split; [|split; [reflexivity|]].
  - eapply produce_parses; [exact E| |exact V0|].
    + unfold topics_present. apply forallb_forall. intros p I. apply in_map_iff in I. destruct I as (b & <- & Ib).
      cbn [payload_of pr_topic]. exact (proj2 (proj2 (OKs b Ib))).
    + rewrite group_map_payloads. apply built_topics_view; auto.
  - unfold format_matches_version. cbn [s_body s_version body_magics]. rewrite <- MV.
    exact (built_views_magics orc codec mg MG CD _ HG).
Qed.
