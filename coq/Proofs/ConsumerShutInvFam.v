(* C13, shutdown bookkeeping, part 3: the invariant through every nested execution, every event, every run. *)
From Coq Require Import Lia.
From AV Require Import Base.Util Model.Consumer Proofs.ConsumerBase Proofs.ConsumerFrame Proofs.ConsumerStop Proofs.ConsumerShutFlags
  Proofs.ConsumerShutInvRC Proofs.ConsumerShutInv.
Open Scope Z_scope.

(* what the methods that never recurse do to the bookkeeping *)
Definition KS (s s' : state) : Prop :=
  s_stopping s' = s_stopping s /\ (s_startd s' = None <-> s_startd s = None) /\
  s_shutting s' = s_shutting s /\ s_shutd s' = s_shutd s /\ s_mblock s' = s_mblock s /\ s_proc s' = s_proc s /\
  (shutw s = true -> shutw s' = true) /\ (rcall_stale s' = true -> rcall_stale s = true).
Lemma KS_refl s : KS s s. Proof. unfold KS. tauto. Qed.
Lemma KS_trans a b c : KS a b -> KS b c -> KS a c.
Proof.
  unfold KS. intros (a1 & a2 & a3 & a4 & a5 & a6 & a7 & a8) (b1 & b2 & b3 & b4 & b5 & b6 & b7 & b8).
  repeat split; try congruence; try tauto; auto.
Qed.
Lemma shutw_app s l : shutw s = true -> existsb is_shut_cd (s_cds s ++ l) = true.
Proof. unfold shutw. intro H. rewrite existsb_app, H. reflexivity. Qed.
Ltac ks_explicit := solve [ unfold KS, shutw, rcall_stale; psimpl; repeat split; auto; try (intros; congruence); try (intros; discriminate);
  repeat match goal with D : s_startd _ = _ |- _ => rewrite D in * end;
  repeat match goal with D : s_rcall _ = _ |- _ => rewrite D in * end;
  repeat match goal with D : s_cds _ = _ |- _ => rewrite D in * end;
  cbn [negb Z.eqb] in *; try (intros; congruence); try (intros; discriminate); try tauto;
  try (let Hx := fresh "Hx" in intro Hx; rewrite existsb_app, Hx; reflexivity);
  cbn [existsb] in *; try (intros; congruence); try (intros; discriminate) ].
Ltac ks_chain :=
  lazymatch goal with
  | |- KS ?s ?s' =>
    first [ match goal with
            | H : KS ?a ?b |- _ =>
              lazymatch s' with context [b] => idtac end;
              apply (KS_trans s b s'); [ apply (KS_trans s a b); [ clear H; ks_chain | exact H ] | ks_explicit ]
            end
          | ks_explicit ]
  end.
Ltac use L := repeat match goal with E : _ = (_, _, _) |- _ => apply L in E end.

Lemma startd_errback_ks fk s r s' o : startd_errback fk s = (r, s', o) -> KS s s'.
Proof. intro H. unfold startd_errback in H. mi H; ks_chain. Qed.
Lemma handle_auto_commit_error_ks fk s r s' o : handle_auto_commit_error fk s = (r, s', o) -> KS s s'.
Proof. intro H. unfold handle_auto_commit_error in H. mi H; use startd_errback_ks; ks_chain. Qed.
Lemma handle_processor_error_ks fk s r s' o : handle_processor_error fk s = (r, s', o) -> KS s s'.
Proof. intro H. unfold handle_processor_error in H. mi H; use startd_errback_ks; ks_chain. Qed.
Lemma send_commit_request_ks i a s r s' o : send_commit_request i a s = (r, s', o) -> KS s s'.
Proof. intro H. unfold send_commit_request in H. mi H; ks_chain. Qed.
Lemma commit_ks w s r s' o : commit w s = (r, s', o) -> KS s s'.
Proof. intro H. unfold commit in H. mi H; use send_commit_request_ks; ks_chain. Qed.
Lemma auto_commit_ks bc s r s' o : auto_commit bc s = (r, s', o) -> KS s s'.
Proof. intro H. unfold auto_commit in H. mi H; use commit_ks; use handle_auto_commit_error_ks; ks_chain. Qed.
Lemma pop_plan_ks s r s' o : pop_plan s = (r, s', o) -> KS s s'.
Proof. intro H. unfold pop_plan in H. mi H; ks_chain. Qed.
Lemma emit_shutd_ks x s r s' o : emit_shutd x s = (r, s', o) -> KS s s'.
Proof. intro H. unfold emit_shutd in H. mi H; ks_chain. Qed.
Lemma api_commit_ks s r s' o : api_commit s = (r, s', o) -> KS s s'.
Proof. intro H. unfold api_commit in H. mi H; use commit_ks; ks_chain. Qed.
Lemma retry_fetch_ks z s r s' o : retry_fetch z s = (r, s', o) -> KS s s'.
Proof. intro H. unfold retry_fetch in H. mi H; ks_chain. Qed.

(* the three methods that do change the bookkeeping *)
Definition KSp (s s' : state) : Prop :=    (* KS but for the processor slot *)
  s_stopping s' = s_stopping s /\ (s_startd s' = None <-> s_startd s = None) /\
  s_shutting s' = s_shutting s /\ s_shutd s' = s_shutd s /\ s_mblock s' = s_mblock s /\
  (shutw s = true -> shutw s' = true) /\ (rcall_stale s' = true -> rcall_stale s = true).
Lemma KS_KSp a b : KS a b -> KSp a b. Proof. unfold KS, KSp. tauto. Qed.
Lemma proc_chain_ks last fk s r s' o : proc_chain last fk s = (r, s', o) -> KSp s s' /\ s_proc s' = None.
Proof.
  intro H. unfold proc_chain in H. mi H; use auto_commit_ks; use handle_processor_error_ks.
  all: repeat match goal with K : KS _ _ |- _ => destruct K as (? & ? & ? & ? & ? & ? & ? & ?) end; unfold shutw, rcall_stale in *; psimpl.
  all: split; [unfold KSp; repeat split; try congruence; try tauto; auto | congruence].
Qed.
Lemma interrupted_ks s r s' o : interrupted s = (r, s', o) ->
  SC s' /\ s_stopping s' = s_stopping s /\ (s_startd s' = None <-> s_startd s = None) /\ s_mblock s' = s_mblock s /\
  s_proc s' = s_proc s /\ (rcall_stale s' = true -> rcall_stale s = true).
Proof.
  intro H. unfold interrupted in H. mi H; use emit_shutd_ks.
  all: repeat match goal with K : KS _ _ |- _ => destruct K as (? & ? & ? & ? & ? & ? & ? & ?) end; unfold shutw, rcall_stale in *; psimpl.
  all: unfold SC; repeat split; psimpl; try congruence; try tauto; auto.
Qed.
Lemma commit_wshut s c s' o : commit WShut s = (Ok c, s', o) -> c = CPending \/ c = CNow (CFail FK_OIP) -> shutw s' = true.
Proof.
  intros H Hc. unfold commit in H. mi H; use send_commit_request_ks.
  all: try (destruct Hc as [Hc|Hc]; discriminate Hc).
  all: repeat match goal with K : KS _ _ |- _ => destruct K as (_ & _ & _ & _ & _ & _ & k7 & _) end.
  all: try (apply k7); unfold shutw; psimpl; rewrite ?existsb_app; cbn; rewrite ?orb_true_r; reflexivity.
Qed.

Lemma commit_wshut_exc s k s' o : commit WShut s = (Exc k, s', o) -> shutw s' = true.
Proof.
  intro H. unfold commit in H. mi H; use send_commit_request_ks.
  all: repeat match goal with K : KS _ _ |- _ => destruct K as (_ & _ & _ & _ & _ & _ & k7 & _) end.
  all: try (apply k7); unfold shutw; psimpl; rewrite ?existsb_app; cbn; rewrite ?orb_true_r; reflexivity.
Qed.

(* ---------------- the re-entrant part ---------------- *)
Definition SBx (s : state) : Prop := Base s /\ Fe s /\ Hc s.
Definition ST (s s' : state) : Prop :=
  s_shutting s' = s_shutting s /\ s_shutd s' = s_shutd s /\ s_proc s' = s_proc s /\ (shutw s = true -> shutw s' = true).
Definition Mode (s : state) : Prop := s_shutting s = true \/ (Fe s /\ Hc s).
Definition PreS (k : kont) (s : state) : Prop :=
  match k with
  | KStop | KStopCds => False
  | KFireProc _ | KDeliver _ => SBx s
  | KProcLoop _ => Base s /\ s_proc s = None /\ s_mblock s <> None /\ Mode s
  | KFetchResp _ _ => Base s /\ Mode s
  | KCommitAndStop | KShutFinish _ | KFireCd _ _ => Base s /\ Fe s
  end.
Definition LoopPost (s s' : state) : Prop :=
  Base s' /\ (s_shutting s = true -> ST s s') /\ (s_shutting s = false -> Fe s' /\ Hc s').
Definition PostS (k : kont) (s s' : state) : Prop :=
  match k with
  | KStop | KStopCds => True
  | KFireProc _ | KDeliver _ => SBx s'
  | KProcLoop _ | KFetchResp _ _ => LoopPost s s'
  | KCommitAndStop | KShutFinish _ => SBx s' /\ MBs s s' /\ (s_proc s = None -> s_proc s' = None)
  | KFireCd d _ => Base s' /\ Fe s' /\ (is_shut_cd d = true \/ Hc s -> Hc s')
  end.

Lemma bool_cases (b : bool) : b = true \/ b = false. Proof. destruct b; auto. Qed.
Ltac unfold_all := unfold SBx, LoopPost, Mode, Base, I13, Rr, Fe, Hc, ST, MBs, KS, KSp, SC, shutw, rcall_stale in *.
Ltac saturate := repeat match goal with
  | H : ?A -> _ |- _ => lazymatch A with _ = _ => idtac end; let Q := fresh "Q" in assert (Q : A) by congruence; specialize (H Q); clear Q
  end.
Ltac fin2 := first [ congruence | discriminate | solve [ saturate; intuition (try congruence; try discriminate) ] ].
Ltac ssolve := first [ assumption | solve [
  bsimp; unfold is_some in *;
  repeat match goal with D : match s_startd ?x with Some _ => true | None => false end = true |- _ =>
           let b := fresh "b" in let Eb := fresh "Eb" in destruct (s_startd x) as [b|] eqn:Eb; [clear D | discriminate D] end;
  unfold_all; psimpl;
  repeat match goal with H : _ /\ _ |- _ => destruct H end;
  repeat match goal with D : s_proc ?x = Some _ |- _ => rewrite D in * end;
  repeat match goal with D : s_proc ?x = None |- _ => rewrite D in * end;
  repeat match goal with D : s_mblock ?x = _ |- _ => rewrite D in * end;
  cbn [pcont] in *;
  repeat match goal with
         | H : s_shutting ?x = true -> _ |- _ =>
           lazymatch goal with C : s_shutting x = true \/ s_shutting x = false |- _ => fail | _ => pose proof (bool_cases (s_shutting x)) end
         end;
  repeat match goal with
         | H : s_shutd ?x = true -> _ |- _ =>
           lazymatch goal with C : s_shutd x = true \/ s_shutd x = false |- _ => fail | _ => pose proof (bool_cases (s_shutd x)) end
         end;
  intuition (try fin2) ] ].

Definition PREM (A : Prop) : Prop := A.
Lemma stop_sb' fuel s r s' o : run fuel KStop s = (r, s', o) -> fuel_ok o = true -> PREM (Base s /\ s_stopping s = false) ->
  Base s' /\ MBs s s' /\ (s_proc s = None -> s_proc s' = None) /\ s_stopping s' = false /\
  (Fe s -> Hc s -> Fe s' /\ Hc s') /\ (s_shutd s = false -> s_shutd s' = false) /\ (s_startd s <> None -> r = Ok tt).
Proof. intros H Hf (Hb & Hst). exact (stop_sb _ _ _ _ _ H Hf Hb Hst). Qed.
Ltac sfwd := repeat match goal with
  | P : PREM ?A -> _ |- _ =>
    let Q := fresh "Q" in assert (Q : PREM A) by (unfold PREM; cbn [PreS]; ssolve); specialize (P Q); clear Q; cbn [PostS] in P
  end.
Ltac leafs_s :=
  try (match goal with E : proc_chain _ _ _ = (Exc _, _, _) |- _ => exfalso; apply proc_chain_ok in E; destruct E as (? & E); discriminate E end);
  repeat match goal with E : commit WShut _ = (Exc _, _, _) |- _ =>
    let W := fresh "W" in pose proof (commit_wshut_exc _ _ _ _ E) as W; apply commit_ks in E end;
  repeat match goal with E : commit WShut _ = (Ok CPending, _, _) |- _ =>
    let W := fresh "W" in pose proof (commit_wshut _ _ _ _ E (or_introl eq_refl)) as W; apply commit_ks in E end;
  repeat match goal with E : commit WShut _ = (Ok (CNow (CFail _)), _, _), D : (_ =? FK_OIP) = true |- _ =>
    let W := fresh "W" in apply Z.eqb_eq in D; subst; pose proof (commit_wshut _ _ _ _ E (or_intror eq_refl)) as W; apply commit_ks in E end;
  use startd_errback_ks; use handle_auto_commit_error_ks; use handle_processor_error_ks; use send_commit_request_ks;
  use commit_ks; use auto_commit_ks; use pop_plan_ks; use emit_shutd_ks; use api_commit_ks; use retry_fetch_ks;
  use interrupted_ks;
  repeat match goal with E : proc_chain _ _ _ = _ |- _ => apply proc_chain_ks in E end.

(* ---------------- the stages of one pass of the message loop, as plain implications ---------------- *)
Definition Mid0 (s : state) : Prop := SBx s /\ s_stopping s = false /\ s_proc s = None /\ s_mblock s <> None.
Definition Mid1 (s : state) : Prop := SBx s /\ s_proc s = None /\ (s_mblock s <> None \/ s_startd s = None).
Definition FH (s : state) : Prop := Base s /\ Fe s /\ Hc s.

Lemma st_entry s s0 : KS s s0 -> Base s /\ s_proc s = None /\ s_mblock s <> None /\ Mode s ->
  s_shutting s = false -> s_stopping s = false -> Mid0 s0.
Proof. intros K HP D0 D1. unfold Mid0. ssolve. Qed.
Lemma st_api_stop s0 s1 : Mid0 s0 ->
  SBx s1 /\ MBs s0 s1 /\ (s_proc s0 = None -> s_proc s1 = None) /\ s_stopping s1 = false -> Mid1 s1.
Proof. intros M X. unfold Mid0, Mid1 in *. ssolve. Qed.
Lemma st_api_shutdown s0 s1 : Mid0 s0 -> SBx s1 /\ MBs s0 s1 /\ (s_proc s0 = None -> s_proc s1 = None) -> Mid1 s1.
Proof. intros M X. unfold Mid0, Mid1 in *. ssolve. Qed.
Lemma st_api_commit s0 s1 : Mid0 s0 -> KS s0 s1 -> Mid1 s1.
Proof. intros M X. unfold Mid0, Mid1 in *. ssolve. Qed.
Lemma st_api_none s0 : Mid0 s0 -> Mid1 s0.
Proof. intros M. unfold Mid0, Mid1 in *. ssolve. Qed.
Lemma st_prem_stop s0 : Mid0 s0 -> PREM (SBx s0 /\ s_stopping s0 = false).
Proof. intros (a & b & _). split; assumption. Qed.
Lemma st_prem_shutdown s0 : Mid0 s0 -> PREM (SBx s0).
Proof. intros (a & _). exact a. Qed.

(* the processor returned a pending Deferred *)
Lemma st_suspend s1 p : Mid1 s1 -> s_stopping s1 || negb (is_some (s_startd s1)) = false -> pcont (Some p) = false ->
  FH (set_proc (Some p) s1).
Proof. intros M G Hp. unfold Mid1, FH in *. destruct p as [[? ?] c]. cbn [pcont] in Hp. subst c. ssolve. Qed.
Lemma st_cancel s1 p s2 : Mid1 s1 -> pcont (Some p) = false -> KSp (set_proc (Some p) s1) s2 -> s_proc s2 = None -> Mid1 s2.
Proof. intros M Hp K P2. unfold Mid1 in *. destruct p as [[? ?] c]. cbn [pcont] in Hp. subst c. ssolve. Qed.
(* it returned a result *)
Lemma st_sync s1 s2 : Mid1 s1 -> KSp s1 s2 -> s_proc s2 = None -> Mid1 s2.
Proof. intros M K P2. unfold Mid1 in *. ssolve. Qed.
Lemma st_prem_finish s2 : Mid1 s2 -> PREM (Base s2 /\ s_proc s2 = None /\ Mode s2).
Proof. intros M. unfold Mid1, PREM in *. ssolve. Qed.
Lemma st_prem_loop k s2 : Mid1 s2 -> s_stopping s2 || negb (is_some (s_startd s2)) = false -> PREM (PreS (KProcLoop k) s2).
Proof. intros M G. unfold Mid1, PREM in *. cbn [PreS]. ssolve. Qed.
Lemma st_fh s2 : Mid1 s2 -> FH s2.
Proof. intros M. unfold Mid1, FH in *. ssolve. Qed.
Lemma st_after s2 s' : Mid1 s2 -> LoopPost s2 s' -> FH s'.
Proof. intros M L. unfold Mid1, FH in *. ssolve. Qed.
Lemma st_final s s' : s_shutting s = false -> FH s' -> LoopPost s s'.
Proof. intros D (a & b & c). unfold LoopPost. split; [exact a|]. split; [intro Hx; congruence | intros _; split; assumption]. Qed.

Section RecS.
Variable f : nat.
Hypothesis IH : forall k s r s' o, run f k s = (r, s', o) -> fuel_ok o = true -> PreS k s -> PostS k s s'.

Ltac use_ih := repeat match goal with
  | E : run f KStop ?a = (?r, ?b, ?o1), Hf : fuel_ok ?o1 = true |- _ =>
    let P := fresh "P" in pose proof (stop_sb' _ _ _ _ _ E Hf) as P; clear E
  | E : run f ?k ?a = (?r, ?b, ?o1), Hf : fuel_ok ?o1 = true |- _ =>
    let P := fresh "P" in assert (P : PREM (PreS k a) -> PostS k a b) by (exact (IH _ _ _ _ _ E Hf)); clear E
  end.

Lemma api_stop_s s r s' o : api_stop (run f) s = (r, s', o) -> fuel_ok o = true -> SBx s -> s_stopping s = false ->
  SBx s' /\ MBs s s' /\ (s_proc s = None -> s_proc s' = None) /\ s_stopping s' = false.
Proof. intros H Hf HS Hst. unfold api_stop in H. mi H; fuel_split; use_ih; sfwd; ssolve. Qed.

Lemma api_shutdown_s s r s' o : api_shutdown (run f) s = (r, s', o) -> fuel_ok o = true -> SBx s ->
  SBx s' /\ MBs s s' /\ (s_proc s = None -> s_proc s' = None).
Proof. intros H Hf HS. unfold api_shutdown in H. mi H; split_state_if; fuel_split; use_ih; leafs_s; sfwd; ssolve. Qed.

Lemma existsb_rev {A} (p : A -> bool) l : existsb p (rev l) = existsb p l.
Proof. induction l as [|x l IHl]; [reflexivity|]. cbn [rev existsb]. rewrite existsb_app, IHl. cbn. rewrite orb_false_r. apply orb_comm. Qed.

Lemma fire_all_s cr : forall ds s r s' o, fire_all (run f) ds cr s = (r, s', o) -> fuel_ok o = true ->
  Base s -> Fe s -> (Hc s \/ existsb is_shut_cd ds = true) -> SBx s'.
Proof.
  induction ds as [|d ds IHds]; intros s r s' o H Hf HB HF HC; cbn [fire_all] in H.
  - mi H. destruct HC as [HC|HC]; [|discriminate HC]. split; [exact HB | split; [exact HF | exact HC]].
  - cbn [existsb] in HC. mi H; fuel_split; use_ih; sfwd.
    all: destruct P as (B1 & F1 & C1).
    all: match goal with E : fire_all _ _ _ _ = _ |- _ => apply IHds in E; [exact E | assumption | assumption | assumption |] end.
    all: destruct HC as [HC|HC]; [left; apply C1; right; exact HC|].
    all: apply orb_true_iff in HC; destruct HC as [HC|HC]; [left; apply C1; left; exact HC | right; exact HC].
Qed.

Lemma finish_block_s s r s' o : finish_block (run f) s = (r, s', o) -> fuel_ok o = true ->
  Base s -> s_proc s = None -> Mode s -> LoopPost s s'.
Proof. intros H Hf HB Hp HM. unfold finish_block in H. mi H; fuel_split; use_ih; sfwd; ssolve. Qed.

Lemma api_stop_s' s r s' o : api_stop (run f) s = (r, s', o) -> fuel_ok o = true -> PREM (SBx s /\ s_stopping s = false) ->
  SBx s' /\ MBs s s' /\ (s_proc s = None -> s_proc s' = None) /\ s_stopping s' = false.
Proof. intros H Hf (x1 & x2). exact (api_stop_s _ _ _ _ H Hf x1 x2). Qed.
Lemma api_shutdown_s' s r s' o : api_shutdown (run f) s = (r, s', o) -> fuel_ok o = true -> PREM (SBx s) ->
  SBx s' /\ MBs s s' /\ (s_proc s = None -> s_proc s' = None).
Proof. intros H Hf x1. exact (api_shutdown_s _ _ _ _ H Hf x1). Qed.
Lemma finish_block_s' s r s' o : finish_block (run f) s = (r, s', o) -> fuel_ok o = true ->
  PREM (Base s /\ s_proc s = None /\ Mode s) -> LoopPost s s'.
Proof. intros H Hf (x1 & x2 & x3). exact (finish_block_s _ _ _ _ H Hf x1 x2 x3). Qed.
Lemma fire_all_s' cr ds s r s' o : fire_all (run f) ds cr s = (r, s', o) -> fuel_ok o = true ->
  PREM (Base s /\ Fe s /\ (Hc s \/ existsb is_shut_cd ds = true)) -> SBx s'.
Proof. intros H Hf (x1 & x2 & x3). exact (fire_all_s _ _ _ _ _ _ H Hf x1 x2 x3). Qed.
Ltac specs2 :=
  repeat match goal with
  | E : api_stop _ ?a = _, Hf : fuel_ok _ = true |- _ => let X := fresh "X" in pose proof (api_stop_s' _ _ _ _ E Hf) as X; clear E
  | E : api_shutdown _ ?a = _, Hf : fuel_ok _ = true |- _ => let X := fresh "X" in pose proof (api_shutdown_s' _ _ _ _ E Hf) as X; clear E
  | E : finish_block _ ?a = _, Hf : fuel_ok _ = true |- _ => let X := fresh "X" in pose proof (finish_block_s' _ _ _ _ E Hf) as X; clear E
  | E : fire_all _ ?ds _ ?a = _, Hf : fuel_ok _ = true |- _ => let X := fresh "X" in pose proof (fire_all_s' _ _ _ _ _ _ E Hf) as X; clear E
  end.
Ltac go H := cbn [body] in H; mi H; fuel_split; use_ih; specs2; leafs_s; sfwd; ssolve.

Lemma s_KCommitAndStop s r s' o : body (run f) KCommitAndStop s = (r, s', o) -> fuel_ok o = true -> PreS KCommitAndStop s -> PostS KCommitAndStop s s'.
Proof. intros H Hf HP. cbn [PreS PostS] in *. go H. Qed.
Lemma s_KShutFinish fk s r s' o : body (run f) (KShutFinish fk) s = (r, s', o) -> fuel_ok o = true -> PreS (KShutFinish fk) s -> PostS (KShutFinish fk) s s'.
Proof. intros H Hf HP. cbn [PreS PostS] in *. cbn [body] in H; mi H; fuel_split; use_ih; specs2; leafs_s; sfwd; ssolve. Qed.
Lemma s_KFireCd d cr s r s' o : body (run f) (KFireCd d cr) s = (r, s', o) -> fuel_ok o = true -> PreS (KFireCd d cr) s -> PostS (KFireCd d cr) s s'.
Proof. intros H Hf HP. cbn [PreS PostS] in *. go H. Qed.
Lemma s_KDeliver cr s r s' o : body (run f) (KDeliver cr) s = (r, s', o) -> fuel_ok o = true -> PreS (KDeliver cr) s -> PostS (KDeliver cr) s s'.
Proof.
  intros H Hf HP. cbn [PreS PostS] in *. cbn [body] in H; mi H; fuel_split; use_ih; specs2; leafs_s.
  all: match goal with X : PREM _ -> _ |- _ => apply X end.
  all: unfold PREM. all: destruct HP as (HB & HF & HC).
  all: split; [unfold_all; psimpl; exact HB | split; [unfold_all; psimpl; exact HF |]].
  all: rewrite existsb_rev. all: unfold Hc, shutw in *; psimpl.
  all: destruct (s_shutd s) eqn:Ed; [destruct (HC eq_refl) as [Hx|Hx]; [left; intros _; left; exact Hx | right; exact Hx] | left; intro Hx; discriminate Hx].
Qed.
Lemma s_KFireProc fk s r s' o : body (run f) (KFireProc fk) s = (r, s', o) -> fuel_ok o = true -> PreS (KFireProc fk) s -> PostS (KFireProc fk) s s'.
Proof. intros H Hf HP. cbn [PreS PostS] in *. cbn [body] in H; mi H; fuel_split; use_ih; specs2; leafs_s; sfwd; ssolve. Qed.
Lemma s_KFetchResp offs ts s r s' o : body (run f) (KFetchResp offs ts) s = (r, s', o) -> fuel_ok o = true -> PreS (KFetchResp offs ts) s -> PostS (KFetchResp offs ts) s s'.
Proof. intros H Hf HP. cbn [PreS PostS] in *. go H. Qed.

Ltac kpl_stage D0 D1 HP :=
  (* after pop_plan *)
  match goal with E : KS ?s ?s0 |- LoopPost ?s _ =>
    let M0 := fresh "M0" in assert (M0 : Mid0 s0) by (exact (st_entry s s0 E HP D0 D1));
    (* the call the processor makes, if any *)
    let M1 := fresh "M1" in
    first
    [ match goal with X : PREM (SBx s0 /\ s_stopping s0 = false) -> _ |- _ =>
        specialize (X (st_prem_stop _ M0)); pose proof (st_api_stop _ _ M0 X) as M1; clear X end
    | match goal with X : PREM (SBx s0) -> _ |- _ =>
        specialize (X (st_prem_shutdown _ M0)); pose proof (st_api_shutdown _ _ M0 X) as M1; clear X end
    | match goal with E' : KS s0 ?s1 |- _ => pose proof (st_api_commit _ _ M0 E') as M1; clear E' end
    | pose proof (st_api_none _ M0) as M1 ];
    clear E HP M0
  end;
  (* the result of the processor *)
  try match goal with
      | M1 : Mid1 ?s1, E0 : KSp (set_proc (Some ?p) ?s1) ?s2 /\ s_proc ?s2 = None |- _ =>
        let M2 := fresh "M2" in pose proof (st_cancel s1 p s2 M1 eq_refl (proj1 E0) (proj2 E0)) as M2; clear M1 E0
      | M1 : Mid1 ?s1, E0 : KSp ?s1 ?s2 /\ s_proc ?s2 = None |- _ =>
        let M2 := fresh "M2" in pose proof (st_sync s1 s2 M1 (proj1 E0) (proj2 E0)) as M2; clear M1 E0
      end;
  apply (st_final _ _ D0);
  first
  [ match goal with M : Mid1 ?s2, X0 : PREM (Base ?s2 /\ s_proc ?s2 = None /\ Mode ?s2) -> LoopPost ?s2 _ |- _ =>
      exact (st_after _ _ M (X0 (st_prem_finish _ M))) end
  | match goal with M : Mid1 ?s2, G : s_stopping ?s2 || negb (is_some (s_startd ?s2)) = false, P : PREM (PreS (KProcLoop ?k) ?s2) -> _ |- _ =>
      exact (st_after _ _ M (P (st_prem_loop k _ M G))) end
  | match goal with M : Mid1 ?s1, G : s_stopping ?s1 || negb (is_some (s_startd ?s1)) = false |- FH (set_proc (Some _) ?s1) =>
      apply (st_suspend _ _ M G); reflexivity end
  | match goal with M : Mid1 ?s2 |- FH ?s2 => exact (st_fh _ M) end ].

Lemma s_KProcLoop msgs s r s' o : body (run f) (KProcLoop msgs) s = (r, s', o) -> fuel_ok o = true -> PreS (KProcLoop msgs) s -> PostS (KProcLoop msgs) s s'.
Proof.
  intros H Hf HP. cbn [PreS PostS] in *. cbn [body] in H.
  mi H; fuel_split; use_ih; specs2; leafs_s.
  all: try (match goal with D0 : s_shutting ?x = false, D1 : s_stopping ?x = false, HP0 : Base ?x /\ _ |- _ => solve [kpl_stage D0 D1 HP0] end).
  all: sfwd; ssolve.
Qed.
End RecS.

Theorem run_s fuel k s r s' o : run fuel k s = (r, s', o) -> fuel_ok o = true -> PreS k s -> PostS k s s'.
Proof.
  intro H. refine (run_ind (fun _ _ => True) (fun k s _ s' o => fuel_ok o = true -> PreS k s -> PostS k s s') _ _ fuel k s r s' o I H); clear.
  - intros k s _ Hf. discriminate Hf.
  - intros f IH k s r s' o _ H Hf HP.
    assert (IH' : forall k s r s' o, run f k s = (r, s', o) -> fuel_ok o = true -> PreS k s -> PostS k s s') by (intros; eapply IH; eauto).
    destruct k; try (cbn [PreS] in HP; contradiction).
    + exact (s_KFireProc f IH' _ _ _ _ _ H Hf HP).
    + exact (s_KProcLoop f IH' _ _ _ _ _ H Hf HP).
    + exact (s_KFetchResp f IH' _ _ _ _ _ _ H Hf HP).
    + exact (s_KCommitAndStop f IH' _ _ _ _ H Hf HP).
    + exact (s_KShutFinish f IH' _ _ _ _ _ H Hf HP).
    + exact (s_KFireCd f IH' _ _ _ _ _ _ H Hf HP).
    + exact (s_KDeliver f IH' _ _ _ _ _ H Hf HP).
Qed.
