(* The summed cost bound of Proofs/C12DecCost.v instantiated on the 16 committed decoder terms (Model/DecAst.v). *)
From Coq Require Import Lia.
From AV Require Import Base.Util Model.Prim Model.MsgSet Model.DecDSL Model.DecAst Proofs.C12DecCost.

Definition decoder_terms : list prog :=
  [ast_get_response_correlation_id; ast_decode_api_versions_response; ast_decode_produce_response__v0;
   ast_decode_produce_response__v2; ast_decode_fetch_response; ast_decode_offset_response; ast_decode_metadata_response;
   ast_decode_consumermetadata_response; ast_decode_offset_commit_response; ast_decode_offset_fetch_response;
   ast_decode_join_group_protocol_metadata; ast_decode_join_group_response; ast_decode_leave_group_response;
   ast_decode_heartbeat_response; ast_decode_sync_group_response; ast_decode_sync_group_member_assignment].

Definition fits (A B : nat) (p : prog) : bool := ok p && Nat.leb (lin_a p) A && Nat.leb (lin_b p) B.

Lemma fits_bound A B p : fits A B p = true ->
  forall param msgset data, (ticks param msgset data p <= A * length data + B)%nat.
Proof.
  unfold fits. intros H param msgset data. apply andb_prop in H. destruct H as [H Hb]. apply andb_prop in H. destruct H as [Hok Ha].
  apply Nat.leb_le in Ha. apply Nat.leb_le in Hb.
  pose proof (ticks_linear param msgset data p Hok) as T.
  assert (lin_a p * length data <= A * length data)%nat by (apply Nat.mul_le_mono_r; exact Ha). lia.
Qed.

Theorem all_decoders_linear :
  Forall (fun p => forall param msgset data, (ticks param msgset data p <= 23 * length data + 26)%nat) decoder_terms.
Proof.
  assert (H : forallb (fits 23 26) decoder_terms = true) by (vm_compute; reflexivity).
  rewrite forallb_forall in H. apply Forall_forall. intros p Hp. apply fits_bound. apply H. exact Hp.
Qed.

Theorem decoder_coefficients :
  map (fun p => (ok p, lin_a p, lin_b p)) decoder_terms =
  [(true, 0, 2); (true, 2, 5); (true, 10, 9); (true, 10, 10); (true, 12, 12); (true, 23, 14); (true, 19, 26); (true, 0, 4);
   (true, 10, 10); (true, 14, 12); (true, 3, 8); (true, 4, 12); (true, 0, 2); (true, 0, 2); (true, 0, 3); (true, 5, 11)]%nat.
Proof. vm_compute. reflexivity. Qed.

Theorem yields_le_ticks param msgset data p :
  (length (fst (fst (cexec param msgset data (p_body p) (init_state data p)))) <= ticks param msgset data p)%nat.
Proof. apply (cexec_yields param msgset data (p_body p) (init_state data p)). Qed.
