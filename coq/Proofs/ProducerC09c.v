(* C09, completeness: in an honest run every accepted send has fired, or still waits for its first attempt (queued, or its
   batch is looking up partitions / the API version), or its messages were in the first attempt of a batch.  With
   C19_dispatch_iff / C19_no_starvation (the queue is flushed) this is "every accepted, uncancelled message is sent",
   in event-order form. *)
From AV Require Import Base.Util Model.Producer Proofs.ProducerBase Proofs.ProducerInv Proofs.ProducerC19 Proofs.ProducerC09
  Proofs.ProducerC09b.
From AV Require Proofs.ProducerC01Spec Proofs.ProducerC01Batch Proofs.ProducerC01Inv Proofs.ProducerC01Thm.
From Coq Require Import Lia Permutation Sorted.

(* from attempt counter 0 to >= 1 the automaton must see the first produce request *)
Lemma mon_first_produce : forall c o m m', mon_run c m o = Some m' -> m_a m = 0 -> 1 <= m_a m' ->
  exists mg v, In (OSendProduce 1 mg v) o.
Proof.
  induction o as [|x r IH]; simpl; intros m m' H Z P; [inv H; lia|].
  destruct (mon_step c m x) as [m1|] eqn:E; [|discriminate].
  destruct x; simpl in E.
  - destruct (m_fl m); simpl in E; [|discriminate]. destruct (attempt =? m_a m + 1) eqn:E1; simpl in E; [|discriminate].
    apply Z.eqb_eq in E1. rewrite Z in E1. simpl in E1. subst attempt. eauto.
  - destruct (m_fl m && (k =? m_k m)); inv E. destruct (IH _ _ H Z P) as (mg & v & X). eauto.
  - destruct (m_fl m); inv E. destruct (IH _ _ H Z P) as (mg & v & X). eauto.
  - destruct (m_fl m); inv E. destruct (IH _ _ H Z P) as (mg & v & X). eauto.
  - destruct (m_fl m); inv E. destruct (IH _ _ H Z P) as (mg & v & X). eauto.
  - destruct (m_fl m); inv E. destruct (IH _ _ H Z P) as (mg & v & X). eauto.
  - inv E. destruct (IH _ _ H Z P) as (mg & v & X). eauto.
  - destruct (m_fl m); inv E. destruct (IH _ _ H eq_refl P) as (mg & v & X). eauto.
  - destruct (m_fl m); inv E. destruct (IH _ _ H eq_refl P) as (mg & v & X). eauto.
Qed.

Lemma mon_first_after_done : forall c o m m', mon_run c m o = Some m' -> In OBatchDone o -> 1 <= m_a m' ->
  exists mg v, In (OSendProduce 1 mg v) o.
Proof.
  induction o as [|x r IH]; simpl; intros m m' H D P; [destruct D|].
  destruct (mon_step c m x) as [m1|] eqn:E; [|discriminate].
  destruct D as [->|D].
  - simpl in E. destruct (m_fl m); inv E. destruct (mon_first_produce _ _ _ _ H eq_refl P) as (mg & v & X). eauto.
  - destruct (IH _ _ H D P) as (mg & v & X). eauto.
Qed.

(* the batch in flight has made its first attempt: every send of its payloads was in a first-attempt request *)
Definition sent_all (s : state) (outs : list output) : Prop :=
  forall pls cur, sent_phase (ph s) pls cur -> incl (ids (all_sends pls)) (first_wire outs).

Lemma first_wire_all : forall pls mg, Forall (fun x => 1 <= s_cnt x) (all_sends pls) ->
  incl (ids (all_sends pls)) (first_wire [OSendProduce 1 mg (map payload_view pls)]).
Proof.
  intros pls mg F i Hi. unfold first_wire. simpl. rewrite app_nil_r. rewrite view_msgs.
  apply in_map_iff in Hi as (x & <- & Hx). rewrite Forall_forall in F. specialize (F _ Hx).
  apply in_map_iff. exists (s_id x, 0). split; auto. apply in_flat_map. exists x. split; auto.
  unfold msgs_of. apply in_map_iff. exists 0%nat. split; auto. apply in_seq. lia.
Qed.

Lemma nsp_sent : forall c s pls cur, PInv c s -> sent_phase (ph s) pls cur -> 1 <= nsp s.
Proof. intros c s pls cur [_ P] [E|[tid E]]; rewrite E in P; destruct P as (_ & _ & _ & [A _] & _); exact A. Qed.

Lemma nsp_unsent : forall c s, Inv s -> PInv c s -> (forall pls cur, ~ sent_phase (ph s) pls cur) -> m_a (mon_of s) = 0.
Proof.
  intros c s [[_ _ ID _] _] [_ P] N. unfold mon_of, mfl. destruct (ph s) eqn:E; simpl; auto.
  - destruct P; auto. - destruct P; auto.
  - exfalso. eapply N. left; reflexivity.
  - exfalso. eapply N. right; eexists; reflexivity.
Qed.

Lemma classic_sent : forall p : phase, (exists pls cur, sent_phase p pls cur) \/ (forall pls cur, ~ sent_phase p pls cur).
Proof.
  intros [| | |pls cur|pls cur tid].
  - right; intros ? ? [X|[? X]]; discriminate.
  - right; intros ? ? [X|[? X]]; discriminate.
  - right; intros ? ? [X|[? X]]; discriminate.
  - left; exists pls, cur; left; reflexivity.
  - left; exists pls, cur; right; eexists; reflexivity.
Qed.

Lemma step_sent_all : forall c s e s' out outs, Inv s -> PInv c s ->
  Forall (fun x => 1 <= s_cnt x) (batch_sends (ph s')) ->
  step c s e = (s', out) -> sent_all s outs -> sent_all s' (outs ++ out).
Proof.
  intros c s e s' out outs I P CN H J pls' cur' SP'.
  destruct (step_c09 _ _ _ _ _ I P H) as [P' M].
  pose proof (nsp_sent _ _ _ _ P' SP') as N'.
  assert (MA : m_a (mon_of s') = nsp s').
  { unfold mon_of, mfl. destruct SP' as [E|[tid E]]; rewrite E; reflexivity. }
  rewrite first_wire_app.
  (* either the batch was already past its first attempt, with the same payloads, or the first attempt is in this step *)
  assert (FIRST : (exists mg v, In (OSendProduce 1 mg v) out) -> incl (ids (all_sends pls')) (first_wire out)).
  { intros (mg & v & X). destruct (sp_ok_in _ _ _ _ _ (step_sp _ _ _ _ _ H) X) as (pls & cur & pre & Ph & -> & N1 & -> & NP).
    assert (pls = pls' /\ cur = cur') as [-> ->].
    { destruct SP' as [E|[tid E]]; rewrite E in Ph; inv Ph; auto. }
    destruct P' as [_ P']. rewrite Ph in P'. destruct P' as (_ & _ & _ & _ & _ & AL). rewrite (AL (eq_sym N1)).
    unfold viewf. rewrite filter_all_tps. rewrite first_wire_app, first_wire_no_sp; auto. simpl.
    apply (first_wire_all pls' mg). rewrite Ph in CN. exact CN. }
  destruct (classic_sent (ph s)) as [(pls & cur & SP)|NS].
  - destruct (shrink_step _ _ _ _ _ _ _ I P SP H) as [D|(cur2 & SP2 & _)].
    + apply incl_appr. apply FIRST. eapply mon_first_after_done; eauto. lia.
    + assert (pls' = pls).
      { destruct SP' as [E|[t1 E]], SP2 as [E2|[t2 E2]]; rewrite E in E2; inv E2; auto. }
      subst. apply incl_appl. eapply J; eauto.
  - apply incl_appr. apply FIRST. eapply mon_first_produce; eauto; [eapply nsp_unsent; eauto|lia].
Qed.

Lemma accepted_cnt : forall evs n x, In x (ProducerC01Spec.accepted n evs) -> 1 <= s_cnt x.
Proof.
  induction evs as [|e r IH]; simpl; intros n x H; [destruct H|].
  destruct e; eauto. apply in_app_or in H as [H|H]; eauto.
  destruct ((cnt <? 1) || (bytes <? 0)) eqn:G; [destruct H|]. destruct H as [<-|[]]. simpl.
  apply orb_false_iff in G as [G _]. apply Z.ltb_ge in G. exact G.
Qed.

Lemma outs_of_snoc : forall tr e o, outs_of (tr ++ [(e, o)]) = outs_of tr ++ o.
Proof. intros. unfold outs_of. rewrite flat_map_app. simpl. rewrite app_nil_r. reflexivity. Qed.

Section Complete.
Variables (c : cfg) (has_t : bool) (api0 : Z) (cache0 : list (Z * (Z * bool))).
Let s0 := init_state has_t api0 cache0.

Lemma run_sent_all : forall evs s tr, ProducerC01Spec.honest evs -> run c s0 evs = (s, tr) -> sent_all s (outs_of tr).
Proof.
  induction evs as [|e evs IH] using rev_ind; intros s tr HN H.
  - inv H. intros pls cur [X|[tid X]]; discriminate.
  - pose proof (ProducerC01Thm.run_inv _ _ _ _ _ _ _ HN H) as R2.
    rewrite ProducerC01Thm.run_snoc in H. destruct (run c s0 evs) as [s1 tr1] eqn:E1. destruct (step c s1 e) as [s2 o] eqn:E2. inv H.
    apply Forall_app in HN as [HN1 _]. rewrite outs_of_snoc.
    assert (RC : reachable c s1) by (exists has_t, api0, cache0, evs; unfold s0 in E1; rewrite E1; reflexivity).
    eapply step_sent_all; [apply (reachable_inv _ _ RC)|apply (pinv_reachable _ _ RC)| |exact E2|eapply IH; eauto].
    apply Forall_forall. intros x Hx. eapply accepted_cnt. apply (ProducerC01Thm.i_acc _ _ _ _ R2).
    unfold ProducerC01Batch.live. apply in_or_app; right. exact Hx.
Qed.

Theorem complete_run : forall evs s tr, ProducerC01Spec.honest evs -> run c s0 evs = (s, tr) ->
  forall x, In x (ProducerC01Spec.accepted 0 evs) ->
  In (s_id x) (ProducerC01Spec.fired tr) \/ In (s_id x) (pend s) \/ In (s_id x) (first_wire (outs_of tr)).
Proof.
  intros evs s tr HN H x X. pose proof (run_sent_all _ _ _ HN H) as J.
  pose proof (ProducerC01Thm.run_inv _ _ _ _ _ _ _ HN H) as R.
  destruct (ProducerC01Thm.i_all _ _ _ _ R x X) as [O|O]; auto. right.
  apply (ProducerC01Thm.i_live _ _ _ _ R) in O as (y & Y & <-).
  unfold ProducerC01Batch.live in Y. apply in_app_or in Y as [Y|Y].
  - left. unfold pend. apply in_or_app; right. apply in_map; auto.
  - destruct (ph s) eqn:P; simpl in Y.
    + destruct Y.
    + left. unfold pend. rewrite P. apply in_or_app; left. apply in_map; auto.
    + left. unfold pend. rewrite P. apply in_or_app; left. apply in_map; auto.
    + right. eapply (J pls cur); [left; exact P|apply in_map; auto].
    + right. eapply (J pls cur); [right; eexists; exact P|apply in_map; auto].
Qed.
End Complete.

(* "unresolved" in "no dispatch while an earlier batch is unresolved": once the batch has ended (OBatchDone, phase Idle)
   every send still outstanding is in the queue, i.e. no send of an ended batch is still waiting *)
Theorem idle_outstanding_queued : forall c has_t api0 cache0 evs s tr, ProducerC01Spec.honest evs ->
  run c (init_state has_t api0 cache0) evs = (s, tr) -> ph s = Idle -> incl (outstanding s) (ids (queue s)).
Proof.
  intros c h a ca evs s tr HN H P sid O. pose proof (ProducerC01Thm.run_inv _ _ _ _ _ _ _ HN H) as R.
  apply (ProducerC01Thm.i_live _ _ _ _ R) in O as (y & Y & <-).
  unfold ProducerC01Batch.live in Y. rewrite P in Y. simpl in Y. rewrite app_nil_r in Y. apply in_map; auto.
Qed.
