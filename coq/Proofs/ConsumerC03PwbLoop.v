(* PWB, third part: the processor's Deferred firing and the loop of _process_messages (see Proofs/ConsumerC03Pwb.v). *)
From Coq Require Import Lia.
From AV Require Import Base.Util Model.Consumer Model.ConsumerLog Model.ConsumerLogFifo Model.ConsumerLogC03 Proofs.ConsumerC02Wp
  Proofs.ConsumerC03Pwb Proofs.ConsumerC03PwbRec.

Lemma PInv_dead a b w s : PInv (a, b) w s -> a = true -> dead s = true.
Proof. intros K ->. unfold PInv in K. cbn [fst snd implb] in K. repeat (apply andb_prop in K; destruct K as [K ?]). assumption. Qed.
Lemma PInv_bad d w s : PInv d (w, true) s -> dead s = true.
Proof. intros K. unfold PInv in K. cbn [fst snd implb] in K. repeat (apply andb_prop in K; destruct K as [K ?]). assumption. Qed.
Lemma PInv_13 d w s : PInv d w s -> dead s = false -> is_some (s_proc s) = true -> is_some (s_mblock s) = true.
Proof.
  intros K D P. unfold PInv, inv13b in K. repeat (apply andb_prop in K; destruct K as [K ?]).
  rewrite D, P in *. cbn in *. assumption.
Qed.
Lemma PInvF_fk d b s (fk : option Z) : PInvF d b s -> PInvF d (match fk with None => b | Some _ => false end) s.
Proof.
  destruct fk; [|auto]. unfold PInvF. intro K. repeat (apply andb_prop in K; destruct K as [K ?]).
  repeat (apply andb_true_intro; split); auto.
Qed.
Lemma PInv_acn d w s : PInv d w s -> 0 <= c_acn (s_cf s).
Proof. intro K. unfold PInv in K. repeat (apply andb_prop in K; destruct K as [K ?]). apply Z.leb_le. assumption. Qed.
Lemma blk_nonempty acn (m0 : Z) l : 0 <= acn ->
  exists tl, take (if acn =? 0 then length (m0 :: l) else Z.to_nat acn) (m0 :: l) = m0 :: tl.
Proof.
  intro H. destruct (acn =? 0) eqn:E.
  - cbn. eauto.
  - apply Z.eqb_neq in E. destruct (Z.to_nat acn) eqn:N; [lia|]. cbn. eauto.
Qed.
Lemma loop_ok_alive s : loop_ok s -> dead s = false -> s_proc s = None /\ is_some (s_mblock s) = true.
Proof.
  unfold loop_ok. intros L D. rewrite D in L. cbn in L. apply andb_prop in L. destruct L as [L1 L2].
  split; auto. destruct (s_proc s); [discriminate L1 | reflexivity].
Qed.
Lemma loop_ok_fin s : loop_ok s -> dead s || negb (is_some (s_proc s)) = true.
Proof. unfold loop_ok. destruct (dead s); cbn; auto. intro L. apply andb_prop in L. tauto. Qed.
Lemma PQx_fst d w b {A} (r : res A) g s : PQx d (w, b) r g s -> forall b0, PQx d (w, b0) r g s.
Proof. intros H b0. exact H. Qed.

Section Rec2.
Variable rec : kont -> M unit.
Hypothesis Hrec : forall k d w g s, PreD k d w g s -> ww (rec k) (PostD k d w s) g s.

Ltac lsolve := unfold loop_ok in *; psolve.
Ltac wcond := first [ assumption | solve [intro; discriminate] | solve [cbn; intros; congruence] | solve [psolve]
  | solve [ let H := fresh "Hw" in intro H;
            repeat match goal with W : is_some _ = true -> _ |- _ => specialize (W H) end; psolve ] ].
Ltac pinv_arg := try (match goal with K : PInv ?d0 _ _ |- PInv ?e _ _ => is_evar e; unify e d0 end); solve [psolve].
Ltac cB := idtac; first [ c8 | lazymatch goal with
  | |- wp _ (finish_block _) _ _ _ =>
    let w0 := cur_w in eapply p_eq with (w := w0); [ solve [psolve] |
      eapply wp_call; [ eapply (p_finish_block rec Hrec); [ pinv_arg | wcond | solve [lsolve] ] | after_callx ] ]
  end ].

Lemma p_body_KFireProc fk d w g s : PreD (KFireProc fk) d w g s ->
  ww (body rec (KFireProc fk)) (PostD (KFireProc fk) d w s) g s.
Proof.
  intro Pre. cbn [body PreD] in *. unfold PostD, dmode. destruct w as [w b]. cbn [fst snd] in *.
  apply wp_bind, wp_get. cbn beta iota.
  destruct (s_proc s) as [[[last rest] cont]|] eqn:SP.
  2:{ destruct Pre as (-> & K & W). apply wp_ret. exists b. split; [reflexivity|]. left. psolve. }
  destruct Pre as (-> & -> & K).
  (* alive before => a block is in progress (invariant 13); the mode remembers whether the state was dead *)
  assert (K0 : PInv (dead s || fst d, false) (None, b) s) by psolve.
  apply wp_bind. eapply wp_call; [ apply (p_proc_chain last fk _ b s (PInvF_fk _ _ _ fk (PInvF_of _ _ _ K0))) |].
  intros r g' s' ((-> & K') & N & MB & PL & ST). cbn [fst] in K'. set (bf := b || is_some fk) in *. clearbody bf.
  destruct r as [r|x]; cbn beta iota.
  2:{ exists bf. split; [reflexivity|]. left. psolve. }
  assert (K2 : PInv (fst d, fst d) (None, bf) s') by psolve.
  assert (L2 : loop_ok s').
  { unfold loop_ok. destruct (dead s') eqn:DS'; [reflexivity|]. rewrite N, MB. cbn.
    destruct (dead s) eqn:DS; [ rewrite (PInv_dead _ _ _ _ K' eq_refl) in DS'; discriminate DS' |].
    apply (PInv_13 _ _ _ K DS). rewrite SP. reflexivity. }
  apply wp_bind.
  assert (Hloop : forall Q : res unit -> gpwb -> state -> Prop,
            (forall b2 g2 s2, g2 = pwb_abs (None, b2) s2 -> PInv (fst d, fst d) (None, b2) s2 -> Q (Ok tt) g2 s2) ->
            ww (match r with None => swallow (rec (KProcLoop rest)) | Some _ => ret tt end) Q (pwb_abs (None, bf) s') s').
  { intros Q HQ. destruct r.
    - apply wp_ret. eapply HQ; eauto.
    - apply wp_swallow. eapply wp_conseq; [ apply (Hrec_loop rec Hrec rest (fst d, fst d) (None, bf) s' K2); [intro; discriminate | exact L2] |].
      intros r0 g2 s2 (b2 & -> & H2). eapply HQ; eauto. }
  apply Hloop. intros b2 g2 s2 -> K3. cbn beta iota.
  destruct cont.
  - apply wp_swallow. eapply wp_conseq; [ apply (Hrec_plain rec Hrec KCommitAndStop (fst d, fst d) (None, b2) s2 K3); exact I |].
    intros r0 g3 s3 (b3 & -> & H3). exists b3. split; [reflexivity | left; exact H3].
  - apply wp_ret. exists b2. split; [reflexivity | left; exact K3].
Qed.

(* after the processor call returned with result code r (the monitor has been told): record the pending Deferred or
   run its callbacks, then go on with the rest of the block *)
Definition tail_of (last : Z) (rest : list Z) (r : Z) : M unit :=
  if r =? 2
  then upd (set_proc (Some (last, rest, false)));;;
       s0 <- get;;
       (if s_stopping s0 || negb (is_some (s_startd s0))
        then emit OCancelProc;;; _ <- proc_chain last (Some FK_CANCELLED);; finish_block rec
        else ret tt)
  else r0 <- proc_chain last (if r =? 0 then None else Some FK_PROC);;
       s0 <- get;;
       (if s_stopping s0 || negb (is_some (s_startd s0))
        then finish_block rec
        else match r0 with
             | Some k => raise k
             | None => rec (KProcLoop rest)
             end).
Lemma p_tail last rest r b st :
  PInv (false, false) (None, b) st -> s_proc st = None -> dead st || is_some (s_mblock st) = true ->
  ww (tail_of last rest r) (PQx (false, false) (None, b))
     (mkPB (pw_finish (mkPW PIdle (s_plan st) (s_lp st)) last r) (b || fails r)) st.
Proof.
  intros K SP MB. unfold tail_of, pw_finish, fails. cbn [w_plan w_lp]. destruct (r =? 2) eqn:R2.
  - cbn [negb andb]. rewrite orb_false_r.
    apply wp_bind, wp_upd. cbn beta iota. apply wp_bind, wp_get. cbn beta iota. psimpl.
    destruct (s_stopping st || negb (is_some (s_startd st))) eqn:DD.
    + apply wp_bind, wp_emit. eexists. split; [reflexivity|]. cbn beta iota.
      assert (KF : PInvF (false, false) false (set_proc (Some (last, rest, false)) st)) by psolve.
      apply wp_bind.
      match goal with |- wp _ _ _ ?g ?s0 => replace g with (fired s0 last (Some FK_CANCELLED) b)
        by (unfold fired; cbn [is_some w_plan w_lp]; psimpl; rewrite orb_true_r; reflexivity) end.
      eapply wp_call; [ apply (p_proc_chain last (Some FK_CANCELLED) _ b _ KF) |].
      intros r1 g1 s1 ((-> & K1) & N1 & MB1 & _). cbn [fst] in K1. destruct r1; cbn beta iota; [| eexists; split; [reflexivity | exact K1]].
      eapply wp_conseq; [ apply (p_finish_block rec Hrec (false, false) (None, b || is_some (Some FK_CANCELLED)) s1 K1); [intro; discriminate | rewrite N1; apply orb_true_r] |].
      intros ? ? ? H; exact H.
    + apply wp_ret. exists b. split; [reflexivity | psolve].
  - cbn [negb andb].
    assert (KF : PInvF (dead st, false) b st) by psolve.
    set (fk := if r =? 0 then None else Some FK_PROC).
    assert (G : mkPB (if r =? 0 then mkPW PIdle (s_plan st) (Some last) else mkPW PIdle (s_plan st) (s_lp st)) (b || negb (r =? 0))
                = fired st last fk b) by (unfold fired, fk; destruct (r =? 0); reflexivity).
    rewrite G. apply wp_bind. eapply wp_call; [ apply (p_proc_chain last fk _ b _ (PInvF_fk _ _ _ fk KF)) |].
    intros r1 g1 s1 ((-> & K1) & N1 & MB1 & _). cbn [fst] in K1. set (bf := b || is_some fk) in *. clearbody bf.
    destruct r1 as [r1|]; cbn beta iota; [| exists bf; split; [reflexivity | psolve]].
    apply wp_bind, wp_get. cbn beta iota.
    assert (K1' : PInv (false, false) (None, bf) s1) by psolve.
    destruct (s_stopping s1 || negb (is_some (s_startd s1))) eqn:DD.
    + eapply wp_conseq; [ apply (p_finish_block rec Hrec (false, false) (None, bf) s1 K1'); [intro; discriminate | rewrite N1; apply orb_true_r] |].
      intros ? ? ? H; exact H.
    + destruct r1 as [k|]; [ apply wp_raise; exists bf; split; auto |].
      eapply wp_conseq; [ apply (Hrec_loop rec Hrec rest (false, false) (None, bf) s1 K1'); [intro; discriminate |] |].
      * unfold loop_ok. rewrite N1, MB1. cbn. destruct (dead s1) eqn:D1; [reflexivity|]. cbn.
        destruct (dead st) eqn:D0; [ rewrite (PInv_dead _ _ _ _ K1 eq_refl) in D1; discriminate D1 | exact MB ].
      * intros ? ? ? H; exact H.
Qed.

Ltac fin_k := try solve [ split; [ solve [psolve] | left; solve [psolve] ] ]; try solve [ cbn [fst snd]; eexists; split; [ solve [psolve] | left; solve [psolve] ] ].
Lemma p_body_KProcLoop msgs d w s : PInv d w s -> (is_some (fst w) = true -> snd d = true) -> loop_ok s ->
  ww (body rec (KProcLoop msgs)) (PostD (KProcLoop msgs) d w s) (pwb_abs w s) s.
Proof.
  intros K W L. cbn [body]. unfold PostD, dmode.
  pose proof (loop_ok_fin _ L) as LF.
  apply wp_bind, wp_get; cbn beta iota.
  destruct msgs as [|m0 ms]; [ p_walk cB; fin_k |].
  destruct (s_shutting s) eqn:SH; [ p_walk cB; fin_k |].
  destruct (s_stopping s) eqn:ST; [ p_walk cB; fin_k |].
  destruct (s_startd s) as [[]|] eqn:SD; [ p_walk cB; fin_k | | p_walk cB; fin_k ].
  (* the consumer is alive: the block goes to the processor *)
  assert (DS : dead s = false) by (unfold dead, startd_unfired; rewrite ST, SD; reflexivity).
  destruct (loop_ok_alive _ L DS) as [SP MB].
  assert (d = (false, false)) as ->.
  { destruct d as [[] b]; [ rewrite (PInv_dead _ _ _ _ K eq_refl) in DS; discriminate DS |].
    destruct b; [| reflexivity]. apply dcons in K. discriminate K. }
  destruct w as [w b]. cbn [fst snd] in *.
  assert (w = None) as -> by (destruct w; [ specialize (W eq_refl); discriminate W | reflexivity ]).
  assert (b = false) as -> by (destruct b; [ rewrite (PInv_bad _ _ _ K) in DS; discriminate DS | reflexivity ]).
  destruct (blk_nonempty _ m0 ms (PInv_acn _ _ _ K)) as [tl Hblk].
  set (n := if c_acn (s_cf s) =? 0 then length (m0 :: ms) else Z.to_nat (c_acn (s_cf s))) in *.
  rewrite Hblk. set (rest := drop n (m0 :: ms)). set (last := List.last (m0 :: tl) m0).
  assert (MB' : dead s || is_some (s_mblock s) = true) by (rewrite MB; apply orb_true_r).
  assert (FIN : forall r b1 g st, g = mkPB (pw_finish (mkPW PIdle (s_plan st) (s_lp st)) last r) (b1 || fails r) ->
                 PInv (false, false) (None, b1) st -> s_proc st = None -> dead st || is_some (s_mblock st) = true ->
                 ww (tail_of last rest r)
                    (fun (_ : res unit) (g' : gpwb) (s' : state) =>
                       exists b', g' = pwb_abs (None, b') s' /\
                       (PInv (false, false) (None, b') s' \/
                        KProcLoop (m0 :: ms) = KStop /\ Some false = None /\ PInv (false, false) (None, b') s')) g st).
  { intros r b1 g st -> K1 SP1 MB1. eapply wp_conseq; [ apply (p_tail last rest r b1 st K1 SP1 MB1) |].
    intros ? ? ? (b' & -> & H). exists b'. split; [reflexivity | left; exact H]. }
  apply wp_bind.
  destruct (s_plan s) as [|[i r] pl] eqn:PL.
  - (* no plan left: the processor returns a pending Deferred *)
    apply wp_emit. eexists. split.
    { unfold pwb_abs, pw_abs. cbn [fst snd pwb_out pw_out bad_after b_pw b_bad w_st w_plan w_lp]. rewrite SP, PL. reflexivity. }
    cbn beta iota. unfold pop_plan. apply wp_bind, wp_bind, wp_get. cbn beta iota. rewrite PL. apply wp_ret. cbn beta iota.
    cbn [fst snd]. change (0 =? 1) with false. change (0 =? 2) with false. change (0 =? 3) with false. cbn beta iota.
    apply wp_bind, wp_ret. cbn beta iota.
    apply (FIN 2 false _ s); auto. unfold pw_finish. cbn. rewrite PL. reflexivity.
  - assert (K1 : PInv (false, false) (None, false) (set_plan pl s)) by psolve.
    assert (POP : forall (Q : res (Z * Z) -> gpwb -> state -> Prop) g,
              (Q (Ok (i, r)) g (set_plan pl s)) -> ww pop_plan Q g s).
    { intros Q g HQ. unfold pop_plan. apply wp_bind, wp_get. cbn beta iota. rewrite PL. apply wp_bind, wp_upd. cbn beta iota.
      apply wp_ret. exact HQ. }
    destruct (i =? 1) eqn:I1; [| destruct (i =? 2) eqn:I2; [| destruct (i =? 3) eqn:I3]].
    + (* the processor calls consumer.stop() before returning *)
      apply wp_emit. eexists. split.
      { unfold pwb_abs, pw_abs. cbn [fst snd pwb_out pw_out bad_after b_pw b_bad w_st w_plan w_lp]. rewrite SP, PL. cbn [fst snd]. rewrite I1. cbn [orb]. reflexivity. }
      cbn beta iota. apply wp_bind, POP. cbn beta iota. cbn [fst snd]. rewrite I1.
      apply wp_bind. unfold api_stop. apply wp_bind, wp_try.
      change {| b_pw := {| w_st := PApi (List.last (m0 :: tl) m0) r; w_plan := pl; w_lp := s_lp s |}; b_bad := false |}
        with (pwb_abs (Some (last, r), false) (set_plan pl s)).
      assert (K1w : PInv (false, false) (Some (last, r), false) (set_plan pl s)) by (clear - K SP MB; psolve).
      eapply wp_conseq; [ apply (Hrec_stop rec Hrec (false, false) (Some (last, r), false) (set_plan pl s) K1w);
                          psimpl; rewrite SD; reflexivity |].
      intros r1 g1 s1 (b1 & -> & K2). cbn [fst] in K2 |- *. cbn beta iota. apply wp_bind, wp_get. cbn beta iota.
      assert (FIN1 : ww (tail_of last rest r)
                   (fun (_ : res unit) (g' : gpwb) (s' : state) =>
                    exists b', g' = pwb_abs (None, b') s' /\
                    (PInv (false, false) (None, b') s' \/
                     KProcLoop (m0 :: ms) = KStop /\ Some false = None /\ PInv (false, false) (None, b') s'))
                   (mkPB (pw_finish (mkPW PIdle (s_plan s1) (s_lp s1)) last r) (b1 || fails r)) s1).
      { apply (FIN r b1 _ s1 eq_refl); [ psolve | | ].
        - pose proof (PInv_dead _ _ _ _ K2 eq_refl). clear - K2. psolve.
        - rewrite (PInv_dead _ _ _ _ K2 eq_refl). reflexivity. }
      destruct r1; apply wp_emit; eexists; (split; [reflexivity|]); cbn beta iota; exact FIN1.
    + (* the processor calls consumer.commit() before returning *)
      apply wp_emit. eexists. split.
      { unfold pwb_abs, pw_abs. cbn [fst snd pwb_out pw_out bad_after b_pw b_bad w_st w_plan w_lp]. rewrite SP, PL. cbn [fst snd]. rewrite I1, I2. cbn [orb]. reflexivity. }
      cbn beta iota. apply wp_bind, POP. cbn beta iota. cbn [fst snd]. rewrite I1, I2.
      apply wp_bind. unfold api_commit. apply wp_bind, wp_get. cbn beta iota. apply wp_bind, wp_upd. cbn beta iota.
      apply wp_bind, wp_try.
      change {| b_pw := {| w_st := PApi (List.last (m0 :: tl) m0) r; w_plan := pl; w_lp := s_lp s |}; b_bad := false |}
        with (pwb_abs (Some (last, r), false) (set_ncommit (s_ncommit (set_plan pl s) + 1) (set_plan pl s))).
      assert (K2 : PInv (false, false) (Some (last, r), false) (set_ncommit (s_ncommit (set_plan pl s) + 1) (set_plan pl s))) by (clear - K SP MB; psolve).
      eapply wp_conseq; [ apply (p_commit _ _ _ _ K2) |].
      intros r1 g1 s1 ((-> & K3) & (F1 & F2 & F3 & F4) & F5). cbn beta iota. psimpl.
      assert (FIN1 : ww (tail_of last rest r)
                   (fun (_ : res unit) (g' : gpwb) (s' : state) =>
                    exists b', g' = pwb_abs (None, b') s' /\
                    (PInv (false, false) (None, b') s' \/
                     KProcLoop (m0 :: ms) = KStop /\ Some false = None /\ PInv (false, false) (None, b') s'))
                   (mkPB (pw_finish (mkPW PIdle (s_plan s1) (s_lp s1)) last r) (false || fails r)) s1).
      { apply (FIN r false _ s1 eq_refl); [ clear - K3; psolve | congruence | ].
        rewrite F2. apply orb_true_iff. right. exact MB. }
      destruct r1 as [[cr|]|k]; cbn beta iota.
      * apply wp_bind, wp_emit. eexists. split; [reflexivity|]. cbn beta iota.
        apply wp_emit. eexists. split; [reflexivity|]. cbn beta iota. exact FIN1.
      * apply wp_emit. eexists. split; [reflexivity|]. cbn beta iota. exact FIN1.
      * apply wp_emit. eexists. split; [reflexivity|]. cbn beta iota. exact FIN1.
    + (* the processor calls consumer.shutdown() before returning *)
      apply wp_emit. eexists. split.
      { unfold pwb_abs, pw_abs. cbn [fst snd pwb_out pw_out bad_after b_pw b_bad w_st w_plan w_lp]. rewrite SP, PL. cbn [fst snd]. rewrite I1, I2, I3. cbn [orb]. reflexivity. }
      cbn beta iota. apply wp_bind, POP. cbn beta iota. cbn [fst snd]. rewrite I1, I2, I3.
      apply wp_bind. unfold api_shutdown. apply wp_bind, wp_get. cbn beta iota. psimpl.
      change {| b_pw := {| w_st := PApi (List.last (m0 :: tl) m0) r; w_plan := pl; w_lp := s_lp s |}; b_bad := false |}
        with (pwb_abs (Some (last, r), false) (set_plan pl s)).
      assert (K1w : PInv (false, false) (Some (last, r), false) (set_plan pl s)) by (clear - K SP MB; psolve).
      (* whatever shutdown() did, its return closes the window in a state from which the tail goes on *)
      assert (CLOSE : forall b4 s4, PInv (false, false) (Some (last, r), b4) s4 ->
                ww (tail_of last rest r)
                   (fun (_ : res unit) (g' : gpwb) (s' : state) =>
                    exists b', g' = pwb_abs (None, b') s' /\
                    (PInv (false, false) (None, b') s' \/
                     KProcLoop (m0 :: ms) = KStop /\ Some false = None /\ PInv (false, false) (None, b') s'))
                   (mkPB (pw_finish (mkPW PIdle (s_plan s4) (s_lp s4)) last r) (b4 || fails r)) s4).
      { intros b4 s4 K4. apply (FIN r b4 _ s4 eq_refl); clear - K4; psolve. }
      destruct (negb (is_some (s_startd s)) || s_shutd s) eqn:SH0.
      * apply wp_bind, wp_emit. eexists. split; [reflexivity|]. cbn beta iota.
        apply wp_emit. eexists. split; [reflexivity|]. cbn beta iota. apply CLOSE. exact K1w.
      * apply wp_bind, wp_upd. cbn beta iota. rewrite SP. apply wp_bind, wp_try.
        match goal with |- wp _ _ _ _ ?st => set (s2 := st) end.
        assert (K2 : PInv (false, false) (Some (last, r), false) s2)
          by (subst s2; clear - K SP MB; psimpl; destruct (s_maxatt s =? 0); psolve).
        assert (G2 : pwb_abs (Some (last, r), false) (set_plan pl s) = pwb_abs (Some (last, r), false) s2)
          by (subst s2; psimpl; destruct (s_maxatt s =? 0); reflexivity).
        rewrite G2. clearbody s2.
        eapply wp_conseq; [ apply (Hrec_plain rec Hrec KCommitAndStop (false, false) (Some (last, r), false) s2 K2); exact I |].
        intros r1 g3 s3 (b3 & -> & K3). cbn [fst] in K3 |- *. cbn beta iota. apply wp_bind, wp_get. cbn beta iota. apply wp_bind, wp_upd. cbn beta iota.
        set (s4 := set_pend (s_pend s) (set_inapi (s_inapi s) s3)).
        assert (NPs : forallb pw_neutral (s_pend s) = true)
          by (clear - K; unfold PInv in K; repeat (apply andb_prop in K; destruct K as [K ?]); assumption).
        assert (K4 : PInv (false, false) (Some (last, r), b3) s4) by (subst s4; clear - NPs K3; psolve).
        assert (G4 : pwb_abs (Some (last, r), b3) s3 = pwb_abs (Some (last, r), b3) s4) by reflexivity.
        rewrite G4.
        assert (NP3 : forallb pw_neutral (s_pend s3) = true)
          by (clear - K3; unfold PInv in K3; repeat (apply andb_prop in K3; destruct K3 as [K3 ?]); assumption).
        clearbody s4. destruct r1.
        -- apply wp_bind. apply wp_emits. exists (pwb_abs (Some (last, r), b3) s4). split; [apply neutral_pw; exact NP3|]. cbn beta iota.
           apply wp_emit. eexists. split; [reflexivity|]. cbn beta iota. apply CLOSE. exact K4.
        -- apply wp_emit. eexists. split; [reflexivity|]. cbn beta iota. apply CLOSE. exact K4.
    + (* it returns / raises / returns a Deferred without calling back *)
      apply wp_emit. eexists. split.
      { unfold pwb_abs, pw_abs. cbn [fst snd pwb_out pw_out bad_after b_pw b_bad w_st w_plan w_lp]. rewrite SP, PL. cbn [fst snd]. rewrite I1, I2, I3. cbn [orb]. reflexivity. }
      cbn beta iota. apply wp_bind, POP. cbn beta iota. cbn [fst snd]. rewrite I1, I2, I3.
      apply wp_bind, wp_ret. cbn beta iota.
      apply (FIN r false _ (set_plan pl s) eq_refl); [ exact K1 | psimpl; exact SP | psimpl; exact MB' ].
Qed.

Lemma p_body k d w g s : PreD k d w g s -> ww (body rec k) (PostD k d w s) g s.
Proof.
  intro Pre. destruct k.
  - destruct Pre as (-> & K). apply p_body_KStop; auto.
  - destruct Pre as (-> & K). apply p_body_KStopCds; auto.
  - apply p_body_KFireProc; auto.
  - destruct Pre as (-> & K & W & L). apply p_body_KProcLoop; auto.
  - destruct Pre as (-> & K & W). apply p_body_KFetchResp; auto.
  - destruct Pre as (-> & K). apply p_body_KCommitAndStop; auto.
  - destruct Pre as (-> & K). apply p_body_KShutFinish; auto.
  - destruct Pre as (-> & K). apply p_body_KFireCd; auto.
  - destruct Pre as (-> & K). apply p_body_KDeliver; auto.
Qed.
End Rec2.

Lemma p_run fuel : forall k d w g s, PreD k d w g s -> ww (run fuel k) (PostD k d w s) g s.
Proof.
  induction fuel as [|f IH]; intros k d w g s Pre.
  - intros r s' o E F. cbn in E. unfold bind, emit, raise in E. inversion E; subst. discriminate F.
  - cbn [run]. apply p_body; auto.
Qed.
