(* C09, continued: while a batch is unresolved the set of payloads that may still be sent only shrinks, and every
   produce request stays inside it - so a payload that left the set (acknowledged, C09_retry_subset) is never re-sent. *)
From AV Require Import Base.Util Model.Producer Proofs.ProducerBase Proofs.ProducerInv Proofs.ProducerC19 Proofs.ProducerC09.
From Coq Require Import Lia Permutation Sorted.

(* the batch in flight has made its first attempt: payloads pls, of which cur may still be (re)sent *)
Definition sent_phase (p : phase) (pls : list payload) (cur : list tp) : Prop :=
  p = Sending pls cur \/ exists tid, p = RetryWait pls cur tid.

Definition sp_within (cur : list tp) (out : list output) : Prop :=
  forall a m v, In (OSendProduce a m v) out -> incl (map fst v) cur.

Lemma viewf_tps : forall pls cur, incl (map fst (viewf pls cur)) cur.
Proof.
  intros pls cur x Hx. unfold viewf in Hx. rewrite view_fst in Hx. apply in_map_iff in Hx as (p & <- & Hp).
  apply filter_In in Hp as [_ Hp]. apply tpmem_In; auto.
Qed.

Theorem shrink_step : forall c s e s' out pls cur, Inv s -> PInv c s -> sent_phase (ph s) pls cur ->
  step c s e = (s', out) ->
  In OBatchDone out \/
  (exists cur', sent_phase (ph s') pls cur' /\ incl cur' cur /\ sp_within cur out).
Proof.
  intros c s e s' out pls cur I P SP H. pose proof I as [W L]. pose proof W as [IB PW ID ST].
  assert (NI : ph s <> Idle) by (destruct SP as [E|[tid E]]; rewrite E; discriminate).
  assert (SAME : forall o, ph s' = ph s -> out = o -> no_sp o ->
            In OBatchDone out \/ (exists cur', sent_phase (ph s') pls cur' /\ incl cur' cur /\ sp_within cur out)).
  { intros o E -> N. right. exists cur. rewrite E. split; auto. split; [apply incl_refl|]. intros a m v X. exfalso; eapply N; eauto. }
  assert (NS : (forall cv, e <> EStop cv) -> exists s1 o1 ep o2, core c s e = (s1, o1, ep) /\ apply_epi c s1 ep = (s', o2) /\ out = o1 ++ o2)
    by (intros; eapply step_nonstop; eauto).
  destruct e.
  - (* ESend *)
    destruct (NS ltac:(intros ? X; discriminate X)) as (s1 & o1 & ep & o2 & C & A & E). cbn [core] in C.
    destruct ((cnt <? 1) || (bytes <? 0)); [|destruct (stopping s)]; inv C; simpl in A.
    + inv A. eapply SAME; [reflexivity|reflexivity|]. intros a m v [X|[]]; discriminate.
    + inv A. eapply SAME; [reflexivity|reflexivity|]. intros a m v [X|[]]; discriminate.
    + match type of A with check_send_batch _ ?st = _ => destruct (not_idle_no_dispatch c st NI) as [_ X] end.
      rewrite X in A. inv A. eapply SAME; [reflexivity|reflexivity|apply no_sp_nil].
  - destruct (NS ltac:(intros ? X; discriminate X)) as (s1 & o1 & ep & o2 & C & A & E). cbn [core] in C.
    inv C. simpl in A. inv A. eapply SAME; [reflexivity|reflexivity|]. intros a m v [X|[]]; discriminate.
  - destruct (NS ltac:(intros ? X; discriminate X)) as (s1 & o1 & ep & o2 & C & A & E). cbn [core] in C.
    destruct (cancel_send s sid) as [s2 o3] eqn:Ec. inv C. simpl in A. inv A. rewrite app_nil_r in *.
    apply cancel_send_spec in Ec as (OO & Ph & _). eapply SAME; [exact Ph|reflexivity|apply no_sp_outcomes; auto].
  - destruct (NS ltac:(intros ? X; discriminate X)) as (s1 & o1 & ep & o2 & C & A & E). cbn [core] in C.
    inv C. destruct (looper s1); simpl in A.
    + destruct (not_idle_no_dispatch c s1 NI) as [X _]. rewrite X in A. inv A. eapply SAME; [reflexivity|reflexivity|apply no_sp_nil].
    + inv A. eapply SAME; [reflexivity|reflexivity|apply no_sp_nil].
  - destruct (NS ltac:(intros ? X; discriminate X)) as (s1 & o1 & ep & o2 & C & A & E). cbn [core] in C.
    inv C. simpl in A. inv A. eapply SAME; [reflexivity|reflexivity|apply no_sp_nil].
  - destruct (NS ltac:(intros ? X; discriminate X)) as (s1 & o1 & ep & o2 & C & A & E). cbn [core] in C.
    inv C. simpl in A. inv A. eapply SAME; [reflexivity|reflexivity|apply no_sp_nil].
  - (* ELoadDone: not waiting on a load *)
    destruct (NS ltac:(intros ? X; discriminate X)) as (s1 & o1 & ep & o2 & C & A & E). cbn [core] in C.
    destruct SP as [Ph|[tid Ph]]; rewrite Ph in C; inv C; simpl in A; inv A;
      (eapply SAME; [reflexivity|reflexivity|apply no_sp_nil]).
  - (* ETimer *)
    destruct SP as [Ph|[tid0 Ph]].
    + destruct (NS ltac:(intros ? X; discriminate X)) as (s1 & o1 & ep & o2 & C & A & E). cbn [core] in C.
      rewrite Ph in C. inv C. simpl in A. inv A. eapply SAME; [reflexivity|reflexivity|apply no_sp_nil].
    + destruct (Z.eq_dec tid0 tid) as [->|Ne].
      * destruct (broken s) eqn:BK.
        { left. unfold step in H. cbn [core] in H. rewrite Ph, Z.eqb_refl, BK in H. simpl in H.
          unfold finish, finish0 in H. destruct (check_send_batch c _) as [s2 o2]. inv H. left; reflexivity. }
        destruct (retry_resends _ _ _ _ _ _ _ Ph BK H) as [-> Ph']. right. exists cur. split; [left; exact Ph'|].
        split; [apply incl_refl|]. intros a m v [X|[]]. inv X. apply viewf_tps.
      * destruct (NS ltac:(intros ? X; discriminate X)) as (s1 & o1 & ep & o2 & C & A & E). cbn [core] in C.
        rewrite Ph in C. apply Z.eqb_neq in Ne. rewrite Ne in C. inv C. simpl in A. inv A.
        eapply SAME; [reflexivity|reflexivity|apply no_sp_nil].
  - (* EVersion *)
    destruct (NS ltac:(intros ? X; discriminate X)) as (s1 & o1 & ep & o2 & C & A & E). cbn [core] in C.
    destruct SP as [Ph|[tid Ph]]; rewrite Ph in C; inv C; simpl in A; inv A;
      (eapply SAME; [reflexivity|reflexivity|apply no_sp_nil]).
  - (* EResult *)
    destruct SP as [Ph|[tid Ph]].
    + destruct (result_ok c cur v) eqn:OK.
      * unfold step in H. cbn [core] in H. rewrite Ph, OK in H.
        destruct (handle_result c s pls cur v) as [[s1 o1] done] eqn:Eh. pose proof (handle_result_sp _ _ _ _ _ _ _ _ Eh) as N.
        unfold fin_if in H. destruct done; simpl in H.
        -- left. unfold finish, finish0 in H. destruct (check_send_batch c _) as [s2 o2]. inv H.
           apply in_or_app; right; left; reflexivity.
        -- inv H. rewrite app_nil_r. apply handle_result_retry in Eh as (cur' & tid & Ph' & In' & _); [|eapply result_ok_in; eauto].
           right. exists cur'. split; [right; exists tid; exact Ph'|]. split; auto.
           intros a m w X. exfalso; eapply N; eauto.
      * destruct (NS ltac:(intros ? X; discriminate X)) as (s1 & o1 & ep & o2 & C & A & E). cbn [core] in C.
        rewrite Ph, OK in C. inv C. simpl in A. inv A. eapply SAME; [reflexivity|reflexivity|apply no_sp_nil].
    + destruct (NS ltac:(intros ? X; discriminate X)) as (s1 & o1 & ep & o2 & C & A & E). cbn [core] in C.
      rewrite Ph in C. inv C. simpl in A. inv A. eapply SAME; [reflexivity|reflexivity|apply no_sp_nil].
  - (* EResultOmit *)
    destruct SP as [Ph|[tid Ph]].
    + destruct (omit_ok c cur v) eqn:OK.
      * unfold step in H. cbn [core] in H. rewrite Ph, OK in H.
        destruct (handle_result c s pls cur v) as [[s1 o1] done] eqn:Eh. pose proof (handle_result_sp _ _ _ _ _ _ _ _ Eh) as N.
        unfold fin_if in H. destruct done; simpl in H.
        -- left. unfold finish, finish0 in H. destruct (check_send_batch c _) as [s2 o2]. inv H.
           apply in_or_app; right; left; reflexivity.
        -- inv H. rewrite app_nil_r. apply handle_result_retry in Eh as (cur' & tid & Ph' & In' & _); [|eapply omit_ok_in; eauto].
           right. exists cur'. split; [right; exists tid; exact Ph'|]. split; auto.
           intros a m w X. exfalso; eapply N; eauto.
      * destruct (NS ltac:(intros ? X; discriminate X)) as (s1 & o1 & ep & o2 & C & A & E). cbn [core] in C.
        rewrite Ph, OK in C. inv C. simpl in A. inv A. eapply SAME; [reflexivity|reflexivity|apply no_sp_nil].
    + destruct (NS ltac:(intros ? X; discriminate X)) as (s1 & o1 & ep & o2 & C & A & E). cbn [core] in C.
      rewrite Ph in C. inv C. simpl in A. inv A. eapply SAME; [reflexivity|reflexivity|apply no_sp_nil].
  - (* EBroken *)
    destruct (NS ltac:(intros ? X; discriminate X)) as (s1 & o1 & ep & o2 & C & A & E). cbn [core] in C.
    inv C. simpl in A. inv A. eapply SAME; [reflexivity|reflexivity|apply no_sp_nil].
  - (* EStop: the batch ends *)
    left. unfold step in H. set (s0 := set_flags s true (looper s)) in *.
    destruct (cancel_batch c s0 cv) as [[s1 o1] done] eqn:E.
    pose proof (cancel_batch_done c s0 cv _ _ _ (eq_refl : stopping s0 = true) PW NI E) as ->.
    unfold fin_if in H. simpl in H. unfold finish, finish0 in H.
    destruct (check_send_batch c _) as [s2 o2]. destruct (cancel_all _ _) as [s4 o4]. inv H.
    apply in_or_app; right. left; reflexivity.
Qed.

(* outputs strictly before the end of the batch in flight *)
Fixpoint until_done (outs : list output) : list output :=
  match outs with
  | [] => []
  | OBatchDone :: _ => []
  | o :: r => o :: until_done r
  end.

Lemma until_done_app_no : forall a b, ~ In OBatchDone a -> until_done (a ++ b) = a ++ until_done b.
Proof.
  induction a as [|o r IH]; simpl; intros b N; auto.
  destruct o; try (rewrite IH; auto; fail). exfalso; apply N; auto.
Qed.
Lemma until_done_app_yes : forall a b, In OBatchDone a -> until_done (a ++ b) = until_done a.
Proof.
  induction a as [|o r IH]; simpl; intros b N; [destruct N|].
  destruct o; try (rewrite IH; auto; destruct N as [N|N]; [discriminate|auto]; fail). reflexivity.
Qed.
Lemma until_done_incl : forall a, incl (until_done a) a.
Proof. induction a as [|o r IH]; simpl; [intros ? []|]. destruct o; try (intros x [<-|H]; [left; auto|right; auto]); intros ? []. Qed.

Lemma until_done_no_sp_last : forall pre o, In OBatchDone pre -> no_sp pre -> no_sp (until_done (pre ++ [o])).
Proof.
  intros pre o D N. rewrite until_done_app_yes; auto. intros a m v X. apply until_done_incl in X. eapply N; eauto.
Qed.

Lemma In_dec_done : forall o : list output, In OBatchDone o \/ ~ In OBatchDone o.
Proof.
  induction o as [|x r IH]; [right; intros []|]. destruct IH as [H|H]; [left; right; auto|].
  destruct x; try (right; intros [X|X]; [discriminate|auto]; fail). left; left; reflexivity.
Qed.

Theorem never_resent_run : forall c evs s s' tr pls cur, Inv s -> PInv c s -> sent_phase (ph s) pls cur ->
  run c s evs = (s', tr) -> sp_within cur (until_done (outs_of tr)).
Proof.
  induction evs as [|e r IH]; simpl; intros s s' tr pls cur I P SP H.
  - inv H. intros a m v [].
  - destruct (step c s e) as [s1 o] eqn:E. destruct (run c s1 r) as [s2 t2] eqn:E2. inv H.
    unfold outs_of. simpl. fold (outs_of t2).
    destruct (shrink_step _ _ _ _ _ _ _ I P SP E) as [D|(cur' & SP' & In' & Wn)].
    + rewrite until_done_app_yes; auto.
      (* a produce request of this step, if any, is its last output: after the end of the batch *)
      destruct (step_sp _ _ _ _ _ E) as [N|(pre & a & m & pls' & cur'' & -> & N & _)].
      * intros a m v X. apply until_done_incl in X. exfalso; eapply N; eauto.
      * apply in_app_or in D as [D|[D|[]]]; [|discriminate].
        intros a' m' v' X. exfalso. eapply (until_done_no_sp_last pre _ D N); eauto.
    + destruct (step_c09 _ _ _ _ _ I P E) as [P1 _].
      specialize (IH _ _ _ _ _ (inv_of_step _ _ _ _ _ I E) P1 SP' E2).
      destruct (In_dec_done o) as [D|D].
      * rewrite until_done_app_yes; auto. intros a m v X. apply until_done_incl in X. eapply Wn; eauto.
      * rewrite until_done_app_no; auto. intros a m v X. apply in_app_or in X as [X|X]; [eapply Wn; eauto|].
        eapply incl_tran; [eapply IH; eauto|exact In'].
Qed.

(* ------------------------------------------------------------------ exactly the failed payloads are retried *)
Definition err_tps (rs : list (tp * Z * Z)) : list tp :=
  map (fun e => fst (fst e)) (filter (fun e : tp * Z * Z => negb (snd (fst e) =? 0)) rs).
(* the payloads a result leaves to be retried: those whose broker request failed, those answered with an error
   code; after a failure of the request as a whole (Kafka error) every payload of this attempt *)
Definition failed_tps (v : value) (cur : list tp) : list tp :=
  match v with
  | VResp rs => err_tps rs
  | VFailed rs fs => map fst fs ++ err_tps rs
  | VKafka _ => cur
  | _ => []
  end.

Lemma process_resps_fl_exact : forall rs s pls s' out fl, process_resps s pls rs = (s', out, fl) -> tps_of_fl fl = err_tps rs.
Proof.
  induction rs as [|[[x err] off] r IH]; simpl; intros s pls s' out fl H.
  - inv H. reflexivity.
  - unfold err_tps in *. simpl. destruct (err =? 0) eqn:Ez; simpl.
    + destruct (deliver s (sends_of pls x) _) as [s1 o1]. destruct (process_resps s1 pls r) as [[s2 o2] f2] eqn:E2. inv H. eauto.
    + destruct (process_resps s pls r) as [[s2 o2] f2] eqn:E2. inv H. simpl. f_equal. eauto.
Qed.

Lemma handle_result_retry_exact : forall c s pls cur v s1 o1,
  handle_result c s pls cur v = (s1, o1, false) -> exists tid, ph s1 = RetryWait pls (failed_tps v cur) tid.
Proof.
  unfold handle_result; intros c s pls cur v s1 o1 H. destruct v; simpl.
  - destruct (deliver s (all_sends pls) _); inv H.
  - destruct (process_resps s pls rs) as [[s2 o2] f2] eqn:E. apply process_resps_fl_exact in E.
    destruct f2 as [|p0 f2]; [inv H|].
    destruct (check_retry c s2 pls (p0 :: f2)) as [[s3 o3] d3] eqn:E3. inv H.
    apply check_retry_phase in E3 as [tid E3]. exists tid. rewrite E3, E. reflexivity.
  - destruct (if c_acks c =? 0 then _ else _) as [s0 o0].
    destruct (process_resps s0 pls rs) as [[s2 o2] f2] eqn:E. apply process_resps_fl_exact in E.
    destruct (check_retry c s2 pls _) as [[s3 o3] d3] eqn:E3. inv H.
    apply check_retry_phase in E3 as [tid E3]. exists tid. rewrite E3. f_equal.
    unfold tps_of_fl in *. rewrite map_app, map_map. simpl. rewrite E. reflexivity.
  - apply check_retry_phase in H as [tid H]. exists tid. rewrite H. f_equal.
    unfold tps_of_fl. rewrite map_map. simpl. apply map_id.
  - destruct (deliver s (all_sends pls) _); inv H.
Qed.

(* when a result leaves the batch unresolved the retry set is exactly the failed payloads *)
Theorem retry_exact : forall c s pls cur v s' out, Inv s -> ph s = Sending pls cur -> result_ok c cur v = true ->
  step c s (EResult v) = (s', out) ->
  In OBatchDone out \/
  (exists tid, ph s' = RetryWait pls (failed_tps v cur) tid /\ incl (failed_tps v cur) cur /\
               forall x off, In (x, 0, off) (resps_of v) -> ~ In x (failed_tps v cur)).
Proof.
  intros c s pls cur v s' out I P OK H.
  unfold step in H. cbn [core] in H. rewrite P, OK in H.
  destruct (handle_result c s pls cur v) as [[s1 o1] done] eqn:E. unfold fin_if in H. destruct done; simpl in H.
  - left. unfold finish, finish0 in H. destruct (check_send_batch c _) as [s2 o2]. inv H.
    apply in_or_app; right; left; reflexivity.
  - inv H. right. destruct (handle_result_retry_exact _ _ _ _ _ _ _ E) as [tid E'].
    destruct (handle_result_retry _ _ _ _ _ _ _ (result_ok_in _ _ _ OK) E) as (cur' & tid' & Ph' & In' & Ak). rewrite E' in Ph'. inv Ph'.
    exists tid'. auto.
Qed.
