(* Run-level consequences: the invariant of every reachable between-events state, and the theorems of C13 / C14 that
   quantify over all event sequences. *)
From Coq Require Import Lia.
From AV Require Import Base.Util Model.Consumer Proofs.ConsumerBase Proofs.ConsumerFrame Proofs.ConsumerC13 Proofs.ConsumerStop
  Proofs.ConsumerC13Top Proofs.ConsumerInv.
Open Scope Z_scope.

(* ---- the auto-commit LoopingCall is "running its callback" (Some false) only inside the tick event ---- *)
Definition LK (s s' : state) : Prop := s_looper s' = s_looper s \/ s_looper s' = None.
Ltac lk_leaf H := mi H; unfold LK; psimpl; auto.
Lemma startd_errback_lk fk s r s' o : startd_errback fk s = (r, s', o) -> s_looper s' = s_looper s.
Proof. intro H. unfold startd_errback in H. mi H; reflexivity. Qed.
Lemma do_fetch_lk s r s' o : do_fetch s = (r, s', o) -> s_looper s' = s_looper s.
Proof. intro H. unfold do_fetch, startd_errback in H. mi H; reflexivity. Qed.
Lemma retry_fetch_lk z s r s' o : retry_fetch z s = (r, s', o) -> s_looper s' = s_looper s.
Proof. intro H. unfold retry_fetch in H. mi H; reflexivity. Qed.
Lemma handle_fetch_error_lk fk s r s' o : handle_fetch_error fk s = (r, s', o) -> s_looper s' = s_looper s.
Proof. intro H. unfold handle_fetch_error, retry_fetch, startd_errback in H. mi H; reflexivity. Qed.
Lemma handle_offset_error_lk fk s r s' o : handle_offset_error fk s = (r, s', o) -> s_looper s' = s_looper s.
Proof. intro H. unfold handle_offset_error, retry_fetch, startd_errback in H. mi H; reflexivity. Qed.
Lemma handle_offset_response_lk kd v s r s' o : handle_offset_response kd v s = (r, s', o) -> s_looper s' = s_looper s.
Proof. intro H. unfold handle_offset_response, do_fetch, startd_errback in H. mi H; reflexivity. Qed.

Ltac lk_facts Hf := fuel_split; repeat match goal with
  | E : run _ ?k ?s1 = (?r, ?s2, ?o1), Hf : fuel_ok ?o1 = true |- _ =>
    let F := fresh "F" in pose proof (run_frame _ _ _ _ _ _ E Hf) as F; cbn beta iota in F; destruct F as (_ & F);
    first [ apply fr_looper in F | apply fk_looper in F ]; clear E
  | E : do_fetch _ = _ |- _ => apply do_fetch_lk in E
  | E : handle_fetch_error _ _ = _ |- _ => apply handle_fetch_error_lk in E
  | E : handle_offset_error _ _ = _ |- _ => apply handle_offset_error_lk in E
  | E : handle_offset_response _ _ _ = _ |- _ => apply handle_offset_response_lk in E
  | E : commit _ _ = _ |- _ => apply commit_fr in E; destruct E as (E & _); apply fr_looper in E
  | E : auto_commit _ _ = _ |- _ => apply auto_commit_fr in E; destruct E as (E & _); apply fr_looper in E
  | E : send_commit_request _ _ _ = _ |- _ => apply send_commit_request_fr in E; destruct E as (E & _); apply fr_looper in E
  end.
Ltac split_state_if := repeat match goal with
  | |- context [if ?c then set_susp true _ else _] => let E := fresh "E" in destruct c eqn:E
  | H : context [if ?c then set_susp true _ else _] |- _ => let E := fresh "E" in destruct c eqn:E
  end.
Ltac lk_solve := psimpl; repeat match goal with H : _ \/ _ |- _ => destruct H end; congruence.

Lemma handle_looper fuel e s s' o : handle fuel e s = (Ok tt, s', o) -> fuel_ok o = true ->
  s_looper s <> Some false -> s_looper s' <> Some false.
Proof.
  intros H Hf Hl. unfold handle in H. cbn zeta in H. destruct e;
    unfold api_stop, api_commit, flush_pend, handle_commit_error in H; mi H; split_state_if; lk_facts Hf; lk_solve.
Qed.
