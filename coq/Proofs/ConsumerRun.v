(* Run-level consequences: the invariant of every reachable between-events state, and the theorems of C13 / C14 that
   quantify over all event sequences. *)
From Coq Require Import Lia.
From AV Require Import Base.Util Model.Consumer Proofs.ConsumerBase Proofs.ConsumerFrame Proofs.ConsumerC13 Proofs.ConsumerStop
  Proofs.ConsumerC13Top Proofs.ConsumerInv Proofs.ConsumerShut.
Open Scope Z_scope.

(* ---- the auto-commit LoopingCall is "running its callback" (Some false) only inside the tick event ---- *)
Definition LK (s s' : state) : Prop := s_looper s' = s_looper s \/ s_looper s' = None.
Ltac lk_leaf H := mi H; unfold LK; psimpl; auto.
Lemma startd_errback_lk fk s r s' o : startd_errback fk s = (r, s', o) -> s_looper s' = s_looper s.
Proof. intro H. unfold startd_errback in H. mi H; reflexivity. Qed.
Lemma do_fetch_lk s r s' o : do_fetch s = (r, s', o) -> s_looper s' = s_looper s.
Proof. intro H. unfold do_fetch, startd_errback in H. mi H; reflexivity. Qed.
Lemma retry_fetch_lk z s r s' o : retry_fetch z s = (r, s', o) -> s_looper s' = s_looper s.
Proof. intro H. unfold retry_fetch in H. mi H; reflexivity. Qed.
Lemma handle_fetch_error_lk fk s r s' o : handle_fetch_error fk s = (r, s', o) -> s_looper s' = s_looper s.
Proof. intro H. unfold handle_fetch_error, retry_fetch, startd_errback in H. mi H; reflexivity. Qed.
Lemma handle_offset_error_lk fk s r s' o : handle_offset_error fk s = (r, s', o) -> s_looper s' = s_looper s.
Proof. intro H. unfold handle_offset_error, retry_fetch, startd_errback in H. mi H; reflexivity. Qed.
Lemma handle_offset_response_lk kd v s r s' o : handle_offset_response kd v s = (r, s', o) -> s_looper s' = s_looper s.
Proof. intro H. unfold handle_offset_response, do_fetch, startd_errback in H. mi H; reflexivity. Qed.

Ltac lk_facts Hf := fuel_split; repeat match goal with
  | E : run _ ?k ?s1 = (?r, ?s2, ?o1), Hf : fuel_ok ?o1 = true |- _ =>
    let F := fresh "F" in pose proof (run_frame _ _ _ _ _ _ E Hf) as F; cbn beta iota in F; destruct F as (_ & F);
    first [ apply fr_looper in F | apply fk_looper in F ]; clear E
  | E : do_fetch _ = _ |- _ => apply do_fetch_lk in E
  | E : handle_fetch_error _ _ = _ |- _ => apply handle_fetch_error_lk in E
  | E : handle_offset_error _ _ = _ |- _ => apply handle_offset_error_lk in E
  | E : handle_offset_response _ _ _ = _ |- _ => apply handle_offset_response_lk in E
  | E : commit _ _ = _ |- _ => apply commit_fr in E; destruct E as (E & _); apply fr_looper in E
  | E : auto_commit _ _ = _ |- _ => apply auto_commit_fr in E; destruct E as (E & _); apply fr_looper in E
  | E : send_commit_request _ _ _ = _ |- _ => apply send_commit_request_fr in E; destruct E as (E & _); apply fr_looper in E
  end.
Ltac lk_solve := psimpl; repeat match goal with H : _ \/ _ |- _ => destruct H end; congruence.

Lemma handle_looper fuel e s s' o : handle fuel e s = (Ok tt, s', o) -> fuel_ok o = true ->
  s_looper s <> Some false -> s_looper s' <> Some false.
Proof.
  intros H Hf Hl. unfold handle in H. cbn zeta in H. destruct e;
    unfold api_stop, api_commit, api_shutdown, flush_pend, handle_commit_error in H; mi H; split_state_if; lk_facts Hf; lk_solve.
Qed.

Section Run.
Variable n0 : Z.     (* the configured request_retry_max_attempts *)

(* what holds of every state between two events of a run that starts in the initial state (fuel permitting) *)
Definition Reach (s : state) : Prop :=
  Jtop n0 s /\ s_looper s <> Some false /\ s_inapi s = 0 /\ s_pend s = [].

Lemma reach_init c buf : Reach (init c n0 buf).
Proof. split; [apply Jtop_init|]. cbn. repeat split; auto. discriminate. Qed.

Lemma fuel_ok_step o1 x : fuel_ok (o1 ++ [OEnd (fst x) (snd x)]) = true -> fuel_ok o1 = true.
Proof. intro H. apply fuel_ok_app_inv in H. tauto. Qed.

Lemma reach_step fuel s e s' o : Reach s -> step fuel s e = (s', o) -> fuel_ok o = true -> Reach s'.
Proof.
  intros (HJ & Hl & Hi & Hp) H Hf.
  destruct (start_once_every_step _ _ _ _ _ Hi Hp H) as (_ & Hi' & Hp').
  apply step_inv in H. destruct H as (o1 & H & ->). apply fuel_ok_app_inv in Hf. destruct Hf as (Hf & _).
  split; [eapply handle_inv; eauto|]. split; [eapply handle_looper; eauto|]. auto.
Qed.

Definition t_pre (t : tstep) : state := match t with (s, _, _, _) => s end.
Definition t_post (t : tstep) : state := match t with (_, _, _, s') => s' end.
Definition t_out (t : tstep) : list output := match t with (_, _, o, _) => o end.
Definition t_ev (t : tstep) : event := match t with (_, e, _, _) => e end.
Definition all_fuel_ok (tr : list tstep) : bool := forallb (fun t => fuel_ok (t_out t)) tr.

Theorem reach_run fuel : forall evs s, Reach s -> all_fuel_ok (run_steps fuel s evs) = true ->
  Forall (fun t => Reach (t_pre t) /\ Reach (t_post t)) (run_steps fuel s evs).
Proof.
  induction evs as [|e evs IH]; intros s HR Hf; cbn [run_steps] in *; [constructor|].
  destruct (step fuel s e) as [s1 o] eqn:E. cbn [all_fuel_ok forallb t_out] in Hf. apply andb_prop in Hf. destruct Hf as (Hf1 & Hf2).
  pose proof (reach_step _ _ _ _ _ HR E Hf1) as HR1.
  constructor; [cbn; auto | apply IH; assumption].
Qed.

(* ---- C13 at run level: stop() on a running consumer always returns, and then everything of stop_step holds ---- *)
Theorem stop_returns fuel s s' o : Reach s -> step fuel s EStop = (s', o) -> fuel_ok o = true -> s_startd s <> None ->
  returned o = true.
Proof.
  intros ((HJ & Hst) & Hl & Hi & Hp) H Hf Hsd.
  apply step_inv in H. destruct H as (o1 & H & ->). apply fuel_ok_app_inv in Hf. destruct Hf as (Hf & _).
  unfold handle in H. cbn zeta in H. unfold api_stop in H. mi H; fuel_split.
  - unfold returned. repeat rewrite existsb_app. cbn. rewrite !orb_true_r. reflexivity.
  - exfalso. match goal with E : run _ KStop _ = _, Hf : fuel_ok _ = true |- _ =>
      destruct (run_inv n0 _ _ _ _ _ _ E Hf HJ Hst) as (_ & _ & Hr) end.
    assert (Hx : is_some (s_startd s) = true) by (destruct (s_startd s); [reflexivity | congruence]).
    specialize (Hr Hx). discriminate Hr.
Qed.

Theorem stop_quiescent_reachable fuel s s' o : Reach s -> step fuel s EStop = (s', o) -> fuel_ok o = true -> s_startd s <> None ->
  returned o = true /\ quiescent s' = true /\ existsb is_activity o = false /\ s_susp s' = false /\ s_looper s' = None /\
  s_lp s' = s_lp s /\ s_maxatt s' = n0 /\
  In (ORet (encv (s_lp s))) o /\ (forall v, In (OStartD true v) o -> v = encv (s_lp s)).
Proof.
  intros HR H Hf Hsd. pose proof (stop_returns _ _ _ _ HR H Hf Hsd) as Hr.
  destruct HR as ((HJ & Hst) & Hl & Hi & Hp).
  destruct (stop_step _ _ _ _ Hst Hl H Hf Hr) as (Q1 & Q2 & Q3 & Q4 & Q5 & Q6 & Q7 & Q8 & Q9).
  repeat split; auto.
  rewrite Q7. pose proof (j11 _ _ HJ) as H11. destruct (s_susp s); [destruct H11; lia | exact H11].
Qed.

(* ---- C14_backoff_index at run level ---- *)
Definition BK (c : Z) (o : list output) (s' : state) : Prop :=
  retry_idxs o = [] /\ s_ridx s' = c \/ retry_idxs o = [c] /\ s_ridx s' = c + 1.

Lemma backoff_of_BK s e o1 s' :
  BK (if success_reply s e then 0 else s_ridx s) o1 s' -> backoff_step (s, e, o1 ++ [OEnd (s_lp s') (s_lc s')], s') = true.
Proof.
  unfold BK, backoff_step. rewrite retry_idxs_app. cbn [retry_idxs]. rewrite app_nil_r.
  intros [(-> & ->)|(-> & ->)]; cbn [counts_from]; rewrite ?Z.eqb_refl; cbn [counts_from]; rewrite ?Z.eqb_refl; reflexivity.
Qed.

Lemma do_fetch_bk s r s' o : do_fetch s = (r, s', o) -> retry_idxs o = [] /\ s_ridx s' = s_ridx s.
Proof. intro H. unfold do_fetch, startd_errback in H. mi H; split; reflexivity. Qed.
Lemma handle_error_bk (fetch : bool) fk s r s' o :
  (if fetch then handle_fetch_error fk s else handle_offset_error fk s) = (r, s', o) -> 0 <= s_ridx s -> BK (s_ridx s) o s'.
Proof.
  intros H H0. assert (Hz : (0 <=? s_ridx s) = true) by (apply Z.leb_le; exact H0).
  destruct fetch; [unfold handle_fetch_error in H | unfold handle_offset_error in H];
    unfold retry_fetch, startd_errback in H; mi H; unfold BK; psimpl; cbn [app retry_idxs T_RETRY Z.eqb Pos.eqb andb];
    rewrite ?Hz; cbn [andb app]; auto.
Qed.
Lemma handle_offset_response_bk kd v s r s' o : handle_offset_response kd v s = (r, s', o) -> retry_idxs o = [] /\ s_ridx s' = 0.
Proof. intro H. unfold handle_offset_response, do_fetch, startd_errback in H. mi H; split; reflexivity. Qed.

Ltac bk_facts Hf := fuel_split; repeat match goal with
  | E : run _ ?k ?s1 = (_, ?s2, ?o1), Hf : fuel_ok ?o1 = true |- _ =>
    let F := fresh "F" in let N := fresh "N" in
    pose proof (run_frame _ _ _ _ _ _ E Hf) as F; cbn beta iota in F; destruct F as (N & F); unfold no_idx in N;
    let Q := fresh "Q" in first [ pose proof (fr_pend _ _ F) as Q | pose proof (fk_pend _ _ _ F) as Q ];
    first [ apply fr_ridx in F | apply fk_ridx in F ]; clear E
  | E : do_fetch _ = _ |- _ => apply do_fetch_bk in E; destruct E
  | E : handle_offset_response _ _ _ = _ |- _ => apply handle_offset_response_bk in E; destruct E
  | E : commit _ _ = _ |- _ => let N := fresh "N" in apply commit_fr in E; destruct E as (E & N); unfold no_idx in N; apply fr_ridx in E
  | E : auto_commit _ _ = _ |- _ => let N := fresh "N" in apply auto_commit_fr in E; destruct E as (E & N); unfold no_idx in N; apply fr_ridx in E
  | E : send_commit_request _ _ _ = _ |- _ => let N := fresh "N" in apply send_commit_request_fr in E; destruct E as (E & N); unfold no_idx in N; apply fr_ridx in E
  end.
Ltac bk_err := repeat match goal with
  | E : handle_fetch_error _ ?x = _ |- _ =>
    let X := fresh "X" in assert (X : 0 <= s_ridx x) by (psimpl; lia); let Y := fresh "Y" in pose proof (handle_error_bk true _ _ _ _ _ E X) as Y; clear E X
  | E : handle_offset_error _ ?x = _ |- _ =>
    let X := fresh "X" in assert (X : 0 <= s_ridx x) by (psimpl; lia); let Y := fresh "Y" in pose proof (handle_error_bk false _ _ _ _ _ E X) as Y; clear E X
  end;
  repeat match goal with X : BK _ _ _ |- _ => unfold BK in X; psimpl; destruct X as [(? & ?)|(? & ?)] end.
Ltac bk_close :=
  bk_err;
  repeat match goal with D : ?x = _ |- context [if ?x then _ else _] => rewrite D end; cbn beta iota;
  unfold BK; psimpl; repeat rewrite retry_idxs_app;
  repeat match goal with N : retry_idxs ?x = _ |- _ => rewrite N end;
  repeat match goal with N : s_pend ?x = _ |- _ => rewrite N end;
  cbn [retry_idxs app T_COMMIT T_LOOPER T_RETRY Z.eqb Pos.eqb andb];
  first [ left; split; [first [reflexivity | congruence] | psimpl; try reflexivity; try congruence; try lia; intuition (try congruence; try lia)]
        | right; split; [first [reflexivity | congruence] | psimpl; try reflexivity; try congruence; try lia; intuition (try congruence; try lia)] ].

Theorem backoff_reachable fuel s e s' o : Reach s -> step fuel s e = (s', o) -> fuel_ok o = true ->
  backoff_step (s, e, o, s') = true.
Proof.
  intros ((HJ & Hst) & Hl & Hi & Hp) H Hf.
  apply step_inv in H. destruct H as (o1 & H & ->). apply fuel_ok_app_inv in Hf. destruct Hf as (Hf & _).
  apply backoff_of_BK.
  assert (Hpk : parked s = true -> s_ridx s = 0) by (intro Hx; destruct (j1 _ _ HJ Hx) as (_ & x & _); exact x).
  pose proof (j9 _ _ HJ) as (_ & H9).
  unfold handle in H. cbn zeta in H. unfold success_reply. destruct e.
  - (* start *) unfold flush_pend, do_fetch, startd_errback in H. mi H; bk_close.
  - (* stop *) unfold api_stop in H. mi H; bk_facts Hf; bk_close.
  - (* shutdown *) unfold api_shutdown in H. mi H; split_state_if; bk_facts Hf; bk_close.
  - (* commit *) unfold api_commit in H. mi H; bk_facts Hf; bk_close.
  - (* offset reply *) mi H; bk_facts Hf; bk_close.
  - (* fetch reply *) mi H; bk_facts Hf; bk_close.
  - (* request failure *) mi H; bk_facts Hf; bk_close.
  - (* plan *) mi H; bk_close.
  - (* processor result *) mi H; bk_facts Hf; bk_close.
  - (* commit ok *) mi H; bk_facts Hf; bk_close.
  - (* commit failure *) unfold handle_commit_error in H. mi H; bk_facts Hf; bk_close.
  - (* retry timer *) mi H; bk_facts Hf; bk_close.
  - (* commit retry timer *) mi H; bk_facts Hf; bk_close.
  - (* tick *) mi H; bk_facts Hf; bk_close.
Qed.

(* the same without mentioning the model's own counter: the k-th delay scheduled since the last successful reply has index k *)
Fixpoint backoff_trace (c : Z) (tr : list tstep) : bool :=
  match tr with
  | [] => true
  | t :: r =>
    match counts_from (if success_reply (t_pre t) (t_ev t) then 0 else c) (retry_idxs (t_out t)) with
    | Some c' => backoff_trace c' r
    | None => false
    end
  end.

Theorem backoff_run fuel : forall evs s, Reach s -> all_fuel_ok (run_steps fuel s evs) = true ->
  backoff_trace (s_ridx s) (run_steps fuel s evs) = true.
Proof.
  induction evs as [|e evs IH]; intros s HR Hf; cbn [run_steps] in *; [reflexivity|].
  destruct (step fuel s e) as [s1 o] eqn:E. cbn [all_fuel_ok forallb t_out] in Hf. apply andb_prop in Hf. destruct Hf as (Hf1 & Hf2).
  pose proof (reach_step _ _ _ _ _ HR E Hf1) as HR1. pose proof (backoff_reachable _ _ _ _ _ HR E Hf1) as HB.
  cbn [backoff_trace t_pre t_ev t_out]. unfold backoff_step in HB.
  destruct (counts_from (if success_reply s e then 0 else s_ridx s) (retry_idxs o)) as [c'|]; [|discriminate HB].
  apply Z.eqb_eq in HB. subst c'. apply IH; assumption.
Qed.

(* ---- C13 over whole runs: every stop() of a running consumer returns and leaves it quiescent ---- *)
Definition stop_ok (t : tstep) : Prop :=
  t_ev t = EStop -> s_startd (t_pre t) <> None ->
  returned (t_out t) = true /\ quiescent (t_post t) = true /\ existsb is_activity (t_out t) = false /\
  s_susp (t_post t) = false /\ s_looper (t_post t) = None /\ s_lp (t_post t) = s_lp (t_pre t) /\ s_maxatt (t_post t) = n0 /\
  In (ORet (encv (s_lp (t_pre t)))) (t_out t) /\ (forall v, In (OStartD true v) (t_out t) -> v = encv (s_lp (t_pre t))).

Lemma run_steps_step fuel : forall evs s t, In t (run_steps fuel s evs) -> step fuel (t_pre t) (t_ev t) = (t_post t, t_out t).
Proof.
  induction evs as [|e evs IH]; intros s t Hin; cbn [run_steps] in Hin; [contradiction|].
  destruct (step fuel s e) as [s1 o] eqn:E. destruct Hin as [<-|Hin]; [cbn; exact E | eapply IH; eauto].
Qed.

Theorem stop_run fuel evs s : Reach s -> all_fuel_ok (run_steps fuel s evs) = true -> Forall stop_ok (run_steps fuel s evs).
Proof.
  intros HR Hf. pose proof (reach_run fuel evs s HR Hf) as HA. rewrite Forall_forall in *. intros t Hin.
  destruct (HA t Hin) as (H1 & _). intros He Hs.
  pose proof (run_steps_step _ _ _ _ Hin) as E. rewrite He in E.
  assert (Hft : fuel_ok (t_out t) = true) by (unfold all_fuel_ok in Hf; rewrite forallb_forall in Hf; apply Hf; exact Hin).
  exact (stop_quiescent_reachable _ _ _ _ H1 E Hft Hs).
Qed.
End Run.

(* ---- C13_shutdown_commits over whole runs: every successful outcome of a shutdown Deferred, in every run, carries
   last_committed = last_processed when a group is configured (or nothing was ever processed) ---- *)
Theorem shutdown_commits_run fuel g : forall evs s, c_group (s_cf s) = g -> s_inapi s = 0 -> s_pend s = [] ->
  forallb (fun t => fuel_ok (t_out t)) (run_steps fuel s evs) = true ->
  forallb (fun t => forallb (shutd_ok g) (t_out t)) (run_steps fuel s evs) = true.
Proof.
  induction evs as [|e evs IH]; intros s Hg Hi Hp Hf; cbn [run_steps] in *; [reflexivity|].
  destruct (step fuel s e) as [s1 o] eqn:E. cbn [forallb t_out] in *. apply andb_prop in Hf. destruct Hf as (Hf1 & Hf2).
  destruct (shutdown_commits_step _ _ _ _ _ Hp E Hf1) as (G & C).
  destruct (start_once_every_step _ _ _ _ _ Hi Hp E) as (_ & Hi' & Hp').
  rewrite Hg in G. rewrite G. cbn [andb]. apply IH; try assumption. rewrite C. exact Hg.
Qed.
