(* Generic proofs that the text harness/py2part.py generates from HashedPartitioner / RoundRobinPartitioner equals
   the hand-written model Model/Partitioner.v.  Nothing here mentions the generated text. *)
From AV Require Import Base.Util Model.Murmur Model.Partitioner Model.PartitionerPy Proofs.PartitionerFacts.
From Coq Require Import Lia.

(* ---- specification side, in the vocabulary of the hand model ---- *)
Definition hp (b parts : list Z) : pres Z :=
  match hashed_partition b parts with Some p => POk p | None => PErr PZeroDiv end.
(* what partition(key, partitions) must compute for every kind of key *)
Definition spec_hashed (key : pkey) (parts : list Z) : pres Z :=
  match key with
  | KStr cps => match utf8 cps with Some b => hp b parts | None => PErr PUnicode end
  | KBytes b | KBytearray b => hp b parts
  | KOther => PErr PTypeError
  end.
(* the object state of a RoundRobinPartitioner (iterpart, partitions) as the hand model's record *)
Definition st_of (s : rr) : (list Z * nat) * list Z := ((rr_cyc s, rr_pos s), rr_sorted s).
(* the start value the hand model is given: what randint returned, 0 when randomStart is off *)
Definition eff (flag : bool) (r : Z) : nat := if flag then Z.to_nat r else 0%nat.

Lemma pbind_ret {A} (m : pres A) : pbind m (fun x => POk x) = m.
Proof. destruct m; reflexivity. Qed.

(* ---- partitions[(h & 0x7FFFFFFF) % len(partitions)] ---- *)
Lemma hashed_tail b parts :
  pbind (py_mod (Z.land (pure_murmur2 b) 2147483647) (Z.of_nat (length parts)))
        (fun t => pbind (py_getitem parts t) (fun x => POk x)) = hp b parts.
Proof.
  unfold hp, hashed_partition, py_mod. destruct parts as [|a r] eqn:E; [reflexivity|]. rewrite <- E.
  assert (Hn : 0 < Z.of_nat (length parts)) by (subst parts; cbn [length]; lia).
  destruct (Z.eqb_spec (Z.of_nat (length parts)) 0) as [H0|_]; [lia|]. cbn [pbind].
  pose proof (hashed_index_range b _ Hn) as [H1 H2]. unfold hashed_index in *.
  change 0x7FFFFFFF with 2147483647 in *.
  set (i := Z.land (pure_murmur2 b) 2147483647 mod Z.of_nat (length parts)) in *.
  unfold py_getitem. destruct (Z.ltb_spec i 0) as [H|_]; [lia|]. destruct (Z.ltb_spec i 0) as [H|_]; [lia|].
  destruct (nth_error parts (Z.to_nat i)) as [p|] eqn:N; [reflexivity|]. apply nth_error_None in N. lia.
Qed.

Ltac gen_hashed_tac :=
  let key := fresh "key" in let parts := fresh "parts" in
  intros key parts; autounfold with gen_part_defs; cbv beta zeta; unfold spec_hashed;
  destruct key as [cps|b|b|];
  cbn [py_isinstance py_bytearray_utf8 py_bytearray py_bytes py_murmur pbind negb];
  try (destruct (utf8 cps); cbn [py_murmur pbind]);
  try reflexivity;
  rewrite ?pbind_ret; try apply hashed_tail; rewrite <- (hashed_tail _ parts); rewrite ?pbind_ret; reflexivity.

(* ---- for _ in range(n): next(self.iterpart) ---- *)
Lemma repeat_next (F : list Z * nat -> pres (list Z * nat)) :
  (forall s, F s = pbind (py_next s) (fun t => POk (snd t))) ->
  forall (parts : list Z) n p, (p < length parts)%nat ->
  py_repeat_nat n (parts, p) F = POk (parts, Nat.modulo (p + n) (length parts)).
Proof.
  intros HF parts. induction n as [|n IH]; intros p Hp; cbn [py_repeat_nat].
  - rewrite Nat.add_0_r, Nat.mod_small by exact Hp. reflexivity.
  - rewrite HF. unfold py_next. cbn [fst snd].
    destruct (nth_error parts p) as [x|] eqn:E; [|apply nth_error_None in E; lia]. cbn [pbind snd].
    rewrite IH by (apply Nat.mod_upper_bound; lia).
    rewrite Nat.add_mod_idemp_l by lia. do 3 f_equal. lia.
Qed.

Lemma nonempty_len (parts : list Z) : parts <> [] -> (0 < length parts)%nat.
Proof. destruct parts; [congruence | cbn; lia]. Qed.
Lemma randint_ok r (parts : list Z) : parts <> [] -> py_randint r 0 (Z.of_nat (length parts) - 1) = POk r.
Proof. intro H. apply nonempty_len in H. unfold py_randint. destruct (Z.ltb_spec (Z.of_nat (length parts) - 1) 0); [lia | reflexivity]. Qed.
Lemma rr_set_some parts start : parts <> [] ->
  rr_set parts start = Some {| rr_sorted := zsort parts; rr_cyc := parts; rr_pos := Nat.modulo start (length parts) |}.
Proof. destruct parts; [congruence | reflexivity]. Qed.

(* the part of the generated text that sets the partitions: normalised by these steps, for either value of the flag *)
Ltac rr_set_steps parts Hne :=
  rewrite ?(randint_ok _ parts Hne); cbn [pbind]; unfold py_repeat, py_cycle;
  try match goal with
      | |- context [py_repeat_nat ?n (parts, 0%nat) ?F] =>
          let HF := fresh "HF" in
          assert (HF : forall s, F s = pbind (py_next s) (fun t => POk (snd t)))
            by (intro; cbv beta; first [ reflexivity | destruct (py_next _); cbn [pbind]; reflexivity ]);
          rewrite (repeat_next F HF parts n 0%nat (nonempty_len parts Hne)); clear HF;
          cbn [pbind Nat.add]
      end.

Ltac zero_start parts Hne := unfold py_cycle; rewrite ?Nat.mod_0_l by (pose proof (nonempty_len parts Hne); lia).

Ltac gen_rr_init_tac :=
  let flag := fresh "flag" in let r := fresh "r" in let parts := fresh "parts" in let Hne := fresh "Hne" in
  intros flag r parts Hne; autounfold with gen_part_defs; cbv beta zeta;
  rewrite (rr_set_some parts (eff flag r) Hne); unfold st_of, eff; cbn [rr_cyc rr_pos rr_sorted];
  destruct flag; cbn [negb]; rr_set_steps parts Hne; zero_start parts Hne; reflexivity.

Ltac next_step :=
  unfold py_next, rr_next; cbn [fst snd rr_cyc rr_pos rr_sorted];
  match goal with |- context [nth_error ?l ?p] => destruct (nth_error l p) end;
  cbn [pbind fst snd]; reflexivity.

Ltac gen_rr_partition_tac :=
  let flag := fresh "flag" in let r := fresh "r" in let s := fresh "s" in let key := fresh "key" in
  let parts := fresh "parts" in let Hne := fresh "Hne" in
  intros flag r s key parts Hne; autounfold with gen_part_defs; unfold st_of; cbv beta zeta; cbn [fst snd];
  unfold rr_partition;
  destruct (zlist_eqb (rr_sorted s) parts); cbn [negb];
  [ next_step
  | rewrite (rr_set_some parts (eff flag r) Hne); unfold eff;
    destruct flag; cbn [negb]; rr_set_steps parts Hne; zero_start parts Hne; next_step ].
