(* KafkaBootstrapProtocol (Model/Framing.v, second half): request/response pairing as observed. *)
From AV Require Import Base.Util Proofs.UtilFacts Model.Framing Proofs.FramingFacts.
From Coq Require Import Lia.

Definition bmem (h : nat) (l : list nat) : bool := existsb (Nat.eqb h) l.

Lemma bmem_In h l : bmem h l = true <-> In h l.
Proof.
  unfold bmem. rewrite existsb_exists. split.
  - intros (x & Hx & E). apply Nat.eqb_eq in E. subst. exact Hx.
  - intro H. exists h. split; [exact H | apply Nat.eqb_refl].
Qed.
Lemma bmem_nIn h l : bmem h l = false <-> ~ In h l.
Proof.
  split.
  - intros H Hin. apply bmem_In in Hin. congruence.
  - intro H. destruct (bmem h l) eqn:E; auto. apply bmem_In in E. contradiction.
Qed.

(* id bytes the request of handle h carries: request[4:8] *)
Definition req_id (q : list Z) : list Z := take 4 (drop 4 q).

(* reading a trace: None when a Deferred fires twice, AlreadyCalledError shows up, or a success value does not start
   with the id bytes of the request its Deferred was created for *)
Fixpoint bscan (qs : list (list Z)) (fired : list nat) (outs : list boutput) : option (list nat) :=
  match outs with
  | [] => Some fired
  | BDef h oc :: r =>
      if bmem h fired then None
      else if (match oc with
               | BSucc f => match nth_error qs h with Some q => zlist_eqb (take 4 f) (req_id q) | None => false end
               | _ => true end)
           then bscan qs (h :: fired) r else None
  | BErr _ :: _ => None
  | _ :: r => bscan qs fired r
  end.

Lemma bscan_app qs : forall a b f, bscan qs f (a ++ b) = match bscan qs f a with Some f' => bscan qs f' b | None => None end.
Proof.
  induction a as [|o a IH]; intros b f; cbn [app bscan]; [reflexivity|].
  destruct o; try apply IH; try reflexivity.
  destruct (bmem h f); [reflexivity|]. destruct o as [fr| |]; [destruct (nth_error qs h); [destruct (zlist_eqb _ _)|]| |]; try reflexivity; apply IH.
Qed.

Lemma bscan_qs_app qs x : forall outs f f', bscan qs f outs = Some f' -> bscan (qs ++ x) f outs = Some f'.
Proof.
  induction outs as [|o outs IH]; intros f f' H; cbn [bscan] in *; [exact H|].
  destruct o; auto. destruct (bmem h f); [discriminate|]. destruct o; auto.
  destruct (nth_error qs h) eqn:E; [|discriminate].
  rewrite nth_error_app1 by (apply nth_error_Some; congruence). rewrite E.
  destruct (zlist_eqb _ _); [auto | discriminate].
Qed.

Definition bdef_handles (outs : list boutput) : list nat :=
  flat_map (fun o => match o with BDef h _ => [h] | _ => [] end) outs.

Lemma bscan_fired qs : forall outs f f', bscan qs f outs = Some f' -> f' = rev (bdef_handles outs) ++ f.
Proof.
  induction outs as [|o outs IH]; intros f f' H; cbn [bscan] in H.
  - injection H as <-. reflexivity.
  - destruct o; cbn [bdef_handles flat_map app]; try (apply IH; exact H; fail); try discriminate.
    destruct (bmem h f); [discriminate|].
    assert (X : bscan qs (h :: f) outs = Some f').
    { destruct o as [fr| |]; [destruct (nth_error qs h); [destruct (zlist_eqb _ _)|]| |]; try discriminate; exact H. }
    apply IH in X. rewrite X. cbn [rev]. rewrite <- app_assoc. reflexivity.
Qed.

Lemma bscan_sound qs : forall outs f f', bscan qs f outs = Some f' ->
  (forall h, ~ In (BErr h) outs)
  /\ (forall h fr, In (BDef h (BSucc fr)) outs -> exists q, nth_error qs h = Some q /\ take 4 fr = req_id q).
Proof.
  induction outs as [|o outs IH]; intros f f' H; cbn [bscan] in H.
  - split; [intros h X; exact X | intros h fr X; contradiction].
  - destruct o; try discriminate;
      try (destruct (IH _ _ H) as [A B]; split;
           [intros h0 [X|X]; [discriminate | exact (A h0 X)] | intros h0 fr [X|X]; [discriminate | exact (B h0 fr X)]]; fail).
    destruct (bmem h f); [discriminate|].
    destruct o.
    + destruct (nth_error qs h) as [q|] eqn:E; [|discriminate]. destruct (zlist_eqb (take 4 frame) (req_id q)) eqn:Z; [|discriminate].
      destruct (IH _ _ H) as [A B]. split.
      * intros h0 [X|X]; [discriminate | exact (A h0 X)].
      * intros h0 fr [X|X]; [|exact (B h0 fr X)]. injection X as <- <-. exists q. split; auto. apply zlist_eqb_eq. exact Z.
    + destruct (IH _ _ H) as [A B]. split.
      * intros h0 [X|X]; [discriminate | exact (A h0 X)].
      * intros h0 fr [X|X]; [discriminate | exact (B h0 fr X)].
    + destruct (IH _ _ H) as [A B]. split.
      * intros h0 [X|X]; [discriminate | exact (A h0 X)].
      * intros h0 fr [X|X]; [discriminate | exact (B h0 fr X)].
Qed.

(* ---- invariant ---- *)
Definition pend_ok (s : bstate) (p : list (list Z * nat)) : Prop :=
  NoDup (map snd p) /\ NoDup (map fst p)
  /\ (forall k h, In (k, h) p -> (~ In h (b_fired s) \/ In h (b_supp s)) /\ exists q, nth_error (b_reqs s) h = Some q /\ req_id q = k)
  /\ (forall h, (h < length (b_reqs s))%nat -> ~ In h (b_fired s) -> exists k, In (k, h) p).

Definition BInv (s : bstate) : Prop :=
  (forall h, In h (b_fired s) -> (h < length (b_reqs s))%nat)
  /\ (NoDup (b_fired s) /\ forall h, In h (b_supp s) -> In h (b_fired s))
  /\ match b_pending s with
     | Some p => pend_ok s p /\ b_failed s = false
     | None => b_failed s = true /\ forall h, (h < length (b_reqs s))%nat -> In h (b_fired s)
     end.

Definition bstep_ok (s s' : bstate) (o : list boutput) : Prop :=
  BInv s' /\ (exists x, b_reqs s' = b_reqs s ++ x) /\ bscan (b_reqs s') (b_fired s) o = Some (b_fired s').

Lemma blookup_in k p h : blookup k p = Some h -> In (k, h) p.
Proof.
  induction p as [|[k' h'] p IH]; cbn; [discriminate|]. destruct (zlist_eqb k k') eqn:E.
  - intro X. injection X as <-. apply zlist_eqb_eq in E. subst. left. reflexivity.
  - intro X. right. apply IH. exact X.
Qed.

Lemma blookup_none k p : blookup k p = None -> forall h, ~ In (k, h) p.
Proof.
  induction p as [|[k' h'] p IH]; cbn; intros H h; [tauto|]. destruct (zlist_eqb k k') eqn:E; [discriminate|].
  intros [X|X]; [|exact (IH H h X)]. injection X as -> _. rewrite zlist_eqb_refl in E. discriminate.
Qed.

Lemma in_bremove k p kh : In kh (bremove k p) <-> In kh p /\ fst kh <> k.
Proof.
  unfold bremove. rewrite filter_In. split; intros [A B]; split; auto.
  - apply negb_true_iff in B. intro E. subst. rewrite zlist_eqb_refl in B. discriminate.
  - apply negb_true_iff. destruct (zlist_eqb k (fst kh)) eqn:E; auto. apply zlist_eqb_eq in E. congruence.
Qed.

Lemma NoDup_map_filter' {A B} (g : A -> B) p l : NoDup (map g l) -> NoDup (map g (filter p l)).
Proof.
  induction l as [|x l IH]; cbn; intro H; [constructor|]. inversion H as [|? ? Hx H']; subst.
  destruct (p x); cbn; auto. constructor; auto. intro Hin. apply Hx.
  apply in_map_iff in Hin. destruct Hin as (y & E & Hy). apply filter_In in Hy. rewrite <- E. apply in_map. tauto.
Qed.

Lemma pend_k_inj (p : list (list Z * nat)) k h1 h2 : NoDup (map fst p) -> In (k, h1) p -> In (k, h2) p -> h1 = h2.
Proof.
  induction p as [|[k' h'] p IH]; cbn; intros ND H1 H2; [contradiction|]. inversion ND as [|? ? Hx ND']; subst.
  destruct H1 as [H1|H1], H2 as [H2|H2]; try congruence.
  - injection H1 as -> ->. exfalso. apply Hx. change k with (fst (k, h2)). apply in_map. exact H2.
  - injection H2 as -> ->. exfalso. apply Hx. change k with (fst (k, h1)). apply in_map. exact H1.
  - eauto.
Qed.

Lemma NoDup_app_last {A} (l : list A) x : NoDup l -> ~ In x l -> NoDup (l ++ [x]).
Proof.
  induction 1 as [|a l Ha Hl IH]; intro Hx; cbn; [repeat constructor; auto|].
  constructor.
  - intro X. apply in_app_iff in X. destruct X as [X|[<-|[]]]; [auto | apply Hx; left; reflexivity].
  - apply IH. intro X. apply Hx. right. exact X.
Qed.

Lemma bstep_ok_same s : BInv s -> bstep_ok s s [].
Proof. intro I. split; [exact I | split; [exists []; rewrite app_nil_r; reflexivity | reflexivity]]. Qed.

Lemma in_supp_remove h x l : In x (filter (fun y => negb (Nat.eqb h y)) l) <-> In x l /\ x <> h.
Proof.
  rewrite filter_In. split; intros [A B]; split; auto.
  - apply negb_true_iff in B. apply Nat.eqb_neq in B. auto.
  - apply negb_true_iff. apply Nat.eqb_neq. auto.
Qed.

(* stringReceived *)
Lemma b_string_received_ok s f s' o : BInv s -> b_string_received s f = (s', o) ->
  bstep_ok s s' o /\ b_rx s' = b_rx s /\ (b_pending s = None <-> b_pending s' = None).
Proof.
  intros I H. pose proof I as (I1 & (I2 & IS) & I3). unfold b_string_received in H.
  remember (take 4 f) as kf eqn:Ekf.
  destruct (b_pending s) as [p|] eqn:Ep.
  - destruct I3 as [(P1 & P0 & P2 & P3) Fl].
    destruct (blookup kf p) as [h|] eqn:L.
    + apply blookup_in in L. destruct (P2 _ _ L) as (Nf & q & Eq & Ek).
      fold (bmem h (b_supp s)) in H. destruct (bmem h (b_supp s)) eqn:Su.
      * (* late response to a cancelled request: the tombstone goes, nothing fires *)
        apply bmem_In in Su. injection H as <- <-. cbn [b_pending b_rx]. split; [|split; [reflexivity | split; discriminate]].
        split; [|split; [exists []; cbn; rewrite app_nil_r; reflexivity | reflexivity]].
        unfold BInv. cbn [b_fired b_reqs b_pending b_failed b_supp]. split; [exact I1 | split; [split; [exact I2|] | split; [|exact Fl]]].
        -- intros x Hx. apply in_supp_remove in Hx. apply IS. tauto.
        -- unfold pend_ok. cbn [b_fired b_reqs b_supp]. split; [|split; [|split]].
           ++ apply NoDup_map_filter'. exact P1.
           ++ apply NoDup_map_filter'. exact P0.
           ++ intros k h0 Hin. apply in_bremove in Hin. destruct Hin as [Hin Hne]. cbn [fst] in Hne.
              destruct (P2 _ _ Hin) as (A & B). split; [|exact B].
              destruct A as [A|A]; [left; exact A|]. right. apply in_supp_remove. split; [exact A|].
              intro E. subst h0. apply Hne. destruct B as (q' & Eq' & Ek'). congruence.
           ++ intros h0 Hl Hf. destruct (P3 h0 Hl Hf) as (k & Hk).
              exists k. apply in_bremove. split; auto. cbn [fst]. intro E. subst k.
              assert (h0 = h) by (eapply pend_k_inj; eauto). subst h0. apply Hf. apply IS. exact Su.
      * apply bmem_nIn in Su. assert (Nf' : ~ In h (b_fired s)) by (destruct Nf as [X|X]; [exact X | contradiction]).
        unfold bfire in H. cbn [b_fired] in H. fold (bmem h (b_fired s)) in H. rewrite (proj2 (bmem_nIn _ _) Nf') in H.
        injection H as <- <-. cbn [b_pending b_rx]. split; [|split; [reflexivity | split; discriminate]].
        split; [|split].
        -- unfold BInv. cbn [b_fired b_reqs b_pending b_failed b_supp]. split; [|split; [split|split; [|exact Fl]]].
           ++ intros x [<-|Hx]; [apply nth_error_Some; congruence | auto].
           ++ constructor; auto.
           ++ intros x Hx. right. apply IS. exact Hx.
           ++ unfold pend_ok. cbn [b_fired b_reqs b_supp]. split; [|split; [|split]].
              ** apply NoDup_map_filter'. exact P1.
              ** apply NoDup_map_filter'. exact P0.
              ** intros k h0 Hin. apply in_bremove in Hin. destruct Hin as [Hin Hne]. cbn [fst] in Hne.
                 destruct (P2 _ _ Hin) as (A & B). split; [|exact B].
                 destruct A as [A|A]; [|right; exact A]. left.
                 intros [E|X]; [|exact (A X)]. subst h0. apply Hne.
                 destruct B as (q' & Eq' & Ek'). congruence.
              ** intros h0 Hl Hf. destruct (P3 h0 Hl) as (k & Hk). { intro X. apply Hf. right. exact X. }
                 exists k. apply in_bremove. split; auto. cbn [fst]. intro E. subst k.
                 apply Hf. left. eapply pend_k_inj; eauto.
        -- exists []. cbn. rewrite app_nil_r. reflexivity.
        -- cbn [bscan b_reqs b_fired]. rewrite (proj2 (bmem_nIn _ _) Nf'). rewrite Eq. rewrite Ek, Ekf. rewrite zlist_eqb_refl. reflexivity.
    + injection H as <- <-. split; [apply bstep_ok_same; exact I | split; [reflexivity | rewrite Ep; tauto]].
  - injection H as <- <-. split; [apply bstep_ok_same; exact I | split; [reflexivity | rewrite Ep; tauto]].
Qed.

Lemma bstep_ok_trans s s1 s2 o1 o2 : bstep_ok s s1 o1 -> bstep_ok s1 s2 o2 -> bstep_ok s s2 (o1 ++ o2).
Proof.
  intros (A1 & (x1 & A2) & A3) (B1 & (x2 & B2) & B3). split; [exact B1 | split].
  - exists (x1 ++ x2). rewrite B2, A2, app_assoc. reflexivity.
  - rewrite bscan_app. rewrite B2. rewrite (bscan_qs_app _ x2 _ _ _ A3). rewrite <- B2. exact B3.
Qed.

Lemma b_deliver_ok : forall fs s s' o, BInv s -> b_deliver s fs = (s', o) ->
  bstep_ok s s' o /\ b_rx s' = b_rx s /\ (b_pending s = None <-> b_pending s' = None).
Proof.
  induction fs as [|f fs IH]; intros s s' o I H; cbn [b_deliver] in H.
  - injection H as <- <-. split; [apply bstep_ok_same; exact I | split; [reflexivity | tauto]].
  - destruct (b_string_received s f) as [s1 o1] eqn:E1. destruct (b_deliver s1 fs) as [s2 o2] eqn:E2.
    injection H as <- <-. destruct (b_string_received_ok _ _ _ _ I E1) as (A & A' & A'').
    destruct (IH _ _ _ (proj1 A) E2) as (B & B' & B'').
    split; [eapply bstep_ok_trans; eauto | split; [congruence | tauto]].
Qed.

(* connectionLost: every pending Deferred fails (the errback of a cancelled one is swallowed) *)
Lemma b_fail_all_ok : forall p s s' o, b_pending s = None -> b_failed s = true ->
  (forall h, In h (b_fired s) -> (h < length (b_reqs s))%nat) -> NoDup (b_fired s) ->
  (forall h, In h (b_supp s) -> In h (b_fired s)) ->
  NoDup (map snd p) -> (forall k h, In (k, h) p -> (~ In h (b_fired s) \/ In h (b_supp s)) /\ (h < length (b_reqs s))%nat) ->
  b_fail_all s p = (s', o) ->
  b_pending s' = None /\ b_failed s' = true /\ b_reqs s' = b_reqs s /\ b_rx s' = b_rx s
  /\ (forall h, In h (b_fired s') -> (h < length (b_reqs s))%nat) /\ NoDup (b_fired s')
  /\ (forall h, In h (b_fired s') <-> In h (b_fired s) \/ In h (map snd p))
  /\ bscan (b_reqs s) (b_fired s) o = Some (b_fired s').
Proof.
  induction p as [|[k h] p IH]; intros s s' o Ep Ef I1 I2 IS ND Hp H; cbn [b_fail_all] in H.
  - injection H as <- <-. repeat split; auto. intros [X|[]]. exact X.
  - cbn [map snd] in ND. inversion ND as [|? ? Nh ND']; subst.
    destruct (Hp k h (or_introl eq_refl)) as [Nf Hl].
    fold (bmem h (b_supp s)) in H. destruct (bmem h (b_supp s)) eqn:Su.
    + apply bmem_In in Su.
      destruct (IH s s' o) as (A1 & A2 & A3 & A4 & A5 & A6 & A7 & A8); auto.
      { intros k0 h0 Hin. apply (Hp k0 h0). right. exact Hin. }
      repeat split; auto.
      * intro X. apply A7 in X. cbn [map snd]. destruct X as [X|X]; [left; exact X | right; right; exact X].
      * intro X. apply A7. cbn [map snd] in X. destruct X as [X|[<-|X]]; [left; exact X | left; apply IS; exact Su | right; exact X].
    + apply bmem_nIn in Su. assert (Nf' : ~ In h (b_fired s)) by (destruct Nf as [X|X]; [exact X | contradiction]).
      unfold bfire in H. fold (bmem h (b_fired s)) in H. rewrite (proj2 (bmem_nIn _ _) Nf') in H.
      match type of H with (let (s2, o2) := b_fail_all ?x p in _) = _ => set (s1 := x) in * end.
      destruct (b_fail_all s1 p) as [s2 o2] eqn:E2. injection H as <- <-.
      destruct (IH s1 s2 o2) as (A1 & A2 & A3 & A4 & A5 & A6 & A7 & A8); auto.
      * intros x [<-|Hx]; [exact Hl | apply I1; exact Hx].
      * constructor; auto.
      * intros x Hx. right. apply IS. exact Hx.
      * intros k0 h0 Hin. destruct (Hp k0 h0 (or_intror Hin)) as [B1 B2]. split; [|exact B2].
        destruct B1 as [B1|B1]; [|right; exact B1]. left.
        intros [E|X]; [|exact (B1 X)]. subst h0. apply Nh. change h with (snd (k0, h)). apply in_map. exact Hin.
      * repeat split; auto.
        -- intro X. apply A7 in X. cbn [b_fired s1 map snd] in *. destruct X as [[<-|X]|X]; auto. right. left. reflexivity. right. right. exact X.
        -- intro X. apply A7. cbn [b_fired s1 map snd] in *. destruct X as [X|[<-|X]]; auto. left. right. exact X. left. left. reflexivity.
        -- cbn [app bscan]. rewrite (proj2 (bmem_nIn _ _) Nf'). exact A8.
Qed.

Theorem bstep_inv s e s' o : BInv s -> bstep s e = (s', o) -> bstep_ok s s' o.
Proof.
  intros I H. pose proof I as (I1 & (I2 & IS) & I3). destruct e; cbn [bstep] in H.
  - (* request *)
    assert (Hh : ~ In (length (b_reqs s)) (b_fired s)) by (intro X; apply I1 in X; lia).
    destruct (b_failed s) eqn:Ef.
    + unfold bfire in H. cbn [b_fired] in H. fold (bmem (length (b_reqs s)) (b_fired s)) in H.
      rewrite (proj2 (bmem_nIn _ _) Hh) in H. injection H as <- <-.
      destruct (b_pending s) as [p|] eqn:Ep; [destruct I3 as [_ X]; congruence|]. destruct I3 as [_ All].
      split; [|split].
      * unfold BInv. cbn [b_fired b_reqs b_pending b_failed b_supp]. rewrite app_length. cbn [length]. split; [|split; [split|split]].
        -- intros h [<-|Hx]; [lia | apply I1 in Hx; lia].
        -- constructor; auto.
        -- intros h Hx. right. apply IS. exact Hx.
        -- reflexivity.
        -- intros h Hl. destruct (Nat.eq_dec h (length (b_reqs s))) as [->|Hne]; [left; reflexivity | right; apply All; lia].
      * exists [request]. reflexivity.
      * cbn [bscan b_fired]. rewrite (proj2 (bmem_nIn _ _) Hh). reflexivity.
    + destruct (b_pending s) as [p|] eqn:Ep; [|injection H as <- <-; apply bstep_ok_same; exact I].
      destruct I3 as [(P1 & P0 & P2 & P3) _].
      destruct (blookup (take 4 (drop 4 request)) p) eqn:L; [injection H as <- <-; apply bstep_ok_same; exact I|].
      injection H as <- <-. split; [|split].
      * unfold BInv. cbn [b_fired b_reqs b_pending b_failed b_supp]. rewrite app_length. cbn [length]. split; [|split; [split|split; [|reflexivity]]].
        -- intros h Hx. apply I1 in Hx. lia.
        -- exact I2.
        -- exact IS.
        -- unfold pend_ok. cbn [b_fired b_reqs b_supp]. rewrite !map_app. cbn [map fst snd]. split; [|split; [|split]].
           ++ apply NoDup_app_last; auto. intro X. apply in_map_iff in X. destruct X as ([k h] & E & Hin). cbn in E. subst h.
              destruct (P2 _ _ Hin) as (_ & q & Eq & _). assert (length (b_reqs s) < length (b_reqs s))%nat by (apply nth_error_Some; congruence). lia.
           ++ apply NoDup_app_last; auto. intro X. apply in_map_iff in X. destruct X as ([k h] & E & Hin). cbn in E. subst k.
              exact (blookup_none _ _ L h Hin).
           ++ intros k h Hin. apply in_app_iff in Hin. destruct Hin as [Hin|[X|[]]].
              ** destruct (P2 _ _ Hin) as (A & q & Eq & Ek). split; auto. exists q. split; auto.
                 rewrite nth_error_app1; auto. apply nth_error_Some. congruence.
              ** injection X as <- <-. split; [left; exact Hh|]. exists request. split; [|reflexivity].
                 rewrite nth_error_app2 by lia. rewrite Nat.sub_diag. reflexivity.
           ++ intros h Hl Hf. rewrite app_length in Hl. cbn in Hl. destruct (Nat.eq_dec h (length (b_reqs s))) as [->|Hne].
              ** eexists. apply in_app_iff. right. left. reflexivity.
              ** destruct (P3 h ltac:(lia) Hf) as (k & Hk). exists k. apply in_app_iff. auto.
      * exists [request]. reflexivity.
      * reflexivity.
  - (* data *)
    rewrite data_received_parse in H. destruct (parse _ (b_rx s ++ chunk)) as [fs e] eqn:Ep.
    destruct (b_deliver s fs) as [s1 o1] eqn:E1. destruct (b_deliver_ok _ _ _ _ I E1) as ((A1 & A2 & A3) & _ & A5).
    assert (R : forall b, bstep_ok s (b_set_rx s1 b) o1).
    { intro b. split; [exact A1 | split; [exact A2 | exact A3]]. }
    destruct e.
    + injection H as <- <-. apply R.
    + injection H as <- <-. destruct (R (rx_newbuf (b_rx s) chunk (RxLimit len))) as (B1 & B2 & B3).
      split; [exact B1 | split; [exact B2|]]. rewrite bscan_app. cbn [b_set_rx b_reqs b_fired] in *. rewrite B3. reflexivity.
    + injection H as <- <-. apply R.
    + exfalso. exact (parse_no_fuel _ _ _ Ep).
  - (* connection lost *)
    destruct (b_pending s) as [p|] eqn:Ep.
    + destruct I3 as [(P1 & P0 & P2 & P3) Fl].
      match type of H with (let (s2, o2) := b_fail_all ?x p in _) = _ => set (s1 := x) in * end.
      destruct (b_fail_all s1 p) as [s2 o2] eqn:EF. injection H as <- <-.
      destruct (b_fail_all_ok p s1 s2 o2 eq_refl eq_refl I1 I2 IS P1) as (A1 & A2 & A3 & A4 & A5 & A6 & A7 & A8); auto.
      { intros k h Hin. destruct (P2 _ _ Hin) as (B1 & q & Eq & _). split; auto. apply nth_error_Some. cbn. congruence. }
      split; [|split].
      * unfold BInv. cbn [b_fired b_reqs b_pending b_failed b_supp]. rewrite A1, A3. cbn [b_reqs s1].
        split; [exact A5 | split; [split; [exact A6 | intros h []] | split; [exact A2|]]].
        intros h Hl. apply A7. cbn [b_fired s1]. destruct (in_dec Nat.eq_dec h (b_fired s)) as [Y|N]; [left; exact Y | right].
        destruct (P3 h Hl N) as (k & Hk). change h with (snd (k, h)). apply in_map. exact Hk.
      * exists []. cbn [b_reqs]. rewrite A3. cbn. rewrite app_nil_r. reflexivity.
      * cbn [b_reqs b_fired]. rewrite A3. exact A8.
    + injection H as <- <-. split; [|split; [exists []; cbn; rewrite app_nil_r; reflexivity | reflexivity]].
      unfold BInv in *. cbn [b_fired b_reqs b_pending b_failed b_supp]. split; [exact I1 | split; [split; [exact I2 | exact IS] | split; [reflexivity | apply I3]]].
  - (* cancel *)
    destruct ((h <? length (b_reqs s))%nat && negb (existsb (Nat.eqb h) (b_fired s))) eqn:G;
      [|injection H as <- <-; apply bstep_ok_same; exact I].
    apply andb_true_iff in G. destruct G as [G1 G2]. apply Nat.ltb_lt in G1. apply negb_true_iff in G2.
    fold (bmem h (b_fired s)) in G2. pose proof (proj1 (bmem_nIn _ _) G2) as Nf.
    unfold bfire in H. fold (bmem h (b_fired s)) in H. rewrite G2 in H. injection H as <- <-.
    split; [|split; [exists []; cbn; rewrite app_nil_r; reflexivity|]].
    + unfold BInv. cbn [b_fired b_reqs b_pending b_failed b_supp]. split; [|split; [split|]].
      * intros x [<-|Hx]; [exact G1 | auto].
      * constructor; auto.
      * intros x [<-|Hx]; [left; reflexivity | right; apply IS; exact Hx].
      * destruct (b_pending s) as [p|] eqn:Ep.
        -- destruct I3 as [(P1 & P0 & P2 & P3) Fl]. split; [|exact Fl].
           unfold pend_ok. cbn [b_fired b_reqs b_supp]. split; [exact P1 | split; [exact P0 | split]].
           ++ intros k h0 Hin. destruct (P2 _ _ Hin) as (A & B). split; [|exact B].
              destruct (Nat.eq_dec h0 h) as [->|Hne]; [right; left; reflexivity|].
              destruct A as [A|A]; [left; intros [E|X]; [congruence | exact (A X)] | right; right; exact A].
           ++ intros h0 Hl Hf. apply P3; auto. intro X. apply Hf. right. exact X.
        -- destruct I3 as [Fl All]. split; [exact Fl|]. intros h0 Hl. right. apply All. exact Hl.
    + cbn [bscan b_reqs b_fired]. rewrite G2. reflexivity.
Qed.

Lemma BInv_init : BInv b_init.
Proof.
  unfold BInv, b_init, pend_ok. cbn. repeat split; try constructor; try contradiction; intros; try lia.
Qed.

Theorem brun_inv : forall evs s s' o, BInv s -> brun s evs = (s', o) -> bstep_ok s s' o.
Proof.
  induction evs as [|e evs IH]; intros s s' o I H; cbn [brun] in H.
  - injection H as <- <-. apply bstep_ok_same. exact I.
  - destruct (bstep s e) as [s1 o1] eqn:E1. destruct (brun s1 evs) as [s2 o2] eqn:E2. injection H as <- <-.
    pose proof (bstep_inv _ _ _ _ I E1) as A. eapply bstep_ok_trans; [exact A|]. eapply IH; [apply A | exact E2].
Qed.

(* ---- the statements ---- *)
Theorem bootstrap_pairing evs s o : brun b_init evs = (s, o) ->
  NoDup (bdef_handles o)                                         (* no Deferred fires twice *)
  /\ (forall h, ~ In (BErr h) o)                                 (* ... nor is fired twice *)
  /\ (forall h fr, In (BDef h (BSucc fr)) o ->                   (* a response goes to the request with the same id bytes *)
        exists q, nth_error (b_reqs s) h = Some q /\ take 4 fr = req_id q)
  /\ (forall h, In h (bdef_handles o) <-> In h (b_fired s))
  /\ (b_pending s = None -> forall h, (h < length (b_reqs s))%nat -> In h (bdef_handles o)).   (* after the loss every Deferred has fired *)
Proof.
  intro H. destruct (brun_inv _ _ _ _ BInv_init H) as ((I1 & (I2 & _) & I3) & _ & Sc). cbn [b_fired b_init] in Sc.
  pose proof (bscan_fired _ _ _ _ Sc) as F. rewrite app_nil_r in F.
  destruct (bscan_sound _ _ _ _ Sc) as [A B].
  assert (Hin : forall h, In h (bdef_handles o) <-> In h (b_fired s)) by (intro h; rewrite F, <- in_rev; tauto).
  split; [|split; [exact A | split; [exact B | split; [exact Hin|]]]].
  - rewrite F in I2. apply NoDup_rev in I2. rewrite rev_involutive in I2. exact I2.
  - intros Ep h Hl. apply Hin. rewrite Ep in I3. apply I3. exact Hl.
Qed.

(* a frame whose id bytes match no pending request: the connection is dropped, no Deferred is touched *)
Theorem bootstrap_unknown_id s p f : b_pending s = Some p -> blookup (take 4 f) p = None ->
  b_string_received s f = (s, [BLose]).
Proof. intros Ep L. unfold b_string_received. rewrite Ep, L. reflexivity. Qed.

(* a late response to a CANCELLED request (its Deferred has no canceller, the _pending entry stays as a tombstone): nothing
   fires, the connection is NOT dropped, only that entry goes; every other pending request keeps its entry *)
Theorem bootstrap_late_reply_inert s p f h : b_pending s = Some p -> blookup (take 4 f) p = Some h -> In h (b_supp s) ->
  exists s', b_string_received s f = (s', [])
    /\ b_pending s' = Some (bremove (take 4 f) p) /\ b_fired s' = b_fired s /\ b_failed s' = b_failed s
    /\ b_reqs s' = b_reqs s
    /\ (forall k' h', In (k', h') p -> k' <> take 4 f -> In (k', h') (bremove (take 4 f) p)).
Proof.
  intros Ep L Su. unfold b_string_received. rewrite Ep, L. fold (bmem h (b_supp s)). rewrite (proj2 (bmem_In _ _) Su).
  eexists. split; [reflexivity|]. cbn. repeat split; auto. intros k' h' Hin Hne. apply in_bremove. split; auto.
Qed.

(* ... and in every reachable state a pending entry whose Deferred has already fired IS such a tombstone: a frame
   carrying the id of a cancelled request changes the outcome of no other request *)
Theorem bootstrap_no_crosstalk evs s o : brun b_init evs = (s, o) ->
  forall p f h, b_pending s = Some p -> blookup (take 4 f) p = Some h -> In h (b_fired s) ->
  exists s', b_string_received s f = (s', [])
    /\ b_pending s' = Some (bremove (take 4 f) p) /\ b_fired s' = b_fired s
    /\ (forall k' h', In (k', h') p -> k' <> take 4 f -> In (k', h') (bremove (take 4 f) p)).
Proof.
  intros H p f h Ep L Hf. destruct (brun_inv _ _ _ _ BInv_init H) as ((I1 & I2 & I3) & _ & _).
  rewrite Ep in I3. destruct I3 as [(_ & _ & P2 & _) _].
  destruct (P2 _ _ (blookup_in _ _ _ L)) as ([N|Su] & _); [contradiction|].
  destruct (bootstrap_late_reply_inert s p f h Ep L Su) as (s' & A & B & C & _ & _ & D).
  exists s'. auto.
Qed.

(* cancel of a request that has not completed: CancelledError, and its table entry stays *)
Theorem bootstrap_cancel_keeps_entry s h : (h < length (b_reqs s))%nat -> ~ In h (b_fired s) ->
  exists s', bstep s (BCancel h) = (s', [BDef h BFailCancelled])
    /\ b_pending s' = b_pending s /\ In h (b_supp s') /\ b_fired s' = h :: b_fired s.
Proof.
  intros Hl Nf. cbn [bstep]. rewrite (proj2 (Nat.ltb_lt _ _) Hl). fold (bmem h (b_fired s)).
  rewrite (proj2 (bmem_nIn _ _) Nf). cbn [andb negb]. unfold bfire. fold (bmem h (b_fired s)).
  rewrite (proj2 (bmem_nIn _ _) Nf). eexists. split; [reflexivity|]. cbn. auto.
Qed.
