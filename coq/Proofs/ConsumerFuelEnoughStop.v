(* Some fuel suffices, part 1: everything that runs while _stopping is set, and stop() itself.
   The interpreter's fuel is the nesting depth of re-entrant calls.  Under _stopping the depth is bounded by the number of
   commit waiters (the loop `while self._commit_ds` of stop() is a tail call) plus a constant; stop() called in ANY state
   needs at most |_commit_ds| + 6. *)
From Coq Require Import Lia.
From AV Require Import Base.Util Model.Consumer Proofs.ConsumerBase Proofs.ConsumerFrame Proofs.ConsumerStop Proofs.ConsumerShutFlags.
Open Scope Z_scope.

(* the outcomes held back until shutdown() returns contain no out-of-fuel marker *)
Definition PF (s : state) : Prop := fuel_ok (s_pend s) = true.
Definition NF (s s' : state) (o : list output) : Prop := PF s -> fuel_ok o = true /\ PF s'.

Lemma fuel_ok_app2 a b : fuel_ok a = true -> fuel_ok b = true -> fuel_ok (a ++ b) = true.
Proof. intros. apply fuel_ok_app. split; assumption. Qed.
Ltac fo := repeat (first [ assumption | reflexivity | apply fuel_ok_app2 ]).
(* one path: the NF facts of the calls made, in path order, then the goal *)
Ltac nf_fwd := repeat match goal with
  | H : NF ?a ?b ?o |- _ =>
    let P := fresh "P" in assert (P : PF a) by (unfold PF in *; psimpl; first [assumption | fo]);
    let g1 := fresh "g" in let g2 := fresh "gp" in destruct (H P) as (g1 & g2); clear H P; unfold PF in g2; psimpl
  end.
Ltac nf_done := let Hp := fresh "Hp" in intro Hp; unfold PF in Hp; nf_fwd; split; [ fo | unfold PF; psimpl; fo ].
Ltac use L := repeat match goal with E : _ = (_, _, _) |- _ => apply L in E end.

Lemma startd_errback_nf fk s r s' o : startd_errback fk s = (r, s', o) -> NF s s' o.
Proof. intro H. unfold startd_errback in H. mi H; nf_done. Qed.
Lemma emit_shutd_nf x s r s' o : emit_shutd x s = (r, s', o) -> is_fuel x = false -> NF s s' o.
Proof.
  intros H Hx. unfold emit_shutd in H. mi H; intro Hp; unfold PF in *; psimpl.
  - split; [reflexivity|]. apply fuel_ok_app2; [exact Hp|]. unfold fuel_ok. cbn. rewrite Hx. reflexivity.
  - split; [|exact Hp]. unfold fuel_ok. cbn. rewrite Hx. reflexivity.
Qed.
Lemma handle_auto_commit_error_nf fk s r s' o : handle_auto_commit_error fk s = (r, s', o) -> NF s s' o.
Proof. intro H. unfold handle_auto_commit_error in H. mi H; use startd_errback_nf; nf_done. Qed.
Lemma handle_processor_error_nf fk s r s' o : handle_processor_error fk s = (r, s', o) -> NF s s' o.
Proof. intro H. unfold handle_processor_error in H. mi H; use startd_errback_nf; nf_done. Qed.
Lemma send_commit_request_nf i a s r s' o : send_commit_request i a s = (r, s', o) -> NF s s' o.
Proof. intro H. unfold send_commit_request in H. mi H; nf_done. Qed.
Lemma commit_nf w s r s' o : commit w s = (r, s', o) -> NF s s' o.
Proof. intro H. unfold commit in H. mi H; use send_commit_request_nf; nf_done. Qed.
Lemma auto_commit_nf bc s r s' o : auto_commit bc s = (r, s', o) -> NF s s' o.
Proof. intro H. unfold auto_commit in H. mi H; use commit_nf; use handle_auto_commit_error_nf; nf_done. Qed.
Lemma proc_chain_nf last fk s r s' o : proc_chain last fk s = (r, s', o) -> NF s s' o.
Proof. intro H. unfold proc_chain in H. mi H; use auto_commit_nf; use handle_processor_error_nf; nf_done. Qed.
Lemma pop_plan_nf s r s' o : pop_plan s = (r, s', o) -> NF s s' o.
Proof. intro H. unfold pop_plan in H. mi H; nf_done. Qed.
Lemma interrupted_nf s r s' o : interrupted s = (r, s', o) -> NF s s' o.
Proof.
  intro H. unfold interrupted in H. mi H.
  - apply emit_shutd_nf in E1; [|reflexivity]. nf_done.
  - nf_done.
Qed.
Lemma retry_fetch_nf z s r s' o : retry_fetch z s = (r, s', o) -> NF s s' o.
Proof. intro H. unfold retry_fetch in H. mi H; nf_done. Qed.
Lemma handle_fetch_error_nf fk s r s' o : handle_fetch_error fk s = (r, s', o) -> NF s s' o.
Proof. intro H. unfold handle_fetch_error in H. mi H; use startd_errback_nf; use retry_fetch_nf; nf_done. Qed.
Lemma handle_offset_error_nf fk s r s' o : handle_offset_error fk s = (r, s', o) -> NF s s' o.
Proof. intro H. unfold handle_offset_error in H. mi H; use startd_errback_nf; use retry_fetch_nf; nf_done. Qed.
Lemma do_fetch_nf s r s' o : do_fetch s = (r, s', o) -> NF s s' o.
Proof. intro H. unfold do_fetch in H. mi H; use startd_errback_nf; nf_done. Qed.
Lemma handle_offset_response_nf kd v s r s' o : handle_offset_response kd v s = (r, s', o) -> NF s s' o.
Proof. intro H. unfold handle_offset_response in H. mi H; use do_fetch_nf; nf_done. Qed.
Lemma stop_req_nf s r s' o : stop_req s = (r, s', o) -> NF s s' o.
Proof. intro H. unfold stop_req in H. mi H; use handle_fetch_error_nf; use handle_offset_error_nf; nf_done. Qed.
Lemma stop_mblock_nf s r s' o : stop_mblock s = (r, s', o) -> NF s s' o.
Proof. intro H. unfold stop_mblock in H. mi H; nf_done. Qed.
Lemma stop_rcall_nf s r s' o : stop_rcall s = (r, s', o) -> NF s s' o.
Proof. intro H. unfold stop_rcall in H. mi H; nf_done. Qed.
Lemma stop_ccall_nf s r s' o : stop_ccall s = (r, s', o) -> NF s s' o.
Proof. intro H. unfold stop_ccall in H. mi H; nf_done. Qed.
Lemma stop_looper_nf s r s' o : stop_looper s = (r, s', o) -> NF s s' o.
Proof. intro H. unfold stop_looper in H. mi H; nf_done. Qed.
Lemma stop_susp_nf s r s' o : stop_susp s = (r, s', o) -> NF s s' o.
Proof. intro H. unfold stop_susp in H. mi H; nf_done. Qed.
Lemma stop_startd_nf s r s' o : stop_startd s = (r, s', o) -> NF s s' o.
Proof. intro H. unfold stop_startd in H. mi H; nf_done. Qed.
Lemma api_commit_nf s r s' o : api_commit s = (r, s', o) -> NF s s' o.
Proof. intro H. unfold api_commit in H. mi H; use commit_nf; nf_done. Qed.

(* ---------------- under _stopping ---------------- *)
Definition Bs (k : kont) (s : state) : nat :=
  match k with
  | KStop => 0
  | KStopCds => length (s_cds s) + 3
  | KFireProc _ => 5
  | KProcLoop _ => if parked s then 4 else 1
  | KFetchResp _ _ => 2
  | KCommitAndStop | KShutFinish _ => 1
  | KFireCd _ _ => 2
  | KDeliver _ => 3
  end.
Definition okk (k : kont) : Prop := k <> KStop /\ k <> KFireProc None.

Section RecA.
Variable f : nat.
Hypothesis IH : forall k s r s' o, run f k s = (r, s', o) -> s_stopping s = true -> okk k -> (Bs k s <= f)%nat -> NF s s' o.

(* one nested call: its premises, then what is known of the state it leaves *)
Ltac sub := match goal with
  | E : run f ?k ?a = (?r, ?b, ?o1) |- _ =>
    let S := fresh "S" in assert (S : s_stopping a = true) by (psimpl; congruence);
    let Bd := fresh "Bd" in assert (Bd : (Bs k a <= f)%nat)
      by (cbn [Bs]; unfold parked; psimpl; repeat match goal with |- context [match ?x with _ => _ end] => destruct x end; lia);
    let K := fresh "K" in assert (K : okk k) by (split; discriminate);
    let X := fresh "X" in pose proof (IH _ _ _ _ _ E S K Bd) as X
  end.
Ltac sub_facts := match goal with
  | E : run f ?k ?a = (?r, ?b, ?o1), S : s_stopping ?a = true, Fo : fuel_ok ?o1 = true |- _ =>
    let I3 := fresh "I3" in pose proof (run_stop _ _ _ _ _ _ E Fo) as I3; cbn beta iota in I3; specialize (I3 S);
    destruct I3 as (I3 & _ & _); pose proof (i_stopping _ _ I3);
    let C := fresh "C" in pose proof (run_clears _ _ _ _ _ _ E Fo S) as C; cbn [clears] in C; clear E
  end.

Lemma a_KCommitAndStop s r s' o : body (run f) KCommitAndStop s = (r, s', o) -> s_stopping s = true -> NF s s' o.
Proof. intros H Hst. cbn [body] in H. mi H; try (exfalso; bprop; discriminate). all: use interrupted_nf; nf_done. Qed.
Lemma a_KShutFinish fk s r s' o : body (run f) (KShutFinish fk) s = (r, s', o) -> s_stopping s = true -> NF s s' o.
Proof. intros H Hst. cbn [body] in H. mi H; try (exfalso; bprop; discriminate). all: use interrupted_nf; nf_done. Qed.
Lemma a_KFireCd d cr s r s' o : body (run f) (KFireCd d cr) s = (r, s', o) -> s_stopping s = true -> (2 <= S f)%nat -> NF s s' o.
Proof.
  intros H Hst Hb. cbn [body] in H. mi H; try sub; use handle_auto_commit_error_nf; use auto_commit_nf; try assumption; nf_done.
Qed.

Lemma NF_step a b c o1 o2 : NF a b o1 -> (PF b -> NF b c o2) -> NF a c (o1 ++ o2).
Proof. intros H1 H2 P. destruct (H1 P) as (x & y). destruct (H2 y y) as (u & v). split; [apply fuel_ok_app2; assumption | exact v]. Qed.

Lemma a_fire_all cr : forall ds s r s' o, fire_all (run f) ds cr s = (r, s', o) -> s_stopping s = true -> (2 <= f)%nat -> NF s s' o.
Proof.
  induction ds as [|d ds IHds]; intros s r s' o H Hst Hb; cbn [fire_all] in H.
  - mi H. nf_done.
  - mi H.
    all: sub; intro Hp; destruct (X Hp) as (Fo & P1); sub_facts.
    all: match goal with E : fire_all _ _ _ _ = _ |- _ => apply IHds in E; [destruct (E P1) as (Fo2 & P2) | congruence | assumption] end.
    all: split; [fo | assumption].
Qed.
Lemma a_KDeliver cr s r s' o : body (run f) (KDeliver cr) s = (r, s', o) -> s_stopping s = true -> (2 <= f)%nat -> NF s s' o.
Proof.
  intros H Hst Hb. cbn [body] in H. mi H.
  match goal with E : fire_all _ _ _ _ = _ |- _ => apply a_fire_all in E; [| psimpl; assumption | assumption] end. nf_done.
Qed.
Lemma a_KStopCds s r s' o : body (run f) KStopCds s = (r, s', o) -> s_stopping s = true -> (length (s_cds s) + 3 <= S f)%nat -> NF s s' o.
Proof.
  intros H Hst Hb. cbn [body] in H. mi H.
  - nf_done.
  - assert (Hl : length (s_cds s) = S (length l)) by (rewrite <- rev_length, D; reflexivity).
    intro Hp.
    match goal with E : run _ (KFireCd _ _) ?a = (?r, ?b, ?o1) |- _ =>
      assert (S1 : s_stopping a = true) by (psimpl; congruence);
      assert (X : NF a b o1) by (apply (IH _ _ _ _ _ E S1); [split; discriminate | cbn [Bs]; lia]);
      destruct (X Hp) as (Fo & P1);
      pose proof (run_stop _ _ _ _ _ _ E Fo) as I3; cbn beta iota in I3; specialize (I3 S1); destruct I3 as (I3 & _ & _);
      pose proof (run_clears _ _ _ _ _ _ E Fo S1) as C; cbn [clears] in C; destruct C as (C & _); clear E
    end.
    match goal with E : run f KStopCds ?a = (?r, ?b, ?o1) |- _ =>
      assert (S2 : s_stopping a = true) by (rewrite (i_stopping _ _ I3); psimpl; congruence);
      assert (X2 : NF a b o1) by (apply (IH _ _ _ _ _ E S2); [split; discriminate | cbn [Bs]; rewrite C; psimpl; rewrite rev_length; lia]);
      destruct (X2 P1) as (Fo2 & P2)
    end.
    split; [fo | assumption].
Qed.

(* a nested call followed along one path: discharge, then keep what is needed of the state it leaves *)
Ltac step1 := sub; match goal with X : NF ?a ?b ?o1, P : PF ?a |- _ =>
  let Fo := fresh "Fo" in let P1 := fresh "P" in destruct (X P) as (Fo & P1); clear X; sub_facts end.

Lemma a_KFetchResp offs ts s r s' o : body (run f) (KFetchResp offs ts) s = (r, s', o) -> s_stopping s = true -> (1 <= f)%nat -> NF s s' o.
Proof.
  intros H Hst Hb. cbn [body] in H. mi H.
  all: repeat match goal with E : startd_errback _ _ = _ |- _ =>
         let Q := fresh "Q" in pose proof (startd_errback_cds _ _ _ _ _ E) as (_ & Q); apply startd_errback_nf in E end.
  all: intro Hp; nf_fwd.
  all: try (assert (P0 : PF s) by exact Hp).
  all: try (match goal with E : run f _ ?a = _ |- _ => assert (Pa : PF a) by (unfold PF in *; psimpl; assumption) end; step1).
  all: use retry_fetch_nf; nf_fwd.
  all: split; [fo | unfold PF; psimpl; fo].
Qed.

Lemma a_KProcLoop msgs s r s' o : body (run f) (KProcLoop msgs) s = (r, s', o) -> s_stopping s = true ->
  ((if parked s then 4 else 1) <= S f)%nat -> NF s s' o.
Proof.
  intros H Hst Hb. cbn [body] in H. unfold finish_block in H. unfold parked in Hb. mi H.
  all: intro Hp.
  all: try (match goal with E : run f _ ?a = _ |- _ => assert (Pa : PF a) by (unfold PF in *; psimpl; assumption) end; step1).
  all: split; [fo | unfold PF in *; psimpl; fo].
Qed.
Lemma a_KFireProc k s r s' o : body (run f) (KFireProc (Some k)) s = (r, s', o) -> s_stopping s = true -> (5 <= S f)%nat -> NF s s' o.
Proof.
  intros H Hst Hb. cbn [body] in H. mi H.
  all: repeat match goal with E : proc_chain _ _ _ = _ |- _ =>
         let Q := fresh "Q" in pose proof (proc_chain_st _ _ _ _ _ _ E) as Q; apply proc_chain_nf in E end.
  all: intro Hp; nf_fwd.
  all: repeat (match goal with E : run f _ ?a = _ |- _ => let Pa := fresh "Pa" in assert (Pa : PF a) by (unfold PF in *; psimpl; assumption) end; step1).
  all: split; [fo | unfold PF in *; psimpl; fo].
Qed.
End RecA.

Theorem stopping_enough : forall fuel k s r s' o,
  run fuel k s = (r, s', o) -> s_stopping s = true -> okk k -> (Bs k s <= fuel)%nat -> NF s s' o.
Proof.
  induction fuel as [|f IH]; intros k s r s' o H Hst (K1 & K2) Hb.
  - exfalso. destruct k; cbn [Bs] in Hb; try lia; try (apply K1; reflexivity). destruct (parked s); lia.
  - cbn [run] in H. destruct k; cbn [Bs] in Hb.
    + exfalso; apply K1; reflexivity.
    + exact (a_KStopCds f IH _ _ _ _ H Hst Hb).
    + destruct fk; [exact (a_KFireProc f IH _ _ _ _ _ H Hst Hb) | exfalso; apply K2; reflexivity].
    + exact (a_KProcLoop f IH _ _ _ _ _ H Hst Hb).
    + exact (a_KFetchResp f IH _ _ _ _ _ _ H Hst ltac:(lia)).
    + exact (a_KCommitAndStop f _ _ _ _ H Hst).
    + exact (a_KShutFinish f _ _ _ _ _ H Hst).
    + exact (a_KFireCd f IH _ _ _ _ _ _ H Hst Hb).
    + exact (a_KDeliver f IH _ _ _ _ _ H Hst ltac:(lia)).
Qed.

(* ---------------- stop() itself, in any state ---------------- *)
Ltac pf_now a := let P := fresh "P" in assert (P : PF a) by (unfold PF in *; psimpl; assumption).
Ltac st_now a := let S := fresh "S" in assert (S : s_stopping a = true) by (psimpl; congruence).
Ltac kleaf E a b Lnf :=
  pf_now a; st_now a;
  let X := fresh "X" in pose proof (Lnf _ _ _ _ E) as X;
  match goal with P : PF a |- _ => let Fo := fresh "Fo" in let P1 := fresh "P" in destruct (X P) as (Fo & P1); clear X end.
Ltac kwalk := repeat match goal with
  | E : stop_req ?a = (_, ?b, _) |- _ =>
    kleaf E a b stop_req_nf; let K := fresh "K" in pose proof (stop_req_keep _ _ _ _ E) as (_ & K);
    apply stop_req_in in E; [|psimpl; congruence]; destruct E as (E & _ & _); pose proof (i_stopping _ _ E)
  | E : stop_mblock ?a = (_, ?b, _) |- _ =>
    kleaf E a b stop_mblock_nf; let K := fresh "K" in pose proof (stop_mblock_keep _ _ _ _ E) as (_ & K);
    apply stop_mblock_in in E; destruct E as (E & _ & _); pose proof (i_stopping _ _ E)
  | E : stop_rcall ?a = (_, ?b, _) |- _ =>
    kleaf E a b stop_rcall_nf; let K := fresh "K" in pose proof (stop_rcall_keep _ _ _ _ E) as K;
    apply stop_rcall_in in E; destruct E as (E & _ & _); pose proof (i_stopping _ _ E)
  | E : stop_ccall ?a = (_, ?b, _) |- _ =>
    kleaf E a b stop_ccall_nf; apply stop_ccall_in in E; destruct E as (E & _ & _); pose proof (i_stopping _ _ E)
  | E : stop_looper ?a = (_, ?b, _) |- _ =>
    kleaf E a b stop_looper_nf; apply stop_looper_in in E; destruct E as (E & _ & _); pose proof (i_stopping _ _ E)
  | E : stop_susp ?a = (_, ?b, _) |- _ =>
    kleaf E a b stop_susp_nf; apply stop_susp_in in E; destruct E as (E & _ & _); pose proof (i_stopping _ _ E)
  | E : run ?f ?k ?a = (?r, ?b, ?o1) |- _ =>
    pf_now a; st_now a;
    let Bd := fresh "Bd" in assert (Bd : (Bs k a <= f)%nat) by (cbn [Bs]; psimpl; try lia; repeat match goal with K : s_cds ?x = _ |- context [s_cds ?x] => rewrite K end; psimpl; lia);
    let X := fresh "X" in
    match goal with P : PF a, S : s_stopping a = true |- _ =>
      pose proof (stopping_enough _ _ _ _ _ _ E S ltac:(split; discriminate) Bd P) as X;
      let Fo := fresh "Fo" in let P1 := fresh "P" in destruct X as (Fo & P1);
      let I3 := fresh "I3" in pose proof (run_stop _ _ _ _ _ _ E Fo) as I3; cbn beta iota in I3; specialize (I3 S);
      destruct I3 as (I3 & _ & _); pose proof (i_stopping _ _ I3);
      let C := fresh "C" in pose proof (run_clears _ _ _ _ _ _ E Fo S) as C; cbn [clears] in C; lazymatch type of C with _ /\ _ => destruct C as (C & _) | _ => clear C end; clear E
    end
  end.

Theorem stop_enough fuel s r s' o :
  run fuel KStop s = (r, s', o) -> (length (s_cds s) + 6 <= fuel)%nat -> NF s s' o.
Proof.
  intros H Hb Hp. destruct fuel as [|f]; [lia|].
  cbn [run] in H. cbn [body] in H. unfold stop_startd, stop_proc, stop_creq, handle_commit_error in H.
  change (is_cancel FK_CANCELLED) with true in H.
  mi H.
  all: try (split; [reflexivity | exact Hp]).
  all: kwalk.
  all: try (split; [solve [fo] | unfold PF in *; psimpl; solve [fo]]).
Qed.

(* ---------------- the number of commit waiters never grows under _stopping, nor through stop() ---------------- *)
Lemma fire_all_cds_same f cr : forall ds s r s' o, fire_all (run f) ds cr s = (r, s', o) -> fuel_ok o = true -> s_stopping s = true ->
  s_cds s' = s_cds s /\ s_stopping s' = true.
Proof.
  induction ds as [|d ds IHds]; intros s r s' o H Hf Hst; cbn [fire_all] in H.
  - mi H. split; [reflexivity | assumption].
  - mi H; fuel_split.
    all: match goal with E : run _ (KFireCd _ _) ?a = (_, ?b, ?o1), Fo : fuel_ok ?o1 = true |- _ =>
           pose proof (run_clears _ _ _ _ _ _ E Fo Hst) as C; cbn [clears] in C; destruct C as (C & _);
           pose proof (run_stop _ _ _ _ _ _ E Fo) as I3; cbn beta iota in I3; specialize (I3 Hst); destruct I3 as (I3 & _ & _);
           pose proof (i_stopping _ _ I3) as Hs end.
    all: match goal with E : fire_all _ _ _ _ = _ |- _ => apply IHds in E; [destruct E as (Q1 & Q2) | assumption | congruence] end.
    all: split; [congruence | assumption].
Qed.

Lemma stopping_cds_le : forall fuel k s r s' o, run fuel k s = (r, s', o) -> fuel_ok o = true -> s_stopping s = true -> okk k ->
  (length (s_cds s') <= length (s_cds s))%nat.
Proof.
  induction fuel as [|f IH]; intros k s r s' o H Hf Hst (K1 & K2).
  - cbn [run] in H. mi H. discriminate Hf.
  - destruct k; try (exfalso; apply K1; reflexivity).
    + (* KStopCds *) cbn [run body] in H. mi H; fuel_split; [lia|].
      assert (Hl : length (s_cds s) = S (length l)) by (rewrite <- rev_length, D; reflexivity).
      match goal with E : run _ (KFireCd _ _) ?a = (_, ?b, ?o1), Fo : fuel_ok ?o1 = true |- _ =>
        assert (S1 : s_stopping a = true) by (psimpl; assumption);
        pose proof (run_clears _ _ _ _ _ _ E Fo S1) as C; cbn [clears] in C; destruct C as (C & _);
        pose proof (run_stop _ _ _ _ _ _ E Fo) as I3; cbn beta iota in I3; specialize (I3 S1); destruct I3 as (I3 & _ & _);
        pose proof (i_stopping _ _ I3) as Hs end.
      match goal with E : run _ KStopCds ?a = _, Fo : fuel_ok _ = true |- _ =>
        apply IH in E; [| exact Fo | congruence | split; discriminate] end.
      rewrite C in *. psimpl. rewrite rev_length in *. lia.
    + destruct fk; [|exfalso; apply K2; reflexivity].
      pose proof (run_clears _ _ _ _ _ _ H Hf Hst) as C; cbn [clears] in C. destruct C as (C & _). rewrite C. lia.
    + pose proof (run_clears _ _ _ _ _ _ H Hf Hst) as C; cbn [clears] in C. rewrite C. lia.
    + pose proof (run_clears _ _ _ _ _ _ H Hf Hst) as C; cbn [clears] in C. rewrite C. lia.
    + pose proof (run_clears _ _ _ _ _ _ H Hf Hst) as C; cbn [clears] in C. destruct C as (_ & C). rewrite C. lia.
    + pose proof (run_clears _ _ _ _ _ _ H Hf Hst) as C; cbn [clears] in C. destruct C as (_ & C). rewrite C. lia.
    + pose proof (run_clears _ _ _ _ _ _ H Hf Hst) as C; cbn [clears] in C. destruct C as (C & _). rewrite C. lia.
    + (* KDeliver *) cbn [run body] in H. mi H.
      match goal with E : fire_all _ _ _ _ = _ |- _ => apply fire_all_cds_same in E; [destruct E as (E & _); rewrite E | assumption | psimpl; assumption] end.
      psimpl. cbn. lia.
Qed.

Lemma stop_req_mb s r s' o : stop_req s = (r, s', o) -> s_mblock s' = s_mblock s.
Proof. intro H. unfold stop_req, handle_fetch_error, handle_offset_error, retry_fetch, startd_errback in H. mi H; reflexivity. Qed.
Lemma stop_tail_cds s r s' o :
  (stop_ccall s = (r, s', o) \/ stop_looper s = (r, s', o) \/ stop_susp s = (r, s', o)) -> s_cds s' = s_cds s.
Proof. intros [H|[H|H]]; [unfold stop_ccall in H | unfold stop_looper in H | unfold stop_susp in H]; mi H; reflexivity. Qed.

Ltac gwalk := repeat match goal with
  | E : stop_req ?a = (_, ?b, _) |- _ =>
    let S := fresh "S" in assert (S : s_stopping a = true) by (psimpl; congruence);
    let K := fresh "K" in pose proof (stop_req_keep _ _ _ _ E) as (_ & K);
    let M := fresh "M" in pose proof (stop_req_mb _ _ _ _ E) as M;
    apply stop_req_in in E; [|exact S]; destruct E as (E & _ & _); pose proof (i_stopping _ _ E)
  | E : stop_mblock ?a = (_, ?b, _) |- _ =>
    let K := fresh "K" in pose proof (stop_mblock_keep _ _ _ _ E) as (_ & K);
    let Mb := fresh "Mb" in apply stop_mblock_in in E; destruct E as (E & _ & Mb); pose proof (i_stopping _ _ E)
  | E : stop_rcall ?a = (_, ?b, _) |- _ =>
    let K := fresh "K" in pose proof (stop_rcall_keep _ _ _ _ E) as K;
    apply stop_rcall_in in E; destruct E as (E & _ & _); pose proof (i_stopping _ _ E)
  | E : stop_ccall ?a = (_, ?b, _) |- _ =>
    let K := fresh "K" in pose proof (stop_tail_cds _ _ _ _ (or_introl E)) as K;
    apply stop_ccall_in in E; destruct E as (E & _ & _); pose proof (i_stopping _ _ E)
  | E : stop_looper ?a = (_, ?b, _) |- _ =>
    let K := fresh "K" in pose proof (stop_tail_cds _ _ _ _ (or_intror (or_introl E))) as K;
    apply stop_looper_in in E; destruct E as (E & _ & _); pose proof (i_stopping _ _ E)
  | E : stop_susp ?a = (_, ?b, _) |- _ =>
    let K := fresh "K" in pose proof (stop_tail_cds _ _ _ _ (or_intror (or_intror E))) as K;
    apply stop_susp_in in E; destruct E as (E & _ & _); pose proof (i_stopping _ _ E)
  | E : run ?f ?k ?a = (?r, ?b, ?o1), Fo : fuel_ok ?o1 = true |- _ =>
    let S := fresh "S" in assert (S : s_stopping a = true) by (psimpl; congruence);
    let L := fresh "L" in pose proof (stopping_cds_le _ _ _ _ _ _ E Fo S ltac:(split; discriminate)) as L;
    let I3 := fresh "I3" in pose proof (run_stop _ _ _ _ _ _ E Fo) as I3; cbn beta iota in I3; specialize (I3 S);
    destruct I3 as (I3 & _ & _); pose proof (i_stopping _ _ I3); clear E
  end.

(* stop() in any state: the commit waiters do not grow, the block in progress is kept or cleared *)
Theorem stop_growth fuel s r s' o : run fuel KStop s = (r, s', o) -> fuel_ok o = true ->
  (length (s_cds s') <= length (s_cds s))%nat /\ (s_mblock s' = s_mblock s \/ s_mblock s' = None).
Proof.
  intros H Hf. destruct fuel as [|f]; [cbn [run] in H; mi H; discriminate Hf|].
  cbn [run] in H. cbn [body] in H. unfold stop_startd, stop_proc, stop_creq, handle_commit_error in H.
  change (is_cancel FK_CANCELLED) with true in H.
  mi H; fuel_split; gwalk.
  all: try (split; [lia | left; reflexivity]).
  all: split.
  all: try (psimpl; repeat match goal with K : s_cds ?x = s_cds _ |- _ => rewrite K in * end; psimpl; lia).
  all: psimpl.
  all: first [ right; match goal with Mb : s_mblock ?b = None |- s_mblock ?x = None =>
                 first [ exact Mb | apply (i_mblock b x); [in3_chain | exact Mb] ] end
             | left; psimpl; congruence ].
Qed.
