(* Orders used by the assignment model: Python's str and tuple orderings are total, transitive and
   antisymmetric, hence sorting is a function of the multiset (sorted permutations are unique). *)
From AV Require Import Base.Util Proofs.UtilFacts Model.Assign.
From Coq Require Import Lia Sorting.Sorted Sorting.Permutation RelationClasses.

Lemma str_eqb_eq a b : str_eqb a b = true <-> a = b.
Proof. apply zlist_eqb_eq. Qed.
Lemma str_eqb_refl a : str_eqb a a = true.
Proof. apply zlist_eqb_refl. Qed.
Lemma str_eqb_neq a b : str_eqb a b = false <-> a <> b.
Proof. apply zlist_eqb_neq. Qed.
Lemma str_eqb_sym a b : str_eqb a b = str_eqb b a.
Proof.
  destruct (str_eqb a b) eqn:E; symmetry.
  - apply str_eqb_eq in E. subst. apply str_eqb_refl.
  - apply str_eqb_neq. apply str_eqb_neq in E. congruence.
Qed.
Lemma str_eq_dec (a b : str) : {a = b} + {a <> b}.
Proof. destruct (str_eqb a b) eqn:E; [left; now apply str_eqb_eq | right; now apply str_eqb_neq]. Qed.

Lemma str_leb_refl a : str_leb a a = true.
Proof. induction a as [|x a IH]; cbn; [reflexivity|]. rewrite Z.ltb_irrefl. exact IH. Qed.

Lemma str_leb_trans a b c : str_leb a b = true -> str_leb b c = true -> str_leb a c = true.
Proof.
  revert b c. induction a as [|x a IH]; intros [|y b] [|z c]; cbn [str_leb]; intros H1 H2;
    try reflexivity; try discriminate.
  destruct (Z.ltb_spec x y), (Z.ltb_spec y x), (Z.ltb_spec y z), (Z.ltb_spec z y),
           (Z.ltb_spec x z), (Z.ltb_spec z x); try reflexivity; try discriminate; try lia.
  eapply IH; eassumption.
Qed.

Lemma str_leb_antisym a b : str_leb a b = true -> str_leb b a = true -> a = b.
Proof.
  revert b. induction a as [|x a IH]; intros [|y b]; cbn [str_leb]; intros H1 H2;
    try reflexivity; try discriminate.
  destruct (Z.ltb_spec x y), (Z.ltb_spec y x); try discriminate; try lia.
  assert (x = y) by lia. subst. f_equal. apply IH; assumption.
Qed.

Lemma str_leb_total a b : str_leb a b = true \/ str_leb b a = true.
Proof. apply StrOrder.leb_total. Qed.

Lemma tp_leb_spec t1 p1 t2 p2 :
  tp_leb (t1, p1) (t2, p2) = true <-> (str_leb t1 t2 = true /\ (str_leb t2 t1 = true -> p1 <= p2)).
Proof.
  unfold tp_leb. cbn [fst snd]. destruct (str_leb t1 t2); destruct (str_leb t2 t1); split; intro H;
    try discriminate; try (destruct H; discriminate).
  - split; [reflexivity|]. intros _. now apply Z.leb_le.
  - apply Z.leb_le. now apply H.
  - split; [reflexivity|]. discriminate.
  - reflexivity.
Qed.

Lemma tp_leb_trans x y z : tp_leb x y = true -> tp_leb y z = true -> tp_leb x z = true.
Proof.
  destruct x as [t1 p1], y as [t2 p2], z as [t3 p3]. rewrite !tp_leb_spec.
  intros [A1 B1] [A2 B2]. split; [eapply str_leb_trans; eassumption|].
  intros A3. assert (str_leb t2 t1 = true) by (eapply str_leb_trans; eassumption).
  assert (str_leb t3 t2 = true) by (eapply str_leb_trans; eassumption). specialize (B1 H). specialize (B2 H0). lia.
Qed.

Lemma tp_leb_antisym x y : tp_leb x y = true -> tp_leb y x = true -> x = y.
Proof.
  destruct x as [t1 p1], y as [t2 p2]. rewrite !tp_leb_spec. intros [A1 B1] [A2 B2].
  assert (t1 = t2) by (apply str_leb_antisym; assumption). subst.
  specialize (B1 A2). specialize (B2 A1). f_equal. lia.
Qed.

(* ---- sorted permutations are unique ---- *)
Section Unique.
  Context {A : Type} (leb : A -> A -> bool).
  Hypothesis antisym : forall a b, leb a b = true -> leb b a = true -> a = b.

  Lemma sorted_perm_unique l l' :
    StronglySorted (fun a b => is_true (leb a b)) l -> StronglySorted (fun a b => is_true (leb a b)) l' ->
    Permutation l l' -> l = l'.
  Proof.
    revert l'. induction l as [|a l IH]; intros l' S1 S2 P.
    - apply Permutation_nil in P. now subst.
    - destruct l' as [|b l']; [apply Permutation_sym in P; apply Permutation_nil in P; discriminate|].
      inversion S1 as [|? ? S1' F1]; subst. inversion S2 as [|? ? S2' F2]; subst.
      assert (a = b).
      { assert (Ia : In a (b :: l')) by (eapply Permutation_in; [exact P | now left]).
        assert (Ib : In b (a :: l)) by (eapply Permutation_in; [apply Permutation_sym; exact P | now left]).
        destruct Ia as [->|Ia]; [reflexivity|]. destruct Ib as [->|Ib]; [reflexivity|].
        rewrite Forall_forall in F1, F2. apply antisym; [apply F1 | apply F2]; assumption. }
      subst. f_equal. apply IH; try assumption. eapply Permutation_cons_inv. exact P.
  Qed.
End Unique.

Lemma str_sort_sorted l : StronglySorted (fun a b => is_true (str_leb a b)) (str_sort l).
Proof. apply StrSort.StronglySorted_sort. intros a b c. apply str_leb_trans. Qed.
Lemma str_sort_perm l : Permutation l (str_sort l).
Proof. apply StrSort.Permuted_sort. Qed.
Lemma tp_sort_sorted l : StronglySorted (fun a b => is_true (tp_leb a b)) (tp_sort l).
Proof. apply TPSort.StronglySorted_sort. intros a b c. apply tp_leb_trans. Qed.
Lemma tp_sort_perm l : Permutation l (tp_sort l).
Proof. apply TPSort.Permuted_sort. Qed.

(* sorting is a function of the multiset: the listing order cannot matter *)
Lemma str_sort_perm_eq l l' : Permutation l l' -> str_sort l = str_sort l'.
Proof.
  intro P. apply (sorted_perm_unique str_leb str_leb_antisym); try apply str_sort_sorted.
  eapply Permutation_trans; [apply Permutation_sym, str_sort_perm|].
  eapply Permutation_trans; [exact P | apply str_sort_perm].
Qed.
Lemma tp_sort_perm_eq l l' : Permutation l l' -> tp_sort l = tp_sort l'.
Proof.
  intro P. apply (sorted_perm_unique tp_leb tp_leb_antisym); try apply tp_sort_sorted.
  eapply Permutation_trans; [apply Permutation_sym, tp_sort_perm|].
  eapply Permutation_trans; [exact P | apply tp_sort_perm].
Qed.

Lemma str_sort_in l x : In x (str_sort l) <-> In x l.
Proof. split; apply Permutation_in; [apply Permutation_sym|]; apply str_sort_perm. Qed.
Lemma str_sort_in1 l x : In x (str_sort l) -> In x l.
Proof. apply str_sort_in. Qed.
Lemma str_sort_in2 l x : In x l -> In x (str_sort l).
Proof. apply str_sort_in. Qed.
Lemma str_sort_nodup l : NoDup l -> NoDup (str_sort l).
Proof. intro H. eapply Permutation_NoDup; [apply str_sort_perm | exact H]. Qed.
Lemma str_sort_length l : length (str_sort l) = length l.
Proof. symmetry. apply Permutation_length. apply str_sort_perm. Qed.
