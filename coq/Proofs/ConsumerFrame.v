(* Frame facts about the re-entrant interpreter [run] of Model/Consumer.v that hold in EVERY state (no invariant
   needed): what a nested execution can do to the fetch-side bookkeeping (outstanding request, retry timer, parked
   reply, back-off index, attempt count) and that it never schedules an indexed (back-off) retry. *)
From Coq Require Import Lia.
From AV Require Import Base.Util Model.Consumer Proofs.ConsumerBase.
Open Scope Z_scope.

(* what any nested execution other than a fetch reply may do *)
Record Fr (s s' : state) : Prop := mkFr {
  fr_req : s_req s' = s_req s \/ s_req s' = None;
  fr_sd : s_startd s = None -> s_startd s' = None;
  fr_parked : parked s' = true -> parked s = true;
  fr_ridx : s_ridx s' = s_ridx s \/ parked s = true /\ s_ridx s' = 0;
  fr_att : s_att s' = s_att s \/ parked s = true /\ 1 <= s_att s' <= 2;
  fr_rcall : rcall_active s' = true -> rcall_active s = true \/ parked s = true;
  fr_cf : s_cf s' = s_cf s;
  fr_looper : s_looper s' = s_looper s \/ s_looper s' = None;
  fr_pend : retry_idxs (s_pend s') = retry_idxs (s_pend s)
}.
(* what handling a fetch reply (KFetchResp) may do *)
Record FrK (s : state) (r : res unit) (s' : state) : Prop := mkFrK {
  fk_req : s_req s' = s_req s \/ s_req s' = None;
  fk_sd : s_startd s = None -> s_startd s' = None;
  fk_parked : parked s' = true -> is_some (s_mblock s) = true /\ r = Ok tt;
  fk_ridx : s_ridx s' = 0;
  fk_att : 1 <= s_att s' <= 2;
  fk_cf : s_cf s' = s_cf s;
  fk_looper : s_looper s' = s_looper s \/ s_looper s' = None;
  fk_pend : retry_idxs (s_pend s') = retry_idxs (s_pend s)
}.

Lemma Fr_refl s : Fr s s.
Proof. constructor; auto. Qed.
Lemma Fr_trans a b c : Fr a b -> Fr b c -> Fr a c.
Proof.
  intros [r1 d1 p1 i1 a1 c1 f1 l1 q1] [r2 d2 p2 i2 a2 c2 f2 l2 q2]. constructor.
  - destruct r2 as [->| ->]; auto.
  - auto.
  - auto.
  - destruct i2 as [->|[? ->]]; auto.
  - destruct a2 as [->|[? ?]]; auto.
  - intro H. destruct (c2 H) as [H1|H1]; auto.
  - congruence.
  - destruct l2 as [->| ->]; auto.
  - congruence.
Qed.

Definition no_idx (o : list output) : Prop := retry_idxs o = [].
Lemma no_idx_app a b : no_idx a -> no_idx b -> no_idx (a ++ b).
Proof. unfold no_idx. rewrite retry_idxs_app. intros -> ->. reflexivity. Qed.
Lemma no_idx_nil : no_idx []. Proof. reflexivity. Qed.

(* an explicit state change satisfies Fr: compute *)
Ltac fr_explicit :=
  constructor; psimpl; unfold parked, rcall_active in *; psimpl; rewrite ?retry_idxs_app; cbn [retry_idxs app];
  try solve [ auto | left; reflexivity | right; reflexivity | intros; congruence | intros; discriminate
            | rewrite app_nil_r; reflexivity ].

Lemma fuel_ok_app_inv a b : fuel_ok (a ++ b) = true -> fuel_ok a = true /\ fuel_ok b = true.
Proof. apply fuel_ok_app. Qed.
Ltac fuel_split := repeat match goal with H : fuel_ok (_ ++ _) = true |- _ => apply fuel_ok_app_inv in H; destruct H end.

(* chain the Fr facts of the calls made along one path with the explicit state changes in between *)
Ltac fr_chain :=
  lazymatch goal with
  | |- Fr ?s ?s' =>
    first [ match goal with
            | H : Fr ?a ?b |- _ =>
              lazymatch s' with context [b] => idtac end;
              apply (Fr_trans s b s'); [ apply (Fr_trans s a b); [ clear H; fr_chain | exact H ] | fr_explicit ]
            end
          | fr_explicit ]
  end.
Ltac no_idx_solve := repeat (first [ assumption | reflexivity | apply no_idx_app ]).
Ltac fr_done := split; [ fr_chain | no_idx_solve ].

(* methods that do not recurse: they touch none of the fetch-side fields except as stated *)
Ltac use L := repeat match goal with E : _ = (_, _, _) |- _ => apply L in E; destruct E as (? & ?) end.

Lemma startd_errback_fr fk s r s' o : startd_errback fk s = (r, s', o) -> Fr s s' /\ no_idx o.
Proof. intro H. unfold startd_errback in H. mi H; fr_done. Qed.
Lemma handle_auto_commit_error_fr fk s r s' o : handle_auto_commit_error fk s = (r, s', o) -> Fr s s' /\ no_idx o.
Proof. intro H. unfold handle_auto_commit_error in H. mi H; use startd_errback_fr; fr_done. Qed.
Lemma handle_processor_error_fr fk s r s' o : handle_processor_error fk s = (r, s', o) -> Fr s s' /\ no_idx o.
Proof. intro H. unfold handle_processor_error in H. mi H; use startd_errback_fr; fr_done. Qed.
Lemma send_commit_request_fr i a s r s' o : send_commit_request i a s = (r, s', o) -> Fr s s' /\ no_idx o.
Proof. intro H. unfold send_commit_request in H. mi H; fr_done. Qed.
Lemma commit_fr w s r s' o : commit w s = (r, s', o) -> Fr s s' /\ no_idx o.
Proof. intro H. unfold commit in H. mi H; use send_commit_request_fr; fr_done. Qed.
Lemma auto_commit_fr bc s r s' o : auto_commit bc s = (r, s', o) -> Fr s s' /\ no_idx o.
Proof.
  intro H. unfold auto_commit in H. mi H; use commit_fr; use handle_auto_commit_error_fr; fr_done.
Qed.
Lemma proc_chain_fr last fk s r s' o : proc_chain last fk s = (r, s', o) -> Fr s s' /\ no_idx o.
Proof.
  intro H. unfold proc_chain in H. mi H; use auto_commit_fr; use handle_processor_error_fr; fr_done.
Qed.
Lemma pop_plan_fr s r s' o : pop_plan s = (r, s', o) -> Fr s s' /\ no_idx o.
Proof. intro H. unfold pop_plan in H. mi H; fr_done. Qed.
Lemma emit_shutd_fr x s r s' o : emit_shutd x s = (r, s', o) -> (forall k i, x <> OSched k i) -> Fr s s' /\ no_idx o.
Proof.
  intros H Hx. assert (Hn : retry_idxs [x] = []) by (destruct x; try reflexivity; exfalso; eapply Hx; reflexivity).
  unfold emit_shutd in H. mi H; split; try exact Hn; try reflexivity.
  all: constructor; psimpl; unfold parked, rcall_active in *; psimpl; rewrite ?retry_idxs_app, ?Hn, ?app_nil_r; auto.
Qed.
Lemma interrupted_fr s r s' o : interrupted s = (r, s', o) -> Fr s s' /\ no_idx o.
Proof.
  intro H. unfold interrupted in H. mi H.
  - apply emit_shutd_fr in E1; [|discriminate]. destruct E1. fr_done.
  - fr_done.
Qed.
(* the blocks of stop() *)
Lemma stop_req_fr s r s' o : stop_req s = (r, s', o) -> s_stopping s = true -> Fr s s' /\ no_idx o.
Proof.
  intros H Hst. unfold stop_req, handle_fetch_error, handle_offset_error in H.
  change (is_oor FK_CANCELLED) with false in H. change (is_cancel FK_CANCELLED) with true in H.
  mi H; psimpl; rewrite ?Hst in *; cbn [andb] in *; try discriminate; fr_done.
Qed.
Lemma stop_mblock_fr s r s' o : stop_mblock s = (r, s', o) -> Fr s s' /\ no_idx o.
Proof. intro H. unfold stop_mblock in H. mi H; fr_done. Qed.
Lemma stop_rcall_fr s r s' o : stop_rcall s = (r, s', o) -> Fr s s' /\ no_idx o.
Proof. intro H. unfold stop_rcall in H. mi H; fr_done. Qed.
Lemma stop_ccall_fr s r s' o : stop_ccall s = (r, s', o) -> Fr s s' /\ no_idx o.
Proof. intro H. unfold stop_ccall in H. mi H; fr_done. Qed.
Lemma stop_looper_fr s r s' o : stop_looper s = (r, s', o) -> Fr s s' /\ no_idx o.
Proof. intro H. unfold stop_looper in H. mi H; fr_done. Qed.
Lemma stop_susp_fr s r s' o : stop_susp s = (r, s', o) -> Fr s s' /\ no_idx o.
Proof. intro H. unfold stop_susp in H. mi H; fr_done. Qed.
Lemma stop_startd_fr s r s' o : stop_startd s = (r, s', o) -> Fr s s' /\ no_idx o.
Proof. intro H. unfold stop_startd in H. mi H; fr_done. Qed.

(* ---------------- the re-entrant part ---------------- *)
Definition PostF (k : kont) (s : state) (r : res unit) (s' : state) (o : list output) : Prop :=
  fuel_ok o = true -> no_idx o /\ match k with KFetchResp _ _ => FrK s r s' | _ => Fr s s' end.

Section Rec.
Variable f : nat.
Hypothesis IH : forall k s r s' o, run f k s = (r, s', o) -> PostF k s r s' o.

Ltac use_ih := repeat match goal with
  | E : run f ?k ?s1 = (?r, ?s2, ?o1), Hf : fuel_ok ?o1 = true |- _ =>
    let P := fresh "P" in pose proof (IH _ _ _ _ _ E Hf) as P; cbn beta iota in P; destruct P as (? & ?); clear E
  end.
Ltac start H := intros H Hf; fuel_split.

Lemma api_stop_fr s r s' o : api_stop (run f) s = (r, s', o) -> fuel_ok o = true -> Fr s s' /\ no_idx o.
Proof. intros H Hf. unfold api_stop in H. mi H; fuel_split; use_ih; fr_done. Qed.
Lemma api_commit_fr s r s' o : api_commit s = (r, s', o) -> Fr s s' /\ no_idx o.
Proof. intro H. unfold api_commit in H. mi H; use commit_fr; fr_done. Qed.
Lemma api_shutdown_fr s r s' o : api_shutdown (run f) s = (r, s', o) -> fuel_ok o = true -> Fr s s' /\ no_idx o.
Proof.
  intros H Hf. unfold api_shutdown in H. mi H; split_state_if; fuel_split; use_ih; try (solve [fr_done]).
  (* the held-back outcomes of this call are emitted, the list found at entry is put back *)
  all: match goal with K : Fr _ ?b |- _ => destruct K as [r2 d2 p2 i2 a2 c2 f2 l2 q2] end; unfold parked, rcall_active in *; psimpl.
  all: split; [ constructor; unfold parked, rcall_active; psimpl; auto
              | unfold no_idx in *; repeat rewrite retry_idxs_app; rewrite ?q2; repeat match goal with N : retry_idxs _ = [] |- _ => rewrite N end; reflexivity ].
Qed.
Lemma handle_commit_error_fr fk i a s r s' o :
  handle_commit_error (run f) fk i a s = (r, s', o) -> fuel_ok o = true -> Fr s s' /\ no_idx o.
Proof.
  intros H Hf. unfold handle_commit_error in H. mi H; fuel_split; use_ih; fr_done.
Qed.
Lemma fire_all_fr cr : forall ds s r s' o, fire_all (run f) ds cr s = (r, s', o) -> fuel_ok o = true -> Fr s s' /\ no_idx o.
Proof.
  induction ds as [|d ds IHds]; intros s r s' o H Hf; cbn [fire_all] in H.
  - mi H. fr_done.
  - mi H; fuel_split; use_ih.
    all: match goal with E : fire_all _ _ _ _ = _ |- _ => apply IHds in E; [destruct E | assumption] end.
    all: fr_done.
Qed.

(* the parked reply is handled now: a fetch reply inside any other execution *)
Lemma finish_block_fr s r s' o : finish_block (run f) s = (r, s', o) -> fuel_ok o = true -> Fr s s' /\ no_idx o.
Proof.
  intros H Hf. unfold finish_block in H. mi H; fuel_split; use_ih; try fr_done.
  (* the parked reply *)
  all: match goal with K : FrK _ _ _ |- _ => destruct K as [r2 d2 p2 i2 a2 c2 l2 q2] end; psimpl; rewrite ?D; auto.
Qed.

Ltac specs :=
  use startd_errback_fr; use handle_auto_commit_error_fr; use handle_processor_error_fr; use send_commit_request_fr;
  use commit_fr; use auto_commit_fr; use proc_chain_fr; use pop_plan_fr; use interrupted_fr; use stop_mblock_fr;
  use stop_rcall_fr; use stop_ccall_fr; use stop_looper_fr; use stop_susp_fr; use stop_startd_fr; use api_commit_fr;
  repeat match goal with
  | E : api_shutdown _ _ = _, Hf : fuel_ok _ = true |- _ => apply api_shutdown_fr in E; [destruct E | exact Hf]
  | E : stop_req _ = _ |- _ => apply stop_req_fr in E; [destruct E | reflexivity]
  | E : emit_shutd _ _ = _ |- _ => apply emit_shutd_fr in E; [destruct E | intros ? ?; try discriminate; match goal with |- context [match ?x with _ => _ end] => destruct x end; discriminate]
  | E : api_stop _ _ = _, Hf : fuel_ok _ = true |- _ => apply api_stop_fr in E; [destruct E | exact Hf]
  | E : handle_commit_error _ _ _ _ _ = _, Hf : fuel_ok _ = true |- _ => apply handle_commit_error_fr in E; [destruct E | exact Hf]
  | E : fire_all _ _ _ _ = _, Hf : fuel_ok _ = true |- _ => apply fire_all_fr in E; [destruct E | exact Hf]
  | E : finish_block _ _ = _, Hf : fuel_ok _ = true |- _ => apply finish_block_fr in E; [destruct E | exact Hf]
  end.

Lemma stop_proc_fr s r s' o : stop_proc (run f) s = (r, s', o) -> fuel_ok o = true -> Fr s s' /\ no_idx o.
Proof. intros H Hf. unfold stop_proc in H. mi H; fuel_split; use_ih; fr_done. Qed.
Lemma stop_creq_fr s r s' o : stop_creq (run f) s = (r, s', o) -> fuel_ok o = true -> Fr s s' /\ no_idx o.
Proof. intros H Hf. unfold stop_creq in H. mi H; fuel_split; specs; fr_done. Qed.

Lemma body_KStop_fr s r s' o : body (run f) KStop s = (r, s', o) -> fuel_ok o = true -> Fr s s' /\ no_idx o.
Proof.
  intros H Hf. cbn [body] in H. mi H; fuel_split; use_ih; specs.
  all: repeat match goal with
       | E : stop_proc _ _ = _, Hf : fuel_ok _ = true |- _ => apply stop_proc_fr in E; [destruct E | exact Hf]
       | E : stop_creq _ _ = _, Hf : fuel_ok _ = true |- _ => apply stop_creq_fr in E; [destruct E | exact Hf]
       end.
  all: fr_done.
Qed.

Lemma body_KStopCds_fr s r s' o : body (run f) KStopCds s = (r, s', o) -> fuel_ok o = true -> Fr s s' /\ no_idx o.
Proof. intros H Hf. cbn [body] in H. mi H; fuel_split; use_ih; specs; fr_done. Qed.
Lemma body_KFireProc_fr fk s r s' o : body (run f) (KFireProc fk) s = (r, s', o) -> fuel_ok o = true -> Fr s s' /\ no_idx o.
Proof. intros H Hf. cbn [body] in H. mi H; fuel_split; use_ih; specs; fr_done. Qed.
Lemma body_KCommitAndStop_fr s r s' o : body (run f) KCommitAndStop s = (r, s', o) -> fuel_ok o = true -> Fr s s' /\ no_idx o.
Proof. intros H Hf. cbn [body] in H. mi H; fuel_split; use_ih; specs; fr_done. Qed.
Lemma body_KShutFinish_fr fk s r s' o : body (run f) (KShutFinish fk) s = (r, s', o) -> fuel_ok o = true -> Fr s s' /\ no_idx o.
Proof. intros H Hf. cbn [body] in H. mi H; fuel_split; use_ih; specs; fr_done. Qed.
Lemma body_KFireCd_fr d cr s r s' o : body (run f) (KFireCd d cr) s = (r, s', o) -> fuel_ok o = true -> Fr s s' /\ no_idx o.
Proof. intros H Hf. cbn [body] in H. mi H; fuel_split; use_ih; specs; fr_done. Qed.
Lemma body_KDeliver_fr cr s r s' o : body (run f) (KDeliver cr) s = (r, s', o) -> fuel_ok o = true -> Fr s s' /\ no_idx o.
Proof. intros H Hf. cbn [body] in H. mi H; fuel_split; use_ih; specs; fr_done. Qed.
Lemma body_KProcLoop_fr msgs s r s' o : body (run f) (KProcLoop msgs) s = (r, s', o) -> fuel_ok o = true -> Fr s s' /\ no_idx o.
Proof. intros H Hf. cbn [body] in H. mi H; fuel_split; use_ih; specs; fr_done. Qed.

Lemma FrK_nonpark s r Y : s_mblock s = None -> Fr (set_req None (set_att 1 (set_ridx 0 s))) Y -> FrK s r Y.
Proof.
  intros Hm [r2 d2 p2 i2 a2 c2 f2 l2 q2]. unfold parked in *. psimpl. rewrite Hm in *.
  constructor.
  - right. destruct r2 as [->| ->]; reflexivity.
  - exact d2.
  - intro H. apply p2 in H. discriminate.
  - destruct i2 as [->|[? _]]; [reflexivity | discriminate].
  - destruct a2 as [->|[? _]]; [lia | discriminate].
  - exact f2.
  - exact l2.
  - exact q2.
Qed.
Lemma FrK_nonpark_retry s r Y : s_mblock s = None -> Fr (set_req None (set_att 1 (set_ridx 0 s))) Y ->
  FrK s r (set_rcall (Some 0) (set_att (s_att Y + 1) Y)).
Proof.
  intros Hm F. destruct (FrK_nonpark s r Y Hm F) as [r2 d2 p2 i2 a2 f2 l2 q2].
  destruct F as [_ _ _ _ a3 _ _ _ _]. unfold parked in *. psimpl. rewrite Hm in *.
  constructor; psimpl; auto.
  - unfold parked. psimpl. rewrite Hm. exact p2.
  - destruct a3 as [->|[? _]]; [lia | discriminate].
Qed.

Lemma body_KFetchResp_fr offs ts s r s' o :
  body (run f) (KFetchResp offs ts) s = (r, s', o) -> fuel_ok o = true -> FrK s r s' /\ no_idx o.
Proof.
  intros H Hf. cbn [body] in H. unfold retry_fetch in H. mi H; fuel_split; use_ih; specs.
  all: split; [|no_idx_solve].
  (* a block is in progress: the reply is parked *)
  1: { constructor; unfold parked; psimpl; rewrite ?D; auto; lia. }
  all: lazymatch goal with
       | |- FrK ?s _ (set_rcall (Some 0) (set_att (s_att ?Y + 1) ?Y)) =>
         apply FrK_nonpark_retry; [assumption | fr_chain]
       | |- FrK ?s _ ?Y => apply FrK_nonpark; [assumption | fr_chain]
       end.
Qed.
End Rec.

(* ---------------- every nested execution, for every fuel ---------------- *)
Theorem run_frame fuel k s r s' o : run fuel k s = (r, s', o) -> PostF k s r s' o.
Proof.
  intro H. refine (run_ind (fun _ _ => True) PostF _ _ fuel k s r s' o I H); clear.
  - intros k s _ Hf. discriminate Hf.
  - intros f IH k s r s' o _ H Hf.
    assert (IH' : forall k s r s' o, run f k s = (r, s', o) -> PostF k s r s' o) by (intros; eapply IH; eauto).
    destruct k.
    + destruct (body_KStop_fr f IH' _ _ _ _ H Hf); auto.
    + destruct (body_KStopCds_fr f IH' _ _ _ _ H Hf); auto.
    + destruct (body_KFireProc_fr f IH' _ _ _ _ _ H Hf); auto.
    + destruct (body_KProcLoop_fr f IH' _ _ _ _ _ H Hf); auto.
    + destruct (body_KFetchResp_fr f IH' _ _ _ _ _ _ H Hf); auto.
    + destruct (body_KCommitAndStop_fr f IH' _ _ _ _ H Hf); auto.
    + destruct (body_KShutFinish_fr f IH' _ _ _ _ _ H Hf); auto.
    + destruct (body_KFireCd_fr f IH' _ _ _ _ _ _ H Hf); auto.
    + destruct (body_KDeliver_fr f IH' _ _ _ _ _ H Hf); auto.
Qed.
