(* Generic proof that a function translated from Python by harness/py2coq.py equals the hand-written
   model Model.Murmur.pure_murmur2.  Nothing here mentions the generated text: the tactic [gen_eq_tac]
   is run against whatever Model/MurmurGen.v (snapshot) or coq/Run/out/gen/<id>/MurmurGenRun.v (this
   run's translation) contains.  Method:
     1. data = pre ++ tail with |pre| = 4q, |tail| < 4;
     2. the generated loop is a fold_left over py_range; its body, on the j-th 4-byte block of pre, is
        shown equal to Murmur.mix_block for EVERY accumulator value (lemma blocks_loop);
     3. the tail: case split on |tail|, index arithmetic by lia, branch conditions by lia;
     4. the remaining goals are equalities between 32-bit expressions with masks in different places:
        [solve32] proves both sides are in [0, 2^32) ([fits_tac], a syntactic bit-width analysis) and
        congruent modulo 2^32 ([strip] removes every mask that sits in a position where only the value
        modulo 2^32 matters, and turns every right shift of a provably 32-bit value into Murmur.ushr),
        then compares the stripped terms up to commutativity of +, *, xor.
   No vm_compute on symbolic terms; fails (never loops) on code outside this shape. *)
From AV Require Import Base.Util Model.Murmur Model.MurmurPy.
From Coq Require Import Lia ZifyNat ZifyBool Ring.
Ltac Zify.zify_post_hook ::= Z.to_euclidean_division_equations.

Local Notation N32 := 4294967296 (only parsing).
Local Notation MASK := 4294967295 (only parsing).

(* ------------------------------------------------------------------ congruence modulo 2^32 *)
Definition cg (a b : Z) : Prop := a mod N32 = b mod N32.

Lemma cg_refl a : cg a a. Proof. reflexivity. Qed.
Lemma cg_of_eq a b : a = b -> cg a b. Proof. intros ->. reflexivity. Qed.
Lemma cg_mod a a' : cg a a' -> cg (a mod N32) a'.
Proof. unfold cg. intro H. rewrite Z.mod_mod by lia. exact H. Qed.
Lemma mask_is_mod a : Z.land a MASK = a mod N32.
Proof. change MASK with (Z.ones 32). rewrite Z.land_ones by lia. reflexivity. Qed.
Lemma cg_landM a a' : cg a a' -> cg (Z.land a MASK) a'.
Proof. rewrite mask_is_mod. apply cg_mod. Qed.
Lemma cg_landM_l a a' : cg a a' -> cg (Z.land MASK a) a'.
Proof. rewrite Z.land_comm. apply cg_landM. Qed.
Lemma cg_add a a' b b' : cg a a' -> cg b b' -> cg (a + b) (a' + b').
Proof. unfold cg. intros H1 H2. rewrite (Z.add_mod a), (Z.add_mod a') by lia. rewrite H1, H2. reflexivity. Qed.
Lemma cg_mul a a' b b' : cg a a' -> cg b b' -> cg (a * b) (a' * b').
Proof. unfold cg. intros H1 H2. rewrite (Z.mul_mod a), (Z.mul_mod a') by lia. rewrite H1, H2. reflexivity. Qed.
Lemma cg_opp a a' : cg a a' -> cg (- a) (- a').
Proof. intro H. replace (- a) with ((-1) * a) by lia. replace (- a') with ((-1) * a') by lia.
  apply cg_mul; [apply cg_refl | exact H]. Qed.
Lemma cg_sub a a' b b' : cg a a' -> cg b b' -> cg (a - b) (a' - b').
Proof. intros H1 H2. unfold Z.sub. apply cg_add; [exact H1 | apply cg_opp; exact H2]. Qed.

Lemma land_bitop_distr (f : bool -> bool -> bool) (op : Z -> Z -> Z) :
  (forall a b n, 0 <= n -> Z.testbit (op a b) n = f (Z.testbit a n) (Z.testbit b n)) -> f false false = false ->
  forall a b c, Z.land (op a b) c = op (Z.land a c) (Z.land b c).
Proof.
  intros Hop Hf a b c. apply Z.bits_inj'. intros n Hn. rewrite Z.land_spec, !Hop, !Z.land_spec by exact Hn.
  destruct (Z.testbit a n), (Z.testbit b n), (Z.testbit c n); try reflexivity; cbn; rewrite ?Hf; try reflexivity;
    destruct (f true true), (f true false), (f false true); reflexivity.
Qed.

Lemma cg_bitop (f : bool -> bool -> bool) (op : Z -> Z -> Z) :
  (forall a b n, 0 <= n -> Z.testbit (op a b) n = f (Z.testbit a n) (Z.testbit b n)) -> f false false = false ->
  forall a a' b b', cg a a' -> cg b b' -> cg (op a b) (op a' b').
Proof.
  intros Hop Hf a a' b b'. unfold cg. rewrite <- !mask_is_mod. intros H1 H2.
  rewrite !(land_bitop_distr f op Hop Hf). rewrite H1, H2. reflexivity.
Qed.
Lemma cg_lxor a a' b b' : cg a a' -> cg b b' -> cg (Z.lxor a b) (Z.lxor a' b').
Proof. apply (cg_bitop xorb); [intros; apply Z.lxor_spec | reflexivity]. Qed.
Lemma cg_lor a a' b b' : cg a a' -> cg b b' -> cg (Z.lor a b) (Z.lor a' b').
Proof. apply (cg_bitop orb); [intros; apply Z.lor_spec | reflexivity]. Qed.
Lemma cg_land a a' b b' : cg a a' -> cg b b' -> cg (Z.land a b) (Z.land a' b').
Proof. apply (cg_bitop andb); [intros; apply Z.land_spec | reflexivity]. Qed.
Lemma cg_shiftl a a' k : 0 <= k -> cg a a' -> cg (Z.shiftl a k) (Z.shiftl a' k).
Proof. intros Hk H. rewrite !Z.shiftl_mul_pow2 by exact Hk. apply cg_mul; [exact H | apply cg_refl]. Qed.
Lemma cg_close a a' b b' : cg a a' -> cg b b' -> a' = b' -> cg a b.
Proof. unfold cg. intros H1 H2 E. rewrite H1, H2, E. reflexivity. Qed.

(* ------------------------------------------------------------------ bit widths *)
Definition fits (w e : Z) : Prop := 0 <= e < 2 ^ w.

Lemma fits_mono w w' e : 0 <= w <= w' -> fits w e -> fits w' e.
Proof. unfold fits. intros Hw [H0 H1]. split; [exact H0|]. apply Z.lt_le_trans with (2 ^ w); [exact H1|].
  apply Z.pow_le_mono_r; lia. Qed.
Lemma fits_land_ones j w x c : c = Z.ones j -> 0 <= j <= w -> fits w (Z.land x c).
Proof. intros -> Hj. apply (fits_mono j w); [exact Hj|]. unfold fits. rewrite Z.land_ones by lia.
  apply Z.mod_pos_bound. apply Z.pow_pos_nonneg; lia. Qed.
Lemma fits_land_ones_l j w x c : c = Z.ones j -> 0 <= j <= w -> fits w (Z.land c x).
Proof. rewrite Z.land_comm. apply fits_land_ones. Qed.
Lemma fits_modN w x : 32 <= w -> fits w (x mod N32).
Proof. intro Hw. apply (fits_mono 32 w); [lia|]. unfold fits. change (2 ^ 32) with N32. apply Z.mod_pos_bound. lia. Qed.

Lemma fits_testbit w e : 0 <= w -> fits w e -> forall n, w <= n -> Z.testbit e n = false.
Proof.
  intros Hw [H0 H1] n Hn. destruct (Z.eq_dec e 0) as [->|Hne]; [apply Z.bits_0|].
  apply Z.bits_above_log2; [exact H0|]. apply Z.lt_le_trans with w; [|exact Hn]. apply Z.log2_lt_pow2; lia.
Qed.
Lemma testbit_fits w e : 0 <= w -> 0 <= e -> (forall n, w <= n -> Z.testbit e n = false) -> fits w e.
Proof.
  intros Hw H0 H. split; [exact H0|]. destruct (Z.eq_dec e 0) as [->|Hne]; [apply Z.pow_pos_nonneg; lia|].
  apply Z.log2_lt_pow2; [lia|]. destruct (Z.lt_ge_cases (Z.log2 e) w) as [Hl|Hl]; [exact Hl|].
  pose proof (Z.bit_log2 e ltac:(lia)) as B. rewrite (H _ Hl) in B. discriminate.
Qed.
Lemma fits_bitop (f : bool -> bool -> bool) (op : Z -> Z -> Z) :
  (forall a b n, 0 <= n -> Z.testbit (op a b) n = f (Z.testbit a n) (Z.testbit b n)) -> f false false = false ->
  (forall a b, 0 <= a -> 0 <= b -> 0 <= op a b) ->
  forall w a b, 0 <= w -> fits w a -> fits w b -> fits w (op a b).
Proof.
  intros Hop Hf Hpos w a b Hw Ha Hb. apply testbit_fits; [exact Hw | apply Hpos; [apply Ha | apply Hb] |].
  intros n Hn. rewrite Hop by lia. rewrite (fits_testbit w a Hw Ha n Hn), (fits_testbit w b Hw Hb n Hn). exact Hf.
Qed.
Lemma fits_lxor w a b : 0 <= w -> fits w a -> fits w b -> fits w (Z.lxor a b).
Proof. apply (fits_bitop xorb); [intros; apply Z.lxor_spec | reflexivity | intros; apply Z.lxor_nonneg; lia]. Qed.
Lemma fits_lor w a b : 0 <= w -> fits w a -> fits w b -> fits w (Z.lor a b).
Proof. apply (fits_bitop orb); [intros; apply Z.lor_spec | reflexivity | intros; apply Z.lor_nonneg; lia]. Qed.
Lemma fits_land_l w a b : 0 <= w -> fits w a -> fits w (Z.land a b).
Proof.
  intros Hw Ha. apply testbit_fits; [exact Hw | apply Z.land_nonneg; left; apply Ha |].
  intros n Hn. rewrite Z.land_spec, (fits_testbit w a Hw Ha n Hn). reflexivity.
Qed.
Lemma fits_land_r w a b : 0 <= w -> fits w b -> fits w (Z.land a b).
Proof. rewrite Z.land_comm. apply fits_land_l. Qed.
Lemma fits_shiftr w a k : 0 <= k -> fits w a -> fits w (Z.shiftr a k).
Proof.
  unfold fits. intros Hk [H0 H1]. rewrite Z.shiftr_div_pow2 by exact Hk.
  assert (0 < 2 ^ k) by (apply Z.pow_pos_nonneg; lia). split; [apply Z.div_pos; lia|].
  apply Z.le_lt_trans with a; [|exact H1]. apply Z.div_le_upper_bound; [lia|]. nia.
Qed.
Lemma fits_shiftl w w' a k : 0 <= k -> 0 <= w' -> w' + k <= w -> fits w' a -> fits w (Z.shiftl a k).
Proof.
  intros Hk Hw' Hle Ha. apply (fits_mono (w' + k) w); [lia|]. unfold fits in *.
  rewrite Z.shiftl_mul_pow2 by exact Hk. rewrite Z.pow_add_r by lia.
  assert (0 < 2 ^ k) by (apply Z.pow_pos_nonneg; lia). nia.
Qed.
Lemma fits_lit w c : (0 <=? c) && (c <? 2 ^ w) = true -> fits w c.
Proof. intro H. apply andb_prop in H. destruct H as [H0 H1]. apply Z.leb_le in H0. apply Z.ltb_lt in H1. split; assumption. Qed.

Lemma eq_of_fits_cg a b : fits 32 a -> fits 32 b -> cg a b -> a = b.
Proof. unfold fits, cg. change (2 ^ 32) with N32. intros Ha Hb H. rewrite <- (Z.mod_small a N32), <- (Z.mod_small b N32) by lia. exact H. Qed.

(* ------------------------------------------------------------------ right shifts *)
Lemma ushr_of_mod a a' k : cg a a' -> Z.shiftr (a mod N32) k = ushr a' k.
Proof. unfold cg, ushr. intros ->. reflexivity. Qed.
Lemma ushr_of_land a a' k : cg a a' -> Z.shiftr (Z.land a MASK) k = ushr a' k.
Proof. rewrite mask_is_mod. apply ushr_of_mod. Qed.
Lemma ushr_of_land_l a a' k : cg a a' -> Z.shiftr (Z.land MASK a) k = ushr a' k.
Proof. rewrite Z.land_comm. apply ushr_of_land. Qed.
Lemma ushr_of_fits a a' k : fits 32 a -> cg a a' -> Z.shiftr a k = ushr a' k.
Proof. intros Ha H. rewrite <- (ushr_of_mod a a' k H). unfold fits in Ha. change (2 ^ 32) with N32 in Ha.
  rewrite Z.mod_small by lia. reflexivity. Qed.

(* ------------------------------------------------------------------ assembling a word with | or ^ instead of + *)
Lemma disjoint_shiftl w a b k : 0 <= w <= k -> fits w a -> Z.land a (Z.shiftl b k) = 0.
Proof.
  intros Hk Ha. apply Z.bits_inj'. intros n Hn. rewrite Z.land_spec, Z.bits_0.
  destruct (Z.lt_ge_cases n k) as [Hlt|Hge].
  - rewrite (Z.shiftl_spec_low b k n Hlt). apply andb_false_r.
  - rewrite (fits_testbit w a ltac:(lia) Ha n ltac:(lia)). reflexivity.
Qed.
Lemma lor_is_add w a b k : 0 <= w <= k -> fits w a -> Z.lor a (Z.shiftl b k) = a + Z.shiftl b k.
Proof. intros Hk Ha. pose proof (disjoint_shiftl w a b k Hk Ha) as D.
  rewrite (Z.add_nocarry_lxor _ _ D). symmetry. apply Z.lxor_lor. exact D. Qed.
Lemma lxor_is_add w a b k : 0 <= w <= k -> fits w a -> Z.lxor a (Z.shiftl b k) = a + Z.shiftl b k.
Proof. intros Hk Ha. symmetry. apply Z.add_nocarry_lxor. apply (disjoint_shiftl w a b k Hk Ha). Qed.
Lemma cg_eq_l x y z : x = y -> cg y z -> cg x z.
Proof. intros ->. exact (fun H => H). Qed.

(* ------------------------------------------------------------------ bytes *)
Lemma land_255_id b : fits 8 b -> Z.land b 255 = b.
Proof. unfold fits. intro H. change 255 with (Z.ones 8). rewrite Z.land_ones by lia. apply Z.mod_small. exact H. Qed.
Lemma is_byte_fits b : is_byte b = true -> fits 8 b.
Proof. unfold is_byte, fits. intro H. apply andb_prop in H. destruct H as [H0 H1].
  apply Z.leb_le in H0. apply Z.ltb_lt in H1. change (2 ^ 8) with 256. lia. Qed.
Lemma bytes_ok_Forall l : bytes_ok l = true -> Forall (fits 8) l.
Proof. unfold bytes_ok. rewrite forallb_forall. intro H. apply Forall_forall. intros x Hx. apply is_byte_fits, H, Hx. Qed.
Lemma Forall_app_l {A} (P : A -> Prop) l1 l2 : Forall P (l1 ++ l2) -> Forall P l1.
Proof. rewrite Forall_app. tauto. Qed.
Lemma Forall_app_r {A} (P : A -> Prop) l1 l2 : Forall P (l1 ++ l2) -> Forall P l2.
Proof. rewrite Forall_app. tauto. Qed.

(* ------------------------------------------------------------------ tactics: widths *)
Ltac is_zlit c :=
  lazymatch c with
  | Z0 => idtac
  | Zpos ?p => is_plit p
  | Zneg ?p => is_plit p
  end
with is_plit p :=
  lazymatch p with
  | xH => idtac
  | xO ?q => is_plit q
  | xI ?q => is_plit q
  end.

Ltac lit_goal := vm_compute; reflexivity.     (* closed boolean/Z facts about literals only *)

Ltac fits_mask w x c lem :=
  is_zlit c; is_zlit w;
  let j := eval vm_compute in (Z.log2 (c + 1)) in
  apply (lem j w x c); [lit_goal | split; [lit_goal' | lit_goal']]
with lit_goal' := (apply Z.leb_le; vm_compute; reflexivity).

Ltac fits_tac :=
  lazymatch goal with
  | H : fits ?w0 ?e |- fits ?w ?e => apply (fits_mono w0 w e); [split; lit_goal' | exact H]
  | |- fits ?w (?x mod 4294967296) => apply fits_modN; lit_goal'
  | |- fits ?w (Z.land ?x ?c) =>
      first [ fits_mask w x c fits_land_ones
            | fits_mask w c x fits_land_ones_l
            | apply fits_land_l; [lit_goal' | fits_tac]
            | apply fits_land_r; [lit_goal' | fits_tac] ]
  | |- fits ?w (Z.lxor ?a ?b) => apply fits_lxor; [lit_goal' | fits_tac | fits_tac]
  | |- fits ?w (Z.lor ?a ?b) => apply fits_lor; [lit_goal' | fits_tac | fits_tac]
  | |- fits ?w (Z.shiftr ?a ?k) => is_zlit k; apply fits_shiftr; [lit_goal' | fits_tac]
  | |- fits ?w (Z.shiftl ?a ?k) =>
      is_zlit k; is_zlit w;
      let w' := eval vm_compute in (w - k) in
      apply (fits_shiftl w w' a k); [lit_goal' | lit_goal' | lit_goal' | fits_tac]
  | |- fits ?w (ushr ?a ?k) => unfold ushr; fits_tac
  | |- fits ?w ?c => is_zlit c; is_zlit w; apply fits_lit; lit_goal
  end.

(* ------------------------------------------------------------------ tactics: stripping masks *)
Ltac nonneg_lit k := constr:(ltac:(is_zlit k; apply Z.leb_le; vm_compute; reflexivity) : 0 <= k).

Ltac strip e :=
  lazymatch e with
  | Z.land ?a 4294967295 => let p := strip a in constr:(cg_landM _ _ p)
  | Z.land 4294967295 ?a => let p := strip a in constr:(cg_landM_l _ _ p)
  | ?a mod 4294967296 => let p := strip a in constr:(cg_mod _ _ p)
  | Z.add ?a ?b => let p := strip a in let q := strip b in constr:(cg_add _ _ _ _ p q)
  | Z.sub ?a ?b => let p := strip a in let q := strip b in constr:(cg_sub _ _ _ _ p q)
  | Z.mul ?a ?b => let p := strip a in let q := strip b in constr:(cg_mul _ _ _ _ p q)
  | Z.opp ?a => let p := strip a in constr:(cg_opp _ _ p)
  | Z.lor ?a (Z.shiftl ?b ?k) =>
      match goal with
      | _ => let f := constr:(ltac:(fits_tac) : fits k a) in let hk := constr:(ltac:(split; lit_goal') : 0 <= k <= k) in
             let p := strip a in let q := strip (Z.shiftl b k) in
             constr:(cg_eq_l _ _ _ (lor_is_add k a b k hk f) (cg_add _ _ _ _ p q))
      | _ => let p := strip a in let q := strip (Z.shiftl b k) in constr:(cg_lor _ _ _ _ p q)
      end
  | Z.lxor ?a (Z.shiftl ?b ?k) =>
      match goal with
      | _ => let f := constr:(ltac:(fits_tac) : fits k a) in let hk := constr:(ltac:(split; lit_goal') : 0 <= k <= k) in
             let p := strip a in let q := strip (Z.shiftl b k) in
             constr:(cg_eq_l _ _ _ (lxor_is_add k a b k hk f) (cg_add _ _ _ _ p q))
      | _ => let p := strip a in let q := strip (Z.shiftl b k) in constr:(cg_lxor _ _ _ _ p q)
      end
  | Z.lxor ?a ?b => let p := strip a in let q := strip b in constr:(cg_lxor _ _ _ _ p q)
  | Z.lor ?a ?b => let p := strip a in let q := strip b in constr:(cg_lor _ _ _ _ p q)
  | Z.land ?a ?b => let p := strip a in let q := strip b in constr:(cg_land _ _ _ _ p q)
  | Z.shiftl ?a ?k => let p := strip a in let hk := nonneg_lit k in constr:(cg_shiftl _ _ k hk p)
  | Z.shiftr (?a mod 4294967296) ?k => let p := strip a in constr:(cg_of_eq _ _ (ushr_of_mod _ _ k p))
  | Z.shiftr (Z.land ?a 4294967295) ?k => let p := strip a in constr:(cg_of_eq _ _ (ushr_of_land _ _ k p))
  | Z.shiftr (Z.land 4294967295 ?a) ?k => let p := strip a in constr:(cg_of_eq _ _ (ushr_of_land_l _ _ k p))
  | Z.shiftr ?a ?k =>
      match goal with
      | _ => let f := constr:(ltac:(fits_tac) : fits 32 a) in
             let p := strip a in constr:(cg_of_eq _ _ (ushr_of_fits _ _ k f p))
      | _ => constr:(cg_refl e)
      end
  | _ => constr:(cg_refl e)
  end.

(* compare stripped terms: syntactic equality, then commutativity of xor / or / and at any depth, then ring *)
Ltac cmp32 :=
  first
    [ reflexivity
    | lazymatch goal with
      | |- Z.lxor _ _ = Z.lxor _ _ => first [ apply f_equal2; cmp32 | rewrite Z.lxor_comm; apply f_equal2; cmp32 ]
      | |- Z.lor _ _ = Z.lor _ _ => first [ apply f_equal2; cmp32 | rewrite Z.lor_comm; apply f_equal2; cmp32 ]
      | |- Z.land _ _ = Z.land _ _ => first [ apply f_equal2; cmp32 | rewrite Z.land_comm; apply f_equal2; cmp32 ]
      | |- ushr _ ?k = ushr _ ?k => apply (f_equal (fun x => ushr x k)); cmp32
      | |- Z.shiftl _ ?k = Z.shiftl _ ?k => apply (f_equal (fun x => Z.shiftl x k)); cmp32
      | |- Z.mul _ _ = Z.mul _ _ => first [ apply f_equal2; cmp32 | rewrite Z.mul_comm; apply f_equal2; cmp32 ]
      | |- Z.add _ _ = Z.add _ _ => first [ apply f_equal2; cmp32 | rewrite Z.add_comm; apply f_equal2; cmp32 ]
      end
    | ring ].

Ltac solve32 :=
  lazymatch goal with
  | |- ?e1 = ?e2 =>
      first
        [ reflexivity
        | apply eq_of_fits_cg;
          [ fits_tac | fits_tac
          | let p := strip e1 in let q := strip e2 in apply (cg_close _ _ _ _ p q); cmp32 ] ]
  end.

(* ------------------------------------------------------------------ lists: blocks and indexes *)
Lemma split4 (data : list Z) : exists (q : nat) (pre tail : list Z),
  data = pre ++ tail /\ length pre = (4 * q)%nat /\ (length tail < 4)%nat.
Proof.
  exists (length data / 4)%nat, (firstn (4 * (length data / 4)) data), (skipn (4 * (length data / 4)) data).
  pose proof (Nat.div_mod (length data) 4 ltac:(lia)) as E.
  pose proof (Nat.mod_upper_bound (length data) 4 ltac:(lia)) as B.
  split; [symmetry; apply firstn_skipn|]. split; [rewrite firstn_length; lia | rewrite skipn_length; lia].
Qed.

Lemma blocks_loop (F : Z -> Z -> Z) (idx : nat -> Z) (tail : list Z) : (length tail < 4)%nat ->
  forall (q : nat) (pre : list Z) (p : nat) (h : Z), length pre = (4 * q)%nat ->
  (forall pre1 b0 b1 b2 b3 rest h' j, pre = pre1 ++ b0 :: b1 :: b2 :: b3 :: rest -> length pre1 = (4 * j)%nat ->
     F h' (idx (p + j)%nat) = mix_block h' b0 b1 b2 b3) ->
  blocks h (pre ++ tail) = blocks (fold_left F (map idx (seq p q)) h) tail.
Proof.
  intro Ht. induction q as [|q IH]; intros pre p h Hl HF.
  - destruct pre; [reflexivity | discriminate].
  - destruct pre as [|b0 [|b1 [|b2 [|b3 pre']]]]; cbn [length] in Hl; try lia.
    cbn [seq map fold_left].
    pose proof (HF [] b0 b1 b2 b3 pre' h 0%nat eq_refl eq_refl) as H0. rewrite Nat.add_0_r in H0. rewrite H0.
    change ((b0 :: b1 :: b2 :: b3 :: pre') ++ tail) with (b0 :: b1 :: b2 :: b3 :: (pre' ++ tail)).
    change (blocks h (b0 :: b1 :: b2 :: b3 :: (pre' ++ tail))) with (blocks (mix_block h b0 b1 b2 b3) (pre' ++ tail)).
    apply IH; [lia|].
    intros pre1 c0 c1 c2 c3 rest h' j Hd Hj.
    replace (S p + j)%nat with (p + S j)%nat by lia.
    apply (HF (b0 :: b1 :: b2 :: b3 :: pre1) c0 c1 c2 c3 rest h' (S j)); [rewrite Hd; reflexivity | cbn [length]; lia].
Qed.

Lemma py_index_app (pre l : list Z) (e : Z) (j : nat) :
  e = Z.of_nat (length pre) + Z.of_nat j -> py_index (pre ++ l) e = nth j l 0.
Proof.
  intros ->. unfold py_index. destruct (Z.ltb_spec (Z.of_nat (length pre) + Z.of_nat j) 0) as [H|H]; [lia|].
  replace (Z.to_nat (Z.of_nat (length pre) + Z.of_nat j)) with (length pre + j)%nat by lia.
  rewrite app_nth2 by lia. f_equal. lia.
Qed.

Lemma py_index_app_neg (pre l : list Z) (e : Z) (j : nat) :
  e < 0 -> Z.of_nat (length (pre ++ l)) + e = Z.of_nat (length pre) + Z.of_nat j -> py_index (pre ++ l) e = nth j l 0.
Proof.
  intros Hneg He. unfold py_index. destruct (Z.ltb_spec e 0) as [_|H]; [|lia]. rewrite He.
  destruct (Z.ltb_spec (Z.of_nat (length pre) + Z.of_nat j) 0) as [H|H]; [lia|].
  replace (Z.to_nat (Z.of_nat (length pre) + Z.of_nat j)) with (length pre + j)%nat by lia.
  rewrite app_nth2 by lia. f_equal. lia.
Qed.

Lemma land_m4 n : 0 <= n -> Z.land n (-4) = 4 * (n / 4).
Proof.
  intro H. change (-4) with (Z.lnot 3). rewrite <- Z.ldiff_land. change 3 with (Z.ones 2).
  rewrite Z.ldiff_ones_r by lia. rewrite Z.shiftl_mul_pow2, Z.shiftr_div_pow2 by lia.
  change (2 ^ 2) with 4. lia.
Qed.

Lemma py_range_pos start stop step : 0 < step ->
  py_range start stop step
  = map (fun j => start + step * Z.of_nat j) (seq 0 (Z.to_nat ((stop - start + step - 1) / step))).
Proof. intro H. unfold py_range. destruct (Z.ltb_spec 0 step); [reflexivity | lia]. Qed.

(* ------------------------------------------------------------------ tactics: indexes, conditions *)
(* rewrite every  py_index (pre ++ l) e  whose index is provably |pre| + j, j = 0..3 *)
Ltac index_norm :=
  rewrite ?land_m4 by lia;
  repeat match goal with
  | |- context [py_index (?pre ++ ?l) ?e] =>
      first [ rewrite (py_index_app pre l e 0) by (cbn [length]; lia)
            | rewrite (py_index_app pre l e 1) by (cbn [length]; lia)
            | rewrite (py_index_app pre l e 2) by (cbn [length]; lia)
            | rewrite (py_index_app pre l e 3) by (cbn [length]; lia)
            | rewrite (py_index_app_neg pre l e 0) by (rewrite ?app_length; cbn [length]; lia)
            | rewrite (py_index_app_neg pre l e 1) by (rewrite ?app_length; cbn [length]; lia)
            | rewrite (py_index_app_neg pre l e 2) by (rewrite ?app_length; cbn [length]; lia)
            | rewrite (py_index_app_neg pre l e 3) by (rewrite ?app_length; cbn [length]; lia) ]
  end;
  cbn [nth].

(* bytes: with  fits 8 b  in the context,  b & 255  is b (on both sides of the goal) *)
Ltac byte_facts :=
  repeat match goal with
  | H : Forall (fits 8) (_ ++ _) |- _ =>
      let H1 := fresh "Hb" in let H2 := fresh "Hb" in
      pose proof (Forall_app_l _ _ _ H) as H1; pose proof (Forall_app_r _ _ _ H) as H2; clear H
  | H : Forall (fits 8) (_ :: _) |- _ => inversion H; subst; clear H
  | H : Forall (fits 8) [] |- _ => clear H
  end.
Ltac byte_masks :=
  repeat match goal with
  | H : fits 8 ?b |- context [Z.land ?b 255] => rewrite (land_255_id b H)
  end.

Ltac decide_ifs :=
  repeat match goal with
  | |- context [if ?c then _ else _] =>
      let E := fresh "E" in destruct c eqn:E; try (exfalso; lia)
  end.

Ltac model_unfold := cbv beta iota zeta delta [blocks mix_block fmix mask32 ushr MM M32 SEED].

(* the body of the generated loop on the j-th block *)
Ltac loop_body_tac :=
  let pre1 := fresh "pre1" in let b0 := fresh "b0" in let b1 := fresh "b1" in let b2 := fresh "b2" in
  let b3 := fresh "b3" in let rest := fresh "rest" in let h := fresh "h" in let j := fresh "j" in
  let Hd := fresh "Hd" in let Hj := fresh "Hj" in
  intros pre1 b0 b1 b2 b3 rest h j Hd Hj; cbv beta; subst;
  byte_facts;
  rewrite <- ?app_assoc; cbn [app];
  rewrite ?app_length in *; cbn [length] in *;
  index_norm; decide_ifs; model_unfold; byte_masks; solve32.

(* an early exit taken only by the empty input: there the loop result is the initial value *)
Ltac empty_case :=
  try match goal with
      | Hq0 : ?q = 0%nat -> ?H1 = _ |- _ => rewrite Hq0 by lia
      end.

Ltac tail_tac :=
  unfold SEED in *; rewrite ?app_length in *; cbn [length] in *;
  byte_facts; index_norm; decide_ifs; empty_case; model_unfold; byte_masks; solve32.

Ltac gen_eq_tac :=
  let data := fresh "data" in let q := fresh "q" in let pre := fresh "pre" in let tail := fresh "tail" in
  let Hpre := fresh "Hpre" in let Htail := fresh "Htail" in
  let Hb := fresh "Hbytes" in
  intros data Hb; apply bytes_ok_Forall in Hb;
  destruct (split4 data) as (q & pre & tail & -> & Hpre & Htail);
  pose proof (Forall_app_l _ _ _ Hb) as Hbpre; pose proof (Forall_app_r _ _ _ Hb) as Hbtail; clear Hb;
  unfold pure_murmur2, pure_murmur2_seed;
  autounfold with gen_defs; cbv beta iota zeta;
  rewrite ?py_range_pos by lia;
  lazymatch goal with
  | |- context [fold_left ?F (map ?idx (seq 0 ?cnt)) ?init] =>
      let h0 := constr:(Z.lxor SEED (Z.of_nat (length (pre ++ tail)))) in
      replace cnt with q by (rewrite ?app_length, ?land_m4 by lia; lia);
      replace init with h0 by (unfold SEED; first [ reflexivity | apply Z.lxor_comm ]);
      let HF := fresh "HF" in
      assert (HF : forall pre1 b0 b1 b2 b3 rest h' j, pre = pre1 ++ b0 :: b1 :: b2 :: b3 :: rest ->
                     length pre1 = (4 * j)%nat -> F h' (idx (0 + j)%nat) = mix_block h' b0 b1 b2 b3)
        by (cbn [Nat.add]; loop_body_tac);
      rewrite (blocks_loop F idx tail Htail q pre 0%nat h0 Hpre HF);
      clear HF;
      let H1 := fresh "H1" in let Hq0 := fresh "Hq0" in
      set (H1 := fold_left F (map idx (seq 0 q)) h0) in *;
      assert (Hq0 : q = 0%nat -> H1 = h0) by (intro; subst q; reflexivity);
      clearbody H1
  end;
  destruct tail as [|t0 [|t1 [|t2 [|t3 tail']]]]; [ | | | | cbn [length] in Htail; lia ];
  tail_tac.
