(* Weakest-precondition calculus for the consumer model's state-and-output monad, relative to a GHOST MONITOR:
   an automaton [gout : G -> output -> option G] that reads the outputs a computation emits (None = the monitor
   rejects).  [wp m Q g s] says: every execution of [m] from model state [s] that does not run out of fuel emits
   outputs the monitor accepts from ghost state [g], and the result / final ghost state / final model state satisfy Q.
   Used by the C02 / C03 simulations (Proofs/ConsumerC02*.v, ConsumerC03*.v). *)
From Coq Require Import Lia.
From AV Require Import Base.Util Model.Consumer Model.ConsumerLog.

(* ---------- inversion of monadic executions (self-contained: this development does not depend on Proofs/ConsumerBase.v) ---------- *)
Lemma bind_inv {A B} (m : M A) (f : A -> M B) s r s' o :
  bind m f s = (r, s', o) ->
  (exists a s1 o1 o2, m s = (Ok a, s1, o1) /\ f a s1 = (r, s', o2) /\ o = o1 ++ o2)
  \/ (exists k, m s = (Exc k, s', o) /\ r = Exc k).
Proof.
  unfold bind. destruct (m s) as [[ra s1] o1]. destruct ra as [a|k].
  - destruct (f a s1) as [[rb s2] o2] eqn:E. intro H. inversion H; subst. left. eauto 10.
  - intro H. inversion H; subst. right. eauto.
Qed.
Lemma try_inv {A} (m : M A) s r s' o : try m s = (r, s', o) -> exists r0, m s = (r0, s', o) /\ r = Ok r0.
Proof. unfold try. destruct (m s) as [[r0 s1] o1]. intro H; inversion H; subst. eauto. Qed.
Lemma swallow_inv (m : M unit) s r s' o : swallow m s = (r, s', o) -> exists r0, m s = (r0, s', o) /\ r = Ok tt.
Proof. unfold swallow. destruct (m s) as [[r0 s1] o1]. intro H; inversion H; subst. eauto. Qed.
Lemma get_inv s r s' o : get s = (r, s', o) -> r = Ok s /\ s' = s /\ o = [].
Proof. unfold get. intro H; inversion H; auto. Qed.
Lemma upd_inv f s r s' o : upd f s = (r, s', o) -> r = Ok tt /\ s' = f s /\ o = [].
Proof. unfold upd. intro H; inversion H; auto. Qed.
Lemma emit_inv x s r s' o : emit x s = (r, s', o) -> r = Ok tt /\ s' = s /\ o = [x].
Proof. unfold emit. intro H; inversion H; auto. Qed.
Lemma ret_inv {A} (a : A) s r s' o : ret a s = (r, s', o) -> r = Ok a /\ s' = s /\ o = [].
Proof. unfold ret. intro H; inversion H; auto. Qed.
Lemma raise_inv {A} k s (r : res A) s' o : raise k s = (r, s', o) -> r = Exc k /\ s' = s /\ o = [].
Proof. unfold raise. intro H; inversion H; auto. Qed.
Lemma fuel_ok_app o1 o2 : fuel_ok (o1 ++ o2) = true <-> fuel_ok o1 = true /\ fuel_ok o2 = true.
Proof.
  unfold fuel_ok. rewrite existsb_app. destruct (existsb is_fuel o1), (existsb is_fuel o2); cbn; intuition congruence.
Qed.

(* projections of setter terms:  s_req (set_rcall v s)  ~>  s_req s *)
Ltac psimpl := cbn [s_cf s_maxatt s_buf s_ridx s_att s_foff s_lp s_lc s_stopping s_shutting s_shutd s_susp s_startd s_req s_rcall s_ccall s_creq s_cds s_looper s_mblock s_proc s_plan s_ncommit s_inapi s_pend set_maxatt set_buf set_ridx set_att set_foff set_lp set_lc set_stopping set_shutting set_shutd set_susp set_startd set_req set_rcall set_ccall set_creq set_cds set_looper set_mblock set_proc set_plan set_ncommit set_inapi set_pend fst snd] in *.


Section Wp.
Variable G : Type.
Variable gout : G -> output -> option G.

Notation gouts := (gouts gout).

Lemma gouts_app g o1 o2 : gouts g (o1 ++ o2) = match gouts g o1 with Some g' => gouts g' o2 | None => None end.
Proof. revert g. induction o1 as [|x o1 IH]; intro g; cbn; [reflexivity|]. destruct (gout g x); auto. Qed.

Definition wp {A} (m : M A) (Q : res A -> G -> state -> Prop) (g : G) (s : state) : Prop :=
  forall r s' o, m s = (r, s', o) -> fuel_ok o = true -> exists g', gouts g o = Some g' /\ Q r g' s'.

Lemma wp_conseq {A} (m : M A) (Q Q' : res A -> G -> state -> Prop) g s :
  wp m Q g s -> (forall r g' s', Q r g' s' -> Q' r g' s') -> wp m Q' g s.
Proof. intros H HQ r s' o E F. destruct (H r s' o E F) as (g' & Hg & Hq). eauto. Qed.

Lemma wp_ret {A} (a : A) (Q : res A -> G -> state -> Prop) g s : Q (Ok a) g s -> wp (ret a) Q g s.
Proof. intros H r s' o E _. apply ret_inv in E. destruct E as (-> & -> & ->). exists g. auto. Qed.
Lemma wp_raise {A} k (Q : res A -> G -> state -> Prop) g s : Q (Exc k) g s -> wp (raise k) Q g s.
Proof. intros H r s' o E _. apply raise_inv in E. destruct E as (-> & -> & ->). exists g. auto. Qed.
Lemma wp_get (Q : res state -> G -> state -> Prop) g s : Q (Ok s) g s -> wp get Q g s.
Proof. intros H r s' o E _. apply get_inv in E. destruct E as (-> & -> & ->). exists g. auto. Qed.
Lemma wp_upd f (Q : res unit -> G -> state -> Prop) g s : Q (Ok tt) g (f s) -> wp (upd f) Q g s.
Proof. intros H r s' o E _. apply upd_inv in E. destruct E as (-> & -> & ->). exists g. auto. Qed.
Lemma wp_emit x (Q : res unit -> G -> state -> Prop) g s : (exists g', gout g x = Some g' /\ Q (Ok tt) g' s) -> wp (emit x) Q g s.
Proof.
  intros (g' & Hg & H) r s' o E _. apply emit_inv in E. destruct E as (-> & -> & ->). exists g'. cbn. rewrite Hg. auto.
Qed.

Lemma wp_bind {A B} (m : M A) (f : A -> M B) (Q : res B -> G -> state -> Prop) g s :
  wp m (fun r g' s' => match r with Ok a => wp (f a) Q g' s' | Exc k => Q (Exc k) g' s' end) g s ->
  wp (bind m f) Q g s.
Proof.
  intros H r s' o E F. apply bind_inv in E. destruct E as [(a & s1 & o1 & o2 & E1 & E2 & ->) | (k & E1 & ->)].
  - apply fuel_ok_app in F. destruct F as [F1 F2].
    destruct (H _ _ _ E1 F1) as (g1 & Hg1 & H1). destruct (H1 _ _ _ E2 F2) as (g2 & Hg2 & H2).
    exists g2. rewrite gouts_app, Hg1. auto.
  - destruct (H _ _ _ E1 F) as (g1 & Hg1 & H1). eauto.
Qed.

Lemma wp_try {A} (m : M A) (Q : res (res A) -> G -> state -> Prop) g s : wp m (fun r => Q (Ok r)) g s -> wp (try m) Q g s.
Proof. intros H r s' o E F. apply try_inv in E. destruct E as (r0 & E & ->). eauto. Qed.
Lemma wp_swallow (m : M unit) (Q : res unit -> G -> state -> Prop) g s : wp m (fun _ => Q (Ok tt)) g s -> wp (swallow m) Q g s.
Proof. intros H r s' o E F. apply swallow_inv in E. destruct E as (r0 & E & ->). eauto. Qed.

(* a raw computation that only emits a given list of outputs (flush_pend) *)
Lemma wp_emits (l : list output) (Q : res unit -> G -> state -> Prop) g s :
  (exists g', gouts g l = Some g' /\ Q (Ok tt) g' s) -> wp (fun s' : state => (Ok tt, s', l)) Q g s.
Proof. intros (g' & Hg & H) r s' o E _. inversion E; subst. eauto. Qed.

(* use of an already proved specification [H : wp m Q0 g s] for a call *)
Lemma wp_call {A} (m : M A) (Q0 Q : res A -> G -> state -> Prop) g s :
  wp m Q0 g s -> (forall r g' s', Q0 r g' s' -> Q r g' s') -> wp m Q g s.
Proof. apply wp_conseq. Qed.

(* a fact about every execution, established separately (e.g. the frames of Proofs/ConsumerFrame.v), may be added *)
Lemma wp_strengthen {A} (m : M A) (F : res A -> state -> Prop) (Q : res A -> G -> state -> Prop) g s :
  (forall r s' o, m s = (r, s', o) -> fuel_ok o = true -> F r s') -> wp m Q g s ->
  wp m (fun r g' s' => Q r g' s' /\ F r s') g s.
Proof. intros HF H r s' o E F0. destruct (H _ _ _ E F0) as (g' & Hg & Hq). exists g'. repeat split; eauto. Qed.

(* a property of the outputs alone, established separately, may be used to show the monitor does not move *)
Lemma wp_of_quiet {A} (m : M A) (Q : res A -> G -> state -> Prop) g s :
  (forall r s' o, m s = (r, s', o) -> fuel_ok o = true -> gouts g o = Some g /\ Q r g s') -> wp m Q g s.
Proof. intros H r s' o E F. destruct (H _ _ _ E F). eauto. Qed.

(* the fuel-indexed interpreter: a specification of every continuation that [body] preserves holds of [run fuel] *)
Variable Pre : kont -> G -> state -> Prop.
Variable Post : kont -> G -> state -> res unit -> G -> state -> Prop.
Definition kspec (rec : kont -> M unit) : Prop := forall k g s, Pre k g s -> wp (rec k) (Post k g s) g s.
Lemma run_kspec : (forall rec, kspec rec -> kspec (body rec)) -> forall fuel, kspec (run fuel).
Proof.
  intros Hb fuel. induction fuel as [|f IH].
  - intros k g s _ r s' o E F. cbn in E. unfold bind, emit, raise in E. inversion E; subst. discriminate F.
  - cbn [run]. apply Hb. exact IH.
Qed.

(* monitors whose state is a function [abs] of the model state: if every step commutes with [abs] (under an invariant
   of the model state), the monitor accepts every run and ends in the abstraction of the final state *)
Variable gev : G -> event -> G.
Variable abs : state -> G.
Variable Inv : state -> Prop.
Hypothesis Hstep : forall fuel s e s' o, Inv s -> step fuel s e = (s', o) -> fuel_ok o = true ->
  gouts (gev (abs s) e) o = Some (abs s') /\ Inv s'.
Lemma mon_run_abs fuel evs : forall s, Inv s ->
  forallb (fun t => match t with (_, _, o, _) => fuel_ok o end) (run_steps fuel s evs) = true ->
  mon_run gev gout (abs s) (obs (run_steps fuel s evs)) = Some (abs (fst (run_events fuel s evs)))
  /\ Inv (fst (run_events fuel s evs)).
Proof.
  induction evs as [|e evs IH]; intros s HI HF; cbn [run_steps run_events obs map mon_run fst].
  - auto.
  - cbn [run_steps] in HF. destruct (step fuel s e) as [s1 o1] eqn:E. cbn [forallb] in HF.
    apply andb_prop in HF. destruct HF as [F1 F2].
    destruct (Hstep _ _ _ _ _ HI E F1) as [Hg HI1]. cbn [map mon_run]. rewrite Hg.
    destruct (IH s1 HI1 F2) as [IH1 IH2]. unfold obs in IH1. rewrite IH1.
    destruct (run_events fuel s1 evs) as [s2 o2] eqn:E2. cbn [fst] in *. auto.
Qed.
End Wp.

Arguments wp {G} gout {A} m Q g s.

(* ---- symbolic execution ---- *)
Ltac wp_prim :=
  lazymatch goal with
  | |- wp _ (ret _) _ _ _ => apply wp_ret
  | |- wp _ (raise _) _ _ _ => apply wp_raise
  | |- wp _ get _ _ _ => apply wp_get
  | |- wp _ (upd _) _ _ _ => apply wp_upd
  | |- wp _ (try _) _ _ _ => apply wp_try
  | |- wp _ (swallow _) _ _ _ => apply wp_swallow
  | |- wp _ (bind _ _) _ _ _ => apply wp_bind
  end.

(* one step; [call] is a tactic that closes / transforms goals  wp (f args) Q g s  for known functions *)
Ltac wp_step call :=
  first
    [ wp_prim
    | lazymatch goal with
      | |- wp _ (match ?x with _ => _ end) _ _ _ => let D := fresh "D" in destruct x eqn:D
      | |- wp _ (if ?b then _ else _) _ _ _ => let D := fresh "D" in destruct b eqn:D
      | |- wp _ (let (_, _) := ?x in _) _ _ _ => let D := fresh "D" in destruct x eqn:D
      end
    | call ];
  cbn beta iota; psimpl.
