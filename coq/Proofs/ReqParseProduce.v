(* C04, part 4: Produce requests - message sets of both formats, CRCs, compressed wrappers - against the spec parser.

   Vocabulary
     plain_pmsg off now m     how the grammar parser sees message m written at offset off: the fields of m, the
                              timestamp present exactly for format 1 (the clock reading [now] when m has none)
     msg_ok m                 key and value are byte strings (every element 0..255) - needed for the CRC field only
     set_view R clock k o i msgs xs
                              xs = the views (related by R) of msgs in order, with the clock index threaded exactly as
                              _encode_message_set does (one reading per format-1 message without a timestamp) and the
                              offsets o, o+i, o+2i, ...
     inner_view wmagic        R for messages inside a wrapper of format wmagic: uncompressed, same format, view = plain_pmsg
     top_view orc             R for top-level messages: uncompressed -> SPlain; codec gzip/snappy -> the value inflates
                              (by the oracle) to the encoding of a set of uncompressed messages -> SWrap with their views
     parts_view / topics_view the same threading over partitions and topics, mirroring encode_produce_partitions/topics *)
From AV Require Import Base.Util Model.Prim Model.Crc Model.MsgSet Model.KafkaSpecReq Model.Requests
     Proofs.PrimFacts Proofs.CrcBurst Proofs.DecodeTotal Proofs.Truncation
     Proofs.ReqParsePrim Proofs.ReqParseGroup Proofs.ReqParseApis.
From Coq Require Import Lia.

Definition plain_pmsg (offset now : Z) (m : message) : pmsg :=
  mkPmsg offset (m_magic m) (m_attr m)
         (if (m_magic m =? 1) then Some (match m_ts m with Some t => t | None => now end) else None)
         (m_key m) (m_value m).

Definition msg_ok (m : message) : bool := obytes_ok (m_key m) && obytes_ok (m_value m).

(* ------------------------------------------------------------------ one message *)
Lemma sp_message_encoded now m bs off :
  encode_message now m = Ok bs -> msg_ok m = true -> sp_message off bs = Some (plain_pmsg off now m).
Proof.
  intros E OK. pose proof (encode_message_parts now m bs E) as p.
  unfold msg_ok in OK. apply andb_prop in OK. destruct OK as [Hk Hv].
  pose proof (body_bytes _ _ _ p Hk Hv) as Hb.
  rewrite (encoded_eq _ _ _ p). unfold sp_message.
  rewrite (UINT32_pack _ _ _ (pack_crc _ Hb)). rewrite Z.eqb_refl. cbn [negb].
  unfold body_of. unfold pbind.
  rewrite (UINT8_pack _ _ _ (mp_m _ _ _ p)). rewrite (UINT8_pack _ _ _ (mp_a _ _ _ p)).
  pose proof (mp_t _ _ _ p) as T. pose proof (mp_k _ _ _ p) as K. pose proof (mp_v _ _ _ p) as V.
  unfold plain_pmsg.
  destruct (mp_magic _ _ _ p) as [M|M]; rewrite M in *; cbn [Z.eqb Pos.eqb] in *.
  - rewrite T. cbn [app]. unfold pret at 1.
    rewrite (NULLABLE_BYTES_write _ _ _ K).
    rewrite <- (app_nil_r (mp_val now m bs p)). rewrite (NULLABLE_BYTES_write _ _ _ V).
    unfold pret. rewrite <- M. reflexivity.
  - rewrite (INT64_pack _ _ _ T). unfold pret at 1.
    rewrite (NULLABLE_BYTES_write _ _ _ K).
    rewrite <- (app_nil_r (mp_val now m bs p)). rewrite (NULLABLE_BYTES_write _ _ _ V).
    unfold pret. rewrite <- M. reflexivity.
Qed.

(* ------------------------------------------------------------------ a set of messages *)
Section SetView.
  Context {X : Type} (R : Z -> Z -> message -> X -> Prop).        (* now, offset, message, view *)

  Inductive set_view (clock : nat -> Z) : nat -> Z -> Z -> list message -> list X -> Prop :=
  | sv_nil k o i : set_view clock k o i [] []
  | sv_cons k o i m r x xs :
      R (clock k) o m x ->
      set_view clock (if uses_clock m then S k else k) (o + i) i r xs ->
      set_view clock k o i (m :: r) (x :: xs).
End SetView.

Lemma encoded_set_length clock msgs : forall k offset incr magic bs,
  encode_message_set_from clock k msgs offset incr magic = Ok bs -> (length msgs <= length bs)%nat.
Proof.
  induction msgs as [|m r IH]; intros k offset incr magic bs E; cbn [length]; [lia|].
  destruct (encode_set_cons _ _ _ _ _ _ _ _ E) as (e & h & t & E1 & E2 & E3 & ->).
  pose proof (IH _ _ _ _ _ E3). pose proof (pack_list2_length _ _ _ _ _ E2) as L. cbn [fmt_size] in L.
  rewrite !app_length. lia.
Qed.

Lemma entry_parse off e h rest :
  pack_list [(Fq, off); (Fi, len e)] = Ok h ->
  pbind INT64 (fun o => pbind INT32 (fun sz => pbind (sp_sized sz) (fun mb => pret (o, mb)))) (h ++ e ++ rest)
  = Some ((off, e), rest).
Proof.
  intros P. destruct (pack_list2 _ _ _ _ _ P) as (a & b & Pa & Pb & ->).
  unfold pbind. rewrite <- app_assoc. rewrite (INT64_pack _ _ _ Pa), (INT32_pack _ _ _ Pb), sp_sized_app. reflexivity.
Qed.

Lemma pack_list2_nonempty f1 v1 f2 v2 h rest : pack_list [(f1, v1); (f2, v2)] = Ok h -> h ++ rest <> [].
Proof.
  intros P. destruct (pack_list2 _ _ _ _ _ P) as (a & b & Pa & Pb & ->).
  rewrite <- app_assoc. apply app_nonempty_l. eapply pack_nonempty; eauto.
Qed.

Lemma sp_message_set_step {X} (one : Z -> list Z -> option X) f d : d <> [] ->
  sp_message_set one (S f) d =
  match pbind INT64 (fun o => pbind INT32 (fun sz => pbind (sp_sized sz) (fun mb => pret (o, mb)))) d with
  | Some ((off, mb), r) =>
      match one off mb, sp_message_set one f r with
      | Some x, Some xs => Some (x :: xs)
      | _, _ => None
      end
  | None => None
  end.
Proof. destruct d; [congruence|reflexivity]. Qed.

Lemma sp_set_encoded {X} (R : Z -> Z -> message -> X -> Prop) (one : Z -> list Z -> option X) clock :
  (forall now off m x e, R now off m x -> encode_message now m = Ok e -> one off e = Some x) ->
  forall msgs k offset incr magic bs xs fuel,
  encode_message_set_from clock k msgs offset incr magic = Ok bs ->
  set_view R clock k offset incr msgs xs ->
  (length msgs <= fuel)%nat ->
  sp_message_set one fuel bs = Some xs.
Proof.
  intros HR. induction msgs as [|m r IH]; intros k offset incr magic bs xs fuel E V F.
  - cbn in E. injection E as <-. inversion V; subst. destruct fuel; reflexivity.
  - destruct (encode_set_cons _ _ _ _ _ _ _ _ E) as (e & h & t & E1 & E2 & E3 & ->).
    inversion V as [|k0 o0 i0 m0 r0 x xs' Rx Vr]; subst.
    destruct fuel as [|fuel]; [cbn [length] in F; lia|].
    rewrite (sp_message_set_step one fuel _ (pack_list2_nonempty _ _ _ _ _ (e ++ t) E2)).
    rewrite (entry_parse _ _ _ _ E2).
    rewrite (HR _ _ _ _ _ Rx E1).
    rewrite (IH _ _ _ _ _ _ fuel E3 Vr); [reflexivity|]. cbn [length] in F. lia.
Qed.

(* ---- inside a wrapper: uncompressed messages only ---- *)
Definition inner_view (wmagic : Z) (now off : Z) (m : message) (x : pmsg) : Prop :=
  codec_of (m_attr m) = 0 /\ m_magic m = wmagic /\ msg_ok m = true /\ x = plain_pmsg off now m.

Lemma inner_one wmagic now off m x e :
  inner_view wmagic now off m x -> encode_message now m = Ok e -> sp_inner wmagic off e = Some x.
Proof.
  intros (C & M & OK & ->) E. unfold sp_inner. rewrite (sp_message_encoded _ _ _ off E OK).
  cbn [p_attr p_magic plain_pmsg]. rewrite C, M, !Z.eqb_refl. reflexivity.
Qed.

(* the views of a list of uncompressed messages, as a function *)
Fixpoint plain_views (clock : nat -> Z) (k : nat) (o i : Z) (msgs : list message) : list pmsg :=
  match msgs with
  | [] => []
  | m :: r => plain_pmsg o (clock k) m :: plain_views clock (if uses_clock m then S k else k) (o + i) i r
  end.

Definition uncompressed (m : message) : bool := (codec_of (m_attr m) =? 0) && msg_ok m.

Definition same_format (wmagic : Z) (msgs : list message) : bool := forallb (fun m => m_magic m =? wmagic) msgs.

Lemma plain_views_view wmagic clock msgs : forall k o i,
  forallb uncompressed msgs = true -> same_format wmagic msgs = true ->
  set_view (inner_view wmagic) clock k o i msgs (plain_views clock k o i msgs).
Proof.
  induction msgs as [|m r IH]; intros k o i H F; cbn [plain_views]; [constructor|].
  cbn [forallb] in H. apply andb_prop in H. destruct H as [Hm Hr].
  unfold same_format in F. cbn [forallb] in F. apply andb_prop in F. destruct F as [Fm Fr]. apply Z.eqb_eq in Fm.
  unfold uncompressed in Hm. apply andb_prop in Hm. destruct Hm as [C OK]. apply Z.eqb_eq in C.
  constructor; [repeat split; assumption|apply IH; assumption].
Qed.

(* ---- top level ---- *)
Definition inflates (orc : oracle) (attr : Z) (z e : list Z) : Prop :=
  (codec_of attr = 1 /\ gz_dec orc z = Ok e) \/
  (codec_of attr = 2 /\ sn_avail orc = true /\ sn_dec orc z = Ok e).

Definition top_view (orc : oracle) (now off : Z) (m : message) (s : smsg) : Prop :=
  msg_ok m = true /\
  ((codec_of (m_attr m) = 0 /\ s = SPlain (plain_pmsg off now m)) \/
   (exists z e inner iclock ik ioff iincr imagic xs,
      m_value m = Some z /\ inflates orc (m_attr m) z e /\
      encode_message_set_from iclock ik inner ioff iincr imagic = Ok e /\
      set_view (inner_view (m_magic m)) iclock ik ioff iincr inner xs /\
      s = SWrap (plain_pmsg off now m) xs)).

Lemma inflates_decompress orc attr z e : inflates orc attr z e -> decompress orc (codec_of attr) z = Some e.
Proof.
  unfold decompress. intros [(C & G)|(C & A & S)]; rewrite C; cbn [Z.eqb].
  - rewrite G. reflexivity.
  - rewrite A, S. reflexivity.
Qed.

Lemma inflates_codec orc attr z e : inflates orc attr z e -> codec_of attr =? 0 = false.
Proof. intros [(C & _)|(C & _)]; rewrite C; reflexivity. Qed.

Lemma top_one orc now off m s e :
  top_view orc now off m s -> encode_message now m = Ok e -> sp_outer orc off e = Some s.
Proof.
  intros (OK & [(C & ->)|(z & ie & inner & iclock & ik & ioff & iincr & imagic & xs & V & I & E & SV & ->)]) Em;
    unfold sp_outer; rewrite (sp_message_encoded _ _ _ off Em OK); cbn [p_attr p_value p_magic plain_pmsg].
  - rewrite C. reflexivity.
  - rewrite (inflates_codec _ _ _ _ I), V, (inflates_decompress _ _ _ _ I).
    rewrite (sp_set_encoded (inner_view (m_magic m)) (sp_inner (m_magic m)) iclock (inner_one (m_magic m))
               inner ik ioff iincr imagic ie xs (length ie) E SV
               (encoded_set_length _ _ _ _ _ _ _ E)).
    reflexivity.
Qed.

Definition top_set_view (orc : oracle) := set_view (top_view orc).

(* RECORDS = the int32 size written by the encoder, then the set *)
Lemma RECORDS_encoded orc clock k msgs magic ms c xs rest :
  encode_message_set clock k msgs None magic = Ok ms ->
  pack Fi (len ms) = Ok c ->
  top_set_view orc clock k 0 0 msgs xs ->
  RECORDS orc (c ++ ms ++ rest) = Some (xs, rest).
Proof.
  intros E Pc V. unfold RECORDS, BYTES, pbind. rewrite (INT32_pack _ _ _ Pc), sp_sized_app.
  cbn [encode_message_set] in E.
  rewrite (sp_set_encoded (top_view orc) (sp_outer orc) clock (top_one orc) msgs k 0 0 magic ms xs (length ms) E V
             (encoded_set_length _ _ _ _ _ _ _ E)).
  reflexivity.
Qed.

(* ------------------------------------------------------------------ partitions, topics *)
Inductive parts_view (orc : oracle) (clock : nat -> Z) : nat -> list (Z * produce_payload) -> list (Z * list smsg) -> Prop :=
| pv_nil k : parts_view orc clock k [] []
| pv_cons k partition payload r xs ps :
    top_set_view orc clock k 0 0 (pr_messages payload) xs ->
    parts_view orc clock (k + clock_uses (pr_messages payload))%nat r ps ->
    parts_view orc clock k ((partition, payload) :: r) ((partition, xs) :: ps).

Inductive topics_view (orc : oracle) (clock : nat -> Z) :
  nat -> list (text * list (Z * produce_payload)) -> list (list Z * list (Z * list smsg)) -> Prop :=
| tv_nil k : topics_view orc clock k [] []
| tv_cons k topic tps r ps ts :
    parts_view orc clock k tps ps ->
    topics_view orc clock (k + topic_clock_uses tps)%nat r ts ->
    topics_view orc clock k ((topic, tps) :: r) ((abytes topic, ps) :: ts).

Lemma parts_encoded orc clock magic : forall ps k w xs rest,
  encode_produce_partitions clock k magic ps = Ok w ->
  parts_view orc clock k ps xs ->
  sp_repeat (pbind INT32 (fun p => pbind (RECORDS orc) (fun ms => pret (p, ms)))) (length ps) (w ++ rest)
  = Some (xs, rest) /\ (length ps <= length w)%nat.
Proof.
  induction ps as [|[partition payload] r IH]; intros k w xs rest E V.
  - cbn in E. injection E as <-. inversion V; subst. split; [reflexivity|cbn; lia].
  - cbn [encode_produce_partitions] in E.
    destruct (encode_message_set clock k (pr_messages payload) None magic) as [ms|] eqn:E1; cbn [bind] in E; [|discriminate].
    destruct (pack_list [(Fi, partition); (Fi, len ms)]) as [ph|] eqn:E2; cbn [bind] in E; [|discriminate].
    destruct (encode_produce_partitions clock (k + clock_uses (pr_messages payload)) magic r) as [t|] eqn:E3;
      cbn [bind] in E; [|discriminate].
    injection E as <-. inversion V as [|k0 p0 pl0 r0 xs0 ps0 Vm Vr]; subst.
    destruct (pack_list2 _ _ _ _ _ E2) as (a & c & Pa & Pc & ->).
    destruct (IH _ _ _ rest E3 Vr) as [IH1 IH2].
    split.
    + cbn [length sp_repeat]. unfold pbind in *. rewrite <- !app_assoc.
      rewrite (INT32_pack _ _ _ Pa). rewrite (RECORDS_encoded orc _ _ _ _ _ _ _ _ E1 Pc Vm).
      unfold pret at 1. rewrite IH1. reflexivity.
    + pose proof (pack_length _ _ _ Pa) as La. cbn [fmt_size] in La. cbn [length]. rewrite !app_length. lia.
Qed.

Lemma topics_encoded orc clock magic : forall ts k w xs rest,
  encode_produce_topics clock k magic ts = Ok w ->
  (forall tp, In tp ts -> present (fst tp) = true) ->
  topics_view orc clock k ts xs ->
  sp_repeat (pbind STRING (fun t => pbind (ARRAY (pbind INT32 (fun p => pbind (RECORDS orc) (fun ms => pret (p, ms)))))
                                          (fun ps => pret (t, ps)))) (length ts) (w ++ rest)
  = Some (xs, rest) /\ (length ts <= length w)%nat.
Proof.
  induction ts as [|[topic tps] r IH]; intros k w xs rest E T V.
  - cbn in E. injection E as <-. inversion V; subst. split; [reflexivity|cbn; lia].
  - cbn [encode_produce_topics] in E.
    destruct (write_short_ascii topic) as [n|] eqn:E1; cbn [bind] in E; [|discriminate].
    destruct (pack Fi (llen tps)) as [c|] eqn:E2; cbn [bind] in E; [|discriminate].
    destruct (encode_produce_partitions clock k magic tps) as [ps|] eqn:E3; cbn [bind] in E; [|discriminate].
    destruct (encode_produce_topics clock (k + topic_clock_uses tps) magic r) as [t|] eqn:E4; cbn [bind] in E; [|discriminate].
    injection E as <-. inversion V as [|k0 t0 tps0 r0 pv ts0 Vp Vr]; subst.
    assert (Pt : present topic = true) by (apply (T (topic, tps)); left; reflexivity).
    destruct (IH _ _ _ rest E4 (fun tp I => T tp (or_intror I)) Vr) as [IH1 IH2].
    destruct (parts_encoded orc clock magic tps k ps pv (t ++ rest) E3 Vp) as [P1 P2].
    split.
    + cbn [length sp_repeat]. unfold pbind in *. rewrite <- !app_assoc.
      rewrite (STRING_ascii' _ _ _ E1 Pt).
      unfold ARRAY at 1. rewrite (INT32_pack _ _ _ E2). unfold llen.
      pose proof (Zle_0_nat (length tps)).
      destruct (Z.of_nat (length tps) <? 0) eqn:C1; [apply Z.ltb_lt in C1; lia|].
      destruct (Z.of_nat (length (ps ++ t ++ rest)) <? Z.of_nat (length tps)) eqn:C2.
      { apply Z.ltb_lt in C2. rewrite app_length in C2. lia. }
      cbn [orb]. rewrite Nat2Z.id. rewrite P1.
      unfold pret at 1. rewrite IH1. reflexivity.
    + assert (n <> []) by (eapply write_short_ascii_nonempty; eauto).
      cbn [length]. rewrite !app_length. destruct n; [congruence|cbn [length]; lia].
Qed.

(* ------------------------------------------------------------------ the request *)
Theorem produce_parses orc clock cid corr payloads acks timeout v w T :
  encode_produce_request clock cid corr payloads acks timeout v = Ok w ->
  topics_present pr_topic payloads = true -> 0 <= v ->
  topics_view orc clock 0 (group_by_topic_and_partition pr_topic pr_partition payloads) T ->
  parse_request orc w = Some (mkSreq 0 (produce_header_version v) corr (Some cid) (SProduce acks timeout T)).
Proof.
  unfold encode_produce_request. intros H TP V TV.
  set (g := group_by_topic_and_partition pr_topic pr_partition payloads) in *.
  destruct (encode_message_header cid corr PRODUCE_KEY (produce_header_version v)) as [h|] eqn:Eh; cbn [bind] in H; [|discriminate].
  destruct (pack_list [(Fh, acks); (Fi, timeout); (Fi, llen g)]) as [b|] eqn:Eb; cbn [bind] in H; [|discriminate].
  destruct (encode_produce_topics clock 0 (produce_magic v) g) as [t|] eqn:Et; cbn [bind] in H; [|discriminate].
  injection H as <-.
  eapply parse_request_intro; [exact Eh| |].
  - unfold produce_header_version, PRODUCE_KEY. destruct (header_version_cases v V) as [-> | [-> | ->]]; reflexivity.
  - cbn [pack_list] in Eb. inv_do Eb. norm_app. unfold p_produce. rd.
    unfold topics_of. unfold ARRAY at 1.
    match goal with Ec : pack Fi (llen g) = Ok ?c0 |- _ => rewrite (INT32_pack _ _ _ Ec) end.
    destruct (topics_encoded orc clock (produce_magic v) g 0%nat t T [] Et
                (grouped_topics_present pr_topic pr_partition payloads TP) TV) as [P1 P2].
    unfold llen. pose proof (Zle_0_nat (length g)).
    destruct (Z.of_nat (length g) <? 0) eqn:C1; [apply Z.ltb_lt in C1; lia|].
    rewrite app_nil_r in P1.
    destruct (Z.of_nat (length t) <? Z.of_nat (length g)) eqn:C2; [apply Z.ltb_lt in C2; lia|].
    cbn [orb]. rewrite Nat2Z.id. unfold pbind in *. rewrite P1. reflexivity.
Qed.

(* ------------------------------------------------------------------ canon as a FUNCTION: uncompressed messages *)
Lemma top_views_plain orc clock msgs : forall k o i,
  forallb uncompressed msgs = true ->
  top_set_view orc clock k o i msgs (map SPlain (plain_views clock k o i msgs)).
Proof.
  induction msgs as [|m r IH]; intros k o i H; cbn [plain_views map]; [constructor|].
  cbn [forallb] in H. apply andb_prop in H. destruct H as [Hm Hr].
  unfold uncompressed in Hm. apply andb_prop in Hm. destruct Hm as [C OK]. apply Z.eqb_eq in C.
  constructor; [|apply IH; exact Hr]. split; [exact OK|]. left. split; [exact C|reflexivity].
Qed.

Fixpoint canon_parts (clock : nat -> Z) (k : nat) (ps : list (Z * produce_payload)) : list (Z * list smsg) :=
  match ps with
  | [] => []
  | (partition, payload) :: r =>
      (partition, map SPlain (plain_views clock k 0 0 (pr_messages payload)))
      :: canon_parts clock (k + clock_uses (pr_messages payload))%nat r
  end.

Fixpoint canon_ptopics (clock : nat -> Z) (k : nat) (ts : list (text * list (Z * produce_payload)))
  : list (list Z * list (Z * list smsg)) :=
  match ts with
  | [] => []
  | (topic, tps) :: r => (abytes topic, canon_parts clock k tps) :: canon_ptopics clock (k + topic_clock_uses tps)%nat r
  end.

Definition canon_produce (clock : nat -> Z) (payloads : list produce_payload) :=
  canon_ptopics clock 0 (group_by_topic_and_partition pr_topic pr_partition payloads).

Definition payload_uncompressed (p : produce_payload) : bool := forallb uncompressed (pr_messages p).
Definition all_uncompressed (payloads : list produce_payload) : bool := forallb payload_uncompressed payloads.

Lemma canon_parts_view orc clock : forall ps k,
  (forall pp, In pp ps -> payload_uncompressed (snd pp) = true) ->
  parts_view orc clock k ps (canon_parts clock k ps).
Proof.
  induction ps as [|[partition payload] r IH]; intros k H; cbn [canon_parts]; constructor.
  - apply top_views_plain. apply (H (partition, payload)). left. reflexivity.
  - apply IH. intros pp I. apply H. right. exact I.
Qed.

Lemma canon_ptopics_view orc clock : forall ts k,
  (forall tp pp, In tp ts -> In pp (snd tp) -> payload_uncompressed (snd pp) = true) ->
  topics_view orc clock k ts (canon_ptopics clock k ts).
Proof.
  induction ts as [|[topic tps] r IH]; intros k H; cbn [canon_ptopics]; constructor.
  - apply canon_parts_view. intros pp I. apply (H (topic, tps) pp); [left; reflexivity|exact I].
  - apply IH. intros tp pp I1 I2. apply (H tp pp); [right; exact I1|exact I2].
Qed.

Theorem produce_plain_parses orc clock cid corr payloads acks timeout v w :
  encode_produce_request clock cid corr payloads acks timeout v = Ok w ->
  topics_present pr_topic payloads = true -> 0 <= v ->
  all_uncompressed payloads = true ->
  parse_request orc w = Some (mkSreq 0 (produce_header_version v) corr (Some cid)
                                     (SProduce acks timeout (canon_produce clock payloads))).
Proof.
  intros H TP V U. eapply produce_parses; eauto. unfold canon_produce. apply canon_ptopics_view.
  intros [t inner] [p x] I1 I2. cbn [snd] in *.
  destruct (group_sound pr_topic pr_partition payloads t inner p x I1 I2) as (Ix & _ & _).
  unfold all_uncompressed in U. rewrite forallb_forall in U. apply U. exact Ix.
Qed.

(* ------------------------------------------------------------------ wrappers built by create_gzip_message /
   create_snappy_message (kafkacodec.py:1183-1219) and the sets built by create_message_set, as the Producer does *)
(* the only hypothesis on compression: on byte strings, inflating what was deflated gives it back, and the
   deflated form is a byte string *)
Definition oracle_gzip_ok (orc : oracle) : Prop :=
  forall x z, bytes_ok x = true -> gz_enc orc x = Ok z -> gz_dec orc z = Ok x /\ bytes_ok z = true.

Lemma encoded_message_bytes now m e : encode_message now m = Ok e -> msg_ok m = true -> bytes_ok e = true.
Proof.
  intros E OK. pose proof (encode_message_parts now m e E) as p.
  unfold msg_ok in OK. apply andb_prop in OK. destruct OK as [Hk Hv].
  rewrite (encoded_eq _ _ _ p), bytes_ok_app, (body_bytes _ _ _ p Hk Hv), andb_true_r.
  apply bytes_ok_Forall, enc_be_bytes.
Qed.

Lemma encoded_set_bytes clock msgs : forall k offset incr magic bs,
  encode_message_set_from clock k msgs offset incr magic = Ok bs ->
  forallb msg_ok msgs = true -> bytes_ok bs = true.
Proof.
  induction msgs as [|m r IH]; intros k offset incr magic bs E H.
  - cbn in E. injection E as <-. reflexivity.
  - destruct (encode_set_cons _ _ _ _ _ _ _ _ E) as (e & h & t & E1 & E2 & E3 & ->).
    cbn [forallb] in H. apply andb_prop in H. destruct H as [Hm Hr].
    destruct (pack_list2 _ _ _ _ _ E2) as (a & b & Pa & Pb & ->).
    rewrite !bytes_ok_app, (pack_bytes _ _ _ Pa), (pack_bytes _ _ _ Pb), (encoded_message_bytes _ _ _ E1 Hm),
      (IH _ _ _ _ _ E3 Hr). reflexivity.
Qed.

Lemma uncompressed_msg_ok msgs : forallb uncompressed msgs = true -> forallb msg_ok msgs = true.
Proof.
  intros H. apply forallb_forall. intros m I. rewrite forallb_forall in H. specialize (H m I).
  unfold uncompressed in H. apply andb_prop in H. tauto.
Qed.

Lemma codec_gzip : codec_of CODEC_GZIP = 1. Proof. reflexivity. Qed.

Lemma created_gzip_view orc clock k msgs magic wmsg now off :
  oracle_gzip_ok orc ->
  create_gzip_message orc clock k msgs magic = Ok wmsg ->
  forallb uncompressed msgs = true -> same_format magic msgs = true ->
  top_view orc now off wmsg (SWrap (plain_pmsg off now wmsg) (plain_views clock k 0 0 msgs)).
Proof.
  intros OR C U SF. unfold create_gzip_message, create_compressed_message in C.
  destruct (encode_message_set clock k msgs None 0) as [e|] eqn:E; cbn [bind] in C; [|discriminate].
  destruct (gz_enc orc e) as [z|] eqn:Z; cbn [bind] in C; [|discriminate].
  assert (Be : bytes_ok e = true).
  { cbn [encode_message_set] in E. eapply encoded_set_bytes; [exact E|]. apply uncompressed_msg_ok. exact U. }
  destruct (OR e z Be Z) as [D B].
  assert (W : m_value wmsg = Some z /\ m_key wmsg = None /\ m_attr wmsg = CODEC_GZIP /\ m_magic wmsg = magic).
  { destruct (magic =? 1); injection C as <-; repeat split. }
  destruct W as (Wv & Wk & Wa & Wm).
  split.
  - unfold msg_ok. rewrite Wv, Wk. cbn [obytes_ok andb]. exact B.
  - right. exists z, e, msgs, clock, k, 0, 0, 0, (plain_views clock k 0 0 msgs).
    split; [exact Wv|]. split; [left; rewrite Wa; split; [exact codec_gzip|exact D]|].
    split; [exact E|]. split; [rewrite Wm; apply plain_views_view; assumption|reflexivity].
Qed.

(* the messages create_message_set builds from (key, payloads) requests are uncompressed byte-string messages *)
Definition request_ok (r : send_request) : bool := obytes_ok (fst r) && forallb obytes_ok (snd r).

Lemma flatten_requests_ok reqs kp :
  forallb request_ok reqs = true -> In kp (flatten_requests reqs) -> obytes_ok (fst kp) = true /\ obytes_ok (snd kp) = true.
Proof.
  unfold flatten_requests. intros H I. apply in_flat_map in I. destruct I as (r & Ir & I).
  rewrite forallb_forall in H. specialize (H r Ir). unfold request_ok in H. apply andb_prop in H. destruct H as [Hk Hp].
  apply in_map_iff in I. destruct I as (p & <- & Ip). cbn [fst snd]. split; [exact Hk|].
  rewrite forallb_forall in Hp. apply Hp. exact Ip.
Qed.

Lemma created_messages_uncompressed clock reqs magic :
  forallb request_ok reqs = true -> forallb uncompressed (create_messages clock reqs magic) = true.
Proof.
  intros H. unfold create_messages. apply forallb_forall. intros m I.
  apply in_map_iff in I. destruct I as ((i & (key & p)) & <- & I).
  apply in_combine_r in I. destruct (flatten_requests_ok reqs (key, p) H I) as [Hk Hp]. cbn [fst snd] in *.
  unfold create_message, uncompressed, msg_ok.
  destruct ((if magic =? 1 then 1 else 0) =? 1); cbn [m_attr m_key m_value]; rewrite Hk, Hp; reflexivity.
Qed.

(* what the grammar parser must see for a set built by create_message_set: the messages themselves, or the one
   wrapper around them.  [k0] = the clock index create_message_set starts its wrapper construction with. *)
Definition created_views (clock : nat -> Z) (reqs : list send_request) (codec magic : Z) (ms : list message)
  : list smsg :=
  let inner := create_messages clock reqs magic in
  if (codec =? CODEC_NONE) then map SPlain (plain_views clock 0 0 0 inner)
  else match ms with
       | w :: _ => [SWrap (plain_pmsg 0 0 w)
                          (plain_views clock (if (magic =? 1) then length inner else O) 0 0 inner)]
       | [] => []
       end.

Lemma created_have_ts clock reqs magic m :
  In m (create_messages clock reqs magic) -> uses_clock m = false.
Proof.
  unfold create_messages. intros I. apply in_map_iff in I. destruct I as ((i & (key & p)) & <- & _).
  unfold create_message, uses_clock. destruct ((if magic =? 1 then 1 else 0) =? 1) eqn:M; cbn [m_magic m_ts].
  - rewrite andb_false_r. reflexivity.
  - destruct (magic =? 1); [discriminate M|reflexivity].
Qed.

(* a set whose messages all carry their timestamp looks the same whatever the clock of the encoder *)
Lemma plain_views_no_clock clock clock' msgs : forall k k' o i,
  (forall m, In m msgs -> uses_clock m = false) ->
  plain_views clock k o i msgs = plain_views clock' k' o i msgs.
Proof.
  induction msgs as [|m r IH]; intros k k' o i H; cbn [plain_views]; [reflexivity|].
  assert (U : uses_clock m = false) by (apply H; left; reflexivity). rewrite U.
  rewrite (IH k k' (o + i) i) by (intros m' I; apply H; right; exact I). f_equal.
  unfold plain_pmsg. unfold uses_clock in U.
  destruct (m_magic m =? 1); [|reflexivity]. destruct (m_ts m); [reflexivity|discriminate U].
Qed.

Lemma top_view_no_clock orc now now' off m s : uses_clock m = false -> top_view orc now off m s ->
  top_view orc now' off m s /\ plain_pmsg off now m = plain_pmsg off now' m.
Proof.
  intros U V.
  assert (E : plain_pmsg off now m = plain_pmsg off now' m).
  { unfold plain_pmsg. unfold uses_clock in U. destruct (m_magic m =? 1); [|reflexivity].
    destruct (m_ts m); [reflexivity|discriminate U]. }
  split; [|exact E]. unfold top_view in *. rewrite <- E. exact V.
Qed.

Theorem created_set_view orc clock reqs codec magic ms eclock ek :
  oracle_gzip_ok orc ->
  create_message_set orc clock reqs codec magic = Ok ms ->
  forallb request_ok reqs = true ->
  codec = CODEC_NONE \/ codec = CODEC_GZIP -> magic = 0 \/ magic = 1 ->
  top_set_view orc eclock ek 0 0 ms (created_views clock reqs codec magic ms) /\
  (forall m, In m ms -> uses_clock m = false).
Proof.
  intros OR C RQ CD MG. unfold create_message_set in C. unfold created_views.
  assert (SF : same_format magic (create_messages clock reqs magic) = true).
  { unfold same_format. apply forallb_forall. intros m I. unfold create_messages in I.
    apply in_map_iff in I. destruct I as ((i & (key & p)) & <- & _). unfold create_message.
    destruct MG as [-> | ->]; reflexivity. }
  pose proof (created_messages_uncompressed clock reqs magic RQ) as U.
  pose proof (created_have_ts clock reqs magic) as NC.
  set (inner := create_messages clock reqs magic) in *.
  destruct CD as [-> | ->]; cbn [Z.eqb CODEC_NONE CODEC_GZIP Pos.eqb] in *.
  - injection C as <-. split; [|exact NC].
    rewrite (plain_views_no_clock clock eclock inner 0 ek 0 0 NC). apply top_views_plain. exact U.
  - destruct (create_gzip_message orc clock (if magic =? 1 then length inner else 0%nat) inner magic) as [w|] eqn:G;
      cbn [bind] in C; [|discriminate].
    injection C as <-.
    assert (UW : uses_clock w = false).
    { unfold create_gzip_message, create_compressed_message in G.
      destruct (encode_message_set clock _ inner None 0) as [ee|]; cbn [bind] in G; [|discriminate].
      destruct (gz_enc orc ee) as [zz|]; cbn [bind] in G; [|discriminate].
      unfold uses_clock. destruct (magic =? 1) eqn:M; injection G as <-; cbn [m_magic m_ts].
      - rewrite andb_false_r. reflexivity.
      - rewrite M. reflexivity. }
    split.
    + pose proof (created_gzip_view orc clock _ inner magic w 0 0 OR G U SF) as V.
      destruct (top_view_no_clock orc 0 (eclock ek) 0 w _ UW V) as [V' _].
      constructor; [exact V'|constructor].
    + intros m [<-|[]]. exact UW.
Qed.

(* the marker oracle of Model.MsgSet (used by the non-vacuity Examples) satisfies the hypothesis *)
Lemma marker_oracle_ok : oracle_gzip_ok marker_oracle.
Proof.
  intros x z B E. cbn in E. injection E as <-. split; [reflexivity|].
  cbn [bytes_ok forallb]. unfold bytes_ok in B. rewrite B. reflexivity.
Qed.
