(* Lemmas behind Props/C11.v: one correlation id issued again (EResend: what fetch_api_versions does for its retries).
   While the id is still in the broker client's table - unanswered, or timed out after it was written and neither
   answered nor disconnected since (the tombstone) - the re-issue is refused and changes nothing; so the late reply to
   the timed-out request can only meet the tombstone (C11_late_reply_inert) and never another request. *)
From AV Require Import Base.Util Proofs.UtilFacts Model.Framing Proofs.FramingFacts
  Proofs.BrokerClientTbl Proofs.BrokerClientInv Proofs.BrokerClientC06.
From AV Require Model.BrokerClient.
From AV Require Import Model.ClientReq Proofs.ClientReqBase Proofs.ClientReqStep Proofs.ClientReqC11.
From Coq Require Import Lia.

(* ------------------------------------------------------------------ an accepted re-issue arms its own timer *)
Lemma timer_at_reissue C d expect mint C' o : step C (EResend d expect mint) = (C', o) ->
  (forall k, ~ In (ORaised k) o) -> o <> [] ->
  filter is_k2 o = [OSched (length (c_timers C') - 1) 2 (delay_of C mint)]
  /\ length (c_direct C') = S (length (c_direct C)).
Proof.
  cbn [step]. intros H NR NE.
  destruct (c_clients C) as [cl|]; [|injection H as _ <-; exfalso; apply NE; reflexivity].
  destruct (nth_error (c_direct C) d) as [[i h0]|]; [|injection H as _ <-; exfalso; apply NE; reflexivity].
  set (rid := match nth_error (c_bcs C) i with
              | Some b => nth h0 (BrokerClient.t_dlog (BrokerClient.s_t (b_st b))) 0 | None => 0 end) in *.
  unfold make_req in H. destruct (nth_error (c_bcs C) i) as [b|] eqn:Eb.
  2:{ injection H as _ <-. exfalso. apply (NR 1). cbn. right. left. reflexivity. }
  pose proof (apply_bc_rest C i (BrokerClient.EMake rid expect)) as R3.
  destruct (apply_bc C i (BrokerClient.EMake rid expect)) as [C3 mo]. cbn [fst] in R3.
  destruct (raised_dup mo).
  { injection H as _ <-. exfalso. apply (NR 1). left. reflexivity. }
  pose proof (tr_list_no_k2 (filter (fun o0 => negb (is_def o0)) mo) C3 i) as K.
  pose proof (tr_list_rest (filter (fun o0 => negb (is_def o0)) mo) C3 i) as R4.
  destruct (tr_list C3 i (filter (fun o0 => negb (is_def o0)) mo)) as [C4 o4]. cbn [snd fst] in K, R4.
  assert (c_direct C4 = c_direct C) as Edir.
  { destruct R3 as (_&_&_&_&_&_&X&_). destruct R4 as (_&_&_&_&_&_&Y&_). congruence. }
  unfold new_timer in H.
  destruct (first_def mo); injection H as <- <-; cbn [c_direct with_direct upd_bc with_bcs c_timers with_timers];
    rewrite ?filter_app, K; cbn [filter is_k2 app]; rewrite app_length; cbn [length];
    (split; [repeat f_equal; lia | rewrite Edir; rewrite app_length; cbn; lia]).
Qed.

(* ------------------------------------------------------------------ the id is in the table: refused, nothing changes *)
Lemma nth_upd_fix {A} (f : A -> A) : forall l i x, nth_error l i = Some x -> f x = x -> nth_upd l i f = l.
Proof.
  induction l as [|y l IH]; intros [|i] x H E; cbn in *; try discriminate.
  - injection H as ->. rewrite E. reflexivity.
  - rewrite (IH i x H E). reflexivity.
Qed.

Lemma with_bcs_same C : with_bcs C (c_bcs C) = C.
Proof. destruct C. reflexivity. Qed.

Lemma same_id_refused C cl d i h0 b r expect mint :
  c_clients C = Some cl -> nth_error (c_direct C) d = Some (i, h0) -> nth_error (c_bcs C) i = Some b ->
  BrokerClient.lookup (nth h0 (BrokerClient.t_dlog (BrokerClient.s_t (b_st b))) 0) (BrokerClient.t_reqs (BrokerClient.s_t (b_st b))) = Some r ->
  step C (EResend d expect mint) = (C, [ORaised 1]).
Proof.
  intros Ec Ed Eb L. cbn [step]. rewrite Ec, Ed, Eb. unfold make_req. rewrite Eb.
  unfold apply_bc. rewrite Eb. cbn [BrokerClient.step]. unfold BrokerClient.make_request. rewrite L.
  cbn [raised_dup existsb orb]. cbn [app]. f_equal.
  unfold upd_bc. rewrite (nth_upd_fix _ _ _ b Eb); [apply with_bcs_same|]. destruct b. reflexivity.
Qed.

(* ------------------------------------------------------------------ timeout of a written request: the tombstone keeps the id *)
Lemma lookup_upd rid f : (forall r, BrokerClient.r_id (f r) = BrokerClient.r_id r) ->
  forall rs, BrokerClient.lookup rid (BrokerClient.upd rid f rs) = option_map f (BrokerClient.lookup rid rs).
Proof.
  intros Hf. unfold BrokerClient.lookup, BrokerClient.upd. induction rs as [|x rs IH]; cbn [map find]; [reflexivity|].
  destruct (BrokerClient.r_id x =? rid) eqn:E.
  - rewrite Hf, E. reflexivity.
  - rewrite E. exact IH.
Qed.

Lemma cancel_keeps_id s h r s' : CInv s -> In r (reqs s) -> BrokerClient.r_h r = h -> BrokerClient.r_sent r = true ->
  BrokerClient.step s (BrokerClient.ECancel h) = (s', [BrokerClient.ODef h BrokerClient.FailCancelled]) ->
  sdlog s' = sdlog s
  /\ BrokerClient.lookup (nth h (sdlog s') 0) (reqs s') = Some (BrokerClient.set_cancelled r).
Proof.
  intros I Hr Eh Es H. pose proof (ci_t s I) as T. unfold reqs, sdlog in *. destruct (TInv_entry _ _ T Hr) as (Dl & _).
  rewrite Eh in Dl. cbn [BrokerClient.step] in H. unfold BrokerClient.lift, BrokerClient.cancel in H.
  rewrite Dl in H.
  assert (BrokerClient.lookup (BrokerClient.r_id r) (BrokerClient.t_reqs (BrokerClient.s_t s)) = Some r) as L
    by (apply lookup_nodup; [apply (ti_ids _ T) | exact Hr | reflexivity]).
  destruct (BrokerClient.is_fired (BrokerClient.s_t s) h); [cbn in H; discriminate|].
  rewrite L, Es in H. unfold BrokerClient.fire in H.
  destruct (BrokerClient.is_fired _ h); cbn [fst snd] in H; [discriminate|].
  injection H as <-. cbn [BrokerClient.with_t BrokerClient.s_t BrokerClient.t_dlog BrokerClient.t_with_reqs BrokerClient.t_reqs].
  split; [reflexivity|].
  rewrite (nth_error_nth _ _ 0 Dl). rewrite lookup_upd by (intro; reflexivity). rewrite L. reflexivity.
Qed.

(* bound_direct, with what the timeout step leaves alone *)
Lemma bound_direct_rest C i b h d t to :
  TInvC [] C -> nth_error (c_bcs C) i = Some b -> nth_error (b_reqs b) h = Some (mkCreq (Direct d) (Some t) to) ->
  exists C' o, step C (ETimer t) = (C', o) /\ c_direct C' = c_direct C /\ c_clients C' = c_clients C
    /\ exists b', nth_error (c_bcs C') i = Some b'
                  /\ BrokerClient.step (b_st b) (BrokerClient.ECancel h) = (b_st b', [BrokerClient.ODef h BrokerClient.FailCancelled]).
Proof.
  intros T Eb Eq. cbn [step]. rewrite (timer_names _ _ _ _ _ _ T Eb Eq eq_refl).
  unfold creq_at. rewrite Eb, Eq. rewrite Nat.eqb_refl.
  destruct (timeout_wf C i h b (Direct d) t to T Eb Eq) as [Mo T2].
  set (C1 := upd_creq C i h (fun q => mkCreq (q_owner q) None true)) in *.
  unfold ev_bc at 1. unfold bc_event.
  assert (nth_error (c_bcs C1) i = Some (set_reqs (nth_upd (b_reqs b) h (fun q => mkCreq (q_owner q) None true)) b)) as Eb1.
  { unfold C1, upd_creq, upd_bc. cbn [c_bcs with_bcs]. rewrite (nth_upd_same _ _ _ _ Eb). reflexivity. }
  unfold apply_bc in *. rewrite Eb1 in *. cbn [set_reqs b_st] in *.
  destruct (BrokerClient.step (b_st b) (BrokerClient.ECancel h)) as [s' mo] eqn:Es. cbn [fst snd] in Mo, T2. subst mo.
  set (b2 := set_st s' (set_reqs (nth_upd (b_reqs b) h (fun q => mkCreq (q_owner q) None true)) b)).
  set (C2 := upd_bc C1 i (set_st s')) in *.
  assert (nth_error (c_bcs C2) i = Some b2) as Eb2.
  { unfold C2, upd_bc. cbn [c_bcs with_bcs]. rewrite (nth_upd_same _ _ _ _ Eb1). reflexivity. }
  assert (nth_error (b_reqs b2) h = Some (mkCreq (Direct d) None true)) as Eq2.
  { unfold b2. cbn [set_st set_reqs b_reqs]. rewrite (nth_upd_same _ _ _ _ Eq). reflexivity. }
  cbn [proc]. unfold on_def. rewrite Eb2, Eq2. cbn [q_timer q_to q_owner app].
  assert (c_cfg C2 = c_cfg C) as Ec by reflexivity. rewrite Ec.
  destruct (cancel_state _ _ _ _ Es) as (Ep & _ & _).
  destruct (g_dot (c_cfg C)) eqn:Ed; cbn [andb].
  - unfold ev_bc, bc_event, apply_bc. rewrite Eb2. unfold b2 at 1. cbn [set_st b_st BrokerClient.step].
    rewrite Ep. destruct (BrokerClient.s_proto (b_st b)); cbn [proc tr_out app].
    + eexists. eexists. split; [reflexivity|]. split; [reflexivity|]. split; [reflexivity|]. exists b2. split; [|reflexivity].
      unfold upd_bc. cbn [c_bcs with_bcs]. rewrite (nth_upd_same _ _ _ _ Eb2). reflexivity.
    + eexists. eexists. split; [reflexivity|]. split; [reflexivity|]. split; [reflexivity|]. exists b2. split; [|reflexivity].
      unfold upd_bc. cbn [c_bcs with_bcs]. rewrite (nth_upd_same _ _ _ _ Eb2). reflexivity.
  - eexists. eexists. split; [reflexivity|]. split; [reflexivity|]. split; [reflexivity|]. exists b2. split; [exact Eb2 | reflexivity].
Qed.

Lemma timed_out_id_reserved C cl i b h d t to r expect mint :
  TInvC [] C -> c_clients C = Some cl -> nth_error (c_direct C) d = Some (i, h) ->
  nth_error (c_bcs C) i = Some b -> nth_error (b_reqs b) h = Some (mkCreq (Direct d) (Some t) to) ->
  In r (reqs (b_st b)) -> BrokerClient.r_h r = h -> BrokerClient.r_sent r = true ->
  step (fst (step C (ETimer t))) (EResend d expect mint) = (fst (step C (ETimer t)), [ORaised 1]).
Proof.
  intros T Ec Ed Eb Eq Hr Eh Es.
  destruct (bound_direct_rest C i b h d t to T Eb Eq) as (C' & o & St & Dd & Cc & b' & Eb' & Ca).
  rewrite St. cbn [fst]. destruct (TInvC_bc _ _ _ _ T Eb) as (I & _).
  destruct (cancel_keeps_id _ _ _ _ I Hr Eh Es Ca) as [_ L].
  eapply same_id_refused; [rewrite Cc; exact Ec | rewrite Dd; exact Ed | exact Eb' | exact L].
Qed.

(* ------------------------------------------------------------------ the statements of Props/C11.v *)
Lemma c11_timed_out_id_reserved g evs cl i b h d t to r expect mint :
  c_clients (fst (run (init g) evs)) = Some cl -> nth_error (c_direct (fst (run (init g) evs))) d = Some (i, h) ->
  nth_error (c_bcs (fst (run (init g) evs))) i = Some b -> nth_error (b_reqs b) h = Some (mkCreq (Direct d) (Some t) to) ->
  In r (BrokerClient.t_reqs (BrokerClient.s_t (b_st b))) -> BrokerClient.r_h r = h -> BrokerClient.r_sent r = true ->
  step (fst (step (fst (run (init g) evs)) (ETimer t))) (EResend d expect mint)
  = (fst (step (fst (run (init g) evs)) (ETimer t)), [ORaised 1]).
Proof. intros. eapply timed_out_id_reserved; eauto. apply reachable_wf. Qed.
