(* C07/C08: the invariant WF of Model/ClientMeta.v is preserved by every client operation of
   Model/ClientRoute.v, hence holds in every state a history can reach ([reach]). *)
From AV Require Import Base.Util Model.ClientMeta Model.ClientRoute Proofs.ClientMetaDict Proofs.ClientMetaFacts.
From Coq Require Import Lia.

Lemma known_loop_WF : forall order st outs log st' log' r,
  WF st -> known_loop st order outs log = (st', log', r) -> WF st'.
Proof.
  induction order as [|n rest IH]; intros st outs log st' log' r Hwf H; simpl in H.
  - inversion H; subst. exact Hwf.
  - destruct (s_closed st); [inversion H; subst; exact Hwf|].
    destruct outs as [|o outs']; [inversion H; subst; exact Hwf|].
    destruct (request_on st n) as [[st1 a]|] eqn:Er; [|inversion H; subst; exact Hwf].
    pose proof (request_on_WF _ _ _ _ Hwf Er) as W1.
    destruct o.
    + eapply IH; [exact W1|exact H].
    + inversion H; subst. exact W1.
    + eapply IH; [apply close_early_WF; exact W1|exact H].
Qed.

Lemma boot_loop_WF : forall hosts st outs log st' log' r,
  WF st -> boot_loop st hosts outs log = (st', log', r) -> WF st'.
Proof.
  induction hosts as [|h rest IH]; intros st outs log st' log' r Hwf H; simpl in H.
  - inversion H; subst. exact Hwf.
  - destruct (s_closed st); [inversion H; subst; exact Hwf|].
    destruct outs as [|o outs']; [inversion H; subst; exact Hwf|].
    destruct o; try (inversion H; subst; exact Hwf);
      try (eapply IH; [exact Hwf|exact H]); (eapply IH; [apply close_early_WF; exact Hwf|exact H]).
Qed.

Lemma unaware_WF : forall st u st' log r, WF st -> unaware st u = (st', log, r) -> WF st'.
Proof.
  intros st u st' log r Hwf H. unfold unaware in H.
  destruct (s_closed st); [inversion H; subst; exact Hwf|].
  destruct (negb (perm_b Z.eqb (u_shuf u) (map fst (s_brokers st)))); [inversion H; subst; exact Hwf|].
  destruct (known_loop st (fallback_order st (u_shuf u)) (u_kouts u) []) as [[st1 log1] [r1|]] eqn:Ek.
  - inversion H; subst. eapply known_loop_WF; [exact Hwf|exact Ek].
  - pose proof (known_loop_WF _ _ _ _ _ _ _ Hwf Ek) as W1.
    destruct (negb (perm_b addr_eqb (u_bshuf u) (s_boot st1))); [inversion H; subst; exact W1|].
    eapply boot_loop_WF; [exact W1|exact H].
Qed.

Lemma load_metadata_WF : forall st full u r st' log gone res,
  WF st -> load_metadata st full u r = (st', log, gone, res) -> WF st'.
Proof.
  intros st full u r st' log gone res Hwf H. unfold load_metadata in H.
  destruct (unaware st u) as [[st1 log1] r1] eqn:Eu.
  pose proof (unaware_WF _ _ _ _ _ Hwf Eu) as W1.
  destruct r1; try (inversion H; subst; exact W1).
  pose proof (merge_WF st1 (norm_resp r) full W1) as W2.
  destruct (merge st1 (norm_resp r) full) as [[st2 g2] ok]. simpl in W2. inversion H; subst. exact W2.
Qed.

Lemma load_coordinator_WF : forall st g u c st' log ok,
  WF st -> load_coordinator st g u c = (st', log, ok) -> WF st'.
Proof.
  intros st g u c st' log ok Hwf H. unfold load_coordinator in H.
  destruct (unaware st u) as [[st1 log1] r1] eqn:Eu.
  pose proof (unaware_WF _ _ _ _ _ Hwf Eu) as W1.
  destruct r1; try (inversion H; subst; apply reset_group_WF; exact W1).
  destruct (fst c =? 0); inversion H; subst; [apply coord_ok_WF|apply reset_group_WF]; exact W1.
Qed.

Lemma resolve_leader_WF : forall st p loads st' loads' evs res,
  WF st -> resolve_leader st p loads = (st', loads', evs, res) -> WF st'.
Proof.
  intros st p loads st' loads' evs res Hwf H. unfold resolve_leader in H.
  assert (Hfin : forall st1 (l1 : list load) (e1 : list loadev) (err : option ekind), WF st1 ->
            match err with
            | Some e => (st1, l1, e1, inr e)
            | None => match leader_of st1 (p_key p) with
                      | None => (st1, l1, e1, inr EPartitionUnavailable)
                      | Some None => (st1, l1, e1, inr ELeaderUnavailable)
                      | Some (Some bm) => (st1, l1, e1, inl (fst bm))
                      end
            end = (st', loads', evs, res) -> WF st').
  { intros st1 l1 e1 err W1 H1. destruct err; [inversion H1; subst; exact W1|].
    destruct (leader_of st1 (p_key p)) as [[bm|]|]; inversion H1; subst; exact W1. }
  destruct (leader_of st (p_key p)) as [[bm|]|] eqn:El.
  - exact (Hfin st loads [] None Hwf H).
  - destruct loads as [|[u r|u c] loads0]; try exact (Hfin st _ [] (Some EScript) Hwf H).
    destruct (load_metadata st false u r) as [[[st1 log1] gone1] res1] eqn:Em.
    pose proof (load_metadata_WF _ _ _ _ _ _ _ _ Hwf Em) as W1.
    destruct res1; first [exact (Hfin st1 _ _ None W1 H) | exact (Hfin st1 _ _ (Some _) W1 H)].
  - destruct loads as [|[u r|u c] loads0]; try exact (Hfin st _ [] (Some EScript) Hwf H).
    destruct (load_metadata st false u r) as [[[st1 log1] gone1] res1] eqn:Em.
    pose proof (load_metadata_WF _ _ _ _ _ _ _ _ Hwf Em) as W1.
    destruct res1; first [exact (Hfin st1 _ _ None W1 H) | exact (Hfin st1 _ _ (Some _) W1 H)].
Qed.

Lemma resolve_coord_WF : forall st g loads st' loads' evs res,
  WF st -> resolve_coord st g loads = (st', loads', evs, res) -> WF st'.
Proof.
  intros st g loads st' loads' evs res Hwf H. unfold resolve_coord in H.
  destruct (dget Z.eqb g (s_g2c st)) as [bm|]; [inversion H; subst; exact Hwf|].
  destruct loads as [|[u r|u c] loads0]; try (inversion H; subst; exact Hwf).
  destruct (load_coordinator st g u c) as [[st1 log1] ok] eqn:Ec.
  pose proof (load_coordinator_WF _ _ _ _ _ _ _ Hwf Ec) as W1.
  destruct ok; [destruct (dget Z.eqb g (s_g2c st1))|]; inversion H; subst; exact W1.
Qed.

Lemma resolve_one_WF : forall st group p loads st' loads' evs res,
  WF st -> resolve_one st group p loads = (st', loads', evs, res) -> WF st'.
Proof.
  intros st [g|] p loads st' loads' evs res Hwf H; simpl in H;
    [eapply resolve_coord_WF|eapply resolve_leader_WF]; eassumption.
Qed.

Lemma resolve_loop_WF : forall ps st group loads acc evs st' evs' res,
  WF st -> resolve_loop st group ps loads acc evs = (st', evs', res) -> WF st'.
Proof.
  induction ps as [|p rest IH]; intros st group loads acc evs st' evs' res Hwf H; simpl in H.
  - inversion H; subst. exact Hwf.
  - destruct (resolve_one st group p loads) as [[[st1 loads1] ev] [n|e]] eqn:Er.
    + eapply IH; [|exact H]. eapply resolve_one_WF; eassumption.
    + inversion H; subst. eapply resolve_one_WF; eassumption.
Qed.

Lemma send_requests_WF : forall groups st outs sent st' sent' e,
  WF st -> send_requests st groups outs sent = (st', sent', e) -> WF st'.
Proof.
  induction groups as [|[n ps] rest IH]; intros st outs sent st' sent' e Hwf H; simpl in H.
  - inversion H; subst. exact Hwf.
  - destruct (s_closed st); [inversion H; subst; exact Hwf|].
    destruct outs as [|o outs']; [inversion H; subst; exact Hwf|].
    destruct (request_on st n) as [[st1 a]|] eqn:Er; [|inversion H; subst; exact Hwf].
    eapply IH; [|exact H]. eapply request_on_WF; eassumption.
Qed.

Lemma aware_WF : forall st group expect ps loads outs,
  WF st -> WF (a_state (aware st group expect ps loads outs)).
Proof.
  intros st group expect ps loads outs Hwf. unfold aware.
  destruct ps as [|p0 ps0]; [exact Hwf|]. remember (p0 :: ps0) as ps.
  destruct (resolve_loop st group ps loads [] []) as [[st1 evs] [resolved|e]] eqn:Er;
    pose proof (resolve_loop_WF _ _ _ _ _ _ _ _ _ Hwf Er) as W1; [|exact W1].
  destruct (send_requests st1 (group_by_node (resolved_pairs resolved)) outs []) as [[st2 sent] [e|]] eqn:Es;
    pose proof (send_requests_WF _ _ _ _ _ _ _ W1 Es) as W2; [exact W2|].
  destruct (collect expect _ _ [] []) as [acc failed].
  destruct failed; simpl; [exact W2|apply reset_all_WF; exact W2].
Qed.

Lemma send_public_WF : forall st group fail expect ps loads outs r st' res,
  WF st -> send_public st group fail expect ps loads outs = (r, st', res) -> WF st'.
Proof.
  intros st group fail expect ps loads outs r st' res Hwf H. unfold send_public in H.
  pose proof (aware_WF st group expect ps loads outs Hwf) as W1.
  destruct (a_res (aware st group expect ps loads outs)) as [rs|rs f|e].
  - destruct (handle_responses _ group fail rs []) as [st2 hr] eqn:Eh.
    destruct (handle_responses_facts _ _ _ _ _ _ _ W1 Eh) as [W2 _].
    destruct hr; inversion H; subst; exact W2.
  - inversion H; subst. exact W1.
  - inversion H; subst. exact W1.
Qed.

Lemma send_direct_WF : forall st group expect ps loads outs r st' res,
  WF st -> send_direct st group expect ps loads outs = (r, st', res) -> WF st'.
Proof.
  intros st group expect ps loads outs r st' res Hwf H. unfold send_direct in H. inversion H; subst.
  apply aware_WF. exact Hwf.
Qed.

Lemma send_coord_WF : forall st g p loads o r st' res,
  WF st -> send_coord st g p loads o = (r, st', res) -> WF st'.
Proof.
  intros st g p loads o r st' res Hwf H. unfold send_coord in H.
  destruct (resolve_coord st g loads) as [[[st1 loads1] evs] [n|e]] eqn:Er;
    pose proof (resolve_coord_WF _ _ _ _ _ _ _ Hwf Er) as W1; [|inversion H; subst; exact W1].
  destruct (s_closed st1); [inversion H; subst; exact W1|].
  destruct (request_on st1 n) as [[st2 a]|] eqn:Eq; [|inversion H; subst; exact W1].
  pose proof (request_on_WF _ _ _ _ W1 Eq) as W2.
  destruct o as [|[|r0 rs]]; try (inversion H; subst; exact W2).
  destruct (handle_responses st2 (Some g) true [r0] []) as [st3 hr] eqn:Eh.
  destruct (handle_responses_facts _ _ _ _ _ _ _ W2 Eh) as [W3 _].
  destruct hr; inversion H; subst; exact W3.
Qed.

(* ---- every state a history of client operations can reach -------------------------------------- *)
(* one constructor per op of Model/ClientRun.v run_ops; scripts, responses and outcomes are arbitrary *)
Inductive reach : state -> Prop :=
| R_init : forall boot, reach (init_state boot)
| R_meta : forall st full u r st' log gone res,
    reach st -> load_metadata st full u r = (st', log, gone, res) -> reach st'
| R_coord : forall st g u c st' log ok,
    reach st -> load_coordinator st g u c = (st', log, ok) -> reach st'
| R_public : forall st group fail expect ps loads outs r st' res,
    reach st -> send_public st group fail expect ps loads outs = (r, st', res) -> reach st'
| R_direct : forall st group expect ps loads outs r st' res,
    reach st -> send_direct st group expect ps loads outs = (r, st', res) -> reach st'
| R_sendcoord : forall st g p loads o r st' res,
    reach st -> send_coord st g p loads o = (r, st', res) -> reach st'
| R_reset_topics : forall st ts, reach st -> reach (reset_topics st ts)
| R_reset_all : forall st, reach st -> reach (reset_all st)
| R_reset_groups : forall st gs, reach st -> reach (reset_groups st gs)
| R_drop : forall st n, reach st -> reach (drop_conn st n)
| R_close : forall st, reach st -> reach (fst (close_client st))
| R_close_early : forall st, reach st -> reach (close_early st)
| R_hosts : forall st hs, reach st -> reach (set_boot st hs).

Lemma reach_WF : forall st, reach st -> WF st.
Proof.
  induction 1.
  - apply WF_init.
  - eapply load_metadata_WF; eassumption.
  - eapply load_coordinator_WF; eassumption.
  - eapply send_public_WF; eassumption.
  - eapply send_direct_WF; eassumption.
  - eapply send_coord_WF; eassumption.
  - apply reset_topics_WF; assumption.
  - apply reset_all_WF; assumption.
  - apply reset_groups_WF; assumption.
  - apply drop_conn_WF; assumption.
  - apply close_client_WF.
  - apply close_early_WF. assumption.
  - destruct IHreach as [H1 [H2 [H3 H4]]]. repeat split; assumption.
Qed.
