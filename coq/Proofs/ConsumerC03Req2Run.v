(* REQ2 at the level of events and whole runs.  Uses b-consumer-a's frame theorem (Proofs/ConsumerFrame.v run_frame,
   through fetchresp_exc of Proofs/ConsumerC02ReqRun.v) and the reachable-state invariant of Proofs/ConsumerRun.v:
   _stopping is clear between two events (stop() never aborts half-way). *)
From Coq Require Import Lia.
From AV Require Import Base.Util Model.Consumer Model.ConsumerLog Model.ConsumerLogC03 Proofs.ConsumerC02Wp
  Proofs.ConsumerC02Req Proofs.ConsumerC02ReqRun Proofs.ConsumerC03Req2.
From AV Require Proofs.ConsumerInv Proofs.ConsumerRun.

Ltac r_evcalls fuel := idtac; first [ d8 | lazymatch goal with
  | |- wp _ (run fuel (KFetchResp _ _)) _ _ _ =>
    eapply r_eq; [ solve [r_solve] |
      eapply wp_call; [ eapply wp_strengthen; [ intros ? ? ? E F; exact (fetchresp_exc _ _ _ _ _ _ _ E F)
                                              | eapply (r_run fuel); solve [r_solve] ]
                      | let r := fresh "r" in let H := fresh "P" in
                        intros r ? ? H; unfold QI2 in H; r_destr_post H; r_rw_hyps; tt_fwd; destruct r; cbn beta iota ] ]
  | |- wp _ (run fuel _) _ _ _ => r_docall (r_run fuel)
  | |- wp _ (api_stop _) _ _ _ => r_docall (r_api_stop _ (r_run fuel))
  | |- wp _ api_commit _ _ _ => r_docall r_api_commit
  | |- wp _ (api_shutdown _) _ _ _ => r_docall (r_api_shutdown _ (r_run fuel))
  | |- wp _ (handle_commit_error _ _ _ _) _ _ _ => r_docall (r_handle_commit_error _ (r_run fuel)) end ].

Lemma r_handle fuel e s : kind_ok s = true -> c_ok s = true -> s_stopping s = false ->
  wr (handle fuel e) (QI2 s) (req2_ev (req2_abs s) e) s.
Proof.
  intros K C St. unfold handle. destruct e; cbn [req2_ev req_ev].
  all: unfold handle_offset_response, flush_pend.
  all: repeat (first [ r_flush | q_stif | r_emit | wp_step ltac:(r_evcalls fuel) ]).
  all: try solve [r_solve].
  (* a fetch reply whose handling raised: no request outstanding, no reply parked (fetchresp_exc) *)
  - match goal with H : _ \/ _ |- _ => destruct H as [H | H]; unfold req_pending; rewrite H; reflexivity end.
  - match goal with H : forall x : Z, _ -> parked _ = false |- _ => eapply H; reflexivity end.
Qed.

(* between two events: the reachable-state invariant (in particular _stopping is clear), REQ's and the commit side's *)
Definition Inv2 (n0 : Z) (s : state) : Prop := ConsumerRun.Reach n0 s /\ kind_ok s = true /\ c_ok s = true.

Lemma r_step n0 fuel s e s' o : Inv2 n0 s -> step fuel s e = (s', o) -> fuel_ok o = true ->
  gouts req2_out (req2_ev (req2_abs s) e) o = Some (req2_abs s') /\ Inv2 n0 s'.
Proof.
  intros (R & K & C) E F. pose proof (ConsumerRun.reach_step _ _ _ _ _ _ R E F) as R'.
  assert (St : s_stopping s = false) by (destruct R as ((_ & St) & _); exact St).
  unfold step in E.
  destruct ((handle fuel e;;; s'0 <- get;; emit (OEnd (s_lp s'0) (s_lc s'0))) s) as [[r s1] o1] eqn:E1.
  inversion E; subst s1 o1; clear E.
  assert (W : wr (handle fuel e;;; s'0 <- get;; emit (OEnd (s_lp s'0) (s_lc s'0)))
                 (fun _ g' s' => g' = req2_abs s' /\ kind_ok s' = true /\ c_ok s' = true) (req2_ev (req2_abs s) e) s).
  { apply wp_bind. eapply wp_call; [ apply r_handle; assumption |].
    intros r0 g' s0 (-> & K0 & C0 & _). destruct r0; cbn beta iota; [| repeat split; auto].
    r_walk idtac. all: try solve [r_solve].
    unfold req2_abs, req_abs, req2_out; cbn [req_out q2 q_lc]. destruct (s_lc s0); cbn [oz_eqb]; rewrite ?Z.eqb_refl; reflexivity. }
  destruct (W _ _ _ E1 F) as (g' & Hg & -> & K' & C'). split; [exact Hg | split; [exact R' | split; assumption]].
Qed.

(* the monitor REQ2 accepts every run of the model that does not run out of fuel *)
Theorem req2_monitor_accepts fuel c maxatt buf evs :
  run_fuel_ok fuel c maxatt buf evs = true ->
  mon_run req2_ev req2_out q20 (model_obs fuel c maxatt buf evs)
  = Some (req2_abs (fst (run_events fuel (init c maxatt buf) evs))).
Proof.
  intro F. unfold model_obs, run_fuel_ok in *.
  change q20 with (req2_abs (init c maxatt buf)).
  refine (proj1 (mon_run_abs greq2 req2_out req2_ev req2_abs (Inv2 maxatt) _ fuel evs _ _ F)).
  - intros. eapply r_step; eauto.
  - split; [apply ConsumerRun.reach_init | split; reflexivity].
Qed.
Print Assumptions req2_monitor_accepts.
