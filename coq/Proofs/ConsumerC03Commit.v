(* The monitor C3 of Model/ConsumerLogC03.v (commit requests against what was delivered and successfully processed, the
   coordinator's offset store) accepts every trace that PWB accepts: its extra checks follow from PWB's by reasoning on
   the two automata alone.  With Proofs/ConsumerC03PwbRun.v: C3 accepts every run of the consumer model. *)
From Coq Require Import Lia.
From AV Require Import Base.Util Model.Consumer Model.ConsumerLog Model.ConsumerLogFifo Model.ConsumerLogC03.

Lemma is_prefix_app a x : is_prefix a (a ++ x) = true.
Proof. induction a as [|y a IH]; cbn; [reflexivity|]. rewrite Z.eqb_refl. exact IH. Qed.
Lemma last_cons_ne (x : Z) l d : l <> [] -> List.last (x :: l) d = List.last l d.
Proof. destruct l; [contradiction | reflexivity]. Qed.
Lemma last_app_ne (a b : list Z) d : b <> [] -> List.last (a ++ b) d = List.last b d.
Proof.
  intro H. induction a as [|x a IH]; [reflexivity|]. cbn [app]. rewrite last_cons_ne; [exact IH|].
  destruct a; cbn; [exact H | discriminate].
Qed.
Lemma last_cons_def (x : Z) l d d' : List.last (x :: l) d = List.last (x :: l) d'.
Proof. revert x. induction l as [|y l IH]; intro x; [reflexivity|]. cbn [List.last] in *. apply IH. Qed.

(* what C3's state satisfies whenever its PWB part does not reject *)
Record c3_inv (g : gc3) : Prop := mkI {
  i_win : match w_st (b_pw (m_b g)) with
          | PIdle => m_cur g = []
          | PApi l _ | PPend l => m_cur g <> [] /\ List.last (m_cur g) 0 = l /\ b_bad (m_b g) = false
          end;
  i_D : exists F, m_D g = m_ok g ++ m_cur g ++ F /\ (b_bad (m_b g) = false -> F = []);
  i_lp : m_ok g <> [] -> w_lp (b_pw (m_b g)) = Some (List.last (m_ok g) 0);
  i_ends : processed_end g (w_lp (b_pw (m_b g)));
  i_co : match m_co g with Some off => processed_end g off | None => True end;
  i_sent : Forall (processed_end g) (m_sent g);
  i_store : processed_end g (m_store g)
}.

Lemma c30_inv : c3_inv c30.
Proof. constructor; cbn; auto. - exists []. auto. - intro N. contradiction. Qed.

Lemma pe_mono g g' off : (forall l, In l (m_ends g) -> In l (m_ends g')) -> processed_end g off -> processed_end g' off.
Proof. destruct off; cbn; auto. Qed.

(* the invariant depends on the PWB part only through its window state, last processed offset and failure bit *)
Lemma inv_same g b' : c3_inv g ->
  w_st (b_pw b') = w_st (b_pw (m_b g)) -> w_lp (b_pw b') = w_lp (b_pw (m_b g)) -> b_bad b' = b_bad (m_b g) ->
  c3_inv (set_b g b').
Proof.
  intros [Hw HD Hlp He Hco Hs Hst] E1 E2 E3.
  constructor; cbn [set_b m_b m_cur m_D m_ok m_ends m_co m_sent m_store processed_end] in *; rewrite ?E1, ?E2, ?E3; auto.
Qed.

(* the invocation of m_cur ends with result code r (not 2): success appends it to m_ok, failure leaves it delivered only *)
Lemma finish_inv g r b' lp0 :
  m_cur g <> [] -> m_D g = m_ok g ++ m_cur g -> (m_ok g <> [] -> lp0 = Some (List.last (m_ok g) 0)) ->
  processed_end g lp0 -> match m_co g with Some off => processed_end g off | None => True end ->
  Forall (processed_end g) (m_sent g) -> processed_end g (m_store g) ->
  r <> 2 -> w_st (b_pw b') = PIdle ->
  w_lp (b_pw b') = (if r =? 0 then Some (List.last (m_cur g) 0) else lp0) ->
  (r <> 0 -> b_bad b' = true) ->
  c3_inv (set_b (c3_finish g r) b').
Proof.
  intros NE HD Hlp He Hco Hs Hst R2 ST LP BAD.
  unfold c3_finish. destruct (r =? 2) eqn:E2; [apply Z.eqb_eq in E2; contradiction|].
  destruct (r =? 0) eqn:E0.
  - constructor; cbn [set_b m_b m_cur m_D m_ok m_ends m_co m_sent m_store processed_end].
    + rewrite ST. reflexivity.
    + exists []. rewrite HD. rewrite !app_nil_r. auto.
    + intros _. rewrite LP. f_equal. symmetry. apply last_app_ne. exact NE.
    + rewrite LP. apply in_or_app. right. left. reflexivity.
    + destruct (m_co g) as [off|]; auto. eapply pe_mono; [|exact Hco]. cbn. intros. apply in_or_app; auto.
    + eapply Forall_impl; [|exact Hs]. intros a Ha. eapply pe_mono; [|exact Ha]. cbn. intros. apply in_or_app; auto.
    + eapply pe_mono; [|exact Hst]. cbn. intros. apply in_or_app; auto.
  - constructor; cbn [set_b m_b m_cur m_D m_ok m_ends m_co m_sent m_store processed_end].
    + rewrite ST. reflexivity.
    + exists (m_cur g). split; [rewrite HD; reflexivity|]. intro B. rewrite BAD in B; [discriminate B|]. apply Z.eqb_neq. exact E0.
    + intro N. rewrite LP. apply Hlp. exact N.
    + rewrite LP. exact He.
    + exact Hco.
    + exact Hs.
    + exact Hst.
Qed.

Lemma fails_spec r : r <> 2 -> fails r = negb (r =? 0).
Proof. intro H. unfold fails. apply Z.eqb_neq in H. rewrite H. reflexivity. Qed.
Lemma oz_eqb_eq a b : oz_eqb a b = true -> a = b.
Proof. destruct a, b; cbn; try discriminate; auto. intro H. apply Z.eqb_eq in H. congruence. Qed.

(* D = ok ++ cur while no failure is recorded *)
Lemma inv_D_good g : c3_inv g -> b_bad (m_b g) = false -> m_D g = m_ok g ++ m_cur g.
Proof. intros [_ [F [HD HF]] _ _ _ _ _] B. rewrite (HF B), app_nil_r in HD. exact HD. Qed.

Lemma c3_out_ok g o b' : c3_inv g -> pwb_out (m_b g) o = Some b' ->
  exists g', c3_out g o = Some g' /\ m_b g' = b' /\ c3_inv g'.
Proof.
  intros I P. unfold c3_out. rewrite P.
  assert (SAME : forall x, pw_out (b_pw (m_b g)) o = Some x -> x = b_pw (m_b g) -> bad_after (m_b g) o = b_bad (m_b g) ->
                 (match o with OCallProc _ => b_bad (m_b g) | _ => false end) = false ->
                 c3_inv (set_b g b')).
  { intros x Px -> Bx Cx. unfold pwb_out in P. rewrite Cx, Px, Bx in P. inversion P; subst b'. apply inv_same; auto. }
  unfold pwb_out in P.
  Ltac gen P b' := solve [ eexists; split; [reflexivity|]; split; [reflexivity|]; inversion P; subst b'; apply inv_same; auto ].
  destruct o; cbn [bad_after] in P.
  - gen P b'. - gen P b'. - gen P b'.
  - (* OCommit *)
    cbn [pw_out] in P. destruct (oz_eqb off (w_lp (b_pw (m_b g)))) eqn:EQ; [|discriminate P]. inversion P; subst b'; clear P.
    apply oz_eqb_eq in EQ. pose proof I as [Hw [F [HD HF]] Hlp He Hco Hs Hst].
    assert (CO : commit_ok g off = true).
    { unfold commit_ok. rewrite HD, is_prefix_app. cbn [andb]. destruct (m_ok g) eqn:EO; [reflexivity|].
      rewrite <- EO in *. rewrite EQ, Hlp; [|rewrite EO; discriminate]. cbn. apply Z.eqb_refl. }
    rewrite CO. eexists. split; [reflexivity|]. split; [reflexivity|].
    constructor; cbn [set_b m_b m_cur m_D m_ok m_ends m_co m_sent m_store processed_end b_pw b_bad]; auto.
    + exists F. auto.
    + rewrite EQ. exact He.
    + apply Forall_app. split; [exact Hs|]. constructor; [|constructor]. rewrite EQ. exact He.
  - (* OCallProc *)
    destruct (b_bad (m_b g)) eqn:BB; [discriminate P|].
    cbn [pw_out] in P. destruct (w_st (b_pw (m_b g))) eqn:ST; try discriminate P.
    destruct offs as [|m0 tl]; [discriminate P|].
    pose proof I as [Hw HDx Hlp He Hco Hs Hst]. rewrite ST in Hw.
    pose proof (inv_D_good g I BB) as HD. rewrite Hw, app_nil_r in HD.
    set (p := match w_plan (b_pw (m_b g)) with [] => (0, 2) | p :: _ => p end) in *.
    set (g1 := mkC3 b' (m0 :: tl) (m_D g ++ m0 :: tl) (m_ok g) (m_ends g) (m_co g) (m_sent g) (m_store g)).
    assert (L0 : List.last (m0 :: tl) 0 = List.last (m0 :: tl) m0) by apply last_cons_def.
    assert (WIN : forall l r, w_st (b_pw b') = PApi l r \/ w_st (b_pw b') = PPend l -> l = List.last (m0 :: tl) m0 ->
                  w_lp (b_pw b') = w_lp (b_pw (m_b g)) -> b_bad b' = false -> c3_inv g1).
    { intros l r W -> LP B. constructor; cbn [g1 m_b m_cur m_D m_ok m_ends m_co m_sent m_store processed_end]; auto.
      - destruct W as [W|W]; rewrite W; (split; [discriminate|]; split; [exact L0 | exact B]).
      - exists []. rewrite HD, app_nil_r. auto.
      - rewrite LP. exact Hlp.
      - rewrite LP. exact He. }
    assert (FIN : forall r, r <> 2 -> w_st (b_pw b') = PIdle ->
                  w_lp (b_pw b') = (if r =? 0 then Some (List.last (m0 :: tl) m0) else w_lp (b_pw (m_b g))) ->
                  b_bad b' = negb (r =? 0) ->
                  c3_inv (c3_finish g1 (if b_bad b' then 1 else 0))).
    { intros r R2 W LP B.
      replace (c3_finish g1 (if b_bad b' then 1 else 0)) with (set_b (c3_finish g1 (if b_bad b' then 1 else 0)) b')
        by (unfold c3_finish, set_b, g1; destruct (b_bad b'); reflexivity).
      eapply finish_inv with (lp0 := w_lp (b_pw (m_b g)));
        cbn [g1 m_b m_cur m_D m_ok m_ends m_co m_sent m_store processed_end]; auto.
      - discriminate.
      - rewrite HD. reflexivity.
      - destruct (b_bad b'); discriminate.
      - rewrite LP, B, L0. destruct (r =? 0); reflexivity.
      - rewrite B. destruct (r =? 0); cbn; [intro X; exfalso; apply X; reflexivity | reflexivity]. }
    destruct ((fst p =? 1) || (fst p =? 2) || (fst p =? 3)) eqn:API.
    + inversion P; subst b'; clear P. cbn [b_pw w_st]. eexists. split; [reflexivity|]. split; [reflexivity|].
      apply (WIN (List.last (m0 :: tl) m0) (snd p)); cbn [b_pw b_bad w_st w_lp]; auto.
      destruct (w_plan (b_pw (m_b g))) as [|q ?]; [reflexivity|]. subst p. rewrite API. reflexivity.
    + assert (BA : match w_plan (b_pw (m_b g)) with [] => false | q :: _ => if (fst q =? 1) || (fst q =? 2) || (fst q =? 3) then false else fails (snd q) end
                   = (if snd p =? 2 then false else fails (snd p))).
      { subst p. destruct (w_plan (b_pw (m_b g))) as [|q ?]; [reflexivity|]. rewrite API. destruct (snd q =? 2) eqn:E; [|reflexivity].
        unfold fails. rewrite E. reflexivity. }
      rewrite BA in P. unfold pw_finish in P. cbn [w_plan w_lp] in P.
      destruct (snd p =? 2) eqn:R2.
      * inversion P; subst b'; clear P. cbn [b_pw w_st]. eexists. split; [reflexivity|]. split; [reflexivity|].
        apply (WIN (List.last (m0 :: tl) m0) 0); cbn [b_pw b_bad w_st w_lp]; auto.
      * apply Z.eqb_neq in R2. rewrite (fails_spec _ R2) in P.
        destruct (snd p =? 0) eqn:R0; inversion P; subst b'; clear P; cbn [b_pw w_st];
          (eexists; split; [reflexivity|]; split; [reflexivity|]);
          apply (FIN (snd p) R2); cbn [b_pw b_bad w_st w_lp]; rewrite ?R0; reflexivity.
  - gen P b'.
  - gen P b'.
  - (* OCancelReq *) cbn [pw_out] in P. inversion P; subst b'; clear P. destruct (kind =? R_COMMIT).
    + eexists. split; [reflexivity|]. split; [reflexivity|]. destruct I as [Hw HD Hlp He Hco Hs Hst].
      constructor; cbn [set_b m_b m_cur m_D m_ok m_ends m_co m_sent m_store processed_end b_pw b_bad] in *; auto.
    + eexists. split; [reflexivity|]. split; [reflexivity|]. apply inv_same; auto.
  - (* OCancelProc *)
    cbn [pw_out] in P. destruct (w_st (b_pw (m_b g))) eqn:ST; try discriminate P. inversion P; subst b'; clear P.
    pose proof I as [Hw HDx Hlp He Hco Hs Hst]. rewrite ST in Hw. destruct Hw as (NE & LL & BB).
    eexists. split; [reflexivity|]. split; [reflexivity|].
    eapply finish_inv with (lp0 := w_lp (b_pw (m_b g))); cbn [b_pw b_bad w_st w_lp]; auto.
    + apply inv_D_good; auto.
    + discriminate.
  - gen P b'. - gen P b'. - gen P b'. - gen P b'.
  - (* ORet *)
    cbn [pw_out] in P. destruct (w_st (b_pw (m_b g))) eqn:ST.
    + eexists. split; [reflexivity|]. split; [reflexivity|]. inversion P; subst b'. apply inv_same; auto.
    + inversion P; subst b'; clear P. pose proof I as [Hw HDx Hlp He Hco Hs Hst]. rewrite ST in Hw. destruct Hw as (NE & LL & BB).
      eexists. split; [reflexivity|]. split; [reflexivity|]. rewrite BB. cbn [orb].
      unfold pw_finish. cbn [w_plan w_lp]. destruct (r =? 2) eqn:R2.
      * apply Z.eqb_eq in R2. subst r. unfold c3_finish. cbn [Z.eqb Pos.eqb].
        constructor; cbn [set_b m_b m_cur m_D m_ok m_ends m_co m_sent m_store processed_end b_pw b_bad w_st w_lp]; auto.
        exists []. rewrite (inv_D_good g I BB), app_nil_r. auto.
      * apply Z.eqb_neq in R2. rewrite (fails_spec _ R2).
        eapply finish_inv with (lp0 := w_lp (b_pw (m_b g))); auto.
        -- apply inv_D_good; auto.
        -- destruct (r =? 0); reflexivity.
        -- destruct (r =? 0) eqn:R0; cbn [b_pw w_lp]; [rewrite LL|]; reflexivity.
        -- intro N. apply Z.eqb_neq in N. rewrite N. destruct (r =? 0) eqn:R0; [discriminate N|]. reflexivity.
    + eexists. split; [reflexivity|]. split; [reflexivity|]. inversion P; subst b'. apply inv_same; auto.
  - (* ORaised *)
    cbn [pw_out] in P. destruct (w_st (b_pw (m_b g))) eqn:ST.
    + eexists. split; [reflexivity|]. split; [reflexivity|]. inversion P; subst b'. apply inv_same; auto.
    + inversion P; subst b'; clear P. pose proof I as [Hw HDx Hlp He Hco Hs Hst]. rewrite ST in Hw. destruct Hw as (NE & LL & BB).
      eexists. split; [reflexivity|]. split; [reflexivity|]. rewrite BB. cbn [orb].
      unfold pw_finish. cbn [w_plan w_lp]. destruct (r =? 2) eqn:R2.
      * apply Z.eqb_eq in R2. subst r. unfold c3_finish. cbn [Z.eqb Pos.eqb].
        constructor; cbn [set_b m_b m_cur m_D m_ok m_ends m_co m_sent m_store processed_end b_pw b_bad w_st w_lp]; auto.
        exists []. rewrite (inv_D_good g I BB), app_nil_r. auto.
      * apply Z.eqb_neq in R2. rewrite (fails_spec _ R2).
        eapply finish_inv with (lp0 := w_lp (b_pw (m_b g))); auto.
        -- apply inv_D_good; auto.
        -- destruct (r =? 0); reflexivity.
        -- destruct (r =? 0) eqn:R0; cbn [b_pw w_lp]; [rewrite LL|]; reflexivity.
        -- intro N. apply Z.eqb_neq in N. rewrite N. destruct (r =? 0) eqn:R0; [discriminate N|]. reflexivity.
    + eexists. split; [reflexivity|]. split; [reflexivity|]. inversion P; subst b'. apply inv_same; auto.
  - gen P b'.
  - (* OEnd *) cbn [pw_out] in P. destruct (oz_eqb lp (w_lp (b_pw (m_b g)))); [|discriminate P]. gen P b'.
  - gen P b'.
Qed.

Lemma c3_ev_ok g s e : c3_inv g -> m_b (c3_ev g s e) = pwb_ev (m_b g) s e /\ c3_inv (c3_ev g s e).
Proof.
  intros I. pose proof I as [Hw HD Hlp He Hco Hs Hst].
  assert (SAME : forall b', w_st (b_pw b') = w_st (b_pw (m_b g)) -> w_lp (b_pw b') = w_lp (b_pw (m_b g)) ->
                 b_bad b' = b_bad (m_b g) -> m_b (set_b g b') = b' /\ c3_inv (set_b g b')).
  { intros b' E1 E2 E3. split; [reflexivity|]. apply inv_same; auto. }
  destruct e; unfold c3_ev; cbn [pwb_ev pw_ev]; try (apply SAME; reflexivity).
  - (* EStart *) destruct (is_none (s_startd s)); [|auto]. split; [reflexivity|].
    constructor; cbn [m_b m_cur m_D m_ok m_ends m_co m_sent m_store processed_end b_pw b_bad]; auto.
    + destruct (w_st (b_pw (m_b g))); auto. destruct Hw as (? & ? & _). auto. destruct Hw as (? & ? & _). auto.
    + exists []. rewrite app_nil_r. auto.
    + intro N. contradiction.
  - (* EProcFire *) destruct (w_st (b_pw (m_b g))) eqn:ST; try (apply SAME; cbn [b_pw b_bad w_st w_lp]; rewrite ?ST; reflexivity).
    destruct Hw as (NE & LL & BB). split; [reflexivity|].
    eapply finish_inv with (lp0 := w_lp (b_pw (m_b g))); cbn [b_pw b_bad w_st w_lp]; auto.
    + apply inv_D_good; auto.
    + destruct ok; discriminate.
    + destruct ok; cbn; [rewrite LL|]; reflexivity.
    + destruct ok; [intro X; exfalso; apply X; reflexivity|]. intros _. rewrite BB. reflexivity.
  - (* ECommitOk *) destruct (m_co g) as [off|] eqn:CO; [|apply SAME; reflexivity]. split; [reflexivity|].
    constructor; cbn [m_b m_cur m_D m_ok m_ends m_co m_sent m_store processed_end b_pw b_bad]; auto.
  - (* ECommitFail *) split; [reflexivity|].
    constructor; cbn [m_b m_cur m_D m_ok m_ends m_co m_sent m_store processed_end b_pw b_bad]; auto.
Qed.

Lemma c3_outs_ok o : forall g b', c3_inv g -> gouts pwb_out (m_b g) o = Some b' ->
  exists g', gouts c3_out g o = Some g' /\ m_b g' = b' /\ c3_inv g'.
Proof.
  induction o as [|x o IH]; intros g b' I H; cbn [gouts] in *.
  - inversion H; subst. eauto.
  - destruct (pwb_out (m_b g) x) as [b1|] eqn:E; [|discriminate H].
    destruct (c3_out_ok g x b1 I E) as (g1 & -> & <- & I1). eauto.
Qed.

(* C3 accepts every trace PWB accepts *)
Lemma c3_of_pwb (tr : list tstep) : forall g b', c3_inv g -> mon_run_s pwb_ev pwb_out (m_b g) tr = Some b' ->
  exists g', mon_run_s c3_ev c3_out g tr = Some g' /\ m_b g' = b' /\ c3_inv g'.
Proof.
  induction tr as [|[[[s e] o] s1] tr IH]; intros g b' I H; cbn [mon_run_s] in *.
  - inversion H; subst. eauto.
  - destruct (c3_ev_ok g s e I) as [Eb Ie]. rewrite <- Eb in H.
    destruct (gouts pwb_out (m_b (c3_ev g s e)) o) as [b1|] eqn:E; [|discriminate H].
    destruct (c3_outs_ok o _ _ Ie E) as (g1 & -> & <- & I1). eauto.
Qed.
