(* self.close_dlist accounts for every broker client that is still closing (Props/C20.v, close_fires_last). *)
From AV Require Import Base.Util Proofs.UtilFacts Model.Framing Proofs.FramingFacts
  Proofs.BrokerClientTbl Proofs.BrokerClientInv Proofs.BrokerClientC06 Proofs.BrokerClientC10.
From AV Require Model.BrokerClient.
From AV Require Import Model.ClientReq Proofs.ClientReqBase Proofs.ClientReqStep Proofs.ClientReqC11 Proofs.ClientReqMono
  Proofs.ClientReqClosed Proofs.ClientReqStruct Proofs.ClientReqC20.
From Coq Require Import Lia.

(* ------------------------------------------------------------------ self.close_dlist awaits every broker client that is still closing *)
Definition pend_s (s : BrokerClient.state) : Prop := BrokerClient.s_down s = BrokerClient.DPending.
Definition in_dl (C : cstate) (i : nat) : Prop := match c_dl C with Some l => In i l | None => False end.
(* [exd]: broker clients being closed by the _close_brokerclients call in progress (not yet in the new DeferredList) *)
Definition sts (C : cstate) : list BrokerClient.state := map b_st (c_bcs C).
Lemma sts_upd_keep C i f : (forall b, b_st (f b) = b_st b) -> sts (upd_bc C i f) = sts C.
Proof. intro F. unfold sts. cbn. rewrite (map_nth_upd b_st f (fun x => x) F). apply nth_upd_id. reflexivity. Qed.

Lemma sts_set_st C i s' : sts (upd_bc C i (set_st s')) = nth_upd (sts C) i (fun _ => s').
Proof. unfold sts. cbn. apply map_nth_upd. reflexivity. Qed.

Lemma sts_nth C i b : nth_error (c_bcs C) i = Some b -> nth_error (sts C) i = Some (b_st b).
Proof. intro H. unfold sts. rewrite nth_error_map, H. reflexivity. Qed.

Lemma bc_pending_sts C i s : nth_error (sts C) i = Some s -> (bc_pending C i = true <-> pend_s s).
Proof.
  unfold sts. rewrite nth_error_map. destruct (nth_error (c_bcs C) i) as [b|] eqn:Hb; [|discriminate]. cbn. intro H. injection H as <-.
  unfold bc_pending, bc_down, bc_st, pend_s. rewrite Hb. destruct (BrokerClient.s_down (b_st b)); split; congruence.
Qed.

Section DPass.
(* [Q C i]: broker client i is accounted for (by self.close_dlist, or by a fixed list) *)
Variable Q : cstate -> nat -> Prop.
Definition D1 (exd : list nat) (C : cstate) : Prop :=
  forall i s, nth_error (sts C) i = Some s -> pend_s s -> Q C i \/ In i exd.
Hypothesis Q_frame : forall C C' i, c_dl C' = c_dl C -> Q C i -> Q C' i.
Hypothesis Q_refresh : forall exd C, D1 exd C -> D1 exd (fst (dl_refresh C)).

Lemma D_frame exd C C' : sts C' = sts C -> c_dl C' = c_dl C -> D1 exd C -> D1 exd C'.
Proof. intros E1 E2 D i s H P. rewrite E1 in H. destruct (D i s H P) as [X|X]; [left; apply (Q_frame C C' i E2 X) | right; exact X]. Qed.

Lemma D_more exd exd' C : D1 exd C -> incl exd exd' -> D1 exd' C.
Proof. intros D I i s H P. destruct (D i s H P); auto. Qed.


(* M7: only close() makes a broker client "closing" *)
Lemma fire_down_down x : BrokerClient.s_down (fst (BrokerClient.fire_down x)) = BrokerClient.DPending -> False.
Proof. unfold BrokerClient.fire_down. destruct (BrokerClient.s_down x) eqn:E; cbn; congruence. Qed.

Lemma pending_before s e s' mo : BrokerClient.step s e = (s', mo) -> e <> BrokerClient.EClose -> pend_s s' -> pend_s s.
Proof.
  unfold pend_s. intros H N P. destruct e; cbn [BrokerClient.step] in H; try congruence.
  - unfold BrokerClient.make_request in H. destruct (BrokerClient.lookup rid _); [injection H as <- _; exact P|].
    destruct (BrokerClient.s_down s) eqn:D; [|reflexivity|].
    + destruct (BrokerClient.s_proto s).
      * unfold BrokerClient.lift in H. injection H as <- _. cbn in P. congruence.
      * destruct (BrokerClient.s_connector s); injection H as <- _; cbn in P; congruence.
    + unfold BrokerClient.lift in H. injection H as <- _. cbn in P. congruence.
  - unfold BrokerClient.lift in H. injection H as <- _. exact P.
  - destruct (BrokerClient.s_connector s); try (injection H as <- _; exact P).
    destruct (BrokerClient.s_down _) eqn:D in H.
    + unfold BrokerClient.lift in H. injection H as <- _. cbn in *. congruence.
    + injection H as <- _. cbn in *. congruence.
    + injection H as <- _. cbn in *. congruence.
  - destruct (BrokerClient.s_connector s); try (injection H as <- _; exact P).
    destruct (BrokerClient.s_down s) eqn:D.
    + injection H as <- _. cbn in P. congruence.
    + exfalso. apply (fire_down_down (BrokerClient.with_connector s BrokerClient.CStale)). rewrite H. exact P.
    + exfalso. apply (fire_down_down (BrokerClient.with_connector s BrokerClient.CStale)). rewrite H. exact P.
  - destruct (BrokerClient.s_proto s); [|injection H as <- _; exact P].
    match type of H with (match ?d with _ => _ end) = _ => destruct d eqn:D end.
    + destruct (map _ _); [injection H as <- _; cbn in *; congruence|]. unfold BrokerClient.connect, BrokerClient.try_connect in H.
      injection H as <- _. cbn in *. congruence.
    + exfalso. eapply fire_down_down. rewrite H. exact P.
    + exfalso. eapply fire_down_down. rewrite H. exact P.
  - destruct (BrokerClient.s_proto s); [|injection H as <- _; exact P].
    unfold BrokerClient.data_in in H. destruct (data_received _ _ _) as [fs e]. destruct (BrokerClient.deliver _ _) as [t1 o1].
    destruct e; injection H as <- _; cbn in P; exact P.
  - destruct (BrokerClient.s_proto s); [|injection H as <- _; exact P].
    unfold BrokerClient.data_in in H. destruct (data_received _ _ _) as [fs e]. destruct (BrokerClient.deliver _ _) as [t1 o1].
    destruct e; injection H as <- _; cbn in P; exact P.
  - destruct (BrokerClient.s_connector s); injection H as <- _; cbn in *; exact P.
  - destruct (BrokerClient.s_proto s); injection H as <- _; exact P.
  - destruct same; injection H as <- _; cbn in *; exact P.
Qed.

Lemma apply_bc_D exd C i e : D1 exd C -> (e = BrokerClient.EClose -> In i exd) -> D1 exd (fst (apply_bc C i e)).
Proof.
  intros D X. unfold apply_bc. destruct (nth_error (c_bcs C) i) as [b|] eqn:Eb; [|exact D].
  destruct (BrokerClient.step (b_st b) e) as [s' mo] eqn:Es. cbn [fst].
  assert (forall j, Q C j \/ In j exd -> Q (upd_bc C i (set_st s')) j \/ In j exd) as QF
    by (intros j [Y|Y]; [left; apply (Q_frame C); [reflexivity | exact Y] | right; exact Y]).
  intros j s H P. rewrite sts_set_st in H. apply QF.
  apply nth_upd_inv in H. destruct H as [[<- (c & Hc & ->)]|[N H]]; [|exact (D j s H P)].
  rewrite (sts_nth _ _ _ Eb) in Hc. injection Hc as <-.
  destruct e; try (apply (D i _ (sts_nth _ _ _ Eb)); eapply pending_before; [exact Es | discriminate | exact P]).
  right. apply X. reflexivity.
Qed.


Lemma tr_out_D exd C i o : D1 exd C -> D1 exd (fst (tr_out C i o)).
Proof.
  intro D. destruct o; cbn [tr_out fst]; try exact D.
  - unfold new_timer. cbn [fst snd]. eapply D_frame; [| |exact D]; [|reflexivity]. apply (sts_upd_keep (with_timers C _)). reflexivity.
  - destruct (nth_error (c_bcs C) i) as [b|]; [|exact D]. destruct (b_timer b); [|exact D]. cbn [fst].
    eapply D_frame; [| |exact D]; [|reflexivity]. apply sts_upd_keep. reflexivity.
  - apply Q_refresh. exact D.
Qed.

Lemma tr_list_D exd : forall os C i, D1 exd C -> D1 exd (fst (tr_list C i os)).
Proof.
  induction os as [|o os IH]; intros C i D; cbn [tr_list]; [exact D|].
  pose proof (tr_out_D exd C i o D) as D1'. destruct (tr_out C i o) as [C1 o1]. cbn [fst] in D1'.
  pose proof (IH C1 i D1') as D2. destruct (tr_list C1 i os). exact D2.
Qed.

Lemma make_req_D exd C i rid expect mint ow : D1 exd C -> D1 exd (fst (fst (make_req C i rid expect mint ow))).
Proof.
  intro D. unfold make_req. destruct (nth_error (c_bcs C) i) as [b|]; [|exact D].
  assert (D1 exd (fst (apply_bc C i (BrokerClient.EMake rid expect)))) as D1' by (apply apply_bc_D; [exact D | discriminate]).
  destruct (apply_bc C i (BrokerClient.EMake rid expect)) as [C1 mo]. cbn [fst] in D1'.
  destruct (raised_dup mo); [exact D1'|].
  pose proof (tr_list_D exd (filter (fun o => negb (is_def o)) mo) C1 i D1') as D2.
  destruct (tr_list C1 i (filter (fun o => negb (is_def o)) mo)) as [C2 o2]. cbn [fst] in D2. unfold new_timer.
  destruct (first_def mo); cbn [fst]; (eapply D_frame; [| |exact D2]; [apply (sts_upd_keep (with_timers C2 _)); reflexivity | reflexivity]).
Qed.

Lemma get_client_D exd C cl n C1 i : D1 exd C -> get_client C cl n = Some (C1, i) -> D1 exd C1.
Proof.
  intros D H. unfold get_client in H. destruct (assoc n cl); [injection H as <- _; exact D|].
  destruct (assoc n (c_brokers C)) as [a|]; [|discriminate]. injection H as <- _.
  intros j s Hj P. unfold sts in Hj. cbn [c_bcs with_clients with_bcs] in Hj. rewrite map_app in Hj. cbn [map] in Hj.
  apply nth_error_snoc_inv in Hj. destruct Hj as [Hj|[_ ->]]; [|discriminate].
  destruct (D j s Hj P) as [Y|Y]; [left; apply (Q_frame C); [reflexivity | exact Y] | right; exact Y].
Qed.

Lemma set_phase_D exd C p ph : D1 exd C -> D1 exd (set_phase C p ph).
Proof. apply D_frame; reflexivity. Qed.

Lemma op_fail_D exd C p r : D1 exd C -> D1 exd (fst (op_fail C p r)).
Proof. intro D. unfold op_fail. destruct (nth_error (c_ops C) p); [apply set_phase_D|]; exact D. Qed.

Lemma boot_next_D exd C p hosts : D1 exd C -> D1 exd (fst (boot_next C p hosts)).
Proof.
  intro D. unfold boot_next. destruct (closing C); [apply op_fail_D; exact D|]. destruct hosts; [apply op_fail_D; exact D|].
  cbn [fst]. apply set_phase_D. eapply D_frame; [| |exact D]; reflexivity.
Qed.

Lemma op_known_D exd : forall nodes C p rid, D1 exd C -> D1 exd (fst (op_known C p rid nodes)).
Proof.
  induction nodes as [|n rest IH]; intros C p rid D; cbn [op_known]; [apply boot_next_D; exact D|].
  destruct (c_clients C) as [cl|]; [|apply op_fail_D; exact D].
  destruct (get_client C cl n) as [[C1 i]|] eqn:G; [|apply op_fail_D; exact D].
  pose proof (get_client_D _ _ _ _ _ _ D G) as D1'.
  pose proof (make_req_D exd C1 i rid true (-1) (OfOp p) D1') as D2.
  destruct (make_req C1 i rid true (-1) (OfOp p)) as [[C2 r] o2]. cbn [fst] in D2.
  destruct r as [|h|h r]; cbn [fst].
  - pose proof (IH C2 p rid D2) as X. destruct (op_known C2 p rid rest). exact X.
  - apply set_phase_D. exact D2.
  - destruct r; try (pose proof (IH C2 p rid D2) as X; destruct (op_known C2 p rid rest); exact X).
    + exact D2.
    + pose proof (op_fail_D exd C2 p RCancelled D2) as X. destruct (op_fail C2 p RCancelled). exact X.
Qed.

Section LevelD.
Variable succ : cstate -> nat -> list Z -> cstate * list output.
Hypothesis succ_D : forall exd C p f, D1 exd C -> D1 exd (fst (succ C p f)).

Lemma on_def_D exd C i h oc : D1 exd C -> D1 exd (fst (on_def succ C i h oc)).
Proof.
  intro D. unfold on_def. destruct (nth_error (c_bcs C) i) as [b|]; [|exact D].
  destruct (nth_error (b_reqs b) h) as [q|]; [|exact D].
  set (X := match q_timer q with
            | Some t => (upd_creq C i h (fun q0 => mkCreq (q_owner q0) None (q_to q0)), [OCancelTimer t])
            | None => (C, []) end).
  assert (D1 exd (fst X)) as D1'.
  { unfold X. destruct (q_timer q); cbn [fst]; [|exact D]. eapply D_frame; [| |exact D]; [|reflexivity].
    unfold upd_creq. apply sts_upd_keep. reflexivity. }
  destruct X as [C1 o1]. cbn [fst] in D1'.
  destruct (q_owner q) as [d|p]; [exact D1'|].
  destruct (nth_error (c_ops C1) p) as [[k al rid ph]|]; [|exact D1'].
  destruct ph as [rest i' h'| | | |]; try exact D1'.
  destruct (Nat.eqb i i' && Nat.eqb h h'); [|exact D1'].
  destruct (if q_to q then RTimedOut else res_of oc);
    try (pose proof (op_known_D exd rest C1 p rid D1') as Y; destruct (op_known C1 p rid rest); exact Y).
  - pose proof (succ_D exd C1 p frame D1') as Y. destruct (succ C1 p frame). exact Y.
  - pose proof (op_fail_D exd C1 p RCancelled D1') as Y. destruct (op_fail C1 p RCancelled). exact Y.
Qed.

Lemma proc_D exd : forall os C i, D1 exd C -> D1 exd (fst (proc succ C i os)).
Proof.
  induction os as [|o os IH]; intros C i D; cbn [proc]; [exact D|].
  assert (D1 exd (fst (match o with BrokerClient.ODef h oc => on_def succ C i h oc | _ => tr_out C i o end))) as D1'.
  { destruct o; try (apply tr_out_D; exact D). apply on_def_D. exact D. }
  destruct (match o with BrokerClient.ODef h oc => on_def succ C i h oc | _ => tr_out C i o end) as [C1 o1]. cbn [fst] in D1'.
  pose proof (IH C1 i D1') as Y. destruct (proc succ C1 i os). exact Y.
Qed.

Lemma bc_event_D exd C i e : D1 exd C -> (e = BrokerClient.EClose -> In i exd) -> D1 exd (fst (bc_event succ C i e)).
Proof.
  intros D X. unfold bc_event. pose proof (apply_bc_D exd C i e D X) as D1'. destruct (apply_bc C i e) as [C1 mo]. cbn [fst] in D1'.
  apply proc_D. exact D1'.
Qed.
End LevelD.

Lemma close_each_D exd : forall l C, D1 exd C -> incl l exd -> D1 exd (fst (close_each C l)).
Proof.
  induction l as [|i l IH]; intros C D I; cbn [close_each]; [exact D|].
  pose proof (bc_event_D succ0 (fun exd0 C0 p f H => H) exd C i BrokerClient.EClose D (fun _ => I i (or_introl eq_refl))) as D1'.
  destruct (bc_event succ0 C i BrokerClient.EClose) as [C1 o1]. cbn [fst] in D1'.
  pose proof (IH C1 D1' (fun x Hx => I x (or_intror Hx))) as Y. destruct (close_each C1 l). exact Y.
Qed.

End DPass.

(* instance A: accounted for by a fixed list *)
Definition Qref (ref : list nat) (_ : cstate) (i : nat) : Prop := In i ref.

Lemma Qref_frame ref C C' i : c_dl C' = c_dl C -> Qref ref C i -> Qref ref C' i.
Proof. intros _ H. exact H. Qed.

Lemma Qref_refresh ref exd C : D1 (Qref ref) exd C -> D1 (Qref ref) exd (fst (dl_refresh C)).
Proof.
  intro D. assert (sts (fst (dl_refresh C)) = sts C) as E.
  { unfold dl_refresh. destruct (c_dl C) as [l|]; [|reflexivity]. destruct (filter (bc_pending C) l); [|reflexivity].
    destruct (c_wait _); reflexivity. }
  intros i s H P. rewrite E in H. exact (D i s H P).
Qed.

(* instance B: accounted for by self.close_dlist *)
Lemma in_dl_frame C C' i : c_dl C' = c_dl C -> in_dl C i -> in_dl C' i.
Proof. unfold in_dl. intros ->. auto. Qed.

Lemma in_dl_refresh exd C : D1 in_dl exd C -> D1 in_dl exd (fst (dl_refresh C)).
Proof.
  intros D. unfold dl_refresh. destruct (c_dl C) as [l|] eqn:El; [|exact D].
  destruct (filter (bc_pending C) l) as [|x l'] eqn:Ef.
  - assert (D1 in_dl exd (with_dl C None)) as D'.
    { intros i s H P. change (sts (with_dl C None)) with (sts C) in H. destruct (D i s H P) as [X|X]; [|right; exact X].
      exfalso. unfold in_dl in X. rewrite El in X.
      assert (In i (filter (bc_pending C) l)) as Y by (apply filter_In; split; [exact X | apply (bc_pending_sts _ _ _ H); exact P]).
      rewrite Ef in Y. exact Y. }
    destruct (c_wait (with_dl C None)); cbn [fst]; exact D'.
  - cbn [fst]. intros i s H P. change (sts (with_dl C (Some (x :: l')))) with (sts C) in H.
    destruct (D i s H P) as [X|X]; [|right; exact X]. left. unfold in_dl in *. cbn [c_dl with_dl]. rewrite El in X. rewrite <- Ef.
    apply filter_In. split; [exact X | apply (bc_pending_sts _ _ _ H); exact P].
Qed.

Definition DL := D1 in_dl.

Lemma close_brokerclients_DL exd C l : DL exd C -> DL exd (fst (close_brokerclients C l)).
Proof.
  intro D. unfold close_brokerclients. set (old := match c_dl C with Some x => x | None => [] end).
  assert (D1 (Qref old) (l ++ exd) C) as D0.
  { intros i s H P. destruct (D i s H P) as [X|X]; [left | right; apply in_or_app; right; exact X].
    unfold in_dl in X. unfold Qref, old. destruct (c_dl C); [exact X | contradiction]. }
  pose proof (close_each_D (Qref old) (Qref_frame old) (Qref_refresh old) (l ++ exd) l C D0 (incl_appl exd (incl_refl l))) as D1'.
  destruct (close_each C l) as [C1 o1]. cbn [fst] in D1'.
  assert (DL exd (with_dl C1 (Some (old ++ l)))) as D2.
  { intros i s H P. change (sts (with_dl C1 (Some (old ++ l)))) with (sts C1) in H. unfold in_dl. cbn [c_dl with_dl].
    destruct (D1' i s H P) as [X|X]; [left; apply in_or_app; left; exact X|].
    apply in_app_or in X. destruct X as [X|X]; [left; apply in_or_app; right; exact X | right; exact X]. }
  pose proof (in_dl_refresh exd _ D2) as D3. destruct (dl_refresh (with_dl C1 (Some (old ++ l)))). exact D3.
Qed.

Lemma update_each_DL exd : forall bs C cl, DL exd C -> DL exd (update_each C cl bs).
Proof.
  induction bs as [|[n a] bs IH]; intros C cl D; cbn [update_each]; [exact D|].
  destruct (assoc n cl) as [i|]; [|apply IH; exact D]. apply IH.
  apply (apply_bc_D in_dl in_dl_frame); [exact D | discriminate].
Qed.

Lemma update_brokers_DL exd C brokers remove : DL exd C -> DL exd (fst (update_brokers C brokers remove)).
Proof.
  intro D. unfold update_brokers. set (C1 := with_brokers C _).
  assert (DL exd C1) as D1' by (eapply (D_frame in_dl in_dl_frame); [| |exact D]; reflexivity).
  destruct (c_clients C1) as [cl|].
  - pose proof (update_each_DL exd (dict_update [] brokers) C1 cl D1') as D2.
    destruct remove; [|exact D2]. destruct (flat_map _ _) as [|i0 idx]; [exact D2|].
    apply close_brokerclients_DL. eapply (D_frame in_dl in_dl_frame); [| |exact D2]; reflexivity.
  - destruct (dict_update [] brokers); [destruct remove|]; exact D1'.
Qed.

Lemma merge_DL exd C payload all : DL exd C -> DL exd (fst (merge C payload all)).
Proof.
  intro D. unfold merge. destruct (parse_meta payload) as [[brokers topics]|]; [|exact D].
  set (rm := all && _). pose proof (update_brokers_DL exd C brokers rm D) as D1'.
  destruct (update_brokers C brokers rm) as [C1 o1]. cbn [fst] in *. eapply (D_frame in_dl in_dl_frame); [| |exact D1']; reflexivity.
Qed.

Lemma succ1_DL exd C p f : DL exd C -> DL exd (fst (succ1 C p f)).
Proof.
  intro D. unfold succ1. destruct (nth_error (c_ops C) p) as [o|]; [|exact D].
  assert (DL exd (set_phase C p PDone)) as D1' by (apply (set_phase_D in_dl in_dl_frame); exact D).
  destruct (o_kind o =? 1).
  - destruct (closing (set_phase C p PDone)); [exact D1'|].
    pose proof (merge_DL exd _ (drop 4 f) (o_all o) D1') as Y. destruct (merge (set_phase C p PDone) (drop 4 f) (o_all o)). exact Y.
  - destruct (is_ltp (o_kind o)); [|exact D1']. destruct (closing (set_phase C p PDone)); [exact D1'|].
    pose proof (merge_DL exd _ (drop 4 f) false D1') as Y. destruct (merge (set_phase C p PDone) (drop 4 f) false) as [C2 o2]. cbn [fst] in Y.
    destruct (missing (drop 4 f)); [|exact Y]. unfold new_timer. cbn [fst].
    eapply (D_frame in_dl in_dl_frame); [| |exact Y]; reflexivity.
Qed.

Lemma ev_bc_DL exd C i e : DL exd C -> e <> BrokerClient.EClose -> DL exd (fst (ev_bc C i e)).
Proof. intros D N. apply (bc_event_D in_dl in_dl_frame in_dl_refresh succ1 succ1_DL exd C i e D). intro E. contradiction. Qed.

Lemma cancel_boots_DL exd : forall n C p, DL exd C -> DL exd (fst (cancel_boots C n p)).
Proof.
  induction n as [|n IH]; intros C p D; cbn [cancel_boots]; [exact D|].
  set (X := match nth_error (c_ops C) p with
            | Some (mkOp _ _ _ (PBootConn a rest)) => let (C', o') := boot_next (set_boot C a KDead) p rest in (C', OBootCancel a :: o')
            | Some (mkOp _ _ _ (PBootReq a t rest)) => let (C', o') := boot_next C p rest in (C', OCancelTimer t :: OBootLose a :: o')
            | Some (mkOp _ _ _ (PWait t)) => let (C', o') := op_fail C p RCancelled in (C', OCancelTimer t :: o')
            | _ => (C, []) end).
  assert (DL exd (fst X)) as D1'.
  { unfold X. destruct (nth_error (c_ops C) p) as [[k al rid ph]|]; [|exact D]. destruct ph; try exact D.
    - pose proof (boot_next_D in_dl in_dl_frame exd (set_boot C a KDead) p rest) as Y. destruct (boot_next (set_boot C a KDead) p rest).
      cbn [fst] in *. apply Y. eapply (D_frame in_dl in_dl_frame); [| |exact D]; reflexivity.
    - pose proof (boot_next_D in_dl in_dl_frame exd C p rest D) as Y. destruct (boot_next C p rest). exact Y.
    - pose proof (op_fail_D in_dl in_dl_frame exd C p RCancelled D) as Y. destruct (op_fail C p RCancelled). exact Y. }
  destruct X as [C1 o1]. cbn [fst] in D1'. pose proof (IH C1 (S p) D1') as Y. destruct (cancel_boots C1 n (S p)). exact Y.
Qed.

Theorem step_DL C e : DL [] C -> DL [] (fst (step C e)).
Proof.
  intro D. destruct e; cbn [step].
  - destruct (c_clients C) as [cl|]; [|exact D].
    destruct (get_client C cl node) as [[C1 i]|] eqn:G; [|exact D].
    pose proof (get_client_D in_dl in_dl_frame _ _ _ _ _ _ D G) as D1'. unfold next_id.
    set (C2 := with_corr C1 _). assert (DL [] C2) as D2 by (eapply (D_frame in_dl in_dl_frame); [| |exact D1']; reflexivity).
    pose proof (make_req_D in_dl in_dl_frame in_dl_refresh [] C2 i ((c_corr C1 + 1) mod 2147483648) expect mint (Direct (length (c_direct C2))) D2) as D3.
    destruct (make_req C2 i _ expect mint _) as [[C3 r] o3]. cbn [fst] in D3.
    destruct r; cbn [fst]; [exact D3 | |]; (eapply (D_frame in_dl in_dl_frame); [| |exact D3]; reflexivity).
  - destruct (nth_error (c_direct C) d) as [[i h]|]; [|exact D]. apply ev_bc_DL; [exact D | discriminate].
  - unfold next_id. cbn [fst snd]. set (C1 := with_corr C _). set (C2 := with_ops C1 _).
    assert (DL [] C2) as D2 by (eapply (D_frame in_dl in_dl_frame); [| |exact D]; reflexivity).
    destruct (c_clients C2); [apply (op_known_D in_dl in_dl_frame in_dl_refresh); exact D2 | apply (op_fail_D in_dl in_dl_frame); exact D2].
  - apply update_brokers_DL. exact D.
  - destruct (c_clients C) as [cl|]; [|exact D].
    assert (DL [] (with_clients C None)) as D0 by (eapply (D_frame in_dl in_dl_frame); [| |exact D]; reflexivity).
    pose proof (close_brokerclients_DL [] _ (map snd cl) D0) as D1'.
    destruct (close_brokerclients (with_clients C None) (map snd cl)) as [C1 o1]. cbn [fst] in D1'.
    pose proof (cancel_boots_DL [] (length (c_ops C1)) C1 0 D1') as D2.
    destruct (cancel_boots C1 (length (c_ops C1)) 0) as [C2 o2]. cbn [fst] in D2.
    destruct (c_dl (with_topics C2 [])); cbn [fst]; (eapply (D_frame in_dl in_dl_frame); [| |exact D2]; reflexivity).
  - eapply (D_frame in_dl in_dl_frame); [| |exact D]; reflexivity.
  - apply ev_bc_DL; [exact D | discriminate].
  - apply ev_bc_DL; [exact D | discriminate].
  - apply ev_bc_DL; [exact D | discriminate].
  - apply ev_bc_DL; [exact D | discriminate].
  - destruct (nth_error (c_timers C) t) as [[i h|i|p a|p]|]; [| | | |exact D].
    + unfold creq_at. destruct (nth_error (c_bcs C) i) as [b|]; [|exact D].
      destruct (nth_error (b_reqs b) h) as [[ow [t'|] to]|]; try exact D.
      destruct (Nat.eqb t t'); [|exact D].
      set (C1 := upd_creq C i h _).
      assert (DL [] C1) as D1' by (eapply (D_frame in_dl in_dl_frame); [| |exact D]; [unfold C1, upd_creq; apply sts_upd_keep; reflexivity | reflexivity]).
      pose proof (ev_bc_DL [] C1 i (BrokerClient.ECancel h) D1' ltac:(discriminate)) as D2.
      destruct (ev_bc C1 i (BrokerClient.ECancel h)) as [C2 o2]. cbn [fst] in D2.
      destruct (g_dot (c_cfg C2)); cbn [fst]; [|exact D2].
      pose proof (ev_bc_DL [] C2 i BrokerClient.EDisconnect D2 ltac:(discriminate)) as D3.
      destruct (ev_bc C2 i BrokerClient.EDisconnect). exact D3.
    + destruct (nth_error (c_bcs C) i) as [b|]; [|exact D].
      destruct (match b_timer b with Some t' => Nat.eqb t t' | None => false end); [|exact D].
      apply ev_bc_DL; [|discriminate]. eapply (D_frame in_dl in_dl_frame); [| |exact D]; [apply sts_upd_keep; reflexivity | reflexivity].
    + destruct (phase_of C p); try exact D. destruct (Nat.eqb a a0 && Nat.eqb t t0); [|exact D].
      pose proof (boot_next_D in_dl in_dl_frame [] C p rest D) as Y. destruct (boot_next C p rest). exact Y.
    + destruct (phase_of C p); try exact D. destruct (Nat.eqb t t0); [|exact D]. unfold next_id. cbn [fst snd].
      set (C1 := with_corr C _). set (C2 := restart_op C1 p _).
      assert (DL [] C2) as D2 by (eapply (D_frame in_dl in_dl_frame); [| |exact D]; reflexivity).
      destruct (c_clients C2); [apply (op_known_D in_dl in_dl_frame in_dl_refresh); exact D2 | apply (op_fail_D in_dl in_dl_frame); exact D2].
  - destruct (nth_error (c_boots C) a) as [[[p rid] [| |]]|]; try exact D.
    destruct (phase_of C p); try exact D. destruct (Nat.eqb a a0); [|exact D].
    unfold new_timer. cbn [fst]. eapply (D_frame in_dl in_dl_frame); [| |exact D]; reflexivity.
  - destruct (nth_error (c_boots C) a) as [[[p rid] [| |]]|]; try exact D.
    destruct (phase_of C p); try exact D. destruct (Nat.eqb a a0); [|exact D].
    pose proof (boot_next_D in_dl in_dl_frame [] (set_boot C a KDead) p rest) as Y. destruct (boot_next (set_boot C a KDead) p rest).
    cbn [fst] in *. apply Y. eapply (D_frame in_dl in_dl_frame); [| |exact D]; reflexivity.
  - destruct (nth_error (c_boots C) a) as [[[p rid'] [|pend|]]|]; try exact D.
    destruct (pend && zlist_eqb (id4 rid) (id4 rid')); [|exact D].
    assert (DL [] (set_boot C a (KLive false))) as D0 by (eapply (D_frame in_dl in_dl_frame); [| |exact D]; reflexivity).
    destruct (phase_of (set_boot C a (KLive false)) p); try exact D0. destruct (Nat.eqb a a0); [|exact D0].
    pose proof (succ1_DL [] _ p (id4 rid ++ payload) D0) as Y. destruct (succ1 (set_boot C a (KLive false)) p (id4 rid ++ payload)). exact Y.
  - destruct (nth_error (c_boots C) a) as [[[p rid'] [|pend|]]|]; try exact D.
    assert (DL [] (set_boot C a KDead)) as D0 by (eapply (D_frame in_dl in_dl_frame); [| |exact D]; reflexivity).
    destruct pend; [|exact D0].
    destruct (phase_of (set_boot C a KDead) p); try exact D0. destruct (Nat.eqb a a0); [|exact D0].
    pose proof (boot_next_D in_dl in_dl_frame [] (set_boot C a KDead) p rest D0) as Y. destruct (boot_next (set_boot C a KDead) p rest). exact Y.
  - (* EResend *)
    destruct (c_clients C) as [cl|]; [|exact D].
    destruct (nth_error (c_direct C) d) as [[i h0]|]; [|exact D].
    match goal with |- DL [] (fst (match make_req C i ?rid expect mint ?ow with _ => _ end)) =>
      pose proof (make_req_D in_dl in_dl_frame in_dl_refresh [] C i rid expect mint ow D) as D3;
      destruct (make_req C i rid expect mint ow) as [[C3 r] o3] end.
    cbn [fst] in D3.
    destruct r; cbn [fst]; [exact D3 | |]; (eapply (D_frame in_dl in_dl_frame); [| |exact D3]; reflexivity).
Qed.

Theorem run_DL : forall evs C, DL [] C -> DL [] (fst (run C evs)).
Proof.
  induction evs as [|e evs IH]; intros C D; cbn [run]; [exact D|].
  pose proof (step_DL C e D) as D1'. destruct (step C e) as [C1 o1]. cbn [fst] in D1'.
  pose proof (IH C1 D1') as Y. destruct (run C1 evs). exact Y.
Qed.

Lemma DL_init g : DL [] (init g).
Proof. intros i s H. destruct i; discriminate. Qed.

Corollary reachable_DL g evs : DL [] (fst (run (init g) evs)).
Proof. apply run_DL, DL_init. Qed.
