(* Model/BrokerClientWrite.v: a request whose write raises completes exactly once with that failure, leaves the table,
   is never written - on that or any later connection - and touches no other request. *)
From AV Require Import Base.Util Proofs.UtilFacts Model.Framing Model.BrokerClient Model.BrokerClientWrite
  Proofs.FramingFacts Proofs.BrokerClientTbl Proofs.BrokerClientInv Proofs.BrokerClientC06 Proofs.BrokerClientHook.
From Coq Require Import Lia.

Lemma erase_WO l : map erase (map WO l) = l.
Proof. induction l as [|x l IH]; cbn; [reflexivity | rewrite IH; reflexivity]. Qed.

Definition wrote (bad : list nat) (r : req) : list req :=
  if is_bad bad (r_h r) then [] else if r_expect r then [set_sent true r] else [].

(* _sendRequest on an entry of the table *)
Lemma send_request_w_ok bad t pre r rest t' o : TInv t -> t_reqs t = pre ++ r :: rest -> r_sent r = false ->
  send_request_w bad t r = (t', o) ->
  op_ok t t' (map erase o) /\ t_reqs t' = pre ++ wrote bad r ++ rest.
Proof.
  intros T E Hs H.
  assert (Hr : In r (t_reqs t)) by (rewrite E; apply in_app_iff; right; left; reflexivity).
  assert (Hc : r_cancelled r = false).
  { destruct (TInv_entry _ r T Hr) as (_ & E2 & _). destruct (r_cancelled r); auto. rewrite Hs in E2. symmetry. auto. }
  assert (ND : NoDup (map r_id (pre ++ r :: rest))) by (rewrite <- E; apply (ti_ids _ T)).
  unfold send_request_w, wrote in *. destruct (is_bad bad (r_h r)).
  - destruct (TInv_entry _ r T Hr) as (_ & _ & E3 & _). specialize (E3 Hc).
    unfold is_fired in H. cbn [t_with_reqs t_fired] in H. rewrite (proj2 (memb_nIn _ _) E3) in H.
    injection H as <- <-. cbn [t_with_reqs t_reqs t_dlog t_fired map erase]. split.
    + split; [exact (TInv_remove_fire t r T Hr Hc) | split; [reflexivity|]].
      cbn [scan outcome_ok]. unfold memb. rewrite (proj2 (memb_nIn _ _) E3). reflexivity.
    + rewrite E. apply (del_unique pre r r rest ND). reflexivity.
  - destruct (send_request t r) as [t1 o1] eqn:ES. injection H as <- <-. rewrite erase_WO. split.
    + eapply send_request_ok; eauto.
    + pose proof (send_request_reqs t pre r rest E ND) as X. rewrite ES in X. exact X.
Qed.

Lemma send_each_w_ok bad : forall snap pre t t' o, TInv t -> t_reqs t = pre ++ snap ->
  Forall (fun r => r_sent r = false) snap ->
  Forall (fun r => r_sent r = true /\ r_expect r = true) pre ->
  send_each_w bad t snap = (t', o) ->
  op_ok t t' (map erase o) /\ Forall (fun r => r_sent r = true /\ r_expect r = true) (t_reqs t').
Proof.
  induction snap as [|r rest IH]; intros pre t t' o T E U Fp H; cbn [send_each_w] in H.
  - injection H as <- <-. split; [apply op_ok_refl; exact T|]. rewrite E, app_nil_r. exact Fp.
  - inversion U as [|? ? Ur Urest]; subst. rewrite Ur in H.
    destruct (send_request_w bad t r) as [t1 o1] eqn:E1. destruct (send_each_w bad t1 rest) as [t2 o2] eqn:E2.
    injection H as <- <-. destruct (send_request_w_ok bad t pre r rest t1 o1 T E Ur E1) as [A R].
    destruct (IH (pre ++ wrote bad r) t1 t2 o2 (proj1 A)) as [B F2]; auto.
    + rewrite R, app_assoc. reflexivity.
    + apply Forall_app. split; [exact Fp|]. unfold wrote. destruct (is_bad bad (r_h r)); [constructor|].
      destruct (r_expect r) eqn:Ex; constructor; [cbn; auto | constructor].
    + split; [|exact F2]. rewrite map_app. eapply op_ok_trans; eauto.
Qed.

Lemma op_step_scan t t' o : op_ok t t' o -> TInv t' /\ t_dlog t' = t_dlog t /\ scan (t_dlog t') (t_fired t) o = Some (t_fired t').
Proof. intros (A & B & C). split; [exact A | split; [exact B | rewrite B; exact C]]. Qed.

Theorem wstep_ok ws e ws' o : CInv (w_s ws) -> wstep ws e = (ws', o) -> step_ok (w_s ws) (w_s ws') (map erase o).
Proof.
  intros C H. destruct ws as [s bad]. cbn [w_s] in *. destruct e as [e0|rid ex b].
  - assert (G : forall e1, wlift (mkW s bad) (step s e1) = (ws', o) -> step_ok s (w_s ws') (map erase o)).
    { intros e1 X. unfold wlift in X. injection X as <- <-. cbn [w_s]. rewrite erase_WO. eapply step_inv; eauto. apply surjective_pairing. }
    destruct e0; try (apply (G _ H)).
    (* the connection comes up *)
    cbn [wstep w_s w_bad] in H. destruct s as [t p rx c d f a].
    cbn [s_t s_proto s_rxbuf s_connector s_down s_failures s_addr] in H.
    destruct c; try (injection H as <- <-; apply step_ok_same; exact C).
    break C.
    assert (d = DNone) as -> by (destruct d; auto; destruct Ccl as [_ [X|X]]; discriminate).
    assert (p = false) as -> by (destruct p; auto; discriminate Cc; reflexivity).
    unfold with_rxbuf, with_proto, with_connector, with_failures in H.
    cbn [s_t s_proto s_rxbuf s_connector s_down s_failures s_addr] in H.
    destruct (send_each_w bad t (t_reqs t)) as [t2 o2] eqn:E. injection H as <- <-. cbn [w_s with_t].
    destruct (send_each_w_ok bad (t_reqs t) [] t t2 o2 Ct eq_refl (Cu eq_refl) (Forall_nil _) E) as [A F2].
    destruct (op_step_scan _ _ _ A) as (T2 & D2 & S2).
    split; [|split; [exists []; cbn; rewrite app_nil_r; exact D2 | exact S2]].
    apply CInv_mk; [> exact T2 | triv | intros _; exact F2 | triv | triv | triv | triv | triv | triv].
  - (* makeRequest *)
    cbn [wstep w_s w_bad] in H.
    destruct (lookup rid (t_reqs (s_t s))) eqn:L.
    { injection H as <- <-. cbn [w_s map erase]. split; [exact C | split; [exists []; rewrite app_nil_r; reflexivity | reflexivity]]. }
    set (bad' := if b then length (t_dlog (s_t s)) :: bad else bad) in *.
    assert (Base : s_proto s = false \/ s_down s <> DNone ->
                   w_s ws' = fst (step s (EMake rid ex)) /\ map erase o = snd (step s (EMake rid ex))).
    { intros Hb. cbn [step]. unfold make_request. rewrite L.
      destruct (s_down s) eqn:D.
      - destruct Hb as [P|N]; [|contradiction]. rewrite P in *.
        destruct (s_connector s).
        + destruct (connect _) as [s1 o1]. injection H as <- <-. cbn [w_s fst snd]. rewrite erase_WO. auto.
        + injection H as <- <-. auto.
        + injection H as <- <-. auto.
        + injection H as <- <-. auto.
      - unfold lift. destruct (fire _ _ _) as [t2 o2]. injection H as <- <-. cbn [w_s fst snd]. rewrite erase_WO. auto.
      - unfold lift. destruct (fire _ _ _) as [t2 o2]. injection H as <- <-. cbn [w_s fst snd]. rewrite erase_WO. auto. }
    destruct (s_down s) eqn:D.
    + destruct (s_proto s) eqn:P.
      * (* live connection: written (or failing) at once *)
        destruct s as [t p rx c d f a]. cbn [s_t s_proto s_rxbuf s_connector s_down s_failures s_addr] in *. subst p d.
        break C. rename Ct into T.
        set (h := length (t_dlog t)) in *.
        set (r := mkReq rid h ex false false) in *.
        set (t1 := mkT (t_reqs t ++ [r]) (t_dlog t ++ [rid]) (t_fired t)) in *.
        assert (T1 : TInv t1) by (apply TInv_add; auto).
        destruct (send_request_w bad' t1 r) as [t2 o2] eqn:E. injection H as <- <-. cbn [w_s with_t].
        destruct (send_request_w_ok bad' t1 (t_reqs t) r [] t2 o2 T1 eq_refl eq_refl E) as [A R].
        destruct (op_step_scan _ _ _ A) as (T2 & D2 & S2).
        split; [|split; [exists [rid]; exact D2 | exact S2]].
        apply CInv_mk; [> exact T2 | triv | | triv | triv | triv | triv | triv | triv].
        intros _. rewrite R, app_nil_r. apply Forall_app. split; [apply Cs; reflexivity|].
        unfold wrote. destruct (is_bad bad' (r_h r)); [constructor|]. destruct (r_expect r) eqn:Ex; constructor; [cbn; auto | constructor].
      * destruct Base as [E1 E2]; [left; reflexivity|]. rewrite E1, E2.
        exact (step_inv s (EMake rid ex) _ _ C (surjective_pairing _)).
    + destruct Base as [E1 E2]; [right; discriminate|]. rewrite E1, E2.
      exact (step_inv s (EMake rid ex) _ _ C (surjective_pairing _)).
    + destruct Base as [E1 E2]; [right; discriminate|]. rewrite E1, E2.
      exact (step_inv s (EMake rid ex) _ _ C (surjective_pairing _)).
Qed.

Theorem wrun_inv : forall evs ws ws' o, CInv (w_s ws) -> wrun ws evs = (ws', o) -> step_ok (w_s ws) (w_s ws') (map erase o).
Proof.
  induction evs as [|e evs IH]; intros ws ws' o C H; cbn [wrun] in H.
  - injection H as <- <-. apply step_ok_same. exact C.
  - destruct (wstep ws e) as [ws1 o1] eqn:E1. destruct (wrun ws1 evs) as [ws2 o2] eqn:E2. injection H as <- <-.
    pose proof (wstep_ok _ _ _ _ C E1) as S1. rewrite map_app.
    eapply step_ok_trans; [exact S1|]. apply (IH ws1); [apply S1 | exact E2].
Qed.

(* the Deferreds that fired, write failures included *)
Definition wdef_handles (o : list woutput) : list nat :=
  flat_map (fun x => match x with WO (ODef h _) => [h] | WFail h => [h] | _ => [] end) o.

Lemma wdef_erase o : def_handles (map erase o) = wdef_handles o.
Proof.
  induction o as [|x o IH]; [reflexivity|]. destruct x as [y|h]; cbn [map erase]; [destruct y|];
    cbn [def_handles wdef_handles flat_map app]; fold (def_handles (map erase o)); fold (wdef_handles o); rewrite IH; reflexivity.
Qed.

(* exactly once, write failures included: no Deferred fires twice (by a response, None, a cancel, close or a failing
   write), no AlreadyCalledError / KeyError, and a Deferred has fired iff its request left the table *)
Theorem exactly_once_w evs ws outs : wrun winit evs = (ws, outs) ->
  NoDup (wdef_handles outs)
  /\ (forall k h, ~ In (WO (OErr k h)) outs) /\ ~ In (WO (ORaised 5)) outs
  /\ (forall h, In h (wdef_handles outs) <-> (h < length (t_dlog (s_t (w_s ws))))%nat /\ ~ in_table (w_s ws) h).
Proof.
  intro H. destruct (wrun_inv evs winit ws outs CInv_init H) as (C & _ & S). cbn [w_s winit] in S. cbn [init s_t t_fired] in S.
  set (s := w_s ws) in *. set (eo := map erase outs) in *.
  pose proof (scan_fired _ _ _ _ S) as F. rewrite app_nil_r in F. pose proof (ci_t s C) as T.
  assert (Hin : forall h, In h (wdef_handles outs) <-> In h (t_fired (s_t s))).
  { intro h. rewrite <- wdef_erase. fold eo. rewrite F. rewrite <- in_rev. tauto. }
  split; [|split; [|split]].
  - rewrite <- wdef_erase. fold eo. pose proof (ti_fired_nodup _ T) as ND. rewrite F in ND. apply NoDup_rev in ND. rewrite rev_involutive in ND. exact ND.
  - intros k h Hx. destruct (scan_no_anomaly _ _ _ _ S (OErr k h)) as [A _].
    + unfold eo. change (OErr k h) with (erase (WO (OErr k h))). apply in_map. exact Hx.
    + eapply A. reflexivity.
  - intro Hx. destruct (scan_no_anomaly _ _ _ _ S (ORaised 5)) as [_ A].
    + unfold eo. change (ORaised 5) with (erase (WO (ORaised 5))). apply in_map. exact Hx.
    + apply A. reflexivity.
  - intro h. rewrite Hin. split.
    + intro Hf. split; [apply (ti_fired_lt _ T); exact Hf|].
      intros (r & Hr & Eh & Ec). destruct (TInv_entry _ r T Hr) as (_ & _ & E3 & _). apply (E3 Ec). rewrite Eh. exact Hf.
    + intros [Hl Hn]. destruct (in_dec Nat.eq_dec h (t_fired (s_t s))) as [Y|N]; [exact Y|]. exfalso. apply Hn.
      destruct (ti_complete _ T h Hl N) as (r & Hr & Eh). exists r. repeat split; auto.
      destruct (TInv_entry _ r T Hr) as (_ & _ & _ & E4). destruct (r_cancelled r); auto. exfalso. apply N. rewrite <- Eh. auto.
Qed.

(* never written after it fired - in particular: a request whose write failed is never written on a later connection
   (the ghost re-send of seeded change C06-m5), and a request that completed is never failed by a write *)
Theorem never_resent_w evs ws outs a x h b : wrun winit evs = (ws, outs) -> outs = a ++ x :: b ->
  (x = WFail h \/ exists oc, x = WO (ODef h oc)) ->
  forall y, In y b -> y <> WFail h /\ (forall oc, y <> WO (ODef h oc)) /\ (forall rid, y <> WO (OWrite h rid)).
Proof.
  intros H E Hx. destruct (wrun_inv evs winit ws outs CInv_init H) as (C & _ & S). cbn [w_s winit init s_t t_fired] in S.
  rewrite E, map_app in S. cbn [map] in S. rewrite scan_app in S.
  destruct (scan (t_dlog (s_t (w_s ws))) [] (map erase a)) as [f1|] eqn:S1; [|discriminate].
  assert (Ex : exists oc, erase x = ODef h oc) by (destruct Hx as [->|(oc & ->)]; eexists; reflexivity).
  destruct Ex as (oc & Ex). rewrite Ex in S. cbn [scan] in S.
  destruct (memb h f1); [discriminate|]. destruct (outcome_ok _ h oc); [|discriminate].
  intros y Hy.
  assert (Q : forall o', erase y = o' -> (forall oc', o' <> ODef h oc') /\ (forall rid, o' <> OWrite h rid)).
  { intros o' <-. eapply scan_fired_silent; [exact S | left; reflexivity | apply in_map; exact Hy]. }
  split; [|split].
  - intros ->. destruct (Q _ eq_refl) as [A _]. apply (A FailCancelled). reflexivity.
  - intros oc' ->. destruct (Q _ eq_refl) as [A _]. apply (A oc'). reflexivity.
  - intros rid ->. destruct (Q _ eq_refl) as [_ A]. apply (A rid). reflexivity.
Qed.

Theorem reachable_inv_w evs : CInv (w_s (fst (wrun winit evs))).
Proof. destruct (wrun winit evs) as [ws o] eqn:E. exact (proj1 (wrun_inv evs winit ws o CInv_init E)). Qed.

(* what a failing write does, and to whom: the Deferred of that request fails, its entry leaves the table, nothing is
   written, every other entry stays exactly as it was *)
Theorem write_failure_local bad t r : TInv t -> In r (t_reqs t) -> r_sent r = false -> is_bad bad (r_h r) = true ->
  exists t', send_request_w bad t r = (t', [WFail (r_h r)])
    /\ t_reqs t' = del (r_id r) (t_reqs t) /\ t_fired t' = r_h r :: t_fired t /\ t_dlog t' = t_dlog t
    /\ (forall x, In x (t_reqs t) -> r_id x <> r_id r -> In x (t_reqs t')).
Proof.
  intros T Hr Hs Hb.
  assert (Hc : r_cancelled r = false).
  { destruct (TInv_entry _ r T Hr) as (_ & E2 & _). destruct (r_cancelled r); auto. rewrite Hs in E2. symmetry. auto. }
  destruct (TInv_entry _ r T Hr) as (_ & _ & E3 & _). specialize (E3 Hc).
  unfold send_request_w. rewrite Hb. unfold is_fired. cbn [t_with_reqs t_fired]. rewrite (proj2 (memb_nIn _ _) E3).
  eexists. split; [reflexivity|]. cbn. repeat split; auto. intros x Hx Hne. apply in_del. auto.
Qed.

(* without unsendable requests the extended machine is the machine of Model/BrokerClient.v *)
Lemma send_each_w_nil : forall snap t, send_each_w [] t snap = (fst (send_each t snap), map WO (snd (send_each t snap))).
Proof.
  induction snap as [|r rest IH]; intros t; cbn [send_each_w send_each]; [reflexivity|].
  destruct (r_sent r); [apply IH|]. unfold send_request_w. cbn [is_bad existsb].
  destruct (send_request t r) as [t1 o1]. rewrite IH. destruct (send_each t1 rest) as [t2 o2]. cbn [fst snd]. rewrite map_app. reflexivity.
Qed.
