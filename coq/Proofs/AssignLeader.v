(* generate_assignments / decode_assignment: every member decodes exactly its share; the leader's
   encoder cannot raise when names and ids are in range. *)
From AV Require Import Base.Util Proofs.UtilFacts Model.Assign Proofs.AssignOrder Proofs.AssignDict
  Proofs.AssignRR Proofs.AssignThms Proofs.AssignCodec.
From Coq Require Import Lia Sorting.Permutation.

Lemma encode_all_ok a ids : forall out, encode_all a ids = Ok out ->
  map fst out = ids /\ forall m b, In (m, b) out -> enc_assignment 0 (asg_get a m) (Some []) = Ok b.
Proof.
  induction ids as [|m0 r IH]; intros out; cbn [encode_all].
  - intros [= <-]. split; [reflexivity | intros ? ? []].
  - intro H. apply bind_ok in H. destruct H as (b0 & Hb & H). apply bind_ok in H. destruct H as (l & Hl & H).
    injection H as <-. destruct (IH l Hl) as [I1 I2]. split; [cbn [map fst]; now rewrite I1|].
    intros m b [[= <- <-]|Hin]; [assumption | now apply I2].
Qed.

Lemma encode_all_total a ids : (forall m, In m ids -> adict_ok (asg_get a m) = true) ->
  exists out, encode_all a ids = Ok out.
Proof.
  induction ids as [|m0 r IH]; intro H; cbn [encode_all]; [eauto|].
  destruct (enc_assignment_total 0 (asg_get a m0) (Some [])) as [b ->]; [reflexivity | apply H; now left | reflexivity|].
  destruct IH as [l ->]; [intros; apply H; now right|]. cbn [bind]. eauto.
Qed.

(* ---- C15_decode_encode ---- *)
Lemma generate_decode members tp out : generate_assignments members tp = Ok out ->
  exists a, leader_assign members tp = Ok a /\ map fst out = map fst members /\
    forall m b, In (m, b) out -> decode_assignment b = Ok (asg_get a m).
Proof.
  unfold generate_assignments. intro H. apply bind_ok in H. destruct H as (a & Ha & H).
  exists a. split; [exact Ha|]. destruct (encode_all_ok _ _ _ H) as [E1 E2]. split; [exact E1|].
  intros m b Hin. specialize (E2 m b Hin). unfold decode_assignment.
  pose proof (enc_dec_assignment 0 (asg_get a m) (Some []) b E2) as R. rewrite <- (app_nil_r b).
  rewrite R; [reflexivity|]. apply (round_robin_distinct _ _ _ Ha).
Qed.

(* ---- in-range inputs: no exception from the encoder ---- *)
Lemma leader_adict_ok members tp a : leader_assign members tp = Ok a -> input_ok members tp = true ->
  forall m, adict_ok (asg_get a m) = true.
Proof.
  unfold leader_assign, input_ok. set (md := build_md members). intros Ha Hok m.
  assert (N : NoDup (map fst md)) by apply build_md_nodup.
  apply andb_prop in Hok. destruct Hok as [Hn Hts].
  assert (D : NoDup (map fst (asg_get a m))) by apply (round_robin_distinct _ _ _ Ha).
  assert (Hkey : forall t, In t (map fst (asg_get a m)) -> In t (all_topics md)).
  { intros t Ht. destruct (round_robin_only_subscribed _ _ _ Ha m t Ht) as [Hm Hs].
    apply all_topics_spec; [exact N|]. apply some_subscriber_spec. eauto. }
  unfold adict_ok. apply andb_true_intro. split.
  - assert (length (map fst (asg_get a m)) <= length (all_topics md))%nat by (apply NoDup_incl_length; assumption).
    rewrite map_length in H. unfold len in *. lia.
  - apply forallb_forall. intros [t lst] Hin. cbn [fst snd].
    assert (Ht : In t (map fst (asg_get a m))) by (apply (in_map fst) in Hin; exact Hin).
    apply Hkey in Ht. rewrite forallb_forall in Hts. specialize (Hts t Ht).
    apply andb_prop in Hts. destruct Hts as [Hts H3]. apply andb_prop in Hts. destruct Hts as [H1 H2].
    assert (El : lst = parts_of (asg_get a m) t) by (unfold parts_of; now rewrite (dict_in_get _ _ _ D Hin)).
    rewrite H1. cbn [andb]. apply andb_true_intro. split.
    + pose proof Ha as Ha'. apply round_robin_ok in Ha'. destruct Ha' as (_ & l & Ex & Hl).
      pose proof (rr_loop_len md _ _ _ _ _ Hl m t) as L. cbn [asg_get dict_get parts_of length Nat.add] in L.
      rewrite <- (topic_len_perm _ _ t (tp_sort_perm l)) in L.
      pose proof (expand_len tp _ l (dedup_nodup _) Ex t) as L2. rewrite <- El in L. unfold len in *. lia.
    + apply forallb_forall. intros p Hp. rewrite forallb_forall in H3. apply H3.
      subst lst. eapply round_robin_parts_listed; eassumption.
Qed.

Lemma generate_total members tp a : leader_assign members tp = Ok a -> input_ok members tp = true ->
  exists out, generate_assignments members tp = Ok out.
Proof.
  intros Ha Hok. unfold generate_assignments. rewrite Ha. cbn [bind].
  apply encode_all_total. intros m _. eapply leader_adict_ok; eassumption.
Qed.
