(* The decoders' out-of-fuel error is unreachable for ARBITRARY input bytes (audit C15 2.2).
   dec_topics / dec_subs get S (length data) units of fuel; every loop iteration consumes at least two bytes
   (the int16 length of the name; six for dec_topics), so the fuel outlasts the data whatever the claimed count. *)
From AV Require Import Base.Util Proofs.UtilFacts Model.Assign Proofs.AssignCodec.
From Coq Require Import Lia.

Lemma drop_length_le {A} n (l : list A) : (length (drop n l) <= length l)%nat.
Proof.
  revert l. induction n as [|n IH]; intros [|x l]; cbn [drop length]; try lia. specialize (IH l). lia.
Qed.

Lemma rd_i16_inv d : match rd_i16 d with
                     | Ok (_, r) => length d = S (S (length r))
                     | Err e => e = EUnderflow
                     end.
Proof. destruct d as [|b0 [|b1 r]]; cbn [rd_i16 length]; reflexivity. Qed.

Lemma rd_i32_inv d : match rd_i32 d with
                     | Ok (_, r) => length d = S (S (S (S (length r))))
                     | Err e => e = EUnderflow
                     end.
Proof. destruct d as [|b0 [|b1 [|b2 [|b3 r]]]]; cbn [rd_i32 length]; reflexivity. Qed.

Lemma read_short_bytes_inv d : match read_short_bytes d with
                               | Ok (_, r) => (S (S (length r)) <= length d)%nat
                               | Err e => e <> EFuel
                               end.
Proof.
  unfold read_short_bytes. pose proof (rd_i16_inv d) as H. destruct (rd_i16 d) as [[n r]|e]; cbn [bind].
  - destruct (n =? -1); [lia|]. destruct (n <? -1); [discriminate|]. destruct (len r <? n); [discriminate|].
    pose proof (drop_length_le (Z.to_nat n) r). lia.
  - subst e. discriminate.
Qed.

Lemma read_short_ascii_inv d : match read_short_ascii d with
                               | Ok (_, r) => (S (S (length r)) <= length d)%nat
                               | Err e => e <> EFuel
                               end.
Proof.
  unfold read_short_ascii. pose proof (read_short_bytes_inv d) as H.
  destruct (read_short_bytes d) as [[[b|] r]|e]; cbn [bind]; [|discriminate|exact H].
  destruct (forallb _ b); [exact H | discriminate].
Qed.

Lemma read_int_string_nofuel d : read_int_string d <> Err EFuel.
Proof.
  unfold read_int_string. pose proof (rd_i32_inv d) as H. destruct (rd_i32 d) as [[n r]|e]; cbn [bind].
  - destruct (n =? -1); [discriminate|]. destruct (n <? -1); [discriminate|]. destruct (len r <? n); discriminate.
  - subst e. discriminate.
Qed.

Lemma rd_i32s_inv n : forall d, match rd_i32s n d with
                                | Ok (_, r) => (length r <= length d)%nat
                                | Err e => e <> EFuel
                                end.
Proof.
  induction n as [|n IH]; intro d; cbn [rd_i32s]; [lia|].
  pose proof (rd_i32_inv d) as H. destruct (rd_i32 d) as [[x r]|e]; cbn [bind fst snd].
  - specialize (IH r). destruct (rd_i32s n r) as [[xs r']|e]; cbn [bind fst snd]; [lia | exact IH].
  - subst e. discriminate.
Qed.

Lemma dec_topics_nofuel fuel : forall n d acc, (length d < fuel)%nat -> dec_topics fuel n d acc <> Err EFuel.
Proof.
  induction fuel as [|f IH]; intros n d acc Hf; [lia|].
  rewrite dec_topics_eq. destruct (n <=? 0); [discriminate|].
  pose proof (read_short_ascii_inv d) as H1. destruct (read_short_ascii d) as [[t r1]|e]; cbn [bind fst snd].
  2:{ congruence. }
  pose proof (rd_i32_inv r1) as H2. destruct (rd_i32 r1) as [[np r2]|e]; cbn [bind fst snd].
  2:{ subst e. discriminate. }
  destruct (np <? 0); [discriminate|]. destruct (len r2 <? 4 * np); [discriminate|].
  pose proof (rd_i32s_inv (Z.to_nat np) r2) as H3. destruct (rd_i32s (Z.to_nat np) r2) as [[ps r3]|e]; cbn [bind fst snd].
  - apply IH. lia.
  - congruence.
Qed.

Lemma dec_subs_eq fuel n d acc :
  dec_subs fuel n d acc =
  if n <=? 0 then Ok (rev acc, d)
  else match fuel with
       | O => Err EFuel
       | S f => bind (read_short_bytes d) (fun br =>
                  match br with
                  | (None, _) => Err ENone
                  | (Some b, r) => dec_subs f (n - 1) r (b :: acc)
                  end)
       end.
Proof. destruct fuel; reflexivity. Qed.

Lemma dec_subs_nofuel fuel : forall n d acc, (length d < fuel)%nat -> dec_subs fuel n d acc <> Err EFuel.
Proof.
  induction fuel as [|f IH]; intros n d acc Hf; [lia|].
  rewrite dec_subs_eq. destruct (n <=? 0); [discriminate|].
  pose proof (read_short_bytes_inv d) as H1. destruct (read_short_bytes d) as [[[b|] r]|e]; cbn [bind].
  - apply IH. lia.
  - discriminate.
  - congruence.
Qed.

(* decode_sync_group_member_assignment on any byte string: never the model's out-of-fuel artefact *)
Lemma dec_assignment_nofuel data : dec_assignment data <> Err EFuel.
Proof.
  unfold dec_assignment.
  pose proof (rd_i16_inv data) as H1. destruct (rd_i16 data) as [[v r1]|e]; cbn [bind fst snd]; [|subst e; discriminate].
  pose proof (rd_i32_inv r1) as H2. destruct (rd_i32 r1) as [[n r2]|e]; cbn [bind fst snd]; [|subst e; discriminate].
  destruct (negb (v =? 0)); [discriminate|].
  pose proof (dec_topics_nofuel (S (length data)) n r2 []) as H3.
  destruct (dec_topics (S (length data)) n r2 []) as [[a r3]|e]; cbn [bind fst snd].
  - pose proof (read_int_string_nofuel r3) as H4. destruct (read_int_string r3) as [[u r4]|e]; cbn [bind]; [discriminate | congruence].
  - intro E. apply H3; [lia | congruence].
Qed.

Lemma decode_assignment_nofuel data : decode_assignment data <> Err EFuel.
Proof.
  unfold decode_assignment. pose proof (dec_assignment_nofuel data) as H.
  destruct (dec_assignment data); cbn [bind]; [discriminate | congruence].
Qed.

(* decode_join_group_protocol_metadata on any byte string *)
Lemma dec_metadata_nofuel data : dec_metadata data <> Err EFuel.
Proof.
  unfold dec_metadata.
  pose proof (rd_i16_inv data) as H1. destruct (rd_i16 data) as [[v r1]|e]; cbn [bind fst snd]; [|subst e; discriminate].
  pose proof (rd_i32_inv r1) as H2. destruct (rd_i32 r1) as [[n r2]|e]; cbn [bind fst snd]; [|subst e; discriminate].
  pose proof (dec_subs_nofuel (S (length data)) n r2 []) as H3.
  destruct (dec_subs (S (length data)) n r2 []) as [[a r3]|e]; cbn [bind fst snd].
  - pose proof (read_int_string_nofuel r3) as H4. destruct (read_int_string r3) as [[u r4]|e]; cbn [bind]; [discriminate | congruence].
  - intro E. apply H3; [lia | congruence].
Qed.
