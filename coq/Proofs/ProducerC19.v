(* C19: batching thresholds, time limit, cancellation, stop - lemmas about Model/Producer.v. *)
From AV Require Import Base.Util Model.Producer Proofs.ProducerBase Proofs.ProducerInv.
From Coq Require Import Lia Permutation Sorted.

(* the threshold test of _check_send_batch on explicit counters *)
Definition thr (c : cfg) (cnt bytes : Z) : bool :=
  (negb (c_n c =? 0) && (c_n c <=? cnt)) || (negb (c_b c =? 0) && (c_b c <=? bytes)).

Lemma threshold_thr : forall c s, threshold c s = thr c (wcnt s) (wbytes s).
Proof. reflexivity. Qed.

Lemma can_dispatch_iff : forall s, can_dispatch s = true <-> queue s <> [] /\ ph s = Idle /\ stopping s = false.
Proof.
  unfold can_dispatch; intros s. destruct (queue s); [split; [discriminate|intros [X _]; congruence]|].
  destruct (ph s); try (split; [discriminate|intros (_ & X & _); discriminate]).
  rewrite negb_true_iff. split; [intros X; repeat split; auto; discriminate|tauto].
Qed.

Lemma no_ghost_not_dispatch : forall l sids, no_ghost l -> ~ In (ODispatch sids) l.
Proof. unfold no_ghost; intros l sids F X. rewrite Forall_forall in F. apply F in X. discriminate. Qed.
Lemma no_ghost_not_done : forall l, no_ghost l -> ~ In OBatchDone l.
Proof. unfold no_ghost; intros l F X. rewrite Forall_forall in F. apply F in X. discriminate. Qed.
Lemma no_dispatch_not : forall l sids, no_dispatch l -> ~ In (ODispatch sids) l.
Proof. unfold no_dispatch; intros l sids F X. rewrite Forall_forall in F. apply F in X. exact X. Qed.

Lemma try_disp_iff : forall c s s' o sids, try_send_batch c s = (s', o) ->
  (In (ODispatch sids) o <-> can_dispatch s = true /\ sids = ids (queue s)).
Proof.
  intros c s s' o sids H. apply try_send_batch_spec in H as [[R D]|(R & -> & ->)]; unfold ready in R.
  - apply dispatch_spec in D as (_ & _ & _ & _ & _ & _ & rest & -> & ND). split.
    + intros [X|X]; [inv X; auto|exfalso; eapply no_dispatch_not; eauto].
    + intros [_ ->]. left; reflexivity.
  - split; [intros []|intros [X _]; congruence].
Qed.

Lemma check_disp_iff : forall c s s' o sids, check_send_batch c s = (s', o) ->
  (In (ODispatch sids) o <-> threshold c s = true /\ can_dispatch s = true /\ sids = ids (queue s)).
Proof.
  unfold check_send_batch; intros c s s' o sids H. destruct (threshold c s).
  - rewrite (try_disp_iff _ _ _ _ sids H). tauto.
  - inv H. split; [intros []|intros [X _]; discriminate].
Qed.

Lemma ids_nil : forall l : list send, ids l = [] <-> l = [].
Proof. intros []; simpl; split; auto; discriminate. Qed.

(* ------------------------------------------------------------------ C19_dispatch_iff *)
Definition dispatch_cond (c : cfg) (s : state) (e : event) (out : list output) (sids : list Z) : Prop :=
  stopping s = false /\ sids <> [] /\
  match e with
  | ESend _ _ cnt b => ph s = Idle /\ 1 <= cnt /\ 0 <= b /\ sids = ids (queue s) ++ [nsend s] /\
                       thr c (wcnt s + cnt) (wbytes s + b) = true
  | ETick => ph s = Idle /\ looper s = true /\ sids = ids (queue s)
  | EStop _ => False
  | _ => ph s <> Idle /\ In OBatchDone out /\ sids = ids (queue s) /\ threshold c s = true
  end.

Lemma finish_disp_iff : forall c s1 s' o sids, ph s1 <> Idle \/ True -> finish c s1 = (s', o) ->
  (In (ODispatch sids) o <-> threshold c s1 = true /\ queue s1 <> [] /\ stopping s1 = false /\ sids = ids (queue s1)) /\
  In OBatchDone o.
Proof.
  unfold finish, finish0; intros c s1 s' o sids _ H.
  destruct (check_send_batch c _) as [s2 o2] eqn:E. inv H. split; [|left; reflexivity].
  pose proof (check_disp_iff _ _ _ _ sids E) as X. simpl. rewrite can_dispatch_iff in X. simpl in X.
  split.
  - intros [Y|Y]; [discriminate|]. apply X in Y. tauto.
  - intros Y. right. apply X. tauto.
Qed.

Lemma dispatch_iff_batch : forall c s e s' out sids, Inv s -> batch_event e = true ->
  step c s e = (s', out) ->
  (In (ODispatch sids) out <->
   stopping s = false /\ sids <> [] /\ ph s <> Idle /\ In OBatchDone out /\ sids = ids (queue s) /\ threshold c s = true).
Proof.
  intros c s e s' out sids [W L] BE H. pose proof W as [IB PW ID ST].
  destruct (step_nonstop c s e s' out) as (s1 & o1 & ep & o2 & C & A & ->); auto.
  { intros cv ->; discriminate. }
  apply core_batch in C as [(-> & -> & ->)|(NI & done & BS & ->)]; auto;
    try apply (i_onodup _ _ IB); try apply (i_bnodup _ _ IB).
  - simpl in A. inv A. simpl. split; [intros []|intros (_ & _ & _ & [] & _)].
  - pose proof (bs_keeps _ _ _ _ _ BS) as [K1 K2 K3 K4 K5 K6 K7]. pose proof (bs_ng _ _ _ _ _ BS) as NG.
    destruct done; simpl in A.
    + destruct (finish_disp_iff c s1 s' o2 sids (or_intror I) A) as [X D].
      unfold threshold in *. rewrite K1, K2, K3, K4 in X. split.
      * intros Y. apply in_app_or in Y as [Y|Y]; [exfalso; eapply no_ghost_not_dispatch; eauto|].
        apply X in Y as (Y1 & Y2 & Y3 & Y4). repeat split; auto.
        -- subst sids. intros Z. apply ids_nil in Z. auto.
        -- apply in_or_app; auto.
      * intros (Y1 & Y2 & Y3 & Y4 & Y5 & Y6). apply in_or_app; right. apply X. repeat split; auto.
        intros Z. subst sids. rewrite Z in Y2. auto.
    + inv A. rewrite app_nil_r. split.
      * intros Y. exfalso; eapply no_ghost_not_dispatch; eauto.
      * intros (_ & _ & _ & Y & _). exfalso; eapply no_ghost_not_done; eauto.
Qed.

Lemma only_outcomes_in : forall l o, only_outcomes l -> In o l -> is_outcome o = true.
Proof. unfold only_outcomes; intros l o F X. rewrite Forall_forall in F. auto. Qed.


(* what stop() can emit *)
Definition stop_out (o : output) : Prop :=
  match o with OOutcome _ _ | OCancelTimer _ | OBatchDone => True | _ => False end.

Lemma outcomes_stop_out : forall l, only_outcomes l -> Forall stop_out l.
Proof. unfold only_outcomes; intros l H; eapply Forall_impl; [|exact H]. intros [] X; simpl in *; auto; discriminate. Qed.

Lemma cancel_lookups_out : forall c reqs ls s s' o ls', stopping s = true ->
  map_lookups (fun st x l =>
          match l with
          | LDone _ => None
          | LLoad _ => Some (lookup_loaded c st x)
          | LTimer tid => Some (st, [OCancelTimer tid], LDone (LFail K_TIDCANCEL))
          end) s reqs ls = (s', o, ls') ->
  Forall stop_out o /\ stopping s' = true.
Proof.
  induction reqs as [|x r IH]; intros ls s s' o ls' St H; destruct ls as [|l ls]; try (inv H; split; auto; constructor).
  cbn [map_lookups] in H. destruct l.
  - destruct (map_lookups _ s r ls) as [[s2 o2] ls2] eqn:E. inv H. eauto.
  - unfold lookup_loaded at 1 in H. rewrite St in H.
    destruct (map_lookups _ s r ls) as [[s2 o2] ls2] eqn:E. inv H. simpl. eauto.
  - destruct (map_lookups _ s r ls) as [[s2 o2] ls2] eqn:E. inv H. apply IH in E as [A B]; auto. split; auto.
    simpl. constructor; simpl; auto.
Qed.

Lemma check_retry_stopping_out : forall c s pls fl s1 o1 done, stopping s = true ->
  check_retry c s pls fl = (s1, o1, done) -> only_outcomes o1.
Proof.
  unfold check_retry; intros c s pls fl s1 o1 done St H. rewrite St, orb_true_r in H.
  destruct (deliver_failed s pls fl) eqn:E; inv H. eapply deliver_failed_xo; eauto.
Qed.

Lemma handle_result_stopping_out : forall c s pls cur v s1 o1 done, stopping s = true ->
  handle_result c s pls cur v = (s1, o1, done) -> only_outcomes o1.
Proof.
  unfold handle_result; intros c s pls cur v s1 o1 done St H. destruct v.
  - destruct (deliver s (all_sends pls) _) eqn:E; inv H. eapply deliver_xo; eauto.
  - destruct (process_resps s pls rs) as [[s2 o2] f2] eqn:E. apply process_resps_xo in E as [E E'].
    destruct f2; [inv H; auto|].
    destruct (check_retry c s2 pls _) as [[s3 o3] d3] eqn:E3. inv H.
    apply only_outcomes_app; auto. eapply check_retry_stopping_out; [|exact E3]. apply eq_xo_keeps in E. destruct E; congruence.
  - destruct (if c_acks c =? 0 then _ else _) as [s0 o0] eqn:E0.
    assert (A0 : stopping s0 = true /\ only_outcomes o0).
    { destruct (c_acks c =? 0); [apply deliver_xo in E0 as [E E']; split; auto; apply eq_xo_keeps in E; destruct E; congruence|inv E0; auto with prod]. }
    destruct A0 as [A0 A1].
    destruct (process_resps s0 pls rs) as [[s2 o2] f2] eqn:E. apply process_resps_xo in E as [E E'].
    destruct (check_retry c s2 pls _) as [[s3 o3] d3] eqn:E3. inv H.
    repeat apply only_outcomes_app; auto.
    eapply check_retry_stopping_out; [|exact E3]. apply eq_xo_keeps in E. destruct E; congruence.
  - eapply check_retry_stopping_out; eauto.
  - destruct (deliver s (all_sends pls) _) eqn:E; inv H. eapply deliver_xo; eauto.
Qed.

Lemma cancel_batch_stopping_out : forall c s cv s1 o1 done, stopping s = true ->
  cancel_batch c s cv = (s1, o1, done) -> Forall stop_out o1.
Proof.
  unfold cancel_batch; intros c s cv s1 o1 done St H. destruct (ph s) eqn:P.
  - inv H; constructor.
  - destruct (map_lookups _ s reqs ls) as [[s2 o2] ls2] eqn:E.
    apply cancel_lookups_out in E as [A B]; auto.
    unfold lookups_progress in H. destruct (all_done ls2).
    + rewrite send_requests_stopping in H; auto. inv H. rewrite app_nil_r; auto.
    + inv H. rewrite app_nil_r; auto.
  - unfold version_failed in H. destruct (deliver s reqs _) eqn:E; inv H.
    apply outcomes_stop_out. eapply deliver_xo; eauto.
  - apply outcomes_stop_out. eapply handle_result_stopping_out; eauto.
  - destruct (deliver s (all_sends pls) _) eqn:E; inv H. constructor; simpl; auto.
    apply outcomes_stop_out. eapply deliver_xo; eauto.
Qed.

Record stop_spec (s s' : state) (out : list output) : Prop := {
  st_out : outstanding s' = [];
  st_perm : Permutation (outstanding s) (oc out);
  st_flags : stopping s' = true /\ looper s' = false /\ ph s' = Idle;
  st_queue : queue s' = [] /\ wcnt s' = 0 /\ wbytes s' = 0;
  st_quiet : Forall stop_out out }.

Lemma stop_step_spec : forall c s cv s' out, Inv s -> step c s (EStop cv) = (s', out) -> stop_spec s s' out.
Proof.
  intros c s cv s' out I H.
  destruct (step_stop_inv _ _ _ _ _ I H) as [[I' P _] E0]. simpl in P. rewrite app_nil_r, E0, app_nil_r in P.
  destruct I as [W L]. pose proof W as [IB PW ID ST].
  unfold step in H. set (s0 := set_flags s true (looper s)) in *.
  destruct (cancel_batch c s0 cv) as [[s1 o1] done] eqn:E.
  pose proof (cancel_batch_stopping_out c s0 cv s1 o1 done eq_refl E) as Q1.
  assert (K : stopping s1 = true).
  { destruct (phase_eq_idle (ph s)) as [Pi|Pi].
    - unfold cancel_batch in E. replace (ph s0) with Idle in E by (symmetry; exact Pi). inv E. reflexivity.
    - apply cancel_batch_ok in E. destruct E as [[_ _ _ K _ _ _] _ _]. rewrite K. reflexivity. }
  assert (M : exists s2 o2, apply_epi c s1 (if done then Fin else NoEpi) = (s2, o2) /\ Forall stop_out o2 /\ stopping s2 = true).
  { destruct done; simpl.
    - unfold finish, finish0. destruct (stopping_no_dispatch c (set_retry (set_ph s1 Idle) 0 0 0) K) as [_ C]. rewrite C.
      eexists; eexists; split; [reflexivity|]. split; [repeat constructor|exact K].
    - eexists; eexists; split; [reflexivity|]. split; [constructor|exact K]. }
  destruct M as (s2 & o2 & A & Q2 & K2). unfold fin_if in H. rewrite A in H.
  destruct (cancel_all _ _) as [s4 o4] eqn:E4. inv H.
  pose proof (cancel_all_frame _ _ _ _ E4) as (F1 & F2 & F3 & F4 & F5 & F6 & F7). simpl in *.
  pose proof (cancel_all_spec _ _ _ _ E4) as (OO & _).
  destruct I' as [W' L']. pose proof W' as [IB' _ _ ST'].
  assert (Q0 : queue s' = []).
  { destruct (queue s') as [|x r] eqn:Q; auto. exfalso. pose proof (i_qout _ _ IB') as X. rewrite Q, E0 in X.
    apply (X (s_id x)). left; reflexivity. }
  constructor; auto.
  - pose proof (i_wcnt _ _ IB') as X1. pose proof (i_wbytes _ _ IB') as X2. rewrite Q0 in X1, X2. simpl in X1, X2. repeat split; auto.
  - apply Forall_app; split; [exact Q1|]. apply Forall_app; split; [exact Q2|]. apply outcomes_stop_out; auto.
Qed.

Theorem dispatch_iff : forall c s e s' out sids, Inv s -> step c s e = (s', out) ->
  (In (ODispatch sids) out <-> dispatch_cond c s e out sids).
Proof.
  intros c s e s' out sids I H. unfold dispatch_cond.
  assert (NS : (forall cv, e <> EStop cv) -> exists s1 o1 ep o2, core c s e = (s1, o1, ep) /\ apply_epi c s1 ep = (s', o2) /\ out = o1 ++ o2)
    by (intros; eapply step_nonstop; eauto).
  assert (BE : batch_event e = true ->
    (In (ODispatch sids) out <->
     stopping s = false /\ sids <> [] /\ ph s <> Idle /\ In OBatchDone out /\ sids = ids (queue s) /\ threshold c s = true))
    by (intros; eapply dispatch_iff_batch; eauto).
  assert (QUIET : no_ghost out ->
    (In (ODispatch sids) out <->
     stopping s = false /\ sids <> [] /\ ph s <> Idle /\ In OBatchDone out /\ sids = ids (queue s) /\ threshold c s = true)).
  { intros NG. split; [intros X; exfalso; eapply no_ghost_not_dispatch; eauto|].
    intros (_ & _ & _ & X & _); exfalso; eapply no_ghost_not_done; eauto. }
  destruct e; try (apply BE; reflexivity).
  - (* ESend *)
    destruct (NS ltac:(intros ? X; discriminate X)) as (s1 & o1 & ep & o2 & C & A & ->). cbn [core] in C.
    destruct ((cnt <? 1) || (bytes <? 0)) eqn:G; [|destruct (stopping_dec s) as [SG|SG]; rewrite SG in C].
    + inv C. simpl in A. inv A. simpl. split; [intros [X|[]]; discriminate|].
      intros (_ & _ & _ & G1 & G2 & _). apply orb_true_iff in G as [G|G]; apply Z.ltb_lt in G; lia.
    + inv C. simpl in A. inv A. simpl. split; [intros [X|[]]; discriminate|]. intros (X & _). congruence.
    + apply orb_false_iff in G as [G1 G2]. apply Z.ltb_ge in G1, G2. inv C. simpl in A. simpl.
      rewrite (check_disp_iff _ _ _ _ sids A). rewrite can_dispatch_iff. unfold threshold, ids; simpl. rewrite map_app. simpl.
      fold (thr c (wcnt s + cnt) (wbytes s + bytes)). split.
      * intros (T & (Q & P & St) & ->). repeat split; auto. intros X. apply app_eq_nil in X as [_ X]; discriminate.
      * intros (St & _ & P & _ & _ & -> & T). repeat split; auto. intros X. apply app_eq_nil in X as [_ X]; discriminate.
  - (* EBadSend *)
    destruct (NS ltac:(intros ? X; discriminate X)) as (s1 & o1 & ep & o2 & C & A & ->). cbn [core] in C.
    inv C. simpl in A. inv A. apply QUIET. repeat constructor.
  - (* ECancel *)
    destruct (NS ltac:(intros ? X; discriminate X)) as (s1 & o1 & ep & o2 & C & A & ->). cbn [core] in C.
    destruct (cancel_send s sid) as [s2 o3] eqn:E. inv C. simpl in A. inv A. rewrite app_nil_r in *.
    apply QUIET. apply cancel_send_spec in E as (OO & _). auto with prod.
  - (* ETick *)
    destruct (NS ltac:(intros ? X; discriminate X)) as (s1 & o1 & ep & o2 & C & A & ->). cbn [core] in C.
    inv C. destruct (looper s1) eqn:Lp; simpl in A |- *.
    + rewrite (try_disp_iff _ _ _ _ sids A). rewrite can_dispatch_iff. split.
      * intros ((Q & P & St) & ->). repeat split; auto. intros X. apply ids_nil in X. auto.
      * intros (St & Q & P & _ & ->). repeat split; auto. intros X. rewrite X in Q. auto.
    + inv A. split; [intros []|intros (_ & _ & _ & X & _); discriminate].
  - (* EMetaSet *)
    destruct (NS ltac:(intros ? X; discriminate X)) as (s1 & o1 & ep & o2 & C & A & ->). cbn [core] in C.
    inv C. simpl in A. inv A. apply QUIET. constructor.
  - (* EMetaClearAll *)
    destruct (NS ltac:(intros ? X; discriminate X)) as (s1 & o1 & ep & o2 & C & A & ->). cbn [core] in C.
    inv C. simpl in A. inv A. apply QUIET. constructor.
  - (* EBroken *)
    destruct (NS ltac:(intros ? X; discriminate X)) as (s1 & o1 & ep & o2 & C & A & ->). cbn [core] in C.
    inv C. simpl in A. inv A. apply QUIET. constructor.
  - (* EStop *)
    apply stop_step_spec in H; auto. destruct H as [_ _ _ _ Q]. rewrite Forall_forall in Q.
    split; [intros X; apply Q in X; destruct X|intros (_ & _ & [])].
Qed.

(* ------------------------------------------------------------------ no due batch is ever left waiting *)
Definition rest_ok (c : cfg) (s : state) : Prop := can_dispatch s = true -> threshold c s = false.

Lemma thr_mono : forall c a b a' b', a' <= a -> b' <= b -> thr c a' b' = true -> thr c a b = true.
Proof.
  unfold thr; intros c a b a' b' H1 H2 H. apply orb_true_iff in H. apply orb_true_iff.
  destruct H as [H|H]; apply andb_true_iff in H as [X Y]; apply Z.leb_le in Y; [left|right];
    apply andb_true_iff; split; auto; apply Z.leb_le; lia.
Qed.

Lemma rest_ok_same : forall c s s', queue s' = queue s -> wcnt s' = wcnt s -> wbytes s' = wbytes s -> ph s' = ph s ->
  stopping s' = stopping s -> rest_ok c s -> rest_ok c s'.
Proof.
  unfold rest_ok, threshold, can_dispatch; intros c s s' E1 E2 E3 E4 E5 H. rewrite E1, E2, E3, E4, E5. exact H.
Qed.

Lemma epi_rest_ok : forall c s1 ep s2 o2, ep = Check \/ ep = Try -> rest_ok c s1 \/ ep = Check ->
  apply_epi c s1 ep = (s2, o2) -> rest_ok c s2.
Proof.
  intros c s1 ep s2 o2 [-> | ->] R A; simpl in A.
  - intros X. eapply check_send_batch_post; eauto.
  - destruct R as [R|R]; [|discriminate]. apply try_send_batch_spec in A as [[Rd D]|(Rd & -> & ->)]; auto.
    apply dispatch_spec in D as (Q & _). intros X. apply can_dispatch_iff in X as (X & _). congruence.
Qed.

Theorem step_rest_ok : forall c s e s' out, Inv s -> rest_ok c s -> step c s e = (s', out) -> rest_ok c s'.
Proof.
  intros c s e s' out I R H.
  assert (NS : (forall cv, e <> EStop cv) -> exists s1 o1 ep o2, core c s e = (s1, o1, ep) /\ apply_epi c s1 ep = (s', o2) /\ out = o1 ++ o2)
    by (intros; eapply step_nonstop; eauto).
  destruct I as [W L]. pose proof W as [IB PW ID ST].
  assert (BE : batch_event e = true -> rest_ok c s').
  { intros B. destruct (NS ltac:(intros ? ->; discriminate)) as (s1 & o1 & ep & o2 & C & A & ->).
    apply core_batch in C as [(-> & -> & ->)|(NI & done & BS & ->)]; auto;
      try apply (i_onodup _ _ IB); try apply (i_bnodup _ _ IB).
    - simpl in A. inv A. auto.
    - destruct done; simpl in A.
      + unfold finish in A. destruct (finish0 s1) as [s2 o3]. destruct (check_send_batch c s2) as [s3 o4] eqn:E. inv A.
        intros X. eapply check_send_batch_post; eauto.
      + inv A. destruct (bs_ph _ _ _ _ _ BS eq_refl) as (P1 & _). intros X. apply can_dispatch_iff in X as (_ & X & _). congruence. }
  destruct e; try (apply BE; reflexivity).
  - destruct (NS ltac:(intros ? X; discriminate X)) as (s1 & o1 & ep & o2 & C & A & ->). cbn [core] in C.
    destruct ((cnt <? 1) || (bytes <? 0)); [|destruct (stopping_dec s) as [SG|SG]; rewrite SG in C].
    + inv C. simpl in A. inv A. eapply rest_ok_same; eauto; reflexivity.
    + inv C. simpl in A. inv A. eapply rest_ok_same; eauto; reflexivity.
    + inv C. eapply epi_rest_ok; [left; reflexivity|right; reflexivity|exact A].
  - destruct (NS ltac:(intros ? X; discriminate X)) as (s1 & o1 & ep & o2 & C & A & ->). cbn [core] in C.
    inv C. simpl in A. inv A. eapply rest_ok_same; eauto; reflexivity.
  - destruct (NS ltac:(intros ? X; discriminate X)) as (s1 & o1 & ep & o2 & C & A & ->). cbn [core] in C.
    destruct (cancel_send s sid) as [s2 o3] eqn:E. inv C. simpl in A. inv A.
    apply cancel_send_spec in E as (_ & P & St & _ & _ & _ & _ & _ & _ & _ & _ & _ & [(-> & _)|(_ & _ & [(Q & Wc & Wb & _)|(x & Rm & Wc & Wb & _)])]); auto.
    + eapply rest_ok_same; eauto.
    + apply remove_send_spec in Rm as (a & b & Qa & Qb & _).
      pose proof (i_qwf _ _ IB) as F. rewrite Qa in F. apply Forall_app in F as [_ F]. inversion F as [|? ? [C1 C2] _]; subst.
      intros X. apply can_dispatch_iff in X as (X1 & X2 & X3).
      destruct (threshold c s') eqn:T; auto. rewrite threshold_thr, Wc, Wb in T.
      apply thr_mono with (a := wcnt s) (b := wbytes s) in T; try lia.
      rewrite <- threshold_thr in T. rewrite <- T. apply R. apply can_dispatch_iff. rewrite Qa. repeat split; try congruence.
      destruct a; discriminate.
  - destruct (NS ltac:(intros ? X; discriminate X)) as (s1 & o1 & ep & o2 & C & A & ->). cbn [core] in C.
    inv C. destruct (looper s1).
    + eapply epi_rest_ok; [right; reflexivity|left; exact R|exact A].
    + simpl in A. inv A. auto.
  - destruct (NS ltac:(intros ? X; discriminate X)) as (s1 & o1 & ep & o2 & C & A & ->). cbn [core] in C.
    inv C. simpl in A. inv A. eapply rest_ok_same; eauto; reflexivity.
  - destruct (NS ltac:(intros ? X; discriminate X)) as (s1 & o1 & ep & o2 & C & A & ->). cbn [core] in C.
    inv C. simpl in A. inv A. eapply rest_ok_same; eauto; reflexivity.
  - destruct (NS ltac:(intros ? X; discriminate X)) as (s1 & o1 & ep & o2 & C & A & ->). cbn [core] in C.
    inv C. simpl in A. inv A. eapply rest_ok_same; eauto; reflexivity.
  - apply stop_step_spec in H; [|split; auto]. destruct H as [_ _ (S1 & _) _ _].
    intros X. apply can_dispatch_iff in X as (_ & _ & X). congruence.
Qed.

Theorem reachable_rest_ok : forall c s, reachable c s -> rest_ok c s.
Proof.
  intros c s (h & a & ca & evs & <-).
  assert (G : forall evs s0, Inv s0 -> rest_ok c s0 -> rest_ok c (fst (run c s0 evs))).
  { induction evs0 as [|e r IH]; simpl; intros s0 I R; auto.
    destruct (step c s0 e) as [s1 o] eqn:E. destruct (run c s1 r) as [s2 t2] eqn:E2. simpl.
    replace s2 with (fst (run c s1 r)) by (rewrite E2; reflexivity).
    apply IH; [eapply step_inv; eauto|eapply step_rest_ok; eauto]. }
  apply G; [apply init_inv|]. intros X. apply can_dispatch_iff in X as (X & _). simpl in X. congruence.
Qed.

(* ------------------------------------------------------------------ deferred threshold, no starvation *)
Theorem deferred_threshold : forall c s e s' out, Inv s -> batch_event e = true -> step c s e = (s', out) ->
  ph s <> Idle -> queue s <> [] -> stopping s = false -> threshold c s = true ->
  In OBatchDone out -> In (ODispatch (ids (queue s))) out /\ queue s' = [].
Proof.
  intros c s e s' out I B H P Q St T D.
  assert (X : In (ODispatch (ids (queue s))) out).
  { apply (dispatch_iff_batch c s e s' out (ids (queue s)) I B H). repeat split; auto. intros X. apply ids_nil in X. auto. }
  split; auto.
  (* the queue is empty afterwards *)
  destruct I as [W L]. pose proof W as [IB PW ID ST].
  destruct (step_nonstop c s e s' out) as (s1 & o1 & ep & o2 & C & A & ->); auto.
  { intros cv ->; discriminate. }
  apply core_batch in C as [(-> & -> & ->)|(NI & done & BS & ->)]; auto;
    try apply (i_onodup _ _ IB); try apply (i_bnodup _ _ IB).
  - simpl in A. inv A. destruct D.
  - pose proof (bs_ng _ _ _ _ _ BS) as NG. destruct done; simpl in A.
    + unfold finish in A. destruct (finish0 s1) as [s2 o3] eqn:F. destruct (check_send_batch c s2) as [s3 o4] eqn:E. inv A.
      apply in_app_or in X as [X|X]; [exfalso; eapply no_ghost_not_dispatch; eauto|].
      unfold finish0 in F. inv F. destruct X as [X|X]; [discriminate|].
      apply check_send_batch_spec in E as [(_ & _ & Dp)|(_ & _ & ->)]; [|destruct X].
      apply dispatch_spec in Dp as (Q0 & _). exact Q0.
    + inv A. rewrite app_nil_r in D. exfalso; eapply no_ghost_not_done; eauto.
Qed.

Theorem tick_flushes : forall c s s' out, Inv s -> looper s = true -> ph s = Idle -> step c s ETick = (s', out) ->
  queue s' = [] /\ (queue s <> [] -> In (ODispatch (ids (queue s))) out).
Proof.
  intros c s s' out I Lp P H.
  assert (St : stopping s = false) by (destruct I as [_ L]; destruct (stopping s); auto; rewrite L in Lp; auto; discriminate).
  split.
  - unfold step in H. cbn [core] in H. rewrite Lp in H. simpl in H.
    destruct (try_send_batch c s) as [s2 o2] eqn:E. inv H.
    apply try_send_batch_spec in E as [[Rd D]|(Rd & -> & ->)].
    + apply dispatch_spec in D as (Q & _). exact Q.
    + unfold ready in Rd. destruct (queue s) eqn:Q; auto. exfalso.
      assert (X : can_dispatch s = true) by (apply can_dispatch_iff; rewrite Q; repeat split; auto; discriminate). congruence.
  - intros Q. apply (dispatch_iff c s ETick s' out (ids (queue s)) I H). unfold dispatch_cond. repeat split; auto.
    intros X. apply ids_nil in X. auto.
Qed.

(* ------------------------------------------------------------------ what can be put on the wire *)
Definition wire_sids (o : output) : list Z :=
  match o with OSendProduce _ _ pls => map fst (flat_map snd pls) | _ => [] end.
Definition wire_in (B : list Z) (out : list output) : Prop := forall o, In o out -> incl (wire_sids o) B.
(* the sends the producer still holds: the batch in flight and the queue *)
Definition pool (s : state) : list Z := ids (batch_sends (ph s)) ++ ids (queue s).

Lemma wire_in_app : forall B a b, wire_in B a -> wire_in B b -> wire_in B (a ++ b).
Proof. unfold wire_in; intros B a b H1 H2 o Ho. apply in_app_or in Ho as [Ho|Ho]; auto. Qed.
Lemma wire_in_mono : forall B B' a, incl B B' -> wire_in B a -> wire_in B' a.
Proof. unfold wire_in; intros B B' a I H o Ho. eapply incl_tran; eauto. Qed.
Lemma wire_in_nil : forall B, wire_in B [].
Proof. intros B o []. Qed.
Lemma wire_in_quiet : forall B a, Forall (fun o => wire_sids o = []) a -> wire_in B a.
Proof. unfold wire_in; intros B a F o Ho. rewrite Forall_forall in F. rewrite (F _ Ho). intros ? []. Qed.
Lemma wire_in_lk : forall B a, lk_outs a -> wire_in B a.
Proof. intros B a H. apply wire_in_quiet. eapply Forall_impl; [|exact H]. intros [] X; simpl in *; auto; discriminate. Qed.
Lemma wire_in_outcomes : forall B a, only_outcomes a -> wire_in B a.
Proof. intros B a H. apply wire_in_quiet. eapply Forall_impl; [|exact H]. intros [] X; simpl in *; auto; discriminate. Qed.

Lemma msgs_of_fst : forall x m, In m (msgs_of x) -> fst m = s_id x.
Proof. unfold msgs_of; intros x m H. apply in_map_iff in H as (i & <- & _). reflexivity. Qed.

Lemma wire_view : forall pls, incl (map fst (flat_map snd (map payload_view pls))) (ids (all_sends pls)).
Proof.
  intros pls i Hi. apply in_map_iff in Hi as (m & <- & Hm). apply in_flat_map in Hm as (v & Hv & Hm).
  apply in_map_iff in Hv as (p & <- & Hp). simpl in Hm. apply in_flat_map in Hm as (x & Hx & Hm).
  rewrite (msgs_of_fst _ _ Hm). apply in_map. apply in_flat_map. eauto.
Qed.

Lemma send_requests_wire : forall s reqs res s1 o1 done, NoDup (outstanding s) ->
  send_requests s reqs res = (s1, o1, done) -> wire_in (ids reqs) o1.
Proof.
  unfold send_requests; intros s reqs res s1 o1 done N H.
  destruct (stopping s); [inv H; apply wire_in_nil|].
  destruct (api s =? 0); [inv H; apply wire_in_quiet; repeat constructor|].
  destruct (group_requests s reqs res []) as [[s2 o2] pls] eqn:E.
  pose proof (group_requests_xo _ _ _ _ _ _ _ E) as [_ X2].
  apply group_requests_spec in E as (_ & B & _); auto. simpl in B.
  destruct pls as [|p pls]; [inv H; apply wire_in_outcomes; auto|].
  destruct (broken s2); inv H; [apply wire_in_outcomes; auto|].
  apply wire_in_app; [apply wire_in_outcomes; auto|].
  intros o [<-|[]]. simpl. eapply incl_tran; [apply (wire_view (p :: pls))|]. apply ids_incl; auto.
Qed.

Lemma lookups_progress_wire : forall s reqs ls s1 o1 done, NoDup (outstanding s) ->
  lookups_progress s reqs ls = (s1, o1, done) -> wire_in (ids reqs) o1.
Proof.
  unfold lookups_progress; intros s reqs ls s1 o1 done N H. destruct (all_done ls).
  - eapply send_requests_wire; eauto.
  - inv H; apply wire_in_nil.
Qed.

Lemma check_retry_wire : forall c s pls fl s1 o1 done B, check_retry c s pls fl = (s1, o1, done) -> wire_in B o1.
Proof.
  unfold check_retry; intros c s pls fl s1 o1 done B H. destruct ((c_max c <=? attempts s) || stopping s).
  - destruct (deliver_failed s pls fl) eqn:E; inv H. apply wire_in_outcomes. eapply deliver_failed_xo; eauto.
  - inv H. apply wire_in_quiet. destruct (reset_topics fl); repeat constructor.
Qed.

Lemma handle_result_wire : forall c s pls cur v s1 o1 done B, handle_result c s pls cur v = (s1, o1, done) -> wire_in B o1.
Proof.
  unfold handle_result; intros c s pls cur v s1 o1 done B H. destruct v.
  - destruct (deliver s (all_sends pls) _) eqn:E; inv H. apply wire_in_outcomes. eapply deliver_xo; eauto.
  - destruct (process_resps s pls rs) as [[s2 o2] f2] eqn:E. apply process_resps_xo in E as [_ E'].
    destruct f2; [inv H; apply wire_in_outcomes; auto|].
    destruct (check_retry c s2 pls _) as [[s3 o3] d3] eqn:E3. inv H.
    apply wire_in_app; [apply wire_in_outcomes; auto|eapply check_retry_wire; eauto].
  - destruct (if c_acks c =? 0 then _ else _) as [s0 o0] eqn:E0.
    assert (A0 : only_outcomes o0).
    { destruct (c_acks c =? 0); [apply deliver_xo in E0 as [_ E']; auto|inv E0; auto with prod]. }
    destruct (process_resps s0 pls rs) as [[s2 o2] f2] eqn:E. apply process_resps_xo in E as [_ E'].
    destruct (check_retry c s2 pls _) as [[s3 o3] d3] eqn:E3. inv H.
    apply wire_in_app; [apply wire_in_outcomes; auto|]. apply wire_in_app; [apply wire_in_outcomes; auto|]. eapply check_retry_wire; eauto.
  - eapply check_retry_wire; eauto.
  - destruct (deliver s (all_sends pls) _) eqn:E; inv H. apply wire_in_outcomes. eapply deliver_xo; eauto.
Qed.

Lemma core_batch_wire : forall c s e s1 o1 ep, NoDup (outstanding s) -> batch_event e = true ->
  core c s e = (s1, o1, ep) -> wire_in (ids (batch_sends (ph s))) o1.
Proof.
  intros c s e s1 o1 ep N BE H. destruct e; try discriminate; cbn [core] in H.
  - destruct (ph s) eqn:P; try (inv H; apply wire_in_nil; fail).
    destruct (map_lookups _ s reqs ls) as [[s2 o2] ls2] eqn:E.
    apply map_lookups_xl in E as (A1 & A2 & A3).
    2:{ intros st x l st' o' l' Hf. destruct l; try discriminate. destruct (lid0 =? lid); [|discriminate].
        inv Hf. destruct ok; [eapply lookup_loaded_xl; eauto|inv H1; xl_done]. }
    destruct (lookups_progress s2 reqs ls2) as [[s3 o3] d3] eqn:E3. unfold fin_if in H. inv H.
    apply wire_in_app; [apply wire_in_lk; auto|]. simpl. eapply lookups_progress_wire; [|exact E3].
    rewrite (eq_xl_outstanding _ _ A1); auto.
  - destruct (ph s) eqn:P; try (inv H; apply wire_in_nil; fail).
    + destruct (map_lookups _ s reqs ls) as [[s2 o2] ls2] eqn:E.
      apply map_lookups_xl in E as (A1 & A2 & A3).
      2:{ intros st x l st' o' l' Hf. destruct l; try discriminate. destruct (tid0 =? tid); [|discriminate].
          inv Hf. eapply lookup_head_xl; eauto. }
      destruct (lookups_progress s2 reqs ls2) as [[s3 o3] d3] eqn:E3. unfold fin_if in H. inv H.
      apply wire_in_app; [apply wire_in_lk; auto|]. simpl. eapply lookups_progress_wire; [|exact E3].
      rewrite (eq_xl_outstanding _ _ A1); auto.
    + destruct (tid0 =? tid); [|inv H; apply wire_in_nil]. destruct (broken s); inv H; [apply wire_in_nil|].
      intros o [<-|[]]. simpl. eapply incl_tran; [apply wire_view|]. apply ids_incl, all_sends_filter_incl.
  - destruct (ph s) eqn:P; try (inv H; apply wire_in_nil; fail). simpl.
    destruct (r =? 0); [|destruct (r =? 1)].
    + destruct (send_requests _ reqs res) as [[s2 o2] d2] eqn:E. unfold fin_if in H. inv H. eapply send_requests_wire; [|exact E]. exact N.
    + destruct (send_requests _ reqs res) as [[s2 o2] d2] eqn:E. unfold fin_if in H. inv H. eapply send_requests_wire; [|exact E]. exact N.
    + unfold version_failed in H. destruct (deliver s reqs _) eqn:E. unfold fin_if in H. inv H.
      apply wire_in_outcomes. eapply deliver_xo; eauto.
  - destruct (ph s) eqn:P; try (inv H; apply wire_in_nil; fail).
    destruct (result_ok c cur v); [|inv H; apply wire_in_nil].
    destruct (handle_result c s pls cur v) as [[s2 o2] d2] eqn:E. unfold fin_if in H. inv H.
    eapply handle_result_wire; eauto.
  - destruct (ph s) eqn:P; try (inv H; apply wire_in_nil; fail).
    destruct (omit_ok c cur v); [|inv H; apply wire_in_nil].
    destruct (handle_result c s pls cur v) as [[s2 o2] d2] eqn:E. unfold fin_if in H. inv H.
    eapply handle_result_wire; eauto.
Qed.

Lemma dispatch_wire : forall c s s' o, NoDup (outstanding s) -> dispatch c s = (s', o) -> wire_in (ids (queue s)) o.
Proof.
  unfold dispatch; intros c s s' o N H.
  destruct (map_lookups _ _ (queue s) _) as [[s1 o1] ls] eqn:E1.
  apply map_lookups_xl in E1 as (A1 & A2 & A3);
    [|intros st x l st' o' l' Hf; inv Hf; eapply lookup_head_xl; eauto].
  destruct (lookups_progress s1 (queue s) ls) as [[s2 o2] done] eqn:E2.
  apply lookups_progress_wire in E2; [|rewrite (eq_xl_outstanding _ _ A1); exact N].
  assert (X : wire_in (ids (queue s)) (ODispatch (map s_id (queue s)) :: o1 ++ o2)).
  { intros z [<-|Hz]; [intros ? []|]. revert z Hz. apply wire_in_app; auto. apply wire_in_lk; auto. }
  destruct done; [|inv H; exact X].
  unfold finish0 in H. inv H.
  replace (ODispatch (map s_id (queue s)) :: o1 ++ o2 ++ [OBatchDone]) with ((ODispatch (map s_id (queue s)) :: o1 ++ o2) ++ [OBatchDone])
    by (simpl; rewrite <- app_assoc; reflexivity).
  apply wire_in_app; auto. apply wire_in_quiet; repeat constructor.
Qed.

Lemma epi_wire : forall c s1 ep s2 o2, WInv s1 -> apply_epi c s1 ep = (s2, o2) ->
  wire_in (ids (queue s1)) o2 /\ incl (pool s2) (ids (queue s1)) \/ (s2 = s1 /\ o2 = []).
Proof.
  intros c s1 ep s2 o2 W A.
  assert (T : forall s s' o, WInv s -> try_send_batch c s = (s', o) ->
              wire_in (ids (queue s)) o /\ incl (pool s') (ids (queue s)) \/ (s' = s /\ o = [])).
  { intros s s' o Ws H. pose proof H as H0. apply try_send_batch_spec in H as [[R D]|(R & -> & ->)]; [left|right; auto].
    unfold ready in R. apply can_dispatch_iff in R as (Q & P & St).
    pose proof (i_b _ Ws) as IB. rewrite P in IB.
    split; [eapply dispatch_wire; eauto; apply (i_onodup _ _ IB)|].
    apply dispatch_inv in D as (_ & _ & Q' & _ & _ & _ & I'); auto.
    unfold pool. rewrite Q'. simpl. rewrite app_nil_r. apply ids_incl; auto. }
  assert (Ck : forall s s' o, WInv s -> check_send_batch c s = (s', o) ->
              wire_in (ids (queue s)) o /\ incl (pool s') (ids (queue s)) \/ (s' = s /\ o = [])).
  { unfold check_send_batch; intros s s' o Ws H. destruct (threshold c s); [eauto|inv H; right; auto]. }
  destruct ep; simpl in A.
  - inv A; right; auto.
  - unfold finish in A. destruct (finish0 s1) as [s3 o3] eqn:F. destruct (check_send_batch c s3) as [s4 o4] eqn:E. inv A.
    pose proof (i_b _ W) as IB.
    destruct (finish0_inv _ _ _ _ IB F) as (W3 & -> & [K1 _ _ _ _ _ _] & _ & P3).
    left. apply Ck in E as [[X Y]|[-> ->]]; auto.
    + rewrite K1 in X, Y. split; auto. apply wire_in_app; auto. apply wire_in_quiet; repeat constructor.
    + split; [apply wire_in_quiet; repeat constructor|]. unfold pool. rewrite P3, K1. simpl. apply incl_refl.
  - eauto.
  - eauto.
Qed.

Theorem step_pool : forall c s e s' out, Inv s -> step c s e = (s', out) ->
  incl (pool s') (pool s ++ new_sids s e) /\ wire_in (pool s ++ new_sids s e) out.
Proof.
  intros c s e s' out I H. pose proof I as [W L]. pose proof W as [IB PW ID ST].
  assert (NS : (forall cv, e <> EStop cv) -> exists s1 o1 ep o2, core c s e = (s1, o1, ep) /\ apply_epi c s1 ep = (s', o2) /\ out = o1 ++ o2)
    by (intros; eapply step_nonstop; eauto).
  assert (BE : batch_event e = true -> incl (pool s') (pool s ++ new_sids s e) /\ wire_in (pool s ++ new_sids s e) out).
  { intros B. destruct (NS ltac:(intros ? ->; discriminate)) as (s1 & o1 & ep & o2 & C & A & ->).
    pose proof (core_batch_wire _ _ _ _ _ _ (i_onodup _ _ IB) B C) as WI.
    assert (E0 : new_sids s e = []) by (destruct e; try discriminate; reflexivity). rewrite E0, app_nil_r.
    apply core_batch in C as [(-> & -> & ->)|(NI & done & BS & ->)]; auto;
      try apply (i_onodup _ _ IB); try apply (i_bnodup _ _ IB).
    - simpl in A. inv A. split; [apply incl_refl|apply wire_in_nil].
    - pose proof (bs_keeps _ _ _ _ _ BS) as [K1 K2 K3 K4 K5 K6 K7].
      destruct done.
      + pose proof (invB_bstep _ _ _ _ _ [] IB BS (incl_nil_l _) (NoDup_nil _)) as I2.
        simpl in A. unfold finish in A. destruct (finish0 s1) as [s3 o3] eqn:F. destruct (check_send_batch c s3) as [s4 o4] eqn:E. inv A.
        destruct (finish0_inv _ _ _ _ I2 F) as (W3 & -> & [J1 _ _ _ _ _ _] & _ & P3).
        assert (A' : apply_epi c s3 Check = (s', o4)) by exact E.
        apply epi_wire in A' as [[X Y]|[-> ->]]; auto.
        * rewrite J1, K1 in X, Y. split; [eapply incl_tran; [exact Y|apply incl_appr, incl_refl]|].
          apply wire_in_app; [eapply wire_in_mono; [|exact WI]; apply incl_appl, incl_refl|].
          apply wire_in_app; [apply wire_in_quiet; repeat constructor|eapply wire_in_mono; [|exact X]; apply incl_appr, incl_refl].
        * split; [unfold pool; rewrite P3, J1, K1; simpl; apply incl_appr, incl_refl|].
          apply wire_in_app; [eapply wire_in_mono; [|exact WI]; apply incl_appl, incl_refl|apply wire_in_quiet; repeat constructor].
      + simpl in A. inv A. rewrite app_nil_r. destruct (bs_ph _ _ _ _ _ BS eq_refl) as (_ & P2 & _).
        split; [|eapply wire_in_mono; [|exact WI]; apply incl_appl, incl_refl].
        unfold pool. rewrite K1. apply incl_app; [apply incl_appl, ids_incl; auto|apply incl_appr, incl_refl]. }
  destruct e; try (apply BE; reflexivity).
  - destruct (NS ltac:(intros ? X; discriminate X)) as (s1 & o1 & ep & o2 & C & A & ->). cbn [core] in C.
    destruct ((cnt <? 1) || (bytes <? 0)) eqn:G; [|destruct (stopping_dec s) as [SG|SG]; rewrite SG in C].
    + inv C. simpl in A. inv A. split; [apply incl_appl, incl_refl|apply wire_in_outcomes; repeat constructor].
    + inv C. simpl in A. inv A. split; [apply incl_appl, incl_refl|apply wire_in_outcomes; repeat constructor].
    + apply orb_false_iff in G as [G1 G2]. apply Z.ltb_ge in G1, G2. inv C.
      match type of A with apply_epi _ ?st _ = _ => assert (W1 : WInv st) by (apply inv_send; auto) end.
      apply epi_wire in A as [[X Y]|[-> ->]]; auto; unfold pool, ids in *; simpl in *; rewrite map_app in *; simpl in *.
      * split; [eapply incl_tran; [exact Y|]|eapply wire_in_mono; [|exact X]]; rewrite <- app_assoc; apply incl_appr, incl_refl.
      * split; [rewrite app_assoc; apply incl_refl|apply wire_in_nil].
  - destruct (NS ltac:(intros ? X; discriminate X)) as (s1 & o1 & ep & o2 & C & A & ->). cbn [core] in C.
    inv C. simpl in A. inv A. split; [apply incl_appl, incl_refl|apply wire_in_outcomes; repeat constructor].
  - destruct (NS ltac:(intros ? X; discriminate X)) as (s1 & o1 & ep & o2 & C & A & ->). cbn [core] in C.
    destruct (cancel_send s sid) as [s2 o3] eqn:E. inv C. simpl in A. inv A. simpl. rewrite !app_nil_r.
    apply cancel_send_spec in E as (OO & P & _ & _ & _ & _ & _ & _ & _ & _ & _ & _ & [(-> & -> & _)|(_ & _ & [(Q & _)|(x & Rm & _)])]).
    + split; [apply incl_refl|apply wire_in_nil].
    + split; [unfold pool; rewrite P, Q; apply incl_refl|apply wire_in_outcomes; auto].
    + split; [|apply wire_in_outcomes; auto]. apply remove_send_spec in Rm as (a & b & Qa & Qb & _).
      unfold pool. rewrite P, Qa, Qb. apply incl_app; [apply incl_appl, incl_refl|apply incl_appr, ids_incl].
      intros z Hz. apply in_app_or in Hz as [Hz|Hz]; apply in_or_app; [left|right; right]; auto.
  - destruct (NS ltac:(intros ? X; discriminate X)) as (s1 & o1 & ep & o2 & C & A & ->). cbn [core] in C.
    inv C. simpl. rewrite app_nil_r. apply epi_wire in A as [[X Y]|[-> ->]]; auto.
    + split; [eapply incl_tran; [exact Y|apply incl_appr, incl_refl]|eapply wire_in_mono; [|exact X]; apply incl_appr, incl_refl].
    + split; [apply incl_refl|apply wire_in_nil].
  - destruct (NS ltac:(intros ? X; discriminate X)) as (s1 & o1 & ep & o2 & C & A & ->). cbn [core] in C.
    inv C. simpl in A. inv A. simpl. rewrite app_nil_r. split; [apply incl_refl|apply wire_in_nil].
  - destruct (NS ltac:(intros ? X; discriminate X)) as (s1 & o1 & ep & o2 & C & A & ->). cbn [core] in C.
    inv C. simpl in A. inv A. simpl. rewrite app_nil_r. split; [apply incl_refl|apply wire_in_nil].
  - destruct (NS ltac:(intros ? X; discriminate X)) as (s1 & o1 & ep & o2 & C & A & ->). cbn [core] in C.
    inv C. simpl in A. inv A. simpl. rewrite app_nil_r. split; [apply incl_refl|apply wire_in_nil].
  - apply stop_step_spec in H; auto. destruct H as [_ _ (_ & _ & P) (Q & _) F]. split.
    + unfold pool. rewrite P, Q. simpl. intros ? [].
    + apply wire_in_quiet. eapply Forall_impl; [|exact F]. intros [] X; simpl in *; auto; destruct X.
Qed.

(* ------------------------------------------------------------------ cancellation *)
(* a send the producer no longer holds *)
Definition absent (s : state) (sid : Z) : Prop := 0 <= sid < nsend s /\ ~ In sid (pool s).

Lemma absent_step : forall c s e s' out sid, Inv s -> absent s sid -> step c s e = (s', out) ->
  absent s' sid /\ forall o, In o out -> ~ In sid (wire_sids o).
Proof.
  intros c s e s' out sid I [B N] H. destruct (step_pool _ _ _ _ _ I H) as [P Wi].
  destruct (step_inv _ _ _ _ _ I H) as [_ _ NS].
  assert (X : ~ In sid (pool s ++ new_sids s e)).
  { intros X. apply in_app_or in X as [X|X]; auto. destruct e; simpl in X; try tauto; destruct X as [X|[]]; lia. }
  split; [split; [lia|intros Y; apply X, P, Y]|]. intros o Ho Y. apply X. eapply Wi; eauto.
Qed.

Theorem never_sent_run : forall c evs s s' tr sid, Inv s -> absent s sid -> run c s evs = (s', tr) ->
  forall e out o, In (e, out) tr -> In o out -> ~ In sid (wire_sids o).
Proof.
  induction evs as [|e r IH]; simpl; intros s s' tr sid I A H e0 out o Ht Ho.
  - inv H. destruct Ht.
  - destruct (step c s e) as [s1 o1] eqn:E. destruct (run c s1 r) as [s2 t2] eqn:E2. inv H.
    destruct (absent_step _ _ _ _ _ _ I A E) as [A1 W1].
    destruct Ht as [Ht|Ht]; [inv Ht; auto|].
    eapply IH; [eapply step_inv; eauto|exact A1|exact E2|exact Ht|exact Ho].
Qed.

Theorem cancel_queued : forall c s sid s' out, Inv s -> In sid (ids (queue s)) -> step c s (ECancel sid) = (s', out) ->
  exists a x b, queue s = a ++ x :: b /\ s_id x = sid /\ queue s' = a ++ b /\
                wcnt s' = wcnt s - s_cnt x /\ wbytes s' = wbytes s - s_bytes x /\
                out = [OOutcome sid (OFail K_CANCEL 0)] /\ ph s' = ph s /\ absent s' sid.
Proof.
  intros c s sid s' out I Q H. pose proof I as [W L]. pose proof W as [IB PW ID ST].
  unfold step in H. cbn [core] in H. destruct (cancel_send s sid) as [s2 o3] eqn:E. simpl in H. inv H. rewrite app_nil_r.
  pose proof (i_qout _ _ IB _ Q) as O. apply zmem_In in O.
  apply cancel_send_spec in E as (_ & P & _ & _ & Ns & _ & _ & _ & _ & _ & _ & _ & [(_ & _ & M)|(_ & _ & [(_ & _ & _ & Rm & _)|(x & Rm & Wc & Wb & ->)])]).
  - congruence.
  - apply remove_send_none in Rm. tauto.
  - apply remove_send_spec in Rm as (a & b & Qa & Qb & Sx & _). exists a, x, b. repeat split; auto.
    + pose proof (i_qbound _ _ IB) as F. rewrite Forall_forall in F. apply F in Q. unfold id_ok in Q. lia.
    + pose proof (i_qbound _ _ IB) as F. rewrite Forall_forall in F. apply F in Q. unfold id_ok in Q. lia.
    + unfold pool. rewrite P, Qb. intros X. apply in_app_or in X as [X|X].
      * pose proof (i_blt _ _ IB _ _ X Q). lia.
      * pose proof (i_qsorted _ _ IB) as S. rewrite Qa in S. unfold ids in *. rewrite map_app in *. simpl in S.
        apply sorted_lt_nodup in S. apply NoDup_remove_2 in S. rewrite Sx in S. auto.
Qed.

Theorem cancel_detached : forall c s sid s' out, Inv s -> In sid (outstanding s) -> ~ In sid (ids (queue s)) ->
  step c s (ECancel sid) = (s', out) ->
  s' = set_outstanding s (zremove sid (outstanding s)) /\
  out = [OOutcome sid (OFail K_CANCEL (match ph s with Idle => 0 | _ => 1 end))].
Proof.
  intros c s sid s' out I O Q H. unfold step in H. cbn [core] in H. unfold cancel_send in H.
  apply zmem_In in O. rewrite O in H. simpl in H.
  destruct (remove_send sid (queue s)) as [[x q]|] eqn:Rm.
  - apply remove_send_spec in Rm as (a & b & Qa & _ & Sx & _). exfalso. apply Q. rewrite Qa. unfold ids. rewrite map_app.
    apply in_or_app; right; left; auto.
  - inv H. auto.
Qed.

(* a send leaves the queue only by being dispatched or by an outcome (its own cancel(), or stop()) *)
Lemma epi_queue : forall c s1 ep s2 o2, apply_epi c s1 ep = (s2, o2) ->
  queue s2 = queue s1 \/ In (ODispatch (ids (queue s1))) o2.
Proof.
  intros c s1 ep s2 o2 A.
  assert (T : forall s s' o, try_send_batch c s = (s', o) -> queue s' = queue s \/ In (ODispatch (ids (queue s))) o).
  { intros s s' o H. apply try_send_batch_spec in H as [[_ D]|(_ & -> & _)]; auto.
    apply dispatch_spec in D as (_ & _ & _ & _ & _ & _ & rest & -> & _). right; left; reflexivity. }
  assert (Ck : forall s s' o, check_send_batch c s = (s', o) -> queue s' = queue s \/ In (ODispatch (ids (queue s))) o).
  { unfold check_send_batch; intros s s' o H. destruct (threshold c s); [eauto|inv H; auto]. }
  destruct ep; simpl in A; eauto.
  - inv A; auto.
  - unfold finish, finish0 in A. destruct (check_send_batch c _) as [s4 o4] eqn:E. inv A.
    apply Ck in E as [E|E]; simpl in E; auto. right; right; auto.
Qed.

Theorem queue_exit : forall c s e s' out sid, Inv s -> step c s e = (s', out) ->
  In sid (ids (queue s)) -> ~ In sid (ids (queue s')) ->
  (exists sids, In (ODispatch sids) out /\ In sid sids) \/ In sid (oc out).
Proof.
  intros c s e s' out sid I H Q Q'. pose proof I as [W L]. pose proof W as [IB PW ID ST].
  assert (NS : (forall cv, e <> EStop cv) -> exists s1 o1 ep o2, core c s e = (s1, o1, ep) /\ apply_epi c s1 ep = (s', o2) /\ out = o1 ++ o2)
    by (intros; eapply step_nonstop; eauto).
  assert (G : forall s1 o1 ep o2, apply_epi c s1 ep = (s', o2) -> out = o1 ++ o2 -> In sid (ids (queue s1)) ->
              exists sids, In (ODispatch sids) out /\ In sid sids).
  { intros s1 o1 ep o2 A -> Q1. apply epi_queue in A as [A|A]; [rewrite A in Q'; tauto|].
    eexists; split; [apply in_or_app; right; exact A|exact Q1]. }
  assert (BE : batch_event e = true -> (exists sids, In (ODispatch sids) out /\ In sid sids) \/ In sid (oc out)).
  { intros B. destruct (NS ltac:(intros ? ->; discriminate)) as (s1 & o1 & ep & o2 & C & A & E).
    left. eapply G; eauto.
    apply core_batch in C as [(-> & -> & ->)|(NI & done & BS & ->)]; auto;
      try apply (i_onodup _ _ IB); try apply (i_bnodup _ _ IB).
    destruct (bs_keeps _ _ _ _ _ BS) as [K1 _ _ _ _ _ _]. rewrite K1; auto. }
  destruct e; try (apply BE; reflexivity).
  - destruct (NS ltac:(intros ? X; discriminate X)) as (s1 & o1 & ep & o2 & C & A & E). cbn [core] in C. left.
    eapply G; eauto. destruct ((cnt <? 1) || (bytes <? 0)); [|destruct (stopping s)]; inv C; simpl; auto.
    unfold ids. rewrite map_app. apply in_or_app; auto.
  - destruct (NS ltac:(intros ? X; discriminate X)) as (s1 & o1 & ep & o2 & C & A & E). cbn [core] in C. left.
    eapply G; eauto. inv C; auto.
  - destruct (NS ltac:(intros ? X; discriminate X)) as (s1 & o1 & ep & o2 & C & A & E). cbn [core] in C.
    destruct (cancel_send s sid0) as [s2 o3] eqn:Ec. inv C. simpl in A. inv A. rewrite app_nil_r.
    apply cancel_send_spec in Ec as (_ & _ & _ & _ & _ & _ & _ & _ & _ & _ & _ & _ & [(-> & _)|(_ & _ & [(Qq & _)|(x & Rm & _ & _ & ->)])]).
    + tauto.
    + rewrite Qq in Q'; tauto.
    + right. apply remove_send_spec in Rm as (a & b & Qa & Qb & Sx & _). simpl. left.
      rewrite Qa in Q. rewrite Qb in Q'. unfold ids in *. rewrite map_app in *. simpl in Q.
      apply in_app_or in Q as [Q|[Q|Q]]; [exfalso; apply Q'; apply in_or_app; auto|congruence|exfalso; apply Q'; apply in_or_app; auto].
  - destruct (NS ltac:(intros ? X; discriminate X)) as (s1 & o1 & ep & o2 & C & A & E). cbn [core] in C. left.
    eapply G; eauto. inv C; auto.
  - destruct (NS ltac:(intros ? X; discriminate X)) as (s1 & o1 & ep & o2 & C & A & E). cbn [core] in C. left.
    eapply G; eauto. inv C; auto.
  - destruct (NS ltac:(intros ? X; discriminate X)) as (s1 & o1 & ep & o2 & C & A & E). cbn [core] in C. left.
    eapply G; eauto. inv C; auto.
  - destruct (NS ltac:(intros ? X; discriminate X)) as (s1 & o1 & ep & o2 & C & A & E). cbn [core] in C. left.
    eapply G; eauto. inv C; auto.
  - right. apply stop_step_spec in H; auto. destruct H as [_ P _ _ _].
    eapply Permutation_in; [exact P|]. apply (i_qout _ _ IB); auto.
Qed.

(* ------------------------------------------------------------------ after stop() *)
Theorem after_stop : forall c s e s' out, Inv s -> stopping s = true -> step c s e = (s', out) ->
  stopping s' = true /\ Forall stop_out out.
Proof.
  intros c s e s' out I St H. pose proof I as [W L]. pose proof W as [IB PW ID ST].
  assert (NS : (forall cv, e <> EStop cv) -> exists s1 o1 ep o2, core c s e = (s1, o1, ep) /\ apply_epi c s1 ep = (s', o2) /\ out = o1 ++ o2)
    by (intros; eapply step_nonstop; eauto).
  assert (BE : batch_event e = true -> stopping s' = true /\ Forall stop_out out).
  { intros B. destruct (NS ltac:(intros ? ->; discriminate)) as (s1 & o1 & ep & o2 & C & A & ->).
    apply core_batch in C as [(-> & -> & ->)|(NI & _)]; auto;
      try apply (i_onodup _ _ IB); try apply (i_bnodup _ _ IB).
    - simpl in A. inv A. split; auto. constructor.
    - exfalso; auto. }
  destruct e; try (apply BE; reflexivity).
  - destruct (NS ltac:(intros ? X; discriminate X)) as (s1 & o1 & ep & o2 & C & A & ->). cbn [core] in C.
    rewrite St in C. destruct ((cnt <? 1) || (bytes <? 0)); inv C; simpl in A; inv A; split; auto; repeat constructor.
  - destruct (NS ltac:(intros ? X; discriminate X)) as (s1 & o1 & ep & o2 & C & A & ->). cbn [core] in C.
    inv C. simpl in A. inv A. split; auto. repeat constructor.
  - destruct (NS ltac:(intros ? X; discriminate X)) as (s1 & o1 & ep & o2 & C & A & ->). cbn [core] in C.
    destruct (cancel_send s sid) as [s2 o3] eqn:Ec. inv C. simpl in A. inv A. rewrite app_nil_r.
    apply cancel_send_spec in Ec as (OO & _ & S2 & _). split; [congruence|apply outcomes_stop_out; auto].
  - destruct (NS ltac:(intros ? X; discriminate X)) as (s1 & o1 & ep & o2 & C & A & ->). cbn [core] in C.
    inv C. rewrite (L St) in A. simpl in A. inv A. split; simpl; [auto|try constructor; auto].
  - destruct (NS ltac:(intros ? X; discriminate X)) as (s1 & o1 & ep & o2 & C & A & ->). cbn [core] in C.
    inv C. simpl in A. inv A. split; simpl; [auto|try constructor; auto].
  - destruct (NS ltac:(intros ? X; discriminate X)) as (s1 & o1 & ep & o2 & C & A & ->). cbn [core] in C.
    inv C. simpl in A. inv A. split; simpl; [auto|try constructor; auto].
  - destruct (NS ltac:(intros ? X; discriminate X)) as (s1 & o1 & ep & o2 & C & A & ->). cbn [core] in C.
    inv C. simpl in A. inv A. split; simpl; [auto|try constructor; auto].
  - apply stop_step_spec in H; auto. destruct H as [_ _ (X & _) _ F]. split; auto.
Qed.

Theorem after_stop_run : forall c evs s s' tr, Inv s -> stopping s = true -> run c s evs = (s', tr) ->
  stopping s' = true /\ forall e out, In (e, out) tr -> Forall stop_out out.
Proof.
  induction evs as [|e r IH]; simpl; intros s s' tr I St H.
  - inv H. split; auto. intros ? ? [].
  - destruct (step c s e) as [s1 o1] eqn:E. destruct (run c s1 r) as [s2 t2] eqn:E2. inv H.
    destruct (after_stop _ _ _ _ _ I St E) as [S1 F1].
    destruct (IH _ _ _ (so_inv _ _ _ _ (step_inv _ _ _ _ _ I E)) S1 E2) as [S2 F2].
    split; auto. intros e0 out [X|X]; [inv X; auto|eauto].
Qed.

(* ------------------------------------------------------------------ stop(): every outcome is a cancellation
   (when the client's Deferred, being cancelled, delivers nothing of its own: cv = None) *)
Definition cancel_outcome (ou : output) : Prop :=
  match ou with OOutcome _ o => o = OFail K_CANCEL 0 \/ o = OFail K_TIDCANCEL 0 | _ => True end.

Lemma deliver_cancel_outcome : forall l s s' out, deliver s l (OFail K_TIDCANCEL 0) = (s', out) -> Forall cancel_outcome out.
Proof.
  induction l as [|x r IH]; simpl; intros s s' out H; [inv H; constructor|].
  destruct (zmem (s_id x) (outstanding s)); [|eauto].
  destruct (deliver _ r _) as [s1 o1] eqn:E. inv H. constructor; [right; reflexivity|eauto].
Qed.

Lemma lk_outs_cancel_outcome : forall o, lk_outs o -> Forall cancel_outcome o.
Proof. intros o H; eapply Forall_impl; [|exact H]. intros [] X; simpl in *; auto; discriminate. Qed.

Lemma cancel_all_idle_outcomes : forall ids0 s s1 o1, ph s = Idle -> cancel_all s ids0 = (s1, o1) -> Forall cancel_outcome o1.
Proof.
  induction ids0 as [|i r IH]; simpl; intros s s1 o1 P H; [inv H; constructor|].
  destruct (cancel_send s i) as [s2 o2] eqn:E. destruct (cancel_all s2 r) as [s3 o3] eqn:E3. inv H.
  apply cancel_send_spec in E as (_ & P2 & _ & _ & _ & _ & _ & _ & _ & _ & _ & _ & [(_ & -> & _)|(_ & _ & [(_ & _ & _ & _ & ->)|(x & _ & _ & _ & ->)])]);
    simpl; try constructor; try (eapply IH; [|exact E3]; congruence).
  - rewrite P. left; reflexivity.
  - left; reflexivity.
Qed.

Theorem stop_cancels : forall c s s' out, Inv s -> step c s (EStop None) = (s', out) -> Forall cancel_outcome out.
Proof.
  intros c s s' out I H. pose proof I as [W L]. pose proof W as [IB PW ID ST].
  pose proof (stop_step_spec _ _ _ _ _ I H) as [_ _ _ _ _].
  unfold step in H. set (s0 := set_flags s true (looper s)) in *.
  destruct (cancel_batch c s0 None) as [[s1 o1] done] eqn:E.
  assert (Q1 : Forall cancel_outcome o1).
  { unfold cancel_batch in E. destruct (ph s0) eqn:P.
    - inv E; constructor.
    - destruct (map_lookups _ s0 reqs ls) as [[s2 o2] ls2] eqn:E1.
      pose proof (cancel_lookups_out _ _ _ _ _ _ _ (eq_refl : stopping s0 = true) E1) as [_ St2].
      apply map_lookups_xl in E1 as (_ & A2 & _).
      2:{ intros st x l st' o' l' Hf. destruct l; [discriminate| |].
          - inv Hf. eapply lookup_loaded_xl; eauto.
          - inv Hf. xl_done. }
      unfold lookups_progress in E. destruct (all_done ls2).
      + rewrite send_requests_stopping in E; auto. inv E. rewrite app_nil_r. apply lk_outs_cancel_outcome; auto.
      + inv E. rewrite app_nil_r. apply lk_outs_cancel_outcome; auto.
    - unfold version_failed in E. destruct (deliver s0 reqs _) eqn:D; inv E. eapply deliver_cancel_outcome; eauto.
    - unfold handle_result in E. destruct (deliver s0 (all_sends pls) _) eqn:D; inv E. eapply deliver_cancel_outcome; eauto.
    - destruct (deliver s0 (all_sends pls) _) eqn:D; inv E. constructor; simpl; auto. eapply deliver_cancel_outcome; eauto. }
  assert (K : stopping s1 = true).
  { destruct (phase_eq_idle (ph s)) as [Pi|Pi].
    - unfold cancel_batch in E. replace (ph s0) with Idle in E by (symmetry; exact Pi). inv E. reflexivity.
    - apply cancel_batch_ok in E. destruct E as [[_ _ _ K _ _ _] _ _]. rewrite K. reflexivity. }
  assert (Pd : done = false -> ph s1 = Idle).
  { intros ->. destruct (phase_eq_idle (ph s)) as [Pi|Pi].
    - unfold cancel_batch in E. replace (ph s0) with Idle in E by (symmetry; exact Pi). inv E. exact Pi.
    - pose proof (cancel_batch_done c s0 None _ _ _ (eq_refl : stopping s0 = true) PW Pi E). discriminate. }
  assert (M : exists s2 o2, apply_epi c s1 (if done then Fin else NoEpi) = (s2, o2) /\ Forall cancel_outcome o2 /\ ph s2 = Idle).
  { destruct done; simpl.
    - unfold finish, finish0. destruct (stopping_no_dispatch c (set_retry (set_ph s1 Idle) 0 0 0) K) as [_ C]. rewrite C.
      eexists; eexists; split; [reflexivity|]. split; [repeat constructor|reflexivity].
    - eexists; eexists; split; [reflexivity|]. split; [constructor|auto]. }
  destruct M as (s2 & o2 & A & Q2 & P2). unfold fin_if in H. rewrite A in H.
  destruct (cancel_all _ _) as [s4 o4] eqn:E4. inv H.
  apply cancel_all_idle_outcomes in E4; [|exact P2].
  apply Forall_app; split; [exact Q1|]. apply Forall_app; split; [exact Q2|exact E4].
Qed.

(* ------------------------------------------------------------------ restatements used by Props/C19.v *)
Theorem no_due_batch_waits : forall c s, reachable c s ->
  queue s <> [] -> ph s = Idle -> stopping s = false -> threshold c s = false.
Proof. intros c s R Q P St. apply (reachable_rest_ok c s R). apply can_dispatch_iff; auto. Qed.

Theorem counters_exact : forall s, Inv s ->
  wcnt s = zsum (map s_cnt (queue s)) /\ wbytes s = zsum (map s_bytes (queue s)) /\
  Forall (fun x => 1 <= s_cnt x /\ 0 <= s_bytes x) (queue s).
Proof. intros s [[IB _ _ _] _]. destruct IB; auto. Qed.

Theorem inv_step : forall c s e s' out, Inv s -> step c s e = (s', out) -> Inv s'.
Proof. intros c s e s' out I H. apply (so_inv _ _ _ _ (step_inv _ _ _ _ _ I H)). Qed.

Theorem stop_all : forall c s cv s' out, Inv s -> step c s (EStop cv) = (s', out) ->
  outstanding s' = [] /\ Permutation (outstanding s) (oc out) /\
  stopping s' = true /\ looper s' = false /\ ph s' = Idle /\
  queue s' = [] /\ wcnt s' = 0 /\ wbytes s' = 0 /\ Forall stop_out out.
Proof. intros c s cv s' out I H. destruct (stop_step_spec _ _ _ _ _ I H) as [A B (C1 & C2 & C3) (D1 & D2 & D3) E]. repeat split; auto. Qed.

(* ------------------------------------------------------------------ a stopping producer refuses sends (producer.py:241-243) *)
Theorem send_refused : forall c s t ch cnt b s' out, stopping s = true -> step c s (ESend t ch cnt b) = (s', out) ->
  s' = set_ids s (nsend s + 1) (nload s) (ntimer s) /\
  exists k, out = [OOutcome (nsend s) (OFail k 0)] /\
            ((1 <= cnt /\ 0 <= b /\ k = K_CANCEL) \/ ((cnt < 1 \/ b < 0) /\ k = K_VALUE)).
Proof.
  intros c s t ch cnt b s' out St H. unfold step in H. cbn [core] in H. rewrite St in H.
  destruct ((cnt <? 1) || (b <? 0)) eqn:G; simpl in H; inv H; split; auto; eexists; split; try reflexivity.
  - right. split; auto. apply orb_true_iff in G as [G|G]; apply Z.ltb_lt in G; lia.
  - left. apply orb_false_iff in G as [G1 G2]. apply Z.ltb_ge in G1, G2. auto.
Qed.

(* the state stop() leaves behind *)
Definition stopped (s : state) : Prop :=
  stopping s = true /\ looper s = false /\ ph s = Idle /\ queue s = [] /\ outstanding s = [] /\ wcnt s = 0 /\ wbytes s = 0.

Lemma stop_gives_stopped : forall c s cv s' out, Inv s -> step c s (EStop cv) = (s', out) -> stopped s'.
Proof.
  intros c s cv s' out I H. destruct (stop_step_spec _ _ _ _ _ I H) as [A _ (B1 & B2 & B3) (C1 & C2 & C3) _].
  repeat split; auto.
Qed.

(* what a step of a stopped producer can emit: nothing, or the refusal of the send just made *)
Definition refusal (s : state) (e : event) (out : list output) : Prop :=
  out = [] \/ (exists k, out = [OOutcome (nsend s) (OFail k 0)] /\ match e with ESend _ _ _ _ | EBadSend _ => True | _ => False end).

Theorem stopped_step : forall c s e s' out, stopped s -> step c s e = (s', out) -> stopped s' /\ refusal s e out.
Proof.
  intros c s e s' out (St & Lp & Ph & Q & O & Wc & Wb) H.
  destruct e; unfold step in H; cbn [core] in H; rewrite ?St, ?Ph, ?Lp in H.
  - destruct ((cnt <? 1) || (bytes <? 0)); simpl in H; inv H; (split; [repeat split; auto|right; eexists; split; [reflexivity|exact I]]).
  - simpl in H. inv H. split; [repeat split; auto|right; eexists; split; [reflexivity|exact I]].
  - unfold cancel_send in H. rewrite O in H. simpl in H. inv H. split; [repeat split; auto|left; reflexivity].
  - simpl in H. inv H. split; [repeat split; auto|left; reflexivity].
  - simpl in H. inv H. split; [repeat split; auto|left; reflexivity].
  - simpl in H. inv H. split; [repeat split; auto|left; reflexivity].
  - simpl in H. inv H. split; [repeat split; auto|left; reflexivity].
  - simpl in H. inv H. split; [repeat split; auto|left; reflexivity].
  - simpl in H. inv H. split; [repeat split; auto|left; reflexivity].
  - simpl in H. inv H. split; [repeat split; auto|left; reflexivity].
  - simpl in H. inv H. split; [repeat split; auto|left; reflexivity].
  - simpl in H. inv H. split; [repeat split; auto|left; reflexivity].
  - unfold cancel_batch in H. simpl in H. rewrite Ph in H. simpl in H. rewrite O in H. simpl in H. inv H.
    split; [repeat split; auto|left; reflexivity].
Qed.

Theorem stopped_run : forall c evs s s' tr, stopped s -> run c s evs = (s', tr) ->
  stopped s' /\ forall e out, In (e, out) tr -> out = [] \/ exists sid k, out = [OOutcome sid (OFail k 0)] /\
                                                   match e with ESend _ _ _ _ | EBadSend _ => True | _ => False end.
Proof.
  induction evs as [|e r IH]; simpl; intros s s' tr S H.
  - inv H. split; auto. intros ? ? [].
  - destruct (step c s e) as [s1 o1] eqn:E. destruct (run c s1 r) as [s2 t2] eqn:E2. inv H.
    destruct (stopped_step _ _ _ _ _ S E) as [S1 R1]. destruct (IH _ _ _ S1 E2) as [S2 F2]. split; auto.
    intros e0 out [X|X]; [inv X|eauto]. destruct R1 as [->|(k & -> & M)]; [left; auto|right; eauto].
Qed.

(* ------------------------------------------------------------------ the time limit stays armed until stop() *)
Lemma epi_flags : forall c s1 ep s2 o2, apply_epi c s1 ep = (s2, o2) -> stopping s2 = stopping s1 /\ looper s2 = looper s1.
Proof.
  intros c s1 ep s2 o2 A.
  assert (T : forall s s' o, try_send_batch c s = (s', o) -> stopping s' = stopping s /\ looper s' = looper s).
  { intros s s' o H. apply try_send_batch_spec in H as [[_ D]|(_ & -> & _)]; auto.
    apply dispatch_spec in D as (_ & _ & _ & A1 & A2 & _). auto. }
  assert (Ck : forall s s' o, check_send_batch c s = (s', o) -> stopping s' = stopping s /\ looper s' = looper s).
  { unfold check_send_batch; intros s s' o H. destruct (threshold c s); [eauto|inv H; auto]. }
  destruct ep; simpl in A; eauto.
  - inv A; auto.
  - unfold finish, finish0 in A. destruct (check_send_batch c _) as [s4 o4] eqn:E. inv A. apply Ck in E. exact E.
Qed.

Theorem step_flags : forall c s e s' out, Inv s -> (forall cv, e <> EStop cv) -> step c s e = (s', out) ->
  stopping s' = stopping s /\ looper s' = looper s.
Proof.
  intros c s e s' out I NE H. pose proof I as [W L]. pose proof W as [IB PW ID ST].
  destruct (step_nonstop c s e s' out NE H) as (s1 & o1 & ep & o2 & C & A & ->).
  apply epi_flags in A as [A1 A2]. rewrite A1, A2. clear A1 A2.
  destruct (batch_event e) eqn:BE.
  - apply core_batch in C as [(-> & _)|(_ & done & BS & _)]; auto;
      try apply (i_onodup _ _ IB); try apply (i_bnodup _ _ IB).
    destruct (bs_keeps _ _ _ _ _ BS) as [_ _ _ K4 K5 _ _]. auto.
  - destruct e; try discriminate; cbn [core] in C.
    + destruct ((cnt <? 1) || (bytes <? 0)); [|destruct (stopping s) eqn:SS]; inv C; simpl; auto.
    + inv C; auto.
    + destruct (cancel_send s sid) as [s2 o3] eqn:Ec. inv C. apply cancel_send_spec in Ec as (_ & _ & St & Lp & _). auto.
    + inv C; auto.
    + inv C; auto.
    + inv C; auto.
    + inv C; auto.
    + exfalso. eapply NE; reflexivity.
Qed.

Theorem looper_until_stop : forall c has_t api0 cache0 evs s tr,
  run c (init_state has_t api0 cache0) evs = (s, tr) -> stopping s = false -> looper s = has_t.
Proof.
  intros c h a ca evs s tr H.
  assert (G : forall evs s0 s1 tr1, Inv s0 -> (stopping s0 = false -> looper s0 = h) -> run c s0 evs = (s1, tr1) ->
              stopping s1 = false -> looper s1 = h).
  { induction evs0 as [|e r IH]; simpl; intros s0 s1 tr1 I0 L0 R.
    - inv R. auto.
    - destruct (step c s0 e) as [s2 o] eqn:E. destruct (run c s2 r) as [s3 t3] eqn:E3. inv R.
      eapply IH; [eapply inv_step; eauto| |exact E3].
      assert (NSF : (forall cv, e <> EStop cv) -> stopping s2 = false -> looper s2 = h).
      { intros NE. destruct (step_flags _ _ _ _ _ I0 NE E) as [F1 F2]. rewrite F1, F2. exact L0. }
      destruct e; try (apply NSF; intros ? X; discriminate X).
      apply stop_step_spec in E; auto. destruct E as [_ _ (X & _) _ _]. intros Y. congruence. }
  eapply G; eauto; [apply init_inv|reflexivity].
Qed.

(* ------------------------------------------------------------------ stop(): what an outcome can be when the client's
   cancelled Deferred delivers a value of its own (the real client: responses of the brokers that had answered, the
   other payloads failed) *)
Definition vresps (v : value) : list (tp * Z * Z) := match v with VResp rs | VFailed rs _ => rs | _ => [] end.
Definition err_resp (rs : list (tp * Z * Z)) (k : Z) : Prop :=
  exists x err off, In (x, err, off) rs /\ err <> 0 /\ k = K_BROKER + err.
(* outcome o is what result v says about a payload *)
Definition value_outcome (c : cfg) (v : value) (o : outcome) : Prop :=
  match o with
  | OResp t p err off => err = 0 /\ In ((t, p), 0, off) (vresps v)
  | ONone => c_acks c = 0 /\ match v with VEmpty | VFailed _ _ => True | _ => False end
  | OFail k f =>
      f = 0 /\
      match v with
      | VEmpty => k = K_NORESP /\ c_acks c <> 0
      | VOther k' | VKafka k' => k = k'
      | VResp rs => err_resp rs k
      | VFailed rs fs => (exists x, In (x, k) fs) \/ err_resp rs k
      end
  end.

Lemma deliver_val : forall l s o0 s' out sid o, deliver s l o0 = (s', out) -> In (OOutcome sid o) out -> o = o0.
Proof.
  induction l as [|x r IH]; simpl; intros s o0 s' out sid o H X; [inv H; destruct X|].
  destruct (zmem (s_id x) (outstanding s)); [|eauto].
  destruct (deliver _ r o0) as [s1 o1] eqn:E. inv H. destruct X as [X|X]; [inv X; auto|eauto].
Qed.

Lemma process_resps_val : forall rs s pls s' out fl, process_resps s pls rs = (s', out, fl) ->
  (forall sid o, In (OOutcome sid o) out -> exists x off, In (x, 0, off) rs /\ o = OResp (fst x) (snd x) 0 off) /\
  (forall x k b, In (x, k, b) fl -> err_resp rs k).
Proof.
  induction rs as [|[[x err] off] r IH]; simpl; intros s pls s' out fl H.
  - inv H. split; [intros ? ? []|intros ? ? ? []].
  - destruct (err =? 0) eqn:Ez.
    + apply Z.eqb_eq in Ez. subst err.
      destruct (deliver s (sends_of pls x) _) as [s1 o1] eqn:E1. destruct (process_resps s1 pls r) as [[s2 o2] f2] eqn:E2. inv H.
      apply IH in E2 as [A B]. split.
      * intros sid o X. apply in_app_or in X as [X|X].
        -- apply (deliver_val _ _ _ _ _ _ _ E1) in X. exists x, off. simpl; auto.
        -- destruct (A _ _ X) as (y & o' & Y1 & Y2). exists y, o'. simpl; auto.
      * intros y k b X. destruct (B _ _ _ X) as (z & e & o' & Z1 & Z2 & Z3). exists z, e, o'. simpl; auto.
    + apply Z.eqb_neq in Ez. destruct (process_resps s pls r) as [[s2 o2] f2] eqn:E2. inv H. apply IH in E2 as [A B]. split.
      * intros sid o X. destruct (A _ _ X) as (y & o' & Y1 & Y2). exists y, o'. simpl; auto.
      * intros y k b [X|X]; [inv X; exists y, err, off; simpl; auto|].
        destruct (B _ _ _ X) as (z & e & o' & Z1 & Z2 & Z3). exists z, e, o'. simpl; auto.
Qed.

Lemma deliver_failed_val : forall fl s pls s' out sid o, deliver_failed s pls fl = (s', out) -> In (OOutcome sid o) out ->
  exists x k b, In (x, k, b) fl /\ o = OFail k 0.
Proof.
  induction fl as [|[[x k] b] r IH]; simpl; intros s pls s' out sid o H X; [inv H; destruct X|].
  destruct (deliver s (sends_of pls x) _) as [s1 o1] eqn:E1. destruct (deliver_failed s1 pls r) as [s2 o2] eqn:E2. inv H.
  apply in_app_or in X as [X|X].
  - apply (deliver_val _ _ _ _ _ _ _ E1) in X. exists x, k, b. auto.
  - destruct (IH _ _ _ _ _ _ E2 X) as (y & k' & b' & Y1 & Y2). exists y, k', b'. auto.
Qed.

Lemma check_retry_val : forall c s pls fl s1 o1 done sid o, check_retry c s pls fl = (s1, o1, done) ->
  In (OOutcome sid o) o1 -> exists x k b, In (x, k, b) fl /\ o = OFail k 0.
Proof.
  unfold check_retry; intros c s pls fl s1 o1 done sid o H X. destruct ((c_max c <=? attempts s) || stopping s).
  - destruct (deliver_failed s pls fl) as [s2 o2] eqn:E. inv H. eapply deliver_failed_val; eauto.
  - inv H. destruct (reset_topics fl); simpl in X; intuition discriminate.
Qed.

Lemma handle_result_val : forall c s pls cur v s1 o1 done sid o, handle_result c s pls cur v = (s1, o1, done) ->
  In (OOutcome sid o) o1 -> value_outcome c v o.
Proof.
  unfold handle_result; intros c s pls cur v s1 o1 done sid o H X. destruct v.
  - destruct (deliver s (all_sends pls) _) as [s2 o2] eqn:E. inv H. apply (deliver_val _ _ _ _ _ _ _ E) in X. subst o.
    destruct (c_acks c =? 0) eqn:A; simpl; [apply Z.eqb_eq in A; auto|apply Z.eqb_neq in A; auto].
  - destruct (process_resps s pls rs) as [[s2 o2] f2] eqn:E. apply process_resps_val in E as [A B].
    assert (G : In (OOutcome sid o) o2 -> value_outcome c (VResp rs) o).
    { intros Y. destruct (A _ _ Y) as (x & off & Y1 & ->). destruct x; simpl; auto. }
    destruct f2 as [|p0 f2]; [inv H; auto|].
    destruct (check_retry c s2 pls (p0 :: f2)) as [[s3 o3] d3] eqn:E3. inv H.
    apply in_app_or in X as [X|X]; auto.
    destruct (check_retry_val _ _ _ _ _ _ _ _ _ E3 X) as (x & k & b & Y1 & ->). simpl. split; auto. eapply B; eauto.
  - destruct (if c_acks c =? 0 then _ else _) as [s0 o0] eqn:E0.
    destruct (process_resps s0 pls rs) as [[s2 o2] f2] eqn:E. apply process_resps_val in E as [A B].
    destruct (check_retry c s2 pls _) as [[s3 o3] d3] eqn:E3. inv H.
    apply in_app_or in X as [X|X].
    + destruct (c_acks c =? 0) eqn:Ac; [|inv E0; destruct X].
      apply (deliver_val _ _ _ _ _ _ _ E0) in X. subst o. simpl. split; auto. apply Z.eqb_eq; auto.
    + apply in_app_or in X as [X|X].
      * destruct (A _ _ X) as (x & off & Y1 & ->). destruct x; simpl; auto.
      * destruct (check_retry_val _ _ _ _ _ _ _ _ _ E3 X) as (x & k & b & Y1 & ->). simpl. split; auto.
        apply in_app_or in Y1 as [Y1|Y1]; [left|right; eapply B; eauto].
        apply in_map_iff in Y1 as ([y k'] & Y2 & Y3). inv Y2. exists x; auto.
  - destruct (check_retry_val _ _ _ _ _ _ _ _ _ H X) as (x & k' & b & Y1 & ->). simpl. split; auto.
    apply in_map_iff in Y1 as (y & Y2 & _). inv Y2. reflexivity.
  - destruct (deliver s (all_sends pls) _) as [s2 o2] eqn:E. inv H. apply (deliver_val _ _ _ _ _ _ _ E) in X. subst o. simpl. auto.
Qed.

Theorem stop_outcomes : forall c s cv s' out sid o, Inv s -> step c s (EStop cv) = (s', out) -> In (OOutcome sid o) out ->
  o = OFail K_CANCEL 0 \/ o = OFail K_TIDCANCEL 0 \/
  exists pls cur v, ph s = Sending pls cur /\ cv = Some v /\ result_ok c cur v = true /\ value_outcome c v o.
Proof.
  intros c s cv s' out sid o I H X. pose proof I as [W L]. pose proof W as [IB PW ID ST].
  unfold step in H. set (s0 := set_flags s true (looper s)) in *.
  destruct (cancel_batch c s0 cv) as [[s1 o1] done] eqn:E.
  assert (Q1 : In (OOutcome sid o) o1 -> o = OFail K_TIDCANCEL 0 \/
               exists pls cur v, ph s = Sending pls cur /\ cv = Some v /\ result_ok c cur v = true /\ value_outcome c v o).
  { intros Y. unfold cancel_batch in E. destruct (ph s0) eqn:P.
    - inv E. destruct Y.
    - exfalso. destruct (map_lookups _ s0 reqs ls) as [[s2 o2] ls2] eqn:E1.
      pose proof (cancel_lookups_out _ _ _ _ _ _ _ (eq_refl : stopping s0 = true) E1) as [_ St2].
      apply map_lookups_xl in E1 as (_ & A2 & _).
      2:{ intros st x l st' o' l' Hf. destruct l; [discriminate| |].
          - inv Hf. eapply lookup_loaded_xl; eauto.
          - inv Hf. xl_done. }
      unfold lookups_progress in E. destruct (all_done ls2).
      + rewrite send_requests_stopping in E; auto. inv E. rewrite app_nil_r in Y.
        unfold lk_outs in A2. rewrite Forall_forall in A2. apply A2 in Y. discriminate.
      + inv E. rewrite app_nil_r in Y. unfold lk_outs in A2. rewrite Forall_forall in A2. apply A2 in Y. discriminate.
    - left. unfold version_failed in E. destruct (deliver s0 reqs _) eqn:D; inv E. eapply deliver_val; eauto.
    - destruct cv as [v|].
      + destruct (result_ok c cur v) eqn:OK.
        * right. exists pls, cur, v. repeat split; auto. eapply handle_result_val; eauto.
        * left. apply (handle_result_val _ _ _ _ _ _ _ _ _ _ E) in Y. destruct o; simpl in Y.
          -- destruct Y as [_ []].
          -- destruct Y as [_ []].
          -- destruct Y as [-> ->]. reflexivity.
      + left. apply (handle_result_val _ _ _ _ _ _ _ _ _ _ E) in Y. destruct o; simpl in Y.
        -- destruct Y as [_ []].
        -- destruct Y as [_ []].
        -- destruct Y as [-> ->]. reflexivity.
    - left. destruct (deliver s0 (all_sends pls) _) eqn:D; inv E. destruct Y as [Y|Y]; [discriminate|]. eapply deliver_val; eauto. }
  assert (K : stopping s1 = true).
  { destruct (phase_eq_idle (ph s)) as [Pi|Pi].
    - unfold cancel_batch in E. replace (ph s0) with Idle in E by (symmetry; exact Pi). inv E. reflexivity.
    - apply cancel_batch_ok in E. destruct E as [[_ _ _ K _ _ _] _ _]. rewrite K. reflexivity. }
  assert (Pd : done = false -> ph s1 = Idle).
  { intros ->. destruct (phase_eq_idle (ph s)) as [Pi|Pi].
    - unfold cancel_batch in E. replace (ph s0) with Idle in E by (symmetry; exact Pi). inv E. exact Pi.
    - pose proof (cancel_batch_done c s0 cv _ _ _ (eq_refl : stopping s0 = true) PW Pi E). discriminate. }
  assert (M : exists s2 o2, apply_epi c s1 (if done then Fin else NoEpi) = (s2, o2) /\ (~ In (OOutcome sid o) o2) /\ ph s2 = Idle).
  { destruct done; simpl.
    - unfold finish, finish0. destruct (stopping_no_dispatch c (set_retry (set_ph s1 Idle) 0 0 0) K) as [_ C]. rewrite C.
      eexists; eexists; split; [reflexivity|]. split; [intros [Y|[]]; discriminate|reflexivity].
    - eexists; eexists; split; [reflexivity|]. split; [intros []|auto]. }
  destruct M as (s2 & o2 & A & Q2 & P2). unfold fin_if in H. rewrite A in H.
  destruct (cancel_all _ _) as [s4 o4] eqn:E4. inv H.
  apply cancel_all_idle_outcomes in E4; [|exact P2].
  apply in_app_or in X as [X|X]; [destruct (Q1 X) as [Y|Y]; auto|].
  apply in_app_or in X as [X|X]; [exfalso; auto|].
  rewrite Forall_forall in E4. apply E4 in X. simpl in X. destruct X as [X|X]; auto.
Qed.
