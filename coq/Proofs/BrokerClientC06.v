(* C06 at the broker-client level: exactly-once completion, own response, no crosstalk. *)
From AV Require Import Base.Util Proofs.UtilFacts Model.Framing Model.BrokerClient
  Proofs.FramingFacts Proofs.BrokerClientTbl Proofs.BrokerClientInv.
From Coq Require Import Lia Sorting.Sorted.

(* a live (not cancelled) entry for the Deferred of handle h is in the table *)
Definition in_table (s : state) (h : nat) : Prop :=
  exists r, In r (reqs s) /\ r_h r = h /\ r_cancelled r = false.

Definition anomaly (o : output) : Prop := (exists k h, o = OErr k h) \/ o = ORaised 5.

Lemma run_init_scan evs s outs : run init evs = (s, outs) ->
  CInv s /\ scan (t_dlog (s_t s)) [] outs = Some (t_fired (s_t s)).
Proof. intro H. destruct (run_inv _ _ _ _ CInv_init H) as (C & _ & S). split; [exact C | exact S]. Qed.

(* C06_exactly_once *)
Theorem exactly_once evs s outs : run init evs = (s, outs) ->
  NoDup (def_handles outs)                                             (* no Deferred fires twice ... *)
  /\ (forall o, In o outs -> ~ anomaly o)                              (* ... nor is fired twice (AlreadyCalledError), no KeyError *)
  /\ (forall h, In h (def_handles outs) <->                            (* fired = created and no longer (live) in the table *)
                (h < length (t_dlog (s_t s)))%nat /\ ~ in_table s h).
Proof.
  intro H. destruct (run_init_scan _ _ _ H) as (C & S).
  pose proof (scan_fired _ _ _ _ S) as F. rewrite app_nil_r in F.
  pose proof (ci_t s C) as T.
  assert (Hin : forall h, In h (def_handles outs) <-> In h (t_fired (s_t s))).
  { intro h. rewrite F. rewrite <- in_rev. tauto. }
  split; [|split].
  - pose proof (ti_fired_nodup _ T) as ND. rewrite F in ND. apply NoDup_rev in ND. rewrite rev_involutive in ND. exact ND.
  - intros o Ho [(k & h & ->) | ->].
    + destruct (scan_no_anomaly _ _ _ _ S _ Ho) as [A _]. eapply A. reflexivity.
    + destruct (scan_no_anomaly _ _ _ _ S _ Ho) as [_ A]. apply A. reflexivity.
  - intro h. rewrite Hin. split.
    + intro Hf. split; [apply (ti_fired_lt _ T); exact Hf|].
      intros (r & Hr & Eh & Ec). destruct (TInv_entry _ r T Hr) as (_ & _ & E3 & _). apply (E3 Ec). rewrite Eh. exact Hf.
    + intros [Hl Hn]. destruct (in_dec Nat.eq_dec h (t_fired (s_t s))) as [Y|N]; [exact Y|]. exfalso. apply Hn.
      destruct (ti_complete _ T h Hl N) as (r & Hr & Eh). exists r. repeat split; auto.
      destruct (TInv_entry _ r T Hr) as (_ & _ & _ & E4). destruct (r_cancelled r); auto. exfalso. apply N. rewrite <- Eh. auto.
Qed.

(* nothing happens to a Deferred after it fired: neither a second firing nor a write of its request *)
Theorem after_fired evs s outs a h oc b : run init evs = (s, outs) -> outs = a ++ ODef h oc :: b ->
  forall o, In o b -> (forall oc', o <> ODef h oc') /\ (forall rid, o <> OWrite h rid).
Proof.
  intros H E. destruct (run_init_scan _ _ _ H) as (C & S). rewrite E in S. rewrite scan_app in S.
  destruct (scan (t_dlog (s_t s)) [] a) as [f1|] eqn:S1; [|discriminate].
  cbn [scan] in S. destruct (memb h f1); [discriminate|]. destruct (outcome_ok _ h oc); [|discriminate].
  intros o Ho. eapply scan_fired_silent; eauto. left. reflexivity.
Qed.

(* C06_own_response *)
Theorem own_response evs s outs h fr : run init evs = (s, outs) -> In (ODef h (Succ fr)) outs ->
  exists rid, corr_id fr = Some rid /\ nth_error (t_dlog (s_t s)) h = Some rid.
Proof. intros H Hin. destruct (run_init_scan _ _ _ H) as (C & S). eapply scan_success; eauto. Qed.

(* t_dlog is the log of the correlation ids passed to the makeRequest calls that returned a Deferred *)
Lemma fire_down_t s : s_t (fst (fire_down s)) = s_t s.
Proof. unfold fire_down. destruct (s_down s); reflexivity. Qed.

Lemma data_in_dlog s chunk : t_dlog (s_t (fst (data_in s chunk))) = t_dlog (s_t s).
Proof.
  unfold data_in. destruct (data_received ok4 (s_rxbuf s) chunk) as [fs e].
  pose proof (deliver_dlog fs (s_t s)) as A. destruct (deliver (s_t s) fs) as [t1 o1]. cbn [fst] in A.
  destruct e; cbn; exact A.
Qed.

Theorem dlog_is_make_log s e : 
  match e with
  | EMake rid _ => (step s e = (s, [ORaised 1])) \/ t_dlog (s_t (fst (step s e))) = t_dlog (s_t s) ++ [rid]
  | _ => t_dlog (s_t (fst (step s e))) = t_dlog (s_t s)
  end.
Proof.
  destruct e; cbn [step].
  - unfold make_request. destruct (lookup rid (t_reqs (s_t s))); [left; reflexivity | right].
    destruct (s_down s).
    + destruct (s_proto s).
      * unfold lift. cbn [fst with_t s_t]. rewrite send_request_dlog. reflexivity.
      * destruct (s_connector s); reflexivity.
    + unfold lift. cbn [fst with_t s_t]. rewrite fire_dlog. reflexivity.
    + unfold lift. cbn [fst with_t s_t]. rewrite fire_dlog. reflexivity.
  - unfold lift. cbn [fst with_t s_t]. apply cancel_dlog.
  - destruct (s_connector s); try reflexivity.
    cbn [with_rxbuf with_proto with_connector with_failures s_down s_t]. destruct (s_down s); try reflexivity.
    unfold lift. cbn [fst with_t s_t]. apply send_each_dlog.
  - destruct (s_connector s); try reflexivity. destruct (s_down s); try reflexivity.
    + rewrite fire_down_t. reflexivity.
    + rewrite fire_down_t. reflexivity.
  - destruct (s_proto s); [|reflexivity].
    cbn [with_t with_rxbuf with_proto s_down]. destruct (s_down s).
    + destruct (map _ _); reflexivity.
    + rewrite fire_down_t. reflexivity.
    + rewrite fire_down_t. reflexivity.
  - destruct (s_proto s); [apply data_in_dlog | reflexivity].
  - destruct (s_proto s); [apply data_in_dlog | reflexivity].
  - destruct (s_connector s); reflexivity.
  - destruct (s_down s); try reflexivity.
    destruct (s_proto s) eqn:P; [|destruct (s_connector s) eqn:K]; cbn; rewrite ?P, ?K; cbn;
      match goal with |- context [fail_all ?a ?b] =>
        pose proof (fail_all_dlog b a) as A; destruct (fail_all a b) as [t2 o2] end; cbn in *; exact A.
  - destruct (s_proto s); reflexivity.
  - destruct same; reflexivity.
Qed.

(* ------------------------------------------------------------------ no crosstalk *)
(* one response frame: the only entry it can touch is the one with its id *)
Theorem handle_response_frame t f cid : TInv t -> corr_id f = Some cid ->
  match lookup cid (t_reqs t) with
  | None =>                                     (* unknown id *)
      handle_response t f = (t, [])
  | Some r =>
      if r_cancelled r then                     (* late reply to a cancelled request: the tombstone goes, nothing fires *)
        handle_response t f = (mkT (del cid (t_reqs t)) (t_dlog t) (t_fired t), [])
      else                                      (* its own request completes with exactly this frame *)
        handle_response t f = (mkT (del cid (t_reqs t)) (t_dlog t) (r_h r :: t_fired t), [ODef (r_h r) (Succ f)])
  end
  /\ forall x, In x (t_reqs t) -> r_id x <> cid -> In x (t_reqs (fst (handle_response t f))).
Proof.
  intros T Ec. unfold handle_response. rewrite Ec.
  destruct (lookup cid (t_reqs t)) as [r|] eqn:L.
  - apply lookup_some in L. destruct L as [Hr Ei]. destruct (TInv_entry t r T Hr) as (_ & _ & E3 & _).
    destruct (r_cancelled r) eqn:C.
    + split; [reflexivity|]. intros x Hx Hne. cbn. apply in_del. auto.
    + rewrite fire_unfired by (cbn; auto). split; [reflexivity|]. intros x Hx Hne. cbn. apply in_del. auto.
  - split; [reflexivity|]. auto.
Qed.

(* frames whose ids differ from an entry's id leave that entry alone and do not fire its Deferred *)
Lemma deliver_untouched : forall fs t r, TInv t -> In r (t_reqs t) ->
  (forall f, In f fs -> corr_id f <> Some (r_id r)) ->
  In r (t_reqs (fst (deliver t fs))) /\ forall oc, ~ In (ODef (r_h r) oc) (snd (deliver t fs)).
Proof.
  induction fs as [|f fs IH]; intros t r T Hr Hf; cbn [deliver].
  - split; auto.
  - pose proof (handle_response_ok t f _ _ T (surjective_pairing _)) as (T1 & _ & _).
    assert (A : In r (t_reqs (fst (handle_response t f))) /\ forall oc, ~ In (ODef (r_h r) oc) (snd (handle_response t f))).
    { destruct (corr_id f) as [cid|] eqn:Ec.
      - destruct (handle_response_frame t f cid T Ec) as [X Y].
        assert (r_id r <> cid). { intro E. apply (Hf f (or_introl eq_refl)). congruence. }
        split; [apply Y; auto|]. intros oc Hin.
        destruct (lookup cid (t_reqs t)) as [r0|] eqn:L.
        + apply lookup_some in L. destruct L as [Hr0 Ei]. destruct (r_cancelled r0); rewrite X in Hin; cbn in Hin; auto.
          destruct Hin as [E|[]]. injection E as E _. apply H. rewrite <- Ei. f_equal.
          apply (TInv_h_inj t r r0 T Hr Hr0). congruence.
        + rewrite X in Hin. exact Hin.
      - unfold handle_response. rewrite Ec. cbn. split; auto. intros oc [E|[]]. discriminate. }
    destruct (handle_response t f) as [t1 o1]. cbn [fst snd] in *. destruct A as [A1 A2].
    destruct (IH t1 r T1 A1) as [B1 B2]. { intros g Hg. apply Hf. right. exact Hg. }
    destruct (deliver t1 fs) as [t2 o2]. cbn [fst snd] in *. split; [exact B1|].
    intros oc Hin. apply in_app_iff in Hin. destruct Hin; [eapply A2 | eapply B2]; eauto.
Qed.

(* a whole frame arriving on an empty receive buffer is one handleResponse call *)
Lemma step_frame s body : s_proto s = true -> s_rxbuf s = [] -> frame_ok ok4 body ->
  step s (EFrame body) =
  (with_rxbuf (with_t s (fst (handle_response (s_t s) body))) [], snd (handle_response (s_t s) body)).
Proof.
  intros P B F. cbn [step]. rewrite P. unfold data_in. rewrite data_received_parse, B. cbn [app].
  pose proof (parse_encode_frame ok4 body [] F) as X. rewrite app_nil_r in X. rewrite X.
  change (parse ok4 []) with (@nil (list Z), RxMore []). cbn [deliver].
  destruct (handle_response (s_t s) body) as [t1 o1]. cbn [fst snd rx_newbuf]. rewrite app_nil_r. reflexivity.
Qed.

(* C06_no_crosstalk *)
Theorem no_crosstalk s body cid : CInv s -> s_proto s = true -> s_rxbuf s = [] -> frame_ok ok4 body ->
  corr_id body = Some cid ->
  (forall r, In r (reqs s) -> r_id r = cid -> r_cancelled r = true) ->       (* unknown, or cancelled *)
  exists s', step s (EFrame body) = (s', [])                                  (* nothing fires, nothing is written *)
    /\ t_fired (s_t s') = t_fired (s_t s) /\ t_dlog (s_t s') = t_dlog (s_t s)
    /\ reqs s' = del cid (reqs s)                                             (* every other entry is untouched *)
    /\ (forall r, In r (reqs s) -> r_id r <> cid -> In r (reqs s'))
    /\ s_proto s' = s_proto s /\ s_connector s' = s_connector s /\ s_down s' = s_down s
    /\ s_failures s' = s_failures s /\ s_addr s' = s_addr s.
Proof.
  intros C P B F Ec Hc. rewrite (step_frame s body P B F).
  destruct (handle_response_frame (s_t s) body cid (ci_t s C) Ec) as [X Y].
  unfold reqs in *. destruct (lookup cid (t_reqs (s_t s))) as [r|] eqn:L.
  - pose proof (lookup_some _ _ _ L) as [Hr Ei]. rewrite (Hc r Hr Ei) in X. rewrite X. cbn [fst snd].
    eexists. split; [reflexivity|]. cbn. repeat split; auto. intros x Hx Hne. apply in_del. auto.
  - rewrite X. cbn [fst snd]. eexists. split; [reflexivity|]. cbn. repeat split; auto.
    symmetry. unfold del. apply filter_all. intros x Hx. apply negb_true_iff. apply Z.eqb_neq.
    exact (lookup_none _ _ L x Hx).
Qed.

(* the complementary case: a frame with the id of a live request completes exactly that request *)
Theorem own_frame s body cid r : CInv s -> s_proto s = true -> s_rxbuf s = [] -> frame_ok ok4 body ->
  corr_id body = Some cid -> In r (reqs s) -> r_id r = cid -> r_cancelled r = false ->
  exists s', step s (EFrame body) = (s', [ODef (r_h r) (Succ body)])
    /\ t_fired (s_t s') = r_h r :: t_fired (s_t s) /\ reqs s' = del cid (reqs s)
    /\ (forall x, In x (reqs s) -> r_id x <> cid -> In x (reqs s')).
Proof.
  intros C P B F Ec Hr Ei Hc. rewrite (step_frame s body P B F).
  destruct (handle_response_frame (s_t s) body cid (ci_t s C) Ec) as [X Y].
  unfold reqs in *. rewrite (lookup_nodup cid _ r (ti_ids _ (ci_t s C)) Hr Ei) in X. rewrite Hc in X. rewrite X.
  cbn [fst snd]. eexists. split; [reflexivity|]. cbn. repeat split; auto. intros x Hx Hne. apply in_del. auto.
Qed.

(* data of any shape: entries whose id is carried by none of the delivered frames are untouched *)
Theorem data_untouched s chunk r : CInv s -> s_proto s = true -> In r (reqs s) ->
  (forall f, In f (fst (data_received ok4 (s_rxbuf s) chunk)) -> corr_id f <> Some (r_id r)) ->
  In r (reqs (fst (step s (EData chunk)))) /\ forall oc, ~ In (ODef (r_h r) oc) (snd (step s (EData chunk))).
Proof.
  intros C P Hr Hf. cbn [step]. rewrite P. unfold data_in.
  destruct (data_received ok4 (s_rxbuf s) chunk) as [fs e]. cbn [fst] in Hf.
  destruct (deliver_untouched fs (s_t s) r (ci_t s C) Hr Hf) as [A B].
  destruct (deliver (s_t s) fs) as [t1 o1]. cbn [fst snd] in *.
  destruct e; cbn [fst snd]; unfold reqs; cbn [with_rxbuf with_t s_t]; split; auto;
    intros oc Hin; apply in_app_iff in Hin; destruct Hin as [Hin|[Hin|[]]]; try discriminate; eapply B; eauto.
Qed.
