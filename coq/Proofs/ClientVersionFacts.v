(* C04, part 5: API version negotiation (Model.ClientVersion).
   What a broker "supports" is read off the advertised table: the FIRST entry for the key, as Kafka brokers list each
   key once.  [table_ok] is the quantifier of the property: the broker implements version discovery, i.e. it
   advertises Produce and Fetch with minimum 0 (or lower) and maximum 2 or more. *)
From AV Require Import Base.Util Model.Requests Model.ClientVersion.
From Coq Require Import Lia.

Definition entry_for (t : table) (key : Z) : option api_entry := find (fun e => e_key e =? key) t.

Definition broker_supports (t : table) (key v : Z) : bool :=
  match entry_for t key with
  | Some e => (e_min e <=? v) && (v <=? e_max e)
  | None => false
  end.

Definition table_ok (t : table) : bool :=
  match entry_for t PRODUCE_KEY, entry_for t FETCH_KEY with
  | Some p, Some f => (e_min p <=? 0) && (2 <=? e_max p) && (e_min f <=? 0) && (2 <=? e_max f)
  | _, _ => false
  end.

(* the request versions afkak implements for Produce and for Fetch: the layouts of Model.Requests / Responses *)
Definition implemented (v : Z) : bool := (v =? 0) || (v =? 2).

Definition fallback_choice : choice := mkChoice 0 0 (Some 0) 0 0 (Some 0) 0.

Lemma table_lookup_entry t key :
  table_lookup t key = match entry_for t key with Some e => e_max e | None => 0 end.
Proof.
  unfold entry_for. induction t as [|e r IH]; cbn [table_lookup find]; [reflexivity|].
  destruct (e_key e =? key); [reflexivity|exact IH].
Qed.

(* ---- which states a lookup can end in ---- *)
Lemma fetch_from_resolved outs : forall f st,
  fetch_api_versions_from f outs = Resolved st ->
  st = VFallback \/ exists t, In (Answer 0 t) outs /\ st = VTable t.
Proof.
  induction outs as [|o r IH]; intros f st H; cbn [fetch_api_versions_from] in H.
  - destruct (Nat.leb 3 f); [|discriminate]. injection H as <-. left. reflexivity.
  - destruct (Nat.leb 3 f). { injection H as <-. left. reflexivity. }
    destruct o as [code t| |].
    + injection H as <-. unfold handle_api_version_update. destruct (code =? 0) eqn:C.
      * apply Z.eqb_eq in C. subst code. right. exists t. split; [left; reflexivity|reflexivity].
      * left. reflexivity.
    + destruct (IH _ _ H) as [->|(t & I & ->)]; [left; reflexivity|right; exists t; split; [right; exact I|reflexivity]].
    + discriminate.
Qed.

Lemma resolve_resolved discovery outs st :
  resolve (init_versions discovery) outs = Resolved st ->
  st = VFallback \/ exists t, discovery = true /\ In (Answer 0 t) outs /\ st = VTable t.
Proof.
  destruct discovery; cbn [init_versions resolve]; intros H.
  - destruct (fetch_from_resolved _ _ _ H) as [->|(t & I & ->)]; [left; reflexivity|right; exists t; auto].
  - injection H as <-. left. reflexivity.
Qed.

Lemma choose_fallback : choose VFallback = Some fallback_choice.
Proof. reflexivity. Qed.

(* with a table of a broker that implements discovery, both requests go out as v2, are decoded with the v2
   layouts, and the producer builds format-1 messages *)
Lemma choose_table t : table_ok t = true ->
  exists pv fv, 2 <= pv /\ 2 <= fv /\
    broker_supports t PRODUCE_KEY 2 = true /\ broker_supports t FETCH_KEY 2 = true /\
    choose (VTable t) = Some (mkChoice pv 2 (Some 2) fv 2 (Some 2) 1).
Proof.
  unfold table_ok, broker_supports, choose, version_for, producer_magic. rewrite !table_lookup_entry.
  destruct (entry_for t PRODUCE_KEY) as [p|]; [|discriminate].
  destruct (entry_for t FETCH_KEY) as [f|]; [|discriminate]. intros H.
  apply andb_prop in H. destruct H as [H H4]. apply andb_prop in H. destruct H as [H H3].
  apply andb_prop in H. destruct H as [H1 H2]. apply Z.leb_le in H1, H2, H3, H4.
  exists (e_max p), (e_max f).
  split; [lia|]. split; [lia|].
  split; [apply andb_true_intro; split; apply Z.leb_le; lia|].
  split; [apply andb_true_intro; split; apply Z.leb_le; lia|].
  unfold produce_header_version, fetch_header_version, produce_decoder_layout, fetch_decoder_layout.
  replace (2 <=? e_max p) with true by (symmetry; apply Z.leb_le; lia).
  replace (2 <=? e_max f) with true by (symmetry; apply Z.leb_le; lia).
  replace (e_max p =? 0) with false by (symmetry; apply Z.eqb_neq; lia).
  replace (e_max f =? 0) with false by (symmetry; apply Z.eqb_neq; lia).
  replace (1 <=? e_max p) with true by (symmetry; apply Z.leb_le; lia).
  reflexivity.
Qed.

(* ------------------------------------------------------------------ the negotiation theorem *)
Theorem negotiation_sound discovery outs c :
  (forall t, In (Answer 0 t) outs -> table_ok t = true) ->
  negotiate discovery outs = Some c ->
  implemented (ch_produce_header c) = true /\ implemented (ch_fetch_header c) = true /\
  ch_produce_decoder c = Some (ch_produce_header c) /\ ch_fetch_decoder c = Some (ch_fetch_header c) /\
  ch_magic c = (if (ch_produce_header c =? 2) then 1 else 0) /\
  (c = fallback_choice \/
   exists t, discovery = true /\ In (Answer 0 t) outs /\
             broker_supports t PRODUCE_KEY (ch_produce_header c) = true /\
             broker_supports t FETCH_KEY (ch_fetch_header c) = true).
Proof.
  intros OK. unfold negotiate.
  destruct (resolve (init_versions discovery) outs) as [| |st] eqn:R; try discriminate.
  destruct (resolve_resolved _ _ _ R) as [->|(t & D & I & ->)].
  - rewrite choose_fallback. intros H; injection H as <-. cbn. repeat split; auto.
  - destruct (choose_table t (OK t I)) as (pv & fv & _ & _ & Sp & Sf & C). rewrite C.
    intros H; injection H as <-. cbn. repeat split; auto. right. exists t. auto.
Qed.

(* ------------------------------------------------------------------ discovery failure selects 0 *)
Definition no_good_answer (outs : list outcome) : bool :=
  forallb (fun o => match o with Answer code _ => negb (code =? 0) | _ => true end) outs.

Theorem negotiation_failure_selects_0 discovery outs c :
  no_good_answer outs = true -> negotiate discovery outs = Some c -> c = fallback_choice.
Proof.
  intros NG. unfold negotiate.
  destruct (resolve (init_versions discovery) outs) as [| |st] eqn:R; try discriminate.
  destruct (resolve_resolved _ _ _ R) as [->|(t & D & I & ->)].
  - rewrite choose_fallback. now intros H; injection H as <-.
  - unfold no_good_answer in NG. rewrite forallb_forall in NG. specialize (NG _ I). discriminate NG.
Qed.

(* three unanswered attempts end the lookup with the fallback, whatever might have come later *)
Theorem three_unavailable_selects_0 rest :
  negotiate true (Unavailable :: Unavailable :: Unavailable :: rest) = Some fallback_choice.
Proof. destruct rest; reflexivity. Qed.

(* an answer carrying an error code ends the lookup with the fallback at once *)
Theorem error_answer_selects_0 code t rest :
  code <> 0 -> negotiate true (Answer code t :: rest) = Some fallback_choice.
Proof.
  intros H. unfold negotiate. cbn. unfold handle_api_version_update.
  replace (code =? 0) with false by (symmetry; now apply Z.eqb_neq). reflexivity.
Qed.

Theorem discovery_disabled_selects_0 outs : negotiate false outs = Some fallback_choice.
Proof. reflexivity. Qed.

(* the lookup always ends: after at most three outcomes none of which is pending *)
Theorem lookup_terminates outs : (3 <= length outs)%nat -> fetch_api_versions outs <> Pending.
Proof.
  unfold fetch_api_versions. intros L.
  destruct outs as [|o1 [|o2 [|o3 r]]]; cbn [length] in L; try lia. clear L.
  destruct o1, o2, o3; cbn; try discriminate; destruct r; discriminate.
Qed.

(* ------------------------------------------------------------------ part 2: overlapping lookups
   Whatever the interleaving of calls and replies, the cell is None, 0, or a table some broker really sent
   with error code 0: so [choose] on the cell at any instant gives one of the two consistent combinations. *)
Definition answered_tables (evs : list event) : list table :=
  flat_map (fun e => match e with Reply _ (Answer 0 t) => [t] | _ => [] end) evs.

Definition cell_inv (tabs : list table) (st : vstate) : Prop :=
  match st with VUnknown | VFallback => True | VTable t => In t tabs end.

Lemma handle_inv code t tabs : (code = 0 -> In t tabs) -> cell_inv tabs (handle_api_version_update code t).
Proof.
  intros H. unfold handle_api_version_update. destruct (code =? 0) eqn:C; cbn; auto.
  apply Z.eqb_eq in C. auto.
Qed.

Lemma cell_inv_mono tabs tabs' st : incl tabs tabs' -> cell_inv tabs st -> cell_inv tabs' st.
Proof. intros I. destruct st; cbn; auto. Qed.

Lemma step_inv s e tabs :
  cell_inv tabs (cell s) -> cell_inv (tabs ++ answered_tables [e]) (cell (step s e)).
Proof.
  intros H. assert (Mono : cell_inv (tabs ++ answered_tables [e]) (cell s)).
  { eapply cell_inv_mono; [|exact H]. apply incl_appl, incl_refl. }
  destruct e as [id|id o|]; cbn [step]; [| |exact Mono].
  - destruct (is_unknown (cell s)); [|exact Mono]. destruct (find_call id (waiting s)); exact Mono.
  - destruct (find_call id (waiting s)) as [f|]; [|exact Mono].
    destruct o as [code t| |]; cbn [cell].
    + destruct (is_unknown (cell s)); [|exact Mono].
      apply handle_inv. intros ->. apply in_or_app. right. cbn. left. reflexivity.
    + destruct (is_unknown (cell s) && Nat.ltb (S f) 3); cbn [cell]; [exact Mono|].
      destruct (is_unknown (cell s)); [apply handle_inv; discriminate|exact Mono].
    + exact Mono.
Qed.

Lemma answered_tables_app a b : answered_tables (a ++ b) = answered_tables a ++ answered_tables b.
Proof. unfold answered_tables. apply flat_map_app. Qed.

Theorem cell_always_advertised discovery evs :
  cell_inv (answered_tables evs) (cell (run_events discovery evs)).
Proof.
  unfold run_events. induction evs as [|e evs IH] using rev_ind.
  - destruct discovery; exact I.
  - rewrite fold_left_app, answered_tables_app. cbn [fold_left]. apply step_inv. exact IH.
Qed.

(* at any instant the combination read off the cell is consistent: v2 / v2 layouts / format 1 under a table,
   v0 / v0 layouts / format 0 under the fallback *)
Theorem choice_consistent_always discovery evs c :
  (forall t, In t (answered_tables evs) -> table_ok t = true) ->
  choose (cell (run_events discovery evs)) = Some c ->
  implemented (ch_produce_header c) = true /\ implemented (ch_fetch_header c) = true /\
  ch_produce_decoder c = Some (ch_produce_header c) /\ ch_fetch_decoder c = Some (ch_fetch_header c) /\
  ch_magic c = (if (ch_produce_header c =? 2) then 1 else 0).
Proof.
  intros OK. pose proof (cell_always_advertised discovery evs) as Inv.
  destruct (cell (run_events discovery evs)) as [| |t]; cbn [cell_inv] in Inv.
  - discriminate.
  - rewrite choose_fallback. intros H; injection H as <-. cbn. auto.
  - destruct (choose_table t (OK t Inv)) as (pv & fv & _ & _ & _ & _ & C). rewrite C.
    intros H; injection H as <-. cbn. auto.
Qed.

(* one lookup at a time: a resolved cell never changes again (so the format the Producer chose stays the format
   of the version the client writes, also for retries of the same payloads) *)
Lemma single_flow_step_stable s e :
  is_unknown (cell s) = false -> waiting s = [] -> cell (step s e) = cell s /\ waiting (step s e) = [].
Proof.
  intros U W. destruct e as [id|id o|]; cbn [step]; rewrite ?U, ?W; cbn; auto.
Qed.

Lemma waiting_known_single s evs :
  single_flow_from s evs = true -> is_unknown (cell s) = false -> waiting s = [] ->
  cell (fold_left step evs s) = cell s.
Proof.
  revert s. induction evs as [|e r IH]; intros s SF U W; cbn [fold_left]; [reflexivity|].
  destruct (single_flow_step_stable s e U W) as [C W'].
  cbn [single_flow_from] in SF. rewrite W in SF.
  assert (SF' : single_flow_from (step s e) r = true) by (destruct e; exact SF).
  rewrite IH; auto. now rewrite C.
Qed.

(* ---- when lookups do not overlap ([single_flow]) a resolved cell is final ---- *)
Definition flow_inv (s : cstate) : Prop :=
  (length (waiting s) <= 1)%nat /\ (is_unknown (cell s) = false -> waiting s = []).

Lemma flow_inv_step s e :
  flow_inv s -> match e with Call _ => waiting s = [] | _ => True end -> flow_inv (step s e).
Proof.
  intros [L K] G. destruct e as [id|id o|]; cbn [step]; [| |exact (conj L K)].
  - rewrite G in *. destruct (is_unknown (cell s)) eqn:U.
    + cbn [find_call app]. split; cbn; [lia|]. rewrite U. discriminate.
    + split; [rewrite G; cbn; lia|intros _; exact G].
  - destruct (waiting s) as [|[i f] [|x r]] eqn:W; cbn [length] in L; try lia.
    + cbn [find_call]. split; [rewrite W; cbn; lia|intros _; exact W].
    + assert (U : is_unknown (cell s) = true).
      { destruct (is_unknown (cell s)) eqn:U; [reflexivity|]. specialize (K eq_refl). discriminate K. }
      cbn [find_call]. destruct (Nat.eqb i id) eqn:E.
      * assert (RM : remove_call id [(i, f)] = []).
        { unfold remove_call. cbn [filter fst]. rewrite E. reflexivity. }
        destruct o as [code t| |]; cbn [cell waiting]; rewrite ?RM.
        -- split; [cbn; lia|auto].
        -- rewrite U. cbn [andb]. destruct (Nat.ltb (S f) 3); cbn [cell waiting]; rewrite ?RM.
           ++ split; [cbn; lia|]. cbn [cell]. rewrite U. discriminate.
           ++ split; [cbn; lia|auto].
        -- split; [cbn; lia|auto].
      * split; [rewrite W; cbn; lia|]. rewrite U. discriminate.
Qed.

Lemma single_flow_split a : forall s b,
  single_flow_from s (a ++ b) = true -> flow_inv s ->
  flow_inv (fold_left step a s) /\ single_flow_from (fold_left step a s) b = true.
Proof.
  induction a as [|e r IH]; intros s b SF J; cbn [app fold_left]; [auto|].
  cbn [app single_flow_from] in SF.
  assert (G : match e with Call _ => waiting s = [] | _ => True end).
  { destruct e; [|exact I|exact I]. destruct (waiting s); [reflexivity|discriminate SF]. }
  assert (SF' : single_flow_from (step s e) (r ++ b) = true).
  { destruct e; [destruct (waiting s); [exact SF|discriminate SF]|exact SF|exact SF]. }
  apply IH; [exact SF'|]. apply flow_inv_step; assumption.
Qed.

Theorem single_flow_stable discovery a b :
  single_flow discovery (a ++ b) = true ->
  is_unknown (cell (run_events discovery a)) = false ->
  cell (run_events discovery (a ++ b)) = cell (run_events discovery a).
Proof.
  unfold single_flow, run_events. intros SF U.
  assert (J0 : flow_inv (init_c discovery)) by (split; cbn; [lia|auto]).
  destruct (single_flow_split a (init_c discovery) b SF J0) as [[_ K] SFb].
  rewrite fold_left_app. apply waiting_known_single; auto.
Qed.

(* ---- overlapping lookups (after fixes 276cfa2, 8e462bd: the first lookup to finish decides) ----
   A resolved cell is FINAL: no event - new calls, answers (tables or error codes), unanswered attempts, other
   failures of lookups still in progress - changes it.  So the format the Producer chose from it stays the format
   of the version the client writes, also for later retries of the same payloads (findings F-C04-4, F-C04-5). *)
Theorem resolved_cell_final_step s e : is_unknown (cell s) = false -> cell (step s e) = cell s.
Proof.
  intros U. destruct e as [id|id o|]; cbn [step]; [| |reflexivity].
  - rewrite U. reflexivity.
  - destruct (find_call id (waiting s)) as [f|]; [|reflexivity].
    destruct o as [code t| |]; rewrite ?U; cbn [andb cell]; reflexivity.
Qed.

Theorem resolved_cell_final evs : forall s,
  is_unknown (cell s) = false -> cell (fold_left step evs s) = cell s.
Proof.
  induction evs as [|e r IH]; intros s U; cbn [fold_left]; [reflexivity|].
  pose proof (resolved_cell_final_step s e U) as C. rewrite IH; [exact C|]. now rewrite C.
Qed.

Theorem resolved_state_final discovery a b :
  is_unknown (cell (run_events discovery a)) = false ->
  cell (run_events discovery (a ++ b)) = cell (run_events discovery a).
Proof. unfold run_events. intros U. rewrite fold_left_app. now apply resolved_cell_final. Qed.

(* the histories of findings F-C04-4 / F-C04-5, kept as regression vectors: the table stored by the lookup that
   finished first survives a later failure and a later error answer of the other lookup *)
Definition race_table : table := [mkEntry 0 0 7; mkEntry 1 0 10; mkEntry 18 0 2].
Definition race_prefix : list event := [Call 0; Call 1; Reply 1 (Answer 0 race_table)].

Lemma race_vectors :
  table_ok race_table = true /\
  choose (cell (run_events true race_prefix)) = Some (mkChoice 7 2 (Some 2) 10 2 (Some 2) 1) /\
  choose (cell (run_events true (race_prefix ++ [Reply 0 Unavailable]))) = Some (mkChoice 7 2 (Some 2) 10 2 (Some 2) 1) /\
  choose (cell (run_events true (race_prefix ++ [Reply 0 (Answer 35 [])]))) = Some (mkChoice 7 2 (Some 2) 10 2 (Some 2) 1).
Proof. split; [vm_compute; reflexivity|]. split; [vm_compute; reflexivity|]. split; vm_compute; reflexivity. Qed.
