(* Monitor LOG accepts every run of the model, and on runs answered by an honest broker what it has accumulated is a
   contiguous segment of the partition log (C02 delivered_is_log_segment in whole-run form).
   Ingredients: FIFO (Proofs/ConsumerC02FifoRun.v), REQ (ConsumerC02ReqRun.v), the frame of the next unread offset
   (ConsumerC02Next.v), "no fetch request from a nested execution" (ConsumerC02NoFetch.v), the extraction lemma
   (ConsumerC02Extract.v) and b-consumer-a's reachable-state invariant. *)
From Coq Require Import Lia.
From AV Require Import Base.Util Model.Consumer Model.ConsumerLog Model.ConsumerLogFifo Model.ConsumerLogSeg Proofs.ConsumerC02Wp
  Proofs.ConsumerC02Extract Proofs.ConsumerC02Req Proofs.ConsumerC02ReqRun Proofs.ConsumerC02Pw Proofs.ConsumerC02PwRun
  Proofs.ConsumerC02Fifo Proofs.ConsumerC02FifoRun Proofs.ConsumerC02Next Proofs.ConsumerC02NoFetch.
From AV Require Proofs.ConsumerInv Proofs.ConsumerRun.

(* ---------------- pure facts about the monitors ---------------- *)
Lemma seg_empty lo log : seg lo lo log = [].
Proof. unfold seg. apply filter_none. intros x _. destruct (lo <=? x) eqn:A, (x <? lo) eqn:B; auto. apply Z.leb_le in A. apply Z.ltb_lt in B. lia. Qed.

Lemma is_prefix_split a b : is_prefix a b = true -> b = a ++ drop (length a) b.
Proof.
  revert b. induction a as [|x a IH]; intros b H; [reflexivity|]. destruct b as [|y b]; [discriminate|].
  cbn in H. apply andb_prop in H. destruct H as [H1 H2]. apply Z.eqb_eq in H1. subst y. cbn. f_equal. apply IH. exact H2.
Qed.

(* the part of LOG that watches the fetch requests *)
Definition fch_out (nx : option Z) (last : Z) (o : output) : option Z :=
  match o with
  | OFetch off _ => match nx with Some n => if off =? n then Some off else None | None => Some off end
  | _ => Some last
  end.

Lemma gouts_log o : forall gh g' last',
  gouts fifo_out (l_g gh) o = Some g' -> gouts (fch_out (l_nx gh)) (l_last gh) o = Some last' ->
  exists D', gouts log_out gh o = Some (mkL last' (l_nx gh) (l_st gh) (l_E gh) (l_old gh) g' D')
             /\ D' ++ g' = l_D gh ++ l_g gh.
Proof.
  induction o as [|x o IH]; intros gh g' last' H1 H2; cbn [gouts] in *.
  - inversion H1; inversion H2; subst. exists (l_D gh). destruct gh; auto.
  - destruct (fifo_out (l_g gh) x) as [g1|] eqn:F1; [| discriminate].
    destruct (fch_out (l_nx gh) (l_last gh) x) as [last1|] eqn:F2; [| discriminate].
    destruct x; cbn [fch_out fifo_out] in F1, F2;
      try (inversion F1; inversion F2; subst g1 last1; cbn [log_out]; apply IH; assumption).
    + (* OFetch *) inversion F1; subst g1. cbn [log_out]. destruct (l_nx gh) as [n|] eqn:NX.
      * destruct (off =? n); [| discriminate]. inversion F2; subst last1.
        destruct (IH (mkL off (Some n) (l_st gh) (l_E gh) (l_old gh) (l_g gh) (l_D gh)) g' last' H1) as (D' & A & B);
          [ cbn [l_nx l_last]; exact H2 | cbn [l_nx l_st l_E l_old l_g l_D] in *; eauto ].
      * inversion F2; subst last1.
        destruct (IH (mkL off None (l_st gh) (l_E gh) (l_old gh) (l_g gh) (l_D gh)) g' last' H1) as (D' & A & B);
          [ cbn [l_nx l_last]; exact H2 | cbn [l_nx l_st l_E l_old l_g l_D] in *; eauto ].
    + (* OCallProc *) inversion F2; subst last1. cbn [log_out fifo_out]. destruct offs as [|m ms]; [discriminate|].
      destruct (is_prefix (m :: ms) (l_g gh)) eqn:P; [| discriminate]. inversion F1; subst g1.
      destruct (IH (mkL (l_last gh) (l_nx gh) (l_st gh) (l_E gh) (l_old gh) (drop (length (m :: ms)) (l_g gh)) (l_D gh ++ m :: ms)) g' last')
        as (D' & A & B); [ exact H1 | exact H2 |].
      cbn [l_nx l_st l_E l_old l_g l_D l_last] in *. exists D'. split; [exact A|]. rewrite B.
      rewrite (is_prefix_split _ _ P) at 2. rewrite <- app_assoc. reflexivity.
Qed.

Lemma fch_last nx o : forall last last', gouts (fch_out nx) last o = Some last' -> last' = last_fetch last o.
Proof.
  unfold last_fetch. induction o as [|x o IH]; intros last last' H; cbn [gouts fold_left] in *; [congruence|].
  destruct (fch_out nx last x) as [l1|] eqn:F; [| discriminate]. rewrite (IH _ _ H). f_equal.
  destruct x; cbn [fch_out] in F; try congruence. destruct nx as [n|]; [destruct (off =? n)|]; congruence.
Qed.
Lemma fch_quiet nx last o : existsb is_fetch_out o = false -> gouts (fch_out nx) last o = Some last.
Proof.
  induction o as [|x o IH]; cbn [existsb gouts]; [reflexivity|]. intro H. apply orb_false_elim in H. destruct H as [H1 H2].
  destruct x; cbn [fch_out]; auto. discriminate H1.
Qed.

(* REQ never learns of a fetch request without an OFetch *)
Lemma req_ev_no_fetch q e : q_rk (req_ev q e) = Some R_FETCH -> q_rk q = Some R_FETCH.
Proof.
  destruct e; cbn [req_ev]; auto.
  - destruct (q_rk q) as [k|] eqn:K; [| congruence]. destruct (k =? R_OFFREQ); [discriminate|]. destruct (k =? R_OFFFETCH); [discriminate|]. rewrite K. auto.
  - destruct (q_rk q) as [k|] eqn:K; [| congruence]. destruct (k =? R_FETCH); [discriminate|]. rewrite K. auto.
  - discriminate.
  - destruct (q_co q); auto.
Qed.
Lemma req_out_no_fetch o : forall q q', gouts req_out q o = Some q' -> existsb is_fetch_out o = false ->
  q_rk q' = Some R_FETCH -> q_rk q = Some R_FETCH.
Proof.
  induction o as [|x o IH]; intros q q' H N R; cbn [gouts existsb] in *; [congruence|].
  apply orb_false_elim in N. destruct N as [N1 N2].
  destruct (req_out q x) as [q1|] eqn:F; [| discriminate]. specialize (IH _ _ H N2 R).
  destruct x; cbn [req_out is_fetch_out] in *; try congruence; unfold req_send in *;
    repeat match goal with
    | F : match ?b with _ => _ end = Some _ |- _ => destruct b eqn:?; try discriminate
    end;
    inversion F; subst q1; cbn [q_rk] in IH; try congruence.
  all: discriminate IH.
Qed.

(* ---------------- the handlers that send requests (start(), offset replies, the refetch timer) ---------------- *)
(* the offset the outstanding fetch request asked for is the consumer's fetch offset *)
Definition FI (last : Z) (s : state) : Prop := fetch_accepted s = true -> last = s_foff s.

Lemma fo_emit nx x (Q : res unit -> Z -> state -> Prop) g s : is_fetch_out x = false -> Q (Ok tt) g s -> wp (fch_out nx) (emit x) Q g s.
Proof. intros N H. apply wp_emit. exists g. split; [ destruct x; try reflexivity; discriminate N | exact H ]. Qed.
Ltac fo_emit_t := lazymatch goal with
  | |- wp _ (emit (OFetch _ _)) _ _ _ => fail
  | |- wp _ (emit _) _ _ _ => apply fo_emit; [ reflexivity | cbn beta iota ] end.
Ltac fo_fin := try solve [ split;
  [ unfold FI, fetch_accepted in *; psimpl; repeat match goal with H : s_req _ = _ |- _ => rewrite H in * end; cbn; first [ discriminate | congruence | auto ]
  | unfold NP in *; psimpl; rewrite ?existsb_app; cbn [existsb is_fetch_out];
    repeat match goal with H : existsb _ _ = false |- _ => rewrite H end; reflexivity ] ].

Lemma fo_startd_errback nx fk g s : NP s ->
  wp (fch_out nx) (startd_errback fk) (fun _ g' s' => g' = g /\ s_req s' = s_req s /\ s_foff s' = s_foff s /\ s_rcall s' = s_rcall s /\ NP s') g s.
Proof.
  intro A. unfold startd_errback. repeat (first [ f_stif | fo_emit_t | wp_step idtac ]).
  all: repeat split; try reflexivity.
  all: unfold NP in *; psimpl; rewrite ?existsb_app; cbn [existsb is_fetch_out]; rewrite ?A; reflexivity.
Qed.

Lemma fo_do_fetch nx g s : FI g s -> NP s -> (forall n, nx = Some n -> s_req s = None -> s_foff s = n) ->
  wp (fch_out nx) do_fetch (fun _ g' s' => FI g' s' /\ NP s') g s.
Proof.
  intros F A Hn. unfold do_fetch. apply wp_bind, wp_get. cbn beta iota.
  destruct (s_req s) as [rq|] eqn:RQ; [ apply wp_ret; split; assumption |].
  assert (Hf : forall n, nx = Some n -> s_foff s = n) by (intros; eauto). clear Hn.
  repeat (first [ f_stif | fo_emit_t | wp_step ltac:(idtac; lazymatch goal with
    | |- wp _ (startd_errback _) _ _ ?st =>
      eapply wp_call; [ apply fo_startd_errback; unfold NP in *; psimpl; exact A
                      | let r := fresh "r" in intros r ? ? (-> & Q1 & Q2 & Q3 & Q4); psimpl; destruct r; cbn beta iota ]
    end) ]).
  all: fo_fin.
  all: apply wp_emit; cbn [fch_out]; exists (s_foff s);
    (split; [ destruct nx as [n|]; [ rewrite (Hf n eq_refl), Z.eqb_refl |]; reflexivity | cbn beta iota ]);
    apply wp_upd; split; [ intros _; psimpl; reflexivity | unfold NP in *; psimpl; exact A ].
Qed.

Lemma fo_flush_pend nx keep g s : NP s -> wp (fch_out nx) (flush_pend keep) (fun _ g' s' => g' = g /\ s_req s' = s_req s /\ s_foff s' = s_foff s /\ NP s') g s.
Proof.
  intro A. unfold flush_pend. apply wp_bind, wp_get. cbn beta iota. apply wp_bind, wp_upd. cbn beta iota.
  destruct keep.
  - apply wp_emits. exists g. split; [ apply fch_quiet; exact A |]. repeat split; reflexivity.
  - apply wp_ret. repeat split; reflexivity.
Qed.

Lemma fo_handle fuel e s nx last : fetching_ev e s = true -> s_pend s = [] -> (s_startd s = None -> s_req s = None) -> FI last s ->
  (forall n, nx = Some n -> e = EFireRetry /\ (s_req s = None -> s_foff s = n)) ->
  wp (fch_out nx) (handle fuel e) (fun _ g' s' => FI g' s' /\ NP s') last s.
Proof.
  intros Q P SD F Hn. assert (A : NP s) by (unfold NP; rewrite P; reflexivity).
  unfold handle. cbn zeta. apply wp_bind, wp_get. cbn beta iota.
  destruct e; cbn [fetching_ev] in Q; try discriminate Q.
  - (* start() *) unfold is_none in Q. destruct (s_startd s) eqn:S0; [discriminate Q|]. specialize (SD eq_refl).
    apply wp_bind, wp_upd. cbn beta iota. apply wp_bind, wp_try. apply wp_bind.
    eapply wp_call.
    { apply fo_do_fetch.
      - unfold FI, fetch_accepted. psimpl. rewrite SD. discriminate.
      - unfold NP in *. psimpl. exact A.
      - intros n E. destruct (Hn n E) as [C _]. discriminate C. }
    intros r g1 s1 [F1 A1]. destruct r as [[]|k]; cbn beta iota.
    + eapply wp_call with (Q0 := fun _ g2 s2 => FI g2 s2 /\ NP s2).
      { destruct (c_group (s_cf s) && c_acs (s_cf s)).
        - apply wp_bind, wp_upd. cbn beta iota. apply fo_emit; [reflexivity|]. fo_fin.
        - apply wp_ret. split; assumption. }
      intros r g2 s2 [F2 A2]. destruct r as [[]|k]; cbn beta iota.
      * apply wp_bind. eapply wp_call; [ apply fo_flush_pend; exact A2 |]. intros r g3 s3 (-> & R1 & R2 & A3).
        destruct r as [[]|k]; cbn beta iota.
        -- apply fo_emit; [reflexivity|]. split; [| exact A3]. unfold FI, fetch_accepted in *. rewrite R1, R2. exact F2.
        -- split; [| exact A3]. unfold FI, fetch_accepted in *. rewrite R1, R2. exact F2.
      * apply wp_bind. eapply wp_call; [ apply fo_flush_pend; exact A2 |]. intros r g3 s3 (-> & R1 & R2 & A3).
        destruct r as [[]|k']; cbn beta iota.
        -- apply fo_emit; [reflexivity|]. split; [| exact A3]. unfold FI, fetch_accepted in *. rewrite R1, R2. exact F2.
        -- split; [| exact A3]. unfold FI, fetch_accepted in *. rewrite R1, R2. exact F2.
    + apply wp_bind. eapply wp_call; [ apply fo_flush_pend; exact A1 |]. intros r g3 s3 (-> & R1 & R2 & A3).
      destruct r as [[]|k']; cbn beta iota.
      * apply fo_emit; [reflexivity|]. split; [| exact A3]. unfold FI, fetch_accepted in *. rewrite R1, R2. exact F1.
      * split; [| exact A3]. unfold FI, fetch_accepted in *. rewrite R1, R2. exact F1.
  - (* offset reply *) unfold offset_accepted in Q. destruct (s_req s) as [[kd []]|] eqn:RQ; try discriminate Q. rewrite Q.
    apply wp_bind, wp_upd. cbn beta iota. apply wp_swallow. unfold handle_offset_response.
    apply wp_bind, wp_upd. cbn beta iota. apply wp_bind, wp_get. cbn beta iota. apply wp_bind.
    eapply wp_call with (Q0 := fun _ g2 s2 => g2 = last /\ s_req s2 = None /\ NP s2).
    { repeat (first [ f_stif | wp_step idtac ]). all: repeat split; try reflexivity. all: unfold NP in *; psimpl; exact A. }
    intros r g2 s2 (-> & R2 & A2). destruct r as [[]|k]; cbn beta iota; [| split; [ unfold FI, fetch_accepted; rewrite R2; discriminate | exact A2 ] ].
    eapply wp_conseq; [ apply fo_do_fetch | auto ].
    + unfold FI, fetch_accepted. rewrite R2. discriminate.
    + exact A2.
    + intros n E. destruct (Hn n E) as [C _]. discriminate C.
  - (* refetch timer *) unfold rcall_active in Q. destruct (s_rcall s) as [st|] eqn:RC; [| discriminate Q ]. rewrite Q.
    apply wp_bind, wp_upd. cbn beta iota. apply wp_bind, wp_try.
    eapply wp_call.
    { apply fo_do_fetch.
      - unfold FI, fetch_accepted in *. psimpl. exact F.
      - unfold NP in *. psimpl. exact A.
      - intros n E. destruct (Hn n E) as [_ C]. psimpl. exact C. }
    intros r g1 s1 [F1 A1]. destruct r as [[]|k]; cbn beta iota.
    + apply wp_ret. split; assumption.
    + apply fo_emit; [reflexivity|]. split; assumption.
Qed.

(* ---------------- one step ---------------- *)
Section Ev.
Variable n0 : Z.
Variable fuel : nat.
Variable L : list Z.
Hypothesis HL : increasing L.
Variable hon : Prop.      (* "the broker has been honest so far": only the comparison with the log depends on it *)
(* LOG's next unread offset is the model's (while the consumer is neither stopped nor stopping) *)
Definition Kc (gh : glog) (s : state) : Prop := forall n, l_nx gh = Some n -> Pst s = false -> nxt s = n.
Definition log_okh (gh : glog) : Prop :=
  l_D gh ++ l_g gh = l_old gh ++ l_E gh
  /\ (hon -> forall n, l_nx gh = Some n -> l_st gh <= n /\ l_E gh = seg (l_st gh) n L).
Definition LInv (gh : glog) (s : state) : Prop := Top n0 (l_g gh) s /\ FI (l_last gh) s /\ Kc gh s /\ log_okh gh.
Definition honest_step (last : Z) (s : state) (e : event) : Prop :=
  match e with EFetchOk offs _ => fetch_accepted s = true -> honest L last offs | _ => True end.

Lemma alive_req s : ConsumerRun.Reach n0 s -> s_req s <> None -> Pst s = false.
Proof.
  intros ((HJ & ST) & _) R. unfold Pst. rewrite ST. destruct (s_startd s) eqn:SD; [reflexivity|].
  destruct (ConsumerInv.j6 _ _ HJ SD) as [C _]. contradiction.
Qed.
Lemma alive_rcall s : ConsumerRun.Reach n0 s -> rcall_active s = true -> Pst s = false.
Proof.
  intros ((HJ & ST) & _) R. unfold Pst. rewrite ST. destruct (s_startd s) eqn:SD; [reflexivity|].
  destruct (ConsumerInv.j6 _ _ HJ SD) as [_ C]. congruence.
Qed.
Lemma fetch_accepted_req s : fetch_accepted s = true -> s_req s <> None /\ req_pending s = true.
Proof. unfold fetch_accepted, req_pending. destruct (s_req s) as [[k []]|]; try discriminate. split; [discriminate | reflexivity]. Qed.
Lemma nxt_np s : parked s = false -> nxt s = s_foff s.
Proof. unfold parked, nxt. destruct (s_mblock s) as [[[? ?]|]|]; auto. discriminate. Qed.

Lemma x_step s e s' o : kind_ok s = true -> step fuel s e = (s', o) -> fuel_ok o = true -> HX e s s'.
Proof.
  intros KO E F. unfold step in E.
  destruct ((handle fuel e;;; s'0 <- get;; emit (OEnd (s_lp s'0) (s_lc s'0))) s) as [[r s1] o1] eqn:E1.
  inversion E; subst s1 o1; clear E.
  assert (W : wu (handle fuel e;;; s'0 <- get;; emit (OEnd (s_lp s'0) (s_lc s'0))) (fun _ _ s2 => HX e s s2) tt s).
  { apply wp_bind. eapply wp_call; [ apply x_handle; exact KO |].
    intros r0 [] s0 H0. destruct r0; cbn beta iota; [| exact H0].
    apply wp_bind, wp_get. cbn beta iota. apply wu_emit. exact H0. }
  destruct (W _ _ _ E1 F) as (_ & _ & H). exact H.
Qed.

Lemma fo_step s e s' o nx last : fetching_ev e s = true -> ConsumerRun.Reach n0 s -> FI last s ->
  (forall n, nx = Some n -> e = EFireRetry /\ (s_req s = None -> s_foff s = n)) ->
  step fuel s e = (s', o) -> fuel_ok o = true ->
  exists last', gouts (fch_out nx) last o = Some last' /\ FI last' s'.
Proof.
  intros Q HR F Hn E Fo. pose proof HR as ((HJ & ST) & _ & _ & P). unfold step in E.
  destruct ((handle fuel e;;; s'0 <- get;; emit (OEnd (s_lp s'0) (s_lc s'0))) s) as [[r s1] o1] eqn:E1.
  inversion E; subst s1 o1; clear E.
  assert (W : wp (fch_out nx) (handle fuel e;;; s'0 <- get;; emit (OEnd (s_lp s'0) (s_lc s'0))) (fun _ g2 s2 => FI g2 s2) last s).
  { apply wp_bind. eapply wp_call; [ apply fo_handle; auto; intro SD; apply (ConsumerInv.j6 _ _ HJ SD) |].
    intros r0 g0 s0 [H0 _]. destruct r0; cbn beta iota; [| exact H0].
    apply wp_bind, wp_get. cbn beta iota. apply fo_emit; [reflexivity | exact H0]. }
  destruct (W _ _ _ E1 Fo) as (g' & Hg & H). eauto.
Qed.

Lemma log_ev_g gh s e : FI (l_last gh) s -> l_g (log_ev gh s e) = fifo_ev (l_g gh) s e.
Proof.
  intro F. destruct e; cbn [log_ev fifo_ev]; try reflexivity.
  - destruct (is_none (s_startd s)); reflexivity.
  - destruct (offset_accepted s); reflexivity.
  - destruct (fetch_accepted s) eqn:A; [| reflexivity]. rewrite (F A). destruct (l_nx gh); reflexivity.
  - destruct (oor_reset s fk); reflexivity.
Qed.

(* what the event rule of LOG keeps / establishes *)
Lemma log_ev_ok gh s e : ConsumerRun.Reach n0 s -> kind_ok s = true -> FI (l_last gh) s -> Kc gh s -> log_okh gh ->
  (hon -> honest_step (l_last gh) s e) -> log_okh (log_ev gh s e).
Proof.
  intros HR KO F K [P1 P2] Hon. destruct e; cbn [log_ev]; try (split; assumption).
  - destruct (is_none (s_startd s)); [| split; assumption]. split; [reflexivity | intros _ n C; discriminate C].
  - destruct (offset_accepted s); [| split; assumption]. split; [exact P1 | intros _ n C; discriminate C].
  - destruct (fetch_accepted s) eqn:A; [| split; assumption].
    destruct (extract (l_last gh) offs) as [X f'] eqn:EX. cbn [fst snd].
    split.
    { destruct (l_nx gh); cbn [l_D l_g l_old l_E]; rewrite !app_assoc; rewrite P1; reflexivity. }
    intro h. specialize (P2 h). specialize (Hon h). cbn [honest_step] in Hon. specialize (Hon A).
    destruct (fetch_accepted_req _ A) as [RN RP].
    pose proof (alive_req _ HR RN) as PS. pose proof (not_parked_pending _ KO RP) as NPk.
    destruct (extract_honest L (l_last gh) offs X f' HL Hon EX) as [LE SG].
    destruct (l_nx gh) as [n|] eqn:NX; cbn [l_E l_nx l_st].
    + destruct (P2 n eq_refl) as [SN EN]. pose proof (K n NX PS) as KN. rewrite (nxt_np _ NPk), <- (F A) in KN. subst n.
      intros m C. inversion C; subst m. split; [lia|]. rewrite (SG _ SN), EN. reflexivity.
    + intros m C. inversion C; subst m. split; [lia|]. rewrite (SG _ (Z.le_refl _)), seg_empty. reflexivity.
  - destruct (oor_reset s fk); [| split; assumption]. split; [exact P1 | intros _ n C; discriminate C].
Qed.

Lemma log_ev_K gh s e s' : ConsumerRun.Reach n0 s -> ConsumerRun.Reach n0 s' -> kind_ok s = true -> FI (l_last gh) s -> Kc gh s ->
  HX e s s' -> Kc (log_ev gh s e) s'.
Proof.
  intros HR HR' KO F K H.
  assert (NXK : forall g1, l_nx g1 = l_nx gh -> NX s s' -> Kc g1 s').
  { intros g1 E1 [N1 N2] n C PS'. rewrite E1 in C. destruct N2 as [N2|N2]; [congruence|].
    rewrite N2. apply (K n C). destruct (Pst s) eqn:PS; [| reflexivity]. rewrite (N1 eq_refl) in PS'. discriminate. }
  destruct e; cbn [log_ev HX] in *; try (apply NXK; [reflexivity | exact H]).
  - unfold is_none. destruct (s_startd s) eqn:SD; cbn [is_some negb].
    + apply NXK; [reflexivity | apply H; discriminate].
    + intros n C. discriminate C.
  - destruct (offset_accepted s) eqn:A; [ intros n C; discriminate C | apply NXK; [reflexivity | apply H; reflexivity] ].
  - destruct (fetch_accepted s) eqn:A; [| apply NXK; [reflexivity | exact H] ].
    rewrite (F A). destruct H as [N1 N2].
    assert (R : forall g1, l_nx g1 = Some (snd (extract (s_foff s) offs)) -> Kc g1 s').
    { intros g1 E1 n C PS'. rewrite E1 in C. inversion C; subst n. destruct N2; congruence. }
    destruct (l_nx gh); apply R; reflexivity.
  - destruct (oor_reset s fk) eqn:A; [ intros n C; discriminate C | apply NXK; [reflexivity | apply H; reflexivity] ].
Qed.

Lemma fetch_accepted_abs s : fetch_accepted s = true <-> q_rk (req_abs s) = Some R_FETCH.
Proof.
  unfold fetch_accepted, req_abs. cbn [q_rk]. destruct (s_req s) as [[k []]|]; split; try discriminate.
  - intro H. apply Z.eqb_eq in H. congruence.
  - intro H. inversion H. reflexivity.
Qed.

(* an event that sends no request leaves the outstanding fetch request (if any) and its offset alone *)
Lemma fi_quiet last s e s' o : fetching_ev e s = false -> ConsumerRun.Reach n0 s -> ConsumerRun.Reach n0 s' ->
  kind_ok s = true -> kind_ok s' = true -> FI last s -> step fuel s e = (s', o) -> fuel_ok o = true -> HX e s s' -> FI last s'.
Proof.
  intros Q HR HR' KO KO' F E Fo H A'.
  pose proof HR as (_ & _ & _ & P).
  pose proof (step_no_fetch fuel s e s' o P Q E Fo) as NF.
  destruct (q_step fuel s e s' o KO E Fo) as [Hq _].
  pose proof (proj1 (fetch_accepted_abs s') A') as R'.
  pose proof (req_out_no_fetch o _ _ Hq NF R') as H1.
  pose proof (req_ev_no_fetch _ _ H1) as R0. pose proof (proj2 (fetch_accepted_abs s) R0) as A0.
  rewrite (F A0).
  assert (N : NX s s').
  { destruct e; cbn [HX fetching_ev] in *; try exact H.
    - apply H. unfold is_none in Q. destruct (s_startd s); [discriminate | discriminate Q].
    - apply H. exact Q.
    - rewrite A0 in H. cbn [req_ev] in H1. rewrite R0 in H1. rewrite Z.eqb_refl in H1. discriminate H1.
    - cbn [req_ev] in H1. discriminate H1. }
  destruct N as [_ [N2|N2]].
  - destruct (fetch_accepted_req _ A') as [RN' _]. rewrite (alive_req _ HR' RN') in N2. discriminate.
  - destruct (fetch_accepted_req _ A') as [_ RP']. destruct (fetch_accepted_req _ A0) as [_ RP].
    rewrite (nxt_np _ (not_parked_pending _ KO' RP')), (nxt_np _ (not_parked_pending _ KO RP)) in N2. congruence.
Qed.

Lemma log_step gh s e s' o : LInv gh s -> step fuel s e = (s', o) -> fuel_ok o = true -> (hon -> honest_step (l_last gh) s e) ->
  exists gh', gouts log_out (log_ev gh s e) o = Some gh' /\ LInv gh' s' /\ l_last gh' = last_fetch (l_last gh) o.
Proof.
  intros (T & F & K & OK) E Fo Hon. pose proof T as (HR & _ & KO & _).
  destruct (fe_step n0 fuel e _ s s' o T E Fo) as (g' & Hg & T'). pose proof T' as (HR' & _ & KO' & _).
  pose proof (x_step s e s' o KO E Fo) as H.
  set (gh1 := log_ev gh s e).
  assert (G1 : l_g gh1 = fifo_ev (l_g gh) s e) by (apply log_ev_g; exact F).
  assert (L1 : l_last gh1 = l_last gh).
  { subst gh1. destruct e; cbn [log_ev]; try reflexivity.
    - destruct (is_none (s_startd s)); reflexivity.
    - destruct (offset_accepted s); reflexivity.
    - destruct (fetch_accepted s); [ destruct (l_nx gh) |]; reflexivity.
    - destruct (oor_reset s fk); reflexivity. }
  assert (OK1 : log_okh gh1) by (apply log_ev_ok; assumption).
  assert (K1 : Kc gh1 s') by (apply (log_ev_K gh s e s'); assumption).
  assert (FE : exists last', gouts (fch_out (l_nx gh1)) (l_last gh1) o = Some last' /\ FI last' s').
  { rewrite L1. destruct (fetching_ev e s) eqn:Q.
    - apply (fo_step s e s' o); auto. intros n C.
      destruct e; cbn [fetching_ev] in Q; try discriminate Q; subst gh1; cbn [log_ev] in C.
      + rewrite Q in C. discriminate C.
      + rewrite Q in C. discriminate C.
      + split; [reflexivity|]. intro RN. pose proof (K n C (alive_rcall _ HR Q)) as KN. rewrite <- KN. symmetry. apply nxt_np.
        destruct (parked s) eqn:PK; [| reflexivity]. pose proof HR as ((HJ & _) & _).
        destruct (ConsumerInv.j1 _ _ HJ PK) as [C1 _]. congruence.
    - pose proof HR as (_ & _ & _ & P). exists (l_last gh). split.
      + apply fch_quiet. apply (step_no_fetch fuel s e s' o P Q E Fo).
      + apply (fi_quiet _ s e s' o); assumption. }
  destruct FE as (last' & Hf & F').
  rewrite <- G1 in Hg. destruct (gouts_log o gh1 g' last' Hg Hf) as (D' & HG & HD).
  eexists. split; [exact HG|]. split; [| cbn [l_last]; rewrite <- L1; apply (fch_last _ _ _ _ Hf) ].
  split; [exact T'|]. split; [exact F'|]. split.
  - intros n C. apply K1. exact C.
  - destruct OK1 as [P1 P2]. split; cbn [l_D l_g l_old l_E l_nx l_st]; [ rewrite HD; exact P1 | exact P2 ].
Qed.
End Ev.

Lemma LInv_init c m b L hon : 0 <= c_acn c -> LInv m L hon log0 (init c m b).
Proof.
  intro A. split; [ apply Top_init; exact A |]. split; [ intro C; discriminate C |]. split; [ intros n C; discriminate C |].
  split; [ reflexivity | intros _ n C; discriminate C ].
Qed.

Lemma log_run fuel maxatt L hon : increasing L -> forall evs s gh, LInv maxatt L hon gh s ->
  forallb (fun t => match t with (_, _, o, _) => fuel_ok o end) (run_steps fuel s evs) = true ->
  (hon -> honest_run L (l_last gh) (run_steps fuel s evs)) ->
  exists gh', mon_run_s log_ev log_out gh (run_steps fuel s evs) = Some gh' /\ log_okh L hon gh'.
Proof.
  intro HL. induction evs as [|e evs IH]; intros s gh I F Hon; cbn [run_steps mon_run_s].
  - destruct I as (_ & _ & _ & OK). eauto.
  - cbn [run_steps] in F, Hon. destruct (step fuel s e) as [s1 o1] eqn:E. cbn [forallb honest_run] in F, Hon.
    apply andb_prop in F. destruct F as [F1 F2].
    destruct (log_step maxatt fuel L HL hon gh s e s1 o1 I E F1) as (gh1 & Hg & I1 & L1).
    { intro h. destruct (Hon h) as [H1 _]. destruct e; cbn [honest_step]; auto. }
    cbn [mon_run_s]. rewrite Hg. apply (IH s1 gh1 I1 F2). intro h. rewrite L1. apply (Hon h).
Qed.

(* the monitor LOG accepts every run of the model, whatever the broker answers: every fetch request asks for exactly
   the next unread offset, the processor receives what was extracted, in order, and nothing extracted since the
   start is lost or handed on twice *)
Theorem log_monitor_accepts fuel c maxatt buf evs :
  0 <= c_acn c -> run_fuel_ok fuel c maxatt buf evs = true ->
  exists gh, mon_run_s log_ev log_out log0 (run_steps fuel (init c maxatt buf) evs) = Some gh
             /\ l_D gh ++ l_g gh = l_old gh ++ l_E gh.
Proof.
  intros A F. unfold run_fuel_ok in F.
  destruct (log_run fuel maxatt [] False I evs _ _ (LInv_init c maxatt buf [] False A) F) as (gh & H & [P1 _]); [ intros [] |].
  eauto.
Qed.

(* if moreover the accepted fetch replies are honest answers from the partition log [L], what was extracted since the
   position was last resolved is the segment of the log from the offset first asked for up to the next unread offset *)
Theorem log_segment fuel c maxatt buf evs L :
  0 <= c_acn c -> run_fuel_ok fuel c maxatt buf evs = true -> increasing L ->
  honest_run L 0 (run_steps fuel (init c maxatt buf) evs) ->
  exists gh, mon_run_s log_ev log_out log0 (run_steps fuel (init c maxatt buf) evs) = Some gh /\ log_ok L gh.
Proof.
  intros A F HL Hon. unfold run_fuel_ok in F.
  destruct (log_run fuel maxatt L True HL evs _ _ (LInv_init c maxatt buf L True A) F (fun _ => Hon)) as (gh & H & [P1 P2]).
  exists gh. split; [exact H|]. split; [exact P1 | exact (P2 I)].
Qed.
