(* C13, shutdown bookkeeping, part 1: nothing that runs while _stopping is set touches the retry timer, so a stop() entered
   with _stopping clear on a started consumer whose retry timer is not stale never raises. *)
From Coq Require Import Lia.
From AV Require Import Base.Util Model.Consumer Proofs.ConsumerBase Proofs.ConsumerFrame Proofs.ConsumerStop Proofs.ConsumerShutFlags.
Open Scope Z_scope.

Definition RCs (s s' : state) : Prop := s_rcall s' = s_rcall s /\ s_stopping s' = s_stopping s.
Ltac rc_done := unfold RCs in *; psimpl;
  repeat match goal with H : _ /\ _ |- _ => destruct H end; split; congruence.
Ltac rc_fwd := repeat match goal with
  | P : s_stopping ?a = true -> _ |- _ =>
    let Q := fresh "Q" in assert (Q : s_stopping a = true) by (unfold RCs in *; psimpl; repeat match goal with H : _ /\ _ |- _ => destruct H end; congruence);
    specialize (P Q); clear Q
  end.
Ltac use L := repeat match goal with E : _ = (_, _, _) |- _ => apply L in E end.

Lemma startd_errback_rc fk s r s' o : startd_errback fk s = (r, s', o) -> RCs s s'.
Proof. intro H. unfold startd_errback in H. mi H; rc_done. Qed.
Lemma handle_auto_commit_error_rc fk s r s' o : handle_auto_commit_error fk s = (r, s', o) -> RCs s s'.
Proof. intro H. unfold handle_auto_commit_error in H. mi H; use startd_errback_rc; rc_done. Qed.
Lemma handle_processor_error_rc fk s r s' o : handle_processor_error fk s = (r, s', o) -> RCs s s'.
Proof. intro H. unfold handle_processor_error in H. mi H; use startd_errback_rc; rc_done. Qed.
Lemma send_commit_request_rc i a s r s' o : send_commit_request i a s = (r, s', o) -> RCs s s'.
Proof. intro H. unfold send_commit_request in H. mi H; rc_done. Qed.
Lemma commit_rc w s r s' o : commit w s = (r, s', o) -> RCs s s'.
Proof. intro H. unfold commit in H. mi H; use send_commit_request_rc; rc_done. Qed.
Lemma auto_commit_rc bc s r s' o : auto_commit bc s = (r, s', o) -> RCs s s'.
Proof. intro H. unfold auto_commit in H. mi H; use commit_rc; use handle_auto_commit_error_rc; rc_done. Qed.
Lemma proc_chain_rc last fk s r s' o : proc_chain last fk s = (r, s', o) -> RCs s s'.
Proof. intro H. unfold proc_chain in H. mi H; use auto_commit_rc; use handle_processor_error_rc; rc_done. Qed.
Lemma emit_shutd_rc x s r s' o : emit_shutd x s = (r, s', o) -> RCs s s'.
Proof. intro H. unfold emit_shutd in H. mi H; rc_done. Qed.
Lemma interrupted_rc s r s' o : interrupted s = (r, s', o) -> RCs s s'.
Proof. intro H. unfold interrupted in H. mi H; use emit_shutd_rc; rc_done. Qed.
Lemma retry_fetch_rc z s r s' o : retry_fetch z s = (r, s', o) -> s_stopping s = true -> RCs s s'.
Proof. intros H Hst. apply retry_fetch_stopping in H; [subst; split; reflexivity | exact Hst]. Qed.

Section RecRC.
Variable f : nat.
Hypothesis IH : forall k s r s' o, run f k s = (r, s', o) -> fuel_ok o = true -> k <> KStop -> s_stopping s = true -> RCs s s'.

Ltac use_ih := repeat match goal with
  | E : run f ?k ?s1 = (?r, ?s2, ?o1), Hf : fuel_ok ?o1 = true |- _ =>
    let P := fresh "P" in pose proof (IH _ _ _ _ _ E Hf ltac:(discriminate)) as P; clear E
  end.
Ltac specs := use startd_errback_rc; use handle_auto_commit_error_rc; use handle_processor_error_rc; use send_commit_request_rc;
  use commit_rc; use auto_commit_rc; use proc_chain_rc; use emit_shutd_rc; use interrupted_rc;
  repeat match goal with E : retry_fetch _ ?a = _ |- _ => let X := fresh "X" in pose proof (retry_fetch_rc _ _ _ _ _ E) as X; clear E end.

Lemma fire_all_rc cr : forall ds s r s' o, fire_all (run f) ds cr s = (r, s', o) -> fuel_ok o = true -> s_stopping s = true -> RCs s s'.
Proof.
  induction ds as [|d ds IHds]; intros s r s' o H Hf Hst; cbn [fire_all] in H.
  - mi H. split; reflexivity.
  - mi H; fuel_split; use_ih; rc_fwd.
    all: match goal with E : fire_all _ _ _ _ = _ |- _ => apply IHds in E; [| assumption | unfold RCs in *; intuition congruence] end.
    all: rc_done.
Qed.

Lemma body_rc k s r s' o : body (run f) k s = (r, s', o) -> fuel_ok o = true -> k <> KStop -> s_stopping s = true -> RCs s s'.
Proof.
  intros H Hf Hk Hst. destruct k; try (exfalso; apply Hk; reflexivity); cbn [body] in H; unfold finish_block in H.
  all: mi H; fuel_split; try (exfalso; bprop; discriminate).
  all: repeat match goal with E : fire_all _ _ _ _ = _, Hf : fuel_ok _ = true |- _ =>
         let X := fresh "X" in pose proof (fire_all_rc _ _ _ _ _ _ E Hf) as X; clear E end.
  all: use_ih; specs; rc_fwd.
  all: rc_done.
Qed.
End RecRC.

Theorem run_rc fuel k s r s' o : run fuel k s = (r, s', o) -> fuel_ok o = true -> k <> KStop -> s_stopping s = true -> RCs s s'.
Proof.
  intro H. refine (run_ind (fun _ _ => True) (fun k s _ s' o => fuel_ok o = true -> k <> KStop -> s_stopping s = true -> RCs s s') _ _ fuel k s r s' o I H); clear.
  - intros k s _ Hf. discriminate Hf.
  - intros f IH k s r s' o _ H Hf Hk Hst. eapply body_rc; eauto.
Qed.

(* ---------------- stop() never raises on a started consumer whose retry timer is not stale ---------------- *)
Lemma stopcds_ok : forall fuel s r s' o, run fuel KStopCds s = (r, s', o) -> fuel_ok o = true -> r = Ok tt.
Proof.
  induction fuel as [|f IH]; intros s r s' o H Hf; cbn [run] in H.
  - mi H. discriminate Hf.
  - cbn [body] in H. mi H; fuel_split; try reflexivity.
    all: match goal with E : run _ KStopCds _ = _, Hf : fuel_ok _ = true |- _ => apply IH in E; [| exact Hf] end; congruence.
Qed.
Lemma stop_req_rc s r s' o : stop_req s = (r, s', o) -> s_stopping s = true -> s_rcall s' = s_rcall s /\ r = Ok tt.
Proof.
  intros H Hst. unfold stop_req, handle_fetch_error, handle_offset_error, retry_fetch, startd_errback in H.
  change (is_oor FK_CANCELLED) with false in H. change (is_cancel FK_CANCELLED) with true in H.
  mi H; psimpl; rewrite ?Hst in *; cbn [andb] in *; try discriminate; split; reflexivity.
Qed.
Lemma stop_mblock_rc s r s' o : stop_mblock s = (r, s', o) -> s_rcall s' = s_rcall s /\ r = Ok tt.
Proof. intro H. unfold stop_mblock in H. mi H; split; reflexivity. Qed.
Lemma stop_rcall_ok s r s' o : stop_rcall s = (r, s', o) -> rcall_stale s = false -> r = Ok tt.
Proof. intros H Hs. unfold stop_rcall in H. unfold rcall_stale in Hs. mi H; try reflexivity; rewrite ?D, ?D0 in Hs; cbn in Hs; discriminate Hs. Qed.
Lemma stop_tail_ok s r s' o :
  (stop_ccall s = (r, s', o) \/ stop_looper s = (r, s', o) \/ stop_susp s = (r, s', o)) -> r = Ok tt.
Proof. intros [H|[H|H]]; [unfold stop_ccall in H | unfold stop_looper in H | unfold stop_susp in H]; mi H; reflexivity. Qed.

Ltac fwr := repeat match goal with
  | E : run ?f ?k ?a = (?r, ?b, ?o1), Hf : fuel_ok ?o1 = true |- _ =>
    let S := fresh "S" in assert (S : s_stopping a = true) by (psimpl; congruence);
    let I3 := fresh "I3" in pose proof (run_stop _ _ _ _ _ _ E Hf) as I3; cbn beta iota in I3; specialize (I3 S);
    destruct I3 as (I3 & _ & _); pose proof (i_stopping _ _ I3);
    try (let RC := fresh "RC" in pose proof (run_rc _ _ _ _ _ _ E Hf ltac:(discriminate) S) as (RC & _));
    clear E
  | E : stop_req ?a = (_, ?b, _) |- _ =>
    let Rq := fresh "Rq" in pose proof (stop_req_rc _ _ _ _ E ltac:(psimpl; congruence)) as (Rq & _);
    apply stop_req_in in E; [|psimpl; congruence]; destruct E as (E & _ & _); pose proof (i_stopping _ _ E)
  | E : stop_mblock ?a = (_, ?b, _) |- _ =>
    let Rm := fresh "Rm" in pose proof (stop_mblock_rc _ _ _ _ E) as (Rm & _);
    apply stop_mblock_in in E; destruct E as (E & _ & _); pose proof (i_stopping _ _ E)
  | E : stop_rcall ?a = (Ok _, ?b, _) |- _ => apply stop_rcall_in in E; destruct E as (E & _ & _); pose proof (i_stopping _ _ E)
  | E : stop_ccall ?a = (Ok _, ?b, _) |- _ => apply stop_ccall_in in E; destruct E as (E & _ & _); pose proof (i_stopping _ _ E)
  | E : stop_looper ?a = (Ok _, ?b, _) |- _ => apply stop_looper_in in E; destruct E as (E & _ & _); pose proof (i_stopping _ _ E)
  | E : stop_susp ?a = (Ok _, ?b, _) |- _ => apply stop_susp_in in E; destruct E as (E & _ & _); pose proof (i_stopping _ _ E)
  end.

Theorem stop_returns_ok fuel s r s' o : run fuel KStop s = (r, s', o) -> fuel_ok o = true ->
  s_startd s <> None -> rcall_stale s = false -> r = Ok tt.
Proof.
  intros H Hf Hsd Hns. destruct fuel as [|f]; [cbn [run] in H; mi H; discriminate Hf|].
  cbn [run] in H. cbn [body] in H. unfold stop_startd, stop_proc, stop_creq, handle_commit_error in H.
  change (is_cancel FK_CANCELLED) with true in H.
  mi H; fuel_split; try reflexivity; try (exfalso; apply Hsd; first [assumption | reflexivity]).
  all: exfalso.
  (* blocks that cannot raise *)
  all: try (match goal with
            | E : stop_req _ = (Exc _, _, _) |- _ => apply stop_req_rc in E; [destruct E as (_ & E); discriminate E | reflexivity]
            | E : stop_mblock _ = (Exc _, _, _) |- _ => apply stop_mblock_rc in E; destruct E as (_ & E); discriminate E
            | E : run _ KStopCds _ = (Exc _, _, _), Hf : fuel_ok _ = true |- _ => apply stopcds_ok in E; [discriminate E | exact Hf]
            | E : stop_ccall _ = (Exc _, _, _) |- _ => pose proof (stop_tail_ok _ _ _ _ (or_introl E)) as X; discriminate X
            | E : stop_looper _ = (Exc _, _, _) |- _ => pose proof (stop_tail_ok _ _ _ _ (or_intror (or_introl E))) as X; discriminate X
            | E : stop_susp _ = (Exc _, _, _) |- _ => pose proof (stop_tail_ok _ _ _ _ (or_intror (or_intror E))) as X; discriminate X
            end).
  all: fwr.
  (* the retry timer is as it was *)
  all: try (match goal with E : stop_rcall ?x = (Exc _, _, _) |- _ =>
         apply stop_rcall_ok in E; [discriminate E | unfold rcall_stale in *; replace (s_rcall x) with (s_rcall s) by (psimpl; congruence); exact Hns] end).
  (* the start Deferred is still there *)
  all: match goal with D3 : s_startd ?x = None |- _ =>
         let I := fresh "I" in assert (I : In3 (set_stopping true s) x) by in3_chain; pose proof (i_startd _ _ I) as Hs; psimpl; rewrite D, D3 in Hs; discriminate Hs end.
Qed.
