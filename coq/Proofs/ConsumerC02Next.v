(* Contiguity of extractions: inside any nested execution of the consumer model the "next unread offset"
   [nxt] (the fetch offset, or where it will be once the parked reply has been extracted) does not move, except by
   the extraction of a fetch reply (KFetchResp) - unless the consumer is being / has been stopped.  A state-only
   invariant (the outputs play no role): the monitor is the trivial one. *)
From Coq Require Import Lia.
From AV Require Import Base.Util Model.Consumer Model.ConsumerLog Model.ConsumerLogFifo Model.ConsumerLogSeg Proofs.ConsumerC02Wp
  Proofs.ConsumerC02Req Proofs.ConsumerC02Pw Proofs.ConsumerC02Fifo Proofs.ConsumerC02FifoRun.

Definition gunit (_ : unit) (_ : output) : option unit := Some tt.
Notation wu := (wp gunit).
Lemma gouts_unit o : gouts gunit tt o = Some tt.
Proof. induction o; cbn; auto. Qed.
(* a fact about every execution is a specification for the trivial monitor *)
Lemma wu_of {A} (m : M A) (F : res A -> state -> Prop) s :
  (forall r s' o, m s = (r, s', o) -> fuel_ok o = true -> F r s') -> wu m (fun r _ s' => F r s') tt s.
Proof. intros H r s' o E Fu. exists tt. split; [apply gouts_unit | eauto]. Qed.
Lemma wu_emit x (Q : res unit -> unit -> state -> Prop) s : Q (Ok tt) tt s -> wu (emit x) Q tt s.
Proof. intro H. apply wp_emit. exists tt. split; auto. Qed.

(* stopped or stopping *)
Definition Pst (s : state) : bool := negb (is_some (s_startd s)) || s_stopping s.
Definition NXt (t : Z) (s s' : state) : Prop := (Pst s = true -> Pst s' = true) /\ (Pst s' = true \/ nxt s' = t).
Notation NX s s' := (NXt (nxt s) s s').

Lemma NX_refl s : NX s s.
Proof. split; auto. Qed.
Lemma NX_trans t a b c : NXt t a b -> NX b c -> NXt t a c.
Proof.
  intros [P1 N1] [P2 N2]. split; [auto|]. destruct N2 as [N2 | N2]; [left; exact N2|].
  destruct N1 as [N1 | N1]; [left; auto | right; congruence].
Qed.
(* the state facts every method without re-entrancy satisfies (from the NC lemmas of the FIFO development) *)
Definition LF (s s' : state) : Prop :=
  s_foff s' = s_foff s /\ s_mblock s' = s_mblock s /\ s_stopping s' = s_stopping s /\ is_some (s_startd s') = is_some (s_startd s).
Lemma LF_NX s s' : LF s s' -> NX s s'.
Proof. intros (F1 & F2 & F3 & F4). unfold NXt, Pst, nxt. rewrite F1, F2, F3, F4. auto. Qed.
Lemma leaf_of_nc {A} (m : M A) s : (wp fifo_out m (NC [] s) [] s) -> wu m (fun _ _ s' => LF s s') tt s.
Proof.
  intro H. apply (wu_of m (fun _ s' => LF s s')). intros r s' o E F. destruct (H r s' o E F) as (g' & _ & (_ & F1 & _ & F2 & F3 & F4)).
  repeat split; auto.
Qed.

Lemma n_interrupted_lf s : wu interrupted (fun _ _ s' => LF s s') tt s.
Proof.
  apply (wu_of interrupted (fun _ s' => LF s s')). intros r s' o E F. unfold interrupted in E.
  assert (H : wp fifo_out interrupted (fun _ _ s' => LF s s') [] s).
  { unfold interrupted. nc_walk n7. all: try solve [ unfold LF; repeat split; psimpl; congruence ]. }
  destruct (H r s' o E F) as (g' & _ & HL). exact HL.
Qed.

(* what a continuation does to [nxt]: KFetchResp moves it past its reply; all the others leave it alone *)
Definition tgt (k : kont) (s : state) : Z :=
  match k with KFetchResp offs _ => snd (extract (s_foff s) offs) | _ => nxt s end.
Definition npre (k : kont) (s : state) : Prop := match k with KFetchResp _ _ => parked s = false | _ => True end.

Ltac nx_cur st :=
  lazymatch goal with
  | A : NXt ?t ?s0 st |- _ => idtac
  | A : NXt ?t ?s0 _ |- _ => let A' := fresh "A" in
      assert (A' : NXt t s0 st) by (unfold NXt, Pst, nxt in *; psimpl;
        first [ exact A | repeat match goal with H : s_mblock _ = _ |- _ => rewrite H in * end; exact A ]); clear A
  end.
Ltac nx_after := let r := fresh "r" in let u := fresh "u" in let H := fresh "H" in
  intros r u ? H; destruct u;
  match goal with A : NXt ?t ?s0 ?st |- _ => apply (NX_trans _ _ _ _ A) in H; clear A end; destruct r; cbn beta iota.
Ltac nx_leaf lem :=
  lazymatch goal with |- wp _ _ _ _ ?st => nx_cur st;
    eapply wp_call; [ eapply wp_conseq; [ apply leaf_of_nc; apply lem; try reflexivity | intros ? ? ? HL; exact (LF_NX _ _ HL) ] | nx_after ] end.
Ltac nx_rec :=
  lazymatch goal with |- wp _ (?rc ?k) _ _ ?st =>
    lazymatch type of k with kont => idtac end; nx_cur st;
    match goal with HR : forall k0 s0, npre k0 s0 -> wu (rc k0) _ tt s0 |- _ =>
      eapply wp_call; [ apply (HR k st); exact I | nx_after ] end end.
Ltac nx_calls := idtac; lazymatch goal with
  | |- wp _ (startd_errback _) _ _ _ => nx_leaf n_startd_errback
  | |- wp _ (retry_fetch _) _ _ _ => nx_leaf n_retry_fetch
  | |- wp _ (handle_offset_error _) _ _ _ => nx_leaf n_handle_offset_error
  | |- wp _ (handle_fetch_error FK_CANCELLED) _ _ _ => nx_leaf n_handle_fetch_error
  | |- wp _ (handle_auto_commit_error _) _ _ _ => nx_leaf n_handle_auto_commit_error
  | |- wp _ (commit _) _ _ _ => nx_leaf n_commit
  | |- wp _ (auto_commit _) _ _ _ => nx_leaf n_auto_commit
  | |- wp _ (proc_chain _ _) _ _ _ => nx_leaf n_proc_chain
  | |- wp _ (emit_shutd (OShutD _ _ _)) _ _ _ => nx_leaf n_emit_shutd
  | |- wp _ (emit_shutd (match ?x with _ => _ end)) _ _ _ => destruct x
  | |- wp _ interrupted _ _ _ =>
    lazymatch goal with |- wp _ _ _ _ ?st => nx_cur st;
      eapply wp_call; [ eapply wp_conseq; [ apply n_interrupted_lf | intros ? ? ? HL; exact (LF_NX _ _ HL) ] | nx_after ] end
  | |- wp _ stop_rcall _ _ _ => nx_leaf n_stop_rcall
  | |- wp _ stop_ccall _ _ _ => nx_leaf n_stop_ccall
  | |- wp _ stop_looper _ _ _ => nx_leaf n_stop_looper
  | |- wp _ stop_susp _ _ _ => nx_leaf n_stop_susp
  | |- wp _ stop_req _ _ _ => nx_leaf n_stop_req
  | |- wp _ (_ (KFetchResp _ _)) _ _ _ => fail
  | |- wp _ (_ _) _ _ _ => nx_rec
  end.
Ltac nx_emit := lazymatch goal with |- wp _ (emit _) _ _ _ => apply wu_emit; cbn beta iota end.
Ltac nx_flush := lazymatch goal with |- wp _ (fun s' : state => (Ok tt, s', ?l)) _ _ _ =>
  apply wp_emits; exists tt; split; [ apply gouts_unit | cbn beta iota ] end.
Ltac nx_walk := repeat (first [ nx_flush | f_stif | nx_emit | wp_step nx_calls ]).
Ltac nx_done := try solve [ match goal with A : NXt ?t ?s0 _ |- NXt ?t ?s0 _ => unfold NXt, Pst, nxt in *; psimpl; exact A end ].

Section Rec.
Variable rec : kont -> M unit.
Hypothesis Hrec : forall k s, npre k s -> wu (rec k) (fun _ _ s' => NXt (tgt k s) s s') tt s.

Lemma x_handle_commit_error fk i a t s0 s : NXt t s0 s -> wu (handle_commit_error rec fk i a) (fun _ _ s' => NXt t s0 s') tt s.
Proof. intro A. unfold handle_commit_error. nx_walk. all: nx_done. Qed.
Lemma x_fire_all ds cr t s0 s : NXt t s0 s -> wu (fire_all rec ds cr) (fun _ _ s' => NXt t s0 s') tt s.
Proof.
  revert s. induction ds as [|x ds IH]; intros s A; cbn [fire_all].
  - nx_walk. all: nx_done.
  - nx_walk. all: try (apply IH; assumption). all: nx_done.
Qed.
Ltac nx_calls2 := idtac; first [ nx_calls | lazymatch goal with
  | |- wp _ (handle_commit_error _ _ _ _) _ _ ?st => nx_cur st;
    match goal with A : NXt ?t ?s0 st |- _ =>
      eapply wp_call; [ apply (x_handle_commit_error _ _ _ t s0 st A) | let r := fresh "r" in intros r [] ? ?; clear A; destruct r; cbn beta iota ] end
  | |- wp _ (fire_all _ _ _) _ _ ?st => nx_cur st;
    match goal with A : NXt ?t ?s0 st |- _ =>
      eapply wp_call; [ apply (x_fire_all _ _ t s0 st A) | let r := fresh "r" in intros r [] ? ?; clear A; destruct r; cbn beta iota ] end
  end ].
Ltac nx_walk2 := repeat (first [ nx_flush | f_stif | nx_emit | wp_step nx_calls2 ]).
Lemma x_stop_creq t s0 s : NXt t s0 s -> wu (stop_creq rec) (fun _ _ s' => NXt t s0 s') tt s.
Proof. intro A. unfold stop_creq. nx_walk2. all: nx_done. Qed.

(* the end of a block: extracting the parked reply leaves [nxt] where it was *)
Lemma x_finish_block t s0 s : NXt t s0 s -> wu (finish_block rec) (fun _ _ s' => NXt t s0 s') tt s.
Proof.
  intro A. unfold finish_block. apply wp_bind, wp_get. cbn beta iota.
  destruct (s_mblock s) as [[[offs ts]|]|] eqn:MB.
  - apply wp_bind, wp_upd. cbn beta iota. apply wp_swallow.
    eapply wp_call; [ apply (Hrec (KFetchResp offs ts)); reflexivity |].
    intros r [] s' [H1 H2]. cbn [tgt] in H2. psimpl.
    assert (PS : Pst (set_mblock None s) = Pst s) by reflexivity. rewrite PS in H1.
    assert (NS : nxt s = snd (extract (s_foff s) offs)) by (unfold nxt; rewrite MB; reflexivity).
    destruct A as [A1 A2]. split; [auto|].
    destruct H2 as [H2 | H2]; [left; exact H2|].
    destruct A2 as [A2 | A2]; [left; auto | right; congruence].
  - apply wp_bind, wp_upd. cbn beta iota. apply wp_ret. unfold NXt, Pst, nxt in *. psimpl. rewrite MB in A. exact A.
  - apply wp_ret. exact A.
Qed.
Ltac nx_calls3 := idtac; first [ nx_calls2 | lazymatch goal with
  | |- wp _ (finish_block _) _ _ ?st => nx_cur st;
    match goal with A : NXt ?t ?s0 st |- _ =>
      eapply wp_call; [ apply (x_finish_block t s0 st A) | let r := fresh "r" in intros r [] ? ?; clear A; destruct r; cbn beta iota ] end
  | |- wp _ (stop_creq _) _ _ ?st => nx_cur st;
    match goal with A : NXt ?t ?s0 st |- _ =>
      eapply wp_call; [ apply (x_stop_creq t s0 st A) | let r := fresh "r" in intros r [] ? ?; clear A; destruct r; cbn beta iota ] end
  end ].
Ltac nx_walk3 := repeat (first [ nx_flush | f_stif | nx_emit | wp_step nx_calls3 ]).

(* stop(): once the stopping flag is set the consumer stays "stopped or stopping" to the end *)
Ltac ps_cur st :=
  lazymatch goal with
  | B : Pst st = true |- _ => idtac
  | B : Pst _ = true |- _ => let B' := fresh "B" in assert (B' : Pst st = true) by (unfold Pst in *; psimpl; exact B); clear B
  end.
Ltac ps_after := let r := fresh "r" in let u := fresh "u" in let H := fresh "H" in
  intros r u ? H; destruct u; destruct r; cbn beta iota.
Ltac ps_leaf lem :=
  lazymatch goal with |- wp _ _ _ _ ?st => ps_cur st;
    eapply wp_call; [ eapply wp_conseq; [ apply leaf_of_nc; apply lem; try reflexivity
                                        | intros ? ? s2 HL; match goal with B : Pst st = true |- _ =>
                                            exact (proj1 (LF_NX _ _ HL) B) end ]
                    | ps_after; match goal with B : Pst st = true |- _ => clear B end ] end.
Ltac ps_rec :=
  lazymatch goal with |- wp _ (rec ?k) _ _ ?st => ps_cur st;
    eapply wp_call; [ eapply wp_conseq; [ apply (Hrec k st); first [ exact I | reflexivity ]
                                        | intros ? ? s2 HL; match goal with B : Pst st = true |- _ => exact (proj1 HL B) end ]
                    | ps_after; match goal with B : Pst st = true |- _ => clear B end ] end.
Lemma ps_handle_commit_error fk i a s : Pst s = true -> wu (handle_commit_error rec fk i a) (fun _ _ s' => Pst s' = true) tt s.
Proof.
  intro B. eapply wp_conseq; [ apply (x_handle_commit_error fk i a (nxt s) s s (NX_refl s)) |]. intros r u s' [H _]. auto.
Qed.
Lemma ps_fire_all ds cr s : Pst s = true -> wu (fire_all rec ds cr) (fun _ _ s' => Pst s' = true) tt s.
Proof. intro B. eapply wp_conseq; [ apply (x_fire_all ds cr (nxt s) s s (NX_refl s)) |]. intros r u s' [H _]. auto. Qed.
Lemma ps_stop_creq s : Pst s = true -> wu (stop_creq rec) (fun _ _ s' => Pst s' = true) tt s.
Proof. intro B. eapply wp_conseq; [ apply (x_stop_creq (nxt s) s s (NX_refl s)) |]. intros r u s' [H _]. auto. Qed.
Ltac ps_calls := idtac; lazymatch goal with
  | |- wp _ stop_rcall _ _ _ => ps_leaf n_stop_rcall
  | |- wp _ stop_ccall _ _ _ => ps_leaf n_stop_ccall
  | |- wp _ stop_looper _ _ _ => ps_leaf n_stop_looper
  | |- wp _ stop_susp _ _ _ => ps_leaf n_stop_susp
  | |- wp _ stop_req _ _ _ => ps_leaf n_stop_req
  | |- wp _ (stop_creq _) _ _ ?st => ps_cur st; eapply wp_call; [ apply ps_stop_creq; assumption | ps_after; match goal with B : Pst st = true |- _ => clear B end ]
  | |- wp _ (rec _) _ _ _ => ps_rec
  end.
Ltac ps_walk := repeat (first [ nx_emit | wp_step ps_calls ]).
Ltac ps_done := try solve [ match goal with B : Pst _ = true |- Pst _ = true => unfold Pst in *; psimpl; first [ exact B | reflexivity ] end ].

Lemma x_body_KStop s : wu (body rec KStop) (fun _ _ s' => NXt (nxt s) s s') tt s.
Proof.
  cbn [body]. apply wp_bind, wp_get. cbn beta iota. destruct (s_startd s) eqn:SD; [| apply wp_raise; apply NX_refl].
  apply wp_bind, wp_upd. cbn beta iota.
  assert (B : Pst (set_stopping true s) = true) by (unfold Pst; psimpl; apply orb_true_r).
  eapply wp_conseq with (Q := fun _ _ s' => Pst s' = true); [| intros r u s' H; split; [intros _; exact H | left; exact H]].
  unfold stop_mblock, stop_proc, stop_startd. ps_walk. all: ps_done.
Qed.

Lemma x_body_KStopCds s : wu (body rec KStopCds) (fun _ _ s' => NX s s') tt s.
Proof. cbn [body]. pose proof (NX_refl s) as A. nx_walk3. all: nx_done. Qed.
Lemma x_body_KFireProc fk s : wu (body rec (KFireProc fk)) (fun _ _ s' => NX s s') tt s.
Proof. cbn [body]. pose proof (NX_refl s) as A. nx_walk3. all: nx_done. Qed.
Lemma x_api_stop t s0 s : NXt t s0 s -> wu (api_stop rec) (fun _ _ s' => NXt t s0 s') tt s.
Proof. intro A. unfold api_stop. nx_walk3. all: nx_done. Qed.
Lemma x_api_commit t s0 s : NXt t s0 s -> wu api_commit (fun _ _ s' => NXt t s0 s') tt s.
Proof. intro A. unfold api_commit. nx_walk3. all: nx_done. Qed.
Lemma x_api_shutdown t s0 s : NXt t s0 s -> wu (api_shutdown rec) (fun _ _ s' => NXt t s0 s') tt s.
Proof.
  intro A. unfold api_shutdown. apply wp_bind, wp_get. cbn beta iota.
  destruct (negb (is_some (s_startd s)) || s_shutd s) eqn:SH0.
  - apply wp_bind, wu_emit. cbn beta iota. apply wu_emit. exact A.
  - apply wp_bind, wp_upd. cbn beta iota.
    match goal with |- wp _ _ _ _ ?x => set (s2 := x) end.
    assert (A2 : NXt t s0 s2) by (subst s2; destruct (s_maxatt s =? 0); unfold NXt, Pst, nxt in *; psimpl; exact A).
    clearbody s2. clear A.
    apply wp_bind, wp_try.
    eapply wp_call with (Q0 := fun _ _ s3 => NXt t s0 s3).
    { destruct (s_proc s) as [[[l rs] c]|].
      - apply wp_upd. unfold NXt, Pst, nxt in *; psimpl; exact A2.
      - eapply wp_conseq; [ apply (Hrec KCommitAndStop s2); exact I |]. intros ? ? s3 H. cbn [tgt] in H. eapply NX_trans; eauto. }
    intros r3 [] s3 A3. cbn beta iota. apply wp_bind, wp_get. cbn beta iota. apply wp_bind, wp_upd. cbn beta iota.
    match goal with |- wp _ _ _ _ ?x => set (s4 := x) end.
    assert (A4 : NXt t s0 s4) by (subst s4; unfold NXt, Pst, nxt in *; psimpl; exact A3).
    clearbody s4. clear A3.
    destruct r3.
    + apply wp_bind. nx_flush. apply wu_emit. exact A4.
    + apply wu_emit. exact A4.
Qed.
Lemma x_pop_plan t s0 s : NXt t s0 s -> wu pop_plan (fun _ _ s' => NXt t s0 s') tt s.
Proof. intro A. unfold pop_plan. nx_walk3. all: nx_done. Qed.
Ltac nx_lem lem :=
  lazymatch goal with |- wp _ _ _ _ ?st => nx_cur st;
    match goal with A : NXt ?t ?s0 st |- _ =>
      eapply wp_call; [ apply (lem t s0 st A) | let r := fresh "r" in intros r [] ? ?; clear A; destruct r; cbn beta iota ] end end.
Ltac nx_calls4 := idtac; first [ nx_calls3 | lazymatch goal with
  | |- wp _ (api_stop _) _ _ _ => nx_lem x_api_stop
  | |- wp _ api_commit _ _ _ => nx_lem x_api_commit
  | |- wp _ (api_shutdown _) _ _ _ => nx_lem x_api_shutdown
  | |- wp _ pop_plan _ _ _ => nx_lem x_pop_plan
  end ].
Ltac nx_walk4 := repeat (first [ nx_flush | f_stif | nx_emit | wp_step nx_calls4 ]).
Lemma x_body_KProcLoop msgs s : wu (body rec (KProcLoop msgs)) (fun _ _ s' => NX s s') tt s.
Proof. cbn [body]. pose proof (NX_refl s) as A. nx_walk4. all: nx_done. Qed.
Lemma x_body_KFetchResp offs ts s : parked s = false ->
  wu (body rec (KFetchResp offs ts)) (fun _ _ s' => NXt (snd (extract (s_foff s) offs)) s s') tt s.
Proof.
  intro NP. cbn [body]. apply wp_bind, wp_upd. cbn beta iota. apply wp_bind, wp_get. cbn beta iota. psimpl.
    unfold parked in NP. destruct (s_mblock s) as [[pk|]|] eqn:MB; [discriminate| |].
    + apply wp_upd. split; [intro H; exact H|]. right. unfold nxt. psimpl. reflexivity.
    + apply wp_bind, wp_upd. cbn beta iota. destruct (extract (s_foff s) offs) as [msgs foff'] eqn:EX. cbn [snd].
      apply wp_bind, wp_upd. cbn beta iota.
      assert (A : NXt foff' s (set_foff foff' (set_req None (set_att 1 (set_ridx 0 s))))).
      { split; [intro H; exact H|]. right. unfold nxt. psimpl. rewrite MB. reflexivity. }
      destruct ts; [ destruct (grow_buffer (s_buf s) (c_maxbuf (s_cf s))) as [b|] eqn:GB |].
      * nx_walk3. all: nx_done.
      * apply wp_bind. apply wp_bind. apply wp_try.
        eapply wp_call; [ eapply wp_conseq; [ apply leaf_of_nc; apply n_startd_errback; try reflexivity | intros ? ? ? HL; exact HL ] |].
        intros r [] s1 HL. cbn beta iota.
        assert (MB1 : s_mblock s1 = None) by (destruct HL as (_ & F2 & _); rewrite F2; psimpl; exact MB).
        apply LF_NX in HL. apply (NX_trans _ _ _ _ A) in HL. clear A. rename HL into A.
        apply wp_ret. cbn beta iota.
        nx_walk3. all: nx_done.
      * nx_walk3. all: nx_done.
Qed.
Lemma x_body_KCommitAndStop s : wu (body rec KCommitAndStop) (fun _ _ s' => NX s s') tt s.
Proof. cbn [body]. pose proof (NX_refl s) as A. nx_walk3. all: nx_done. Qed.
Lemma x_body_KShutFinish fk s : wu (body rec (KShutFinish fk)) (fun _ _ s' => NX s s') tt s.
Proof. cbn [body]. pose proof (NX_refl s) as A. nx_walk3. all: nx_done. Qed.
Lemma x_body_KFireCd d r s : wu (body rec (KFireCd d r)) (fun _ _ s' => NX s s') tt s.
Proof. cbn [body]. pose proof (NX_refl s) as A. nx_walk3. all: nx_done. Qed.
Lemma x_body_KDeliver r s : wu (body rec (KDeliver r)) (fun _ _ s' => NX s s') tt s.
Proof. cbn [body]. pose proof (NX_refl s) as A. nx_walk3. all: nx_done. Qed.

Lemma x_body k s : npre k s -> wu (body rec k) (fun _ _ s' => NXt (tgt k s) s s') tt s.
Proof.
  intro NP. destruct k; cbn [tgt].
  - apply x_body_KStop.
  - apply x_body_KStopCds.
  - apply x_body_KFireProc.
  - apply x_body_KProcLoop.
  - apply x_body_KFetchResp. exact NP.
  - apply x_body_KCommitAndStop.
  - apply x_body_KShutFinish.
  - apply x_body_KFireCd.
  - apply x_body_KDeliver.
Qed.
End Rec.

Lemma x_run fuel : forall k s, npre k s -> wu (run fuel k) (fun _ _ s' => NXt (tgt k s) s s') tt s.
Proof.
  induction fuel as [|f IH]; intros k s NP; cbn [run].
  - apply wu_of. intros r s' o E F. unfold bind, emit, raise in E. inversion E; subst. discriminate.
  - apply x_body; assumption.
Qed.

(* ---------------- the level of events ---------------- *)
(* an exception escaping _handle_fetch_response is never an OffsetOutOfRange failure *)
Lemma fetchresp_exc_kind fuel offs ts s :
  wu (run fuel (KFetchResp offs ts)) (fun r _ _ => forall k, r = Exc k -> is_oor k = false) tt s.
Proof.
  destruct fuel as [|f]; cbn [run].
  - apply wu_of. intros r s' o E F. unfold bind, emit, raise in E. inversion E; subst. discriminate.
  - cbn [body]. unfold startd_errback, retry_fetch.
    repeat (first [ nx_emit | wp_step ltac:(idtac; lazymatch goal with
      | |- wp _ (run _ _) _ _ _ => eapply wp_call; [ apply wu_of with (F := fun _ _ => True); auto | intros [] [] ? _; cbn beta iota ]
      end) ]).
    all: try solve [ intros ? [=] ]. all: intros ? [= <-]; reflexivity.
Qed.

Lemma n_handle_fetch_error_noreset fk g s : reset_off (s_cf s) = None -> wf (handle_fetch_error fk) (NC g s) g s.
Proof. intro NO. unfold handle_fetch_error. nc_walk n3. all: try congruence. all: nc_done. Qed.

(* what one event does to [nxt]: an accepted fetch reply moves it past the reply; a start, an accepted offset reply
   and an OffsetOutOfRange reset re-resolve it; everything else leaves it alone (or the consumer is stopped) *)
Definition HX (e : event) (s s' : state) : Prop :=
  match e with
  | EStart _ => s_startd s <> None -> NX s s'
  | EReqOk _ => offset_accepted s = false -> NX s s'
  | EReqFail fk => oor_reset s fk = false -> NX s s'
  | EFetchOk offs _ => if fetch_accepted s then NXt (snd (extract (s_foff s) offs)) s s' else NX s s'
  | _ => NX s s'
  end.

Ltac nx_calls_h := idtac; first [ nx_calls | lazymatch goal with
  | |- wp _ do_fetch _ _ _ => nx_leaf n_do_fetch
  | |- wp _ (send_commit_request _ _) _ _ _ => nx_leaf n_send_commit_request
  end ].
Ltac nx_walk_h := repeat (first [ nx_flush | f_stif | nx_emit | wp_step nx_calls_h ]).

Lemma x_handle fuel e s : kind_ok s = true -> wu (handle fuel e) (fun _ _ s' => HX e s s') tt s.
Proof.
  intro KO. pose proof (x_run fuel) as Hrec. pose proof (NX_refl s) as A.
  unfold handle. cbn zeta. apply wp_bind, wp_get. cbn beta iota.
  destruct e; cbn [HX].
  - (* EStart *) destruct (s_startd s) eqn:SD.
    + apply wu_emit. intros _. exact A.
    + apply wu_of. intros ? ? ? _ _ C. congruence.
  - apply (x_api_stop (run fuel) Hrec). exact A.
  - apply (x_api_shutdown (run fuel) Hrec). exact A.
  - apply x_api_commit. exact A.
  - (* EReqOk *) unfold offset_accepted. destruct (s_req s) as [[kd []]|] eqn:RQ; try (apply wu_emit; intros _; exact A).
    destruct ((kd =? R_OFFREQ) || (kd =? R_OFFFETCH)) eqn:KD; [| apply wu_emit; intros _; exact A ].
    apply wu_of. intros ? ? ? _ _ C. discriminate C.
  - (* EFetchOk *) unfold fetch_accepted. destruct (s_req s) as [[kd []]|] eqn:RQ; try (apply wu_emit; exact A).
    destruct (kd =? R_FETCH) eqn:KD; [| apply wu_emit; exact A ].
    assert (NP : parked s = false) by (apply not_parked_pending; [exact KO | unfold req_pending; rewrite RQ; reflexivity]).
    apply wp_bind, wp_upd. cbn beta iota. apply wp_bind, wp_try.
    eapply wp_call.
    { apply wp_and; [ apply (Hrec (KFetchResp offs ts)); cbn [npre]; unfold parked in *; psimpl; exact NP
                    | apply fetchresp_exc_kind ]. }
    intros r [] s1 [H1 H2]. cbn [tgt] in H1. psimpl. cbn beta iota.
    assert (A1 : NXt (snd (extract (s_foff s) offs)) s s1).
    { destruct H1 as [P1 P2]. split; [| exact P2]. intro P. apply P1. unfold Pst in *. psimpl. exact P. }
    clear H1 A. rename A1 into A.
    destruct r as [[]|k]; [ apply wp_ret; exact A |].
    specialize (H2 k eq_refl). apply wp_swallow.
    eapply wp_call; [ eapply wp_conseq; [ apply leaf_of_nc; apply n_handle_fetch_error; exact H2 | intros ? ? ? HL; exact (LF_NX _ _ HL) ] |].
    intros r [] s2 HL. eapply NX_trans; eauto.
  - (* EReqFail *) unfold oor_reset, fetch_accepted. destruct (s_req s) as [[kd []]|] eqn:RQ; try (apply wu_emit; intros _; exact A).
    apply wp_bind, wp_upd. cbn beta iota. apply wp_swallow.
    assert (A1 : NX s (set_req (Some (kd, true)) s)) by (unfold NXt, Pst, nxt; psimpl; auto).
    destruct (kd =? R_FETCH) eqn:KD.
    + destruct (is_oor fk) eqn:OR; [ destruct (reset_off (s_cf s)) eqn:RO |].
      * apply wu_of. intros ? ? ? _ _ C. discriminate C.
      * eapply wp_conseq; [ apply leaf_of_nc; apply n_handle_fetch_error_noreset; psimpl; exact RO |].
        intros ? ? ? HL _. eapply NX_trans; [ exact A1 | exact (LF_NX _ _ HL) ].
      * eapply wp_conseq; [ apply leaf_of_nc; apply n_handle_fetch_error; exact OR |].
        intros ? ? ? HL _. eapply NX_trans; [ exact A1 | exact (LF_NX _ _ HL) ].
    + eapply wp_conseq; [ apply leaf_of_nc; apply n_handle_offset_error |].
      intros ? ? ? HL _. eapply NX_trans; [ exact A1 | exact (LF_NX _ _ HL) ].
  - (* EPlan *) apply wp_upd. unfold NXt, Pst, nxt; psimpl; auto.
  - nx_walk_h. all: nx_done.
  - nx_walk_h. all: nx_done.
  - (* ECommitFail *) destruct (s_creq s) as [[[? ?] ?]|] eqn:CR; [| apply wu_emit; exact A ].
    apply wp_bind, wp_upd. cbn beta iota. apply wp_swallow.
    eapply wp_conseq; [ apply (x_handle_commit_error (run fuel) Hrec); unfold NXt, Pst, nxt in *; psimpl; exact A | auto ].
  - nx_walk_h. all: nx_done.
  - nx_walk_h. all: nx_done.
  - nx_walk_h. all: nx_done.
Qed.
