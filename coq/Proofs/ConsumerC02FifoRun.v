(* FIFO (what reaches the processor is what was extracted, in order, without loss while the consumer is alive) at the
   level of events and whole runs.  Uses: the PW simulation (state invariants 13 / 6), the REQ simulation (a parked
   reply implies its request Deferred fired), and b-consumer-a's reachable-state invariant (Proofs/ConsumerRun.v Reach:
   a stopped consumer has no request). *)
From Coq Require Import Lia.
From AV Require Import Base.Util Model.Consumer Model.ConsumerLog Model.ConsumerLogFifo Proofs.ConsumerC02Wp
  Proofs.ConsumerC02Req Proofs.ConsumerC02ReqRun Proofs.ConsumerC02Pw Proofs.ConsumerC02PwRun Proofs.ConsumerC02Fifo.
From AV Require Proofs.ConsumerInv Proofs.ConsumerRun.

(* what holds between two events *)
Definition Top (n0 : Z) (g : list Z) (s : state) : Prop :=
  ConsumerRun.Reach n0 s /\ JJ s /\ kind_ok s = true /\ C [] g s.

Lemma not_parked_pending s : kind_ok s = true -> req_pending s = true -> parked s = false.
Proof.
  unfold kind_ok, req_pending, parked. intros K P. destruct (s_req s) as [[k []]|]; try discriminate P.
  destruct (s_mblock s) as [[[? ?]|]|]; auto. cbn in K. rewrite !andb_false_r in K. cbn in K.
  repeat (apply andb_prop in K; destruct K as [K ?]). discriminate.
Qed.
Lemma not_parked_stopped n0 s : ConsumerRun.Reach n0 s -> kind_ok s = true -> s_startd s = None -> parked s = false.
Proof.
  intros ((HJ & _) & _) K SD. destruct (parked s) eqn:P; [| reflexivity].
  destruct (ConsumerInv.j6 _ _ HJ SD) as [RN _]. destruct (ConsumerInv.j1 _ _ HJ P) as [RQ _]. rewrite RN in RQ. discriminate RQ.
Qed.
Lemma pext_np s : parked s = false -> pext s = [].
Proof. unfold parked, pext. destruct (s_mblock s) as [[[? ?]|]|]; auto. discriminate. Qed.

(* ---- leaves used by the event handlers only ---- *)
Lemma e_do_fetch g s : JJ s -> wf do_fetch (EL g s) g s.
Proof. apply e_of_pf; [intros; apply p_do_fetch; auto | apply n_do_fetch]. Qed.
Lemma e_send_commit_request i a g s : JJ s -> wf (send_commit_request i a) (EL g s) g s.
Proof. apply e_of_pf; [intros; apply p_send_commit_request; auto | apply n_send_commit_request]. Qed.
Lemma e_handle_offset_error fk g s : JJ s -> wf (handle_offset_error fk) (EL g s) g s.
Proof. apply e_of_pf; [intros; apply p_handle_offset_error; auto | apply n_handle_offset_error]. Qed.

(* a fetch error may reset the fetch offset (OffsetOutOfRange with a reset policy): harmless when no reply is parked *)
Definition ELnp (g : list Z) (s : state) {A} : res A -> list Z -> state -> Prop :=
  fun _ g' s' => g' = g /\ JJ s' /\ Fp s s' /\ mono s s'.
Lemma n2_handle_fetch_error fk g s :
  wf (handle_fetch_error fk) (fun _ g' s' => g' = g /\ s_shutting s' = s_shutting s) g s.
Proof.
  unfold handle_fetch_error.
  repeat (first [ f_stif | f_emit | wp_step ltac:(idtac; lazymatch goal with
    | |- wp _ (startd_errback _) _ _ _ => eapply wp_call; [ apply n_startd_errback | intros r ? ? [-> [? [? ?]]]; destruct r; cbn beta iota ]
    | |- wp _ (retry_fetch _) _ _ _ => eapply wp_call; [ apply n_retry_fetch | intros r ? ? [-> [? [? ?]]]; destruct r; cbn beta iota ]
    end) ]).
  all: split; [ reflexivity | psimpl; congruence ].
Qed.
Lemma e_handle_fetch_error fk g s : JJ s -> wf (handle_fetch_error fk) (ELnp g s) g s.
Proof.
  intro K. eapply wp_conseq.
  - eapply (wp_strengthen _ _ _ (fun r s' => PInv (dead s, false) None s' /\ Fp s s')); [| apply n2_handle_fetch_error].
    intros r s' o E F. destruct (p_handle_fetch_error fk _ None s (JJ_mode _ K) r s' o E F) as (gp & _ & ((_ & HP) & FP & _)). split; auto.
  - intros r g' s' [[-> HS] [HP FP]]. unfold ELnp. split; [reflexivity|]. split; [eapply mode_JJ; eauto|]. split; [exact FP|].
    eapply mode_mono; eauto.
Qed.
Lemma Rel_leaf_np {A} q s0 g0 s g (r : res A) g' s' : Relq q s0 g0 s g -> parked s = false -> ELnp g s r g' s' -> Relq q s0 g0 s' g'.
Proof.
  intros (K & M & G & Hc) NP (-> & K' & (F1 & F2 & _) & M'). split; [exact K' | split; [| split]].
  - intro D. apply M', M, D.
  - exact G.
  - intro D. rewrite (Hc (alive_back _ _ M' D)). unfold queued. rewrite F1.
    rewrite (pext_np s NP). rewrite (pext_np s'); [reflexivity|]. unfold parked in *. rewrite F2. exact NP.
Qed.
(* an explicit change of the fetch offset while no reply is parked *)
Lemma Rel_foff q s0 g0 s g v : Relq q s0 g0 s g -> parked s = false -> Relq q s0 g0 (set_foff v s) g.
Proof.
  intros (K & M & G & Hc) NP. split; [clear - K; psolve | split; [| split]].
  - exact M.
  - exact G.
  - intro D. change (dead2 s = false) in D. rewrite (Hc D). unfold queued. psimpl.
    rewrite (pext_np s NP). rewrite (pext_np (set_foff v s)); [reflexivity | exact NP].
Qed.

Section Ev.
Variable n0 : Z.
Variable fuel : nat.
Notation rec := (run fuel).
Let HrecE := f_run fuel.

Ltac r_rec_ev :=
  lazymatch goal with
  | |- wp _ (run fuel ?k) _ ?g ?st =>
    cur_rel st;
    match goal with
    | R : Rel ?s0 ?g0 st g |- _ =>
      eapply (E_rec rec HrecE k s0 g0 st g); [ exact I | exact R
                                             | let r := fresh "r" in let H := fresh "R" in intros r ? ? H; clear R; destruct r; cbn beta iota ]
    end
  end.
Ltac r_np_leaf lem :=
  lazymatch goal with
  | |- wp _ _ _ ?g ?st =>
    cur_rel st;
    match goal with
    | R : Relq ?q ?s0 ?g0 st g |- _ =>
      eapply wp_call; [ eapply lem; exact (proj1 R)
                      | let r := fresh "r" in let H := fresh "H" in
                        intros r ? ? H; apply (Rel_leaf_np _ _ _ _ _ _ _ _ R) in H; [ clear R; destruct r; cbn beta iota | ] ]
    end
  end.
Ltac ev_calls := idtac; lazymatch goal with
  | |- wp _ (startd_errback _) _ _ _ => r_leaf e_startd_errback
  | |- wp _ do_fetch _ _ _ => r_leaf e_do_fetch
  | |- wp _ (retry_fetch _) _ _ _ => r_leaf e_retry_fetch
  | |- wp _ (handle_offset_error _) _ _ _ => r_leaf e_handle_offset_error
  | |- wp _ (handle_auto_commit_error _) _ _ _ => r_leaf e_handle_auto_commit_error
  | |- wp _ (send_commit_request _ _) _ _ _ => r_leaf e_send_commit_request
  | |- wp _ (commit _) _ _ _ => r_leaf e_commit
  | |- wp _ (auto_commit _) _ _ _ => r_leaf e_auto_commit
  | |- wp _ (handle_commit_error _ _ _ _) _ ?g ?st =>
    cur_rel st; match goal with R : Rel ?s0 ?g0 st g |- _ =>
      eapply wp_call; [ apply (f_handle_commit_error rec HrecE _ _ _ s0 g0 st g R)
                      | let r := fresh "r" in let H := fresh "R" in intros r ? ? H; clear R; destruct r; cbn beta iota ] end
  | |- wp _ (run fuel (KProcLoop _)) _ _ _ => fail
  | |- wp _ (run fuel (KFetchResp _ _)) _ _ _ => fail
  | |- wp _ (run fuel _) _ _ _ => r_rec_ev
  end.
(* outcomes held back until an API call returns are start / shutdown outcomes *)
Lemma neutral_fifo l g : forallb pw_neutral l = true -> gouts fifo_out g l = Some g.
Proof.
  induction l as [|x l IH]; cbn [forallb gouts]; [reflexivity|]. intro H. apply andb_prop in H. destruct H as [H1 H2].
  destruct x; try discriminate H1; cbn [fifo_out]; auto.
Qed.
Lemma JJ_pend s : JJ s -> forallb pw_neutral (s_pend s) = true.
Proof. unfold PInv. intro K. repeat (apply andb_prop in K; destruct K as [K ?]). assumption. Qed.
Ltac ev_flush :=
  lazymatch goal with
  | |- wp _ (fun s' : state => (Ok tt, s', [])) _ ?g _ =>
    apply wp_emits; exists g; split; [ reflexivity | cbn beta iota ]
  | |- wp _ (fun s' : state => (Ok tt, s', s_pend ?x)) _ ?g _ =>
    apply wp_emits; exists g; split;
    [ apply neutral_fifo; first [ assumption | match goal with R : Relq _ _ _ x _ |- _ => apply JJ_pend; exact (proj1 R) end ]
    | cbn beta iota ]
  end.
Ltac ev_walk := repeat (first [ ev_flush | f_stif | f_emit | wp_step ev_calls ]).
Ltac ev_done := try solve [ match goal with R : Relq [] ?s0 ?g0 _ _ |- C [] ?g ?st => let R' := fresh in
                              assert (R' : Relq [] s0 g0 st g) by (first [ exact R | relupd ]); exact (proj2 (proj2 (proj2 R'))) end ].

Lemma fe_handle e g s : Top n0 g s ->
  wf (handle fuel e) (fun _ g' s' => C [] g' s') (fifo_ev g s e) s.
Proof.
  intros (HR & K & KO & Hc). pose proof (Rel_refl s g K Hc) as R.
  unfold handle. destruct e; cbn [fifo_ev].
  all: unfold handle_offset_response, flush_pend, api_commit, api_shutdown, api_stop.
  - (* EStart *) apply wp_bind, wp_get. cbn beta iota. destruct (s_startd s) eqn:SD; cbn [is_none is_some negb].
    + ev_walk. all: ev_done.
    + (* accepted: a new life; nothing of the old one is queued or parked *)
      apply wp_bind, wp_upd. cbn beta iota. clear R.
      set (s1 := set_inapi 1 (set_foff off (set_startd (Some false) s))).
      assert (K1 : JJ s1) by (subst s1; clear - K SD; psolve).
      assert (C1 : C [] [] s1).
      { intros _. subst s1. unfold queued, pext. psimpl.
        assert (PN : s_proc s = None) by (clear - K SD; unfold PInv, inv6b in K; rewrite SD in K; cbn in K;
                                          repeat (apply andb_prop in K; destruct K as [K ?]); destruct (s_proc s); [discriminate | reflexivity]).
        rewrite PN. pose proof (not_parked_stopped _ _ HR KO SD) as NP. unfold parked in NP.
        destruct (s_mblock s) as [[[? ?]|]|]; [discriminate NP | reflexivity | reflexivity]. }
      pose proof (Rel_refl s1 [] K1 C1) as R. clearbody s1.
      ev_walk. all: ev_done.
  - (* EStop *) ev_walk. all: ev_done.
  - (* EShutdown: from its flag on the consumer hands nothing more to the processor *)
    apply wp_bind, wp_get. cbn beta iota. apply wp_bind, wp_get. cbn beta iota.
    destruct (negb (is_some (s_startd s)) || s_shutd s) eqn:D; cbn beta iota; [ ev_walk; ev_done |].
    apply wp_bind, wp_upd. cbn beta iota.
    match goal with |- wp _ _ _ _ ?x => set (s1 := x) end.
    assert (SH1 : s_shutting s1 = true) by (subst s1; psimpl; destruct (s_maxatt s =? 0); reflexivity).
    assert (K1 : JJ s1) by (subst s1; clear - K; psimpl; destruct (s_maxatt s =? 0); psolve).
    assert (D21 : dead2 s1 = true) by (unfold dead2; rewrite SH1; apply orb_true_r).
    assert (SP1 : s_proc s1 = s_proc s) by (subst s1; psimpl; destruct (s_maxatt s =? 0); reflexivity).
    assert (R1 : Rel s g s1 g).
    { split; [exact K1 | split; [| split]]; [ intros _; exact D21 | auto | apply C_dead; exact D21 ]. }
    assert (NPs : forallb pw_neutral (s_pend s) = true) by (apply JJ_pend; exact K).
    clear R. clearbody s1.
    apply wp_bind, wp_try.
    assert (AFTER : forall (r1 : res unit) g2 s2, Rel s g s2 g2 ->
              wf (s3 <- get;; upd (fun s' => set_pend (s_pend s) (set_inapi (s_inapi s) s'));;;
                  match r1 with
                  | Ok _ => (fun s' : state => (Ok tt, s', s_pend s3));;; emit (ORet 0)
                  | Exc k => emit (ORaised k)
                  end) (fun _ g' s' => C [] g' s') g2 s2).
    { intros r1 g2 s2 R2. apply wp_bind, wp_get. cbn beta iota. apply wp_bind, wp_upd. cbn beta iota.
      assert (R3 : Rel s g (set_pend (s_pend s) (set_inapi (s_inapi s) s2)) g2).
      { destruct R2 as (K2 & M2 & G2 & C2). split; [clear - K2 NPs; psolve | split; [| split]].
        - exact M2.
        - exact G2.
        - intro D0. change (dead2 s2 = false) in D0. rewrite (C2 D0). reflexivity. }
      destruct r1.
      - apply wp_bind. apply wp_emits. exists g2. split; [apply neutral_fifo, JJ_pend; exact (proj1 R2)|]. cbn beta iota.
        apply wp_emit. eexists. split; [reflexivity|]. exact (proj2 (proj2 (proj2 R3))).
      - apply wp_emit. eexists. split; [reflexivity|]. exact (proj2 (proj2 (proj2 R3))). }
    destruct (s_proc s) as [[[l rs] c]|] eqn:SP.
    + apply wp_upd. cbn beta iota. apply (AFTER (Ok tt)).
      destruct R1 as (K1' & M1 & G1 & C1). split; [clear - K1 SP1 SP; psolve | split; [| split]].
      * exact M1.
      * exact G1.
      * apply C_dead. exact D21.
    + eapply (E_rec rec HrecE KCommitAndStop s g s1 g); [exact I | exact R1 |].
      intros r1 g2 s2 R2. cbn beta iota. apply (AFTER r1). exact R2.
  - (* ECommit *) ev_walk. all: ev_done.
  - (* EReqOk: the start position is (re)resolved; no reply is parked while a request is outstanding *)
    apply wp_bind, wp_get. cbn beta iota.
    destruct (s_req s) as [[kd []]|] eqn:RQ; [ ev_walk; ev_done | | ev_walk; ev_done ].
    assert (NP : parked s = false) by (apply not_parked_pending; [exact KO | unfold req_pending; rewrite RQ; reflexivity]).
    destruct ((kd =? R_OFFREQ) || (kd =? R_OFFFETCH)); [| ev_walk; ev_done ].
    apply wp_bind, wp_upd. cbn beta iota. apply wp_swallow. apply wp_bind, wp_upd. cbn beta iota. apply wp_bind, wp_get. cbn beta iota.
    set (s1 := set_att 1 (set_ridx 0 (set_req None (set_req (Some (kd, true)) s)))).
    assert (R1 : Rel s g s1 g) by (subst s1; relupd).
    assert (NP1 : parked s1 = false) by exact NP.
    clear R. clearbody s1.
    assert (FIN : forall s2, Rel s g s2 g -> wf do_fetch (fun _ g' s' => C [] g' s') g s2).
    { intros s2 R2. eapply wp_call; [ apply (e_do_fetch g s2 (proj1 R2)) |].
      intros r3 g3 s3 H. exact (proj2 (proj2 (proj2 (Rel_leaf _ _ _ _ _ _ _ _ R2 H)))). }
    destruct (kd =? R_OFFREQ).
    + apply wp_bind, wp_upd. cbn beta iota. apply FIN. apply Rel_foff; assumption.
    + destruct (v =? -1).
      * apply wp_bind, wp_upd. cbn beta iota. apply FIN. apply Rel_foff; assumption.
      * apply wp_bind, wp_upd. cbn beta iota. apply FIN.
        assert (R2 : Rel s g (set_foff (v + 1) s1) g) by (apply Rel_foff; assumption). relupd.
  - (* EFetchOk: an accepted reply is extracted at the current fetch offset (now, or when the block in progress ends) *)
    apply wp_bind, wp_get. cbn beta iota. unfold fetch_accepted.
    destruct (s_req s) as [[kd []]|] eqn:RQ; [ ev_walk; ev_done | | ev_walk; ev_done ].
    destruct (kd =? R_FETCH) eqn:KD; [| ev_walk; ev_done ].
    assert (NP : parked s = false) by (apply not_parked_pending; [exact KO | unfold req_pending; rewrite RQ; reflexivity]).
    apply wp_bind, wp_upd. cbn beta iota. apply wp_bind, wp_try.
    set (s1 := set_req (Some (kd, true)) s). set (g1 := g ++ fst (extract (s_foff s) offs)).
    assert (K1 : JJ s1) by (subst s1; clear - K; psolve).
    eapply wp_call.
    { eapply (wp_strengthen _ _ _ (fun r s2 => forall x, r = Exc x -> parked s2 = false)).
      - intros r2 s2 o2 E2 F2. exact (proj2 (fetchresp_exc _ _ _ _ _ _ _ E2 F2)).
      - apply (HrecE (KFetchResp offs ts) g1 s1). split; [exact K1|]. split; [exact NP|].
        intro D. change (dead2 s = false) in D. subst g1. rewrite (Hc D), (pext_np s NP). subst s1. unfold queued. psimpl.
        rewrite app_nil_r. reflexivity. }
    intros r2 g2 s2 [[R2 _] NP2]. cbn beta iota. destruct r2 as [|k].
    + apply wp_ret. exact (proj2 (proj2 (proj2 R2))).
    + apply wp_swallow. eapply wp_call; [ apply (e_handle_fetch_error k g2 s2 (proj1 R2)) |].
      intros r3 g3 s3 H. exact (proj2 (proj2 (proj2 (Rel_leaf_np _ _ _ _ _ _ _ _ R2 (NP2 k eq_refl) H)))).
  - (* EReqFail *)
    apply wp_bind, wp_get. cbn beta iota.
    destruct (s_req s) as [[kd []]|] eqn:RQ; [ ev_walk; ev_done | | ev_walk; ev_done ].
    assert (NP : parked s = false) by (apply not_parked_pending; [exact KO | unfold req_pending; rewrite RQ; reflexivity]).
    apply wp_bind, wp_upd. cbn beta iota. apply wp_swallow.
    assert (R1 : Rel s g (set_req (Some (kd, true)) s) g) by relupd.
    destruct (kd =? R_FETCH).
    + eapply wp_call; [ apply (e_handle_fetch_error fk g _ (proj1 R1)) |].
      intros r3 g3 s3 H. exact (proj2 (proj2 (proj2 (Rel_leaf_np _ _ _ _ _ _ _ _ R1 NP H)))).
    + eapply wp_call; [ apply (e_handle_offset_error fk g _ (proj1 R1)) |].
      intros r3 g3 s3 H. exact (proj2 (proj2 (proj2 (Rel_leaf _ _ _ _ _ _ _ _ R1 H)))).
  - (* EPlan *) ev_walk. all: ev_done.
  - (* EProcFire *) ev_walk. all: ev_done.
  - (* ECommitOk *) ev_walk. all: ev_done.
  - (* ECommitFail *) ev_walk. all: ev_done.
  - (* EFireRetry *) ev_walk. all: ev_done.
  - (* EFireCommitRetry *) ev_walk. all: ev_done.
  - (* ETick *) ev_walk. all: ev_done.
Qed.


Lemma fe_step e g s s' o : Top n0 g s -> step fuel s e = (s', o) -> fuel_ok o = true ->
  exists g', gouts fifo_out (fifo_ev g s e) o = Some g' /\ Top n0 g' s'.
Proof.
  intros T E F. pose proof T as (HR & K & KO & Hc).
  pose proof (ConsumerRun.reach_step n0 fuel s e s' o HR E F) as HR'.
  destruct (pe_step fuel s e s' o K E F) as [_ K'].
  destruct (q_step fuel s e s' o KO E F) as [_ KO'].
  unfold step in E.
  destruct ((handle fuel e;;; s'0 <- get;; emit (OEnd (s_lp s'0) (s_lc s'0))) s) as [[r s1] o1] eqn:E1.
  inversion E; subst s1 o1; clear E.
  assert (W : wf (handle fuel e;;; s'0 <- get;; emit (OEnd (s_lp s'0) (s_lc s'0))) (fun _ g' s2 => C [] g' s2) (fifo_ev g s e) s).
  { apply wp_bind. eapply wp_call; [ apply fe_handle; exact T |].
    intros r0 g' s0 H0. destruct r0; cbn beta iota; [| exact H0].
    apply wp_bind, wp_get. cbn beta iota. apply wp_emit. eexists. split; [reflexivity | exact H0]. }
  destruct (W _ _ _ E1 F) as (g' & Hg & Hc'). exists g'. split; [exact Hg|].
  split; [exact HR' | split; [exact K' | split; [exact KO' | exact Hc']]].
Qed.
End Ev.

Lemma Top_init c m b : 0 <= c_acn c -> Top m [] (init c m b).
Proof.
  intro A. split; [apply ConsumerRun.reach_init|]. split; [apply J_init; exact A|]. split; [reflexivity|].
  intros _. reflexivity.
Qed.

(* the monitor FIFO accepts every run of the model; and whenever the consumer is alive, what FIFO still expects is
   exactly what the model holds extracted (the rest of the block in progress and the parked reply): nothing is lost *)
Theorem fifo_monitor_accepts fuel c maxatt buf evs :
  0 <= c_acn c -> run_fuel_ok fuel c maxatt buf evs = true ->
  exists g, mon_run_s fifo_ev fifo_out [] (run_steps fuel (init c maxatt buf) evs) = Some g
            /\ let s := fst (run_events fuel (init c maxatt buf) evs) in
               dead2 s = false -> g = queued s ++ pext s.
Proof.
  intros A F. unfold run_fuel_ok in F.
  assert (GEN : forall evs s g, Top maxatt g s ->
            forallb (fun t => match t with (_, _, o, _) => fuel_ok o end) (run_steps fuel s evs) = true ->
            exists g', mon_run_s fifo_ev fifo_out g (run_steps fuel s evs) = Some g' /\ Top maxatt g' (fst (run_events fuel s evs))).
  { clear. induction evs as [|e evs IH]; intros s g T F; cbn [run_steps run_events mon_run_s fst].
    - eauto.
    - cbn [run_steps] in F. destruct (step fuel s e) as [s1 o1] eqn:E. cbn [forallb] in F.
      apply andb_prop in F. destruct F as [F1 F2].
      destruct (fe_step maxatt fuel e g s s1 o1 T E F1) as (g1 & Hg & T1). cbn [mon_run_s]. rewrite Hg.
      destruct (IH s1 g1 T1 F2) as (g2 & Hm & T2). exists g2. split; [exact Hm|].
      destruct (run_events fuel s1 evs) as [s2 o2]. exact T2. }
  destruct (GEN evs _ _ (Top_init c maxatt buf A) F) as (g & Hm & (_ & _ & _ & Hc)).
  exists g. split; [exact Hm|]. cbn zeta. intro D. apply (Hc D).
Qed.

