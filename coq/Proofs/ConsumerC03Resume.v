(* Resume from the committed position: a fresh consumer started with OFFSET_COMMITTED asks the coordinator, and on the
   answer v (the stored offset) fetches from v + 1; against an honest broker what it hands to the processor from then
   on is the log from the first entry above v, every entry once, in order (joined to monitor LOG of C02). *)
From Coq Require Import Lia.
From AV Require Import Base.Util Model.Consumer Model.ConsumerLog Model.ConsumerLogFifo Model.ConsumerLogSeg Model.ConsumerLogC03
  Proofs.ConsumerC02Wp Proofs.ConsumerC02Req Proofs.ConsumerC02Fifo Proofs.ConsumerC02FifoRun Proofs.ConsumerC02Next Proofs.ConsumerC02Log.
From AV Require Proofs.ConsumerRun Proofs.ConsumerInv.

Lemma resume_first_step fuel c m b : c_group c = true ->
  step fuel (init c m b) (EStart OFF_COMMITTED)
  = (set_looper (if c_acs c then Some true else None) (set_req (Some (R_OFFFETCH, false)) (set_foff OFF_COMMITTED (set_startd (Some false) (init c m b)))),
     [OOffFetch] ++ (if c_acs c then [OSched T_LOOPER (-1)] else []) ++ [ORet 0; OEnd None None]).
Proof.
  intro G. destruct c as [g acn acs rs mb gen]. cbn in G. subst g. destruct acs; reflexivity.
Qed.

Definition after_start (c : cfg) (m b : Z) : state :=
  set_looper (if c_acs c then Some true else None) (set_req (Some (R_OFFFETCH, false)) (set_foff OFF_COMMITTED (set_startd (Some false) (init c m b)))).

Lemma resume_second_step fuel c m b v : 0 <= v ->
  step fuel (after_start c m b) (EReqOk v)
  = (set_req (Some (R_FETCH, false)) (set_lc (Some v) (set_foff (v + 1) (after_start c m b))),
     [OFetch (v + 1) b; OEnd None (Some v)]).
Proof.
  intros V. destruct c as [g acn acs rs mb gen]. unfold after_start, init. cbn [c_acs].
  destruct v as [|p|p]; [ | | lia ]; destruct acs; reflexivity.
Qed.

(* the coordinator has nothing stored (-1): the position is resolved by the auto_offset_reset policy instead *)
Lemma resume_none_step fuel c m b :
  snd (step fuel (after_start c m b) (EReqOk (-1)))
  = [OOffReq (if c_reset c =? 2 then OFF_LATEST else OFF_EARLIEST); OEnd None None].
Proof.
  destruct c as [g acn acs rs mb gen]. unfold after_start, init. cbn [c_acs c_reset].
  destruct rs as [|[[p|p|]|[p|p|]|]|p]; destruct acs; reflexivity.
Qed.

(* ---------- joined to LOG ---------- *)
(* the events that re-resolve the position (the permitted discontinuities of LOG) *)
Definition resolving (s : state) (e : event) : bool :=
  match e with
  | EStart _ => is_none (s_startd s)
  | EReqOk _ => offset_accepted s
  | EReqFail fk => oor_reset s fk
  | _ => false
  end.
Definition no_resolve (tr : list tstep) : bool :=
  forallb (fun t => match t with (s, e, _, _) => negb (resolving s e) end) tr.

Lemma log_out_fields gh o gh' : log_out gh o = Some gh' ->
  l_nx gh' = l_nx gh /\ l_st gh' = l_st gh /\ l_E gh' = l_E gh /\ l_old gh' = l_old gh.
Proof.
  destruct o; cbn [log_out]; intro H; try solve [inversion H; subst; auto].
  - destruct (l_nx gh) as [n|]; [destruct (off =? n)|]; inversion H; subst; cbn; auto.
  - destruct (fifo_out (l_g gh) (OCallProc offs)); inversion H; subst; cbn; auto.
Qed.
Lemma gouts_log_fields o : forall gh gh', gouts log_out gh o = Some gh' ->
  l_nx gh' = l_nx gh /\ l_st gh' = l_st gh /\ l_E gh' = l_E gh /\ l_old gh' = l_old gh.
Proof.
  induction o as [|x o IH]; intros gh gh' H; cbn [gouts] in H.
  - inversion H; subst; auto.
  - destruct (log_out gh x) as [g1|] eqn:E; [|discriminate H].
    destruct (log_out_fields _ _ _ E) as (A1 & A2 & A3 & A4). destruct (IH _ _ H) as (B1 & B2 & B3 & B4).
    repeat split; congruence.
Qed.

(* since the position was resolved to t and as long as nothing re-resolves it: nothing was extracted before, and the
   segment LOG compares with the log starts at t *)
Definition RS (t : Z) (gh : glog) (s : state) : Prop :=
  l_old gh = [] /\
  match l_nx gh with
  | None => l_E gh = [] /\ (Pst s = false -> nxt s = t)
  | Some _ => l_st gh = t
  end.

Section Res.
Variables (n0 : Z) (fuel : nat) (L : list Z) (hon : Prop) (t : Z).

Lemma rs_step gh s e s' o gh' : LInv n0 L hon gh s -> RS t gh s -> resolving s e = false ->
  step fuel s e = (s', o) -> fuel_ok o = true -> gouts log_out (log_ev gh s e) o = Some gh' -> RS t gh' s'.
Proof.
  intros (T & F & K & OK) (O & R) NR E Fo G. pose proof T as (HR & _ & KO & _).
  destruct (gouts_log_fields _ _ _ G) as (G1 & G2 & G3 & G4).
  cut (RS t (log_ev gh s e) s'); [ unfold RS; rewrite G1, G2, G3, G4; auto |]. clear G1 G2 G3 G4 G.
  pose proof (x_step fuel s e s' o KO E Fo) as H.
  assert (KEEP : NX s s' -> log_ev gh s e = gh -> RS t (log_ev gh s e) s').
  { intros [P1 P2] ->. split; [exact O|]. destruct (l_nx gh); [exact R|]. destruct R as [R1 R2]. split; [exact R1|].
    intro PS. destruct P2 as [P2|P2]; [congruence|]. rewrite P2. apply R2.
    destruct (Pst s) eqn:PS0; [rewrite (P1 eq_refl) in PS; discriminate PS | reflexivity]. }
  destruct e; cbn [resolving] in NR; cbn [HX] in H; try (apply KEEP; [exact H | reflexivity]).
  - (* EStart *) apply KEEP; [| cbn [log_ev]; rewrite NR; reflexivity ].
    apply H. unfold is_none in NR. destruct (s_startd s); [discriminate | discriminate NR].
  - (* EReqOk *) apply KEEP; [ apply H; exact NR | cbn [log_ev]; rewrite NR; reflexivity ].
  - (* EFetchOk *) destruct (fetch_accepted s) eqn:A; [| apply KEEP; [exact H | cbn [log_ev]; rewrite A; reflexivity] ].
    cbn [log_ev]. rewrite A.
    unfold RS. destruct (l_nx gh) as [n|] eqn:NXh; cbn [l_old l_nx l_st l_E].
    + split; [exact O | exact R].
    + destruct R as [R1 R2]. split; [rewrite O, R1; reflexivity|].
      destruct (fetch_accepted_req _ A) as [RN RP].
      rewrite (F A), <- (nxt_np _ (not_parked_pending _ KO RP)). apply R2. apply (alive_req n0 _ HR RN).
  - (* EReqFail *) apply KEEP; [ apply H; exact NR | cbn [log_ev]; rewrite NR; reflexivity ].
Qed.

Hypothesis HL : increasing L.
Lemma rs_run : forall evs s gh, LInv n0 L hon gh s -> RS t gh s ->
  forallb (fun t => match t with (_, _, o, _) => fuel_ok o end) (run_steps fuel s evs) = true ->
  no_resolve (run_steps fuel s evs) = true ->
  (hon -> honest_run L (l_last gh) (run_steps fuel s evs)) ->
  exists gh', mon_run_s log_ev log_out gh (run_steps fuel s evs) = Some gh' /\ log_okh L hon gh'
              /\ RS t gh' (fst (run_events fuel s evs)).
Proof.
  induction evs as [|e evs IH]; intros s gh I R F NR Hon; cbn [run_steps run_events mon_run_s fst].
  - destruct I as (_ & _ & _ & OK). eauto.
  - cbn [run_steps] in F, NR, Hon. destruct (step fuel s e) as [s1 o1] eqn:E. cbn [forallb honest_run no_resolve] in F, NR, Hon.
    apply andb_prop in F. destruct F as [F1 F2]. apply andb_prop in NR. destruct NR as [NR1 NR2].
    apply negb_true_iff in NR1.
    destruct (log_step n0 fuel L HL hon gh s e s1 o1 I E F1) as (gh1 & Hg & I1 & L1).
    { intro h. destruct (Hon h) as [H1 _]. destruct e; cbn [honest_step]; auto. }
    pose proof (rs_step _ _ _ _ _ _ I R NR1 E F1 Hg) as R1.
    cbn [mon_run_s]. rewrite Hg.
    destruct (IH s1 gh1 I1 R1 F2 NR2) as (gh2 & H2 & OK2 & R2). { intro h. rewrite L1. apply (Hon h). }
    rewrite H2. destruct (run_events fuel s1 evs) as [s2 o2]. cbn [fst] in *. eauto.
Qed.
End Res.

(* the state of a fresh consumer after start(OFFSET_COMMITTED) and the coordinator's answer v *)
Definition resumed (c : cfg) (m b v : Z) : state :=
  set_req (Some (R_FETCH, false)) (set_lc (Some v) (set_foff (v + 1) (after_start c m b))).

Theorem resume_run fuel c maxatt buf v rest L :
  c_group c = true -> 0 <= c_acn c -> 0 <= v -> increasing L ->
  run_fuel_ok fuel c maxatt buf (EStart OFF_COMMITTED :: EReqOk v :: rest) = true ->
  honest_run L 0 (run_steps fuel (init c maxatt buf) (EStart OFF_COMMITTED :: EReqOk v :: rest)) ->
  no_resolve (run_steps fuel (resumed c maxatt buf v) rest) = true ->
  exists gh, mon_run_s log_ev log_out log0 (run_steps fuel (init c maxatt buf) (EStart OFF_COMMITTED :: EReqOk v :: rest)) = Some gh
             /\ l_D gh ++ l_g gh = l_E gh
             /\ (forall n, l_nx gh = Some n -> v + 1 <= n /\ l_E gh = seg (v + 1) n L)
             /\ (l_nx gh = None -> l_D gh = [] /\ l_g gh = []).
Proof.
  intros G A V HL F Hon NR. unfold run_fuel_ok in F. cbn [run_steps] in *.
  rewrite (resume_first_step fuel c maxatt buf G) in *. fold (after_start c maxatt buf) in *.
  rewrite (resume_second_step fuel c maxatt buf v V) in *. fold (resumed c maxatt buf v) in *.
  set (o1 := [OOffFetch] ++ (if c_acs c then [OSched T_LOOPER (-1)] else []) ++ [ORet 0; OEnd None None]) in *.
  set (o2 := [OFetch (v + 1) buf; OEnd None (Some v)]) in *.
  cbn [forallb] in F. apply andb_prop in F. destruct F as [F1 F]. apply andb_prop in F. destruct F as [F2 F3].
  cbn [honest_run] in Hon. destruct Hon as (_ & _ & Hon).
  destruct (log_step maxatt fuel L HL True log0 _ _ _ _ (LInv_init c maxatt buf L True A) (resume_first_step fuel c maxatt buf G) F1)
    as (gh1 & Hg1 & I1 & L1); [intros _; exact I|].
  fold (after_start c maxatt buf) in *.
  destruct (log_step maxatt fuel L HL True gh1 _ _ _ _ I1 (resume_second_step fuel c maxatt buf v V) F2)
    as (gh2 & Hg2 & I2 & L2); [intros _; exact I|].
  fold (resumed c maxatt buf v) in *.
  destruct (gouts_log_fields _ _ _ Hg1) as (A1 & A2 & A3 & A4). cbn [log_ev init s_startd is_none is_some negb l_nx l_st l_E l_old] in A1, A2, A3, A4.
  destruct (gouts_log_fields _ _ _ Hg2) as (B1 & B2 & B3 & B4).
  assert (OA : offset_accepted (after_start c maxatt buf) = true) by (destruct c as [? ? [] ? ? ?]; reflexivity).
  cbn [log_ev] in B1, B2, B3, B4. rewrite OA in B1, B2, B3, B4. cbn [l_nx l_st l_E l_old] in B1, B2, B3, B4.
  assert (R2 : RS (v + 1) gh2 (resumed c maxatt buf v)).
  { split; [congruence|]. rewrite B1. split; [congruence|]. intros _. destruct c as [? ? [] ? ? ?]; reflexivity. }
  destruct (rs_run maxatt fuel L True (v + 1) HL rest _ gh2 I2 R2 F3 NR) as (gh3 & H3 & [OK1 OK2] & [O3 R3]).
  { intros _. rewrite L2, L1. exact Hon. }
  exists gh3. split.
  { subst o1 o2. cbn [mon_run_s]. rewrite Hg1. cbn [mon_run_s]. rewrite Hg2. exact H3. }
  rewrite O3 in OK1. cbn [app] in OK1. split; [exact OK1|]. split.
  - intros n N. rewrite N in R3. destruct (OK2 I n N) as [Q1 Q2]. rewrite R3 in Q1, Q2. auto.
  - intro N. rewrite N in R3. destruct R3 as [E3 _]. rewrite E3 in OK1. apply app_eq_nil in OK1. exact OK1.
Qed.
Print Assumptions resume_run.
