(* The invariant of runs of Model/Producer.v and the C01 lemmas. *)
From AV Require Import Base.Util Model.Producer Proofs.ProducerBase Proofs.ProducerC01Spec Proofs.ProducerC01Lists
  Proofs.ProducerC01Fires Proofs.ProducerC01Batch Proofs.ProducerC01Step Proofs.ProducerC01Inv Proofs.ProducerC01Run.
From AV Require Proofs.ProducerInv Proofs.ProducerChoice.
From Coq Require Import Lia.

Arguments K_BROKER : simpl never.

Record Inv (c : cfg) (evs : list event) (tr : trace) (s : state) : Prop := {
  i_nsend : nsend s = nids evs;
  i_nd : NoDup (fired tr ++ outstanding s);
  i_live : forall sid, In sid (outstanding s) -> exists x, In x (live s) /\ s_id x = sid;
  i_acc : incl (live s) (accepted 0 evs);
  i_all : forall x, In x (accepted 0 evs) -> In (s_id x) (outstanding s) \/ In (s_id x) (fired tr);
  i_lt : forall sid, In sid (fired tr ++ outstanding s) -> 0 <= sid < nsend s;
  i_wf : phase_wf s;
  i_prod : match ph s with Sending pls cur => last_produce tr = Some (viewf pls cur) | _ => True end;
  i_stop : stopping s = true -> ph s = Idle;
  i_ok : broken s = false }.

Lemma Inv_pre : forall c evs tr s, Inv c evs tr s -> pre s.
Proof.
  intros c evs tr s I. constructor; try apply I.
  - intros sid H. apply (i_lt _ _ _ _ I sid). apply in_or_app; auto.
  - intros x H. apply (i_acc _ _ _ _ I) in H. apply accepted_range in H. rewrite (i_nsend _ _ _ _ I). lia.
Qed.

Lemma Inv_init : forall c has_t api0 cache0, Inv c [] [] (init_state has_t api0 cache0).
Proof.
  intros. constructor; simpl; auto; try (intros ? []); try discriminate.
  - constructor.
  - exact I.
Qed.

Lemma fired_snoc : forall tr e o, fired (tr ++ [(e, o)]) = fired tr ++ oids o.
Proof.
  intros. unfold fired, outs_of. rewrite flat_map_app, oids_app. simpl. rewrite app_nil_r. reflexivity.
Qed.
Lemma last_produce_snoc : forall tr e o, last_produce (tr ++ [(e, o)]) = last_prod o (last_produce tr).
Proof.
  intros. unfold last_produce, outs_of. rewrite flat_map_app, last_prod_app. simpl. rewrite app_nil_r. reflexivity.
Qed.
(* a well-formed send made while stopping is refused at once: it is counted as accepted (it fires), but never queued *)
Lemma newrec_accepted : forall s e, incl (newrec s e) (accepted (nsend s) [e]).
Proof.
  intros s e. destruct e; simpl; try (intros ? []). rewrite app_nil_r.
  destruct ((cnt <? 1) || (bytes <? 0)); simpl; [intros ? []|]. destruct (stopping s); [intros ? []|apply incl_refl].
Qed.
Lemma nids_one : forall e, nids [e] = if takes_id e then 1 else 0.
Proof. intros e. unfold nids; simpl. destruct (takes_id e); reflexivity. Qed.

Lemma nodup_after : forall (F Op X : list Z), NoDup (F ++ Op) -> incl X Op -> NoDup X -> NoDup ((F ++ X) ++ minus Op X).
Proof.
  intros F Op X N I NX. apply NoDup_app_inv in N as (NF & NO & D).
  apply NoDup_app_intro.
  - apply NoDup_app_intro; auto. intros y A B. eapply D; eauto.
  - apply NoDup_minus; auto.
  - intros y A B. apply In_minus in B as [B1 B2]. apply in_app_or in A as [A|A]; [eapply D; eauto|auto].
Qed.

Lemma Inv_step : forall c evs tr s e s' o,
  Inv c evs tr s -> honest_ev e = true -> ProducerInv.Inv s -> step c s e = (s', o) -> Inv c (evs ++ [e]) (tr ++ [(e, o)]) s'.
Proof.
  intros c evs tr s e s' o I HE MI H. pose proof (Inv_pre _ _ _ _ I) as PR.
  destruct (step_ssum c s e s' o PR HE H) as [F UI UK UW UP UN US UNEW UJ].
  pose proof (ProducerInv.step_broken _ _ _ _ _ MI H) as SB.
  destruct I as [IN IND IL IA IALL ILT IW IP IS IOK].
  assert (OP : outstanding (plus s e) = outstanding s ++ newid s e) by reflexivity.
  assert (FRESH : forall y, In y (newid s e) -> y = nsend s /\ takes_id e = true).
  { unfold newid; intros y Y. destruct (takes_id e); [destruct Y as [<- |[]]; auto|destruct Y]. }
  assert (NDP : NoDup (fired tr ++ outstanding (plus s e))).
  { rewrite OP, app_assoc. apply NoDup_app_intro; auto.
    - unfold newid; destruct (takes_id e); repeat constructor; simpl; tauto.
    - intros y A B. apply FRESH in B as [-> _]. apply ILT in A. lia. }
  assert (NOP : NoDup (outstanding (plus s e))) by (apply NoDup_app_inv in NDP; tauto).
  assert (ACC : accepted 0 (evs ++ [e]) = accepted 0 evs ++ accepted (nsend s) [e]).
  { rewrite accepted_app. replace (0 + nids evs) with (nsend s) by lia. reflexivity. }
  constructor.
  - rewrite UN, nids_app, nids_one, IN. reflexivity.
  - rewrite fired_snoc, (f_out _ _ _ F). apply nodup_after; auto; apply F; auto.
  - intros sid O. pose proof (fires_sub _ _ _ F _ O) as O'. rewrite OP in O'. apply in_app_or in O' as [O'|O'].
    + apply IL in O' as (x & X1 & X2). exists x; split; auto. apply UK; auto. rewrite X2; auto.
    + destruct (UNEW _ O' O) as (x & X1 & X2). exists x; split; auto. apply UK; auto. rewrite X2; auto.
  - rewrite ACC. intros x X. apply UI in X as [X|X]; apply in_or_app; auto. right. apply newrec_accepted; auto.
  - rewrite ACC, fired_snoc. intros x X.
    assert (IO : In (s_id x) (outstanding (plus s e)) \/ In (s_id x) (fired tr)).
    { rewrite OP. apply in_app_or in X as [X|X].
      - apply IALL in X as [X|X]; auto. left; apply in_or_app; auto.
      - left; apply in_or_app; right. unfold newid in *. destruct e; simpl in *; try tauto.
        rewrite app_nil_r in X. destruct ((cnt <? 1) || (bytes <? 0)); simpl in *; try tauto. destruct X as [<- |[]]; simpl; auto. }
    destruct IO as [IO|IO]; [|right; apply in_or_app; auto].
    destruct (in_dec Z.eq_dec (s_id x) (oids o)) as [D|D]; [right; apply in_or_app; auto|].
    left. eapply fires_stay; eauto.
  - rewrite fired_snoc, UN. intros sid X.
    assert (Y : In sid (fired tr ++ outstanding (plus s e))).
    { rewrite <- app_assoc in X. apply in_app_or in X as [X|X]; apply in_or_app; auto.
      right. apply in_app_or in X as [X|X]; [apply (f_sub _ _ _ F); auto|apply (fires_sub _ _ _ F); auto]. }
    rewrite OP, app_assoc in Y. apply in_app_or in Y as [Y|Y].
    + apply ILT in Y. destruct (takes_id e); lia.
    + apply FRESH in Y as [-> ->]. assert (0 <= nsend s) by (rewrite IN; apply nids_nonneg). lia.
  - exact UW.
  - unfold prod_step in UP. destruct (ph s') eqn:P'; auto. rewrite last_produce_snoc.
    destruct UP as [[PS NP]|R]; [|apply R]. rewrite last_prod_none; auto. rewrite PS in IP; exact IP.
  - exact US.
  - rewrite SB. destruct e; auto. destruct b; [discriminate|reflexivity].
Qed.

(* ------------------------------------------------------------------ runs *)
Lemma run_snoc : forall c evs s e,
  run c s (evs ++ [e]) =
  let '(s1, tr) := run c s evs in let '(s2, o) := step c s1 e in (s2, tr ++ [(e, o)]).
Proof.
  induction evs as [|a evs IH]; simpl; intros s e.
  - destruct (step c s e); reflexivity.
  - destruct (step c s a) as [s1 o1]. rewrite IH. destruct (run c s1 evs) as [s2 tr]. destruct (step c s2 e); reflexivity.
Qed.

Lemma run_inv : forall c has_t api0 cache0 evs s tr, honest evs ->
  run c (init_state has_t api0 cache0) evs = (s, tr) -> Inv c evs tr s.
Proof.
  intros c has_t api0 cache0 evs. induction evs as [|e evs IH] using rev_ind; intros s tr HN H.
  - inv H. apply Inv_init.
  - rewrite run_snoc in H. destruct (run c _ evs) as [s1 tr1] eqn:E1. destruct (step c s1 e) as [s2 o] eqn:E2. inv H.
    apply Forall_app in HN as [HN1 HN2]. inversion HN2; subst.
    eapply Inv_step; eauto. apply (ProducerInv.reachable_inv c). exists has_t, api0, cache0, evs. rewrite E1. reflexivity.
Qed.

Lemma honest_split : forall evs1 e evs2, honest (evs1 ++ e :: evs2) -> honest evs1 /\ honest_ev e = true.
Proof. intros evs1 e evs2 H. apply Forall_app in H as [H1 H2]. inversion H2; subst. auto. Qed.

Lemma run_split : forall c evs s0 s tr1 e outs tr2,
  run c s0 evs = (s, tr1 ++ (e, outs) :: tr2) ->
  exists evs1 evs2 s1 s1', evs = evs1 ++ e :: evs2 /\ run c s0 evs1 = (s1, tr1) /\ step c s1 e = (s1', outs).
Proof.
  induction evs as [|a evs IH]; simpl; intros s0 s tr1 e outs tr2 H.
  - inv H. destruct tr1; discriminate.
  - destruct (step c s0 a) as [sa oa] eqn:ES. destruct (run c sa evs) as [sb tb] eqn:ER.
    destruct tr1 as [|[e1 o1] tr1]; simpl in H.
    + inversion H; subst. exists [], evs, s0, sa. simpl. auto.
    + inversion H; subst. destruct (IH _ _ _ _ _ _ ER) as (evs1 & evs2 & s1 & s1' & -> & R & S).
      exists (e1 :: evs1), evs2, s1, s1'. simpl. rewrite ES, R. auto.
Qed.

(* ------------------------------------------------------------------ the four statements *)
Section C01.
Variables (c : cfg) (has_t : bool) (api0 : Z) (cache0 : list (Z * (Z * bool))).
Let s0 := init_state has_t api0 cache0.

Lemma at_most_once : forall evs s tr, honest evs -> run c s0 evs = (s, tr) -> NoDup (fired tr).
Proof.
  intros evs s tr HN H. apply run_inv in H; auto. apply i_nd in H. apply NoDup_app_inv in H; tauto.
Qed.

Lemma resolved_when_quiescent : forall evs s tr, honest evs -> run c s0 evs = (s, tr) -> quiescent s ->
  forall x, In x (accepted 0 evs) -> In (s_id x) (fired tr).
Proof.
  intros evs s tr HN H (P & Q & _) x X. apply run_inv in H; auto.
  destruct (i_all _ _ _ _ H x X) as [O|O]; auto. exfalso.
  apply (i_live _ _ _ _ H) in O as (y & Y & _). unfold live in Y. rewrite P, Q in Y. destruct Y.
Qed.

(* the justification of one outcome, in terms of the trace *)
Lemma outcome_justified : forall evs s tr tr1 e outs tr2 sid oc, honest evs ->
  run c s0 evs = (s, tr) -> tr = tr1 ++ (e, outs) :: tr2 -> In (OOutcome sid oc) outs -> is_success oc = true ->
  exists v pls pl x, value_of e = Some v /\ last_produce tr1 = Some pls /\ In (payload_view pl) pls /\
    In x (p_sends pl) /\ In x (accepted 0 evs) /\ s_id x = sid /\ s_topic x = fst (p_tp pl) /\
    s_choice x = snd (p_tp pl) /\
    match oc with
    | OResp t p err off => c_acks c <> 0 /\ err = 0 /\ p_tp pl = (t, p) /\ acked_with v (t, p) off
    | ONone => c_acks c = 0 /\ handed_over v (p_tp pl)
    | OFail _ _ => False
    end.
Proof.
  intros evs s tr tr1 e outs tr2 sid oc HN H -> I S.
  destruct (run_split _ _ _ _ _ _ _ _ H) as (evs1 & evs2 & s1 & s1' & -> & R & ST).
  destruct (honest_split _ _ _ HN) as [HN1 HE].
  assert (CH : ProducerChoice.ChInv s1).
  { apply (ProducerChoice.reachable_choice c). exists has_t, api0, cache0, evs1. unfold s0 in R. rewrite R. reflexivity. }
  apply run_inv in R; auto. pose proof (Inv_pre _ _ _ _ R) as PR.
  destruct (u_just _ _ _ _ _ (step_ssum c s1 e s1' outs PR HE ST) _ _ I S) as (pls & cur & v & P & V & J).
  pose proof (i_prod _ _ _ _ R) as IP. rewrite P in IP.
  pose proof (i_wf _ _ _ _ R) as W. unfold phase_wf in W. rewrite P in W. destruct W as [[ND WT] CL].
  unfold ProducerChoice.ChInv in CH. rewrite P in CH.
  assert (G : forall pl x, In pl pls -> In (p_tp pl) cur -> In x (p_sends pl) -> s_id x = sid ->
              In (payload_view pl) (viewf pls cur) /\ In x (accepted 0 (evs1 ++ e :: evs2)) /\ s_topic x = fst (p_tp pl) /\
              s_choice x = snd (p_tp pl)).
  { intros pl x A B C D. splits.
    4:{ rewrite Forall_forall in CH. specialize (CH _ A). unfold ProducerChoice.pl_choice in CH.
        rewrite Forall_forall in CH. auto. }
    - unfold viewf. apply in_map. apply filter_In; split; auto. apply tpmem_In; auto.
    - rewrite accepted_app. apply in_or_app; left. apply (i_acc _ _ _ _ R). unfold live. rewrite P. simpl.
      apply in_or_app; right. apply In_all_sends; eauto.
    - symmetry; eapply WT; eauto. }
  destruct oc as [t p err off| |k f]; simpl in J; [| |discriminate].
  - destruct J as (A & -> & AK & pl & x & J1 & J2 & J3 & J4 & J5).
    assert (J3' : In (p_tp pl) cur) by (rewrite J2; auto).
    destruct (G pl x J1 J3' J4 J5) as (G1 & G2 & G3 & G4).
    exists v, (viewf pls cur), pl, x. splits; auto.
  - destruct J as (A & pl & x & J1 & J2 & J3 & J4 & J5).
    destruct (G pl x J1 J3 J4 J5) as (G1 & G2 & G3 & G4).
    exists v, (viewf pls cur), pl, x. splits; auto.
Qed.

Lemma contiguous_in : forall x l, In x l -> contiguous x (flat_map msgs_of l).
Proof.
  intros x l H. apply in_split in H as (a & b & ->). unfold contiguous.
  exists (flat_map msgs_of a), (flat_map msgs_of b). rewrite flat_map_app. simpl. reflexivity.
Qed.

Lemma success_truthful : forall evs s tr tr1 e outs tr2 sid t p err off, honest evs ->
  run c s0 evs = (s, tr) -> tr = tr1 ++ (e, outs) :: tr2 -> In (OOutcome sid (OResp t p err off)) outs ->
  c_acks c <> 0 /\ err = 0 /\
  exists v pls ms x,
    value_of e = Some v /\ acked_with v (t, p) off /\
    last_produce tr1 = Some pls /\ In ((t, p), ms) pls /\
    In x (accepted 0 evs) /\ s_id x = sid /\ s_topic x = t /\ s_choice x = p /\ contiguous x ms.
Proof.
  intros evs s tr tr1 e outs tr2 sid t p err off HN H E I.
  destruct (outcome_justified _ _ _ _ _ _ _ _ _ HN H E I eq_refl) as (v & pls & pl & x & V & LP & IP & X1 & X2 & X3 & X4 & X5 & A & B & C & D).
  splits; auto. exists v, pls, (flat_map msgs_of (p_sends pl)), x. splits; auto.
  - unfold payload_view in IP. rewrite C in IP. exact IP.
  - rewrite X4, C; reflexivity.
  - rewrite X5, C; reflexivity.
  - apply contiguous_in; auto.
Qed.

Lemma success_none_truthful : forall evs s tr tr1 e outs tr2 sid, honest evs ->
  run c s0 evs = (s, tr) -> tr = tr1 ++ (e, outs) :: tr2 -> In (OOutcome sid ONone) outs ->
  c_acks c = 0 /\
  exists v pls p ms x,
    value_of e = Some v /\ In x (accepted 0 evs) /\ s_id x = sid /\ handed_over v (s_topic x, p) /\
    last_produce tr1 = Some pls /\ In ((s_topic x, p), ms) pls /\ contiguous x ms.
Proof.
  intros evs s tr tr1 e outs tr2 sid HN H E I.
  destruct (outcome_justified _ _ _ _ _ _ _ _ _ HN H E I eq_refl) as (v & pls & pl & x & V & LP & IP & X1 & X2 & X3 & X4 & X5 & A & B).
  split; auto. exists v, pls, (snd (p_tp pl)), (flat_map msgs_of (p_sends pl)), x.
  assert (TP : p_tp pl = (s_topic x, snd (p_tp pl))) by (rewrite X4; destruct (p_tp pl); reflexivity).
  splits; auto.
  - rewrite <- TP; auto.
  - unfold payload_view in IP. rewrite <- TP. exact IP.
  - apply contiguous_in; auto.
Qed.

(* every outcome of a step whose event does not acknowledge that send is a failure *)
Lemma failure_is_failure : forall evs s tr tr1 e outs tr2 sid oc, honest evs ->
  run c s0 evs = (s, tr) -> tr = tr1 ++ (e, outs) :: tr2 -> In (OOutcome sid oc) outs ->
  (forall x p, In x (accepted 0 evs) -> s_id x = sid -> acks_event c e (s_topic x, p) = false) ->
  exists k flag, oc = OFail k flag.
Proof.
  intros evs s tr tr1 e outs tr2 sid oc HN H E I NA.
  destruct oc as [t p err off| |k f]; [| |eauto]; exfalso.
  - destruct (success_truthful _ _ _ _ _ _ _ _ _ _ _ _ HN H E I) as (A & -> & v & pls & ms & x & V & AK & _ & _ & X1 & X2 & X3 & _ & _).
    specialize (NA x p X1 X2). unfold acks_event in NA. rewrite V, X3 in NA.
    assert (EX : forall rs, In ((t, p), 0, off) rs -> existsb (fun r : tp * Z * Z => tp_eqb (fst (fst r)) (t, p) && (snd (fst r) =? 0)) rs = true).
    { intros rs R. apply existsb_exists. exists ((t, p), 0, off). split; auto. simpl. rewrite tp_eqb_refl; reflexivity. }
    apply Z.eqb_neq in A. destruct v; simpl in *; try tauto; rewrite A in NA; simpl in NA; rewrite EX in NA; auto; discriminate.
  - destruct (success_none_truthful _ _ _ _ _ _ _ _ HN H E I) as (A & v & pls & p & ms & x & V & X1 & X2 & HO & _).
    specialize (NA x p X1 X2). unfold acks_event in NA. rewrite V in NA.
    apply Z.eqb_eq in A. destruct v; simpl in *; try tauto; rewrite A in NA; try discriminate.
    destruct HO as [_ HO]. apply tpmem_false in HO. rewrite HO in NA. discriminate.
Qed.
End C01.

(* ------------------------------------------------------------------ at the attempt limit the batch resolves *)
Lemma eq_xo_attempts : forall s s', eq_xo s s' -> attempts s' = attempts s.
Proof. unfold eq_xo; intros s s' H; rewrite H; reflexivity. Qed.

Lemma check_retry_limit : forall c s pls fl s1 o1 done,
  (c_max c <=? attempts s) = true -> check_retry c s pls fl = (s1, o1, done) -> done = true.
Proof.
  unfold check_retry; intros c s pls fl s1 o1 done L H. rewrite L in H. simpl in H.
  destruct (deliver_failed s pls fl); inv H; auto.
Qed.

Lemma handle_result_limit : forall c s pls cur v s1 o1 done,
  (c_max c <=? attempts s) = true -> handle_result c s pls cur v = (s1, o1, done) -> done = true.
Proof.
  unfold handle_result; intros c s pls cur v s1 o1 done L H. destruct v as [|rs|rs fs|k|k].
  - destruct (deliver s (all_sends pls) _); inv H; auto.
  - destruct (process_resps s pls rs) as [[s2 o2] f2] eqn:E. apply process_resps_xo in E as [X _].
    apply eq_xo_attempts in X. destruct f2; [inv H; auto|].
    destruct (check_retry c s2 pls _) as [[s3 o3] d3] eqn:E3. inv H.
    eapply check_retry_limit; [|eauto]. rewrite X; auto.
  - destruct (if c_acks c =? 0 then _ else _) as [s0 o0] eqn:E0.
    assert (A0 : attempts s0 = attempts s).
    { destruct (c_acks c =? 0); [apply deliver_xo in E0 as [X _]; apply eq_xo_attempts; auto|inv E0; auto]. }
    destruct (process_resps s0 pls rs) as [[s2 o2] f2] eqn:E. apply process_resps_xo in E as [X _].
    apply eq_xo_attempts in X.
    destruct (check_retry c s2 pls _) as [[s3 o3] d3] eqn:E3. inv H.
    eapply check_retry_limit; [|eauto]. rewrite X, A0; auto.
  - eapply check_retry_limit; eauto.
  - destruct (deliver s (all_sends pls) _); inv H; auto.
Qed.

Section C01limit.
Variables (c : cfg) (has_t : bool) (api0 : Z) (cache0 : list (Z * (Z * bool))).
Let s0 := init_state has_t api0 cache0.

(* the produce attempts of the batch are used up (or the producer is stopping): whatever the client now answers,
   every send of the batch that has not fired yet fires in this very step *)
Lemma limit_resolves : forall evs s tr pls cur v s' o, honest evs ->
  run c s0 evs = (s, tr) -> ph s = Sending pls cur -> c_max c <= attempts s -> result_ok c cur v = true ->
  step c s (EResult v) = (s', o) ->
  forall x, In x (all_sends pls) -> In (s_id x) (outstanding s) -> In (s_id x) (oids o).
Proof.
  intros evs s tr pls cur v s' o HN R P L RO ST x X O.
  apply run_inv in R; auto. pose proof (Inv_pre _ _ _ _ R) as PR.
  pose proof (u_fires _ _ _ _ _ (step_ssum c s (EResult v) s' o PR eq_refl ST)) as F.
  assert (FS : fires s s' o).
  { eapply fires_eq_out; [|exact F]. unfold plus, newid; simpl. apply app_nil_r. }
  destruct (in_dec Z.eq_dec (s_id x) (oids o)) as [D|D]; auto. exfalso.
  pose proof (fires_stay _ _ _ _ FS O D) as O'.
  pose proof (i_wf _ _ _ _ R) as W. unfold phase_wf in W. rewrite P in W. destruct W as [W CL].
  unfold step, core in ST. rewrite P, RO in ST.
  destruct (handle_result c s pls cur v) as [[s2 o2] done] eqn:E. unfold fin_if in ST.
  assert (DN : done = true) by (eapply handle_result_limit; [|exact E]; apply Z.leb_le; auto). subst done.
  destruct (apply_epi c s2 Fin) as [s3 o3] eqn:E3. inv ST. simpl in E3.
  destruct (handle_result_sum _ _ _ _ _ _ _ _ E RO W CL) as (_ & _ & _ & D2 & _).
  assert (BK2 : broken s2 = false).
  { apply handle_result_ok in E as [[[_ _ _ _ _ _ K] _ _] _]. rewrite K. apply (p_ok _ PR). }
  apply finish_tsum in E3; [|exact BK2]. destruct E3 as (sI & ot & _ & _ & _ & OI & _ & _ & T).
  apply (fires_sub _ _ _ (t_fires _ _ _ T)) in O'. rewrite OI in O'. eapply D2; eauto.
Qed.
End C01limit.

(* ------------------------------------------------------------------ failure is failure, sharpened: only the send's own payload counts *)
Section C01own.
Variables (c : cfg) (has_t : bool) (api0 : Z) (cache0 : list (Z * (Z * bool))).
Let s0 := init_state has_t api0 cache0.

Lemma failure_is_failure_own : forall evs s tr tr1 e outs tr2 sid oc, honest evs ->
  run c s0 evs = (s, tr) -> tr = tr1 ++ (e, outs) :: tr2 -> In (OOutcome sid oc) outs ->
  (forall pls x p ms, last_produce tr1 = Some pls -> In x (accepted 0 evs) -> s_id x = sid ->
                      In ((s_topic x, p), ms) pls -> contiguous x ms -> acks_event c e (s_topic x, p) = false) ->
  exists k flag, oc = OFail k flag.
Proof.
  intros evs s tr tr1 e outs tr2 sid oc HN H E I NA.
  destruct oc as [t p err off| |k f]; [| |eauto]; exfalso.
  - destruct (success_truthful c has_t api0 cache0 _ _ _ _ _ _ _ _ _ _ _ _ HN H E I) as (A & -> & v & pls & ms & x & V & AK & LP & IP & X1 & X2 & X3 & _ & CT).
    rewrite <- X3 in IP. specialize (NA pls x p ms LP X1 X2 IP CT). unfold acks_event in NA. rewrite V, X3 in NA.
    assert (EX : forall rs, In ((t, p), 0, off) rs -> existsb (fun r : tp * Z * Z => tp_eqb (fst (fst r)) (t, p) && (snd (fst r) =? 0)) rs = true).
    { intros rs R. apply existsb_exists. exists ((t, p), 0, off). split; auto. simpl. rewrite tp_eqb_refl; reflexivity. }
    apply Z.eqb_neq in A. destruct v; simpl in *; try tauto; rewrite A in NA; simpl in NA; rewrite EX in NA; auto; discriminate.
  - destruct (success_none_truthful c has_t api0 cache0 _ _ _ _ _ _ _ _ HN H E I) as (A & v & pls & p & ms & x & V & X1 & X2 & HO & LP & IP & CT).
    specialize (NA pls x p ms LP X1 X2 IP CT). unfold acks_event in NA. rewrite V in NA.
    apply Z.eqb_eq in A. destruct v; simpl in *; try tauto; rewrite A in NA; try discriminate.
    destruct HO as [_ HO]. apply tpmem_false in HO. rewrite HO in NA. discriminate.
Qed.
End C01own.

(* ------------------------------------------------------------------ bounded progress of the partition lookups *)
(* once the attempt counter of the batch (shared by its lookups and its produce requests) has reached the limit, a
   lookup that comes back to its loop head never asks for metadata again: it ends, with the partition if the metadata
   is good now, else with the topic's error (producer.py:307-318) *)
Lemma lookup_quota : forall c s x, c_max c <= attempts s -> exists r, lookup_head c s x = (s, [], LDone r).
Proof.
  intros c s x H. unfold lookup_head. destruct (cache_get (cache s) (s_topic x)) as [err hp].
  destruct (err =? 0); [eexists; reflexivity|].
  replace (c_max c <=? attempts s) with true by (symmetry; apply Z.leb_le; exact H). eexists; reflexivity.
Qed.

(* a lookup whose load came back with the topic still in error uses up one attempt *)
Lemma lookup_failure_counts : forall c s x s' o l, stopping s = false -> lookup_loaded c s x = (s', o, l) ->
  (exists r, l = LDone r /\ s' = s) \/ (attempts s' = attempts s + 1 /\ exists tid, l = LTimer tid).
Proof.
  unfold lookup_loaded; intros c s x s' o l St H. rewrite St in H. destruct (cache_get (cache s) (s_topic x)) as [err hp].
  destruct (err =? 0); inv H; [left; eauto|right; simpl; eauto].
Qed.
