(* The leader's two calls of generate_assignments (_group.py:490-501) and the precondition the second call
   puts on the snapshot that client._load_topic_partitions returned: an entry for each requested topic. *)
From AV Require Import Base.Util Proofs.UtilFacts Model.Assign Proofs.AssignOrder Proofs.AssignDict
  Proofs.AssignThms Proofs.AssignC15.
From Coq Require Import Lia Sorting.Permutation.

Lemma snapshot_covers_true members tp :
  snapshot_covers members tp = true <-> forall t, In t (all_topics (build_md members)) -> dict_get tp t <> None.
Proof.
  unfold snapshot_covers. rewrite forallb_forall. split; intros H t Ht; specialize (H t Ht).
  - destruct (dict_get tp t); [discriminate | discriminate].
  - destruct (dict_get tp t); [reflexivity | congruence].
Qed.

Lemma c15_leader_two_calls members tp :
  let ts := all_topics (build_md members) in
  ts <> [] ->
  leader_assign members [] = Err (ENeed (str_sort ts)) /\
  (if snapshot_covers members tp
   then exists a, leader_assign members tp = Ok a
   else leader_assign members tp = Err (ENeed (str_sort ts))).
Proof.
  intros ts Hne. split.
  - pose proof (c15_assign_defined members []) as D. cbv zeta in D. fold ts in D.
    destruct (leader_assign members []) as [a|e].
    + destruct D as [_ D]. destruct ts as [|t r]; [congruence|]. exfalso. apply (D t); [now left | reflexivity].
    + destruct e; try contradiction. destruct D as [-> _]. reflexivity.
  - pose proof (c15_assign_defined members tp) as D. cbv zeta in D. fold ts in D.
    destruct (snapshot_covers members tp) eqn:C.
    + pose proof (proj1 (snapshot_covers_true members tp) C) as C'. clear C. rename C' into C.
      destruct (leader_assign members tp) as [a|e]; [eauto|]. exfalso.
      destruct e; try contradiction.
      destruct D as [-> (t & Ht & Hn)]. apply str_sort_in1 in Ht. exact (C t Ht Hn).
    + destruct (leader_assign members tp) as [a|e].
      * destruct D as [_ D]. pose proof (proj2 (snapshot_covers_true members tp) D). congruence.
      * destruct e; try contradiction. destruct D as [-> _]. reflexivity.
Qed.
