(* Model/BrokerClientTail.v: calls made by user code from a reply callback equal the same calls made as the next events. *)
From AV Require Import Base.Util Proofs.UtilFacts Model.Framing Model.BrokerClient Model.BrokerClientTail
  Proofs.FramingFacts Proofs.BrokerClientTbl Proofs.BrokerClientInv Proofs.BrokerClientC06 Proofs.BrokerClientChunk
  Proofs.BrokerClientGaps.
From Coq Require Import Lia.

(* API calls neither read nor write the protocol's receive buffer *)
Lemma fire_down_rxbuf s b : fire_down (with_rxbuf s b) = (with_rxbuf (fst (fire_down s)) b, snd (fire_down s)).
Proof. unfold fire_down. destruct s as [t p rx c d f a]. cbn. destruct d; reflexivity. Qed.

Lemma call_rxbuf s b c :
  step (with_rxbuf s b) (call_ev c) = (with_rxbuf (fst (step s (call_ev c))) b, snd (step s (call_ev c))).
Proof.
  destruct s as [t p rx cn d f a]. destruct c as [h|rid ex| |]; cbn [call_ev step].
  - unfold lift. cbn. reflexivity.
  - unfold make_request. cbn [with_rxbuf s_t s_proto s_rxbuf s_connector s_down s_failures s_addr].
    destruct (lookup rid (t_reqs t)); [reflexivity|].
    destruct d.
    + destruct p; [unfold lift; destruct (send_request _ _); reflexivity|].
      destruct cn; reflexivity.
    + unfold lift. destruct (fire _ _ _). reflexivity.
    + unfold lift. destruct (fire _ _ _). reflexivity.
  - cbn. destruct p; reflexivity.
  - cbn [with_rxbuf s_t s_proto s_rxbuf s_connector s_down s_failures s_addr].
    destruct d; try reflexivity.
    cbn [with_down s_t s_proto s_rxbuf s_connector s_down s_failures s_addr].
    destruct p.
    + cbn. destruct (fail_all _ _). reflexivity.
    + destruct cn; cbn; destruct (fail_all _ _); reflexivity.
Qed.

Lemma run_calls_rxbuf : forall cs s b,
  run (with_rxbuf s b) (map call_ev cs) = (with_rxbuf (fst (run s (map call_ev cs))) b, snd (run s (map call_ev cs))).
Proof.
  induction cs as [|c cs IH]; intros s b; cbn [map run]; [reflexivity|].
  rewrite call_rxbuf. destruct (step s (call_ev c)) as [s1 o1]. cbn [fst snd]. rewrite IH.
  destruct (run s1 (map call_ev cs)) as [s2 o2]. reflexivity.
Qed.

Lemma with_rxbuf_same s : with_rxbuf s (s_rxbuf s) = s.
Proof. destruct s; reflexivity. Qed.

(* ... nor do they take the connection object away *)
Lemma call_proto s c : s_proto (fst (step s (call_ev c))) = s_proto s.
Proof.
  destruct c as [h|rid ex| |]; cbn [call_ev].
  - cbn [step]. unfold lift. destruct s; reflexivity.
  - cbn [step]. unfold make_request. destruct (lookup rid (t_reqs (s_t s))); [reflexivity|].
    destruct (s_down s).
    + destruct (s_proto s) eqn:P; [unfold lift; destruct (send_request _ _); destruct s; exact P|].
      destruct (s_connector s); destruct s; exact P.
    + unfold lift. destruct (fire _ _ _). destruct s; reflexivity.
    + unfold lift. destruct (fire _ _ _). destruct s; reflexivity.
  - cbn [step]. destruct (s_proto s) eqn:P; cbn [fst]; exact P.
  - apply step_close_proto.
Qed.

Lemma call_keeps_rxbuf s c : s_rxbuf (fst (step s (call_ev c))) = s_rxbuf s.
Proof.
  pose proof (call_rxbuf s (s_rxbuf s) c) as X. rewrite with_rxbuf_same in X.
  rewrite X at 1. cbn [fst]. destruct (fst (step s (call_ev c))); reflexivity.
Qed.

Lemma run_calls_keep : forall cs s, s_proto (fst (run s (map call_ev cs))) = s_proto s
  /\ s_rxbuf (fst (run s (map call_ev cs))) = s_rxbuf s.
Proof.
  induction cs as [|c cs IH]; intros s; cbn [map run]; [auto|].
  pose proof (call_proto s c) as P. pose proof (call_keeps_rxbuf s c) as B.
  destruct (step s (call_ev c)) as [s1 o1]. cbn [fst] in P, B.
  destruct (IH s1) as [P1 B1]. destruct (run s1 (map call_ev cs)) as [s2 o2]. cbn [fst] in *. split; congruence.
Qed.

(* the loop of dataReceived over whole frames, with callbacks, while the buffer field holds b *)
Lemma deliver_c_tail inter : forall fs s b, s_proto s = true -> s_rxbuf s = [] -> Forall (frame_ok ok4) fs ->
  deliver_c inter (with_rxbuf s b) fs
  = (with_rxbuf (fst (run s (tail_events inter s fs))) b, snd (run s (tail_events inter s fs))).
Proof.
  induction fs as [|f fs IH]; intros s b P B F; cbn [deliver_c tail_events run].
  - reflexivity.
  - inversion F as [|? ? Ff F']; subst.
    rewrite (step_frame s f P B Ff). unfold handle_response_c.
    assert (E0 : s_t (with_rxbuf s b) = s_t s) by (destruct s; reflexivity). rewrite E0.
    destruct (handle_response (s_t s) f) as [t1 o1] eqn:EH. cbn [fst snd].
    set (sA := with_rxbuf (with_t s t1) []).
    assert (EA : with_t (with_rxbuf s b) t1 = with_rxbuf sA b) by (destruct s; reflexivity).
    assert (PA : s_proto sA = true) by (destruct s; exact P).
    assert (BA : s_rxbuf sA = []) by (destruct s; reflexivity).
    set (cs := match fired_succ o1 with Some h => map call_ev (cassoc inter h) | None => [] end).
    assert (L : (match fired_succ o1 with
                 | Some h => let (s2, o2) := run (with_t (with_rxbuf s b) t1) (map call_ev (cassoc inter h)) in (s2, o1 ++ o2)
                 | None => (with_t (with_rxbuf s b) t1, o1)
                 end)
                = (with_rxbuf (fst (run sA cs)) b, o1 ++ snd (run sA cs))).
    { unfold cs. rewrite EA. destruct (fired_succ o1) as [h|].
      - rewrite run_calls_rxbuf. destruct (run sA (map call_ev (cassoc inter h))). reflexivity.
      - cbn [run fst snd]. rewrite app_nil_r. reflexivity. }
    rewrite L. clear L.
    assert (K : s_proto (fst (run sA cs)) = true /\ s_rxbuf (fst (run sA cs)) = []).
    { unfold cs. destruct (fired_succ o1) as [h|]; [|cbn [run fst]; auto].
      destruct (run_calls_keep (cassoc inter h) sA) as [K1 K2]. split; congruence. }
    destruct K as [K1 K2].
    rewrite (IH (fst (run sA cs)) b K1 K2 F').
    cbn [run]. rewrite (step_frame s f P B Ff). rewrite EH. cbn [fst snd]. fold sA.
    rewrite run_app. destruct (run sA cs) as [sB oB]. cbn [fst snd].
    destruct (run sB (tail_events inter sB fs)) as [sC oC]. cbn [fst snd]. rewrite app_assoc. reflexivity.
Qed.

(* the sequential history keeps the client connected with an empty buffer *)
Lemma tail_events_keep inter : forall fs s s1 o1, s_proto s = true -> s_rxbuf s = [] -> Forall (frame_ok ok4) fs ->
  run s (tail_events inter s fs) = (s1, o1) -> s_proto s1 = true /\ s_rxbuf s1 = [].
Proof.
  induction fs as [|f fs IH]; intros s s1 o1 P B F E1; cbn [tail_events] in E1.
  - cbn [run] in E1. injection E1 as <- <-. auto.
  - inversion F as [|? ? Ff F']; subst. rewrite (step_frame s f P B Ff) in E1.
    destruct (handle_response (s_t s) f) as [t1 oh] eqn:EH. cbn [fst snd] in E1.
    set (sA := with_rxbuf (with_t s t1) []) in *.
    set (cs := match fired_succ oh with Some h => map call_ev (cassoc inter h) | None => [] end) in *.
    cbn [run] in E1. rewrite (step_frame s f P B Ff) in E1. rewrite EH in E1. cbn [fst snd] in E1. fold sA in E1.
    rewrite run_app in E1. destruct (run sA cs) as [sB oB] eqn:EB. cbn [fst] in E1.
    destruct (run sB (tail_events inter sB fs)) as [sC oC] eqn:EC. injection E1 as <- <-.
    assert (KB : s_proto sB = true /\ s_rxbuf sB = []).
    { assert (X : sB = fst (run sA cs)) by (rewrite EB; reflexivity). rewrite X. unfold cs.
      destruct (fired_succ oh) as [h|]; [|cbn [run fst]; destruct s; auto].
      destruct (run_calls_keep (cassoc inter h) sA) as [K1 K2]. split; [rewrite K1 | rewrite K2]; destruct s; auto. }
    destruct KB. eapply (IH sB sC oC); eauto.
Qed.

(* TAIL-POSITION RE-ENTRANCY.  A connected client with an empty receive buffer is given a chunk made of any number of
   whole frames followed by an incomplete residue; the callbacks of the requests those frames complete call back into
   the client (cancel / makeRequest / disconnect / close, any number, in any order).  The outcome - state and outputs in
   order - is that of the sequential history in which every frame is its own event and every call is an ordinary
   event right after the frame that triggered it, then the residue. *)
Theorem tail_reentrancy inter fs r s : s_proto s = true -> s_rxbuf s = [] -> Forall (frame_ok ok4) fs ->
  irreducible ok4 r ->
  data_in_c inter s (concat (map encode_frame fs) ++ r) = run s (tail_events inter s fs ++ [EData r]).
Proof.
  intros P B F Ir. unfold data_in_c. rewrite B. cbn [app]. rewrite data_received_parse. cbn [app].
  rewrite (parse_encode_frames ok4 fs r F). unfold irreducible in Ir. rewrite Ir. rewrite app_nil_r.
  rewrite (deliver_c_tail inter fs s _ P B F). rewrite run_app.
  destruct (run s (tail_events inter s fs)) as [s1 o1] eqn:E1. cbn [fst snd rx_newbuf].
  assert (K : s_proto s1 = true /\ s_rxbuf s1 = []) by (eapply tail_events_keep; eauto).
  destruct K as [P1 B1]. cbn [run step]. rewrite P1. unfold data_in. rewrite B1. cbn [app]. rewrite data_received_parse. cbn [app].
  rewrite Ir. cbn [deliver]. cbn [fst snd rx_newbuf app]. rewrite !app_nil_r.
  destruct s1 as [t1 p1 rx1 c1 d1 f1 a1]. reflexivity.
Qed.

