(* The function translated from afkak/partitioner.py (Model/MurmurGen.v: the committed snapshot of
   harness/py2coq.py's output for /repo) equals the hand-written model Model.Murmur.pure_murmur2 on every
   byte list.  The proof is the generic tactic of Proofs/MurmurGenTac.v; the same two lines are instantiated
   on THIS RUN's translation by harness/murmur_tie.py (coq/Run/out/gen/<id>/). *)
From AV Require Import Base.Util Model.Murmur Model.MurmurPy Model.MurmurGen Proofs.MurmurGenTac.

(* data ranges over byte lists: the elements of a Python bytearray are 0..255 (a rewrite that drops the
   Java-style `& 0xFF` on a byte is therefore harmless, and provable only with this hypothesis) *)
Theorem gen_eq_model : forall data, bytes_ok data = true -> gen_pure_murmur2 data gen_seed = pure_murmur2 data.
Proof. gen_eq_tac. Qed.
