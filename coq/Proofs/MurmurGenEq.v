(* The function REGENERATED from afkak/partitioner.py (Model/MurmurGen.v, harness/py2coq.py)
   equals the hand-written model Model.Murmur.pure_murmur2 on every byte list. *)
From AV Require Import Base.Util Model.Murmur Model.MurmurGen.
From Coq Require Import Lia ZifyNat.
Ltac Zify.zify_post_hook ::= Z.to_euclidean_division_equations.

(* ---- arithmetic on the length ---- *)
Lemma land_lnot3 n : 0 <= n -> Z.land n (Z.lnot 3) = 4 * (n / 4).
Proof.
  intro H. rewrite <- Z.ldiff_land. change 3 with (Z.ones 2).
  rewrite Z.ldiff_ones_r by lia. rewrite Z.shiftl_mul_pow2, Z.shiftr_div_pow2 by lia.
  change (2 ^ 2) with 4. lia.
Qed.

Lemma nth_app_off (pre rest : list Z) k : nth (length pre + k) (pre ++ rest) 0 = nth k rest 0.
Proof. rewrite app_nth2 by lia. f_equal. lia. Qed.

(* ---- the loop ---- *)
Section Loop.
  Variable F : Z -> Z -> Z.
  Variable data : list Z.
  Hypothesis HF : forall pre b0 b1 b2 b3 rest h p,
    data = pre ++ b0 :: b1 :: b2 :: b3 :: rest -> length pre = (4 * p)%nat ->
    F h (Z.of_nat p) = mix_block h b0 b1 b2 b3.

  Lemma loop_blocks : forall q pre rest h p,
    data = pre ++ rest -> length pre = (4 * p)%nat -> (4 * q <= length rest)%nat ->
    blocks h rest = blocks (fold_left F (map Z.of_nat (seq p q)) h) (skipn (4 * q) rest).
  Proof.
    induction q as [|q IH]; intros pre rest h p Hd Hp Hq.
    - reflexivity.
    - destruct rest as [|b0 [|b1 [|b2 [|b3 rest']]]]; cbn [length] in Hq; try lia.
      cbn [seq map fold_left].
      rewrite (HF pre b0 b1 b2 b3 rest' h p Hd Hp).
      replace (4 * S q)%nat with (4 + 4 * q)%nat by lia.
      change (skipn (4 + 4 * q) (b0 :: b1 :: b2 :: b3 :: rest')) with (skipn (4 * q) rest').
      change (blocks h (b0 :: b1 :: b2 :: b3 :: rest')) with (blocks (mix_block h b0 b1 b2 b3) rest').
      apply (IH (pre ++ [b0; b1; b2; b3]) rest' _ (S p)).
      + rewrite <- app_assoc. exact Hd.
      + rewrite app_length. cbn [length]. lia.
      + lia.
  Qed.
End Loop.

(* ---- the whole function ---- *)
Lemma nat_div4 (n : nat) : Z.to_nat (Z.of_nat n / 4) = (n / 4)%nat.
Proof. change 4 with (Z.of_nat 4). rewrite <- Nat2Z.inj_div. apply Nat2Z.id. Qed.

Lemma tail_len (data : list Z) : let t := skipn (4 * (length data / 4)) data in
  (length t < 4)%nat /\ Z.of_nat (length data) mod 4 = Z.of_nat (length t).
Proof.
  cbv zeta. rewrite skipn_length.
  pose proof (Nat.div_mod (length data) 4 ltac:(lia)) as E.
  pose proof (Nat.mod_upper_bound (length data) 4 ltac:(lia)) as B.
  split; [lia|].
  replace (length data - 4 * (length data / 4))%nat with (length data mod 4)%nat by lia.
  change 4 with (Z.of_nat 4). rewrite <- Nat2Z.inj_mod. reflexivity.
Qed.

Lemma nth_tail (data : list Z) k :
  nth (Z.to_nat (Z.land (Z.of_nat (length data)) (Z.lnot 3) + Z.of_nat k)) data 0
  = nth k (skipn (4 * (length data / 4)) data) 0.
Proof.
  rewrite land_lnot3 by lia.
  replace (Z.to_nat (4 * (Z.of_nat (length data) / 4) + Z.of_nat k)) with (4 * (length data / 4) + k)%nat.
  2:{ rewrite Z2Nat.inj_add by lia. rewrite Z2Nat.inj_mul by lia. rewrite nat_div4, Nat2Z.id. reflexivity. }
  set (m := (4 * (length data / 4))%nat).
  rewrite <- (firstn_skipn m data) at 1.
  assert (Hm : (m <= length data)%nat).
  { unfold m. pose proof (Nat.div_mod (length data) 4 ltac:(lia)). lia. }
  replace m with (length (firstn m data)) at 1 by (rewrite firstn_length; lia).
  apply nth_app_off.
Qed.

Lemma nth_tail0 (data : list Z) :
  nth (Z.to_nat (Z.land (Z.of_nat (length data)) (Z.lnot 3))) data 0
  = nth 0 (skipn (4 * (length data / 4)) data) 0.
Proof. rewrite <- (nth_tail data 0). f_equal. f_equal. cbn. lia. Qed.

Theorem gen_eq_model : forall data, gen_pure_murmur2 data gen_seed = pure_murmur2 data.
Proof.
  intro data. unfold gen_pure_murmur2, pure_murmur2, pure_murmur2_seed. cbv zeta.
  match goal with |- context [fold_left ?f _ _] => set (F := f) end.
  assert (HF : forall pre b0 b1 b2 b3 rest h p,
    data = pre ++ b0 :: b1 :: b2 :: b3 :: rest -> length pre = (4 * p)%nat ->
    F h (Z.of_nat p) = mix_block h b0 b1 b2 b3).
  { intros pre b0 b1 b2 b3 rest h p Hd Hp. subst F. cbv beta.
    replace (Z.to_nat (Z.of_nat p * 4 + 0)) with (length pre + 0)%nat by lia.
    replace (Z.to_nat (Z.of_nat p * 4 + 1)) with (length pre + 1)%nat by lia.
    replace (Z.to_nat (Z.of_nat p * 4 + 2)) with (length pre + 2)%nat by lia.
    replace (Z.to_nat (Z.of_nat p * 4 + 3)) with (length pre + 3)%nat by lia.
    rewrite Hd, !nth_app_off. reflexivity. }
  rewrite nat_div4.
  pose proof (loop_blocks F data HF (length data / 4) [] data
                (Z.lxor gen_seed (Z.of_nat (length data))) 0%nat eq_refl eq_refl) as L.
  assert (Hq : (4 * (length data / 4) <= length data)%nat)
    by (pose proof (Nat.div_mod (length data) 4 ltac:(lia)); lia).
  specialize (L Hq). change SEED with gen_seed. rewrite L. clear L.
  set (h1 := fold_left F (map Z.of_nat (seq 0 (length data / 4))) (Z.lxor gen_seed (Z.of_nat (length data)))).
  pose proof (nth_tail data 2) as T2. pose proof (nth_tail data 1) as T1.
  change (Z.of_nat 2) with 2 in T2. change (Z.of_nat 1) with 1 in T1.
  rewrite T2, T1, nth_tail0. clear T1 T2.
  destruct (tail_len data) as [Hl Hm]. rewrite Hm.
  destruct (skipn (4 * (length data / 4)) data) as [|a [|b [|c [|d t]]]]; cbn [length] in *; try lia; reflexivity.
Qed.
