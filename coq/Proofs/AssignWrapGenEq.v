(* The text generated from _ConsumerProtocol.generate_assignments / decode_assignment / join_group_protocols
   (Model/AssignWrapGen.v: committed snapshot of harness/py2assign.py --wrap for /repo) equals the hand-written model.
   The KafkaCodec functions these methods call are rendered as the model's codec functions; THEIR tie to the source
   is the business of the codec translator ties C04gen / C05gen (coq/Model/EncDSL.v, harness/py2enc.py). *)
From AV Require Import Base.Util Model.Assign Model.AssignPy Model.AssignGen Model.AssignWrapGen Proofs.AssignGenEq Proofs.AssignGenTac Proofs.AssignWrapGenTac.

(* generate_assignments on the members' metadata BYTES (decode every member, assign, encode every member's share) *)
Theorem gen_generate_assignments_eq : forall fuel raw tp, (length raw <= fuel)%nat ->
  gen_generate_assignments fuel raw tp = generate_assignments_raw raw tp.
Proof. gen_ga_tac gen_leader_eq_model. Qed.

Theorem gen_decode_assignment_eq : forall data, gen_decode_assignment data = decode_assignment data.
Proof. gen_da_tac. Qed.

(* join_group_protocols(topics) = [("consumer", encode_join_group_protocol_metadata(0, topics, b""))] *)
Theorem gen_join_group_protocols_eq : forall topics,
  gen_join_group_protocols topics =
  bind (enc_metadata 0 topics (Some [])) (fun b => Ok [([99; 111; 110; 115; 117; 109; 101; 114], b)]).
Proof. gen_jp_tac. Qed.
