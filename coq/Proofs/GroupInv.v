(* Invariants of Model/Group.v: every state reachable by ANY event list satisfies [Inv].
   Used by Proofs/GroupC16.v and Proofs/GroupC17.v. *)
From Coq Require Import Lia.
From AV Require Import Base.Util Model.Group Model.GroupObs.

(* ---------- counting ---------- *)
Definition cnt {A} (p : A -> bool) (l : list A) : nat := length (filter p l).
Definition b2n (b : bool) : nat := if b then 1%nat else 0%nat.

Lemma cnt_nil : forall A (p : A -> bool), cnt p [] = 0%nat. Proof. reflexivity. Qed.
Lemma cnt_cons : forall A (p : A -> bool) x l, cnt p (x :: l) = (b2n (p x) + cnt p l)%nat.
Proof. intros. unfold cnt. cbn. destruct (p x); reflexivity. Qed.
Lemma cnt_app : forall A (p : A -> bool) l l', cnt p (l ++ l') = (cnt p l + cnt p l')%nat.
Proof. intros. unfold cnt. rewrite filter_app, app_length. reflexivity. Qed.
Lemma cnt_map : forall A (p : A -> bool) (f : A -> A) l, (forall x, p (f x) = p x) -> cnt p (map f l) = cnt p l.
Proof. intros A p f l H. induction l as [|x l IH]; [reflexivity|]. cbn [map]. rewrite !cnt_cons, H, IH. reflexivity. Qed.
Lemma cnt_zero_in : forall A (p : A -> bool) l x, cnt p l = 0%nat -> In x l -> p x = false.
Proof.
  induction l as [|y l IH]; intros x H Hin; [destruct Hin|]. rewrite cnt_cons in H. destruct Hin as [->|Hin].
  - destruct (p x); [cbn in H; lia|reflexivity].
  - apply IH; auto. lia.
Qed.
Lemma cnt_filter_le : forall A (p q : A -> bool) l, (cnt p (filter q l) <= cnt p l)%nat.
Proof. induction l as [|y l IH]; [cbn; lia|]. cbn [filter]. destruct (q y); rewrite !cnt_cons; lia. Qed.

Lemma take_first_cnt : forall A (q p : A -> bool) l x r,
  take_first q l = Some (x, r) -> q x = true /\ cnt p l = (b2n (p x) + cnt p r)%nat /\ length l = S (length r).
Proof.
  induction l as [|y l IH]; cbn [take_first]; intros x r H; [discriminate|].
  destruct (q y) eqn:E.
  - inversion H; subst. rewrite cnt_cons. auto.
  - destruct (take_first q l) as [[z r']|] eqn:T; [|discriminate]. inversion H; subst.
    destruct (IH _ _ eq_refl) as (Hq & Hc & Hl). rewrite !cnt_cons, Hc. cbn [length]. repeat split; auto; lia.
Qed.
Lemma take_first_in : forall A (q : A -> bool) l x r, take_first q l = Some (x, r) -> In x l /\ (forall y, In y r -> In y l).
Proof.
  induction l as [|y l IH]; cbn [take_first]; intros x r H; [discriminate|].
  destruct (q y) eqn:E.
  - inversion H; subst. split; [left; auto|intros; right; auto].
  - destruct (take_first q l) as [[z r']|] eqn:T; [|discriminate]. inversion H; subst.
    destruct (IH _ _ eq_refl) as (Hi & Hr). split; [right; auto|]. intros w [->|Hw]; [left; auto|right; auto].
Qed.
Lemma take_first_single : forall A (q : A -> bool) g x r, take_first q [g] = Some (x, r) -> x = g /\ r = [].
Proof. intros A q g x r. cbn. destruct (q g); intros H; inversion H; auto. Qed.
Lemma take_first_none : forall A (q : A -> bool) l, take_first q l = None -> forall x, In x l -> q x = false.
Proof.
  induction l as [|y l IH]; cbn [take_first]; intros H x Hin; [destruct Hin|].
  destruct (q y) eqn:E; [discriminate|]. destruct (take_first q l) as [[z r']|]; [discriminate|].
  destruct Hin as [->|Hin]; auto.
Qed.
Global Opaque cnt.

(* ---------- the invariant ---------- *)
Definition pristine (s : state) : Prop :=
  gens s = [] /\ consumers s = [] /\ stops s = [] /\ hb_running s = false /\ hb_req s = None /\ timers s = [] /\
  rejoin_d s = None /\ rejoin_needed s = true /\ dc s = DcNone /\ stop_requested s = false /\ escaped s = false.

Definition cons_ok (g m : Z) (ca : list (Z * Z)) (c : consumer) : Prop :=
  c_gen c = g /\ c_mem c = m /\ In (c_topic c, c_part c) ca.

(* [r]: the _join_and_sync generator that is executing right now (taken out of [gens], owner of [rejoin_d]):
   its id and whether it is past the metadata load *)
Definition radv (r : option (Z * bool)) : nat := match r with Some (_, true) => 1%nat | _ => 0%nat end.

Record Jcore (r : option (Z * bool)) (s : state) : Prop := mkJ {
  j1 : is_group s = false -> consumers s = [];
  j2 : consumers s = [] \/ (cnt adv (gens s) + radv r = 0)%nat;
  j3 : stop_requested s = true \/ stopping s = true -> consumers s = [];
  j4 : cnt has_s1 (stops s) = 0%nat \/ stop_requested s = true \/ stopping s = true;
  j5 : start_d s = None -> stopping s = true \/ (pristine s /\ r = None);
  j6 : cnt has_s2 (stops s) = 0%nat \/ (stopping s = true /\ start_d s <> None /\ cnt has_s2 (stops s) = 1%nat);
  j7 : (cnt adv (gens s) + radv r <= 1)%nat;
  j8 : stopping s = false ->
       match r with
       | None => (gens s = [] /\ rejoin_d s = None) \/ (exists g, gens s = [g] /\ rejoin_d s = Some (g_id g))
       | Some (gid, _) => gens s = [] /\ rejoin_d s = Some gid
       end;
  j9 : forall id, dc s = DcActive id -> In (id, TRejoin) (timers s);
  j10 : stopping s = false -> dc s <> DcStale;
  j12 : Forall (cons_ok (generation s) (member s) (cur_assign s)) (consumers s);
  j13 : stopping s = false -> gens s <> [] -> rejoin_needed s = true;
  j11 : stopping s = true -> rejoin_needed s = false
}.

Definition Stab (s : state) : Prop := stopping s = false -> rejoin_needed s = false -> hb_running s = true.

Definition progress (s : state) : Prop :=
  gens s <> [] \/ (rejoin_needed s = false /\ hb_running s = true) \/ timers s <> [].
Definition Prog (s : state) : Prop :=
  start_d s <> None -> stopping s = false -> stop_requested s = false -> escaped s = false -> progress s.

Record Inv (s : state) : Prop := mkInv { i_core : Jcore None s; i_stab : Stab s; i_prog : Prog s }.

(* ---------- tactics ---------- *)
Ltac ds s := destruct s as [grp mem gn ck sd ns nst rn stp sr dc0 rd hbr hbq gs ng sts tms nt nr cs nc ca esc scl td].
Ltac prj := cbn [is_group member generation coord_known start_d n_start n_stop rejoin_needed stopping stop_requested
                 dc rejoin_d hb_running hb_req gens next_gen stops timers next_timer next_rid consumers next_cid
                 cur_assign escaped stop_called tail_done
                 set_is_group set_member set_generation set_coord_known set_start_d set_n_start set_n_stop
                 set_rejoin_needed set_stopping set_stop_requested set_dc set_rejoin_d set_hb_running set_hb_req
                 set_gens set_next_gen set_stops set_timers set_next_timer set_next_rid set_consumers set_next_cid
                 set_cur_assign set_escaped set_stop_called set_tail_done fst snd] in *.
Ltac unf := repeat progress unfold gen_end, coord_retry, new_timer, remove_timer, add_gen, fresh_rid, seq, emit, emits, upd, skip in *.

Lemma init_inv : forall grp, Inv (init grp).
Proof.
  intros grp. constructor.
  - constructor; cbn; auto; try discriminate; try lia.
    all: try (intros _; right; split; auto; unfold pristine; cbn; repeat split; auto; fail).
  - intros _ H; cbn in H; discriminate.
  - intros H; cbn in H; congruence.
Qed.

Ltac jdes := repeat match goal with H : Jcore _ _ |- _ => destruct H end.
Ltac jfin := try solve [intuition (subst; auto; try congruence; try discriminate; try lia)].
Ltac jgo := jdes; prj; constructor; prj; unfold pristine in *; prj; rewrite ?cnt_cons, ?cnt_nil, ?cnt_app in *; cbn [radv b2n] in *; jfin.

Lemma gen_end_J : forall r s, r <> None -> Jcore r s -> Jcore None (fst (gen_end s)).
Proof.
  intros r s Hr H. ds s. unf. destruct r as [[gid b]|]; [|congruence]. destruct b; jgo.
Qed.

Lemma add_gen_J : forall gid b g s, Jcore (Some (gid, b)) s -> g_id g = gid -> (adv g = true -> consumers s = [] /\ (b = true \/ stopping s = false)) ->
  (stopping s = false -> rejoin_needed s = true) -> Jcore None (add_gen g s).
Proof.
  intros gid b g s H Hg Ha Hn. ds s. unf. destruct b; destruct (adv g) eqn:Eg; jgo; rewrite ?Eg in *; cbn [b2n] in *; jfin.
  all: try (intros E; right; exists g; intuition (subst; auto; congruence)).
  all: try (destruct stp; intuition (subst; rewrite ?cnt_nil in *; auto; try congruence; try lia)).
Qed.

(* Jcore / Stab / Prog do not read the counters, coord_known or the ghost fields stop_called, tail_done *)
Definition same_core (s s' : state) : Prop :=
  is_group s' = is_group s /\ member s' = member s /\ generation s' = generation s /\ start_d s' = start_d s /\
  rejoin_needed s' = rejoin_needed s /\ stopping s' = stopping s /\ stop_requested s' = stop_requested s /\
  dc s' = dc s /\ rejoin_d s' = rejoin_d s /\ hb_running s' = hb_running s /\ hb_req s' = hb_req s /\
  gens s' = gens s /\ stops s' = stops s /\ timers s' = timers s /\ consumers s' = consumers s /\
  cur_assign s' = cur_assign s /\ escaped s' = escaped s.

Lemma Jcore_frame : forall r s s', same_core s s' -> Jcore r s -> Jcore r s'.
Proof.
  intros r s s' E H. ds s. destruct s'. unfold same_core in E. prj.
  destruct E as (?&?&?&?&?&?&?&?&?&?&?&?&?&?&?&?&?). subst. jgo.
Qed.
Ltac frame := unfold same_core; prj; repeat split; reflexivity.

Lemma ogl_J : forall r s, Jcore r s -> Jcore r (fst (on_group_leave s)) /\ consumers (fst (on_group_leave s)) = [].
Proof.
  intros r s H. unfold on_group_leave. destruct (is_group s) eqn:G; prj.
  - split; [|reflexivity]. ds s. jgo.
  - split; [assumption|]. apply (j1 _ _ H G).
Qed.

Lemma send_join_J : forall gid b s, Jcore (Some (gid, b)) s -> consumers s = [] -> (b = true \/ stopping s = false) ->
  (stopping s = false -> rejoin_needed s = true) -> Jcore None (fst (send_join gid s)).
Proof.
  intros gid b s H Hc Hb Hn.
  change (fst (send_join gid s)) with (add_gen (mkGen gid (GJoin (next_rid s))) (set_next_rid (next_rid s + 1) s)).
  apply (add_gen_J gid b); auto.
  eapply Jcore_frame; [|exact H]. ds s. frame.
Qed.

Lemma send_sync_J : forall gid ld s, Jcore (Some (gid, true)) s -> consumers s = [] ->
  (stopping s = false -> rejoin_needed s = true) -> Jcore None (fst (send_sync gid ld s)).
Proof.
  intros gid ld s H Hc Hn.
  change (fst (send_sync gid ld s)) with (add_gen (mkGen gid (GSync (next_rid s))) (set_next_rid (next_rid s + 1) s)).
  apply (add_gen_J gid true); auto.
  eapply Jcore_frame; [|exact H]. ds s. frame.
Qed.

(* ---------- stop() ---------- *)
Lemma cancel_gen_J : forall r gid s, stopping s = true -> Jcore r s ->
  Jcore r (fst (cancel_gen gid s)) /\ same_core (set_rejoin_d (rejoin_d (fst (cancel_gen gid s))) (set_gens (gens (fst (cancel_gen gid s))) s)) (fst (cancel_gen gid s)).
Proof.
  intros r gid s Hs H. unfold cancel_gen.
  destruct (take_first (fun g => g_id g =? gid) (gens s)) as [[g rest]|] eqn:T.
  - pose proof (take_first_cnt _ _ adv _ _ _ T) as (_ & Hc & _).
    assert (X : forall rid, Jcore r (fst ((emit (OCancelReq rid) ;; gen_end) (set_gens rest s)))).
    { intros rid. ds s. unf. prj. subst. jgo. }
    assert (Y : forall l, Jcore r (fst ((emits (stop_pending l) ;; gen_end) (set_gens rest s)))).
    { intros l. ds s. unf. prj. subst. jgo. }
    destruct (g_ph g); (split; [auto|]); ds s; frame.
  - split; auto. ds s. frame.
Qed.

Lemma cancel_gen_fields : forall gid s, let s' := fst (cancel_gen gid s) in
  stopping s' = stopping s /\ start_d s' = start_d s /\ stop_requested s' = stop_requested s /\ consumers s' = consumers s /\
  stops s' = stops s /\ is_group s' = is_group s /\ timers s' = timers s /\ dc s' = dc s /\ rejoin_needed s' = rejoin_needed s /\
  hb_running s' = hb_running s /\ escaped s' = escaped s.
Proof.
  intros gid s. unfold cancel_gen. destruct (take_first _ (gens s)) as [[g rest]|]; [|cbn; repeat split; reflexivity].
  destruct (g_ph g); ds s; unf; cbn; repeat split; reflexivity.
Qed.

Lemma stop_tail_J : forall r st s, stopping s = true -> cnt has_s2 (stops s) = 0%nat -> Jcore r s ->
  Jcore r (fst (stop_tail st s)) /\ stopping (fst (stop_tail st s)) = true.
Proof.
  intros r st s Hs H2 H. unfold stop_tail.
  assert (X : exists s1 o1, (match rejoin_d s with Some gid => cancel_gen gid (set_rejoin_d None s) | None => (s, []) end) = (s1, o1)
            /\ Jcore r s1 /\ stopping s1 = true /\ cnt has_s2 (stops s1) = 0%nat).
  { destruct (rejoin_d s) as [gid|] eqn:R.
    - destruct (cancel_gen gid (set_rejoin_d None s)) as [s1 o1] eqn:C. exists s1, o1. split; auto.
      assert (J0 : Jcore r (set_rejoin_d None s)). { clear C. ds s. prj. subst. jgo. }
      assert (S0 : stopping (set_rejoin_d None s) = true) by (ds s; exact Hs).
      pose proof (cancel_gen_J r gid _ S0 J0) as [J1 _]. pose proof (cancel_gen_fields gid (set_rejoin_d None s)) as F.
      rewrite C in J1, F. cbn [fst] in J1, F. destruct F as (F1 & _ & _ & _ & F5 & _).
      split; auto. split; [rewrite F1; auto|]. rewrite F5. ds s. exact H2.
    - exists s, []. auto. }
  destruct X as (s1 & o1 & -> & J1 & S1 & C1). clear H Hs H2.
  ds s1. prj. subst. destruct grp; destruct sd as [idx|]; unfold finish_stop; prj; (split; [|reflexivity]); jgo.
Qed.

Lemma coord_stop_J : forall r st s, Jcore r s -> consumers s = [] ->
  let s' := fst (coord_stop st s) in
  Jcore r s' /\ (start_d s <> None \/ stopping s = true -> stopping s' = true) /\
  (start_d s = None -> stopping s = false -> same_core (if is_group s then set_stop_requested false s else s) s').
Proof.
  intros r st s H Hc. ds s. prj. subst cs. unfold coord_stop. prj.
  destruct sd as [idx|].
  2:{ unfold finish_stop. prj. split; [|split; [intros [X|X]; [congruence|]|intros _ _]].
      - destruct grp; jgo.
      - destruct grp; exact X.
      - destruct grp; frame. }
  destruct stp.
  { unfold finish_stop. prj. split; [|split; [intros _|intros; congruence]]; destruct grp; prj; auto; jgo. }
  assert (C2 : cnt has_s2 sts = 0%nat). { destruct H. prj. intuition congruence. }
  destruct dc0 as [|id|]; unfold finish_stop, hb_stop, remove_timer; prj.
  3:{ split; [|split; [intros _|intros; congruence]]; destruct grp; prj; auto; jgo. }
  all: destruct hbq as [rid|]; prj; destruct hbr; prj; destruct (ck && negb (mem =? 0)); prj.
  all: try (split; [|split; [intros _|intros; congruence]]; [jgo|reflexivity]).
  all: match goal with |- context [stop_tail st ?s0] =>
         let X := fresh in assert (X : Jcore r s0) by jgo;
         let Y := fresh in pose proof (stop_tail_J r st s0 eq_refl C2 X) as Y;
         destruct (stop_tail st s0) as [s3 o4]; prj; destruct Y; split; [|split; [intros _|intros; congruence]]; assumption end.
Qed.

Definition stab_eq (s s' : state) : Prop :=
  stopping s' = stopping s /\ rejoin_needed s' = rejoin_needed s /\ hb_running s' = hb_running s.

Lemma do_stop_J : forall r idx err s, Jcore r s ->
  let s' := fst (do_stop idx err s) in
  Jcore r s' /\
  (stopping s' = true \/
   (start_d s = None /\ stopping s = false /\ same_core (set_stop_requested false s) s') \/
   (is_group s = true /\ consumers s <> [] /\ stop_requested s' = true /\ stab_eq s s')).
Proof.
  intros r idx err s H. unfold do_stop.
  destruct (is_group s) eqn:G.
  - destruct (consumers (set_stop_requested true s)) as [|c cs'] eqn:C.
    + assert (J0 : Jcore r (set_stop_requested true s)). { ds s. prj. subst. jgo. }
      pose proof (coord_stop_J r (mkStop idx err (S2 0)) _ J0 C) as (A & B & D). split; [exact A|].
      destruct (start_d s) as [i|] eqn:Sd.
      * left. apply B. left. ds s. prj. congruence.
      * destruct (stopping s) eqn:Stp.
        -- left. apply B. right. ds s. exact Stp.
        -- right. left. repeat split; auto.
           assert (D' := D (ltac:(ds s; exact Sd)) (ltac:(ds s; exact Stp))).
           ds s. prj. subst. cbn in D'. exact D'.
    + unfold begin_shutdown. prj. split.
      * ds s. prj. subst. jgo.
      * right. right. ds s. prj. subst. repeat split; auto. discriminate.
  - pose proof (coord_stop_J r (mkStop idx err (S2 0)) _ H (j1 _ _ H G)) as (A & B & D). split; [exact A|].
    destruct (start_d s) as [i|] eqn:Sd.
    * left. apply B. left. congruence.
    * destruct (stopping s) eqn:Stp.
      -- left. apply B. right. exact Stp.
      -- right. left. repeat split; auto. specialize (D eq_refl eq_refl). rewrite G in D.
         assert (Sr : stop_requested s = false).
         { destruct (j5 _ _ H Sd) as [X|[X _]]; [congruence|]. unfold pristine in X. intuition. }
         ds s. prj. subst. exact D.
Qed.

(* ---------- rejoin_after_error ---------- *)
Lemma ogl_fields : forall s, let s' := fst (on_group_leave s) in
  start_d s' = start_d s /\ stopping s' = stopping s /\ stop_requested s' = stop_requested s /\ rejoin_needed s' = rejoin_needed s /\
  hb_running s' = hb_running s /\ timers s' = timers s /\ gens s' = gens s /\ escaped s' = escaped s /\ dc s' = dc s /\ is_group s' = is_group s.
Proof. intros s. unfold on_group_leave. destruct (is_group s); ds s; cbn; repeat split; reflexivity. Qed.

Lemma fatal_J : forall r k s, Jcore r s -> start_d s <> None \/ stopping s = true ->
  Jcore r (fst (fatal k s)) /\ stopping (fst (fatal k s)) = true.
Proof.
  intros r k s H Hn. unfold fatal, seq.
  destruct (on_group_leave s) as [s1 o1] eqn:E.
  pose proof (ogl_J r s H) as [J1 C1]. pose proof (ogl_fields s) as (F1 & F2 & _). rewrite E in *. cbn [fst] in *.
  pose proof (do_stop_J r (-1) (Some k) s1 J1) as [J2 Q].
  destruct (do_stop (-1) (Some k) s1) as [s2 o2]. cbn [fst] in *. split; auto.
  destruct Q as [Q|[(Q1 & Q2 & _)|(_ & Q & _)]]; auto; [|congruence].
  rewrite F1 in Q1. rewrite F2 in Q2. destruct Hn; congruence.
Qed.

Lemma schedule_rejoin_J : forall r d s, stopping s = false -> Jcore r s ->
  let s' := fst (schedule_rejoin d s) in
  Jcore r s' /\ rejoin_needed s' = true /\ timers s' <> [] /\ stopping s' = false.
Proof.
  intros r d s Hs H. unfold schedule_rejoin. ds s. prj. subst. destruct dc0 as [|id|]; unf; prj.
  - repeat split; try discriminate. jgo.
  - repeat split; [jgo|]. destruct H. prj. intros ->. apply (j21 id eq_refl).
  - destruct H. prj. exfalso. apply j22; auto.
Qed.

Lemma resched_J : forall r d s, Jcore r s ->
  let s' := fst (resched d s) in
  Jcore r s' /\ (stopping s' = true \/ (rejoin_needed s' = true /\ timers s' <> [] /\ stopping s' = false)).
Proof.
  intros r d s H. unfold resched. destruct (stopping s) eqn:Hs.
  - cbn [fst]. auto.
  - pose proof (schedule_rejoin_J r d s Hs H) as (A & B & C & D). split; auto.
Qed.

Lemma set_member_J : forall r s, Jcore r s -> consumers s = [] -> Jcore r (set_member 0 s).
Proof. intros r s H C. ds s. prj. subst. jgo. Qed.

Lemma rejoin_after_error_J : forall r k s, Jcore r s -> start_d s <> None \/ stopping s = true ->
  let s' := fst (rejoin_after_error k s) in
  Jcore r s' /\ (stopping s' = true \/ (rejoin_needed s' = true /\ timers s' <> [] /\ stopping s' = false)).
Proof.
  intros r k s H Hn.
  assert (OG : forall d, let s' := fst ((on_group_leave ;; resched d) s) in
           Jcore r s' /\ (stopping s' = true \/ (rejoin_needed s' = true /\ timers s' <> [] /\ stopping s' = false))).
  { intros d. unfold seq. destruct (on_group_leave s) as [s1 o1] eqn:E. pose proof (ogl_J r s H) as [J1 _]. rewrite E in J1. cbn [fst] in J1.
    pose proof (resched_J r d s1 J1) as X. destruct (resched d s1). exact X. }
  destruct k; cbn [rejoin_after_error].
  - apply resched_J; auto.
  - unfold seq, emit. pose proof (resched_J r DRetry s H) as X. destruct (resched DRetry s). exact X.
  - unfold seq, emit. pose proof (resched_J r DRetry s H) as X. destruct (resched DRetry s). exact X.
  - apply OG.
  - unfold seq, upd. destruct (on_group_leave s) as [s1 o1] eqn:E. pose proof (ogl_J r s H) as [J1 C1]. rewrite E in J1, C1. cbn [fst] in J1, C1.
    pose proof (resched_J r DRetry _ (set_member_J r s1 J1 C1)) as X. destruct (resched DRetry (set_member 0 s1)). exact X.
  - unfold seq, upd. destruct (on_group_leave s) as [s1 o1] eqn:E. pose proof (ogl_J r s H) as [J1 C1]. rewrite E in J1, C1. cbn [fst] in J1, C1.
    pose proof (resched_J r DRetry _ (set_member_J r s1 J1 C1)) as X. destruct (resched DRetry (set_member 0 s1)). exact X.
  - apply resched_J; auto.
  - unfold seq, emit. destruct (on_group_leave s) as [s1 o1] eqn:E. pose proof (ogl_J r s H) as [J1 _]. rewrite E in J1. cbn [fst] in J1.
    pose proof (resched_J r DFatal s1 J1) as X. destruct (resched DFatal s1). exact X.
  - apply resched_J; auto.
  - destruct (stopping s) eqn:Hs; [cbn [fst]; auto|]. pose proof (fatal_J r KCancelled s H Hn) as [A B]. auto.
  - pose proof (fatal_J r KNonKafka s H Hn) as [A B]. auto.
Qed.

(* ---------- generator bookkeeping at the level of Inv ---------- *)
Lemma take_gen_J : forall (p : gen -> bool) s g rest, Jcore None s -> take_first p (gens s) = Some (g, rest) ->
  Jcore (Some (g_id g, adv g)) (set_gens rest s) /\ (stopping s = false -> rejoin_needed s = true /\ rest = []) /\
  (start_d s <> None \/ stopping s = true).
Proof.
  intros p s g rest H T.
  pose proof (take_first_cnt _ p adv _ _ _ T) as (_ & Hc & _).
  assert (NP : start_d s <> None \/ stopping s = true).
  { destruct (start_d s) eqn:Sd; [left; discriminate|]. destruct (j5 _ _ H Sd) as [X|[X _]]; [auto|].
    unfold pristine in X. destruct X as (X & _). rewrite X in T. discriminate. }
  assert (SG : stopping s = false -> rejoin_needed s = true /\ rest = [] /\ rejoin_d s = Some (g_id g)).
  { intros Hs. destruct (j8 _ _ H Hs) as [[X _]|(g0 & X & Y)]; [rewrite X in T; discriminate|].
    rewrite X in T. apply take_first_single in T. destruct T; subst. repeat split; auto.
    apply (j13 _ _ H Hs). rewrite X. discriminate. }
  split; [|split; [intros Hs; destruct (SG Hs) as (A & B & _); auto|exact NP]].
  ds s. prj. destruct (adv g) eqn:Ag; cbn [b2n] in Hc; jgo.
  all: try (intros E; destruct (SG E) as (_ & ? & ?); auto).
  all: try (intros E; right; exists g; intuition (subst; auto; congruence)).
  all: try (intros E1 E2; destruct (SG E1) as (_ & ? & _); congruence).
Qed.

Lemma Stab_eq : forall s s', stab_eq s s' -> Stab s -> Stab s'.
Proof. unfold stab_eq, Stab. intros s s' (A & B & C) H. rewrite A, B, C. exact H. Qed.

Lemma gen_end_Inv : forall x s, Jcore (Some x) s -> Stab s ->
  stopping s = true \/ stop_requested s = true \/ timers s <> [] \/ (rejoin_needed s = false /\ hb_running s = true) \/ escaped s = true ->
  Inv (fst (gen_end s)).
Proof.
  intros x s H St P. constructor.
  - apply (gen_end_J (Some x)); [discriminate|exact H].
  - ds s. exact St.
  - ds s. unfold Prog, progress; unf; prj. intuition congruence.
Qed.

Lemma add_gen_Inv : forall gid b g s, Jcore (Some (gid, b)) s -> Stab s -> g_id g = gid ->
  (adv g = true -> consumers s = [] /\ (b = true \/ stopping s = false)) ->
  (stopping s = false -> rejoin_needed s = true) -> Inv (add_gen g s).
Proof.
  intros gid b g s H St Hg Ha Hn. constructor.
  - eapply add_gen_J; eauto.
  - ds s. exact St.
  - ds s. unfold Prog, progress; unf; prj. intros. left. discriminate.
Qed.

Lemma rae_Stab_Prog : forall s, stopping s = true \/ (rejoin_needed s = true /\ timers s <> [] /\ stopping s = false) -> Stab s /\ Prog s.
Proof. intros s H. unfold Stab, Prog, progress. split; intros; intuition congruence. Qed.

Lemma gen_fail_Inv : forall x k s, Jcore (Some x) s -> Stab s -> start_d s <> None \/ stopping s = true -> Inv (fst (gen_fail k s)).
Proof.
  intros x k s H St Hn. unfold gen_fail, seq.
  pose proof (gen_end_J (Some x) s ltac:(discriminate) H) as J1.
  destruct (gen_end s) as [s1 o1] eqn:E. cbn [fst] in J1.
  assert (F : start_d s1 = start_d s /\ stopping s1 = stopping s /\ stab_eq s s1).
  { unfold gen_end, upd in E. inversion E. ds s. cbn. unfold stab_eq; cbn. auto. }
  destruct F as (F1 & F2 & F3).
  destruct (is_kafka k).
  - pose proof (rejoin_after_error_J None k s1 J1 ltac:(rewrite F1, F2; exact Hn)) as [A B].
    destruct (rejoin_after_error k s1) as [s2 o2]. cbn [fst] in *. destruct (rae_Stab_Prog _ B). constructor; auto.
  - unfold upd. cbn [fst]. constructor.
    + ds s1. prj. destruct J1. constructor; prj; unfold pristine in *; prj; auto.
      intros ->. rewrite F1, F2 in Hn. destruct Hn; [congruence|auto].
    + apply (Stab_eq s1); [ds s1; unfold stab_eq; cbn; auto|]. apply (Stab_eq s); auto.
    + ds s1. unfold Prog. prj. congruence.
Qed.

(* ---------- the event handlers ---------- *)
Lemma with_gen_Inv : forall ph (k : gen -> act) s, Inv s ->
  (forall g rest, take_first (awaits ph) (gens s) = Some (g, rest) -> Inv (fst (k g (set_gens rest s)))) ->
  Inv (fst (with_gen ph k s)).
Proof.
  intros ph k s H K. unfold with_gen. destruct (take_first (awaits ph) (gens s)) as [[g rest]|] eqn:T; [apply K; auto|exact H].
Qed.

Lemma coord_retry_end_Inv : forall x d s, Jcore (Some x) s -> Stab s -> Inv (fst ((coord_retry d ;; gen_end) s)).
Proof.
  intros x d s H St. unfold seq, coord_retry, new_timer.
  change (fst (let (s2, o2) := gen_end (set_timers ((next_timer s, TCoordRetry) :: timers s) (set_next_timer (next_timer s + 1) s)) in
               (s2, [OSched TCoordRetry d (next_timer s)] ++ o2)))
    with (fst (gen_end (set_timers ((next_timer s, TCoordRetry) :: timers s) (set_next_timer (next_timer s + 1) s)))).
  apply (gen_end_Inv x).
  - ds s. jgo.
  - ds s. exact St.
  - right. right. left. ds s. discriminate.
Qed.

Lemma set_gens_stab : forall l s, Stab s -> Stab (set_gens l s).
Proof. intros l s H. ds s. exact H. Qed.

Lemma on_lookup_Inv : forall rid r s, Inv s -> Inv (fst (on_lookup rid r s)).
Proof.
  intros rid r s H. unfold on_lookup. apply with_gen_Inv; auto. intros g rest T.
  pose proof (take_gen_J _ _ _ _ (i_core _ H) T) as (J1 & N1 & NP).
  assert (Ag : adv g = false).
  { apply take_first_cnt with (p := adv) in T. destruct T as (T & _). unfold awaits in T. unfold adv. destruct (g_ph g); auto; discriminate. }
  rewrite Ag in J1. pose proof (set_gens_stab rest s (i_stab _ H)) as St.
  assert (NP' : start_d (set_gens rest s) <> None \/ stopping (set_gens rest s) = true) by (ds s; exact NP).
  destruct r as [| |k].
  - unfold fresh_rid. cbn [fst].
    apply (add_gen_Inv (g_id g) false); auto.
    + eapply Jcore_frame; [|exact J1]. ds s. frame.
    + ds s. exact St.
    + cbn. discriminate.
    + intros E. apply N1. ds s. exact E.
  - apply (coord_retry_end_Inv _ _ _ J1 St).
  - destruct k; try apply (coord_retry_end_Inv _ _ _ J1 St); apply (gen_fail_Inv _ _ _ J1 St NP').
Qed.

Lemma send_join_Inv : forall gid b s, Jcore (Some (gid, b)) s -> Stab s -> consumers s = [] -> (b = true \/ stopping s = false) ->
  (stopping s = false -> rejoin_needed s = true) -> Inv (fst (send_join gid s)).
Proof.
  intros gid b s H St Hc Hb Hn.
  change (fst (send_join gid s)) with (add_gen (mkGen gid (GJoin (next_rid s))) (set_next_rid (next_rid s + 1) s)).
  apply (add_gen_Inv gid b); auto.
  - eapply Jcore_frame; [|exact H]. ds s. frame.
  - ds s. exact St.
  - intros _. ds s. auto.
  - ds s. exact Hn.
Qed.

Lemma send_sync_Inv : forall gid ld s, Jcore (Some (gid, true)) s -> Stab s -> consumers s = [] ->
  (stopping s = false -> rejoin_needed s = true) -> Inv (fst (send_sync gid ld s)).
Proof.
  intros gid ld s H St Hc Hn.
  change (fst (send_sync gid ld s)) with (add_gen (mkGen gid (GSync (next_rid s))) (set_next_rid (next_rid s + 1) s)).
  apply (add_gen_Inv gid true); auto.
  - eapply Jcore_frame; [|exact H]. ds s. frame.
  - ds s. exact St.
  - intros _. ds s. auto.
  - ds s. exact Hn.
Qed.

Lemma prepare_and_join_Inv : forall gid s, Jcore (Some (gid, false)) s -> Stab s -> stopping s = false -> rejoin_needed s = true ->
  Inv (fst (prepare_and_join gid s)).
Proof.
  intros gid s H St Hs Hn. unfold prepare_and_join. destruct (is_group s) eqn:G.
  - destruct (consumers s) as [|c cs'] eqn:C.
    + apply (send_join_Inv gid false); auto.
    + unfold begin_shutdown. cbn [fst].
      apply (add_gen_Inv gid false).
      * ds s. prj. subst. jgo.
      * ds s. exact St.
      * reflexivity.
      * intros _. ds s. prj. auto.
      * ds s. prj. auto.
  - apply (send_join_Inv gid false); auto. apply (j1 _ _ H G).
Qed.

Lemma stop_pend_cases : forall s, stop_pend s = true -> stopping s = true \/ stop_requested s = true.
Proof. intros s. unfold stop_pend. destruct (stopping s), (stop_requested s); auto. Qed.
Lemma stop_pend_false : forall s, stop_pend s = false -> stopping s = false /\ stop_requested s = false.
Proof. intros s. unfold stop_pend. destruct (stopping s), (stop_requested s); auto; discriminate. Qed.

Lemma on_meta_Inv : forall rid r s, Inv s -> Inv (fst (on_meta rid r s)).
Proof.
  intros rid r s H. unfold on_meta. apply with_gen_Inv; auto. intros g rest T.
  pose proof (take_gen_J _ _ _ _ (i_core _ H) T) as (J1 & N1 & NP).
  assert (Ag : adv g = false).
  { apply take_first_cnt with (p := adv) in T. destruct T as (T & _). unfold awaits in T. unfold adv. destruct (g_ph g); auto; discriminate. }
  rewrite Ag in J1. pose proof (set_gens_stab rest s (i_stab _ H)) as St.
  assert (NP' : start_d (set_gens rest s) <> None \/ stopping (set_gens rest s) = true) by (ds s; exact NP).
  destruct r as [|k]; [|apply (gen_fail_Inv _ _ _ J1 St NP')].
  destruct (stop_pend (set_gens rest s)) eqn:SP.
  - apply (gen_end_Inv _ _ J1 St). apply stop_pend_cases in SP. intuition.
  - apply stop_pend_false in SP. destruct SP as [SP1 SP2].
    apply prepare_and_join_Inv.
    + eapply Jcore_frame; [|exact J1]. ds s. frame.
    + ds s. exact St.
    + ds s. exact SP1.
    + assert (X : stopping s = false) by (ds s; exact SP1). destruct (N1 X). ds s. auto.
Qed.

Lemma rae_end_Inv : forall x k s, Jcore (Some x) s -> start_d s <> None \/ stopping s = true ->
  Inv (fst ((rejoin_after_error k ;; gen_end) s)).
Proof.
  intros x k s H Hn. unfold seq.
  pose proof (rejoin_after_error_J (Some x) k s H Hn) as [A B].
  destruct (rejoin_after_error k s) as [s1 o1]. cbn [fst] in *.
  destruct (rae_Stab_Prog _ B) as [St _].
  pose proof (gen_end_Inv x s1 A St ltac:(intuition)) as X. destruct (gen_end s1). exact X.
Qed.

Lemma adv_cons_nil : forall gid s, Jcore (Some (gid, true)) s -> consumers s = [].
Proof. intros gid s H. destruct (j2 _ _ H) as [X|X]; auto. cbn in X. lia. Qed.

Lemma awaits_adv : forall ph g, awaits ph g = true -> adv g = match ph with GLookup _ | GMeta _ => false | _ => true end.
Proof. intros ph g. unfold awaits, adv. destruct ph, (g_ph g); auto; discriminate. Qed.

Lemma on_join_Inv : forall rid r s, Inv s -> Inv (fst (on_join rid r s)).
Proof.
  intros rid r s H. unfold on_join. apply with_gen_Inv; auto. intros g rest T.
  pose proof (take_gen_J _ _ _ _ (i_core _ H) T) as (J1 & N1 & NP).
  assert (Ag : adv g = true).
  { apply take_first_cnt with (p := adv) in T. destruct T as (T & _). apply awaits_adv in T. exact T. }
  rewrite Ag in J1. pose proof (set_gens_stab rest s (i_stab _ H)) as St.
  assert (NP' : start_d (set_gens rest s) <> None \/ stopping (set_gens rest s) = true) by (ds s; exact NP).
  pose proof (adv_cons_nil _ _ J1) as C0.
  destruct r as [gn mem role|k]; [|apply (rae_end_Inv _ _ _ J1 NP')].
  unfold seq, upd.
  set (s1 := set_cur_assign [] (set_generation gn (set_member mem (set_gens rest s)))).
  assert (J2 : Jcore (Some (g_id g, true)) s1). { subst s1. ds s. prj. subst. jgo. }
  assert (St2 : Stab s1). { subst s1. ds s. exact St. }
  assert (C2 : consumers s1 = []). { subst s1. ds s. exact C0. }
  assert (N2 : stopping s1 = false -> rejoin_needed s1 = true). { subst s1. intros E. assert (X : stopping s = false) by (ds s; exact E). destruct (N1 X). ds s. auto. }
  assert (NP2 : start_d s1 <> None \/ stopping s1 = true). { subst s1. ds s. exact NP. }
  clearbody s1.
  assert (G : forall (a : act), Inv (fst (a s1)) -> Inv (fst (let (s2, o2) := a s1 in (s2, [] ++ o2)))).
  { intros a X. destruct (a s1). exact X. }
  apply G.
  destruct (stop_pend s1) eqn:SP.
  - apply (gen_end_Inv _ _ J2 St2). apply stop_pend_cases in SP. intuition.
  - destruct (role =? 0).
    + apply (send_sync_Inv _ _ _ J2 St2 C2 N2).
    + destruct (role =? 1).
      * unfold fresh_rid. cbn [fst]. apply (add_gen_Inv (g_id g) true); auto.
        -- eapply Jcore_frame; [|exact J2]. ds s1. frame.
        -- ds s1. exact St2.
        -- intros _. ds s1. auto.
        -- ds s1. exact N2.
      * apply (gen_fail_Inv _ _ _ J2 St2 NP2).
Qed.

Lemma on_parts_Inv : forall rid r s, Inv s -> Inv (fst (on_parts rid r s)).
Proof.
  intros rid r s H. unfold on_parts. apply with_gen_Inv; auto. intros g rest T.
  pose proof (take_gen_J _ _ _ _ (i_core _ H) T) as (J1 & N1 & NP).
  assert (Ag : adv g = true).
  { apply take_first_cnt with (p := adv) in T. destruct T as (T & _). apply awaits_adv in T. exact T. }
  rewrite Ag in J1. pose proof (set_gens_stab rest s (i_stab _ H)) as St.
  assert (NP' : start_d (set_gens rest s) <> None \/ stopping (set_gens rest s) = true) by (ds s; exact NP).
  pose proof (adv_cons_nil _ _ J1) as C0.
  destruct r as [| |k]; try apply (gen_fail_Inv _ _ _ J1 St NP').
  destruct (stop_pend (set_gens rest s)) eqn:SP.
  - apply (gen_end_Inv _ _ J1 St). apply stop_pend_cases in SP. intuition.
  - apply (send_sync_Inv _ _ _ J1 St C0). intros E. assert (X : stopping s = false) by (ds s; exact E). destruct (N1 X). ds s. auto.
Qed.

(* consumers started by on_join_complete *)
Lemma insert_by_Forall : forall A (key : A -> Z) (P : A -> Prop) x l, P x -> Forall P l -> Forall P (insert_by key x l).
Proof.
  intros A key P x l Hx Hl. induction Hl as [|y l Hy Hl IH]; cbn [insert_by]; [constructor; auto|].
  destruct ((key y =? key x) && negb (existsb (fun z => key z =? key x) l)); repeat constructor; auto.
Qed.
Lemma insert_by_In : forall A (key : A -> Z) x y l, In y (insert_by key x l) -> y = x \/ In y l.
Proof.
  intros A key x y l. induction l as [|z l IH]; cbn [insert_by]; [intros [->|[]]; auto|].
  destruct ((key z =? key x) && negb (existsb (fun w => key w =? key x) l)).
  - intros [->|[->|H]]; auto; right; [left|right]; auto.
  - intros [->|H]; [right; left; auto|]. destruct (IH H); auto. right; right; auto.
Qed.
Lemma group_by_topic_In : forall asg x, In x (group_by_topic asg) -> In x asg.
Proof.
  intros asg x. unfold group_by_topic.
  assert (G : forall l acc, In x (fold_left (fun acc tp => insert_by fst tp acc) l acc) -> In x l \/ In x acc).
  { induction l as [|y l IH]; cbn [fold_left]; intros acc H; [auto|].
    destruct (IH _ H) as [X|X]; [left; right; auto|]. apply insert_by_In in X. destruct X as [->|X]; [left; left; auto|auto]. }
  intros H. destruct (G _ _ H) as [X|[]]; auto.
Qed.

Lemma start_consumers_spec : forall tps s, let s' := fst (start_consumers tps s) in
  same_core (set_consumers (consumers s') s) s' /\
  (forall P : consumer -> Prop, Forall P (consumers s) ->
     (forall t p cid, In (t, p) tps -> P (mkC cid t p (generation s) (member s) false)) -> Forall P (consumers s')).
Proof.
  induction tps as [|[t p] tps IH]; intros s; cbn [start_consumers].
  - unfold skip. cbn [fst]. split; [ds s; frame|auto].
  - unfold seq.
    set (s1 := set_consumers (insert_by c_topic (mkC (next_cid s) t p (generation s) (member s) false) (consumers s)) (set_next_cid (next_cid s + 1) s)).
    change (fst (let (s2, o2) := start_consumers tps s1 in (s2, [OStartC (c_id (mkC (next_cid s) t p (generation s) (member s) false)) t p
               (c_gen (mkC (next_cid s) t p (generation s) (member s) false)) (c_mem (mkC (next_cid s) t p (generation s) (member s) false))] ++ o2)))
      with (fst (start_consumers tps s1)).
    destruct (IH s1) as [A B]. split.
    + subst s1. ds s. unfold same_core in *. prj. exact A.
    + intros P HP HA. apply B.
      * subst s1. ds s. prj. apply insert_by_Forall; auto. apply HA. left; auto.
      * intros t' p' cid Hin. subst s1. ds s. prj. apply HA. right; auto.
Qed.

Lemma seq_fst : forall (a b : act) s, fst ((a ;; b) s) = fst (b (fst (a s))).
Proof. intros. unfold seq. destruct (a s) as [s1 o1]. destruct (b s1). reflexivity. Qed.

Lemma reset_hb_fst : forall s, fst (reset_heartbeat_timer s) = set_hb_running true s.
Proof. intros s. unfold reset_heartbeat_timer. destruct (hb_running s) eqn:E; cbn [fst]; [|reflexivity]. ds s. cbn in E. subst. reflexivity. Qed.

Lemma on_sync_ok_Inv : forall gid asg s, Jcore (Some (gid, true)) s -> stop_pend s = false ->
  Inv (fst ((upd (set_cur_assign asg) ;; reset_heartbeat_timer ;; upd (set_rejoin_needed false) ;; on_join_complete asg ;; gen_end) s)).
Proof.
  intros gid asg s H SP. apply stop_pend_false in SP. destruct SP as [Hs Hr].
  rewrite !seq_fst. unfold upd at 1 2. cbn [fst]. rewrite reset_hb_fst.
  set (sA := set_rejoin_needed false (set_hb_running true (set_cur_assign asg s))).
  assert (C0 : consumers s = []) by apply (adv_cons_nil _ _ H).
  assert (G0 : gens s = [] /\ rejoin_d s = Some gid) by apply (j8 _ _ H Hs).
  assert (X : exists cs', same_core (set_consumers cs' sA) (fst (on_join_complete asg sA)) /\
                          Forall (cons_ok (generation s) (member s) asg) cs' /\ (is_group s = false -> cs' = [])).
  { unfold on_join_complete. destruct (is_group sA) eqn:G.
    - replace (stop_requested sA) with false by (subst sA; ds s; auto).
      destruct (start_consumers_spec (group_by_topic asg) sA) as [A B].
      exists (consumers (fst (start_consumers (group_by_topic asg) sA))). split; [exact A|]. split.
      + apply B; [subst sA; ds s; prj; subst; constructor|].
        intros t p cid Hin. subst sA. ds s. prj. unfold cons_ok. cbn. repeat split; auto. apply group_by_topic_In; auto.
      + intros E. subst sA. ds s. cbn in G, E. congruence.
    - exists []. cbn [fst]. split; [subst sA; ds s; prj; subst; frame|]. split; [constructor|auto]. }
  destruct X as (cs' & SC & FA & NG).
  set (sB := fst (on_join_complete asg sA)) in *. clearbody sB.
  assert (JB : Jcore None (set_rejoin_d None (set_consumers cs' sA))).
  { subst sA. destruct G0 as [G1 G2]. ds s. prj. subst. jgo. intros; discriminate. }
  assert (SC' : same_core (set_rejoin_d None (set_consumers cs' sA)) (fst (gen_end sB))).
  { unfold gen_end, upd. cbn [fst]. subst sA. ds s. destruct sB. unfold same_core in *. prj. intuition. }
  constructor.
  - eapply Jcore_frame; [exact SC'|exact JB].
  - unfold same_core in SC'. destruct SC' as (_&_&_&_&E1&E2&_&_&_&E3&_). unfold Stab. rewrite E1, E2, E3. subst sA. ds s. prj. auto.
  - unfold same_core in SC'. destruct SC' as (_&_&_&_&E1&E2&_&_&_&E3&_). unfold Prog, progress. rewrite E1, E3. intros. right. left. subst sA. ds s. prj. auto.
Qed.

Lemma on_sync_Inv : forall rid r s, Inv s -> Inv (fst (on_sync rid r s)).
Proof.
  intros rid r s H. unfold on_sync. apply with_gen_Inv; auto. intros g rest T.
  pose proof (take_gen_J _ _ _ _ (i_core _ H) T) as (J1 & N1 & NP).
  assert (Ag : adv g = true).
  { apply take_first_cnt with (p := adv) in T. destruct T as (T & _). apply awaits_adv in T. exact T. }
  rewrite Ag in J1. pose proof (set_gens_stab rest s (i_stab _ H)) as St.
  assert (NP' : start_d (set_gens rest s) <> None \/ stopping (set_gens rest s) = true) by (ds s; exact NP).
  destruct r as [asg| | |k]; try apply (rae_end_Inv _ _ _ J1 NP').
  all: destruct (stop_pend (set_gens rest s)) eqn:SP;
    [apply (gen_end_Inv _ _ J1 St); apply stop_pend_cases in SP; intuition|].
  - apply (on_sync_ok_Inv _ _ _ J1 SP).
  - apply (gen_fail_Inv _ _ _ J1 St NP').
  - apply (gen_fail_Inv _ _ _ J1 St NP').
Qed.
