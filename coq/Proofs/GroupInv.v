(* Invariants of Model/Group.v: every state reachable by ANY event list satisfies [Inv].
   Used by Proofs/GroupC16.v and Proofs/GroupC17.v. *)
From Coq Require Import Lia.
From AV Require Import Base.Util Model.Group Model.GroupObs.

(* ---------- counting ---------- *)
Definition cnt {A} (p : A -> bool) (l : list A) : nat := length (filter p l).
Definition b2n (b : bool) : nat := if b then 1%nat else 0%nat.

Lemma cnt_nil : forall A (p : A -> bool), cnt p [] = 0%nat. Proof. reflexivity. Qed.
Lemma cnt_cons : forall A (p : A -> bool) x l, cnt p (x :: l) = (b2n (p x) + cnt p l)%nat.
Proof. intros. unfold cnt. cbn. destruct (p x); reflexivity. Qed.
Lemma cnt_app : forall A (p : A -> bool) l l', cnt p (l ++ l') = (cnt p l + cnt p l')%nat.
Proof. intros. unfold cnt. rewrite filter_app, app_length. reflexivity. Qed.
Lemma cnt_map : forall A (p : A -> bool) (f : A -> A) l, (forall x, p (f x) = p x) -> cnt p (map f l) = cnt p l.
Proof. intros A p f l H. induction l as [|x l IH]; [reflexivity|]. cbn [map]. rewrite !cnt_cons, H, IH. reflexivity. Qed.
Lemma cnt_zero_in : forall A (p : A -> bool) l x, cnt p l = 0%nat -> In x l -> p x = false.
Proof.
  induction l as [|y l IH]; intros x H Hin; [destruct Hin|]. rewrite cnt_cons in H. destruct Hin as [->|Hin].
  - destruct (p x); [cbn in H; lia|reflexivity].
  - apply IH; auto. lia.
Qed.
Lemma cnt_filter_le : forall A (p q : A -> bool) l, (cnt p (filter q l) <= cnt p l)%nat.
Proof. induction l as [|y l IH]; [cbn; lia|]. cbn [filter]. destruct (q y); rewrite !cnt_cons; lia. Qed.

Lemma take_first_cnt : forall A (q p : A -> bool) l x r,
  take_first q l = Some (x, r) -> q x = true /\ cnt p l = (b2n (p x) + cnt p r)%nat /\ length l = S (length r).
Proof.
  induction l as [|y l IH]; cbn [take_first]; intros x r H; [discriminate|].
  destruct (q y) eqn:E.
  - inversion H; subst. rewrite cnt_cons. auto.
  - destruct (take_first q l) as [[z r']|] eqn:T; [|discriminate]. inversion H; subst.
    destruct (IH _ _ eq_refl) as (Hq & Hc & Hl). rewrite !cnt_cons, Hc. cbn [length]. repeat split; auto; lia.
Qed.
Lemma take_first_in : forall A (q : A -> bool) l x r, take_first q l = Some (x, r) -> In x l /\ (forall y, In y r -> In y l).
Proof.
  induction l as [|y l IH]; cbn [take_first]; intros x r H; [discriminate|].
  destruct (q y) eqn:E.
  - inversion H; subst. split; [left; auto|intros; right; auto].
  - destruct (take_first q l) as [[z r']|] eqn:T; [|discriminate]. inversion H; subst.
    destruct (IH _ _ eq_refl) as (Hi & Hr). split; [right; auto|]. intros w [->|Hw]; [left; auto|right; auto].
Qed.
Lemma take_first_single : forall A (q : A -> bool) g x r, take_first q [g] = Some (x, r) -> x = g /\ r = [].
Proof. intros A q g x r. cbn. destruct (q g); intros H; inversion H; auto. Qed.
Lemma take_first_none : forall A (q : A -> bool) l, take_first q l = None -> forall x, In x l -> q x = false.
Proof.
  induction l as [|y l IH]; cbn [take_first]; intros H x Hin; [destruct Hin|].
  destruct (q y) eqn:E; [discriminate|]. destruct (take_first q l) as [[z r']|]; [discriminate|].
  destruct Hin as [->|Hin]; auto.
Qed.
Global Opaque cnt.

(* ---------- the invariant ---------- *)
Definition pristine (s : state) : Prop :=
  gens s = [] /\ consumers s = [] /\ stops s = [] /\ hb_running s = false /\ hb_req s = None /\ timers s = [] /\
  rejoin_d s = None /\ rejoin_needed s = true /\ dc s = DcNone /\ stop_requested s = false /\ escaped s = false.

Definition cons_ok (g m : Z) (ca : list (Z * Z)) (c : consumer) : Prop :=
  c_gen c = g /\ c_mem c = m /\ In (c_topic c, c_part c) ca.

(* [r]: the _join_and_sync generator that is executing right now (taken out of [gens], owner of [rejoin_d]):
   its id and whether it is past the metadata load *)
Definition radv (r : option (Z * bool)) : nat := match r with Some (_, true) => 1%nat | _ => 0%nat end.

Record Jcore (r : option (Z * bool)) (s : state) : Prop := mkJ {
  j1 : is_group s = false -> consumers s = [];
  j2 : consumers s = [] \/ (cnt adv (gens s) + radv r = 0)%nat;
  j3 : stop_requested s = true \/ stopping s = true -> consumers s = [];
  j4 : cnt has_s1 (stops s) = 0%nat \/ stop_requested s = true \/ stopping s = true;
  j5 : start_d s = None -> stopping s = true \/ (pristine s /\ r = None);
  j6 : cnt has_s2 (stops s) = 0%nat \/ (stopping s = true /\ start_d s <> None /\ cnt has_s2 (stops s) = 1%nat);
  j7 : (cnt adv (gens s) + radv r <= 1)%nat;
  j8 : stopping s = false ->
       match r with
       | None => (gens s = [] /\ rejoin_d s = None) \/ (exists g, gens s = [g] /\ rejoin_d s = Some (g_id g))
       | Some (gid, _) => gens s = [] /\ rejoin_d s = Some gid
       end;
  j9 : forall id, dc s = DcActive id -> In (id, TRejoin) (timers s);
  j10 : stopping s = false -> dc s <> DcStale;
  j12 : Forall (cons_ok (generation s) (member s) (cur_assign s)) (consumers s);
  j13 : stopping s = false -> gens s <> [] -> rejoin_needed s = true;
  j11 : stopping s = true -> rejoin_needed s = false;
  j14 : cnt has_s1 (stops s) = 0%nat \/ (cnt adv (gens s) + radv r = 0)%nat
}.

Definition Stab (s : state) : Prop := stopping s = false -> rejoin_needed s = false -> hb_running s = true.

Definition progress (s : state) : Prop :=
  gens s <> [] \/ (rejoin_needed s = false /\ hb_running s = true) \/ timers s <> [].
Definition Prog (s : state) : Prop :=
  start_d s <> None -> stopping s = false -> stop_requested s = false -> escaped s = false -> progress s.

Record Inv (s : state) : Prop := mkInv { i_core : Jcore None s; i_stab : Stab s; i_prog : Prog s }.

(* ---------- tactics ---------- *)
Ltac ds s := destruct s as [grp mem gn ck sd ns nst rn stp sr dc0 rd hbr hbq gs ng sts tms nt nr cs nc ca esc scl td].
Ltac prj := cbv beta iota zeta delta [is_group member generation coord_known start_d n_start n_stop rejoin_needed stopping stop_requested
                 dc rejoin_d hb_running hb_req gens next_gen stops timers next_timer next_rid consumers next_cid
                 cur_assign escaped stop_called tail_done
                 set_is_group set_member set_generation set_coord_known set_start_d set_n_start set_n_stop
                 set_rejoin_needed set_stopping set_stop_requested set_dc set_rejoin_d set_hb_running set_hb_req
                 set_gens set_next_gen set_stops set_timers set_next_timer set_next_rid set_consumers set_next_cid
                 set_cur_assign set_escaped set_stop_called set_tail_done fst snd andb negb] in *.
Ltac unf := repeat progress unfold gen_end, coord_retry, new_timer, remove_timer, add_gen, fresh_rid, seq, emit, emits, upd, skip in *.

Lemma init_inv : forall grp, Inv (init grp).
Proof.
  intros grp. constructor.
  - constructor; cbn; auto; try discriminate; try lia.
    all: try (intros _; right; split; auto; unfold pristine; cbn; repeat split; auto; fail).
  - intros _ H; cbn in H; discriminate.
  - intros H; cbn in H; congruence.
Qed.

Ltac jdes := match goal with H : Jcore _ _ |- _ => destruct H as [h1 h2 h3 h4 h5 h6 h7 h8 h9 h10 h12 h13 h11 h14] end.
Ltac fin := intuition (subst; auto with datatypes; try congruence; try discriminate; try lia).
Tactic Notation "clr" ident(x) ident(a) ident(b) ident(c) :=
  try (tryif first [constr_eq x a | constr_eq x b | constr_eq x c] then idtac else clear x).
Tactic Notation "keep" ident(a) ident(b) ident(c) :=
  clr h1 a b c; clr h2 a b c; clr h3 a b c; clr h4 a b c; clr h5 a b c; clr h6 a b c; clr h7 a b c;
  clr h8 a b c; clr h9 a b c; clr h10 a b c; clr h11 a b c; clr h12 a b c; clr h13 a b c; clr h14 a b c.
Tactic Notation "jq" ident(a) ident(b) ident(c) :=
  first [ assumption | solve [keep a a a; fin] | solve [keep a b b; fin] | solve [keep a b c; fin] | idtac ].
Ltac jgo := jdes; prj; constructor; prj; unfold pristine in *; prj; rewrite ?cnt_cons, ?cnt_nil, ?cnt_app in *; cbn [radv b2n] in *;
  [ jq h1 h3 h2 | jq h2 h3 h7 | jq h3 h2 h1 | jq h4 h5 h6 | jq h5 h8 h6 | jq h6 h5 h4 | jq h7 h2 h8 | jq h8 h13 h7 | jq h9 h10 h11 | jq h10 h9 h11
   | jq h12 h2 h3 | jq h13 h8 h11 | jq h11 h13 h8 | jq h14 h4 h2 ].
(* last resort: every clause at once (slow) *)
Ltac jfin := try solve [fin].

Lemma gen_end_J : forall r s, r <> None -> Jcore r s -> Jcore None (fst (gen_end s)).
Proof.
  intros r s Hr H. ds s. unf. destruct r as [[gid b]|]; [|congruence]. destruct b; jgo.
Qed.

Lemma add_gen_J : forall gid b g s, Jcore (Some (gid, b)) s -> g_id g = gid -> (adv g = true -> consumers s = [] /\ (b = true \/ (stopping s = false /\ stop_requested s = false))) ->
  (stopping s = false -> rejoin_needed s = true) -> Jcore None (add_gen g s).
Proof.
  intros gid b g s H Hg Ha Hn. ds s. unf. destruct b; destruct (adv g) eqn:Eg; jgo; rewrite ?Eg in *; cbn [b2n] in *; jfin.
  all: try (intros E; right; exists g; intuition (subst; auto; congruence)).
  all: try (destruct stp; intuition (subst; rewrite ?cnt_nil in *; auto; try congruence; try lia)).
Qed.

(* Jcore / Stab / Prog do not read the counters, coord_known or the ghost fields stop_called, tail_done *)
Definition same_core (s s' : state) : Prop :=
  is_group s' = is_group s /\ member s' = member s /\ generation s' = generation s /\ start_d s' = start_d s /\
  rejoin_needed s' = rejoin_needed s /\ stopping s' = stopping s /\ stop_requested s' = stop_requested s /\
  dc s' = dc s /\ rejoin_d s' = rejoin_d s /\ hb_running s' = hb_running s /\ hb_req s' = hb_req s /\
  gens s' = gens s /\ stops s' = stops s /\ timers s' = timers s /\ consumers s' = consumers s /\
  cur_assign s' = cur_assign s /\ escaped s' = escaped s.

Lemma Jcore_frame : forall r s s', same_core s s' -> Jcore r s -> Jcore r s'.
Proof.
  intros r s s' E H. ds s. destruct s'. unfold same_core in E. prj.
  destruct E as (?&?&?&?&?&?&?&?&?&?&?&?&?&?&?&?&?). subst. jgo.
Qed.
Ltac frame := unfold same_core; prj; repeat split; reflexivity.

Lemma ogl_J : forall r s, Jcore r s -> Jcore r (fst (on_group_leave s)) /\ consumers (fst (on_group_leave s)) = [].
Proof.
  intros r s H. unfold on_group_leave. destruct (is_group s) eqn:G; prj.
  - split; [|reflexivity]. ds s. jgo.
  - split; [assumption|]. apply (j1 _ _ H G).
Qed.

Lemma send_join_J : forall gid b s, Jcore (Some (gid, b)) s -> consumers s = [] -> (b = true \/ (stopping s = false /\ stop_requested s = false)) ->
  (stopping s = false -> rejoin_needed s = true) -> Jcore None (fst (send_join gid s)).
Proof.
  intros gid b s H Hc Hb Hn.
  change (fst (send_join gid s)) with (add_gen (mkGen gid (GJoin (next_rid s))) (set_next_rid (next_rid s + 1) s)).
  apply (add_gen_J gid b); auto.
  eapply Jcore_frame; [|exact H]. ds s. frame.
Qed.

Lemma send_sync_J : forall gid ld s, Jcore (Some (gid, true)) s -> consumers s = [] ->
  (stopping s = false -> rejoin_needed s = true) -> Jcore None (fst (send_sync gid ld s)).
Proof.
  intros gid ld s H Hc Hn.
  change (fst (send_sync gid ld s)) with (add_gen (mkGen gid (GSync (next_rid s))) (set_next_rid (next_rid s + 1) s)).
  apply (add_gen_J gid true); auto.
  eapply Jcore_frame; [|exact H]. ds s. frame.
Qed.

(* ---------- stop() ---------- *)
Lemma cancel_gen_J : forall r gid s, stopping s = true -> Jcore r s ->
  Jcore r (fst (cancel_gen gid s)) /\ same_core (set_rejoin_d (rejoin_d (fst (cancel_gen gid s))) (set_gens (gens (fst (cancel_gen gid s))) s)) (fst (cancel_gen gid s)).
Proof.
  intros r gid s Hs H. unfold cancel_gen.
  destruct (take_first (fun g => g_id g =? gid) (gens s)) as [[g rest]|] eqn:T.
  - pose proof (take_first_cnt _ _ adv _ _ _ T) as (_ & Hc & _).
    assert (X : forall rid, Jcore r (fst ((emit (OCancelReq rid) ;; gen_end) (set_gens rest s)))).
    { intros rid. ds s. unf. prj. subst. jgo. }
    assert (Y : forall l, Jcore r (fst ((emits (stop_pending l) ;; gen_end) (set_gens rest s)))).
    { intros l. ds s. unf. prj. subst. jgo. }
    destruct (g_ph g); (split; [auto|]); ds s; frame.
  - split; auto. ds s. frame.
Qed.

Lemma cancel_gen_fields : forall gid s, let s' := fst (cancel_gen gid s) in
  stopping s' = stopping s /\ start_d s' = start_d s /\ stop_requested s' = stop_requested s /\ consumers s' = consumers s /\
  stops s' = stops s /\ is_group s' = is_group s /\ timers s' = timers s /\ dc s' = dc s /\ rejoin_needed s' = rejoin_needed s /\
  hb_running s' = hb_running s /\ escaped s' = escaped s.
Proof.
  intros gid s. unfold cancel_gen. destruct (take_first _ (gens s)) as [[g rest]|]; [|cbn; repeat split; reflexivity].
  destruct (g_ph g); ds s; unf; cbn; repeat split; reflexivity.
Qed.

Lemma stop_tail_J : forall r st s, stopping s = true -> cnt has_s2 (stops s) = 0%nat -> Jcore r s ->
  Jcore r (fst (stop_tail st s)) /\ stopping (fst (stop_tail st s)) = true.
Proof.
  intros r st s Hs H2 H. unfold stop_tail.
  assert (X : exists s1 o1, (match rejoin_d s with Some gid => cancel_gen gid (set_rejoin_d None s) | None => (s, []) end) = (s1, o1)
            /\ Jcore r s1 /\ stopping s1 = true /\ cnt has_s2 (stops s1) = 0%nat).
  { destruct (rejoin_d s) as [gid|] eqn:R.
    - destruct (cancel_gen gid (set_rejoin_d None s)) as [s1 o1] eqn:C. exists s1, o1. split; auto.
      assert (J0 : Jcore r (set_rejoin_d None s)). { clear C. ds s. prj. subst. jgo. }
      assert (S0 : stopping (set_rejoin_d None s) = true) by (ds s; exact Hs).
      pose proof (cancel_gen_J r gid _ S0 J0) as [J1 _]. pose proof (cancel_gen_fields gid (set_rejoin_d None s)) as F.
      rewrite C in J1, F. cbn [fst] in J1, F. destruct F as (F1 & _ & _ & _ & F5 & _).
      split; auto. split; [rewrite F1; auto|]. rewrite F5. ds s. exact H2.
    - exists s, []. auto. }
  destruct X as (s1 & o1 & -> & J1 & S1 & C1). clear H Hs H2.
  ds s1. prj. subst. destruct grp; destruct sd as [idx|]; unfold finish_stop; prj; (split; [|reflexivity]); jgo.
Qed.

Lemma coord_stop_J : forall r st s, Jcore r s -> consumers s = [] ->
  let s' := fst (coord_stop st s) in
  Jcore r s' /\ (start_d s <> None \/ stopping s = true -> stopping s' = true) /\
  (start_d s = None -> stopping s = false -> same_core (if is_group s then set_stop_requested false s else s) s').
Proof.
  intros r st s H Hc. ds s. prj. subst cs.
  destruct sd as [idx|].
  2:{ destruct grp; unfold coord_stop, finish_stop; prj; (split; [jgo|split; [intros [X|X]; [congruence|exact X]|intros _ _; frame]]). }
  destruct stp.
  { destruct grp; unfold coord_stop, finish_stop; prj; (split; [jgo|split; [intros _; reflexivity|intros; congruence]]). }
  assert (C2 : cnt has_s2 sts = 0%nat). { destruct H. prj. intuition congruence. }
  destruct dc0 as [|id|].
  3:{ destruct grp; unfold coord_stop, finish_stop; prj; (split; [jgo|split; [intros _; reflexivity|intros; congruence]]). }
  all: destruct hbq as [rid|]; destruct hbr; destruct ck; destruct (mem =? 0) eqn:M;
       unfold coord_stop, finish_stop, hb_stop, remove_timer; prj; rewrite ?M; prj.
  all: try match goal with |- context [stop_tail ?st0 ?s0] =>
         let X := fresh in assert (X : Jcore r s0) by jgo;
         let Y := fresh in pose proof (stop_tail_J r st0 s0 eq_refl C2 X) as Y;
         destruct (stop_tail st0 s0) as [s3 o4]; prj; destruct Y; split; [|split; [intros _|intros; congruence]]; assumption end.
  all: (split; [|split; [intros _|intros; congruence]]; [jgo|reflexivity]).
Qed.
