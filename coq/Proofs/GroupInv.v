(* Invariants of Model/Group.v: definitions, helper-level preservation lemmas, and the main induction
   (every state reachable by any event list satisfies [inv]).  Used by Proofs/GroupC16.v and GroupC17.v. *)
From Coq Require Import Lia Permutation.
From AV Require Import Base.Util Model.Group.

(* ---------- vocabulary ---------- *)
Definition adv (g : gen) : bool := match g_ph g with GLookup _ | GMeta _ => false | _ => true end.
Definition is_prep (g : gen) : bool := match g_ph g with GPrepare _ => true | _ => false end.
Definition tail_ok (g : gen) : bool := match g_ph g with GLookup _ | GMeta _ | GJoin _ => true | _ => false end.
Definition has_s1 (st : stopi) : bool := match st_ph st with S1 _ => true | _ => false end.
Definition has_s2 (st : stopi) : bool := match st_ph st with S2 _ => true | _ => false end.
Definition none {A} (p : A -> bool) (l : list A) : Prop := Forall (fun x => p x = false) l.

Definition pristine (s : state) : Prop :=
  gens s = [] /\ consumers s = [] /\ stops s = [] /\ hb_running s = false /\ hb_req s = None /\ timers s = [] /\
  rejoin_d s = None /\ rejoin_needed s = true /\ dc s = DcNone /\ stop_requested s = false /\ escaped s = false /\
  stop_called s = false /\ tail_done s = false.

Definition cons_ok (s : state) (c : consumer) : Prop :=
  c_gen c = generation s /\ c_mem c = member s /\ In (c_topic c, c_part c) (cur_assign s).

Record inv_core (s : state) : Prop := mkCore {
  c_nogroup : is_group s = false ->
              consumers s = [] /\ none is_prep (gens s) /\ none has_s1 (stops s) /\ stop_requested s = false;
  c_adv : consumers s = [] \/ none adv (gens s);
  c_stopcons : stop_requested s = true \/ stopping s = true -> consumers s = [];
  c_s1 : none has_s1 (stops s) \/ stop_requested s = true \/ stopping s = true;
  c_unstarted : start_d s = None -> stopping s = true \/ pristine s;
  c_s2 : none has_s2 (stops s) \/ (stopping s = true /\ start_d s <> None /\ tail_done s = false);
  c_s2count : (length (filter has_s2 (stops s)) <= 1)%nat;
  c_advcount : (length (filter adv (gens s)) <= 1)%nat;
  c_two : tail_done s = false -> forall g, In g (gens s) -> adv g = true -> gens s = [g] /\ rejoin_d s = Some (g_id g);
  c_dc : forall id, dc s = DcActive id -> In (id, TRejoin) (timers s);
  c_dcstale : stopping s = false -> dc s <> DcStale;
  c_called : stop_called s = true -> start_d s <> None \/ stopping s = true;
  c_called2 : is_group s = true -> stop_called s = true -> stop_requested s = true \/ stopping s = true;
  c_tail : tail_done s = true ->
           stopping s = true /\ none has_s2 (stops s) /\ Forall (fun g => tail_ok g = true) (gens s);
  c_stophb : stopping s = true -> hb_running s = false /\ hb_req s = None;
  c_cons : Forall (cons_ok s) (consumers s);
  c_s1called : none has_s1 (stops s) \/ stop_called s = true;
  c_req : stop_requested s = true -> stops s <> [] \/ stopping s = true;
  c_hbreq : hb_req s <> None -> hb_running s = true
}.

Definition progress (s : state) : Prop :=
  gens s <> [] \/ (rejoin_needed s = false /\ hb_running s = true) \/ timers s <> [].

Record inv (s : state) : Prop := mkInv {
  i_core : inv_core s;
  i_single : stopping s = false ->
             (gens s = [] /\ rejoin_d s = None) \/ (exists g, gens s = [g] /\ rejoin_d s = Some (g_id g));
  i_needed : stopping s = false -> gens s <> [] -> rejoin_needed s = true;
  i_stable : stopping s = false -> rejoin_needed s = false -> hb_running s = true /\ coord_known s = true;
  i_progress : start_d s <> None -> stopping s = false -> stop_requested s = false -> escaped s = false -> progress s
}.

(* ---------- lists ---------- *)
Lemma take_first_some : forall A (p : A -> bool) l x r,
  take_first p l = Some (x, r) -> p x = true /\ Permutation l (x :: r).
Proof.
  induction l as [|y l IH]; cbn; intros x r H; [discriminate|].
  destruct (p y) eqn:E.
  - inversion H; subst. split; auto.
  - destruct (take_first p l) as [[z r']|] eqn:T; [|discriminate]. inversion H; subst.
    destruct (IH _ _ eq_refl) as [Hp Hperm]. split; auto.
    eapply perm_trans; [apply perm_skip; exact Hperm| apply perm_swap].
Qed.

Lemma take_first_none : forall A (p : A -> bool) l, take_first p l = None -> none p l.
Proof.
  induction l as [|y l IH]; cbn; intros H; [constructor|].
  destruct (p y) eqn:E; [discriminate|]. destruct (take_first p l) as [[z r']|]; [discriminate|].
  constructor; auto. apply IH; auto.
Qed.

Lemma perm_filter_length : forall A (f : A -> bool) l l',
  Permutation l l' -> length (filter f l) = length (filter f l').
Proof.
  induction 1; cbn; auto.
  - destruct (f x); cbn; auto.
  - destruct (f x), (f y); cbn; auto.
  - congruence.
Qed.

Lemma none_perm : forall A (p : A -> bool) l l', Permutation l l' -> none p l -> none p l'.
Proof. intros. eapply Permutation_Forall; eauto. Qed.

Lemma none_filter_nil : forall A (p : A -> bool) l, none p l -> filter p l = [].
Proof. induction 1; cbn; auto. rewrite H. auto. Qed.

Lemma none_cons : forall A (p : A -> bool) x l, none p (x :: l) <-> p x = false /\ none p l.
Proof. intros. split; intros H. inversion H; auto. destruct H; constructor; auto. Qed.

(* ---------- tactics ---------- *)
Ltac unf := unfold seq, emit, emits, upd, skip, fresh_rid, gen_end, add_gen, remove_timer in *.
Ltac prj := cbn [is_group member generation coord_known start_d n_start n_stop rejoin_needed stopping stop_requested
                 dc rejoin_d hb_running hb_req gens next_gen stops timers next_timer next_rid consumers next_cid
                 cur_assign escaped stop_called tail_done
                 set_is_group set_member set_generation set_coord_known set_start_d set_n_start set_n_stop
                 set_rejoin_needed set_stopping set_stop_requested set_dc set_rejoin_d set_hb_running set_hb_req
                 set_gens set_next_gen set_stops set_timers set_next_timer set_next_rid set_consumers set_next_cid
                 set_cur_assign set_escaped set_stop_called set_tail_done fst snd] in *.

Lemma pristine_nostop : forall s, pristine s -> stops s = [] /\ consumers s = [] /\ gens s = [] /\ stop_called s = false.
Proof. unfold pristine; intuition. Qed.

(* ---------- on_group_leave ---------- *)
Lemma ogl_state : forall s, fst (on_group_leave s) = if is_group s then set_consumers [] s else s.
Proof. intros. unfold on_group_leave. destruct (is_group s); reflexivity. Qed.

Lemma ogl_cons_nil : forall s, inv_core s -> consumers (fst (on_group_leave s)) = [].
Proof.
  intros s H. rewrite ogl_state. destruct (is_group s) eqn:G; prj; auto.
  apply (c_nogroup s H G).
Qed.

Lemma core_set_consumers_nil : forall s, inv_core s -> inv_core (set_consumers [] s).
Proof.
  intros s H. destruct H. constructor; prj; auto.
  - intros G. destruct (c_nogroup0 G) as (_ & ? & ? & ?). auto.
  - intros E. destruct (c_unstarted0 E) as [?|P]; auto. right.
    unfold pristine in *; prj. intuition.
Qed.

Lemma ogl_core : forall s, inv_core s -> inv_core (fst (on_group_leave s)).
Proof. intros. rewrite ogl_state. destruct (is_group s); auto using core_set_consumers_nil. Qed.
