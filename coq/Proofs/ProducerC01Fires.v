(* Which caller Deferreds each helper of Model/Producer.v fires: every outcome goes to a send id that is in
   [outstanding] at that moment and removes it (so nothing fires twice), with what outcome, and which sends of
   the batch are left unfired. *)
From AV Require Import Base.Util Model.Producer Proofs.ProducerBase Proofs.ProducerC01Spec Proofs.ProducerC01Lists.
From Coq Require Import Lia.

Arguments K_BROKER : simpl never.
Ltac splits := repeat match goal with |- _ /\ _ => split end.

(* ------------------------------------------------------------------ fires *)
Record fires (s s' : state) (out : list output) : Prop := {
  f_sub : incl (oids out) (outstanding s);
  f_nd : NoDup (outstanding s) -> NoDup (oids out);
  f_out : outstanding s' = minus (outstanding s) (oids out) }.

Lemma fires_same : forall s s' out, outstanding s' = outstanding s -> oids out = [] -> fires s s' out.
Proof.
  intros s s' out H E; constructor; rewrite E.
  - intros x [].
  - constructor.
  - rewrite minus_nil; auto.
Qed.
Lemma fires_refl : forall s, fires s s [].
Proof. intros; apply fires_same; auto. Qed.

Lemma fires_trans : forall s s1 s2 o1 o2, fires s s1 o1 -> fires s1 s2 o2 -> fires s s2 (o1 ++ o2).
Proof.
  intros s s1 s2 o1 o2 [A1 A2 A3] [B1 B2 B3]; constructor; rewrite oids_app.
  - apply incl_app; auto. intros x Hx. apply B1 in Hx. rewrite A3 in Hx. apply In_minus in Hx; tauto.
  - intros N. assert (N1 : NoDup (outstanding s1)) by (rewrite A3; apply NoDup_minus; auto).
    apply NoDup_app_intro; auto.
    intros x H1 H2. apply B1 in H2. rewrite A3 in H2. apply In_minus in H2; tauto.
  - rewrite B3, A3. apply minus_app.
Qed.

Lemma fires_sub : forall s s' out, fires s s' out -> incl (outstanding s') (outstanding s).
Proof. intros s s' out [_ _ E] x H. rewrite E in H. apply In_minus in H; tauto. Qed.
Lemma fires_gone : forall s s' out x, fires s s' out -> In x (oids out) -> ~ In x (outstanding s').
Proof. intros s s' out x [_ _ E] H I. rewrite E in I. apply In_minus in I; tauto. Qed.
Lemma fires_stay : forall s s' out x, fires s s' out -> In x (outstanding s) -> ~ In x (oids out) -> In x (outstanding s').
Proof. intros s s' out x [_ _ E] H I. rewrite E. apply In_minus; auto. Qed.
Lemma fires_eq_out : forall s s0 s' out, outstanding s0 = outstanding s -> fires s0 s' out -> fires s s' out.
Proof. intros s s0 s' out E [A B C]; constructor; rewrite <- E; auto. Qed.
Lemma fires_eq_out' : forall s s1 s' out, outstanding s' = outstanding s1 -> fires s s1 out -> fires s s' out.
Proof. intros s s1 s' out E [A B C]; constructor; auto; congruence. Qed.

(* every outcome of [out] is a failure *)
Definition all_fail (out : list output) : Prop :=
  forall sid oc, In (OOutcome sid oc) out -> exists k f, oc = OFail k f.
Lemma all_fail_app : forall a b, all_fail a -> all_fail b -> all_fail (a ++ b).
Proof. intros a b A B sid oc H. apply in_app_or in H as [H|H]; eauto. Qed.
Lemma all_fail_nil : all_fail []. Proof. intros ? ? []. Qed.
Lemma all_fail_no_outcome : forall l, oids l = [] -> all_fail l.
Proof. intros l E sid oc H. assert (I : In sid (oids l)) by (apply In_oids; eauto). rewrite E in I; destruct I. Qed.
#[export] Hint Resolve all_fail_app all_fail_nil : prod.

(* ------------------------------------------------------------------ deliver *)
Lemma deliver_fires : forall l s o s' out, deliver s l o = (s', out) -> fires s s' out.
Proof.
  induction l as [|x r IH]; simpl; intros s o s' out H.
  - inv H. apply fires_refl.
  - destruct (zmem (s_id x) (outstanding s)) eqn:M.
    + destruct (deliver _ r o) as [s1 o1] eqn:E. inv H. apply IH in E.
      change (OOutcome (s_id x) o :: o1) with ([OOutcome (s_id x) o] ++ o1).
      eapply fires_trans; [|exact E]. constructor; simpl.
      * intros y [<- |[]]. apply zmem_In; auto.
      * intros _; repeat constructor; simpl; tauto.
      * apply zremove_minus.
    + eapply IH; eauto.
Qed.

Lemma deliver_outs : forall l s o s' out sid oc, deliver s l o = (s', out) -> In (OOutcome sid oc) out ->
  oc = o /\ exists x, In x l /\ s_id x = sid.
Proof.
  induction l as [|x r IH]; simpl; intros s o s' out sid oc H I.
  - inv H. destruct I.
  - destruct (zmem (s_id x) (outstanding s)).
    + destruct (deliver _ r o) as [s1 o1] eqn:E. inv H. destruct I as [I|I].
      * inv I. split; eauto.
      * eapply IH in E as (A & y & B & C); eauto.
    + eapply IH in H as (A & y & B & C); eauto.
Qed.

Lemma deliver_clears : forall l s o s' out x, deliver s l o = (s', out) -> In x l -> ~ In (s_id x) (outstanding s').
Proof.
  induction l as [|y r IH]; simpl; intros s o s' out x H I; [tauto|].
  destruct (zmem (s_id y) (outstanding s)) eqn:M.
  - destruct (deliver _ r o) as [s1 o1] eqn:E. inv H. destruct I as [<- |I]; [|eapply IH; eauto].
    apply deliver_fires in E. intros C. apply (fires_sub _ _ _ E) in C. simpl in C.
    rewrite zremove_minus in C. apply In_minus in C. simpl in C; tauto.
  - destruct I as [<- |I]; [|eapply IH; eauto].
    apply deliver_fires in H. intros C. apply (fires_sub _ _ _ H) in C. apply zmem_false in M; tauto.
Qed.

(* ------------------------------------------------------------------ payload lists *)
Definition pls_wf (pls : list payload) : Prop :=
  NoDup (map p_tp pls) /\ forall p x, In p pls -> In x (p_sends p) -> fst (p_tp p) = s_topic x.

Lemma find_payload_in : forall pls p, NoDup (map p_tp pls) -> In p pls -> find_payload pls (p_tp p) = Some p.
Proof.
  unfold find_payload; induction pls as [|q r IH]; simpl; intros p N I; [tauto|]. inversion N; subst.
  destruct I as [-> |I]; [rewrite tp_eqb_refl; auto|].
  destruct (tp_eqb (p_tp q) (p_tp p)) eqn:E; [|auto].
  apply tp_eqb_eq in E. exfalso; apply H1. rewrite E. apply in_map; auto.
Qed.
Lemma find_payload_some : forall pls x p, find_payload pls x = Some p -> In p pls /\ p_tp p = x.
Proof.
  unfold find_payload; intros pls x p H. apply find_some in H as [A B]. apply tp_eqb_eq in B; auto.
Qed.
Lemma sends_of_in : forall pls p, NoDup (map p_tp pls) -> In p pls -> sends_of pls (p_tp p) = p_sends p.
Proof. unfold sends_of; intros. rewrite find_payload_in; auto. Qed.
Lemma sends_of_some : forall pls x y, In y (sends_of pls x) -> exists p, In p pls /\ p_tp p = x /\ In y (p_sends p).
Proof.
  unfold sends_of; intros pls x y H. destruct (find_payload pls x) as [p|] eqn:E; [|destruct H].
  apply find_payload_some in E as [A B]; eauto.
Qed.
Lemma In_all_sends : forall pls y, In y (all_sends pls) <-> exists p, In p pls /\ In y (p_sends p).
Proof. unfold all_sends; intros; apply in_flat_map. Qed.

Lemma add_to_payload_in : forall pls x r y,
  In y (all_sends (add_to_payload pls x r)) <-> In y (all_sends pls) \/ y = r.
Proof.
  unfold all_sends; induction pls as [|p rest IH]; simpl; intros x r y.
  - intuition.
  - destruct (tp_eqb (p_tp p) x); simpl; rewrite ?in_app_iff; simpl.
    + intuition.
    + rewrite IH. intuition.
Qed.
Lemma add_to_payload_tps : forall pls x r, map p_tp (add_to_payload pls x r) = map p_tp pls ++ (if tpmem x (map p_tp pls) then [] else [x]).
Proof.
  induction pls as [|p rest IH]; simpl; intros x r; auto.
  destruct (tp_eqb (p_tp p) x) eqn:E; simpl.
  - apply tp_eqb_eq in E. unfold tpmem; simpl. rewrite <- E, tp_eqb_refl. simpl. rewrite app_nil_r; auto.
  - rewrite IH. unfold tpmem; simpl. assert (E' : tp_eqb x (p_tp p) = false).
    { destruct (tp_eqb x (p_tp p)) eqn:F; auto. apply tp_eqb_eq in F. subst. rewrite tp_eqb_refl in E; discriminate. }
    rewrite E'; simpl; auto.
Qed.
Lemma add_to_payload_wf : forall pls t p r, s_topic r = t -> pls_wf pls -> pls_wf (add_to_payload pls (t, p) r).
Proof.
  intros pls t p r T [N W]; split.
  - rewrite add_to_payload_tps. destruct (tpmem (t, p) (map p_tp pls)) eqn:E; [rewrite app_nil_r; auto|].
    apply tpmem_false in E. apply NoDup_app_intro; auto; [repeat constructor; simpl; tauto|].
    intros y A [<- |[]]; tauto.
  - clear N. induction pls as [|q rest IH]; simpl; intros pl x I J.
    + destruct I as [<- |[]]. simpl in *. destruct J as [<- |[]]; auto.
    + destruct (tp_eqb (p_tp q) (t, p)) eqn:E.
      * apply tp_eqb_eq in E. destruct I as [<- |I]; simpl in *.
        -- apply in_app_or in J as [J|[<- |[]]]; auto. rewrite <- (W q x); auto. rewrite E; auto.
        -- eapply W; eauto.
      * destruct I as [<- |I]; [eapply W; eauto; simpl; auto|].
        apply IH; auto. intros; eapply W; eauto; simpl; auto.
Qed.

(* ------------------------------------------------------------------ group_requests *)
Lemma group_requests_sum : forall reqs res s pls s' out pls',
  group_requests s reqs res pls = (s', out, pls') -> length res = length reqs -> pls_wf pls ->
  fires s s' out /\ all_fail out /\ pls_wf pls' /\
  (forall y, In y (all_sends pls') -> In y (all_sends pls) \/ In y reqs) /\
  (forall y, In y (all_sends pls) -> In y (all_sends pls')) /\
  (forall x, In x reqs -> In (s_id x) (outstanding s') -> In x (all_sends pls')).
Proof.
  induction reqs as [|x r IH]; cbn [group_requests]; intros res s pls s' out pls' H L W.
  - inv H. splits; auto using fires_refl with prod. intros ? [].
  - destruct res as [|y res]; [discriminate|]. simpl in L. assert (L' : length res = length r) by lia.
    destruct (negb (zmem (s_id x) (outstanding s))) eqn:M.
    + apply negb_true_iff, zmem_false in M.
      destruct (IH _ _ _ _ _ _ H L' W) as (A & B & C & D & E & F). splits; auto.
      * intros z Hz. apply D in Hz as [?|?]; simpl; auto.
      * intros z [<- |Hz] O; auto. exfalso. apply (fires_sub _ _ _ A) in O; tauto.
    + destruct y.
      * assert (W' : pls_wf (add_to_payload pls (s_topic x, p) x)) by (apply add_to_payload_wf; auto).
        destruct (IH _ _ _ _ _ _ H L' W') as (A & B & C & D & E & F). splits; auto.
        -- intros z Hz. apply D in Hz as [Hz|?]; simpl; auto. apply add_to_payload_in in Hz as [?| ->]; auto.
        -- intros z Hz. apply E. apply add_to_payload_in; auto.
        -- intros z [<- |Hz] O; auto. apply E. apply add_to_payload_in; auto.
      * destruct (deliver s [x] (OFail k 0)) as [s1 o1] eqn:E1.
        destruct (group_requests s1 r res pls) as [[s2 o2] pls2] eqn:E2. inv H.
        destruct (IH _ _ _ _ _ _ E2 L' W) as (A & B & C & D & E & F).
        pose proof (deliver_fires _ _ _ _ _ E1) as F1. splits; auto.
        -- eapply fires_trans; eauto.
        -- apply all_fail_app; auto. intros sid oc I. eapply deliver_outs in I as [-> _]; eauto.
        -- intros z Hz. apply D in Hz as [?|?]; simpl; auto.
        -- intros z [<- |Hz] O; auto. exfalso.
           apply (fires_sub _ _ _ A) in O. eapply deliver_clears in O; eauto. simpl; auto.
Qed.

(* ------------------------------------------------------------------ responses *)
Definition clear (s : state) (pls : list payload) (cur : list tp) : Prop :=
  forall p x, In p pls -> ~ In (p_tp p) cur -> In x (p_sends p) -> ~ In (s_id x) (outstanding s).

Lemma clear_mono : forall s s' pls cur, incl (outstanding s') (outstanding s) -> clear s pls cur -> clear s' pls cur.
Proof. intros s s' pls cur I C p x A B D E. eapply C; eauto. Qed.

(* what process_resps does: acknowledged payloads are delivered, the others are listed for a retry *)
Lemma process_resps_sum : forall rs s pls s' out fl, process_resps s pls rs = (s', out, fl) ->
  fires s s' out /\
  (forall sid oc, In (OOutcome sid oc) out ->
     exists x off y, In (x, 0, off) rs /\ In y (sends_of pls x) /\ s_id y = sid /\ oc = OResp (fst x) (snd x) 0 off) /\
  (forall x off y, In (x, 0, off) rs -> In y (sends_of pls x) -> ~ In (s_id y) (outstanding s')) /\
  (forall x err off, In (x, err, off) rs -> err <> 0 -> In x (map (fun e => fst (fst e)) fl)) /\
  (forall e, In e fl -> exists err off, In (fst (fst e), err, off) rs /\ err <> 0 /\ snd (fst e) = K_BROKER + err).
Proof.
  induction rs as [|[[x err] off] r IH]; simpl; intros s pls s' out fl H.
  - inv H. splits; [apply fires_refl | intros ? ? I; destruct I | intros ? ? ? I; destruct I | intros ? ? ? I; destruct I | intros ? I; destruct I].
  - destruct (err =? 0) eqn:Z.
    + apply Z.eqb_eq in Z; subst err.
      destruct (deliver s (sends_of pls x) _) as [s1 o1] eqn:E1.
      destruct (process_resps s1 pls r) as [[s2 o2] f2] eqn:E2. inv H.
      destruct (IH _ _ _ _ _ E2) as (A & B & C & D & E).
      pose proof (deliver_fires _ _ _ _ _ E1) as F1. splits.
      * eapply fires_trans; eauto.
      * intros sid oc I. apply in_app_or in I as [I|I].
        -- eapply deliver_outs in I as [-> (y & Y1 & Y2)]; eauto. exists x, off, y; auto.
        -- apply B in I as (x' & off' & y & I1 & I2 & I3 & I4). exists x', off', y; auto.
      * intros x' off' y [I|I] J.
        -- inv I. intros O. apply (fires_sub _ _ _ A) in O. eapply deliver_clears in O; eauto.
        -- eapply C; eauto.
      * intros x' err' off' [I|I] N; [inv I; congruence|eapply D; eauto].
      * intros e I. apply E in I as (err' & off' & I1 & I2 & I3). eauto 6.
    + apply Z.eqb_neq in Z.
      destruct (process_resps s pls r) as [[s2 o2] f2] eqn:E2. inv H.
      destruct (IH _ _ _ _ _ E2) as (A & B & C & D & E). splits; auto.
      * intros sid oc I. apply B in I as (x' & off' & y & I1 & I2 & I3 & I4). exists x', off', y; auto.
      * intros x' off' y [I|I] J; [inv I; congruence|eapply C; eauto].
      * intros x' err' off' [I|I] N; [inv I; simpl; auto|simpl; right; eapply D; eauto].
      * intros e [<- |I]; simpl; [exists err, off; auto|]. apply E in I as (err' & off' & I1 & I2 & I3). eauto 6.
Qed.

Lemma deliver_failed_sum : forall fl s pls s' out, deliver_failed s pls fl = (s', out) ->
  fires s s' out /\ all_fail out /\
  (forall e y, In e fl -> In y (sends_of pls (fst (fst e))) -> ~ In (s_id y) (outstanding s')).
Proof.
  induction fl as [|[[x k] b] r IH]; simpl; intros s pls s' out H.
  - inv H. splits; auto using fires_refl with prod.
  - destruct (deliver s (sends_of pls x) _) as [s1 o1] eqn:E1.
    destruct (deliver_failed s1 pls r) as [s2 o2] eqn:E2. inv H.
    destruct (IH _ _ _ _ E2) as (A & B & C). pose proof (deliver_fires _ _ _ _ _ E1) as F1. splits.
    + eapply fires_trans; eauto.
    + apply all_fail_app; auto. intros sid oc I. eapply deliver_outs in I as [-> _]; eauto.
    + intros e y [<- |I] J; simpl in *.
      * intros O. apply (fires_sub _ _ _ A) in O. eapply deliver_clears in O; eauto.
      * eapply C; eauto.
Qed.
