(* List facts used by the C01 proofs: zmem / zremove / minus, tp equality, oids, last_prod, accepted. *)
From AV Require Import Base.Util Model.Producer Proofs.ProducerBase Proofs.ProducerC01Spec.
From Coq Require Import Lia.

Lemma zmem_In : forall x l, zmem x l = true <-> In x l.
Proof.
  unfold zmem; intros x l; rewrite existsb_exists; split.
  - intros (y & H & E). apply Z.eqb_eq in E; subst; auto.
  - intros H; exists x; split; auto; apply Z.eqb_refl.
Qed.
Lemma zmem_false : forall x l, zmem x l = false <-> ~ In x l.
Proof. intros x l; rewrite <- zmem_In. destruct (zmem x l); split; congruence. Qed.

Lemma tp_eqb_eq : forall a b, tp_eqb a b = true <-> a = b.
Proof.
  intros [a1 a2] [b1 b2]; unfold tp_eqb; simpl. rewrite andb_true_iff, !Z.eqb_eq. split.
  - intros [-> ->]; auto.
  - intros H; inversion H; auto.
Qed.
Lemma tp_eqb_refl : forall a, tp_eqb a a = true.
Proof. intros; apply tp_eqb_eq; auto. Qed.
Lemma tpmem_In : forall x l, tpmem x l = true <-> In x l.
Proof.
  unfold tpmem; intros x l; rewrite existsb_exists; split.
  - intros (y & H & E). apply tp_eqb_eq in E; subst; auto.
  - intros H; exists x; split; auto; apply tp_eqb_refl.
Qed.
Lemma tpmem_false : forall x l, tpmem x l = false <-> ~ In x l.
Proof. intros x l; rewrite <- tpmem_In. destruct (tpmem x l); split; congruence. Qed.

(* ------------------------------------------------------------------ minus *)
Definition minus (l r : list Z) : list Z := filter (fun y => negb (zmem y r)) l.

Lemma minus_nil : forall l, minus l [] = l.
Proof. induction l; simpl; auto. unfold minus in *; simpl. f_equal; auto. Qed.
Lemma In_minus : forall x l r, In x (minus l r) <-> In x l /\ ~ In x r.
Proof. unfold minus; intros; rewrite filter_In, negb_true_iff, zmem_false; tauto. Qed.
Lemma minus_app : forall l a b, minus (minus l a) b = minus l (a ++ b).
Proof.
  unfold minus; induction l as [|y l IH]; simpl; intros; auto.
  assert (E : zmem y (a ++ b) = zmem y a || zmem y b) by (unfold zmem; apply existsb_app).
  rewrite E. destruct (zmem y a); simpl; auto. destruct (zmem y b); simpl; rewrite IH; auto.
Qed.
Lemma zremove_minus : forall x l, zremove x l = minus l [x].
Proof.
  unfold zremove, minus; intros; apply filter_ext; intros y. unfold zmem; simpl.
  rewrite orb_false_r. auto.
Qed.
Lemma NoDup_minus : forall l r, NoDup l -> NoDup (minus l r).
Proof. intros; apply NoDup_filter; auto. Qed.
Lemma minus_none : forall l r, (forall x, In x r -> ~ In x l) -> minus l r = l.
Proof.
  unfold minus; induction l as [|y l IH]; simpl; intros; auto.
  destruct (zmem y r) eqn:E.
  - apply zmem_In in E. exfalso; eapply H; eauto; simpl; auto.
  - simpl; f_equal; apply IH. intros x Hx Hl; eapply H; eauto; simpl; auto.
Qed.
Lemma minus_self : forall l, minus l l = [].
Proof.
  intros l. destruct (minus l l) as [|x r] eqn:E; auto.
  assert (H : In x (minus l l)) by (rewrite E; simpl; auto). apply In_minus in H; tauto.
Qed.

(* ------------------------------------------------------------------ oids *)
Lemma oids_app : forall a b, oids (a ++ b) = oids a ++ oids b.
Proof. intros; unfold oids; apply flat_map_app. Qed.
Lemma oids_cons_outcome : forall sid o r, oids (OOutcome sid o :: r) = sid :: oids r.
Proof. reflexivity. Qed.
Lemma In_oids : forall sid l, In sid (oids l) <-> exists o, In (OOutcome sid o) l.
Proof.
  unfold oids; intros sid l; rewrite in_flat_map; split.
  - intros (x & H & I). destruct x; simpl in I; try tauto. destruct I as [<-|[]]. eauto.
  - intros (o & H). exists (OOutcome sid o); split; simpl; auto.
Qed.
Lemma oids_none : forall l, (forall sid o, ~ In (OOutcome sid o) l) -> oids l = [].
Proof.
  intros l H. destruct (oids l) as [|x r] eqn:E; auto.
  assert (I : In x (oids l)) by (rewrite E; simpl; auto). apply In_oids in I as (o & I). exfalso; eapply H; eauto.
Qed.
Lemma lk_outs_oids : forall l, lk_outs l -> oids l = [].
Proof.
  intros l H; apply oids_none; intros sid o I. unfold lk_outs in H. rewrite Forall_forall in H.
  apply H in I; discriminate.
Qed.

(* ------------------------------------------------------------------ last_prod *)
Definition is_prod (o : output) : bool := match o with OSendProduce _ _ _ => true | _ => false end.
Definition no_prod (l : list output) : Prop := Forall (fun o => is_prod o = false) l.

Lemma last_prod_app : forall a b acc, last_prod (a ++ b) acc = last_prod b (last_prod a acc).
Proof. intros; unfold last_prod; apply fold_left_app. Qed.
Lemma last_prod_none : forall l acc, no_prod l -> last_prod l acc = acc.
Proof.
  induction l as [|o l IH]; simpl; intros acc H; auto. inversion H; subst.
  unfold last_prod in *; simpl. destruct o; simpl in *; try discriminate; apply IH; auto.
Qed.
Lemma no_prod_app : forall a b, no_prod a -> no_prod b -> no_prod (a ++ b).
Proof. unfold no_prod; intros; apply Forall_app; auto. Qed.
Lemma no_prod_nil : no_prod []. Proof. constructor. Qed.
Lemma only_outcomes_no_prod : forall l, only_outcomes l -> no_prod l.
Proof. unfold only_outcomes, no_prod; intros l H; eapply Forall_impl; [|exact H]. intros [] ?; simpl in *; congruence. Qed.
Lemma lk_outs_no_prod : forall l, lk_outs l -> no_prod l.
Proof. unfold lk_outs, no_prod; intros l H; eapply Forall_impl; [|exact H]. intros [] ?; simpl in *; congruence. Qed.
#[export] Hint Resolve no_prod_app no_prod_nil only_outcomes_no_prod lk_outs_no_prod : prod.

Lemma only_outcomes_In : forall l o, only_outcomes l -> In o l -> exists sid oc, o = OOutcome sid oc.
Proof.
  unfold only_outcomes; intros l o H I. rewrite Forall_forall in H. apply H in I. destruct o; try discriminate; eauto.
Qed.

(* ------------------------------------------------------------------ accepted *)
Lemma nids_app : forall a b, nids (a ++ b) = nids a + nids b.
Proof. unfold nids; intros. rewrite filter_app, app_length. lia. Qed.
Lemma nids_nonneg : forall a, 0 <= nids a.
Proof. unfold nids; intros; lia. Qed.

Lemma accepted_app : forall a n b, accepted n (a ++ b) = accepted n a ++ accepted (n + nids a) b.
Proof.
  induction a as [|e a IH]; simpl; intros n b.
  - unfold nids; simpl. f_equal; lia.
  - destruct e; simpl; rewrite ?IH; unfold nids; simpl; rewrite <- ?app_assoc;
      repeat (f_equal; try lia).
Qed.

Lemma accepted_range : forall evs n x, In x (accepted n evs) -> n <= s_id x < n + nids evs.
Proof.
  induction evs as [|e evs IH]; simpl; intros n x H; [tauto|].
  assert (N := nids_nonneg evs).
  destruct e; simpl in *; unfold nids in *; simpl;
    try (apply IH in H; simpl in *; lia).
  apply in_app_or in H as [H|H].
  - destruct ((cnt <? 1) || (bytes <? 0)); simpl in H; [tauto|]. destruct H as [<-|[]]; simpl; lia.
  - apply IH in H; lia.
Qed.

Lemma accepted_inj : forall evs n x y, In x (accepted n evs) -> In y (accepted n evs) -> s_id x = s_id y -> x = y.
Proof.
  induction evs as [|e evs IH]; simpl; intros n x y Hx Hy E; [tauto|].
  destruct e; simpl in *; eauto.
  apply in_app_or in Hx; apply in_app_or in Hy.
  destruct ((cnt <? 1) || (bytes <? 0)); simpl in *.
  - destruct Hx as [[]|Hx], Hy as [[]|Hy]; eauto.
  - destruct Hx as [[<-|[]]|Hx], Hy as [[<-|[]]|Hy]; auto.
    + apply accepted_range in Hy; simpl in *; lia.
    + apply accepted_range in Hx; simpl in *; lia.
    + eauto.
Qed.

Lemma NoDup_app_intro : forall (A : Type) (a b : list A),
  NoDup a -> NoDup b -> (forall x, In x a -> In x b -> False) -> NoDup (a ++ b).
Proof.
  induction a as [|x a IH]; simpl; intros b Ha Hb D; auto. inversion Ha; subst. constructor.
  - rewrite in_app_iff. intros [H|H]; [tauto|]. eapply D; eauto.
  - apply IH; auto. intros y Y1 Y2; eapply D; eauto.
Qed.
Lemma NoDup_app_inv : forall (A : Type) (a b : list A), NoDup (a ++ b) ->
  NoDup a /\ NoDup b /\ (forall x, In x a -> In x b -> False).
Proof.
  induction a as [|x a IH]; simpl; intros b H.
  - repeat split; auto. constructor.
  - inversion H; subst. apply IH in H3 as (A1 & A2 & A3). rewrite in_app_iff in H2. repeat split; auto.
    + constructor; auto.
    + intros y [<-|Hy] Hb; [tauto|eauto].
Qed.
