(* Every step of the client request layer preserves the base invariant (Proofs/ClientReqBase.v); the timeout of a
   request seen at M7 level. *)
From AV Require Import Base.Util Proofs.UtilFacts Model.Framing
  Proofs.BrokerClientTbl Proofs.BrokerClientInv Proofs.BrokerClientC06.
From AV Require Model.BrokerClient.
From AV Require Import Model.ClientReq Proofs.ClientReqBase.
From Coq Require Import Lia.

(* ------------------------------------------------------------------ the timeout of a request *)
Lemma cancel_fires s h s' mo : CInv s -> (h < length (sdlog s))%nat -> ~ sfired s h ->
  BrokerClient.step s (BrokerClient.ECancel h) = (s', mo) -> mo = [BrokerClient.ODef h BrokerClient.FailCancelled].
Proof.
  intros I L F H. cbn [BrokerClient.step] in H. unfold BrokerClient.lift in H. injection H as _ <-.
  unfold BrokerClient.cancel. unfold sdlog in L. destruct (nth_error _ h) as [rid|] eqn:En; [|apply nth_error_None in En; lia].
  unfold BrokerClient.is_fired. rewrite (proj2 (memb_nIn h _) F).
  destruct (TInv_unfired _ h rid (ci_t s I) En F) as (r & Lk & _). rewrite Lk.
  destruct (BrokerClient.r_sent r); rewrite fire_unfired by (cbn; exact F); reflexivity.
Qed.

Lemma nth_upd_twice {A} (f g : A -> A) : forall l i, nth_upd (nth_upd l i f) i g = nth_upd l i (fun x => g (f x)).
Proof. induction l as [|x l IH]; intros [|i]; cbn; auto. rewrite IH. reflexivity. Qed.

Lemma nth_upd_ext {A} (f g : A -> A) : (forall x, f x = g x) -> forall l i, nth_upd l i f = nth_upd l i g.
Proof. intros E. induction l as [|x l IH]; intros [|i]; cbn; auto; rewrite ?E, ?IH; reflexivity. Qed.

Lemma apply_bc_upd_creq C i h f e :
  apply_bc (upd_creq C i h f) i e = (upd_creq (fst (apply_bc C i e)) i h f, snd (apply_bc C i e)).
Proof.
  unfold apply_bc, upd_creq, upd_bc. cbn [c_bcs with_bcs].
  destruct (nth_error (c_bcs C) i) as [b|] eqn:Eb.
  - rewrite (nth_upd_same _ _ _ _ Eb). cbn [set_reqs b_st].
    destruct (BrokerClient.step (b_st b) e) as [s' o]. cbn [fst snd c_bcs with_bcs]. f_equal.
    rewrite !nth_upd_twice. unfold with_bcs. cbn. f_equal.
  - rewrite (nth_upd_none _ _ _ Eb). rewrite Eb. cbn [fst snd]. rewrite (nth_upd_none _ _ _ Eb). reflexivity.
Qed.

(* ------------------------------------------------------------------ every step, every run *)
Lemma TInvC_init g : TInvC [] (init g).
Proof. split; [intros i h []|]. intros i n s qs H. destruct i; discriminate. Qed.

Lemma timeout_wf C i h b ow t to :
  TInvC [] C -> nth_error (c_bcs C) i = Some b -> nth_error (b_reqs b) h = Some (mkCreq ow (Some t) to) ->
  let C1 := upd_creq C i h (fun q => mkCreq (q_owner q) None true) in
  snd (apply_bc C1 i (BrokerClient.ECancel h)) = [BrokerClient.ODef h BrokerClient.FailCancelled]
  /\ TInvC [(i, h)] (fst (apply_bc C1 i (BrokerClient.ECancel h))).
Proof.
  intros T Eb Eq C1. unfold C1. rewrite apply_bc_upd_creq. cbn [fst snd].
  destruct (apply_bc C i (BrokerClient.ECancel h)) as [C2 mo] eqn:A. cbn [fst snd].
  destruct (TInvC_bc _ _ _ _ T Eb) as (I & L & D & U & P).
  assert (mo = [BrokerClient.ODef h BrokerClient.FailCancelled]) as ->.
  { unfold apply_bc in A. rewrite Eb in A. destruct (BrokerClient.step (b_st b) (BrokerClient.ECancel h)) as [s' o] eqn:Es.
    injection A as _ <-. eapply cancel_fires; [exact I | | | exact Es].
    - rewrite <- L. apply nth_error_Some. congruence.
    - destruct (D h _ t Eq eq_refl) as [_ [X|[]]]. exact X. }
  split; [reflexivity|].
  destruct (apply_bc_wf _ _ _ (BrokerClient.ECancel h) _ _ T eq_refl A) as [T2 _]. cbn [def_handles flat_map app tag map] in T2.
  apply upd_creq_clear; [reflexivity | | exact T2].
  intros b' Hb'. destruct (TInvC_bc _ _ _ _ T2 Hb') as (_ & _ & _ & _ & P'). apply P'. left. reflexivity.
Qed.

Theorem step_wf C e : TInvC [] C -> TInvC [] (fst (step C e)).
Proof.
  intro T. destruct e; cbn [step].
  - (* ESend *)
    destruct (c_clients C) as [cl|]; [|exact T].
    destruct (get_client C cl node) as [[C1 i]|] eqn:G; [|exact T].
    pose proof (get_client_wf _ _ _ _ _ _ T G) as T1. unfold next_id.
    set (C2 := with_corr C1 _). assert (TInvC [] C2) as T2 by (eapply TInvC_same_core; [exact T1 | unfold C2; score]).
    destruct (make_req C2 i _ expect mint _) as [[C3 r] o3] eqn:M.
    pose proof (make_req_wf _ _ _ _ _ _ _ _ _ _ T2 M) as T3.
    destruct r; cbn [fst]; [exact T3 | |]; (eapply TInvC_same_core; [exact T3 | score]).
  - (* ECancelReq *)
    destruct (nth_error (c_direct C) d) as [[i h]|]; [|exact T]. apply ev_bc_wf; auto.
  - (* EOp *)
    unfold next_id. cbn [fst snd].
    set (C1 := with_corr C _). set (C2 := with_ops C1 _).
    assert (TInvC [] C2) as T2 by (eapply TInvC_same_core; [exact T | unfold C2, C1; score]).
    destruct (c_clients C2); [apply op_known_wf; exact T2 | eapply TInvC_same_core; [exact T2 | apply op_fail_core]].
  - apply update_brokers_wf. exact T.
  - (* EClose *)
    destruct (c_clients C) as [cl|]; [|exact T].
    assert (TInvC [] (with_clients C None)) as T0 by (eapply TInvC_same_core; [exact T | score]).
    pose proof (close_brokerclients_wf [] _ (map snd cl) T0) as T1.
    destruct (close_brokerclients (with_clients C None) (map snd cl)) as [C1 o1]. cbn [fst] in T1.
    pose proof (cancel_boots_wf (length (c_ops C1)) [] C1 0 T1) as T2.
    destruct (cancel_boots C1 (length (c_ops C1)) 0) as [C2 o2]. cbn [fst] in T2.
    destruct (c_dl (with_topics C2 [])); cbn [fst]; (eapply TInvC_same_core; [exact T2 | score]).
  - eapply TInvC_same_core; [exact T | score].
  - apply ev_bc_wf; auto.
  - apply ev_bc_wf; auto.
  - apply ev_bc_wf; auto.
  - apply ev_bc_wf; auto.
  - (* ETimer *)
    destruct (nth_error (c_timers C) t) as [[i h|i|p a|p]|]; [| | | |exact T].
    + unfold creq_at. destruct (nth_error (c_bcs C) i) as [b|] eqn:Eb; [|exact T].
      destruct (nth_error (b_reqs b) h) as [[ow [t'|] to]|] eqn:Eq; try exact T.
      destruct (Nat.eqb t t'); [|exact T].
      destruct (timeout_wf C i h b ow t' to T Eb Eq) as [Mo T2].
      unfold ev_bc at 1. unfold bc_event.
      destruct (apply_bc (upd_creq C i h (fun q => mkCreq (q_owner q) None true)) i (BrokerClient.ECancel h)) as [C2 mo].
      cbn [fst snd] in Mo, T2. subst mo.
      pose proof (proc_wf succ1 succ1_wf [BrokerClient.ODef h BrokerClient.FailCancelled] [] C2 i) as X.
      cbn [def_handles flat_map app tag map] in X. specialize (X T2).
      destruct (proc succ1 C2 i [BrokerClient.ODef h BrokerClient.FailCancelled]) as [C3 o3]. cbn [fst] in X.
      destruct (g_dot (c_cfg C3)); [|exact X].
      pose proof (ev_bc_wf [] C3 i BrokerClient.EDisconnect eq_refl X) as Y.
      destruct (ev_bc C3 i BrokerClient.EDisconnect). exact Y.
    + destruct (nth_error (c_bcs C) i) as [b|]; [|exact T].
      destruct (match b_timer b with Some t' => Nat.eqb t t' | None => false end); [|exact T].
      apply ev_bc_wf; auto. eapply TInvC_same_core; [exact T | apply upd_bc_core; intros; reflexivity].
    + destruct (phase_of C p); try exact T. destruct (Nat.eqb a a0 && Nat.eqb t t0); [|exact T].
      pose proof (boot_next_core C p rest) as Y. destruct (boot_next C p rest). cbn [fst] in *.
      eapply TInvC_same_core; [exact T | exact Y].
    + destruct (phase_of C p); try exact T. destruct (Nat.eqb t t0); [|exact T]. unfold next_id. cbn [fst snd].
      set (C1 := with_corr C _). set (C2 := restart_op C1 p _).
      assert (TInvC [] C2) as T2 by (eapply TInvC_same_core; [exact T | unfold C2, C1; score]).
      destruct (c_clients C2); [apply op_known_wf; exact T2 | eapply TInvC_same_core; [exact T2 | apply op_fail_core]].
  - (* EBootOk *)
    destruct (nth_error (c_boots C) a) as [[[p rid] [| |]]|]; try exact T.
    destruct (phase_of C p); try exact T. destruct (Nat.eqb a a0); [|exact T].
    unfold new_timer. cbn [fst]. eapply TInvC_same_core; [exact T|].
    split; [reflexivity | eexists; reflexivity].
  - (* EBootFail *)
    destruct (nth_error (c_boots C) a) as [[[p rid] [| |]]|]; try exact T.
    destruct (phase_of C p); try exact T. destruct (Nat.eqb a a0); [|exact T].
    pose proof (boot_next_core (set_boot C a KDead) p rest) as Y. destruct (boot_next (set_boot C a KDead) p rest). cbn [fst] in *.
    eapply TInvC_same_core; [|exact Y]. eapply TInvC_same_core; [exact T | apply set_boot_core].
  - (* EBootReply *)
    destruct (nth_error (c_boots C) a) as [[[p rid'] [|pend|]]|]; try exact T.
    destruct (pend && zlist_eqb (id4 rid) (id4 rid')); [|exact T].
    assert (TInvC [] (set_boot C a (KLive false))) as T0 by (eapply TInvC_same_core; [exact T | apply set_boot_core]).
    destruct (phase_of (set_boot C a (KLive false)) p); try exact T0. destruct (Nat.eqb a a0); [|exact T0].
    pose proof (succ1_wf [] _ p (id4 rid ++ payload) T0) as Y. destruct (succ1 (set_boot C a (KLive false)) p (id4 rid ++ payload)). exact Y.
  - (* EBootLost *)
    destruct (nth_error (c_boots C) a) as [[[p rid'] [|pend|]]|]; try exact T.
    assert (TInvC [] (set_boot C a KDead)) as T0 by (eapply TInvC_same_core; [exact T | apply set_boot_core]).
    destruct pend; [|exact T0].
    destruct (phase_of (set_boot C a KDead) p); try exact T0. destruct (Nat.eqb a a0); [|exact T0].
    pose proof (boot_next_core (set_boot C a KDead) p rest) as Y. destruct (boot_next (set_boot C a KDead) p rest). cbn [fst] in *.
    eapply TInvC_same_core; [exact T0 | exact Y].
  - (* EResend *)
    destruct (c_clients C) as [cl|]; [|exact T].
    destruct (nth_error (c_direct C) d) as [[i h0]|]; [|exact T].
    destruct (make_req C i _ expect mint _) as [[C3 r] o3] eqn:M.
    pose proof (make_req_wf _ _ _ _ _ _ _ _ _ _ T M) as T3.
    destruct r; cbn [fst]; [exact T3 | |]; (eapply TInvC_same_core; [exact T3 | score]).
Qed.

Theorem run_wf : forall evs C, TInvC [] C -> TInvC [] (fst (run C evs)).
Proof.
  induction evs as [|e evs IH]; intros C T; cbn [run]; [exact T|].
  pose proof (step_wf C e T) as T1. destruct (step C e) as [C1 o1]. cbn [fst] in T1.
  pose proof (IH C1 T1) as T2. destruct (run C1 evs). exact T2.
Qed.

Corollary reachable_wf g evs : TInvC [] (fst (run (init g) evs)).
Proof. apply run_wf, TInvC_init. Qed.
