(* C13: stop() leaves nothing running.  While _stopping is set every nested execution is inert (sends nothing, calls
   nothing, schedules nothing, re-creates nothing); a stop() that returns leaves the consumer quiescent. *)
From Coq Require Import Lia.
From AV Require Import Base.Util Model.Consumer Proofs.ConsumerBase Proofs.ConsumerFrame.
Open Scope Z_scope.

(* outputs allowed while stopping: no processor call, no request, no timer; the start Deferred does not succeed *)
Definition okout (x : output) : bool :=
  negb (is_activity x) && match x with OStartD true _ | OShutD true _ _ | ORet _ | ORaised _ => false | _ => true end.
Definition noact (o : list output) : Prop := forallb okout o = true.
Lemma noact_app a b : noact a -> noact b -> noact (a ++ b).
Proof. unfold noact. rewrite forallb_app. intros -> ->. reflexivity. Qed.
Ltac noact_solve := repeat (first [ assumption | reflexivity | apply noact_app ]).

(* what any block of stop() and any nested execution under _stopping does to the state: nothing is (re)created *)
Record In3 (s s' : state) : Prop := mkIn3 {
  i_stopping : s_stopping s' = s_stopping s;
  i_req : s_req s = None -> s_req s' = None;
  i_proc : s_proc s = None -> s_proc s' = None;
  i_mblock : s_mblock s = None -> s_mblock s' = None;
  i_rcall : rcall_active s = false -> rcall_active s' = false;
  i_cds : s_cds s = [] -> s_cds s' = [];
  i_creq : s_creq s = None -> s_creq s' = None;
  i_ccall : s_ccall s = None -> s_ccall s' = None;
  i_looper : (s_looper s <> Some false -> s_looper s' <> Some false) /\ (s_looper s = None -> s_looper s' = None);
  i_startd : is_some (s_startd s') = is_some (s_startd s);
  i_lp : s_lp s' = s_lp s;
  i_lc : s_lc s' = s_lc s;
  i_susp : s_susp s' = s_susp s /\ s_maxatt s' = s_maxatt s \/ s_susp s = true /\ s_susp s' = false /\ s_maxatt s' = 0;
  i_shut : (s_shutting s = false -> s_shutting s' = false) /\ (s_shutd s = false -> s_shutd s' = false)
}.
Lemma In3_refl s : In3 s s.
Proof. constructor; auto. Qed.
Lemma In3_trans a b c : In3 a b -> In3 b c -> In3 a c.
Proof.
  intros [a1 a2 a3 a4 a5 a6 a7 a8 [a9 a9'] a10 a11 a12 a13 [a14 a14']] [b1 b2 b3 b4 b5 b6 b7 b8 [b9 b9'] b10 b11 b12 b13 [b14 b14']].
  constructor; try (split); try congruence; auto.
  - destruct a13 as [[x1 x2]|[x1 [x2 x3]]], b13 as [[y1 y2]|[y1 [y2 y3]]]; try (left; split; congruence); try (right; repeat split; congruence).
Qed.

Ltac in3_explicit :=
  solve [
  constructor; psimpl; unfold rcall_active in *; psimpl;
  repeat match goal with D : s_startd ?x = _ |- _ => rewrite D in * end;
  repeat match goal with D : s_looper ?x = _ |- _ => rewrite D in * end;
  repeat match goal with D : s_susp ?x = _ |- _ => rewrite D in * end;
  repeat match goal with |- _ /\ _ => split end; intros;
  try reflexivity; try congruence; try discriminate; try (left; split; reflexivity); auto;
  try (match goal with H : s_cds ?s = [], D : rev (s_cds ?s) = _ :: _ |- _ => rewrite H in D; discriminate D end) ].
Ltac in3_chain :=
  lazymatch goal with
  | |- In3 ?s ?s' =>
    first [ match goal with
            | H : In3 ?a ?b |- _ =>
              lazymatch s' with context [b] => idtac end;
              apply (In3_trans s b s'); [ apply (In3_trans s a b); [ clear H; in3_chain | exact H ] | in3_explicit ]
            end
          | in3_explicit ]
  end.
Ltac in3_done := split; [ in3_chain | noact_solve ].
Ltac use L := repeat match goal with E : _ = (_, _, _) |- _ => apply L in E; destruct E as (? & ?) end.

Lemma In3_via s X s0 : In3 (set_mblock (Some None) X) s0 -> s_mblock s0 = None -> In3 s X -> In3 s s0.
Proof.
  intros [a1 a2 a3 a4 a5 a6 a7 a8 [a9 a9'] a10 a11 a12 a13 [a14 a14']] Hm [b1 b2 b3 b4 b5 b6 b7 b8 [b9 b9'] b10 b11 b12 b13 [b14 b14']].
  unfold rcall_active in *. psimpl.
  constructor; try split; try congruence; auto.
  destruct a13 as [[x1 x2]|[x1 [x2 x3]]], b13 as [[y1 y2]|[y1 [y2 y3]]]; try (left; split; congruence); try (right; repeat split; congruence).
Qed.

(* ---- methods that never recurse *)
Lemma startd_errback_in fk s r s' o : startd_errback fk s = (r, s', o) -> In3 s s' /\ noact o.
Proof. intros H. unfold startd_errback in H. mi H; in3_done. Qed.
Lemma handle_auto_commit_error_in fk s r s' o : handle_auto_commit_error fk s = (r, s', o) -> In3 s s' /\ noact o.
Proof. intro H. unfold handle_auto_commit_error in H. mi H; use startd_errback_in; in3_done. Qed.
Lemma handle_processor_error_in fk s r s' o : handle_processor_error fk s = (r, s', o) -> In3 s s' /\ noact o.
Proof. intro H. unfold handle_processor_error in H. mi H; use startd_errback_in; in3_done. Qed.
Lemma auto_commit_in bc s r s' o : auto_commit bc s = (r, s', o) -> s_stopping s = true -> In3 s s' /\ noact o.
Proof. intros H Hst. unfold auto_commit in H. mi H; in3_done. Qed.
Lemma retry_fetch_in z s r s' o : retry_fetch z s = (r, s', o) -> s_stopping s = true -> In3 s s' /\ noact o.
Proof. intros H Hst. unfold retry_fetch in H. mi H; in3_done. Qed.
Lemma proc_chain_in last k s r s' o : proc_chain last (Some k) s = (r, s', o) -> In3 s s' /\ noact o /\ s_proc s' = None.
Proof.
  intro H. unfold proc_chain in H. mi H; use handle_processor_error_in.
  all: split; [in3_chain | split; [noact_solve|]].
  all: match goal with I : In3 _ ?b |- s_proc ?b = None => apply (i_proc _ _ I); psimpl; reflexivity end.
Qed.
Lemma emit_shutd_in x s r s' o : emit_shutd x s = (r, s', o) -> okout x = true -> In3 s s' /\ noact o.
Proof. intros H Hx. unfold emit_shutd in H. mi H; split; try in3_chain. all: unfold noact; cbn [forallb app]; rewrite ?Hx; reflexivity. Qed.
Lemma interrupted_in s r s' o : interrupted s = (r, s', o) -> In3 s s' /\ noact o.
Proof.
  intro H. unfold interrupted in H. mi H.
  - apply emit_shutd_in in E1; [|reflexivity]. destruct E1. in3_done.
  - in3_done.
Qed.
(* the blocks of stop(): what each achieves *)
Lemma stop_req_in s r s' o : stop_req s = (r, s', o) -> s_stopping s = true -> In3 s s' /\ noact o /\ s_req s' = None.
Proof.
  intros H Hst. unfold stop_req, handle_fetch_error, handle_offset_error in H.
  change (is_oor FK_CANCELLED) with false in H. change (is_cancel FK_CANCELLED) with true in H.
  mi H; psimpl; rewrite ?Hst in *; cbn [andb] in *; try discriminate; (split; [in3_chain | split; [noact_solve | psimpl; auto]]).
Qed.
Lemma stop_mblock_in s r s' o : stop_mblock s = (r, s', o) -> In3 s s' /\ noact o /\ s_mblock s' = None.
Proof. intro H. unfold stop_mblock in H. mi H; (split; [in3_chain | split; [noact_solve | psimpl; auto]]). Qed.
Lemma stop_rcall_in s r s' o : stop_rcall s = (r, s', o) -> In3 s s' /\ noact o /\ (r = Ok tt -> rcall_active s' = false).
Proof.
  intro H. unfold stop_rcall in H. mi H; (split; [in3_chain | split; [noact_solve | unfold rcall_active; psimpl; try rewrite D; intros; try discriminate; auto]]).
Qed.
Lemma stop_ccall_in s r s' o : stop_ccall s = (r, s', o) -> In3 s s' /\ noact o /\ s_ccall s' = None.
Proof. intro H. unfold stop_ccall in H. mi H; (split; [in3_chain | split; [noact_solve | psimpl; auto]]). Qed.
Lemma stop_looper_in s r s' o : stop_looper s = (r, s', o) -> In3 s s' /\ noact o /\ (s_looper s <> Some false -> s_looper s' = None).
Proof.
  intro H. unfold stop_looper in H. mi H; (split; [in3_chain | split; [noact_solve | psimpl; try rewrite D; intros; try congruence; auto]]).
Qed.
Lemma stop_susp_in s r s' o : stop_susp s = (r, s', o) -> In3 s s' /\ noact o /\ s_susp s' = false.
Proof. intro H. unfold stop_susp in H. mi H; (split; [in3_chain | split; [noact_solve | psimpl; auto]]). Qed.

(* ---------------- the re-entrant part ---------------- *)
Definition okout2 (lpv : Z) (x : output) : bool :=
  negb (is_activity x) && match x with OStartD true v => v =? lpv | OShutD true _ _ | ORet _ | ORaised _ => false | _ => true end.
Definition StopPost (s : state) (r : res unit) (s' : state) (o : list output) : Prop :=
  forallb (okout2 (encv (s_lp s))) o = true /\
  (r = Ok tt -> s_lp s' = s_lp s /\ s_lc s' = s_lc s) /\
  (r = Ok tt -> s_looper s <> Some false ->
     quiescent s' = true /\ s_susp s' = false /\ s_looper s' = None /\ s_lp s' = s_lp s /\ s_lc s' = s_lc s /\
     s_maxatt s' = (if s_susp s then 0 else s_maxatt s)).
Definition achieves (k : kont) (s' : state) : Prop :=
  match k with
  | KProcLoop _ => s_mblock s' = None
  | KStopCds => s_cds s' = []
  | KFireProc _ => s_proc s' = None
  | _ => True
  end.
Definition Post3 (k : kont) (s : state) (r : res unit) (s' : state) (o : list output) : Prop :=
  fuel_ok o = true ->
  match k with
  | KStop => s_stopping s = false -> StopPost s r s' o
  | KFireProc None => True
  | _ => s_stopping s = true -> In3 s s' /\ noact o /\ achieves k s'
  end.

Section Rec3.
Variable f : nat.
Hypothesis IH : forall k s r s' o, run f k s = (r, s', o) -> Post3 k s r s' o.

(* the induction hypothesis for every call on the path, premises discharged in path order *)
Ltac use_ih := repeat match goal with
  | E : run f ?k ?s1 = (?r, ?s2, ?o1), Hf : fuel_ok ?o1 = true |- _ =>
    let P := fresh "P" in pose proof (IH _ _ _ _ _ E Hf) as P; cbn beta iota in P; clear E
  end.
Ltac stp := repeat match goal with
  | I : In3 ?a ?b |- _ =>
    lazymatch goal with _ : s_stopping b = s_stopping a |- _ => fail | _ => pose proof (i_stopping _ _ I) end
  end.
Ltac fwd := stp; repeat match goal with
  | H : s_stopping ?a = true -> _ |- _ =>
    let P := fresh "P" in assert (P : s_stopping a = true) by (psimpl; congruence);
    specialize (H P); clear P;
    let I := fresh "I" in let N := fresh "N" in let A := fresh "A" in destruct H as (I & N & A);
    pose proof (i_stopping _ _ I); cbn [achieves] in A
  end.

(* a field cleared earlier on the path is still clear: walk back through the In3 facts *)
Ltac back :=
  psimpl;
  first [ assumption | reflexivity
        | match goal with
          | I : In3 ?a ?b |- s_mblock ?b = None => apply (i_mblock _ _ I); back
          | I : In3 ?a ?b |- s_proc ?b = None => apply (i_proc _ _ I); back
          | I : In3 ?a ?b |- s_req ?b = None => apply (i_req _ _ I); back
          | I : In3 ?a ?b |- s_creq ?b = None => apply (i_creq _ _ I); back
          | I : In3 ?a ?b |- s_ccall ?b = None => apply (i_ccall _ _ I); back
          | I : In3 ?a ?b |- s_cds ?b = [] => apply (i_cds _ _ I); back
          | I : In3 ?a ?b |- rcall_active ?b = false => apply (i_rcall _ _ I); back
          | I : In3 ?a ?b |- s_looper ?b = None => apply (proj2 (i_looper _ _ I)); back
          | I : In3 ?a ?b |- s_looper ?b <> Some false => apply (proj1 (i_looper _ _ I)); back
          end ].
Ltac done3 := split; [ in3_chain | split; [ noact_solve | cbn [achieves]; first [exact I | back] ] ].

Lemma finish_block_in s r s' o :
  finish_block (run f) s = (r, s', o) -> fuel_ok o = true -> s_stopping s = true -> In3 s s' /\ noact o /\ s_mblock s' = None.
Proof. intros H Hf Hst. unfold finish_block in H. mi H; fuel_split; use_ih; fwd; done3. Qed.

Lemma fire_all_in cr : forall ds s r s' o,
  fire_all (run f) ds cr s = (r, s', o) -> fuel_ok o = true -> s_stopping s = true -> In3 s s' /\ noact o.
Proof.
  induction ds as [|d ds IHds]; intros s r s' o H Hf Hst; cbn [fire_all] in H.
  - mi H. in3_done.
  - mi H; fuel_split; use_ih; fwd.
    all: match goal with E : fire_all _ _ _ _ = _ |- _ => apply IHds in E; [destruct E | assumption | psimpl; congruence] end.
    all: in3_done.
Qed.

Ltac specs :=
  use startd_errback_in; use handle_auto_commit_error_in; use handle_processor_error_in; use interrupted_in;
  repeat match goal with E : proc_chain _ _ _ = _ |- _ => apply proc_chain_in in E; destruct E as (? & ? & ?) end;
  repeat match goal with
  | E : auto_commit _ _ = _ |- _ => apply auto_commit_in in E; [destruct E | psimpl; congruence]
  | E : retry_fetch _ _ = _ |- _ => apply retry_fetch_in in E; [destruct E | psimpl; congruence]
  | E : finish_block _ _ = _, Hf : fuel_ok _ = true |- _ => apply finish_block_in in E; [destruct E as (? & ? & ?) | exact Hf | psimpl; congruence]
  | E : fire_all _ _ _ _ = _, Hf : fuel_ok _ = true |- _ => apply fire_all_in in E; [destruct E | exact Hf | psimpl; congruence]
  end.
Ltac prune := repeat match goal with
  | D : (match ?r with Ok _ => _ | Exc _ => _ end) = _ |- _ => destruct r; try discriminate D; res_inv
  end.
Ltac go H Hf := cbn [body] in H; mi H; prune; fuel_split; use_ih; fwd; specs; fwd.

Lemma body_KStopCds_in s r s' o : body (run f) KStopCds s = (r, s', o) -> fuel_ok o = true -> s_stopping s = true ->
  In3 s s' /\ noact o /\ s_cds s' = [].
Proof.
  intros H Hf Hst. go H Hf.
  - split; [in3_chain | split; [noact_solve|]]. destruct (s_cds s) as [|x l]; [reflexivity|].
    exfalso. cbn [rev] in D. destruct (rev l); discriminate.
  - done3.
Qed.
Lemma body_KFireProc_in fk s r s' o : body (run f) (KFireProc (Some fk)) s = (r, s', o) -> fuel_ok o = true -> s_stopping s = true ->
  In3 s s' /\ noact o /\ s_proc s' = None.
Proof. intros H Hf Hst. go H Hf; done3. Qed.
Lemma body_KProcLoop_in msgs s r s' o : body (run f) (KProcLoop msgs) s = (r, s', o) -> fuel_ok o = true -> s_stopping s = true ->
  In3 s s' /\ noact o /\ s_mblock s' = None.
Proof. intros H Hf Hst. go H Hf; done3. Qed.
Lemma body_KFetchResp_in offs ts s r s' o : body (run f) (KFetchResp offs ts) s = (r, s', o) -> fuel_ok o = true -> s_stopping s = true ->
  In3 s s' /\ noact o /\ True.
Proof.
  intros H Hf Hst. go H Hf; try done3.
  (* a block was started and abandoned at once: mblock Some None in between *)
  all: split; [|split; [noact_solve | exact Logic.I]].
  all: match goal with
       | I : In3 (set_mblock (Some None) ?X) ?b, A : s_mblock ?b = None |- In3 ?s ?b =>
         apply (In3_via s X b I A); in3_chain
       | I : In3 (set_mblock (Some None) ?X) ?b, A : s_mblock ?b = None, J : In3 ?b ?c |- In3 ?s ?c =>
         apply (In3_trans s b c); [apply (In3_via s X b I A); in3_chain | exact J]
       end.
Qed.
Lemma body_KCommitAndStop_in s r s' o : body (run f) KCommitAndStop s = (r, s', o) -> fuel_ok o = true -> s_stopping s = true ->
  In3 s s' /\ noact o /\ True.
Proof. intros H Hf Hst. go H Hf; done3. Qed.
Lemma body_KShutFinish_in fk s r s' o : body (run f) (KShutFinish fk) s = (r, s', o) -> fuel_ok o = true -> s_stopping s = true ->
  In3 s s' /\ noact o /\ True.
Proof. intros H Hf Hst. go H Hf; done3. Qed.
Lemma body_KFireCd_in d cr s r s' o : body (run f) (KFireCd d cr) s = (r, s', o) -> fuel_ok o = true -> s_stopping s = true ->
  In3 s s' /\ noact o /\ True.
Proof. intros H Hf Hst. go H Hf; done3. Qed.
Lemma body_KDeliver_in cr s r s' o : body (run f) (KDeliver cr) s = (r, s', o) -> fuel_ok o = true -> s_stopping s = true ->
  In3 s s' /\ noact o /\ True.
Proof. intros H Hf Hst. go H Hf; done3. Qed.

Lemma stop_proc_in s r s' o : stop_proc (run f) s = (r, s', o) -> fuel_ok o = true -> s_stopping s = true ->
  In3 s s' /\ noact o /\ s_proc s' = None.
Proof. intros H Hf Hst. unfold stop_proc in H. mi H; fuel_split; use_ih; fwd; done3. Qed.
Lemma stop_creq_in s r s' o : stop_creq (run f) s = (r, s', o) -> fuel_ok o = true -> s_stopping s = true ->
  In3 s s' /\ noact o /\ s_creq s' = None.
Proof.
  intros H Hf Hst. unfold stop_creq, handle_commit_error in H. change (is_cancel FK_CANCELLED) with true in H.
  mi H; fuel_split; use_ih; fwd; done3.
Qed.

Lemma okout_okout2 v x : okout x = true -> okout2 v x = true.
Proof. unfold okout, okout2. destruct x; try destruct ok; cbn; intro H; try discriminate; auto. Qed.
Lemma noact_ok2 v o : noact o -> forallb (okout2 v) o = true.
Proof.
  unfold noact. induction o as [|x o IHo]; [reflexivity|]. cbn [forallb]. intro H. apply andb_prop in H. destruct H as (H1 & H2).
  rewrite (okout_okout2 v x H1). auto.
Qed.

Ltac blk := repeat (stp; match goal with
  | E : stop_req _ = _ |- _ => apply stop_req_in in E; [destruct E as (? & ? & ?) | psimpl; congruence]
  | E : stop_mblock _ = _ |- _ => apply stop_mblock_in in E; destruct E as (? & ? & ?)
  | E : stop_rcall _ = _ |- _ => apply stop_rcall_in in E; destruct E as (? & ? & ?)
  | E : stop_ccall _ = _ |- _ => apply stop_ccall_in in E; destruct E as (? & ? & ?)
  | E : stop_looper _ = _ |- _ => apply stop_looper_in in E; destruct E as (? & ? & ?)
  | E : stop_susp _ = _ |- _ => apply stop_susp_in in E; destruct E as (? & ? & ?)
  | E : stop_proc _ _ = _, Hf : fuel_ok _ = true |- _ => apply stop_proc_in in E; [destruct E as (? & ? & ?) | exact Hf | psimpl; congruence]
  | E : stop_creq _ _ = _, Hf : fuel_ok _ = true |- _ => apply stop_creq_in in E; [destruct E as (? & ? & ?) | exact Hf | psimpl; congruence]
  | H : s_stopping ?a = true -> _ |- _ =>
    let P := fresh "P" in assert (P : s_stopping a = true) by (psimpl; congruence);
    specialize (H P); clear P;
    let I := fresh "I" in let N := fresh "N" in let A := fresh "A" in destruct H as (I & N & A); cbn [achieves] in A
  end).

Lemma body_KStop_in s r s' o : body (run f) KStop s = (r, s', o) -> fuel_ok o = true -> s_stopping s = false -> StopPost s r s' o.
Proof.
  intros H Hf Hst. cbn [body] in H. unfold stop_startd in H. mi H; fuel_split; use_ih; blk.
  all: split; [| split; [intros Hr; try discriminate Hr | intros Hr Hl; try discriminate Hr] ].
  (* last_processed / last_committed are not touched *)
  all: try (solve [ match goal with |- s_lp (set_startd None (set_stopping false ?x)) = _ /\ _ =>
                      let L := fresh "L" in assert (L : In3 (set_stopping true s) x) by in3_chain;
                      destruct L as [_ _ _ _ _ _ _ _ _ _ Llp Llc _ _]; psimpl; split; assumption end ]).
  (* outputs: nothing but cancellations and outcomes; the start Deferred succeeds with last_processed_offset *)
  all: try match goal with |- forallb _ _ = true =>
         try match goal with |- context [OStartD true (encv (s_lp ?x))] =>
           let L := fresh "L" in assert (L : In3 (set_stopping true s) x) by in3_chain;
           let E := fresh "E" in pose proof (i_lp _ _ L) as E; psimpl; rewrite E; clear L E end;
         repeat rewrite forallb_app; cbn [forallb okout2 is_activity negb andb]; rewrite ?Z.eqb_refl;
         repeat match goal with N : noact ?x |- context [forallb (okout2 ?v) ?x] => rewrite (noact_ok2 v x N) end;
         reflexivity
       end.
  (* RestopError: not running *)
  all: try (exfalso; congruence).
  (* stop() returned: everything it cancelled is still clear *)
  all: match goal with H : Ok ?a = Ok tt -> rcall_active _ = false |- _ => destruct a; specialize (H eq_refl) end.
  all: match goal with H : s_looper ?x <> Some false -> s_looper _ = None |- _ =>
         let P := fresh "P" in assert (P : s_looper x <> Some false) by back; specialize (H P); clear P end.
  all: match goal with |- context [set_stopping false ?x] =>
         assert (Qreq : s_req x = None) by back; assert (Qproc : s_proc x = None) by back;
         assert (Qmb : s_mblock x = None) by back; assert (Qrc : rcall_active x = false) by back;
         assert (Qcds : s_cds x = []) by back; assert (Qcreq : s_creq x = None) by back;
         assert (Qcc : s_ccall x = None) by back; assert (Qlo : s_looper x = None) by back;
         assert (L : In3 (set_stopping true s) x) by in3_chain
       end.
  all: destruct L as [_ _ _ _ _ _ _ _ _ _ Llp Llc Lsu _]; psimpl.
  all: unfold quiescent, looper_armed, rcall_active in *; psimpl; rewrite Qreq, Qproc, Qmb, Qcds, Qcreq, Qcc, Qlo, Qrc.
  all: repeat split; auto.
  all: destruct Lsu as [[x1 x2]|[x1 [x2 x3]]]; rewrite ?x1, ?x2, ?x3 in *;
       match goal with H : s_susp _ = false |- _ => try rewrite H in * end; try congruence;
       destruct (s_susp s); congruence.
Qed.
End Rec3.

(* ---------------- every nested execution, for every fuel ---------------- *)
Theorem run_stop fuel k s r s' o : run fuel k s = (r, s', o) -> Post3 k s r s' o.
Proof.
  intro H. refine (run_ind (fun _ _ => True) Post3 _ _ fuel k s r s' o I H); clear.
  - intros k s _ Hf. discriminate Hf.
  - intros f IH k s r s' o _ H Hf.
    assert (IH' : forall k s r s' o, run f k s = (r, s', o) -> Post3 k s r s' o) by (intros; eapply IH; eauto).
    destruct k; cbn beta iota; try intro Hst.
    + eapply body_KStop_in; eauto.
    + eapply body_KStopCds_in; eauto.
    + destruct fk; [intro Hst; eapply body_KFireProc_in; eauto | exact Logic.I].
    + eapply body_KProcLoop_in; eauto.
    + eapply body_KFetchResp_in; eauto.
    + eapply body_KCommitAndStop_in; eauto.
    + eapply body_KShutFinish_in; eauto.
    + eapply body_KFireCd_in; eauto.
    + eapply body_KDeliver_in; eauto.
Qed.

(* ---------------- C13_quiescent_after_stop, for EVERY state in which stop() can be called ---------------- *)
Definition returned (o : list output) : bool := existsb (fun x => match x with ORet _ => true | _ => false end) o.

Lemma ok2_facts v o : forallb (okout2 v) o = true ->
  existsb is_activity o = false /\ returned o = false /\ (forall w, In (OStartD true w) o -> w = v).
Proof.
  induction o as [|x o IHo]; cbn [forallb existsb returned].
  - intros _. repeat split; auto. intros w [].
  - intro H. apply andb_prop in H. destruct H as (H1 & H2). destruct (IHo H2) as (I1 & I2 & I3).
    unfold okout2 in H1. apply andb_prop in H1. destruct H1 as (H1 & H3). apply negb_true_iff in H1.
    unfold returned in *. rewrite H1, I1. repeat split.
    + destruct x; try discriminate H3; try exact I2; destruct ok; exact I2.
    + intros w [Hw|Hw]; [|auto]. subst x. apply Z.eqb_eq in H3. auto.
Qed.

Theorem stop_step fuel s s' o :
  s_stopping s = false -> s_looper s <> Some false -> step fuel s EStop = (s', o) -> fuel_ok o = true -> returned o = true ->
  quiescent s' = true /\ existsb is_activity o = false /\ s_susp s' = false /\ s_looper s' = None /\
  s_lp s' = s_lp s /\ s_lc s' = s_lc s /\ s_maxatt s' = (if s_susp s then 0 else s_maxatt s) /\
  In (ORet (encv (s_lp s))) o /\ (forall v, In (OStartD true v) o -> v = encv (s_lp s)).
Proof.
  intros Hst Hl H Hf Hr. apply step_inv in H. destruct H as (o1 & H & ->).
  unfold handle in H. cbn zeta in H. unfold api_stop in H. mi H.
  all: fuel_split; pose proof (run_stop _ _ _ _ _ _ E0 ltac:(assumption) Hst) as (P1 & _ & P2).
  all: destruct (ok2_facts _ _ P1) as (Q1 & Q2 & Q3).
  - destruct a. destruct (P2 eq_refl Hl) as (R1 & R2 & R3 & R4 & R5 & R6).
    rewrite R4. repeat split; auto.
    + repeat rewrite existsb_app. cbn [app existsb is_activity orb]. rewrite Q1. reflexivity.
    + apply in_or_app. left. apply in_or_app. right. apply in_or_app. right. left. reflexivity.
    + intros v Hv. repeat (apply in_app_or in Hv; destruct Hv as [Hv|Hv]); try (cbn in Hv; destruct Hv as [Hv|Hv]; [discriminate Hv | contradiction]); try contradiction; auto.
  - exfalso. unfold returned in Hr. repeat rewrite existsb_app in Hr. cbn [app existsb orb] in Hr.
    unfold returned in Q2. rewrite Q2 in Hr. discriminate Hr.
Qed.
