(* Lemmas behind Props/C20.v: closing the client (Model/ClientReq.v). *)
From AV Require Import Base.Util Proofs.UtilFacts Model.Framing Proofs.FramingFacts
  Proofs.BrokerClientTbl Proofs.BrokerClientInv Proofs.BrokerClientC06 Proofs.BrokerClientC10.
From AV Require Model.BrokerClient.
From AV Require Import Model.ClientReq Proofs.ClientReqBase Proofs.ClientReqStep Proofs.ClientReqC11 Proofs.ClientReqMono
  Proofs.ClientReqClosed Proofs.ClientReqStruct.
From Coq Require Import Lia.

(* ------------------------------------------------------------------ after close(): new work is refused *)
Lemma new_send_refused C node ex mint : c_clients C = None -> step C (ESend node ex mint) = (C, [ORaised 4]).
Proof. intro H. cbn [step]. rewrite H. reflexivity. Qed.

Lemma second_close C : c_clients C = None -> step C EClose = (C, [ORaised 8]).
Proof. intro H. cbn [step]. rewrite H. reflexivity. Qed.

Lemma new_op_refused C kind all : c_clients C = None ->
  exists C', step C (EOp kind all) = (C', [OOp (length (c_ops C)) (if kind =? 1 then RUnavail else RClosed)])
    /\ c_bcs C' = c_bcs C /\ c_timers C' = c_timers C /\ c_boots C' = c_boots C /\ c_clients C' = None
    /\ c_topics C' = c_topics C /\ phase_of C' (length (c_ops C)) = PDone.
Proof.
  intro H. cbn [step]. unfold next_id. cbn [fst snd].
  set (C1 := with_corr C _). set (op0 := mkOp kind all _ PDone).
  change (c_clients (with_ops C1 (c_ops C1 ++ [op0]))) with (c_clients C). rewrite H.
  unfold op_fail. change (c_ops (with_ops C1 (c_ops C1 ++ [op0]))) with (c_ops C ++ [op0]).
  change (length (c_ops C1)) with (length (c_ops C)). rewrite nth_error_snoc.
  eexists. split; [unfold op_result, op0; cbn [o_kind]; destruct (kind =? 1); reflexivity|].
  repeat split; auto. unfold phase_of, set_phase. cbn [c_ops with_ops].
  change (c_ops C1) with (c_ops C). rewrite (nth_upd_same _ _ _ _ (nth_error_snoc (c_ops C) op0)). reflexivity.
Qed.

(* ------------------------------------------------------------------ close(): the closed flag and the cache *)
Lemma Rnone_refl C : Rnone C C. Proof. unfold Rnone. auto. Qed.
Lemma Rnone_trans A B C : Rnone A B -> Rnone B C -> Rnone A C. Proof. unfold Rnone. auto. Qed.
Lemma Rnone_frame2 C C' : same_core C C' -> c_cfg C' = c_cfg C -> c_clients C' = c_clients C -> Rnone C C'.
Proof. unfold Rnone. intros _ _ E H. congruence. Qed.
Lemma Rnone_apply C i e : Rnone C (fst (apply_bc C i e)).
Proof. unfold Rnone. intro H. pose proof (apply_bc_rest C i e) as (_ & X & _). congruence. Qed.
Lemma Rnone_reqs_app C i q : q_to q = false -> Rnone C (upd_bc C i (fun b => set_reqs (b_reqs b ++ [q]) b)).
Proof. unfold Rnone. auto. Qed.
Lemma Rnone_creq C i h f :
  (forall q, q_owner (f q) = q_owner q /\ q_timer (f q) = None /\ (q_to q = true -> q_to (f q) = true)) -> Rnone C (upd_creq C i h f).
Proof. unfold Rnone. auto. Qed.
Lemma Rnone_clients C (cl : list (Z * nat)) x : c_clients C = Some cl -> Rnone C (with_clients C x).
Proof. unfold Rnone. congruence. Qed.
Lemma Rnone_newbc C (cl : list (Z * nat)) node a : c_clients C = Some cl -> assoc node cl = None ->
  Rnone C (with_clients (with_bcs C (c_bcs C ++ [mkBc node (BrokerClient.with_addr BrokerClient.init a) [] None]))
                        (Some (cl ++ [(node, length (c_bcs C))]))).
Proof. unfold Rnone. congruence. Qed.
Ltac rnone_prims := first [exact Rnone_refl | exact Rnone_trans | exact Rnone_frame2 | exact Rnone_apply | exact Rnone_reqs_app
                          | exact Rnone_creq | exact Rnone_clients | exact Rnone_newbc].

Lemma close_step_clears C cl C' o : c_clients C = Some cl -> step C EClose = (C', o) -> c_clients C' = None /\ c_topics C' = [].
Proof.
  intros Ec H. cbn [step] in H. rewrite Ec in H.
  assert (Rnone (with_clients C None) (fst (close_brokerclients (with_clients C None) (map snd cl)))) as R1
    by (apply (g_close_brokerclients Rnone); rnone_prims).
  destruct (close_brokerclients (with_clients C None) (map snd cl)) as [C1 o1]. cbn [fst] in R1.
  assert (Rnone C1 (fst (cancel_boots C1 (length (c_ops C1)) 0))) as R2 by (apply (g_cancel_boots Rnone); rnone_prims).
  destruct (cancel_boots C1 (length (c_ops C1)) 0) as [C2 o2]. cbn [fst] in R2.
  assert (c_clients C2 = None) as N2 by (apply R2, R1; reflexivity).
  destruct (c_dl (with_topics C2 [])); injection H as <- _; split; auto.
Qed.

(* ------------------------------------------------------------------ close() ends in a closed state *)
Definition boot_phase (ph : phase) : Prop := match ph with PBootConn _ _ | PBootReq _ _ _ | PWait _ => True | _ => False end.

Lemma phase_set_same C p ph : nth_error (c_ops C) p <> None -> phase_of (set_phase C p ph) p = ph.
Proof.
  intro N. unfold phase_of, set_phase. cbn [c_ops with_ops]. destruct (nth_error (c_ops C) p) as [o|] eqn:E; [|congruence].
  rewrite (nth_upd_same _ _ _ _ E). reflexivity.
Qed.

Lemma phase_set_other C p ph p' : p' <> p -> phase_of (set_phase C p ph) p' = phase_of C p'.
Proof. intro N. unfold phase_of, set_phase. cbn [c_ops with_ops]. rewrite nth_upd_other by congruence. reflexivity. Qed.

Lemma cancel_boots_done : forall n C p0, c_clients C = None ->
  c_clients (fst (cancel_boots C n p0)) = None
  /\ length (c_ops (fst (cancel_boots C n p0))) = length (c_ops C)
  /\ (forall p, (p0 <= p < p0 + n)%nat -> ~ boot_phase (phase_of (fst (cancel_boots C n p0)) p))
  /\ (forall p, (p < p0 \/ p0 + n <= p)%nat -> phase_of (fst (cancel_boots C n p0)) p = phase_of C p).
Proof.
  induction n as [|n IH]; intros C p0 Hc; cbn [cancel_boots fst].
  - split; [exact Hc|]. split; [reflexivity|]. split; [intros p L; lia | reflexivity].
  - set (X := match nth_error (c_ops C) p0 with
              | Some (mkOp _ _ _ (PBootConn a rest)) => let (C', o') := boot_next (set_boot C a KDead) p0 rest in (C', OBootCancel a :: o')
              | Some (mkOp _ _ _ (PBootReq a t rest)) => let (C', o') := boot_next C p0 rest in (C', OCancelTimer t :: OBootLose a :: o')
              | Some (mkOp _ _ _ (PWait t)) => let (C', o') := op_fail C p0 RCancelled in (C', OCancelTimer t :: o')
              | _ => (C, []) end).
    assert (c_clients (fst X) = None /\ length (c_ops (fst X)) = length (c_ops C) /\ ~ boot_phase (phase_of (fst X) p0)
            /\ forall p, p <> p0 -> phase_of (fst X) p = phase_of C p) as (A1 & A0 & A2 & A3).
    { unfold X. destruct (nth_error (c_ops C) p0) as [[k al rid ph]|] eqn:Eo.
      2:{ cbn [fst]. split; [exact Hc|]. split; [reflexivity|]. split; [unfold phase_of; rewrite Eo; cbn; tauto | reflexivity]. }
      destruct ph; cbn [fst]; try (split; [exact Hc|]; split; [reflexivity|]; split; [unfold phase_of; rewrite Eo; cbn; tauto | reflexivity]).
      - unfold boot_next, closing. cbn [c_clients set_boot with_boots]. rewrite Hc. unfold op_fail. cbn [c_ops set_boot with_boots]. rewrite Eo. cbn [fst].
        split; [exact Hc|]. split; [unfold set_phase; cbn [c_ops with_ops set_boot with_boots]; apply nth_upd_length|]. split.
        + rewrite phase_set_same by (cbn [c_ops set_boot with_boots]; congruence). cbn. tauto.
        + intros p N. rewrite phase_set_other by exact N. reflexivity.
      - unfold boot_next, closing. rewrite Hc. unfold op_fail. rewrite Eo. cbn [fst].
        split; [exact Hc|]. split; [unfold set_phase; cbn [c_ops with_ops]; apply nth_upd_length|]. split.
        + rewrite phase_set_same by congruence. cbn. tauto.
        + intros p N. rewrite phase_set_other by exact N. reflexivity.
      - unfold op_fail. rewrite Eo. cbn [fst].
        split; [exact Hc|]. split; [unfold set_phase; cbn [c_ops with_ops]; apply nth_upd_length|]. split.
        + rewrite phase_set_same by congruence. cbn. tauto.
        + intros p N. rewrite phase_set_other by exact N. reflexivity. }
    destruct X as [C1 o1]. cbn [fst] in A1, A0, A2, A3.
    destruct (IH C1 (S p0) A1) as (B1 & B0 & B2 & B3). destruct (cancel_boots C1 n (S p0)) as [C2 o2]. cbn [fst] in *.
    split; [exact B1|]. split; [congruence|]. split.
    + intros p L. destruct (Nat.eq_dec p p0) as [->|N].
      * rewrite B3 by lia. exact A2.
      * apply B2. lia.
    + intros p L. rewrite B3 by lia. apply A3. lia.
Qed.

(* close() from ANY reachable open state ends in a closed state *)
Theorem close_establishes C cl C' o : TInvC [] C -> SInv None [] C -> c_clients C = Some cl ->
  step C EClose = (C', o) -> ClosedInv C'.
Proof.
  intros T Sv Ec H.
  pose proof (step_wf C EClose T) as T'. pose proof (step_S C EClose T Sv) as S'. rewrite H in T', S'. cbn [fst] in T', S'.
  destruct (close_step_clears C cl C' o Ec H) as [Hc Ht].
  assert (all_down C') as D.
  { intros i b Hb O. destruct (s_open _ _ _ S' i _ _ _ (cores_nth _ _ _ Hb) O) as [X|[]].
    unfold in_clients in X. rewrite Hc in X. exact X. }
  assert (forall p op, nth_error (c_ops C') p = Some op -> ~ boot_phase (o_phase op)) as boots_done.
  { (* bootstrap phases were ended by close() *)
    intros p op Hp. cbn [step] in H. rewrite Ec in H.
    destruct (close_brokerclients (with_clients C None) (map snd cl)) as [C1 o1] eqn:E1.
    assert (c_clients C1 = None) as N1.
    { pose proof (g_close_brokerclients Rnone Rnone_refl Rnone_trans Rnone_frame2 Rnone_apply Rnone_reqs_app Rnone_creq Rnone_newbc
                    (with_clients C None) (map snd cl)) as G. rewrite E1 in G. apply G. reflexivity. }
    destruct (cancel_boots_done (length (c_ops C1)) C1 0 N1) as (_ & B0 & B2 & _).
    destruct (cancel_boots C1 (length (c_ops C1)) 0) as [C2 o2]. cbn [fst] in B0, B2.
    assert (c_ops C' = c_ops C2) as Eo by (destruct (c_dl (with_topics C2 [])); injection H as <- _; reflexivity).
    rewrite Eo in Hp. assert (p < length (c_ops C2))%nat as L by (apply nth_error_Some; congruence).
    specialize (B2 p). unfold phase_of in B2. rewrite Hp in B2. apply B2. lia. }
  constructor; auto.
  (* every operation has ended *)
  intros p op Hp.
  destruct (o_phase op) as [rest i h|a rest|a t rest| |t] eqn:Eph; [| | |reflexivity|]; exfalso.
  - destruct (s_ops _ _ _ S' p op rest i h Hp Eph) as (n & s & qs & q & A & B & _ & [E|E]); [|discriminate].
    destruct (cores_nth_inv _ _ _ _ _ A) as (b & Hb & _ & <- & <-).
    destruct (TInvC_bc _ _ _ _ T' Hb) as (I & L & Dd & _).
    destruct (q_timer q) as [t|] eqn:Et; [|congruence].
    destruct (Dd h q t B Et) as [_ [X|[]]]. apply X. apply closed_all_fired; [exact I | exact (D i b Hb) |].
    rewrite <- L. apply nth_error_Some. congruence.
  - apply (boots_done p op); [exact Hp | rewrite Eph; exact I].
  - apply (boots_done p op); [exact Hp | rewrite Eph; exact I].
  - apply (boots_done p op); [exact Hp | rewrite Eph; exact I].
Qed.

(* ------------------------------------------------------------------ statements of Props/C20.v *)
Definition net_quiet (o : output) : bool :=
  match o with OConnect _ _ | OWrite _ _ | OBootConnect _ _ | OBootWrite _ _ | OSched _ _ _ => false | _ => true end.

Lemma c20_closed_forever C evs C' o : ClosedInv C -> run C evs = (C', o) ->
  ClosedInv C' /\ forallb net_quiet o = true.
Proof. intros K H. destruct (run_closed evs C C' o K H) as [K' Q]. split; [exact K' | exact Q]. Qed.

(* close() from any reachable open state: afterwards the client is closed *)
Lemma c20_pending_end g evs cl C' o :
  c_clients (fst (run (init g) evs)) = Some cl -> step (fst (run (init g) evs)) EClose = (C', o) -> ClosedInv C'.
Proof. intros Ec H. eapply close_establishes; [apply reachable_wf | apply reachable_S | exact Ec | exact H]. Qed.

(* ... which means: every request Deferred has fired and its DelayedCall is gone, every operation has ended *)
Lemma closed_resolved C : ClosedInv C ->
  (forall i b h q, nth_error (c_bcs C) i = Some b -> nth_error (b_reqs b) h = Some q ->
     In h (BrokerClient.t_fired (BrokerClient.s_t (b_st b))) /\ q_timer q = None)
  /\ (forall p, phase_of C p = PDone)
  /\ (forall i b, nth_error (c_bcs C) i = Some b -> BrokerClient.s_down (b_st b) <> BrokerClient.DNone
                                                  /\ BrokerClient.t_reqs (BrokerClient.s_t (b_st b)) = []).
Proof.
  intros [Cc T D Dn Tp]. split; [|split].
  - intros i b h q Hb Hq. destruct (TInvC_bc _ _ _ _ T Hb) as (I & L & A & _).
    assert (sfired (b_st b) h) as F.
    { apply closed_all_fired; [exact I | exact (D i b Hb) |]. rewrite <- L. apply nth_error_Some. congruence. }
    split; [exact F|]. destruct (q_timer q) as [t|] eqn:Et; [|reflexivity].
    destruct (A h q t Hq Et) as [_ [X|[]]]. contradiction.
  - intros p. apply phase_done. exact Dn.
  - intros i b Hb. split; [exact (D i b Hb)|]. destruct (TInvC_bc _ _ _ _ T Hb) as (I & _).
    exact (proj1 (ci_closed _ I (D i b Hb))).
Qed.

(* close(), then anything: closed for ever, and never a connection attempt, a write or a timer *)
Lemma c20_after_close g evs cl C1 o1 evs2 C2 o2 :
  c_clients (fst (run (init g) evs)) = Some cl -> step (fst (run (init g) evs)) EClose = (C1, o1) -> run C1 evs2 = (C2, o2) ->
  ClosedInv C2 /\ forallb net_quiet o2 = true.
Proof. intros Ec H1 H2. apply (c20_closed_forever C1 evs2); [eapply c20_pending_end; eauto | exact H2]. Qed.

(* ------------------------------------------------------------------ close() itself connects, writes and schedules nothing *)
Lemma op_fail_quiet C p r : quiet (snd (op_fail C p r)).
Proof. unfold op_fail. destruct (nth_error (c_ops C) p); reflexivity. Qed.

Lemma boot_next_closing_quiet C p hosts : c_clients C = None -> quiet (snd (boot_next C p hosts)).
Proof. intro H. unfold boot_next, closing. rewrite H. apply op_fail_quiet. Qed.

Lemma op_known_closing_quiet C p rid nodes : c_clients C = None -> quiet (snd (op_known C p rid nodes)).
Proof.
  intro H. destruct nodes; cbn [op_known]; [apply boot_next_closing_quiet; exact H|]. rewrite H. apply op_fail_quiet.
Qed.

Lemma op_known_closing_none C p rid nodes : c_clients C = None -> c_clients (fst (op_known C p rid nodes)) = None.
Proof. intro H. apply (g_op_known Rnone Rnone_refl Rnone_trans Rnone_frame2 Rnone_apply Rnone_reqs_app Rnone_newbc nodes C p rid H). Qed.

(* outputs of an M7 close(): nothing but close requests, cancellations, Deferred failures *)
Definition close_mo (o : BrokerClient.output) : bool :=
  match o with BrokerClient.OConnect _ | BrokerClient.OWrite _ _ | BrokerClient.OSched _ => false | _ => true end.

Lemma close_outputs s s' mo : CInv s -> BrokerClient.step s BrokerClient.EClose = (s', mo) -> forallb close_mo mo = true.
Proof.
  intros I H. apply forallb_forall. intros o Ho.
  assert (writes mo = [] /\ connects mo = [] /\ scheds mo = []) as (W & Cn & Sc).
  { destruct (BrokerClient.s_down s) eqn:D.
    - destruct (close_step _ _ _ I D H) as (_ & _ & _ & _ & W & Cn & Sc & _). auto.
    - assert (closed s) as Cl by (unfold closed; congruence). destruct (closed_step _ _ _ _ I Cl H) as (_ & W & Cn & Sc & _). auto.
    - assert (closed s) as Cl by (unfold closed; congruence). destruct (closed_step _ _ _ _ I Cl H) as (_ & W & Cn & Sc & _). auto. }
  destruct o; try reflexivity; exfalso.
  - assert (In addr (connects mo)) as X by (unfold connects; apply in_flat_map; exists (BrokerClient.OConnect addr); split; [exact Ho | left; reflexivity]).
    rewrite Cn in X. exact X.
  - assert (In (h, rid) (writes mo)) as X by (unfold writes; apply in_flat_map; exists (BrokerClient.OWrite h rid); split; [exact Ho | left; reflexivity]).
    rewrite W in X. exact X.
  - assert (In k (scheds mo)) as X by (unfold scheds; apply in_flat_map; exists (BrokerClient.OSched k); split; [exact Ho | left; reflexivity]).
    rewrite Sc in X. exact X.
Qed.

Lemma tr_out_close_quiet C i o : close_mo o = true -> quiet (snd (tr_out C i o)).
Proof.
  destruct o; try discriminate; intros _; cbn [tr_out snd]; try reflexivity.
  - destruct (nth_error (c_bcs C) i) as [b|]; [|reflexivity]. destruct (b_timer b); reflexivity.
  - unfold dl_refresh. destruct (c_dl C) as [l|]; [|reflexivity]. destruct (filter (bc_pending C) l); [|reflexivity].
    destruct (c_wait _); reflexivity.
Qed.

Lemma on_def0_closing C i h oc : c_clients C = None ->
  c_clients (fst (on_def succ0 C i h oc)) = None /\ quiet (snd (on_def succ0 C i h oc)).
Proof.
  intro H. unfold on_def. destruct (nth_error (c_bcs C) i) as [b|]; [|split; [exact H | reflexivity]].
  destruct (nth_error (b_reqs b) h) as [q|]; [|split; [exact H | reflexivity]].
  set (X := match q_timer q with
            | Some t => (upd_creq C i h (fun q0 => mkCreq (q_owner q0) None (q_to q0)), [OCancelTimer t])
            | None => (C, []) end).
  assert (c_clients (fst X) = None /\ quiet (snd X)) as [H1 Q1] by (unfold X; destruct (q_timer q); split; auto; reflexivity).
  destruct X as [C1 o1]. cbn [fst snd] in H1, Q1.
  destruct (q_owner q) as [d|p]; [split; [exact H1 | apply quiet_app; [exact Q1 | reflexivity]]|].
  destruct (nth_error (c_ops C1) p) as [[k al rid ph]|]; [|split; [exact H1 | apply quiet_app; [exact Q1 | reflexivity]]].
  destruct ph as [rest i' h'| | | |]; try (split; [exact H1 | apply quiet_app; [exact Q1 | reflexivity]]).
  destruct (Nat.eqb i i' && Nat.eqb h h'); [|split; [exact H1 | apply quiet_app; [exact Q1 | reflexivity]]].
  destruct (if q_to q then RTimedOut else res_of oc);
    try (pose proof (op_known_closing_none C1 p rid rest H1) as N; pose proof (op_known_closing_quiet C1 p rid rest H1) as Q;
         destruct (op_known C1 p rid rest); cbn [fst snd] in *; split; [exact N | apply quiet_app; assumption]).
  - cbn [succ0 fst snd]. split; [exact H1 | apply quiet_app; [exact Q1 | reflexivity]].
  - pose proof (op_fail_quiet C1 p RCancelled) as Q. unfold op_fail in *. destruct (nth_error (c_ops C1) p); cbn [fst snd] in *;
      (split; [exact H1 | apply quiet_app; assumption]).
Qed.

Lemma proc0_closing : forall os C i, c_clients C = None -> forallb close_mo os = true ->
  c_clients (fst (proc succ0 C i os)) = None /\ quiet (snd (proc succ0 C i os)).
Proof.
  induction os as [|o os IH]; intros C i H Hos; cbn [proc]; [split; [exact H | reflexivity]|].
  cbn [forallb] in Hos. apply andb_prop in Hos. destruct Hos as [Ho Hos].
  assert (c_clients (fst (match o with BrokerClient.ODef h oc => on_def succ0 C i h oc | _ => tr_out C i o end)) = None
          /\ quiet (snd (match o with BrokerClient.ODef h oc => on_def succ0 C i h oc | _ => tr_out C i o end))) as [H1 Q1].
  { assert (forall o0, c_clients (fst (tr_out C i o0)) = None) as N0
      by (intro o0; pose proof (tr_out_rest C i o0) as (_ & X & _); rewrite X; exact H).
    destruct o; try (split; [apply N0 | apply tr_out_close_quiet; exact Ho]).
    apply on_def0_closing. exact H. }
  destruct (match o with BrokerClient.ODef h oc => on_def succ0 C i h oc | _ => tr_out C i o end) as [C1 o1]. cbn [fst snd] in H1, Q1.
  destruct (IH C1 i H1 Hos) as [H2 Q2]. destruct (proc succ0 C1 i os). cbn [fst snd] in *. split; [exact H2 | apply quiet_app; assumption].
Qed.

Lemma close_each_closing : forall l pend C, TInvC pend C -> c_clients C = None ->
  c_clients (fst (close_each C l)) = None /\ quiet (snd (close_each C l)).
Proof.
  induction l as [|i l IH]; intros pend C T H; cbn [close_each]; [split; [exact H | reflexivity]|].
  pose proof (bc_event_wf succ0 succ0_wf pend C i BrokerClient.EClose eq_refl T) as T1.
  assert (c_clients (fst (bc_event succ0 C i BrokerClient.EClose)) = None /\ quiet (snd (bc_event succ0 C i BrokerClient.EClose))) as [H1 Q1].
  { unfold bc_event, apply_bc. destruct (nth_error (c_bcs C) i) as [b|] eqn:Eb; [|cbn [proc fst snd]; split; [exact H | reflexivity]].
    destruct (BrokerClient.step (b_st b) BrokerClient.EClose) as [s' mo] eqn:Es.
    destruct (TInvC_bc _ _ _ _ T Eb) as (I & _).
    apply proc0_closing; [exact H | exact (close_outputs _ _ _ I Es)]. }
  destruct (bc_event succ0 C i BrokerClient.EClose) as [C1 o1]. cbn [fst snd] in *.
  destruct (IH pend C1 T1 H1) as [H2 Q2]. destruct (close_each C1 l). cbn [fst snd] in *. split; [exact H2 | apply quiet_app; assumption].
Qed.

Lemma cancel_boots_closing_quiet : forall n C p, c_clients C = None -> quiet (snd (cancel_boots C n p)).
Proof.
  induction n as [|n IH]; intros C p H; cbn [cancel_boots]; [reflexivity|].
  set (X := match nth_error (c_ops C) p with
            | Some (mkOp _ _ _ (PBootConn a rest)) => let (C', o') := boot_next (set_boot C a KDead) p rest in (C', OBootCancel a :: o')
            | Some (mkOp _ _ _ (PBootReq a t rest)) => let (C', o') := boot_next C p rest in (C', OCancelTimer t :: OBootLose a :: o')
            | Some (mkOp _ _ _ (PWait t)) => let (C', o') := op_fail C p RCancelled in (C', OCancelTimer t :: o')
            | _ => (C, []) end).
  assert (c_clients (fst X) = None /\ quiet (snd X)) as [H1 Q1].
  { unfold X. destruct (nth_error (c_ops C) p) as [[k al rid ph]|]; [|split; [exact H | reflexivity]].
    destruct ph; try (split; [exact H | reflexivity]).
    - pose proof (boot_next_closing_quiet (set_boot C a KDead) p rest H) as Q.
      pose proof (g_boot_next Rnone Rnone_refl Rnone_trans Rnone_frame2 (set_boot C a KDead) p rest H) as N.
      destruct (boot_next (set_boot C a KDead) p rest). cbn [fst snd] in *. split; [exact N | exact Q].
    - pose proof (boot_next_closing_quiet C p rest H) as Q.
      pose proof (g_boot_next Rnone Rnone_refl Rnone_trans Rnone_frame2 C p rest H) as N.
      destruct (boot_next C p rest). cbn [fst snd] in *. split; [exact N | exact Q].
    - pose proof (op_fail_quiet C p RCancelled) as Q. unfold op_fail in *. destruct (nth_error (c_ops C) p); cbn [fst snd] in *;
        (split; [exact H | exact Q]). }
  destruct X as [C1 o1]. cbn [fst snd] in *. pose proof (IH C1 (S p) H1) as Q2. destruct (cancel_boots C1 n (S p)). cbn [snd] in *.
  apply quiet_app; assumption.
Qed.

Theorem close_step_quiet C cl C' o : TInvC [] C -> c_clients C = Some cl -> step C EClose = (C', o) -> quiet o.
Proof.
  intros T Ec H. cbn [step] in H. rewrite Ec in H. unfold close_brokerclients in H.
  assert (TInvC [] (with_clients C None)) as T0 by (eapply TInvC_same_core; [exact T | score]).
  destruct (close_each_closing (map snd cl) [] (with_clients C None) T0 eq_refl) as [H1 Q1].
  destruct (close_each (with_clients C None) (map snd cl)) as [C1 o1]. cbn [fst snd] in H1, Q1.
  set (C1' := with_dl C1 _) in *.
  assert (quiet (snd (dl_refresh C1')) /\ c_clients (fst (dl_refresh C1')) = None) as [Q2 H2].
  { unfold dl_refresh. destruct (c_dl C1') as [l|]; [|split; [reflexivity | exact H1]].
    destruct (filter (bc_pending C1') l); [|split; [reflexivity | exact H1]]. destruct (c_wait _); split; try reflexivity; exact H1. }
  destruct (dl_refresh C1') as [C2 o2]. cbn [fst snd] in *.
  pose proof (cancel_boots_closing_quiet (length (c_ops C2)) C2 0 H2) as Q3.
  destruct (cancel_boots C2 (length (c_ops C2)) 0) as [C3 o3]. cbn [snd] in Q3.
  destruct (c_dl (with_topics C3 [])); injection H as _ <-.
  - apply quiet_app; [apply quiet_app; assumption | exact Q3].
  - apply quiet_app; [apply quiet_app; assumption|]. apply quiet_app; [exact Q3 | reflexivity].
Qed.

(* close(), then anything: from the moment close() is called no connection is attempted, nothing is written, no timer is armed *)
Lemma c20_no_connect_no_write g evs cl C1 o1 evs2 C2 o2 :
  c_clients (fst (run (init g) evs)) = Some cl -> step (fst (run (init g) evs)) EClose = (C1, o1) -> run C1 evs2 = (C2, o2) ->
  forallb net_quiet (o1 ++ o2) = true /\ ClosedInv C2.
Proof.
  intros Ec H1 H2. destruct (c20_after_close g evs cl C1 o1 evs2 C2 o2 Ec H1 H2) as [K Q]. split; [|exact K].
  rewrite forallb_app. rewrite Q. rewrite Bool.andb_true_r.
  exact (close_step_quiet _ cl C1 o1 (reachable_wf g evs) Ec H1).
Qed.
