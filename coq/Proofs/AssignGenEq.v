(* The function translated from afkak/_group.py:_round_robin_assignment (Model/AssignGen.v: the committed snapshot of
   harness/py2assign.py's output for /repo) equals the hand-written model Assign.round_robin, for every fuel of the
   inner `while` that is at least the number of members (so the value is that of the unbounded loop; by
   C15_assign_defined it is never "out of fuel").  The proof is the generic tactic of Proofs/AssignGenTac.v; the same
   lines are instantiated on THIS RUN's translation by harness/assign_tie.py (coq/Run/out/gen/<id>/). *)
From AV Require Import Base.Util Model.Assign Model.AssignPy Model.AssignGen Proofs.AssignDict Proofs.AssignOrder Proofs.AssignRR Proofs.AssignGenTac.
From Coq Require Import Lia Permutation.

Theorem gen_rr_eq_model : forall fuel md tp, NoDup (map fst md) -> (length md <= fuel)%nat ->
  gen_round_robin fuel md tp = round_robin md tp.
Proof. gen_rr_tac. Qed.

(* the leader's decision for a member list as received (a later duplicate id wins: build_md) *)
Theorem gen_leader_eq_model : forall fuel members tp, (length members <= fuel)%nat ->
  gen_round_robin fuel (build_md members) tp = leader_assign members tp.
Proof.
  intros fuel members tp H. apply gen_rr_eq_model; [apply build_md_nodup|].
  assert (L : (length (build_md members) <= length members)%nat).
  { rewrite <- (map_length fst (build_md members)), <- (map_length fst members).
    apply NoDup_incl_length; [apply build_md_nodup|]. intros x Hx. apply build_md_keys. exact Hx. }
  lia.
Qed.
