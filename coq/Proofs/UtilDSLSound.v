(* Soundness of the committed terms of the _util.py tie (Model/UtilAst.v): running each of them in the interpreter of
   Model/UtilDSL.v is, for ALL arguments, the corresponding function of the frozen model Model/Prim.v - value, new cursor
   or exception kind.  Together with the per-run check  gen_f = ast_f  (harness/util_tie.py) this ties the SOURCE of
   afkak/_util.py to Model.Prim by translation, beside the sampled correspondence. *)
From Coq Require Import Lia String.
From AV Require Import Base.Util Model.Partitioner Model.Prim Model.Requests Model.UtilDSL Model.UtilAst
     Proofs.PrimFacts Proofs.DecodeTotal.
Local Open Scope Z_scope.

(* ------------------------------------------------------------------ how arguments and results are presented *)
Definition vb (s : option (list Z)) : val := match s with None => VNone | Some b => VBytes b end.   (* bytes or None *)
Definition vt (s : option (list Z)) : val := match s with None => VNone | Some c => VText c end.    (* str or None *)
Definition lift (r : res (list Z)) : res val := match r with Ok b => Ok (VBytes b) | Err e => Err e end.

(* ------------------------------------------------------------------ arithmetic of the linear forms *)
Lemma pos_gt (x c : Z) : (0 <? 1 * x + c)%Z = (- c <? x)%Z.
Proof. destruct (Z.ltb_spec 0 (1 * x + c)), (Z.ltb_spec (- c) x); try reflexivity; lia. Qed.

Lemma pack_list1 f v : pack_list [(f, v)] = pack f v.
Proof. cbn [pack_list]. destruct (pack f v); cbn [bind]; [rewrite app_nil_r|]; reflexivity. Qed.

(* ------------------------------------------------------------------ writers *)
Theorem write_int_string_sound s : run ast_write_int_string [vb s] = lift (write_int_string s).
Proof.
  destruct s as [b|]; [|vm_compute; reflexivity].
  unfold ast_write_int_string. cbn [run eval_cond eval nth_error vb run_op eval_fields].
  replace (1 * len b + 0) with (len b) by lia. cbn [bind]. rewrite pack_list1.
  unfold write_int_string, write_i32. destruct (pack Fi (len b)) as [h|e]; cbn [bind lift app]; reflexivity.
Qed.

(* the part shared by write_short_bytes and (after encoding) write_short_ascii / write_short_text: the value sits at
   level i, which is the last one *)
Definition short_tail (i : nat) : tree :=
  TIf (CPos (ELin (-32767) [(1, ELen (EVar i))]))
      (TRaise StructErr)
      (TBind (OPack [(Fh, ELin 0 [(1, ELen (EVar i))])])
             (TRet (ECat (EVar (S i)) (EVar i)))).

Lemma short_tail_sound i env b :
  nth_error env i = Some (VBytes b) -> length env = S i ->
  run (short_tail i) env = lift (write_short_bytes (Some b)).
Proof.
  intros Hn Hl. unfold short_tail. cbn [run eval_cond eval]. rewrite Hn.
  replace (1 * len b + -32767) with (1 * len b + (-32767)) by reflexivity. rewrite pos_gt. cbn [Z.opp].
  unfold write_short_bytes. destruct (32767 <? len b); [reflexivity|].
  cbn [run_op eval_fields eval]. rewrite Hn. replace (1 * len b + 0) with (len b) by lia. cbn [bind].
  rewrite pack_list1. unfold write_i16. destruct (pack Fh (len b)) as [h|e]; cbn [bind lift]; [|reflexivity].
  cbn [run eval].
  assert (N1 : nth_error (env ++ [VBytes h]) (S i) = Some (VBytes h)).
  { rewrite nth_error_app2 by lia. rewrite Hl, Nat.sub_diag. reflexivity. }
  assert (N0 : nth_error (env ++ [VBytes h]) i = Some (VBytes b)).
  { rewrite nth_error_app1 by lia. exact Hn. }
  rewrite N1, N0. reflexivity.
Qed.

Theorem write_short_bytes_sound s : run ast_write_short_bytes [vb s] = lift (write_short_bytes s).
Proof.
  destruct s as [b|]; [|vm_compute; reflexivity].
  change ast_write_short_bytes with (TIf (CIsNone (EVar 0)) (TRet (EBytes [255; 255])) (short_tail 0)).
  cbn [run eval_cond eval nth_error vb]. apply short_tail_sound; reflexivity.
Qed.

Theorem write_short_ascii_sound s : run ast_write_short_ascii [vt s] = lift (write_short_ascii s).
Proof.
  destruct s as [c|]; [|vm_compute; reflexivity].
  change ast_write_short_ascii with
    (TIf (CIsNone (EVar 0)) (TRet (EBytes [255; 255])) (TBind (OEncode Ascii (EVar 0)) (short_tail 1))).
  cbn [run eval_cond eval nth_error vt run_op]. unfold write_short_ascii.
  destruct (ascii_cps c); [|reflexivity]. apply short_tail_sound; reflexivity.
Qed.

Theorem write_short_text_sound s : run ast_write_short_text [vt s] = lift (write_short_text s).
Proof.
  destruct s as [c|]; [|vm_compute; reflexivity].
  change ast_write_short_text with
    (TIf (CIsNone (EVar 0)) (TRet (EBytes [255; 255])) (TBind (OEncode Utf8 (EVar 0)) (short_tail 1))).
  cbn [run eval_cond eval nth_error vt run_op]. unfold write_short_text.
  destruct (utf8 c) as [b|]; [|reflexivity]. apply short_tail_sound; reflexivity.
Qed.

(* ------------------------------------------------------------------ lists and slices *)
Lemma drop_drop {A} (l : list A) : forall a b, drop a (drop b l) = drop (b + a) l.
Proof.
  induction l as [|x l IH]; intros a b.
  - destruct a, b; reflexivity.
  - destruct b as [|b]; [reflexivity|]. cbn [drop Nat.add]. apply IH.
Qed.

Lemma take_take {A} n (l : list A) : take n (take n l) = take n l.
Proof. revert l. induction n as [|n IH]; intros [|x l]; cbn [take]; auto. f_equal. apply IH. Qed.

Lemma drop_take_nil {A} n (l : list A) : drop n (take n l) = [].
Proof. revert l. induction n as [|n IH]; intros [|x l]; cbn [take drop]; auto. Qed.

Lemma slice_ok b lo hi : 0 <= lo -> 0 <= hi -> slice b lo hi = Some (take (Z.to_nat (hi - lo)) (drop (Z.to_nat lo) b)).
Proof.
  intros H1 H2. unfold slice. replace (lo <? 0) with false by (symmetry; apply Z.ltb_ge; lia).
  replace (hi <? 0) with false by (symmetry; apply Z.ltb_ge; lia). reflexivity.
Qed.

(* one field read from exactly its bytes *)
Lemma unpack_exact f d n r : unpack f d = Ok (n, r) ->
  unpack f (take (fmt_size f) d) = Ok (n, []) /\ r = drop (fmt_size f) d /\ (fmt_size f <= length d)%nat.
Proof.
  unfold unpack. destruct (Nat.ltb (length d) (fmt_size f)) eqn:L; [discriminate|]. apply Nat.ltb_ge in L.
  intros [= <- <-]. rewrite take_length, Nat.min_l by lia. rewrite Nat.ltb_irrefl, take_take, drop_take_nil. auto.
Qed.

(* ------------------------------------------------------------------ readers: the common decision tree *)
Definition reader_tree (f : ifmt) (w : Z) (lnone : ex -> tree) (lsome : ex -> ex -> tree) : tree :=
  TIf (CPos (ELin w [(-1, ELen (EVar 0)); (1, EVar 1)])) (TRaise Underflow)
   (TBind (OUnpack (EFmt [f]) (ESlice (EVar 0) (ELin 0 [(1, EVar 1)]) (ELin w [(1, EVar 1)])))
     (TIf (CZero (ELin 1 [(1, EIdx (EVar 2) 0)])) (lnone (ELin w [(1, EVar 1)]))
       (TIf (CPos (ELin (-1) [(-1, EIdx (EVar 2) 0)])) (TRaise Protocol)
         (TIf (CPos (ELin w [(1, EIdx (EVar 2) 0); (-1, ELen (EVar 0)); (1, EVar 1)])) (TRaise Underflow)
            (lsome (ESlice (EVar 0) (ELin w [(1, EVar 1)]) (ELin w [(1, EIdx (EVar 2) 0); (1, EVar 1)]))
                   (ELin w [(1, EIdx (EVar 2) 0); (1, EVar 1)])))))).

Definition env3 (data : list Z) (cur : nat) (n : Z) : list val := [VBytes data; VInt (Z.of_nat cur); VTup [VInt n]].

Lemma reader_run f data cur lnone lsome :
  (cur <= length data)%nat ->
  let w := Z.of_nat (fmt_size f) in
  run (reader_tree f w lnone lsome) [VBytes data; VInt (Z.of_nat cur)] =
  match unpack f (drop cur data) with
  | Err e => Err e
  | Ok (n, r) =>
      if (n =? -1) then run (lnone (ELin w [(1, EVar 1)])) (env3 data cur n)
      else if (n <? -1) then Err Protocol
      else if (len r <? n) then Err Underflow
      else run (lsome (ESlice (EVar 0) (ELin w [(1, EVar 1)]) (ELin w [(1, EIdx (EVar 2) 0); (1, EVar 1)]))
                      (ELin w [(1, EIdx (EVar 2) 0); (1, EVar 1)])) (env3 data cur n)
  end.
Proof.
  intros Hc w. unfold reader_tree. cbn [run eval_cond eval nth_error].
  set (d := drop cur data). assert (Ld : length d = (length data - cur)%nat) by (subst d; apply drop_length).
  destruct (unpack f d) as [[n r]|e] eqn:U.
  - destruct (unpack_exact f d n r U) as (Ue & -> & Lw).
    replace (0 <? -1 * len data + (1 * Z.of_nat cur + w)) with false
      by (symmetry; apply Z.ltb_ge; unfold len; subst w; lia).
    cbn [run_op eval nth_error].
    replace (1 * Z.of_nat cur + 0) with (Z.of_nat cur) by lia.
    replace (1 * Z.of_nat cur + w) with (Z.of_nat cur + w) by lia.
    rewrite slice_ok by (subst w; lia).
    replace (Z.to_nat (Z.of_nat cur + w - Z.of_nat cur)) with (fmt_size f) by (subst w; lia).
    rewrite Nat2Z.id. fold d. unfold struct_unpack. cbn [unpack_seq]. rewrite Ue. cbn [bind map].
    change ([VBytes data; VInt (Z.of_nat cur)] ++ [VTup [VInt n]])%list with (env3 data cur n).
    cbn [run eval_cond eval nth_error env3].
    replace (1 * n + 1 =? 0) with (n =? -1) by (destruct (Z.eqb_spec n (-1)), (Z.eqb_spec (1 * n + 1) 0); try reflexivity; lia).
    destruct (n =? -1); [reflexivity|].
    replace (0 <? -1 * n + -1) with (n <? -1) by (destruct (Z.ltb_spec n (-1)), (Z.ltb_spec 0 (-1 * n + -1)); try reflexivity; lia).
    destruct (n <? -1); [reflexivity|].
    assert (Lr : len (drop (fmt_size f) d) = len data - Z.of_nat cur - w).
    { unfold len. rewrite drop_length, Ld. subst w. lia. }
    replace (0 <? 1 * n + (-1 * len data + (1 * Z.of_nat cur + w))) with (len (drop (fmt_size f) d) <? n).
    2:{ rewrite Lr. destruct (Z.ltb_spec (len data - Z.of_nat cur - w) n), (Z.ltb_spec 0 (1 * n + (-1 * len data + (1 * Z.of_nat cur + w))));
        try reflexivity; lia. }
    destruct (len (drop (fmt_size f) d) <? n); reflexivity.
  - pose proof (unpack_errors f d e U) as ->. apply unpack_underflow in U. rewrite Ld in U.
    replace (0 <? -1 * len data + (1 * Z.of_nat cur + w)) with true
      by (symmetry; apply Z.ltb_lt; unfold len; subst w; lia).
    reflexivity.
Qed.

(* what the leaf expressions evaluate to *)
Lemma env3_cursor0 data cur n w : eval (env3 data cur n) (ELin w [(1, EVar 1)]) = Some (VInt (Z.of_nat cur + w)).
Proof. cbn [eval env3 nth_error]. f_equal. f_equal. lia. Qed.

Lemma env3_cursor data cur n w :
  eval (env3 data cur n) (ELin w [(1, EIdx (EVar 2) 0); (1, EVar 1)]) = Some (VInt (Z.of_nat cur + w + n)).
Proof. cbn [eval env3 nth_error]. f_equal. f_equal. lia. Qed.

Lemma env3_slice data cur n (k : nat) : 0 <= n ->
  eval (env3 data cur n) (ESlice (EVar 0) (ELin (Z.of_nat k) [(1, EVar 1)]) (ELin (Z.of_nat k) [(1, EIdx (EVar 2) 0); (1, EVar 1)]))
  = Some (VBytes (take (Z.to_nat n) (drop k (drop cur data)))).
Proof.
  intros Hn. cbn [eval env3 nth_error].
  rewrite slice_ok by lia. f_equal. f_equal.
  replace (Z.to_nat (1 * n + (1 * Z.of_nat cur + Z.of_nat k) - (1 * Z.of_nat cur + Z.of_nat k))) with (Z.to_nat n) by lia.
  replace (Z.to_nat (1 * Z.of_nat cur + Z.of_nat k)) with (cur + k)%nat by lia.
  rewrite drop_drop. reflexivity.
Qed.

Lemma eval_tup2 env a b :
  eval env (ETup [a; b]) = match eval env a, eval env b with Some x, Some y => Some (VTup [x; y]) | _, _ => None end.
Proof. cbn [eval]. destruct (eval env a), (eval env b); reflexivity. Qed.

(* the presentation of a reader's result: (value, new cursor) *)
Definition reader_result (present : option (list Z) -> val) (data : list Z) (r : res (option (list Z) * list Z)) : res val :=
  match r with
  | Ok (v, rest) => Ok (VTup [present v; VInt (len data - len rest)])
  | Err e => Err e
  end.

Lemma read_string_sound f data cur :
  (cur <= length data)%nat ->
  run (reader_tree f (Z.of_nat (fmt_size f)) (fun c => TRet (ETup [ENone; c])) (fun s c => TRet (ETup [s; c])))
      [VBytes data; VInt (Z.of_nat cur)]
  = reader_result vb data (read_string f (drop cur data)).
Proof.
  intros Hc. rewrite (reader_run f data cur _ _ Hc). unfold read_string.
  set (d := drop cur data). assert (Ld : length d = (length data - cur)%nat) by (subst d; apply drop_length).
  destruct (unpack f d) as [[n r]|e] eqn:U; cbn [bind reader_result]; [|reflexivity].
  destruct (unpack_exact f d n r U) as (_ & -> & Lw).
  assert (Lr : len (drop (fmt_size f) d) = len data - Z.of_nat cur - Z.of_nat (fmt_size f)).
  { unfold len. rewrite drop_length, Ld. lia. }
  destruct (n =? -1) eqn:N0.
  { cbn [run]. rewrite eval_tup2, env3_cursor0. cbn [eval reader_result vb]. rewrite Lr.
    replace (len data - (len data - Z.of_nat cur - Z.of_nat (fmt_size f))) with (Z.of_nat cur + Z.of_nat (fmt_size f)) by lia.
    reflexivity. }
  apply Z.eqb_neq in N0. destruct (n <? -1) eqn:N1; [reflexivity|]. apply Z.ltb_ge in N1.
  destruct (len (drop (fmt_size f) d) <? n) eqn:N2; [reflexivity|]. apply Z.ltb_ge in N2.
  cbn [run]. rewrite eval_tup2, env3_cursor.
  pose proof (env3_slice data cur n (fmt_size f)) as S. fold d in S. rewrite S by lia.
  cbn [reader_result vb].
  assert (E : len data - len (drop (Z.to_nat n) (drop (fmt_size f) d)) = Z.of_nat cur + Z.of_nat (fmt_size f) + n).
  { unfold len in *. rewrite drop_length. lia. }
  rewrite E. reflexivity.
Qed.

Theorem read_short_bytes_sound data cur : (cur <= length data)%nat ->
  run ast_read_short_bytes [VBytes data; VInt (Z.of_nat cur)] = reader_result vb data (read_short_bytes (drop cur data)).
Proof. intros H. exact (read_string_sound Fh data cur H). Qed.

Theorem read_int_string_sound data cur : (cur <= length data)%nat ->
  run ast_read_int_string [VBytes data; VInt (Z.of_nat cur)] = reader_result vb data (read_int_string (drop cur data)).
Proof. intros H. exact (read_string_sound Fi data cur H). Qed.

(* ---- read_short_ascii / read_short_text: the same tree with bytes.decode at the leaves *)
Definition decoded_result (data : list Z) (r : res (list Z * list Z)) : res val :=
  match r with
  | Ok (b, rest) => Ok (VTup [VStr b; VInt (len data - len rest)])
  | Err e => Err e
  end.

Definition ucodec_valid (c : ucodec) : list Z -> bool := match c with Ascii => ascii_valid | Utf8 => utf8_valid end.

Lemma read_short_decoded_sound c data cur :
  (cur <= length data)%nat ->
  run (reader_tree Fh 2 (fun p => TBind (ODecode c ENone) (TRet (ETup [EVar 3; p])))
                        (fun s p => TBind (ODecode c s) (TRet (ETup [EVar 3; p]))))
      [VBytes data; VInt (Z.of_nat cur)]
  = decoded_result data (read_short_decoded (ucodec_valid c) (drop cur data)).
Proof.
  intros Hc. rewrite (reader_run Fh data cur _ _ Hc). unfold read_short_decoded, read_short_bytes, read_string.
  set (d := drop cur data). assert (Ld : length d = (length data - cur)%nat) by (subst d; apply drop_length).
  destruct (unpack Fh d) as [[n r]|e] eqn:U; cbn [bind decoded_result]; [|reflexivity].
  destruct (unpack_exact Fh d n r U) as (_ & -> & Lw). cbn [fmt_size] in *.
  destruct (n =? -1) eqn:N0. { cbn [bind run run_op eval]. reflexivity. }
  apply Z.eqb_neq in N0. destruct (n <? -1) eqn:N1; [reflexivity|]. apply Z.ltb_ge in N1.
  destruct (len (drop 2 d) <? n) eqn:N2; [reflexivity|]. apply Z.ltb_ge in N2.
  cbn [bind run run_op].
  pose proof (env3_slice data cur n 2) as S. fold d in S. rewrite S by lia.
  replace (match c with Ascii => ascii_valid (take (Z.to_nat n) (drop 2 d)) | Utf8 => utf8_valid (take (Z.to_nat n) (drop 2 d)) end)
    with (ucodec_valid c (take (Z.to_nat n) (drop 2 d))) by (destruct c; reflexivity).
  destruct (ucodec_valid c (take (Z.to_nat n) (drop 2 d))); [|reflexivity].
  cbn [run]. rewrite eval_tup2. cbn [env3 app eval nth_error decoded_result].
  assert (E : len data - len (drop (Z.to_nat n) (drop 2 d)) = 1 * n + (1 * Z.of_nat cur + 2)).
  { unfold len in *. rewrite !drop_length in *. lia. }
  rewrite E. reflexivity.
Qed.

Theorem read_short_ascii_sound data cur : (cur <= length data)%nat ->
  run ast_read_short_ascii [VBytes data; VInt (Z.of_nat cur)] = decoded_result data (read_short_ascii (drop cur data)).
Proof. intros H. exact (read_short_decoded_sound Ascii data cur H). Qed.

Theorem read_short_text_sound data cur : (cur <= length data)%nat ->
  run ast_read_short_text [VBytes data; VInt (Z.of_nat cur)] = decoded_result data (read_short_text (drop cur data)).
Proof. intros H. exact (read_short_decoded_sound Utf8 data cur H). Qed.

(* ------------------------------------------------------------------ relative_unpack: ONE size check for the whole format
   is the sequence of per-field reads (same values, same BufferUnderflowError) *)
Lemma take_take_plus {A} k m (d : list A) : take k (take (k + m) d) = take k d.
Proof. revert d. induction k as [|k IH]; intros [|x d]; cbn [take Nat.add]; auto. f_equal. apply IH. Qed.

Lemma drop_take_plus {A} k m (d : list A) : drop k (take (k + m) d) = take m (drop k d).
Proof. revert d. induction k as [|k IH]; intros [|x d]; cbn [take drop Nat.add]; auto. destruct m; reflexivity. Qed.

Lemma calcsize_nonneg fs : 0 <= calcsize fs.
Proof. induction fs as [|f r IH]; cbn [calcsize fold_right]; [lia|]. fold (calcsize r). lia. Qed.

Lemma unpack_seq_spec fs : forall d,
  ((length d < Z.to_nat (calcsize fs))%nat -> unpack_seq fs d = Err Underflow) /\
  ((Z.to_nat (calcsize fs) <= length d)%nat ->
     exists vs, unpack_seq fs d = Ok (vs, drop (Z.to_nat (calcsize fs)) d) /\
                unpack_seq fs (take (Z.to_nat (calcsize fs)) d) = Ok (vs, [])).
Proof.
  induction fs as [|f r IH]; intros d.
  - cbn [calcsize fold_right unpack_seq]. split; [intros H; cbn in H; lia|]. intros _. exists []. split; reflexivity.
  - cbn [calcsize fold_right]. fold (calcsize r). pose proof (calcsize_nonneg r) as P.
    replace (Z.to_nat (Z.of_nat (fmt_size f) + calcsize r)) with (fmt_size f + Z.to_nat (calcsize r))%nat by lia.
    cbn [unpack_seq]. split.
    + intros H. destruct (unpack f d) as [[v d1]|e] eqn:U; cbn [bind].
      * destruct (unpack_exact f d v d1 U) as (_ & -> & Lw).
        destruct (IH (drop (fmt_size f) d)) as [I1 _]. rewrite I1; [reflexivity|]. rewrite drop_length. lia.
      * rewrite (unpack_errors _ _ _ U). reflexivity.
    + intros H. destruct (unpack f d) as [[v d1]|e] eqn:U.
      2:{ pose proof (unpack_errors _ _ _ U) as ->. apply unpack_underflow in U. lia. }
      destruct (unpack_exact f d v d1 U) as (Ue & -> & Lw). cbn [bind].
      destruct (IH (drop (fmt_size f) d)) as [_ I2]. destruct I2 as (vs & E1 & E2); [rewrite drop_length; lia|].
      exists (v :: vs). rewrite E1. cbn [bind]. rewrite drop_drop. split; [reflexivity|].
      assert (U2 : unpack f (take (fmt_size f + Z.to_nat (calcsize r)) d)
                   = Ok (v, take (Z.to_nat (calcsize r)) (drop (fmt_size f) d))).
      { unfold unpack in *. rewrite take_length.
        destruct (Nat.ltb (length d) (fmt_size f)) eqn:L1; [discriminate|]. apply Nat.ltb_ge in L1.
        replace (Nat.ltb (Nat.min (fmt_size f + Z.to_nat (calcsize r)) (length d)) (fmt_size f)) with false
          by (symmetry; apply Nat.ltb_ge; lia).
        injection U as <-. rewrite take_take_plus, drop_take_plus. reflexivity. }
      rewrite U2. cbn [bind]. rewrite E2. reflexivity.
Qed.

Definition unpack_result (data : list Z) (r : res (list Z * list Z)) : res val :=
  match r with
  | Ok (vs, rest) => Ok (VTup [VTup (map VInt vs); VInt (len data - len rest)])
  | Err e => Err e
  end.

Theorem relative_unpack_sound fs data cur : (cur <= length data)%nat ->
  run ast_relative_unpack [VFmt fs; VBytes data; VInt (Z.of_nat cur)] = unpack_result data (unpack_seq fs (drop cur data)).
Proof.
  intros Hc. unfold ast_relative_unpack. cbn [run eval_cond eval nth_error].
  set (d := drop cur data). assert (Ld : length d = (length data - cur)%nat) by (subst d; apply drop_length).
  pose proof (calcsize_nonneg fs) as P. set (w := calcsize fs) in *.
  destruct (unpack_seq_spec fs d) as [S1 S2]. fold w in S1, S2.
  destruct (Z.ltb_spec 0 (1 * w + (-1 * len data + (1 * Z.of_nat cur + 0)))) as [L|L].
  - rewrite S1 by (unfold len in L; lia). reflexivity.
  - destruct S2 as (vs & E1 & E2); [unfold len in L; lia|]. rewrite E1.
    cbn [run_op eval nth_error]. fold w.
    replace (1 * Z.of_nat cur + 0) with (Z.of_nat cur) by lia.
    replace (1 * w + Z.of_nat cur) with (Z.of_nat cur + w) by lia.
    rewrite slice_ok by lia. replace (Z.to_nat (Z.of_nat cur + w - Z.of_nat cur)) with (Z.to_nat w) by lia.
    rewrite Nat2Z.id. fold d. unfold struct_unpack. rewrite E2. cbn [bind run].
    cbn [app nth_error unpack_result map]. fold w.
    assert (E : len data - len (drop (Z.to_nat w) d) = 1 * w + (1 * Z.of_nat cur + 0)).
    { unfold len in *. rewrite drop_length. lia. }
    rewrite E. reflexivity.
Qed.

(* ------------------------------------------------------------------ group_by_topic_and_partition *)
Theorem group_by_sound l :
  grun ast_group_by_topic_and_partition l = group_by_topic_and_partition (rtext "topic") (rint "partition") l.
Proof. reflexivity. Qed.
