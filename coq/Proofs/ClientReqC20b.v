(* The Deferred returned by close(): it belongs to a closed client, it has fired only if every broker client is fully
   down, and it never fires twice (Props/C20.v). *)
From AV Require Import Base.Util Proofs.UtilFacts Model.Framing Proofs.FramingFacts
  Proofs.BrokerClientTbl Proofs.BrokerClientInv Proofs.BrokerClientC06 Proofs.BrokerClientC10.
From AV Require Model.BrokerClient.
From AV Require Import Model.ClientReq Proofs.ClientReqBase Proofs.ClientReqStep Proofs.ClientReqC11 Proofs.ClientReqMono
  Proofs.ClientReqMono2 Proofs.ClientReqClosed Proofs.ClientReqStruct Proofs.ClientReqC20 Proofs.ClientReqDl.
From Coq Require Import Lia.

(* ------------------------------------------------------------------ only close() closes the client *)
Definition Rsome (C C' : cstate) : Prop := c_clients C <> None -> c_clients C' <> None.

Lemma dl_refresh_clients C : c_clients (fst (dl_refresh C)) = c_clients C.
Proof.
  unfold dl_refresh. destruct (c_dl C) as [l|]; [|reflexivity]. destruct (filter (bc_pending C) l); [|reflexivity].
  destruct (c_wait _); reflexivity.
Qed.

Lemma stays_open C e : e <> EClose -> c_clients C <> None -> c_clients (fst (step C e)) <> None.
Proof.
  intro NE. apply (g2_step Rsome); unfold Rsome; auto.
  - intros C0 C' _ _ E _ _ H. congruence.
  - intros C0 H. rewrite dl_refresh_clients. exact H.
  - intros C0 i e0 H. pose proof (apply_bc_rest C0 i e0) as (_ & X & _). congruence.
  - intros. cbn. discriminate.
  - intros. cbn. discriminate.
Qed.

(* ------------------------------------------------------------------ the pending close Deferred belongs to a closed client *)
Definition Jw (C : cstate) : Prop := c_wait C = true -> c_clients C = None.
Definition RJ (C C' : cstate) : Prop := Jw C -> Jw C'.

Lemma dl_refresh_wait C : c_wait (fst (dl_refresh C)) = true -> c_wait C = true.
Proof.
  unfold dl_refresh. destruct (c_dl C) as [l|]; [|auto]. destruct (filter (bc_pending C) l); [|auto].
  destruct (c_wait (with_dl C None)) eqn:E; cbn; [discriminate | intro H; exact H].
Qed.

Lemma event_is_close e : e = EClose \/ e <> EClose.
Proof. destruct e; try (right; discriminate). left. reflexivity. Qed.

Lemma Jw_step C e : Jw C -> Jw (fst (step C e)).
Proof.
  intro J. destruct (event_is_close e) as [->|NE].
  - destruct (c_clients C) as [cl|] eqn:Ec; [|cbn [step]; rewrite Ec; exact J].
    intros _. destruct (step C EClose) as [C' o] eqn:E. exact (proj1 (close_step_clears C cl C' o Ec E)).
  - revert J. apply (g2_step RJ); unfold RJ, Jw; auto.
    + intros C0 C' _ _ E1 _ E2 J H. rewrite E1. apply J. congruence.
    + intros C0 J H. rewrite dl_refresh_clients. apply J. apply dl_refresh_wait. exact H.
    + intros C0 i e0 J H. pose proof (apply_bc_rest C0 i e0) as (_ & X & _). rewrite X. apply J.
      unfold apply_bc in H. destruct (nth_error (c_bcs C0) i); [|exact H]. destruct (BrokerClient.step _ _). exact H.
    + intros C0 cl cl' E J H. cbn in H. rewrite (J H) in E. discriminate.
    + intros C0 cl node a E _ J H. cbn in H. rewrite (J H) in E. discriminate.
Qed.

(* ------------------------------------------------------------------ in a closed client: something awaited <-> the close Deferred is pending *)
Definition E2 (C : cstate) : Prop := c_dl C <> None -> c_wait C = true.
Definition no_fire (C : cstate) (o : list output) (C' : cstate) : Prop :=
  c_wait C = false -> c_wait C' = false /\ ~ In OCloseFired o.

Lemma dl_refresh_E2 C : E2 C -> E2 (fst (dl_refresh C)) /\ no_fire C (snd (dl_refresh C)) (fst (dl_refresh C)).
Proof.
  intro E. unfold dl_refresh. destruct (c_dl C) as [l|] eqn:El.
  2:{ cbn [fst snd]. split; [exact E | intro H; split; [exact H | intros []]]. }
  destruct (filter (bc_pending C) l) as [|x l'].
  - destruct (c_wait (with_dl C None)) eqn:W; cbn [fst snd].
    + split; [intro N; exfalso; apply N; reflexivity|]. intro H. change (c_wait (with_dl C None)) with (c_wait C) in W. congruence.
    + split; [intro N; exfalso; apply N; reflexivity|]. intro H. split; [exact W | intros []].
  - cbn [fst snd]. split; [intros _; apply E; rewrite El; discriminate|]. intro H. split; [exact H | intros []].
Qed.

Lemma tr_out_E2 C i o : inert_mo o = true -> E2 C ->
  E2 (fst (tr_out C i o)) /\ no_fire C (snd (tr_out C i o)) (fst (tr_out C i o)).
Proof.
  intros In E. destruct o; try discriminate; cbn [tr_out fst snd];
    try (split; [exact E | intro H; split; [exact H | intros [X|[]]; discriminate]]).
  - destruct (nth_error (c_bcs C) i) as [b|]; [|split; [exact E | intro H; split; [exact H | intros [X|[]]; discriminate]]].
    destruct (b_timer b); cbn [fst snd]; (split; [exact E | intro H; split; [exact H | intros [X|[]]; discriminate]]).
  - apply dl_refresh_E2. exact E.
Qed.

Lemma tr_list_E2 : forall os C i, forallb inert_mo os = true -> E2 C ->
  E2 (fst (tr_list C i os)) /\ no_fire C (snd (tr_list C i os)) (fst (tr_list C i os)).
Proof.
  induction os as [|o os IH]; intros C i In E; cbn [tr_list].
  - split; [exact E | intro H; split; [exact H | intros []]].
  - cbn [forallb] in In. apply andb_prop in In. destruct In as [Io Ios].
    destruct (tr_out_E2 C i o Io E) as [E1 N1]. destruct (tr_out C i o) as [C1 o1]. cbn [fst snd] in E1, N1.
    destruct (IH C1 i Ios E1) as [E2' N2]. destruct (tr_list C1 i os) as [C2 o2]. cbn [fst snd] in *.
    split; [exact E2'|]. intro H. destruct (N1 H) as [H1 X1]. destruct (N2 H1) as [H2 X2]. split; [exact H2|].
    intro Y. apply in_app_or in Y. tauto.
Qed.

Lemma ev_bc_closed_dl C i e C' o : ClosedInv C -> is_make e = false -> E2 C -> ev_bc C i e = (C', o) ->
  E2 C' /\ no_fire C o C'.
Proof.
  intros [Cc T D Dn Tp] M E H. unfold ev_bc, bc_event, apply_bc in H.
  destruct (nth_error (c_bcs C) i) as [b|] eqn:Eb.
  - destruct (BrokerClient.step (b_st b) e) as [s' mo] eqn:Es.
    destruct (TInvC_bc _ _ _ _ T Eb) as (I & _).
    destruct (closed_mo _ _ _ _ I (D i b Eb) M Es) as [_ In].
    destruct (proc_inert succ1 mo (upd_bc C i (set_st s')) i In) as [Ep _]. rewrite Ep in H.
    destruct (tr_list_E2 mo (upd_bc C i (set_st s')) i In E) as [E' N']. rewrite H in E', N'. cbn [fst snd] in E', N'.
    split; [exact E' | exact N'].
  - cbn [proc] in H. injection H as <- <-. split; [exact E | intro W; split; [exact W | intros []]].
Qed.

Ltac closed_dl K E H :=
  match type of H with ev_bc ?C ?i ?e = (?C', ?o) => exact (ev_bc_closed_dl C i e C' o K eq_refl E H) end.

Lemma keep_dl C C' (o : list output) : c_dl C' = c_dl C -> c_wait C' = c_wait C -> ~ In OCloseFired o -> E2 C -> E2 C' /\ no_fire C o C'.
Proof. intros A B N E. unfold E2, no_fire. rewrite A, B. split; [exact E | intro H; split; [exact H | exact N]]. Qed.

Theorem step_closed_dl C e C' o : ClosedInv C -> E2 C -> step C e = (C', o) -> E2 C' /\ no_fire C o C'.
Proof.
  intros K E H. pose proof K as [Cc T D Dn Tp]. destruct e; cbn [step] in H.
  - rewrite Cc in H. injection H as <- <-. apply keep_dl; auto. intros [X|[]]; discriminate.
  - destruct (nth_error (c_direct C) d) as [[i h]|]; [closed_dl K E H|]. injection H as <- <-. apply keep_dl; auto.
  - unfold next_id in H. cbn [fst snd] in H. set (C1 := with_corr C _) in *. set (op0 := mkOp kind all _ PDone) in *.
    change (c_clients (with_ops C1 (c_ops C1 ++ [op0]))) with (c_clients C) in H. rewrite Cc in H.
    unfold op_fail in H. change (c_ops (with_ops C1 (c_ops C1 ++ [op0]))) with (c_ops C ++ [op0]) in H.
    change (length (c_ops C1)) with (length (c_ops C)) in H. rewrite nth_error_snoc in H. injection H as <- <-.
    apply keep_dl; auto. intros [X|[]]; discriminate.
  - unfold update_brokers in H. cbn [c_clients with_brokers] in H. rewrite Cc in H.
    destruct (dict_update [] brokers); [destruct remove|]; injection H as <- <-; apply keep_dl; auto; intros [X|[]]; discriminate.
  - rewrite Cc in H. injection H as <- <-. apply keep_dl; auto. intros [X|[]]; discriminate.
  - injection H as <- <-. apply keep_dl; auto.
  - closed_dl K E H.
  - closed_dl K E H.
  - closed_dl K E H.
  - closed_dl K E H.
  - destruct (nth_error (c_timers C) t) as [[i h|i|p a|p]|]; [| | | |injection H as <- <-; apply keep_dl; auto].
    + unfold creq_at in H. destruct (nth_error (c_bcs C) i) as [b|] eqn:Eb; [|injection H as <- <-; apply keep_dl; auto].
      destruct (nth_error (b_reqs b) h) as [[ow [t'|] to]|] eqn:Eq; try (injection H as <- <-; apply keep_dl; auto).
      exfalso. destruct (TInvC_bc _ _ _ _ T Eb) as (I & L & A & _). destruct (A h _ t' Eq eq_refl) as [_ [X|[]]].
      apply X. apply closed_all_fired; [exact I | exact (D i b Eb) |]. rewrite <- L. apply nth_error_Some. congruence.
    + destruct (nth_error (c_bcs C) i) as [b|]; [|injection H as <- <-; apply keep_dl; auto].
      destruct (match b_timer b with Some t' => Nat.eqb t t' | None => false end); [|injection H as <- <-; apply keep_dl; auto].
      assert (ClosedInv (upd_bc C i (set_btimer None))) as K1.
      { constructor; [exact Cc | eapply TInvC_same_core; [exact T | apply upd_bc_core; intros; reflexivity] | | exact Dn | exact Tp].
        apply (same_core_down C); [apply upd_bc_core; intros; reflexivity | exact D]. }
      match type of H with ev_bc ?C0 ?i0 ?e0 = _ => exact (ev_bc_closed_dl C0 i0 e0 C' o K1 eq_refl E H) end.
    + rewrite (phase_done C p Dn) in H. injection H as <- <-. apply keep_dl; auto.
    + rewrite (phase_done C p Dn) in H. injection H as <- <-. apply keep_dl; auto.
  - destruct (nth_error (c_boots C) a) as [[[p rid] [| |]]|]; try (injection H as <- <-; apply keep_dl; auto).
    rewrite (phase_done C p Dn) in H. injection H as <- <-. apply keep_dl; auto.
  - destruct (nth_error (c_boots C) a) as [[[p rid] [| |]]|]; try (injection H as <- <-; apply keep_dl; auto).
    rewrite (phase_done C p Dn) in H. injection H as <- <-. apply keep_dl; auto.
  - destruct (nth_error (c_boots C) a) as [[[p rid'] [|pend|]]|]; try (injection H as <- <-; apply keep_dl; auto).
    destruct (pend && zlist_eqb (id4 rid) (id4 rid')); [|injection H as <- <-; apply keep_dl; auto; intros [X|[]]; discriminate].
    rewrite (phase_done _ p (cl_done _ (closed_set_boot C a (KLive false) K))) in H. injection H as <- <-. apply keep_dl; auto.
  - destruct (nth_error (c_boots C) a) as [[[p rid'] [|pend|]]|]; try (injection H as <- <-; apply keep_dl; auto).
    rewrite (phase_done _ p (cl_done _ (closed_set_boot C a KDead K))) in H. destruct pend; injection H as <- <-; apply keep_dl; auto.
  - (* EResend *) rewrite Cc in H. injection H as <- <-. apply keep_dl; auto.
Qed.

(* ------------------------------------------------------------------ every reachable closed state *)
Lemma close_E2 C cl C' o : c_clients C = Some cl -> step C EClose = (C', o) -> E2 C'.
Proof.
  intros Ec H. cbn [step] in H. rewrite Ec in H.
  destruct (close_brokerclients (with_clients C None) (map snd cl)) as [C1 o1].
  destruct (cancel_boots C1 (length (c_ops C1)) 0) as [C2 o2].
  destruct (c_dl (with_topics C2 [])) eqn:Ed; injection H as <- _; unfold E2; cbn [c_dl c_wait with_wait].
  - intros _. reflexivity.
  - rewrite Ed. intro N. exfalso. apply N. reflexivity.
Qed.

Lemma run_app : forall a b C, run C (a ++ b) = (fst (run (fst (run C a)) b), snd (run C a) ++ snd (run (fst (run C a)) b)).
Proof.
  induction a as [|e a IH]; intros b C; cbn [app run].
  - cbn. destruct (run C b). reflexivity.
  - destruct (step C e) as [C1 o1]. rewrite IH. destruct (run C1 a) as [C2 o2]. cbn [fst snd].
    destruct (run C2 b) as [C3 o3]. cbn [fst snd]. rewrite app_assoc. reflexivity.
Qed.

Lemma run_app_fst C a e : fst (run C (a ++ [e])) = fst (step (fst (run C a)) e).
Proof. rewrite run_app. cbn [fst run]. destruct (step (fst (run C a)) e). reflexivity. Qed.

Theorem reachable_closed : forall evs g, c_clients (fst (run (init g) evs)) = None ->
  ClosedInv (fst (run (init g) evs)) /\ E2 (fst (run (init g) evs)).
Proof.
  intros evs g. induction evs as [|e evs IH] using rev_ind; [cbn; discriminate|].
  rewrite run_app_fst. cbn [run]. set (C := fst (run (init g) evs)) in *.
  destruct (step C e) as [C' o] eqn:Es. cbn [fst]. intro Hc.
  destruct (c_clients C) as [cl|] eqn:Ec.
  - destruct (event_is_close e) as [->|NE].
    + split; [eapply close_establishes; [apply reachable_wf | apply reachable_S | exact Ec | exact Es] | eapply close_E2; eauto].
    + exfalso. pose proof (stays_open C e NE) as X. rewrite Es in X. cbn [fst] in X. apply X; [rewrite Ec; discriminate | exact Hc].
  - destruct (IH eq_refl) as [K E]. destruct (step_closed _ _ _ _ K Es) as [K' _].
    destruct (step_closed_dl _ _ _ _ K E Es) as [E' _]. split; assumption.
Qed.

(* ------------------------------------------------------------------ statements of Props/C20.v: the close Deferred *)
Lemma c20_wait_means_closed g evs : c_wait (fst (run (init g) evs)) = true -> c_clients (fst (run (init g) evs)) = None.
Proof.
  induction evs as [|e evs IH] using rev_ind; [cbn; discriminate|].
  rewrite run_app_fst. apply Jw_step. exact IH.
Qed.

Lemma c20_fired_all_gone g evs : c_clients (fst (run (init g) evs)) = None -> c_wait (fst (run (init g) evs)) = false ->
  forall i b, nth_error (c_bcs (fst (run (init g) evs))) i = Some b ->
    BrokerClient.s_down (b_st b) = BrokerClient.DFired /\ BrokerClient.s_proto (b_st b) = false.
Proof.
  intros Hc Hw i b Hb. destruct (reachable_closed evs g Hc) as [[_ T D _ _] E].
  destruct (TInvC_bc _ _ _ _ T Hb) as (I & _).
  assert (BrokerClient.s_down (b_st b) = BrokerClient.DFired) as F.
  { destruct (BrokerClient.s_down (b_st b)) eqn:Dn; [exfalso; exact (D i b Hb Dn) | | reflexivity].
    exfalso. destruct (reachable_DL g evs i (b_st b) (sts_nth _ _ _ Hb) Dn) as [X|[]].
    unfold in_dl in X. destruct (c_dl (fst (run (init g) evs))) eqn:El; [|exact X].
    assert (c_wait (fst (run (init g) evs)) = true) as W by (apply E; rewrite El; discriminate). congruence. }
  split; [exact F | exact (ci_dfired _ I F)].
Qed.

Lemma c20_fires_once : forall evs2 C, ClosedInv C -> E2 C -> c_wait C = false ->
  ~ In OCloseFired (snd (run C evs2)) /\ c_wait (fst (run C evs2)) = false.
Proof.
  induction evs2 as [|e evs2 IH]; intros C K E W; cbn [run]; [split; [intros [] | exact W]|].
  destruct (step C e) as [C1 o1] eqn:Es. destruct (step_closed _ _ _ _ K Es) as [K1 _].
  destruct (step_closed_dl _ _ _ _ K E Es) as [E1 N1]. destruct (N1 W) as [W1 X1].
  destruct (IH C1 K1 E1 W1) as [X2 W2]. destruct (run C1 evs2) as [C2 o2]. cbn [fst snd] in *.
  split; [|exact W2]. intro Y. apply in_app_or in Y. tauto.
Qed.

Lemma c20_fires_once_reachable g evs evs2 :
  c_clients (fst (run (init g) evs)) = None -> c_wait (fst (run (init g) evs)) = false ->
  ~ In OCloseFired (snd (run (fst (run (init g) evs)) evs2)) /\ c_wait (fst (run (fst (run (init g) evs)) evs2)) = false.
Proof. intros Hc Hw. destruct (reachable_closed evs g Hc) as [K E]. apply c20_fires_once; assumption. Qed.

(* every broker client that is still closing is awaited by self.close_dlist *)
Lemma c20_dl_awaits_closing g evs i b : nth_error (c_bcs (fst (run (init g) evs))) i = Some b ->
  BrokerClient.s_down (b_st b) = BrokerClient.DPending ->
  exists l, c_dl (fst (run (init g) evs)) = Some l /\ In i l.
Proof.
  intros Hb Dn. destruct (reachable_DL g evs i (b_st b) (sts_nth _ _ _ Hb) Dn) as [X|[]].
  unfold in_dl in X. destruct (c_dl (fst (run (init g) evs))) as [l|]; [exists l; auto | contradiction].
Qed.
