(* C08, last sentence, against the callers' budgets: the client-level recovery bounds (Proofs/ClientMetaBudget.v) side
   by side with the attempt bounds proved for the Producer model (C09_attempt_bound) and the Consumer model (C14).
   THIN GLUE - the three models are NOT composed step by step.  What is assumed about how a caller attempt maps to a
   client call:
   - Producer: the a-th OSendProduce of a batch (a = 1, 2, ..) is the a-th attempt of the client-level retry list
     [atts] (same payloads, fail_on_error=False - producer.py passes exactly that - made with the cache the previous
     attempts left behind);
   - Consumer: its counter of consecutive failed attempts (s_att, reset by a successful reply) equals the number of
     failed client attempts since the last success; one fetch = one single-topic client call. *)
From AV Require Import Base.Util Model.ClientMeta Model.ClientRoute Proofs.ClientMetaFacts Proofs.ClientMetaBudget.
From AV Require Model.Producer Proofs.ProducerC09 Model.Consumer Proofs.ConsumerC14.
From Coq Require Import Lia.

Module P := AV.Model.Producer.
Module PC := AV.Proofs.ProducerC09.
Module K := AV.Model.Consumer.
Module KC := AV.Proofs.ConsumerC14.

(* Producer: with max_req_attempts >= 2 the attempt number of the first successful client attempt is one the Producer
   is allowed to make (C09_attempt_bound: every produce attempt number of a batch lies in 1 .. max(1, max_req_attempts)) *)
Lemma producer_budget_suffices : forall truth ps atts st (c : P.cfg),
  WF st -> NoDup (map p_key ps) -> all_good truth false ps st atts -> (2 <= length atts)%nat ->
  2 <= P.c_max c ->
  (exists k, first_success false ps st atts = Some k /\ 1 <= Z.of_nat k + 1 <= Z.max 1 (P.c_max c)) /\
  (forall outs m m', PC.mon_run c m outs = Some m' -> 0 <= PC.m_a m ->
     forall a mg v, In (P.OSendProduce a mg v) outs -> 1 <= a <= Z.max 1 (P.c_max c)).
Proof.
  intros truth ps atts st c Hwf Hnd Hg Hlen Hc. split.
  - destruct (within_budget_delivering truth ps atts st Hwf Hnd Hg Hlen) as [k [Hk Hle]].
    exists k. split; [exact Hk|]. lia.
  - intros outs m m' Hr Hm. apply (PC.attempts_bounded c outs m m' Hr Hm).
Qed.

(* Consumer: with request_retry_max_attempts = 0 (unlimited) or >= 2 the consumer's failure counter never reaches the
   limit during the recovery of a (single-topic) fetch: a state with that limit and k consecutive failures, k the
   number of failed client attempts before the first success, is not exhausted *)
Lemma consumer_budget_suffices : forall truth fail ps atts st t (n0 : Z),
  WF st -> NoDup (map p_key ps) -> (forall p, In p ps -> p_topic p = t) ->
  all_good truth fail ps st atts -> (2 <= length atts)%nat ->
  n0 = 0 \/ 2 <= n0 ->
  exists k, first_success fail ps st atts = Some k /\
    forall s : K.state, K.s_maxatt s = n0 -> K.s_att s = Z.of_nat k -> K.exhausted s = false.
Proof.
  intros truth fail ps atts st t n0 Hwf Hnd Hone Hg Hlen Hn.
  destruct (recovery_single_topic truth fail ps atts st t Hwf Hnd Hone Hg Hlen) as [k [Hk Hle]].
  exists k. split; [exact Hk|]. intros s Hm Ha. destruct Hn as [Hz|Hz].
  - apply KC.unlimited_never_exhausted. rewrite Hm. exact Hz.
  - destruct (K.exhausted s) eqn:E; [|reflexivity].
    apply KC.limited_exhausted_iff in E; [|lia]. lia.
Qed.
