(* C12, part 3c: nested compression and the cost of handing messages up.

   In kafkacodec.py every nesting level is a pair of Python generators (the set loop `for offset, message in msgIter:
   yield ...` and the wrapper body `for offset, msg in _decode_message_set_iter(gz): yield offset, msg`; format 1 also
   collects the inner list and runs it through absolute()).  A message found k wrappers deep is therefore handed over
   about 2k..4k times before the caller sees it.  [C12_total_linear] counts entry headers and does not see this.

   This file instruments the decoder once more with HOPS: every hand-over of one message by one generator level
     plain message            1        (the yield of v0/v1)
     wrapper                  hops of the inner set + 3 * (messages the inner set yielded)
                              (format 0: 1 re-yield; format 1: list() + absolute() + re-yield = 3; 3 is used for both)
     set loop, per entry      hops of the message + (messages it yielded)
   and proves, for EVERY nesting budget [depth], every oracle and every byte string
         hops <= 4 * depth * entries_read         hence     3 * hops <= depth * (input bytes + all decompressed bytes).
   So for any fixed bound on the nesting depth the work of handing messages up is linear in input + decompressed bytes,
   with the depth as an explicit factor.  The factor is needed: [hops_depth_free_bound_refuted] gives a 40-level input
   (with a compressing oracle) whose hops exceed input + decompressed bytes; messages x depth is NOT bounded by the
   decompressed volume, because the outer levels decompress to a few dozen bytes each while every message still travels
   through all of them.  In CPython the depth is limited by the recursion limit (RecursionError near 320 wrappers). *)
From Coq Require Import Lia.
From AV Require Import Base.Util Model.Prim Model.Crc Model.MsgSet Proofs.DecodeTotal.

Definition hres : Type := (cres * nat)%type.

Definition dec_payload_h (rec : list Z -> hres) (orc : oracle) (magic att : Z) (offset : Z)
           (key value : option (list Z)) (ts : option Z) : hres :=
  let codec := Z.land att ATTRIBUTE_CODEC_MASK in
  let wrap := if (magic =? 0) then wrap_v0 else wrap_v1 offset in
  let nested (z : list Z) : hres :=
    let '((r, c), h) := rec z in ((wrap r, (fst c, z :: snd c)), (h + 3 * length (fst r))%nat) in
  if (codec =? CODEC_NONE) then ((([(offset, mkMessage magic att key value ts)], None), cost0), 1%nat)
  else if (codec =? CODEC_GZIP) then
    match gzip_decode orc value with Ok gz => nested gz | Err e => ((fail e, cost0), O) end
  else if (codec =? CODEC_SNAPPY) then
    match snappy_decode orc value with Ok sn => nested sn | Err e => ((fail e, cost0), O) end
  else ((fail Protocol, cost0), O).

Definition dec_message_h (rec : list Z -> hres) (orc : oracle) (data : option (list Z)) (offset : Z) : hres :=
  match data with
  | None => ((fail TypeErr, cost0), O)
  | Some d =>
      match (do (crc, r1) <- read_u32 d; do (magic, r2) <- read_u8 r1; do (att, r3) <- read_u8 r2;
             Ok (crc, magic, att, r3)) with
      | Err e => ((fail e, cost0), O)
      | Ok (crc, magic, att, r3) =>
          if negb (crc =? crc32 (drop 4 d)) then ((fail Checksum, cost0), O)
          else if (magic =? 0) then
            match (do (key, r4) <- read_int_string r3; do (value, _) <- read_int_string r4; Ok (key, value)) with
            | Err e => ((fail e, cost0), O)
            | Ok (key, value) => dec_payload_h rec orc magic att offset key value None
            end
          else if (magic =? 1) then
            match (do (ts, r4) <- read_i64 r3; do (key, r5) <- read_int_string r4;
                   do (value, _) <- read_int_string r5; Ok (ts, key, value)) with
            | Err e => ((fail e, cost0), O)
            | Ok (ts, key, value) => dec_payload_h rec orc magic att offset key value (Some ts)
            end
          else ((fail Checksum, cost0), O)
      end
  end.

Fixpoint dec_loop_h (rec : list Z -> hres) (orc : oracle) (n : nat) (data : list Z) (read : bool) : hres :=
  match data with
  | [] => ((([], None), cost0), O)
  | _ :: _ =>
      match n with
      | O => ((fail Fuel, cost0), O)
      | S n' =>
          match header data with
          | Err e => ((([], on_error read e), cost0), O)
          | Ok (offset, msg, r2) =>
              let '(((ys, out), c1), h1) := dec_message_h rec orc msg offset in
              let read' := read || nonempty ys in
              match out with
              | None => let '(((ys2, out2), c2), h2) := dec_loop_h rec orc n' r2 read' in
                        (((ys ++ ys2, out2), cost_add (1%nat, []) (cost_add c1 c2)), (h1 + length ys + h2)%nat)
              | Some e => (((ys, on_error read' e), cost_add (1%nat, []) c1), (h1 + length ys)%nat)
              end
          end
      end
  end.

Fixpoint dec_set_h (depth : nat) (orc : oracle) (data : list Z) : hres :=
  match depth with
  | O => ((fail Fuel, cost0), O)
  | S d => dec_loop_h (dec_set_h d orc) orc (length data) data false
  end.

(* ---- it is the instrumented decoder of Proofs/DecodeTotal.v with one more counter ---- *)
Lemma dec_payload_h_fst recc rech orc magic att offset key value ts :
  (forall x, fst (rech x) = recc x) ->
  fst (dec_payload_h rech orc magic att offset key value ts) = dec_payload_c recc orc magic att offset key value ts.
Proof.
  intros R. unfold dec_payload_h, dec_payload_c.
  destruct (Z.land att ATTRIBUTE_CODEC_MASK =? CODEC_NONE); [reflexivity|].
  destruct (Z.land att ATTRIBUTE_CODEC_MASK =? CODEC_GZIP).
  { destruct (gzip_decode orc value) as [z|e]; [|reflexivity]. rewrite <- R. destruct (rech z) as [[r c] h]; reflexivity. }
  destruct (Z.land att ATTRIBUTE_CODEC_MASK =? CODEC_SNAPPY).
  { destruct (snappy_decode orc value) as [z|e]; [|reflexivity]. rewrite <- R. destruct (rech z) as [[r c] h]; reflexivity. }
  reflexivity.
Qed.

Lemma dec_message_h_fst recc rech orc data offset :
  (forall x, fst (rech x) = recc x) ->
  fst (dec_message_h rech orc data offset) = dec_message_c recc orc data offset.
Proof.
  intros R. unfold dec_message_h, dec_message_c. destruct data as [d|]; [|reflexivity].
  destruct (do (crc, r1) <- read_u32 d; do (magic, r2) <- read_u8 r1; do (att, r3) <- read_u8 r2; Ok (crc, magic, att, r3))
    as [[[[crc magic] att] r3]|e]; [|reflexivity].
  destruct (negb (crc =? crc32 (drop 4 d))); [reflexivity|].
  destruct (magic =? 0).
  { destruct (do (key, r4) <- read_int_string r3; do (value, _) <- read_int_string r4; Ok (key, value)) as [[key value]|e];
      [|reflexivity]. now apply dec_payload_h_fst. }
  destruct (magic =? 1); [|reflexivity].
  destruct (do (ts, r4) <- read_i64 r3; do (key, r5) <- read_int_string r4; do (value, _) <- read_int_string r5; Ok (ts, key, value))
    as [[[ts key] value]|e]; [|reflexivity].
  now apply dec_payload_h_fst.
Qed.

Lemma dec_loop_h_fst recc rech orc n : (forall x, fst (rech x) = recc x) ->
  forall data read, fst (dec_loop_h rech orc n data read) = dec_loop_c recc orc n data read.
Proof.
  intros R. induction n as [|n IH]; intros data read.
  - destruct data; reflexivity.
  - destruct data as [|x t]; [reflexivity|]. cbn [dec_loop_h dec_loop_c].
    destruct (header (x :: t)) as [[[offset msg] r2]|e]; [|reflexivity].
    rewrite <- (dec_message_h_fst recc rech orc msg offset R).
    destruct (dec_message_h rech orc msg offset) as [[[ys out] c1] h1]. cbn [fst].
    destruct out; [reflexivity|].
    rewrite <- IH. destruct (dec_loop_h rech orc n r2 (read || nonempty ys)) as [[[ys2 out2] c2] h2]. reflexivity.
Qed.

Theorem dec_set_h_fst depth orc : forall data, fst (dec_set_h depth orc data) = dec_set_c depth orc data.
Proof.
  induction depth as [|d IH]; intros data; [reflexivity|].
  cbn [dec_set_h dec_set_c]. apply dec_loop_h_fst. exact IH.
Qed.

(* ---- the bound ---- *)
(* a set decode with nesting budget d: hops <= 4 d entries, and (from DecodeTotal) messages <= entries *)
Definition set_hops (d : nat) (r : hres) : Prop :=
  (snd r <= 4 * d * fst (snd (fst r)))%nat /\ (length (fst (fst (fst r))) <= fst (snd (fst r)))%nat.
(* one message under a set of budget d: its hops plus the hand-over of what it yields *)
Definition msg_hops (d : nat) (r : hres) : Prop :=
  (snd r + length (fst (fst (fst r))) <= 4 * (d + 1) * (1 + fst (snd (fst r))))%nat.

Lemma dec_payload_h_bound d rech orc magic att offset key value ts :
  (forall x, set_hops d (rech x)) -> msg_hops d (dec_payload_h rech orc magic att offset key value ts).
Proof.
  intros R. unfold dec_payload_h.
  assert (N : forall z, msg_hops d (let '((r, c), h) := rech z in
     (((if magic =? 0 then wrap_v0 else wrap_v1 offset) r, (fst c, z :: snd c)), (h + 3 * length (fst r))%nat))).
  { intros z. specialize (R z). unfold set_hops in R. destruct (rech z) as [[[ms out] [n outs]] h].
    unfold msg_hops. cbn [fst snd] in *. destruct R as [R1 R2].
    assert (L : (length (fst ((if (magic =? 0)%Z then wrap_v0 else wrap_v1 offset) (ms, out))) <= length ms)%nat).
    { destruct (magic =? 0); [unfold wrap_v0; cbn [fst]; lia|].
      unfold wrap_v1. destruct out; cbn [fst length]; [lia|apply absolute_length]. }
    nia. }
  assert (Z0 : forall e, msg_hops d ((fail e, cost0), O)) by (intros; unfold msg_hops; cbn; lia).
  destruct (Z.land att ATTRIBUTE_CODEC_MASK =? CODEC_NONE); [unfold msg_hops; cbn; lia|].
  destruct (Z.land att ATTRIBUTE_CODEC_MASK =? CODEC_GZIP).
  { destruct (gzip_decode orc value); auto. }
  destruct (Z.land att ATTRIBUTE_CODEC_MASK =? CODEC_SNAPPY); auto.
  destruct (snappy_decode orc value); auto.
Qed.

Lemma dec_message_h_bound d rech orc data offset :
  (forall x, set_hops d (rech x)) -> msg_hops d (dec_message_h rech orc data offset).
Proof.
  intros R. assert (Z0 : forall e, msg_hops d ((fail e, cost0), O)) by (intros; unfold msg_hops; cbn; lia).
  unfold dec_message_h. destruct data as [dd|]; auto.
  destruct (do (crc, r1) <- read_u32 dd; do (magic, r2) <- read_u8 r1; do (att, r3) <- read_u8 r2; Ok (crc, magic, att, r3))
    as [[[[crc magic] att] r3]|e]; auto.
  destruct (negb (crc =? crc32 (drop 4 dd))); auto.
  destruct (magic =? 0).
  { destruct (do (key, r4) <- read_int_string r3; do (value, _) <- read_int_string r4; Ok (key, value)) as [[key value]|e];
      auto. now apply dec_payload_h_bound. }
  destruct (magic =? 1); auto.
  destruct (do (ts, r4) <- read_i64 r3; do (key, r5) <- read_int_string r4; do (value, _) <- read_int_string r5; Ok (ts, key, value))
    as [[[ts key] value]|e]; auto.
  now apply dec_payload_h_bound.
Qed.

Lemma dec_loop_h_hops d rech orc n : (forall x, set_hops d (rech x)) ->
  forall data read, (snd (dec_loop_h rech orc n data read) <= 4 * (d + 1) * fst (snd (fst (dec_loop_h rech orc n data read))))%nat.
Proof.
  intros R. induction n as [|n IH]; intros data read.
  - destruct data; cbn; lia.
  - destruct data as [|x t]; [cbn; lia|]. cbn [dec_loop_h].
    destruct (header (x :: t)) as [[[offset msg] r2]|e]; [|cbn; lia].
    pose proof (dec_message_h_bound d rech orc msg offset R) as M.
    destruct (dec_message_h rech orc msg offset) as [[[ys out] [n1 o1]] h1]. unfold msg_hops in M. cbn [fst snd] in M.
    destruct out.
    + cbn [fst snd cost_add Nat.add]. nia.
    + specialize (IH r2 (read || nonempty ys)).
      destruct (dec_loop_h rech orc n r2 (read || nonempty ys)) as [[[ys2 out2] [n2 o2]] h2].
      cbn [fst snd cost_add Nat.add] in *. nia.
Qed.

Theorem dec_set_h_bound orc : forall depth data, set_hops depth (dec_set_h depth orc data).
Proof.
  induction depth as [|d IH]; intros data.
  - unfold set_hops. cbn. lia.
  - split.
    + cbn [dec_set_h]. pose proof (dec_loop_h_hops d (dec_set_h d orc) orc (length data) IH data false) as H.
      replace (S d) with (d + 1)%nat by lia. exact H.
    + rewrite dec_set_h_fst. apply (dec_set_c_bound (S d) orc data).
Qed.

Definition hops (depth : nat) (orc : oracle) (data : list Z) : nat := snd (dec_set_h depth orc data).

Theorem hops_linear_per_depth depth orc data :
  fst (fst (dec_set_h depth orc data)) = dec_set depth orc data /\
  (hops depth orc data <= 4 * depth * entries_read depth orc data)%nat /\
  (3 * hops depth orc data <= depth * (length data + total_length (oracle_outputs depth orc data)))%nat.
Proof.
  pose proof (dec_set_h_bound orc depth data) as [H _].
  pose proof (dec_set_h_fst depth orc data) as F.
  split; [rewrite F; apply dec_set_c_fst|].
  unfold hops, entries_read. rewrite F in H. split; [exact H|].
  destruct (total_linear depth orc data) as (_ & _ & B & _). unfold entries_read in B. nia.
Qed.

(* ------------------------------------------------------------------ the depth factor is needed
   A compressing oracle: the one-byte payload [k] stands for "level k-1" - a set holding one gzip wrapper whose payload is
   [k-1] - and [1] for the inner set of m empty messages.  Each outer level decompresses to 27 bytes, yet every one of
   the m messages is handed up through every level. *)
Definition tiny_msg : message := mkMessage 0 0 None (Some []) None.
Definition inner_set (m : nat) : list Z :=
  match encode_message_set_from (fun _ => 0) O (repeat tiny_msg m) 0 1 0 with Ok b => b | Err _ => [] end.
Definition level (k : Z) : list Z :=
  match encode_message_set_from (fun _ => 0) O [mkMessage 0 1 None (Some [k]) None] 0 1 0 with Ok b => b | Err _ => [] end.
Definition tower_oracle (m : nat) : oracle :=
  {| gz_enc := fun _ => Err NotImpl;
     gz_dec := fun z => match z with
                        | [k] => if (k =? 1) then Ok (inner_set m) else if (1 <? k) then Ok (level (k - 1)) else Err CodecErr
                        | _ => Err CodecErr
                        end;
     sn_avail := false; sn_enc := fun _ => Err NotImpl; sn_dec := fun _ => Err NotImpl |}.

Theorem hops_depth_free_bound_refuted :
  exists depth orc data,
    (length (fst (dec_set depth orc data)) = 40)%nat /\ snd (dec_set depth orc data) = None /\
    (length data + total_length (oracle_outputs depth orc data) < hops depth orc data)%nat.
Proof.
  exists 41%nat, (tower_oracle 40), (level 40).
  split; [vm_compute; reflexivity|]. split; [vm_compute; reflexivity|].
  apply Nat.ltb_lt. vm_compute. reflexivity.
Qed.
