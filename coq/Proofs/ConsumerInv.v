(* Reachable-state invariant of Model/Consumer.v (fetch side): preserved by every nested execution and every event,
   provided the interpreter does not run out of fuel.  Consequences: stop() never aborts half-way (so _stopping is
   clear between events), a parked reply implies back-off index 0, the retry limit is the configured one. *)
From Coq Require Import Lia.
From AV Require Import Base.Util Model.Consumer Proofs.ConsumerBase Proofs.ConsumerFrame.
Open Scope Z_scope.

Section Inv.
Variable n0 : Z.     (* the configured request_retry_max_attempts *)

Record J (s : state) : Prop := mkJ {
  j0 : rcall_active s = true -> s_req s = None;
  j1 : parked s = true -> s_req s = Some (R_FETCH, true) /\ s_ridx s = 0 /\ s_att s = 1;
  j3 : rcall_stale s = true -> s_startd s = None \/ s_stopping s = true;
  j6 : s_startd s = None -> s_req s = None /\ rcall_active s = false;
  j9 : 1 <= s_att s /\ 0 <= s_ridx s;
  j11 : if s_susp s then n0 = 0 /\ s_maxatt s = 2 else s_maxatt s = n0
}.

(* proving J of an explicitly given successor state from J of the state it was built from *)
Ltac j_explicit :=
  match goal with HJ : J ?x |- J ?y =>
    lazymatch y with context [x] => idtac end;
    let a0 := fresh "a0" in let a1 := fresh "a1" in let a3 := fresh "a3" in let a6 := fresh "a6" in
    let a9 := fresh "a9" in let a11 := fresh "a11" in
    destruct HJ as [a0 a1 a3 a6 a9 a11];
    constructor; unfold parked, rcall_active, rcall_stale in *; psimpl;
    repeat match goal with D : s_rcall x = _ |- _ => rewrite D in * end;
    repeat match goal with D : s_startd x = _ |- _ => rewrite D in * end;
    repeat match goal with D : s_mblock x = _ |- _ => rewrite D in * end;
    repeat match goal with D : s_req x = _ |- _ => rewrite D in * end;
    repeat match goal with D : s_susp x = _ |- _ => rewrite D in * end;
    cbn [negb Z.eqb] in *;
    solve [ auto | intros; discriminate | intros; congruence | intuition (try congruence; try discriminate; try lia)
          | split; lia | lia
          | bsimp; destruct (s_susp x); intuition (try congruence; try discriminate; try lia) ]
  end.

(* what a nested execution may not do while _stopping is set; _stopping itself is always restored *)
Definition G2 (s s' : state) : Prop :=
  s_stopping s' = s_stopping s /\ (s_req s = None -> s_req s' = None) /\
  (s_stopping s = true -> s_rcall s' = s_rcall s /\ is_some (s_startd s') = is_some (s_startd s)).
Lemma G2_refl s : G2 s s. Proof. repeat split; auto. Qed.
Lemma G2_trans a b c : G2 a b -> G2 b c -> G2 a c.
Proof.
  intros (e1 & q1 & p1) (e2 & q2 & p2). split; [congruence|]. split; [auto|]. intro H. destruct (p1 H) as (x1 & x2).
  assert (Hb : s_stopping b = true) by congruence. destruct (p2 Hb) as (y1 & y2). split; congruence.
Qed.
Ltac g2_explicit := solve [ split; [|split]; psimpl; [ reflexivity | intros; try assumption; try reflexivity; try congruence | intros; split; psimpl;
    repeat match goal with D : s_startd ?x = _ |- _ => rewrite D end; try reflexivity; try congruence; bsimp; congruence ] ].
Ltac g2_chain :=
  lazymatch goal with
  | |- G2 ?s ?s' =>
    first [ match goal with
            | H : G2 ?a ?b |- _ =>
              lazymatch s' with context [b] => idtac end;
              apply (G2_trans s b s'); [ apply (G2_trans s a b); [ clear H; g2_chain | exact H ] | g2_explicit ]
            end
          | g2_explicit ]
  end.
(* discharge  J a -> J b /\ G2 a b  facts in path order *)
Ltac jfwd := repeat match goal with
  | H : J ?a -> _ |- _ =>
    let P := fresh "P" in assert (P : J a) by (first [assumption | j_explicit]);
    specialize (H P); clear P; let HJ := fresh "HJ" in let HG := fresh "HG" in destruct H as (HJ & HG)
  end.
Ltac jlast := first [ assumption | j_explicit ].
Ltac jdone := jfwd; split; [ jlast | g2_chain ].
Ltac use L := repeat match goal with E : _ = (_, _, _) |- _ =>
  let X := fresh "X" in
  first [ pose proof (L _ _ _ _ E) as X | pose proof (L _ _ _ _ _ E) as X | pose proof (L _ _ _ _ _ _ E) as X
        | pose proof (L _ _ _ _ _ _ _ E) as X | pose proof (L _ _ _ _ _ _ _ _ E) as X ]; clear E end.

Lemma startd_errback_j fk s r s' o : startd_errback fk s = (r, s', o) -> J s -> J s' /\ G2 s s'.
Proof. intros H HJ. unfold startd_errback in H. mi H; jdone. Qed.
Lemma handle_auto_commit_error_j fk s r s' o : handle_auto_commit_error fk s = (r, s', o) -> J s -> J s' /\ G2 s s'.
Proof. intros H HJ. unfold handle_auto_commit_error in H. mi H; use startd_errback_j; jdone. Qed.
Lemma handle_processor_error_j fk s r s' o : handle_processor_error fk s = (r, s', o) -> J s -> J s' /\ G2 s s'.
Proof. intros H HJ. unfold handle_processor_error in H. mi H; use startd_errback_j; jdone. Qed.
Lemma send_commit_request_j i a s r s' o : send_commit_request i a s = (r, s', o) -> J s -> J s' /\ G2 s s'.
Proof. intros H HJ. unfold send_commit_request in H. mi H; jdone. Qed.
Lemma commit_j w s r s' o : commit w s = (r, s', o) -> J s -> J s' /\ G2 s s'.
Proof. intros H HJ. unfold commit in H. mi H; use send_commit_request_j; jdone. Qed.
Lemma auto_commit_j bc s r s' o : auto_commit bc s = (r, s', o) -> J s -> J s' /\ G2 s s'.
Proof. intros H HJ. unfold auto_commit in H. mi H; use commit_j; use handle_auto_commit_error_j; jdone. Qed.
Lemma proc_chain_j last fk s r s' o : proc_chain last fk s = (r, s', o) -> J s -> J s' /\ G2 s s'.
Proof. intros H HJ. unfold proc_chain in H. mi H; use auto_commit_j; use handle_processor_error_j; jdone. Qed.
Lemma pop_plan_j s r s' o : pop_plan s = (r, s', o) -> J s -> J s' /\ G2 s s'.
Proof. intros H HJ. unfold pop_plan in H. mi H; jdone. Qed.
Lemma emit_shutd_j x s r s' o : emit_shutd x s = (r, s', o) -> J s -> J s' /\ G2 s s'.
Proof. intros H HJ. unfold emit_shutd in H. mi H; jdone. Qed.
Lemma interrupted_j s r s' o : interrupted s = (r, s', o) -> J s -> J s' /\ G2 s s'.
Proof. intros H HJ. unfold interrupted in H. mi H; use emit_shutd_j; jdone. Qed.
Lemma api_commit_j s r s' o : api_commit s = (r, s', o) -> J s -> J s' /\ G2 s s'.
Proof. intros H HJ. unfold api_commit in H. mi H; use commit_j; jdone. Qed.

Lemma retry_fetch_j z s r s' o : retry_fetch z s = (r, s', o) -> J s -> s_req s = None -> parked s = false -> J s' /\ G2 s s'.
Proof.
  intros H HJ Hr Hp. unfold retry_fetch in H. mi H; try jdone.
  all: split; [|g2_explicit].
  all: destruct HJ as [a0 a1 a3 a6 a9 a11]; constructor; unfold parked, rcall_active, rcall_stale in *; psimpl;
       rewrite ?D0 in *; auto; try (intros; discriminate); try lia; bsimp.
  all: intro Hs; rewrite Hs in *; discriminate.
Qed.

(* the blocks of stop() *)
Lemma stop_req_mblock_j s0 r1 s1 o1 r2 s2 o2 :
  stop_req s0 = (r1, s1, o1) -> stop_mblock s1 = (r2, s2, o2) -> J s0 -> s_stopping s0 = true ->
  J s2 /\ G2 s0 s2 /\ s_req s2 = None.
Proof.
  intros H1 H2 HJ Hst. unfold stop_req, handle_fetch_error, handle_offset_error in H1. unfold stop_mblock in H2.
  change (is_oor FK_CANCELLED) with false in H1. change (is_cancel FK_CANCELLED) with true in H1.
  mi H1; psimpl; rewrite ?Hst in *; cbn [andb] in *; try discriminate; mi H2.
  all: split; [| split; [g2_explicit | psimpl; auto]].
  all: destruct HJ as [a0 a1 a3 a6 a9 a11]; constructor; unfold parked, rcall_active, rcall_stale in *; psimpl;
       repeat match goal with D : s_mblock _ = _ |- _ => rewrite D in * end;
       repeat match goal with D : s_req _ = _ |- _ => rewrite D in * end;
       auto; try (intros; discriminate); try (intros; congruence).
  all: intro Hs; destruct (a6 Hs) as [x1 x2]; split; [reflexivity | first [exact x2 | discriminate x1]].
Qed.

Lemma stop_rcall_j s r s' o : stop_rcall s = (r, s', o) -> J s -> s_stopping s = true -> rcall_stale s = false ->
  r = Ok tt /\ J s' /\ s_stopping s' = true /\ s_req s' = s_req s /\ rcall_active s' = false /\ s_startd s' = s_startd s.
Proof.
  intros H HJ Hst Hns. unfold stop_rcall in H. unfold rcall_stale in Hns. mi H; try (rewrite ?D, ?D0 in Hns; cbn in Hns; discriminate).
  all: split; [reflexivity|]; split; [| split; [psimpl; assumption | split; [psimpl; reflexivity | split; [unfold rcall_active; psimpl; try rewrite D; reflexivity | psimpl; reflexivity]]]].
  all: try assumption.
  destruct HJ as [a0 a1 a3 a6 a9 a11]; constructor; unfold parked, rcall_active, rcall_stale in *; psimpl; rewrite ?D in *; auto;
    try (intros; discriminate).
Qed.
(* blocks that never raise *)
Lemma stop_req_ok s r s' o : stop_req s = (r, s', o) -> r = Ok tt.
Proof. intro H. unfold stop_req in H. mi H; reflexivity. Qed.
Lemma stop_mblock_ok s r s' o : stop_mblock s = (r, s', o) -> r = Ok tt.
Proof. intro H. unfold stop_mblock in H. mi H; reflexivity. Qed.
Lemma stop_ccall_ok s r s' o : stop_ccall s = (r, s', o) -> r = Ok tt.
Proof. intro H. unfold stop_ccall in H. mi H; reflexivity. Qed.
Lemma stop_looper_ok s r s' o : stop_looper s = (r, s', o) -> r = Ok tt.
Proof. intro H. unfold stop_looper in H. mi H; reflexivity. Qed.
Lemma stop_susp_ok s r s' o : stop_susp s = (r, s', o) -> r = Ok tt.
Proof. intro H. unfold stop_susp in H. mi H; reflexivity. Qed.
Lemma stop_proc_ok rec s r s' o : stop_proc rec s = (r, s', o) -> r = Ok tt.
Proof. intro H. unfold stop_proc in H. mi H; reflexivity. Qed.
Lemma stop_creq_ok rec s r s' o : stop_creq rec s = (r, s', o) -> r = Ok tt.
Proof. intro H. unfold stop_creq in H. mi H; reflexivity. Qed.
Lemma stop_ccall_j s r s' o : stop_ccall s = (r, s', o) -> J s -> J s' /\ G2 s s'.
Proof. intros H HJ. unfold stop_ccall in H. mi H; jdone. Qed.
Lemma stop_looper_j s r s' o : stop_looper s = (r, s', o) -> J s -> J s' /\ G2 s s'.
Proof. intros H HJ. unfold stop_looper in H. mi H; jdone. Qed.
Lemma stop_susp_j s r s' o : stop_susp s = (r, s', o) -> J s -> J s' /\ G2 s s'.
Proof. intros H HJ. unfold stop_susp in H. mi H; jdone. Qed.

(* methods only called from the event handlers *)
Lemma do_fetch_j s r s' o : do_fetch s = (r, s', o) -> J s -> is_some (s_startd s) = true -> J s' /\ s_stopping s' = s_stopping s.
Proof.
  intros H HJ Hsd. unfold do_fetch, startd_errback in H. mi H; (split; [| psimpl; reflexivity]); try assumption.
  all: destruct HJ as [a0 a1 a3 a6 a9 a11]; constructor; unfold parked, rcall_active, rcall_stale, is_some in *; psimpl;
       repeat match goal with D : s_rcall _ = _ |- _ => rewrite D in * end;
       repeat match goal with D : s_startd _ = _ |- _ => rewrite D in * end;
       repeat match goal with D : s_req _ = _ |- _ => rewrite D in * end;
       auto; try (intros; discriminate); try (intros; congruence);
       try (intro Hp; destruct (a1 Hp) as [x _]; discriminate x).
  all: intro Hs; rewrite Hs in Hsd; discriminate Hsd.
Qed.
Lemma handle_error_j (fetch : bool) fk s r s' o :
  (if fetch then handle_fetch_error fk s else handle_offset_error fk s) = (r, s', o) ->
  J s -> parked s = false -> s_stopping s = false -> J s' /\ s_stopping s' = false.
Proof.
  intros H HJ Hp Hst.
  assert (HJ1 : J (set_req None s)).
  { destruct HJ as [a0 a1 a3 a6 a9 a11]; constructor; unfold parked, rcall_active, rcall_stale in *; psimpl; auto; try (intros; congruence).
    intro Hs. destruct (a6 Hs). split; auto. }
  destruct fetch; [unfold handle_fetch_error in H | unfold handle_offset_error in H]; mi H.
  all: use startd_errback_j; jfwd.
  all: repeat match goal with E : retry_fetch _ ?x = _ |- _ =>
         let X := fresh "X" in
         assert (X : J x /\ s_req x = None /\ parked x = false)
           by (split; [first [assumption | j_explicit] | split; [psimpl; reflexivity | unfold parked in *; psimpl; assumption]]);
         destruct X as (X1 & X2 & X3); pose proof (retry_fetch_j _ _ _ _ _ E X1 X2 X3) as (? & ?); clear E end.
  all: split; [ try first [assumption | j_explicit] | ].
  all: try (repeat match goal with HG : G2 _ _ |- _ => destruct HG as (? & _ & _) end; psimpl; congruence).
Qed.

(* ---------------- the re-entrant part ---------------- *)
Definition Pre2 (k : kont) (s : state) : Prop :=
  match k with
  | KStop => s_stopping s = false
  | KFetchResp _ _ => s_req s = Some (R_FETCH, true)
  | _ => True
  end.
Definition Post2 (k : kont) (s : state) (r : res unit) (s' : state) (o : list output) : Prop :=
  fuel_ok o = true -> J s -> Pre2 k s -> J s' /\ G2 s s' /\
  match k with KStopCds => r = Ok tt | KStop => is_some (s_startd s) = true -> r = Ok tt | _ => True end.

Section Rec2.
Variable f : nat.
Hypothesis IH : forall k s r s' o, run f k s = (r, s', o) -> Post2 k s r s' o.

Ltac use_ih := repeat match goal with
  | E : run f ?k ?s1 = (?r, ?s2, ?o1), Hf : fuel_ok ?o1 = true |- _ =>
    let P := fresh "P" in pose proof (IH _ _ _ _ _ E Hf) as P; unfold Pre2 in P; cbn beta iota in P;
    let F := fresh "F" in pose proof (run_frame _ _ _ _ _ _ E Hf) as F; cbn beta iota in F; destruct F as (_ & F); clear E
  end.
(* discharge  J a -> [Pre ->] J b /\ G2 a b  in path order; the equalities on _stopping are kept for congruence *)
Ltac jfwd2 := repeat match goal with
  | H : J ?a -> _ |- _ =>
    let P := fresh "P" in assert (P : J a) by (first [assumption | j_explicit]);
    specialize (H P); clear P;
    try match type of H with
        | True -> _ => specialize (H Logic.I)
        | s_stopping ?x = false -> _ =>
          let Q := fresh "Q" in assert (Q : s_stopping x = false) by (psimpl; bsimp; congruence); specialize (H Q); clear Q
        | s_req ?x = Some _ -> _ =>
          let Q := fresh "Q" in assert (Q : s_req x = Some (R_FETCH, true)) by (psimpl; first [reflexivity | congruence | tauto]); specialize (H Q); clear Q
        end;
    let HJ := fresh "HJ" in let HG := fresh "HG" in
    lazymatch type of H with
    | J _ /\ G2 _ _ => destruct H as (HJ & HG)
    | _ => destruct H as (HJ & HG & ?)
    end; pose proof (proj1 HG)
  end.
Ltac jdone2 := jfwd2; split; [ jlast | g2_chain ].
Ltac specs :=
  use startd_errback_j; use handle_auto_commit_error_j; use handle_processor_error_j; use send_commit_request_j; use commit_j;
  use auto_commit_j; use proc_chain_j; use pop_plan_j; use emit_shutd_j; use interrupted_j; use api_commit_j;
  use stop_ccall_j; use stop_looper_j; use stop_susp_j.

Lemma api_stop_j s r s' o : api_stop (run f) s = (r, s', o) -> fuel_ok o = true -> J s -> s_stopping s = false -> J s' /\ G2 s s'.
Proof. intros H Hf HJ Hst. unfold api_stop in H. mi H; fuel_split; use_ih; jdone2. Qed.
Lemma api_shutdown_j s r s' o : api_shutdown (run f) s = (r, s', o) -> fuel_ok o = true -> J s -> J s' /\ G2 s s'.
Proof. intros H Hf HJ. unfold api_shutdown in H. mi H; split_state_if; fuel_split; use_ih; jdone2. Qed.
Lemma handle_commit_error_j fk i a s r s' o :
  handle_commit_error (run f) fk i a s = (r, s', o) -> fuel_ok o = true -> J s -> J s' /\ G2 s s'.
Proof. intros H Hf HJ. unfold handle_commit_error in H. mi H; fuel_split; use_ih; jdone2. Qed.
Lemma fire_all_j cr : forall ds s r s' o, fire_all (run f) ds cr s = (r, s', o) -> fuel_ok o = true -> J s -> J s' /\ G2 s s'.
Proof.
  induction ds as [|d ds IHds]; intros s r s' o H Hf HJ; cbn [fire_all] in H.
  - mi H. jdone2.
  - mi H; fuel_split; use_ih; jfwd2.
    all: match goal with E : fire_all _ _ _ _ = _ |- _ => apply IHds in E; [destruct E | assumption | assumption] end.
    all: split; [assumption | g2_chain].
Qed.

Lemma finish_block_j s r s' o : finish_block (run f) s = (r, s', o) -> fuel_ok o = true -> J s -> J s' /\ G2 s s'.
Proof.
  intros H Hf HJ. unfold finish_block in H. mi H; fuel_split; use_ih.
  all: try (assert (Hp : s_req s = Some (R_FETCH, true)) by (apply (j1 _ HJ); unfold parked; rewrite D; reflexivity)).
  all: jdone2.
Qed.
Lemma stop_proc_j s r s' o : stop_proc (run f) s = (r, s', o) -> fuel_ok o = true -> J s -> J s' /\ G2 s s'.
Proof. intros H Hf HJ. unfold stop_proc in H. mi H; fuel_split; use_ih; jdone2. Qed.
Lemma stop_creq_j s r s' o : stop_creq (run f) s = (r, s', o) -> fuel_ok o = true -> J s -> J s' /\ G2 s s'.
Proof.
  intros H Hf HJ. unfold stop_creq in H. mi H; fuel_split.
  all: repeat match goal with E : handle_commit_error _ _ _ _ _ = _, Hf : fuel_ok _ = true |- _ =>
         let X := fresh "X" in pose proof (handle_commit_error_j _ _ _ _ _ _ _ E Hf) as X; clear E end.
  all: jdone2.
Qed.

Ltac specs2 :=
  specs;
  repeat match goal with
  | E : api_stop _ _ = _, Hf : fuel_ok _ = true |- _ => let X := fresh "X" in pose proof (api_stop_j _ _ _ _ E Hf) as X; clear E
  | E : api_shutdown _ _ = _, Hf : fuel_ok _ = true |- _ => let X := fresh "X" in pose proof (api_shutdown_j _ _ _ _ E Hf) as X; clear E
  | E : handle_commit_error _ _ _ _ _ = _, Hf : fuel_ok _ = true |- _ => let X := fresh "X" in pose proof (handle_commit_error_j _ _ _ _ _ _ _ E Hf) as X; clear E
  | E : fire_all _ _ _ _ = _, Hf : fuel_ok _ = true |- _ => let X := fresh "X" in pose proof (fire_all_j _ _ _ _ _ _ E Hf) as X; clear E
  | E : finish_block _ _ = _, Hf : fuel_ok _ = true |- _ => let X := fresh "X" in pose proof (finish_block_j _ _ _ _ E Hf) as X; clear E
  | E : stop_proc _ _ = _, Hf : fuel_ok _ = true |- _ => let X := fresh "X" in pose proof (stop_proc_j _ _ _ _ E Hf) as X; clear E
  | E : stop_creq _ _ = _, Hf : fuel_ok _ = true |- _ => let X := fresh "X" in pose proof (stop_creq_j _ _ _ _ E Hf) as X; clear E
  end.
Ltac go H := cbn [body] in H; mi H; fuel_split; use_ih; specs2.

Lemma body_KStopCds_j s r s' o : body (run f) KStopCds s = (r, s', o) -> fuel_ok o = true -> J s -> J s' /\ G2 s s' /\ r = Ok tt.
Proof.
  intros H Hf HJ. go H; jfwd2; try (split; [ jlast | split; [ g2_chain | first [reflexivity | assumption] ] ]).
  (* the recursive call raised: excluded by its own clause *)
  all: exfalso; congruence.
Qed.
Lemma body_KFireProc_j fk s r s' o : body (run f) (KFireProc fk) s = (r, s', o) -> fuel_ok o = true -> J s -> J s' /\ G2 s s'.
Proof. intros H Hf HJ. go H; jdone2. Qed.
Lemma body_KCommitAndStop_j s r s' o : body (run f) KCommitAndStop s = (r, s', o) -> fuel_ok o = true -> J s -> J s' /\ G2 s s'.
Proof. intros H Hf HJ. go H; jdone2. Qed.
Lemma body_KShutFinish_j fk s r s' o : body (run f) (KShutFinish fk) s = (r, s', o) -> fuel_ok o = true -> J s -> J s' /\ G2 s s'.
Proof. intros H Hf HJ. go H; jdone2. Qed.
Lemma body_KFireCd_j d cr s r s' o : body (run f) (KFireCd d cr) s = (r, s', o) -> fuel_ok o = true -> J s -> J s' /\ G2 s s'.
Proof. intros H Hf HJ. go H; jdone2. Qed.
Lemma body_KDeliver_j cr s r s' o : body (run f) (KDeliver cr) s = (r, s', o) -> fuel_ok o = true -> J s -> J s' /\ G2 s s'.
Proof. intros H Hf HJ. go H; jdone2. Qed.
Lemma body_KProcLoop_j msgs s r s' o : body (run f) (KProcLoop msgs) s = (r, s', o) -> fuel_ok o = true -> J s -> J s' /\ G2 s s'.
Proof. intros H Hf HJ. go H; jdone2. Qed.

Ltac reqback := psimpl; first [ reflexivity | assumption
  | match goal with HG : G2 ?a ?b |- s_req ?b = None => apply (proj1 (proj2 HG)); reqback end ].
Ltac notparked :=
  lazymatch goal with
  | |- parked ?x = false =>
    first [ solve [ unfold parked; psimpl; repeat match goal with D : s_mblock _ = _ |- _ => rewrite D end; reflexivity ]
          | match goal with F : Fr ?a x |- _ =>
              let Ep := fresh "Ep" in destruct (parked x) eqn:Ep; [| reflexivity];
              apply (fr_parked _ _ F) in Ep; exfalso; revert Ep;
              let Q := fresh "Q" in assert (Q : parked a = false) by notparked; rewrite Q; discriminate
            end ]
  end.

Lemma body_KFetchResp_j offs ts s r s' o :
  body (run f) (KFetchResp offs ts) s = (r, s', o) -> fuel_ok o = true -> J s -> s_req s = Some (R_FETCH, true) -> J s' /\ G2 s s'.
Proof.
  intros H Hf HJ Hreq. cbn [body] in H. mi H; fuel_split; use_ih.
  all: repeat match goal with E : startd_errback _ _ = _ |- _ =>
         let F := fresh "F" in pose proof (startd_errback_fr _ _ _ _ _ E) as (F & _);
         let X := fresh "X" in pose proof (startd_errback_j _ _ _ _ _ E) as X; clear E end.
  all: jfwd2.
  all: repeat match goal with E : retry_fetch _ ?x = _ |- _ =>
         let Hrq := fresh "Hrq" in assert (Hrq : s_req x = None) by reqback;
         let Hpk := fresh "Hpk" in assert (Hpk : parked x = false) by notparked;
         let HJx := fresh "HJx" in assert (HJx : J x) by (first [assumption | j_explicit]);
         let X := fresh "X" in pose proof (retry_fetch_j _ _ _ _ _ E HJx Hrq Hpk) as X; clear E;
         let HJ' := fresh "HJ" in let HG' := fresh "HG" in destruct X as (HJ' & HG'); pose proof (proj1 HG')
       end.
  all: split; [ jlast | g2_chain ].
Qed.

Lemma body_KStop_j s r s' o : body (run f) KStop s = (r, s', o) -> fuel_ok o = true -> J s -> s_stopping s = false ->
  J s' /\ G2 s s' /\ (is_some (s_startd s) = true -> r = Ok tt).
Proof.
  intros H Hf HJ Hst. cbn [body] in H. unfold stop_startd in H. mi H; fuel_split; use_ih.
  (* blocks that cannot raise *)
  all: try (match goal with
            | E : stop_req _ = (Exc _, _, _) |- _ => apply stop_req_ok in E
            | E : stop_mblock _ = (Exc _, _, _) |- _ => apply stop_mblock_ok in E
            | E : stop_proc _ _ = (Exc _, _, _) |- _ => apply stop_proc_ok in E
            | E : stop_creq _ _ = (Exc _, _, _) |- _ => apply stop_creq_ok in E
            | E : stop_ccall _ = (Exc _, _, _) |- _ => apply stop_ccall_ok in E
            | E : stop_looper _ = (Exc _, _, _) |- _ => apply stop_looper_ok in E
            | E : stop_susp _ = (Exc _, _, _) |- _ => apply stop_susp_ok in E
            end; discriminate).
  (* not running: RestopError *)
  all: try (split; [assumption | split; [apply G2_refl | intro Hx; discriminate Hx]]).
  (* the common prefix: request, block, processor, retry timer *)
  all: assert (HJ0 : J (set_stopping true s)) by j_explicit.
  all: assert (Hns : rcall_stale s = false)
         by (destruct (rcall_stale s) eqn:Es; [destruct (j3 _ HJ Es); congruence | reflexivity]).
  all: match goal with E : stop_req _ = _, E1 : stop_mblock _ = _ |- _ =>
         destruct (stop_req_mblock_j _ _ _ _ _ _ _ E E1 HJ0 eq_refl) as (HJ1 & HG1 & Hreq1); clear E E1 end.
  all: match goal with E : stop_proc _ _ = _, Hf : fuel_ok _ = true |- _ =>
         destruct (stop_proc_j _ _ _ _ E Hf HJ1) as (HJ2 & HG2); clear E end.
  all: match goal with E : stop_rcall ?x = _ |- _ =>
         assert (G02 : G2 (set_stopping true s) x) by g2_chain;
         destruct G02 as (St2 & Rq2 & R2); specialize (R2 eq_refl); psimpl; destruct R2 as (Rc2 & Sd2);
         assert (Hns2 : rcall_stale x = false) by (unfold rcall_stale in *; rewrite Rc2; exact Hns);
         destruct (stop_rcall_j _ _ _ _ E HJ2 St2 Hns2) as (Hr3 & HJ3 & St3 & Rq3 & Ra3 & Sd3); clear E
       end.
  all: try discriminate Hr3.
  all: match goal with P : J _ -> True -> _ |- _ => destruct (P HJ3 Logic.I) as (HJ4 & HG4 & Hr4); clear P end; try discriminate Hr4.
  all: match goal with E : stop_creq _ _ = _, Hf : fuel_ok _ = true |- _ =>
         destruct (stop_creq_j _ _ _ _ E Hf HJ4) as (HJ5 & HG5); clear E end.
  all: match goal with E : stop_ccall _ = _ |- _ => destruct (stop_ccall_j _ _ _ _ E HJ5) as (HJ6 & HG6); clear E end.
  all: match goal with E : stop_looper _ = _ |- _ => destruct (stop_looper_j _ _ _ _ E HJ6) as (HJ7 & HG7); clear E end.
  all: match goal with E : stop_susp _ = _ |- _ => destruct (stop_susp_j _ _ _ _ E HJ7) as (HJ8 & HG8); clear E end.
  all: match goal with |- context [set_stopping false ?x] =>
         assert (G38 : G2 s3 x) by g2_chain; destruct G38 as (St8 & Rq8 & R8); specialize (R8 St3); destruct R8 as (Rc8 & Sd8);
         assert (Hreq8 : s_req x = None) by (apply Rq8; rewrite Rq3; apply (proj1 (proj2 HG2)); exact Hreq1);
         assert (Hra8 : rcall_active x = false) by (unfold rcall_active in *; rewrite Rc8; exact Ra3)
       end.
  all: split; [| split].
  all: try (split; [psimpl; congruence | split; [intros; psimpl; exact Hreq8 | intro Hs; congruence]]).
  all: try (intros _; first [reflexivity | exfalso; rewrite D0 in Sd8; rewrite Sd3 in Sd8; rewrite Sd2 in Sd8; rewrite D in Sd8; discriminate Sd8]).
  all: destruct HJ8 as [b0 b1 b3 b6 b9 b11]; constructor; unfold parked, rcall_active, rcall_stale in *; psimpl; rewrite ?Hreq8 in *; auto.
  all: try (intros; split; [reflexivity | assumption]).
Qed.
End Rec2.

Theorem run_inv fuel k s r s' o : run fuel k s = (r, s', o) -> Post2 k s r s' o.
Proof.
  intro H. refine (run_ind (fun _ _ => True) Post2 _ _ fuel k s r s' o I H); clear.
  - intros k s _ Hf. discriminate Hf.
  - intros f IH k s r s' o _ H Hf HJ HP.
    assert (IH' : forall k s r s' o, run f k s = (r, s', o) -> Post2 k s r s' o) by (intros; eapply IH; eauto).
    destruct k; cbn [Pre2] in HP.
    + destruct (body_KStop_j f IH' _ _ _ _ H Hf HJ HP) as (? & ? & ?); auto.
    + destruct (body_KStopCds_j f IH' _ _ _ _ H Hf HJ) as (? & ? & ?); auto.
    + destruct (body_KFireProc_j f IH' _ _ _ _ _ H Hf HJ); auto.
    + destruct (body_KProcLoop_j f IH' _ _ _ _ _ H Hf HJ); auto.
    + destruct (body_KFetchResp_j f IH' _ _ _ _ _ _ H Hf HJ HP); auto.
    + destruct (body_KCommitAndStop_j f IH' _ _ _ _ H Hf HJ); auto.
    + destruct (body_KShutFinish_j f IH' _ _ _ _ _ H Hf HJ); auto.
    + destruct (body_KFireCd_j f IH' _ _ _ _ _ _ H Hf HJ); auto.
    + destruct (body_KDeliver_j f IH' _ _ _ _ _ H Hf HJ); auto.
Qed.

(* ---------------- the invariant between two events ---------------- *)
Definition Jtop (s : state) : Prop := J s /\ s_stopping s = false.

Lemma Jtop_init c buf : Jtop (init c n0 buf).
Proof. split; [|reflexivity]. constructor; cbn; auto; try (intros; discriminate); try lia. Qed.

Lemma do_fetch_start off s r s' o :
  do_fetch (set_inapi 1 (set_foff off (set_startd (Some false) s))) = (r, s', o) -> J s -> s_startd s = None ->
  J s' /\ s_stopping s' = s_stopping s /\ is_some (s_startd s') = true.
Proof.
  intros H HJ Hsd. destruct (j6 _ HJ Hsd) as (Hreq & Hra).
  unfold do_fetch, startd_errback in H. mi H; (split; [| split; psimpl; reflexivity]).
  all: destruct HJ as [a0 a1 a3 a6 a9 a11]; constructor; unfold parked, rcall_active, rcall_stale, is_some in *; psimpl;
       repeat match goal with D : s_rcall _ = _ |- _ => rewrite D in * end;
       repeat match goal with D : s_req _ = _ |- _ => rewrite D in * end;
       auto; try (intros; discriminate); try (intros; congruence);
       try (intro Hp; destruct (a1 Hp) as [x _]; discriminate x).
Qed.

Lemma do_fetch_retry s r s' o :
  do_fetch (set_rcall (Some 2) s) = (r, s', o) -> J s -> rcall_active s = true -> J s' /\ s_stopping s' = s_stopping s.
Proof.
  intros H HJ Hra. pose proof (j0 _ HJ Hra) as Hreq.
  assert (Hsd : s_startd s <> None) by (intro Es; destruct (j6 _ HJ Es) as (_ & x); congruence).
  unfold do_fetch, startd_errback in H. mi H; (split; [| psimpl; reflexivity]).
  all: destruct HJ as [a0 a1 a3 a6 a9 a11]; constructor; unfold parked, rcall_active, rcall_stale, is_some in *; psimpl;
       repeat match goal with D : s_req _ = _ |- _ => rewrite D in * end;
       auto; try (intros; discriminate); try (intros; congruence);
       try (intro Hp; destruct (a1 Hp) as [x _]; discriminate x).
Qed.

Ltac top_ih Hf := fuel_split; repeat match goal with
  | E : run _ ?k ?s1 = (?r, ?s2, ?o1), Hf : fuel_ok ?o1 = true |- _ =>
    let P := fresh "P" in pose proof (run_inv _ _ _ _ _ _ E Hf) as P; unfold Pre2 in P; cbn beta iota in P;
    let F := fresh "F" in pose proof (run_frame _ _ _ _ _ _ E Hf) as F; cbn beta iota in F; destruct F as (_ & F); clear E
  end.
Ltac jfwd3 := repeat match goal with
  | H : J ?a -> _ |- _ =>
    let P := fresh "P" in assert (P : J a) by (first [assumption | j_explicit]);
    specialize (H P); clear P;
    try match type of H with
        | True -> _ => specialize (H Logic.I)
        | s_stopping ?x = false -> _ =>
          let Q := fresh "Q" in assert (Q : s_stopping x = false) by (psimpl; bsimp; congruence); specialize (H Q); clear Q
        | s_req ?x = Some _ -> _ =>
          let Q := fresh "Q" in assert (Q : s_req x = Some (R_FETCH, true)) by (psimpl; first [reflexivity | congruence | tauto]); specialize (H Q); clear Q
        end;
    let HJ := fresh "HJ" in let HG := fresh "HG" in
    lazymatch type of H with
    | J _ /\ G2 _ _ => destruct H as (HJ & HG)
    | _ => destruct H as (HJ & HG & ?)
    end; pose proof (proj1 HG)
  end.
Ltac jt := jfwd3; split; [ first [assumption | j_explicit] | psimpl; congruence ].

Lemma handle_inv fuel e s s' o : handle fuel e s = (Ok tt, s', o) -> fuel_ok o = true -> Jtop s -> Jtop s'.
Proof.
  intros H Hf (HJ & Hst). unfold handle in H. cbn zeta in H. destruct e.
  - (* start *) unfold flush_pend in H. mi H.
    all: try (split; assumption).
    all: match goal with E : do_fetch _ = _ |- _ => destruct (do_fetch_start _ _ _ _ _ E HJ D) as (HJ1 & Hs1 & Hd1); clear E end.
    all: jt.
  - (* stop *) unfold api_stop in H. mi H; top_ih Hf; jt.
  - (* shutdown *) unfold api_shutdown in H. mi H; split_state_if; top_ih Hf; jt.
  - (* commit *) unfold api_commit in H. mi H; use commit_j; jt.
  - (* offset reply *) unfold handle_offset_response in H. mi H; try (split; assumption).
    all: assert (Hsd : is_some (s_startd s) = true)
           by (destruct (s_startd s) eqn:Es; [reflexivity | destruct (j6 _ HJ Es) as (x & _); congruence]).
    all: match goal with E : do_fetch ?x = _ |- _ =>
           assert (HJx : J x) by j_explicit;
           destruct (do_fetch_j _ _ _ _ E HJx ltac:(psimpl; exact Hsd)) as (HJ2 & Hs2); clear E end.
    all: split; [assumption | psimpl; congruence].
  - (* fetch reply *) mi H; try (split; assumption); bsimp; subst; top_ih Hf; jfwd3.
    + split; [assumption | psimpl; congruence].
    + match goal with E : handle_fetch_error ?k ?x = _ |- _ =>
        assert (Hp : parked x = false)
          by (destruct (parked x) eqn:Ep; [destruct (fk_parked _ _ _ F Ep) as (_ & Hx); discriminate Hx | reflexivity]);
        destruct (handle_error_j true _ _ _ _ _ E ltac:(assumption) Hp ltac:(psimpl; congruence)) as (? & ?) end.
      split; assumption.
  - (* request failure *) mi H; try (split; assumption).
    all: assert (Hp : parked s = false)
           by (destruct (parked s) eqn:Ep; [destruct (j1 _ HJ Ep) as (x & _); congruence | reflexivity]).
    all: match goal with
         | E : handle_fetch_error _ ?x = _ |- _ =>
           assert (HJx : J x) by j_explicit;
           destruct (handle_error_j true _ _ _ _ _ E HJx ltac:(unfold parked in *; psimpl; exact Hp) ltac:(psimpl; exact Hst)) as (? & ?)
         | E : handle_offset_error _ ?x = _ |- _ =>
           assert (HJx : J x) by j_explicit;
           destruct (handle_error_j false _ _ _ _ _ E HJx ltac:(unfold parked in *; psimpl; exact Hp) ltac:(psimpl; exact Hst)) as (? & ?)
         end.
    all: split; assumption.
  - (* plan *) mi H. jt.
  - (* processor result *) mi H; try (split; assumption); top_ih Hf; jt.
  - (* commit ok *) mi H; try (split; assumption); top_ih Hf; jt.
  - (* commit failure *) unfold handle_commit_error in H. mi H; try (split; assumption); top_ih Hf; jt.
  - (* retry timer *) mi H; try (split; assumption).
    all: match goal with E : do_fetch _ = _ |- _ =>
           destruct (do_fetch_retry _ _ _ _ E HJ ltac:(unfold rcall_active; rewrite D; assumption)) as (? & ?) end.
    all: split; [assumption | psimpl; congruence].
  - (* commit retry timer *) mi H; try (split; assumption); use send_commit_request_j; jt.
  - (* auto-commit tick *) mi H; try (split; assumption); use auto_commit_j; jt.
Qed.
End Inv.
