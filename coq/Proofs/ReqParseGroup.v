(* C04, part 2: what `group_by_topic_and_partition` (the `canon` of the C04 theorems) does to a payload list.
   For every payload list ps, with g = group_by_topic_and_partition topic part ps:
     group_topic_order      the topics of g are the topics of ps in order of FIRST occurrence, each once;
     group_partition_order  the partitions listed under topic t are the partitions of the payloads of ps for t, in
                            order of first occurrence, each once; a topic that no payload names is absent;
     group_last_wins        the payload stored under (t, p) is the LAST payload of ps with that topic and partition;
     group_sound            every stored payload is an element of ps, stored under its own topic and partition.
   Nothing else happens to a payload: in particular its message list is carried unchanged (same order). *)
From AV Require Import Base.Util Model.Prim Model.Requests Proofs.UtilFacts.
From Coq Require Import Lia.

(* first-occurrence order: scan left to right, append a key unless it is already there *)
Definition seen_step {K} (eqb : K -> K -> bool) (acc : list K) (k : K) : list K :=
  if existsb (fun k' => eqb k' k) acc then acc else acc ++ [k].
Definition first_seen {K} (eqb : K -> K -> bool) (ks : list K) : list K := fold_left (seen_step eqb) ks [].

(* first-match lookup in an association list *)
Fixpoint aget {K V} (eqb : K -> K -> bool) (k : K) (l : list (K * V)) : option V :=
  match l with
  | [] => None
  | (k', v) :: r => if eqb k' k then Some v else aget eqb k r
  end.

(* the last element satisfying a predicate *)
Definition last_match {A} (pred : A -> bool) (l : list A) : option A := find pred (rev l).

Lemma text_eqb_eq a b : text_eqb a b = true <-> a = b.
Proof.
  destruct a as [x|], b as [y|]; cbn; split; intros H; try congruence; try discriminate.
  - apply zlist_eqb_eq in H. congruence.
  - injection H as ->. apply zlist_eqb_refl.
Qed.
Lemma text_eqb_refl a : text_eqb a a = true.
Proof. now apply text_eqb_eq. Qed.

Section Assoc.
  Context {K V : Type} (eqb : K -> K -> bool).
  Hypothesis eqb_eq : forall a b, eqb a b = true <-> a = b.

  Lemma eqb_refl a : eqb a a = true.
  Proof. now apply eqb_eq. Qed.

  Lemma aset_keys k f (l : list (K * V)) :
    map fst (aset eqb k f l) = seen_step eqb (map fst l) k.
  Proof.
    unfold seen_step. induction l as [|[k' v'] r IH]; cbn [aset map fst existsb]; [reflexivity|].
    destruct (eqb k' k) eqn:E; cbn [orb map fst]; [reflexivity|].
    rewrite IH. destruct (existsb (fun k'0 => eqb k'0 k) (map fst r)); reflexivity.
  Qed.

  Lemma aget_aset k f (l : list (K * V)) k0 :
    aget eqb k0 (aset eqb k f l) = if eqb k k0 then Some (f (aget eqb k l)) else aget eqb k0 l.
  Proof.
    induction l as [|[k' v'] r IH]; cbn [aset aget].
    - destruct (eqb k k0); reflexivity.
    - destruct (eqb k' k) eqn:E; cbn [aget].
      + apply eqb_eq in E. subst k'. destruct (eqb k k0); reflexivity.
      + rewrite IH. destruct (eqb k k0) eqn:E2; [|reflexivity].
        apply eqb_eq in E2. subst k0. rewrite E. reflexivity.
  Qed.

  (* every entry of the updated list is an old entry, the updated entry, or the new entry *)
  Lemma aset_forall k f (l : list (K * V)) (Q : K -> V -> Prop) :
    (forall k' v', In (k', v') l -> Q k' v') ->
    (forall v', In (k, v') l -> Q k (f (Some v'))) ->
    Q k (f None) ->
    forall k' v', In (k', v') (aset eqb k f l) -> Q k' v'.
  Proof.
    intros H1 H2 H3. induction l as [|[k1 v1] r IH]; cbn [aset]; intros k' v' I.
    - destruct I as [I|[]]. injection I as <- <-. exact H3.
    - destruct (eqb k1 k) eqn:E.
      + destruct I as [I|I].
        * injection I as <- <-. apply eqb_eq in E. subst k1. apply H2. now left.
        * apply H1. now right.
      + destruct I as [I|I].
        * injection I as <- <-. apply H1. now left.
        * apply IH; auto.
          -- intros k2 v2 I2. apply H1. now right.
          -- intros v2 I2. apply H2. now right.
  Qed.

  Lemma nodup_snoc (acc : list K) k : NoDup acc -> ~ In k acc -> NoDup (acc ++ [k]).
  Proof.
    induction acc as [|a r IH]; intros N NI; cbn [app].
    - constructor; [intros []|constructor].
    - inversion N as [|? ? Na Nr]; subst. constructor.
      + rewrite in_app_iff. cbn [In]. intros [I|[I|[]]]; [now apply Na|]. subst a. apply NI. now left.
      + apply IH; [exact Nr|]. intros I. apply NI. now right.
  Qed.

  Lemma seen_step_nodup acc k : NoDup acc -> NoDup (seen_step eqb acc k).
  Proof.
    intros N. unfold seen_step. destruct (existsb (fun k' => eqb k' k) acc) eqn:E; [exact N|].
    apply nodup_snoc; [exact N|]. intros I.
    assert (X : existsb (fun k' => eqb k' k) acc = true).
    { apply existsb_exists. exists k. split; [exact I|apply eqb_refl]. }
    congruence.
  Qed.

  Lemma first_seen_nodup ks : NoDup (first_seen eqb ks).
  Proof.
    unfold first_seen. assert (G : forall acc, NoDup acc -> NoDup (fold_left (seen_step eqb) ks acc)).
    { induction ks as [|k r IH]; intros acc N; cbn [fold_left]; [exact N|]. apply IH. now apply seen_step_nodup. }
    apply G. constructor.
  Qed.

  Lemma seen_step_in acc k x : In x (seen_step eqb acc k) <-> In x acc \/ x = k.
  Proof.
    unfold seen_step. destruct (existsb (fun k' => eqb k' k) acc) eqn:E.
    - split; [now left|]. intros [I|X]; [exact I|]. subst x.
      apply existsb_exists in E. destruct E as (y & I & Ey). apply eqb_eq in Ey. now subst y.
    - rewrite in_app_iff. cbn [In]. intuition.
  Qed.

  Lemma first_seen_in ks x : In x (first_seen eqb ks) <-> In x ks.
  Proof.
    unfold first_seen.
    assert (G : forall acc, In x (fold_left (seen_step eqb) ks acc) <-> In x acc \/ In x ks).
    { induction ks as [|k r IH]; intros acc; cbn [fold_left In]; [intuition|].
      rewrite IH, seen_step_in. intuition. }
    rewrite G. cbn [In]. intuition.
  Qed.
End Assoc.

Section Group.
  Context {Pl : Type} (topic : Pl -> text) (part : Pl -> Z).

  Notation group := (group_by_topic_and_partition topic part).

  Lemma Zeqb_eq a b : Z.eqb a b = true <-> a = b.
  Proof. apply Z.eqb_eq. Qed.

  Lemma group_snoc ps x : group (ps ++ [x]) = group_step topic part (group ps) x.
  Proof. unfold group_by_topic_and_partition. now rewrite fold_left_app. Qed.

  Definition for_topic (t : text) (x : Pl) : bool := text_eqb t (topic x).
  Definition for_key (t : text) (p : Z) (x : Pl) : bool := text_eqb t (topic x) && (p =? part x).

  Theorem group_topic_order ps :
    map fst (group ps) = first_seen text_eqb (map topic ps).
  Proof.
    induction ps as [|x ps IH] using rev_ind; [reflexivity|].
    rewrite group_snoc. unfold group_step. rewrite aset_keys, IH.
    unfold first_seen. now rewrite map_app, fold_left_app.
  Qed.

  Definition inner_of (t : text) (ps : list Pl) : list (Z * Pl) :=
    match aget text_eqb t (group ps) with Some i => i | None => [] end.

  Lemma for_topic_self x : for_topic (topic x) x = true.
  Proof. apply text_eqb_refl. Qed.

  Theorem group_partition_order ps t :
    match aget text_eqb t (group ps) with
    | Some inner => map fst inner = first_seen Z.eqb (map part (filter (for_topic t) ps))
    | None => filter (for_topic t) ps = []
    end.
  Proof.
    induction ps as [|x ps IH] using rev_ind; [reflexivity|].
    rewrite group_snoc. unfold group_step. rewrite (aget_aset text_eqb text_eqb_eq).
    rewrite filter_app. cbn [filter]. unfold for_topic at 2 4.
    destruct (text_eqb (topic x) t) eqn:E.
    - apply text_eqb_eq in E. subst t. rewrite text_eqb_refl.
      rewrite aset_keys. destruct (aget text_eqb (topic x) (group ps)) as [i|].
      + rewrite IH. unfold first_seen. now rewrite map_app, fold_left_app.
      + rewrite IH. reflexivity.
    - assert (E' : text_eqb t (topic x) = false).
      { destruct (text_eqb t (topic x)) eqn:F; [|reflexivity]. apply text_eqb_eq in F. subst t.
        now rewrite text_eqb_refl in E. }
      rewrite E', app_nil_r. exact IH.
  Qed.

  Definition lookup2 (t : text) (p : Z) (g : list (text * list (Z * Pl))) : option Pl :=
    match aget text_eqb t g with Some inner => aget Z.eqb p inner | None => None end.

  Theorem group_last_wins ps t p : lookup2 t p (group ps) = last_match (for_key t p) ps.
  Proof.
    induction ps as [|x ps IH] using rev_ind; [reflexivity|].
    rewrite group_snoc. unfold lookup2, group_step in *. rewrite (aget_aset text_eqb text_eqb_eq).
    unfold last_match in *. rewrite rev_app_distr. cbn [rev app find]. unfold for_key at 1.
    destruct (text_eqb (topic x) t) eqn:E.
    - apply text_eqb_eq in E. subst t. rewrite text_eqb_refl. cbn [andb].
      rewrite (aget_aset Z.eqb Zeqb_eq). rewrite (Z.eqb_sym p (part x)).
      destruct (part x =? p); [reflexivity|].
      rewrite <- IH. destruct (aget text_eqb (topic x) (group ps)); reflexivity.
    - assert (E' : text_eqb t (topic x) = false).
      { destruct (text_eqb t (topic x)) eqn:F; [|reflexivity]. apply text_eqb_eq in F. subst t.
        now rewrite text_eqb_refl in E. }
      rewrite E'. cbn [andb]. exact IH.
  Qed.

  Theorem group_sound ps t inner p x :
    In (t, inner) (group ps) -> In (p, x) inner -> In x ps /\ topic x = t /\ part x = p.
  Proof.
    revert t inner p x. induction ps as [|y ps IH] using rev_ind; intros t inner p x I1 I2; [destruct I1|].
    rewrite group_snoc in I1. unfold group_step in I1. revert p x I2.
    pattern t, inner. revert t inner I1.
    apply (aset_forall text_eqb text_eqb_eq).
    - intros t inner I1 p x I2. destruct (IH _ _ _ _ I1 I2) as (A & B & C).
      split; [apply in_or_app; now left|auto].
    - intros inner I1. apply (aset_forall Z.eqb Zeqb_eq).
      + intros p x I2. destruct (IH _ _ _ _ I1 I2) as (A & B & C). split; [apply in_or_app; now left|auto].
      + intros _ _. split; [apply in_or_app; right; now left|auto].
      + split; [apply in_or_app; right; now left|auto].
    - apply (aset_forall Z.eqb Zeqb_eq).
      + intros p x [].
      + intros v' [].
      + split; [apply in_or_app; right; now left|auto].
  Qed.

  Theorem group_topics_distinct ps : NoDup (map fst (group ps)).
  Proof. rewrite group_topic_order. apply (first_seen_nodup text_eqb text_eqb_eq). Qed.

  Theorem group_topic_in ps t : In t (map fst (group ps)) <-> In t (map topic ps).
  Proof. rewrite group_topic_order. apply (first_seen_in text_eqb text_eqb_eq). Qed.
End Group.
