(* pure_murmur2 (Python, unsigned with explicit masks) = Java Utils.murmur2 (signed int32), mod 2^32 *)
From AV Require Import Base.Util Model.Murmur Model.Partitioner.
From Coq Require Import Lia Morphisms Setoid.

Definition P32 : Z := 0x100000000.
Inductive eqm (a b : Z) : Prop := Eqm : a mod P32 = b mod P32 -> eqm a b.
Lemma eqm_iff a b : eqm a b <-> a mod P32 = b mod P32.
Proof. split; [intros [H]; exact H | apply Eqm]. Qed.

#[global] Instance eqm_equiv : Equivalence eqm.
Proof. split; [intro; apply Eqm; reflexivity | intros x y [H]; apply Eqm; symmetry; exact H | intros x y z [H1] [H2]; apply Eqm; congruence]. Qed.

#[global] Instance add_proper : Proper (eqm ==> eqm ==> eqm) Z.add.
Proof. intros a a' Ha b b' Hb. apply eqm_iff in Ha, Hb. apply eqm_iff. rewrite (Z.add_mod a), (Z.add_mod a') by (unfold P32; lia). rewrite Ha, Hb. reflexivity. Qed.

#[global] Instance mul_proper : Proper (eqm ==> eqm ==> eqm) Z.mul.
Proof. intros a a' Ha b b' Hb. apply eqm_iff in Ha, Hb. apply eqm_iff. rewrite (Z.mul_mod a), (Z.mul_mod a') by (unfold P32; lia). rewrite Ha, Hb. reflexivity. Qed.

Lemma mod_P32_land x : x mod P32 = Z.land x (Z.ones 32).
Proof. rewrite Z.land_ones by lia. reflexivity. Qed.

Lemma land_lxor_distr a b c : Z.land (Z.lxor a b) c = Z.lxor (Z.land a c) (Z.land b c).
Proof. apply Z.bits_inj'. intros n _. rewrite !Z.land_spec, !Z.lxor_spec, !Z.land_spec.
  destruct (Z.testbit a n), (Z.testbit b n), (Z.testbit c n); reflexivity. Qed.

#[global] Instance lxor_proper : Proper (eqm ==> eqm ==> eqm) Z.lxor.
Proof. intros a a' Ha b b' Hb. apply eqm_iff in Ha, Hb. apply eqm_iff. rewrite !mod_P32_land in *.
  rewrite !land_lxor_distr. rewrite Ha, Hb. reflexivity. Qed.

#[global] Instance ushr_proper : Proper (eqm ==> eq ==> eq) ushr.
Proof. intros a a' Ha n n' <-. unfold ushr. apply eqm_iff in Ha. unfold P32 in Ha. rewrite Ha. reflexivity. Qed.

Lemma wrap_eqm x : eqm (wrap x) x.
Proof. apply eqm_iff. unfold wrap, P32.
  replace ((x + 0x80000000) mod 0x100000000 - 0x80000000)
    with ((x + 0x80000000) mod 0x100000000 + (-0x80000000)) by lia.
  rewrite Z.add_mod by lia. rewrite Z.mod_mod by lia. rewrite <- Z.add_mod by lia.
  f_equal. lia. Qed.

Lemma mask_eqm x : eqm (mask32 x) x.
Proof. apply eqm_iff. unfold mask32, M32. change 0xFFFFFFFF with (Z.ones 32).
  rewrite Z.land_ones by lia. apply Z.mod_mod. unfold P32; lia. Qed.

#[global] Instance wrap_proper : Proper (eqm ==> eqm) wrap.
Proof. intros a b H. rewrite !wrap_eqm. exact H. Qed.
#[global] Instance mask_proper : Proper (eqm ==> eqm) mask32.
Proof. intros a b H. rewrite !mask_eqm. exact H. Qed.

Lemma mask32_reduced x : mask32 x mod P32 = mask32 x.
Proof. unfold mask32, M32. change 0xFFFFFFFF with (Z.ones 32). rewrite Z.land_ones by lia.
  apply Z.mod_mod. unfold P32; lia. Qed.

Lemma land_sbyte b : is_byte b = true -> Z.land (sbyte b) 255 = Z.land b 255.
Proof. unfold is_byte, sbyte. intro H. apply andb_prop in H. destruct H as [H0 H1].
  apply Z.leb_le in H0. apply Z.ltb_lt in H1.
  change 255 with (Z.ones 8). rewrite !Z.land_ones by lia.
  destruct (b <? 128); [reflexivity|].
  replace (b - 256) with (b + (-1) * 2 ^ 8) by lia. apply Z.mod_add. lia. Qed.



Lemma JM_eqm : eqm JM MM. Proof. apply wrap_eqm. Qed.
Lemma JSEED_eqm : eqm JSEED SEED. Proof. apply wrap_eqm. Qed.

Lemma jmul_eqm a b a' b' : eqm a a' -> eqm b b' -> eqm (jmul a b) (mask32 (a' * b')).
Proof. intros Ha Hb. unfold jmul. rewrite wrap_eqm, mask_eqm. apply mul_proper; assumption. Qed.

Lemma jmulM_eqm a a' : eqm a a' -> eqm (jmul a JM) (mask32 (a' * MM)).
Proof. intro H. apply jmul_eqm; [exact H | apply JM_eqm]. Qed.

Lemma lxor_m a b a' b' : eqm a a' -> eqm b b' -> eqm (Z.lxor a b) (mask32 (Z.lxor a' b')).
Proof. intros Ha Hb. rewrite mask_eqm. apply lxor_proper; assumption. Qed.

Lemma lxor_ushr_m a a' n : eqm a a' -> eqm (Z.lxor a (jushr a n)) (mask32 (Z.lxor a' (ushr a' n))).
Proof. intro H. apply lxor_m; [exact H|]. unfold jushr. rewrite wrap_eqm.
  rewrite (ushr_proper _ _ H n n eq_refl). reflexivity. Qed.

Lemma k0_eqm x0 x1 x2 x3 :
  eqm (jadd (jadd (jadd x0 (jshl x1 8)) (jshl x2 16)) (jshl x3 24))
      (mask32 (x0 + Z.shiftl x1 8 + Z.shiftl x2 16 + Z.shiftl x3 24)).
Proof. unfold jadd, jshl. rewrite mask_eqm. rewrite wrap_eqm.
  apply add_proper; [|apply wrap_eqm]. rewrite wrap_eqm.
  apply add_proper; [|apply wrap_eqm]. rewrite wrap_eqm.
  apply add_proper; [reflexivity|apply wrap_eqm]. Qed.

Lemma jshl_byte_m b n : is_byte b = true -> eqm (jshl (Z.land (sbyte b) 255) n) (Z.shiftl (Z.land b 255) n).
Proof. intro H. unfold jshl. rewrite wrap_eqm, land_sbyte by exact H. reflexivity. Qed.

Lemma byte_m b : is_byte b = true -> eqm (Z.land (sbyte b) 255) (Z.land b 255).
Proof. intro H. rewrite land_sbyte by exact H. reflexivity. Qed.

Lemma jmix_eqm h h' b0 b1 b2 b3 :
  eqm h h' -> is_byte b0 = true -> is_byte b1 = true -> is_byte b2 = true -> is_byte b3 = true ->
  eqm (jmix h (sbyte b0) (sbyte b1) (sbyte b2) (sbyte b3)) (mix_block h' b0 b1 b2 b3).
Proof.
  intros Hh H0 H1 H2 H3. unfold jmix, mix_block.
  rewrite !land_sbyte by assumption.
  apply lxor_m; [apply jmulM_eqm; exact Hh|].
  apply jmulM_eqm. apply lxor_ushr_m. apply jmulM_eqm. apply k0_eqm.
Qed.

Lemma is_byte_forall l : bytes_ok l = true -> Forall (fun b => is_byte b = true) l.
Proof. unfold bytes_ok. intro H. apply Forall_forall. apply forallb_forall. exact H. Qed.

Lemma jblocks_eqm : forall n l h h', (length l <= n)%nat -> bytes_ok l = true -> eqm h h' ->
  eqm (jblocks h (map sbyte l)) (blocks h' l).
Proof.
  induction n as [|n IH]; intros l h h' Hn Hb Hh.
  - destruct l; [exact Hh | simpl in Hn; lia].
  - destruct l as [|b0 [|b1 [|b2 [|b3 r]]]]; cbn [map jblocks blocks].
    + exact Hh.
    + cbn [bytes_ok forallb] in Hb. rewrite andb_true_r in Hb.
      apply jmulM_eqm. apply lxor_m; [exact Hh | apply byte_m; exact Hb].
    + cbn [bytes_ok forallb] in Hb. rewrite andb_true_r in Hb. apply andb_prop in Hb. destruct Hb as [B0 B1].
      apply jmulM_eqm. apply lxor_m; [|apply byte_m; exact B0].
      apply lxor_m; [exact Hh | apply jshl_byte_m; exact B1].
    + cbn [bytes_ok forallb] in Hb. rewrite andb_true_r in Hb.
      apply andb_prop in Hb. destruct Hb as [B0 Hb]. apply andb_prop in Hb. destruct Hb as [B1 B2].
      apply jmulM_eqm. apply lxor_m; [|apply byte_m; exact B0].
      apply lxor_m; [|apply jshl_byte_m; exact B1].
      apply lxor_m; [exact Hh | apply jshl_byte_m; exact B2].
    + cbn [bytes_ok forallb] in Hb.
      apply andb_prop in Hb. destruct Hb as [B0 Hb]. apply andb_prop in Hb. destruct Hb as [B1 Hb].
      apply andb_prop in Hb. destruct Hb as [B2 Hb]. apply andb_prop in Hb. destruct Hb as [B3 Hb].
      apply IH; [simpl in Hn; lia | exact Hb | apply jmix_eqm; assumption].
Qed.

Lemma murmur2_java_eqm data : bytes_ok data = true ->
  eqm (murmur2_java (map sbyte data)) (pure_murmur2 data).
Proof.
  intro Hb. unfold murmur2_java, pure_murmur2, pure_murmur2_seed, fmix.
  rewrite map_length.
  apply lxor_ushr_m. apply jmulM_eqm. apply lxor_ushr_m.
  apply (jblocks_eqm (length data)); [lia | exact Hb |].
  apply lxor_proper; [apply JSEED_eqm | reflexivity].
Qed.

Lemma pure_murmur2_reduced data : pure_murmur2 data mod P32 = pure_murmur2 data.
Proof. unfold pure_murmur2, pure_murmur2_seed, fmix. apply mask32_reduced. Qed.

Lemma murmur_java_agree data : bytes_ok data = true ->
  murmur2_java (map sbyte data) mod 0x100000000 = pure_murmur2 data.
Proof. intro H. pose proof (murmur2_java_eqm data H) as E. apply eqm_iff in E.
  unfold P32 in E. rewrite E. apply pure_murmur2_reduced. Qed.

(* Java's result is a genuine int32 *)
Lemma wrap_range x : -0x80000000 <= wrap x < 0x80000000.
Proof. unfold wrap. pose proof (Z.mod_pos_bound (x + 0x80000000) 0x100000000). lia. Qed.

Lemma land_pos_mod x : Z.land x 0x7FFFFFFF = Z.land (x mod 0x100000000) 0x7FFFFFFF.
Proof. change 0x7FFFFFFF with (Z.ones 31). rewrite !Z.land_ones by lia.
  change 0x100000000 with (2^31 * 2). rewrite Z.rem_mul_r by lia.
  rewrite Z.mul_comm, Z.mod_add by lia. rewrite Z.mod_mod by lia. reflexivity. Qed.

Lemma partition_java_agree key n : bytes_ok key = true ->
  hashed_index key n = java_partition (map sbyte key) n.
Proof. intro H. unfold hashed_index, java_partition.
  rewrite (land_pos_mod (murmur2_java _)). rewrite murmur_java_agree by exact H. reflexivity. Qed.
