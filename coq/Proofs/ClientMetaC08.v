(* C08: invalidation by answers / failed sends, re-resolution, and the bounded-recovery step, stated on the
   operations of Model/ClientRoute.v. *)
From AV Require Import Base.Util Model.ClientMeta Model.ClientRoute Proofs.ClientMetaDict Proofs.ClientMetaFacts
  Proofs.ClientRouteWF Proofs.ClientRouteFacts.
From Coq Require Import Lia.

Lemma handle_responses_out : forall rs st group fail acc st' out,
  handle_responses st group fail rs acc = (st', HOk out) -> out = rev acc ++ rs.
Proof.
  induction rs as [|r rest IH]; intros st group fail acc st' out H; simpl in H.
  - inversion H; subst. rewrite app_nil_r. reflexivity.
  - assert (Hc : forall st1, handle_responses st1 group fail rest (r :: acc) = (st', HOk out) -> out = rev acc ++ r :: rest).
    { intros st1 H1. apply IH in H1. rewrite H1. simpl. rewrite <- app_assoc. reflexivity. }
    destruct (r_err r =? 0); [eapply Hc; exact H|].
    destruct (is_topic_err (r_err r)).
    + destruct fail; [discriminate|eapply Hc; exact H].
    + destruct (is_group_err (r_err r)).
      * destruct group; [|discriminate]. destruct fail; [discriminate|eapply Hc; exact H].
      * destruct fail; [discriminate|eapply Hc; exact H].
Qed.

Definition all_cleared (st : state) : Prop :=
  (forall k, leader_of st k = None) /\ (forall g, zget g (s_g2c st) = None) /\
  (forall t, has_metadata_for_topic st t = false).

Lemma reset_all_cleared : forall st, all_cleared (reset_all st).
Proof. intro st. repeat split. Qed.

(* what a public send_*_request leaves behind *)
Lemma send_public_invalidates : forall st group fail expect ps loads outs r st' res,
  WF st -> send_public st group fail expect ps loads outs = (r, st', res) ->
  match res with
  | POk out =>
      (forall x, In x out -> is_topic_err (r_err x) = true -> cleared (r_topic x) st') /\
      (forall x g, In x out -> is_group_err (r_err x) = true -> group = Some g -> zget g (s_g2c st') = None)
  | PRaise e =>
      fail = true /\ e <> 0 /\ exists rs x, a_res r = SOk rs /\ In x rs /\ r_err x = e /\
        (is_topic_err e = true -> cleared (r_topic x) st') /\
        (forall g, is_group_err e = true -> group = Some g -> zget g (s_g2c st') = None)
  | PFailed _ _ => all_cleared st'
  | PType => group = None
  | PErr _ => True
  end.
Proof.
  intros st group fail expect ps loads outs r st' res Hwf H. unfold send_public in H.
  pose proof (aware_WF st group expect ps loads outs Hwf) as W1.
  remember (aware st group expect ps loads outs) as ar eqn:Ear.
  destruct (a_res ar) as [rs|rs f|e] eqn:Eres.
  - destruct (handle_responses (a_state ar) group fail rs []) as [st2 hr] eqn:Eh.
    destruct (handle_responses_facts _ _ _ _ _ _ _ W1 Eh) as [_ [_ [_ [_ [_ [_ Hres]]]]]].
    destruct hr as [out|e|]; inversion H; subst r st' res.
    + apply handle_responses_out in Eh. simpl in Eh. subst out. exact Hres.
    + destruct Hres as [Hf [x [Hin [He [Hne [Ht Hg]]]]]]. split; [exact Hf|]. split; [exact Hne|].
      exists rs, x. rewrite Eres. split; [reflexivity|]. split; [exact Hin|]. split; [exact He|]. split; [exact Ht|exact Hg].
    + exact Hres.
  - inversion H; subst r st' res.
    (* SFailed is only produced with the state reset_all *)
    clear - Ear Eres. unfold aware in Ear.
    destruct ps as [|p0 ps0]; [subst ar; discriminate|].
    destruct (resolve_loop st group (p0 :: ps0) loads [] []) as [[st1 evs] [resolved|e]]; [|subst ar; discriminate].
    destruct (send_requests st1 _ outs []) as [[st2 sent] [e|]]; [subst ar; discriminate|].
    destruct (collect expect _ _ [] []) as [acc failed].
    destruct failed; subst ar; simpl in *; [discriminate|apply reset_all_cleared].
  - inversion H; subst. exact I.
Qed.

(* a cleared (or leaderless) partition makes the next resolution issue a metadata request for its topic *)
Lemma resolve_leader_reloads : forall st p u r loads st1 log gone res,
  (leader_of st (p_key p) = None \/ leader_of st (p_key p) = Some None) ->
  load_metadata st false u r = (st1, log, gone, res) ->
  exists out,
    resolve_leader st p (LoadMeta u r :: loads) =
      (st1, loads, [{| le_kind := 0; le_id := p_topic p; le_log := log; le_gone := gone; le_res := lres_code res |}], out).
Proof.
  intros st p u r loads st1 log gone res Hl Hm. unfold resolve_leader.
  destruct Hl as [Hl|Hl]; rewrite Hl, Hm; destruct res; try (eexists; reflexivity);
    destruct (leader_of st1 (p_key p)) as [[bm|]|]; eexists; reflexivity.
Qed.

(* a cached leader is used without any request *)
Lemma resolve_leader_cached : forall st p loads bm,
  leader_of st (p_key p) = Some (Some bm) -> resolve_leader st p loads = (st, loads, [], inl (fst bm)).
Proof. intros st p loads bm H. unfold resolve_leader. rewrite H. cbv beta iota zeta. rewrite H. reflexivity. Qed.

(* bounded recovery, the step after the invalidation: the metadata request is answered (by whichever
   broker or bootstrap host), truthfully names leader l for the partition => this very resolution returns
   l, the cache names l at the address the response gave *)
Lemma recovery_step : forall st p u r loads st1 log err parts l,
  WF st -> (leader_of st (p_key p) = None \/ leader_of st (p_key p) = Some None) ->
  unaware st u = (st1, log, UOk) ->
  leaders_known (norm_resp r) = true ->
  In (p_topic p, (err, parts)) (n_topics (norm_resp r)) -> In (p_part p, l) parts -> l <> -1 ->
  exists st2 ev a,
    resolve_leader st p (LoadMeta u r :: loads) = (st2, loads, [ev], inl l) /\
    le_kind ev = 0 /\ le_id ev = p_topic p /\ le_log ev = log /\ le_res ev = 1 /\
    leader_of st2 (p_key p) = Some (Some (l, a)) /\ In (l, a) (n_brokers (norm_resp r)) /\
    zget l (s_brokers st2) = Some a /\ WF st2.
Proof.
  intros st p u r loads st1 log err parts l Hwf Hl Hu Hk Ht Hp Hne.
  pose proof (unaware_WF _ _ _ _ _ Hwf Hu) as W1.
  assert (Hrw : resp_wf (norm_resp r) = true).
  { unfold resp_wf. rewrite norm_resp_keys_unique, Hk. reflexivity. }
  destruct (merge st1 (norm_resp r) false) as [[st2 gone] ok] eqn:Em.
  destruct (merge_exact _ _ _ _ _ _ W1 Hrw Em) as [Hok [Hb Hex]]. subst ok.
  destruct (Hex _ _ _ Ht) as [[_ [_ [Hlead _]]] _].
  destruct (Hlead _ _ Hp) as [v [Hv Hg]].
  unfold leader_val in Hv. replace (l =? -1) with false in Hv by (symmetry; apply Z.eqb_neq; exact Hne).
  destruct (zget l (n_brokers (norm_resp r))) as [a|] eqn:Ea; [|discriminate]. inversion Hv; subst v.
  assert (Hin : In (l, a) (n_brokers (norm_resp r))) by (apply (dget_some_in Z.eqb Z.eqb_eq); exact Ea).
  assert (Hm : load_metadata st false u r = (st2, log, gone, LTrue)).
  { unfold load_metadata. rewrite Hu, Em. reflexivity. }
  destruct (resolve_leader_reloads st p u r loads _ _ _ _ Hl Hm) as [out Hr].
  assert (Hout : out = inl l).
  { unfold resolve_leader in Hr. destruct Hl as [Hl|Hl]; rewrite Hl, Hm in Hr;
      unfold leader_of in Hr; destruct p as [pt pp ptag]; unfold p_key in *; simpl in *; rewrite Hg in Hr;
      inversion Hr; reflexivity. }
  subst out. eexists st2, _, a. split; [exact Hr|]. simpl.
  split; [reflexivity|]. split; [reflexivity|]. split; [reflexivity|]. split; [reflexivity|].
  split; [destruct p; exact Hg|]. split; [exact Hin|]. split; [apply Hb; exact Hin|].
  pose proof (merge_WF st1 (norm_resp r) false W1) as W2. rewrite Em in W2. exact W2.
Qed.

(* where the next request for node n goes: an unconnected broker client connects to the address the cache
   has for the node, i.e. (by merge_exact) the one the latest response covering the node gave *)
Lemma request_on_addr : forall st n st2 a,
  WF st -> request_on st n = Some (st2, a) -> connected st n = false -> zget n (s_brokers st) = Some a.
Proof.
  intros st n st2 a [_ [_ [_ Hcl]]] H Hc. apply request_on_facts in H.
  destruct H as [_ [_ [_ [_ [_ [_ [_ [_ [c [_ [_ Hm]]]]]]]]]]]. unfold connected in Hc.
  destruct (zget n (s_clients st)) as [c0|] eqn:E0.
  - destruct Hm as [_ Ha]. destruct (c_conn c0); [discriminate|]. subst a. apply Hcl. exact E0.
  - tauto.
Qed.

(* a connected broker client keeps using its live connection (brokerclient.py:148-165: updateMetadata does
   not touch it) *)
Lemma request_on_live : forall st n st2 a c x,
  request_on st n = Some (st2, a) -> zget n (s_clients st) = Some c -> c_conn c = Some x -> a = x.
Proof.
  intros st n st2 a c x H Hc Hx. apply request_on_facts in H.
  destruct H as [_ [_ [_ [_ [_ [_ [_ [_ [c1 [_ [_ Hm]]]]]]]]]]]. rewrite Hc in Hm. destruct Hm as [_ Ha].
  rewrite Hx in Ha. exact Ha.
Qed.

(* ---- _send_request_to_coordinator (client.py _send_request_to_coordinator) ----------------------- *)
(* a coordinator error (14, 15, 16) in the answer clears the cached coordinator of the group, a NotLeader /
   UnknownTopic answer clears the answer's topic *)
Lemma send_coord_invalidates : forall st g p loads o r st' e,
  WF st -> send_coord st g p loads o = (r, st', PRaise e) ->
  e <> 0 /\ (is_group_err e = true -> zget g (s_g2c st') = None) /\
  (is_topic_err e = true -> exists x, a_res r = SOk [x] /\ r_err x = e /\ cleared (r_topic x) st').
Proof.
  intros st g p loads o r st' e Hwf H. unfold send_coord in H.
  destruct (resolve_coord st g loads) as [[[st1 loads1] evs] [n|e0]] eqn:Er; [|inversion H].
  pose proof (resolve_coord_WF _ _ _ _ _ _ _ Hwf Er) as W1.
  destruct (s_closed st1); [inversion H|].
  destruct (request_on st1 n) as [[st2 a]|] eqn:Eq; [|inversion H].
  pose proof (request_on_WF _ _ _ _ W1 Eq) as W2.
  destruct o as [|[|r0 rs]]; try (inversion H; fail).
  destruct (handle_responses st2 (Some g) true [r0] []) as [st3 hr] eqn:Eh.
  destruct (handle_responses_facts _ _ _ _ _ _ _ W2 Eh) as [_ [_ [_ [_ [_ [_ Hres]]]]]].
  destruct hr as [out|e1|]; inversion H; subst.
  destruct Hres as [_ [x [Hin [He [Hne [Ht Hg]]]]]]. destruct Hin as [<-|[]].
  split; [exact Hne|]. split; [intro Hge; apply Hg; [exact Hge|reflexivity]|].
  intro Hte. exists r0. split; [reflexivity|]. split; [exact He|]. apply Ht. exact Hte.
Qed.

(* DOCUMENTED DEVIATION from "a failed send invalidates the cached routing": when the request to the
   coordinator fails (time-out, connection never up), _send_request_to_coordinator lets the failure propagate
   and the cached coordinator - the very node the failed request was sent to - stays cached. *)
Lemma send_coord_failed_keeps : forall st g p loads r st' res q,
  send_coord st g p loads RFail = (r, st', res) -> In q (a_reqs r) ->
  res = PErr ETimedOut /\ exists a, zget g (s_g2c st') = Some (rq_node q, a).
Proof.
  intros st g p loads r st' res q H Hq. unfold send_coord in H.
  destruct (resolve_coord st g loads) as [[[st1 loads1] evs] [n|e0]] eqn:Er; [|inversion H; subst; destruct Hq].
  destruct (ClientRouteFacts.resolve_coord_ok _ _ _ _ _ _ _ Er) as [a0 Ha0].
  destruct (s_closed st1); [inversion H; subst; destruct Hq|].
  destruct (request_on st1 n) as [[st2 a]|] eqn:Eq; [|inversion H; subst; destruct Hq].
  inversion H; subst. simpl in Hq. destruct Hq as [<-|[]]. simpl. split; [reflexivity|].
  apply request_on_facts in Eq. destruct Eq as [_ [_ [_ [_ [Eg _]]]]]. rewrite Eg. exists a0. exact Ha0.
Qed.

(* ---- the broker table only grows: nodes a response does not name keep their address ---------------- *)
Lemma merge_brokers_frame : forall st nr full st' gone ok n,
  NoDup (map fst (n_brokers nr)) -> merge st nr full = (st', gone, ok) -> ~ In n (map fst (n_brokers nr)) ->
  zget n (s_brokers st') = zget n (s_brokers st).
Proof.
  intros st nr full st' gone ok n Nb Hm Hn. rewrite merge_eq in Hm. inversion Hm; subst; clear Hm.
  set (rm := full && negb (is_nil (n_brokers nr))).
  destruct (merge_topics_fields (n_brokers nr) (n_topics nr) (fst (update_brokers st (n_brokers nr) rm))) as [Eb _].
  rewrite Eb. destruct (update_brokers_fields st (n_brokers nr) rm) as [Eb2 _]. rewrite Eb2.
  rewrite (by_id_of_nodup _ Nb), zget_dupdate by exact Nb.
  replace (zget n (n_brokers nr)) with (@None addr); [reflexivity|].
  symmetry. apply (dget_none_notin Z.eqb Z.eqb_eq). exact Hn.
Qed.

(* ---- what the lookups of a call ask for ---------------------------------------------------------- *)
(* every lookup a broker-aware call performs is a metadata request for the topic of one of ITS payloads (a
   coordinator request for ITS group); [le_kind; le_id] are part of the trace compared with the implementation,
   where they are parsed from the request on the wire *)
Definition asks (group : option Z) (ps : list payload) (e : loadev) : Prop :=
  match group with
  | None => le_kind e = 0 /\ exists p, In p ps /\ le_id e = p_topic p
  | Some g => le_kind e = 1 /\ le_id e = g
  end.

Lemma resolve_leader_asks : forall st p loads st' loads' evs res,
  resolve_leader st p loads = (st', loads', evs, res) -> Forall (fun e => le_kind e = 0 /\ le_id e = p_topic p) evs.
Proof.
  intros st p loads st' loads' evs res H. unfold resolve_leader in H.
  assert (Hfin : forall s1 (l1 : list load) (e1 : list loadev) (err : option ekind),
            Forall (fun e => le_kind e = 0 /\ le_id e = p_topic p) e1 ->
            match err with
            | Some e => (s1, l1, e1, inr e)
            | None => match leader_of s1 (p_key p) with
                      | None => (s1, l1, e1, inr EPartitionUnavailable)
                      | Some None => (s1, l1, e1, inr ELeaderUnavailable)
                      | Some (Some bm) => (s1, l1, e1, inl (fst bm))
                      end
            end = (st', loads', evs, res) -> Forall (fun e => le_kind e = 0 /\ le_id e = p_topic p) evs).
  { intros s1 l1 e1 err F1 H1. destruct err; [inversion H1; subst; exact F1|].
    destruct (leader_of s1 (p_key p)) as [[bm|]|]; inversion H1; subst; exact F1. }
  assert (Hone : forall lg gn rc, Forall (fun e => le_kind e = 0 /\ le_id e = p_topic p)
                   [{| le_kind := 0; le_id := p_topic p; le_log := lg; le_gone := gn; le_res := rc |}]).
  { intros. constructor; [split; reflexivity|constructor]. }
  destruct (leader_of st (p_key p)) as [[bm|]|].
  - exact (Hfin st loads [] None (Forall_nil _) H).
  - destruct loads as [|[u r|u c] loads0]; try exact (Hfin st _ [] (Some EScript) (Forall_nil _) H).
    destruct (load_metadata st false u r) as [[[s1 log1] gone1] res1].
    destruct res1; first [exact (Hfin s1 _ _ None (Hone _ _ _) H) | exact (Hfin s1 _ _ (Some _) (Hone _ _ _) H)].
  - destruct loads as [|[u r|u c] loads0]; try exact (Hfin st _ [] (Some EScript) (Forall_nil _) H).
    destruct (load_metadata st false u r) as [[[s1 log1] gone1] res1].
    destruct res1; first [exact (Hfin s1 _ _ None (Hone _ _ _) H) | exact (Hfin s1 _ _ (Some _) (Hone _ _ _) H)].
Qed.

Lemma resolve_coord_asks : forall st g loads st' loads' evs res,
  resolve_coord st g loads = (st', loads', evs, res) -> Forall (fun e => le_kind e = 1 /\ le_id e = g) evs.
Proof.
  intros st g loads st' loads' evs res H. unfold resolve_coord in H.
  destruct (dget Z.eqb g (s_g2c st)); [inversion H; constructor|].
  destruct loads as [|[u r|u c] loads0]; try (inversion H; constructor).
  destruct (load_coordinator st g u c) as [[s1 log1] ok].
  destruct ok; [destruct (dget Z.eqb g (s_g2c s1))|]; inversion H; subst; (constructor; [split; reflexivity|constructor]).
Qed.

Lemma resolve_loop_asks : forall ps all st group loads acc evs st' evs' res,
  (forall p, In p ps -> In p all) -> Forall (asks group all) evs ->
  resolve_loop st group ps loads acc evs = (st', evs', res) -> Forall (asks group all) evs'.
Proof.
  induction ps as [|p rest IH]; intros all st group loads acc evs st' evs' res Hsub Hev H; simpl in H.
  - inversion H; subst. exact Hev.
  - assert (Hnew : forall s1 l1 ev r1, resolve_one st group p loads = (s1, l1, ev, r1) -> Forall (asks group all) (evs ++ ev)).
    { intros s1 l1 ev r1 E. apply Forall_app. split; [exact Hev|]. destruct group as [g|]; simpl in E.
      - apply resolve_coord_asks in E. exact E.
      - apply resolve_leader_asks in E. eapply Forall_impl; [|exact E]. intros e [Hk Hi]. split; [exact Hk|].
        exists p. split; [apply Hsub; left; reflexivity|exact Hi]. }
    destruct (resolve_one st group p loads) as [[[st1 loads1] ev] [n|e]] eqn:Er.
    + eapply IH; [|eapply Hnew; reflexivity|exact H]. intros q Hq. apply Hsub. right. exact Hq.
    + inversion H; subst. eapply Hnew. reflexivity.
Qed.

Lemma aware_loads_ask : forall st group expect ps loads outs,
  Forall (asks group ps) (a_loads (aware st group expect ps loads outs)).
Proof.
  intros st group expect ps loads outs. unfold aware. destruct ps as [|p0 ps0]; [constructor|].
  destruct (resolve_loop st group (p0 :: ps0) loads [] []) as [[st1 evs] res] eqn:Er.
  assert (Hev : Forall (asks group (p0 :: ps0)) evs).
  { eapply resolve_loop_asks; [|constructor|exact Er]. auto. }
  destruct res as [resolved|e]; [|exact Hev].
  destruct (send_requests st1 _ outs []) as [[st2 sent] [e|]]; [exact Hev|].
  destruct (collect expect _ _ [] []) as [acc failed]. destruct failed; exact Hev.
Qed.
