(* C07: the fall-back order of the broker-agnostic request machine (Model/ClientRoute.v [unaware]):
   known brokers first (connected ones ahead, stable), then the bootstrap hosts; every try but the last one
   failed; "unavailable" only after every known broker and every bootstrap host was tried and failed. *)
From AV Require Import Base.Util Model.ClientMeta Model.ClientRoute Proofs.ClientMetaDict Proofs.ClientMetaFacts.
From Coq Require Import Lia Permutation.

Definition tkey (t : target) : Z + addr := match t with TKnown n _ => inl n | TBoot a => inr a end.
Definition try_failed (o : tout) : bool :=
  match o with OK_ KResp => false | OB_ BResp => false | _ => true end.
Definition try_closed (o : tout) : bool :=
  match o with OK_ KClose => true | OB_ BCloseConn => true | OB_ BCloseReq => true | _ => false end.

(* ---- A. the boolean permutation test is sound -------------------------------------------------- *)
Lemma remove1_perm : forall {A} (eqb : A -> A -> bool), (forall a b, eqb a b = true <-> a = b) ->
  forall x l l', remove1 eqb x l = Some l' -> Permutation l (x :: l').
Proof.
  intros A eqb Heq x l. induction l as [|y r IH]; intros l' H; simpl in H; [discriminate|].
  destruct (eqb x y) eqn:E.
  - apply Heq in E. subst y. inversion H; subst l'. apply Permutation_refl.
  - destruct (remove1 eqb x r) as [r'|] eqn:Er; [|discriminate]. inversion H; subst l'.
    apply perm_trans with (y :: x :: r'); [|apply perm_swap].
    apply perm_skip. apply IH. reflexivity.
Qed.

Lemma perm_b_sound : forall {A} (eqb : A -> A -> bool), (forall a b, eqb a b = true <-> a = b) ->
  forall a b, perm_b eqb a b = true -> Permutation a b.
Proof.
  intros A eqb Heq a. induction a as [|x r IH]; intros b H; simpl in H.
  - destruct b; [apply perm_nil|discriminate].
  - destruct (remove1 eqb x b) as [b'|] eqn:Er; [|discriminate].
    apply Permutation_sym. apply perm_trans with (x :: b').
    + apply (remove1_perm eqb Heq). exact Er.
    + apply perm_skip. apply Permutation_sym. apply IH. exact H.
Qed.

(* ---- B. the stable "connected first" sort is a partition ---------------------------------------- *)
Lemma cinsert_part : forall key x T F,
  (forall y, In y T -> key y = true) -> (forall y, In y F -> key y = false) ->
  cinsert key x (T ++ F) = if key x then x :: T ++ F else T ++ x :: F.
Proof.
  intros key x T F HT HF. destruct (key x) eqn:Ex.
  - destruct (T ++ F) as [|y l]; simpl; [reflexivity|]. rewrite Ex. destruct (key y); reflexivity.
  - induction T as [|y T' IH]; simpl.
    + destruct F as [|z F']; simpl; [reflexivity|]. rewrite Ex. rewrite (HF z) by (left; reflexivity). reflexivity.
    + rewrite Ex. rewrite (HT y) by (left; reflexivity). simpl. f_equal. apply IH.
      intros z Hz. apply HT. right. exact Hz.
Qed.

Lemma csort_partition : forall key l, csort key l = filter key l ++ filter (fun x => negb (key x)) l.
Proof.
  intros key l. unfold csort. induction l as [|x r IH]; simpl; [reflexivity|].
  rewrite IH. rewrite cinsert_part.
  - destruct (key x); reflexivity.
  - intros y Hy. apply filter_In in Hy. apply Hy.
  - intros y Hy. apply filter_In in Hy. destruct Hy as [_ Hy]. destruct (key y); [discriminate|reflexivity].
Qed.

Lemma filter_partition_perm : forall {A} (f : A -> bool) l,
  Permutation (filter f l ++ filter (fun x => negb (f x)) l) l.
Proof.
  intros A f l. induction l as [|x r IH]; simpl; [apply perm_nil|].
  destruct (f x); simpl.
  - apply perm_skip. exact IH.
  - apply Permutation_sym. apply Permutation_cons_app. apply Permutation_sym. exact IH.
Qed.

Lemma csort_perm : forall key l, Permutation (csort key l) l.
Proof. intros key l. rewrite csort_partition. apply filter_partition_perm. Qed.

(* ---- C. the two loops --------------------------------------------------------------------------- *)
Lemma close_client_boot : forall st, s_boot (close_early st) = s_boot st.
Proof. reflexivity. Qed.
Lemma close_client_closed : forall st, s_closed (close_early st) = true.
Proof. reflexivity. Qed.

Lemma known_loop_closed : forall st order outs log, s_closed st = true ->
  known_loop st order outs log = (st, log, match order with [] => None | _ => Some UClientError end).
Proof. intros st order outs log H. destruct order; simpl; [reflexivity|]. rewrite H. reflexivity. Qed.

Lemma boot_loop_closed : forall st hosts outs log, s_closed st = true ->
  boot_loop st hosts outs log = (st, log, UCancelled).
Proof. intros st hosts outs log H. destruct hosts; simpl; rewrite H; reflexivity. Qed.

Lemma In_removelast_cons : forall {A} (x e : A) l, In x (removelast (e :: l)) -> x = e \/ In x (removelast l).
Proof.
  intros A x e l H. destruct l as [|y l']; [simpl in H; contradiction|].
  change (removelast (e :: y :: l')) with (e :: removelast (y :: l')) in H.
  destruct H as [H|H]; [left; symmetry; exact H|right; exact H].
Qed.

Lemma In_removelast_in : forall {A} (x : A) l, In x (removelast l) -> In x l.
Proof.
  intros A x l. induction l as [|e l' IH]; intro H; [exact H|].
  apply In_removelast_cons in H. destruct H as [H|H]; [left; symmetry; exact H|right; apply IH; exact H].
Qed.

Lemma known_loop_boot : forall order st outs log0 st' log' r,
  known_loop st order outs log0 = (st', log', r) -> s_boot st' = s_boot st.
Proof.
  induction order as [|n rest IH]; intros st outs log0 st' log' r H; simpl in H.
  - inversion H; reflexivity.
  - destruct (s_closed st); [inversion H; reflexivity|].
    destruct outs as [|o outs']; [inversion H; reflexivity|].
    destruct (request_on st n) as [[st1 a]|] eqn:Er; [|inversion H; reflexivity].
    destruct (request_on_facts st n st1 a Er) as [_ [_ [_ [_ [_ [Eb _]]]]]].
    destruct o.
    + apply IH in H. congruence.
    + inversion H; subst. exact Eb.
    + apply IH in H. rewrite H. exact Eb.
Qed.

(* the results [known_loop] can give *)
Lemma known_loop_res : forall order st outs log0 st' log' x,
  known_loop st order outs log0 = (st', log', Some x) ->
  x = UOk \/ x = UClientError \/ x = UKeyError \/ x = UScript.
Proof.
  induction order as [|n rest IH]; intros st outs log0 st' log' x H; simpl in H.
  - inversion H.
  - destruct (s_closed st); [inversion H; auto|].
    destruct outs as [|o outs']; [inversion H; auto|].
    destruct (request_on st n) as [[st1 a]|] eqn:Er; [|inversion H; auto].
    destruct o.
    + eapply IH; exact H.
    + inversion H; auto.
    + eapply IH; exact H.
Qed.

Lemma known_loop_log : forall order st outs log0 st' log' r,
  known_loop st order outs log0 = (st', log', r) ->
  exists tries, log' = log0 ++ tries /\
  exists k, (k <= length order)%nat /\
    map (fun e => tkey (fst e)) tries = map inl (firstn k order) /\
    (forall e, In e (removelast tries) -> try_failed (snd e) = true) /\
    (r = Some UOk -> exists pre n a, tries = pre ++ [(TKnown n a, OK_ KResp)]) /\
    (r = None -> k = length order /\ forall e, In e tries -> try_failed (snd e) = true) /\
    (s_closed st = false -> s_closed st' = true -> exists e, In e tries /\ try_closed (snd e) = true) /\
    (s_closed st' = false -> forall e, In e tries -> try_closed (snd e) = false).
Proof.
  induction order as [|n rest IH]; intros st outs log0 st' log' r H; simpl in H.
  - inversion H; subst. exists []. split; [symmetry; apply app_nil_r|]. exists 0%nat.
    split; [simpl; lia|]. split; [reflexivity|]. split; [intros e []|]. split; [discriminate|].
    split; [intros _; split; [reflexivity|intros e []]|]. split; [congruence|intros _ e []].
  - destruct (s_closed st) eqn:Ecl.
    { inversion H; subst. exists []. split; [symmetry; apply app_nil_r|]. exists 0%nat.
      split; [simpl; lia|]. split; [reflexivity|]. split; [intros e []|]. split; [discriminate|].
      split; [discriminate|]. split; [discriminate|intros _ e []]. }
    destruct outs as [|o outs'].
    { inversion H; subst. exists []. split; [symmetry; apply app_nil_r|]. exists 0%nat.
      split; [simpl; lia|]. split; [reflexivity|]. split; [intros e []|]. split; [discriminate|].
      split; [discriminate|]. split; [congruence|intros _ e []]. }
    destruct (request_on st n) as [[st1 a]|] eqn:Er.
    2:{ inversion H; subst. exists []. split; [symmetry; apply app_nil_r|]. exists 0%nat.
      split; [simpl; lia|]. split; [reflexivity|]. split; [intros e []|]. split; [discriminate|].
      split; [discriminate|]. split; [congruence|intros _ e []]. }
    destruct (request_on_facts st n st1 a Er) as [_ [_ [_ [_ [_ [_ [Ec1 _]]]]]]].
    destruct o.
    + (* KFail *)
      destruct (IH _ _ _ _ _ _ H) as [tries [El [k [Hk [Hm [Hrl [Hok [Hnone [Hc1 Hc2]]]]]]]]].
      exists ((TKnown n a, OK_ KFail) :: tries). split; [rewrite El, <- app_assoc; reflexivity|].
      exists (S k). split; [simpl; lia|]. split; [simpl; rewrite Hm; reflexivity|].
      split.
      { intros e He. apply In_removelast_cons in He. destruct He as [->|He]; [reflexivity|apply Hrl; exact He]. }
      split.
      { intro Hr. destruct (Hok Hr) as [pre [n' [a' Ht]]]. exists ((TKnown n a, OK_ KFail) :: pre), n', a'.
        rewrite Ht. reflexivity. }
      split.
      { intro Hr. destruct (Hnone Hr) as [Hk' Hall]. split; [simpl; lia|].
        intros e [<-|He]; [reflexivity|apply Hall; exact He]. }
      split.
      { intros _ Hc. rewrite Ecl in Ec1. destruct (Hc1 Ec1 Hc) as [e [He1 He2]]. exists e. split; [right; exact He1|exact He2]. }
      { intros Hc e [<-|He]; [reflexivity|apply Hc2; assumption]. }
    + (* KResp *)
      inversion H; subst. exists [(TKnown n a, OK_ KResp)]. split; [reflexivity|]. exists 1%nat.
      split; [simpl; lia|]. split; [reflexivity|]. split; [intros e []|].
      split; [intros _; exists [], n, a; reflexivity|]. split; [discriminate|].
      split; [congruence|]. intros _ e [<-|[]]. reflexivity.
    + (* KClose *)
      rewrite known_loop_closed in H by apply close_client_closed. inversion H; subst.
      exists [(TKnown n a, OK_ KClose)]. split; [reflexivity|]. exists 1%nat.
      split; [simpl; lia|]. split; [reflexivity|]. split; [intros e []|].
      split; [destruct rest; discriminate|].
      split.
      { intro Hr. destruct rest; [|discriminate]. split; [reflexivity|]. intros e [<-|[]]. reflexivity. }
      split; [intros _ _; eexists; split; [left; reflexivity|reflexivity]|].
      simpl. discriminate.
Qed.

Lemma boot_loop_log : forall hosts st outs log0 st' log' r,
  boot_loop st hosts outs log0 = (st', log', r) ->
  exists tries, log' = log0 ++ tries /\
  exists b, (b <= length hosts)%nat /\
    map (fun e => tkey (fst e)) tries = map inr (firstn b hosts) /\
    (forall e, In e (removelast tries) -> try_failed (snd e) = true) /\
    (r = UOk -> exists pre a, tries = pre ++ [(TBoot a, OB_ BResp)]) /\
    (r = UUnavailable ->
       b = length hosts /\ s_closed st = false /\ s_closed st' = false /\
       forall e, In e tries -> try_failed (snd e) = true /\ try_closed (snd e) = false) /\
    (r = UCancelled -> s_closed st' = true).
Proof.
  induction hosts as [|h rest IH]; intros st outs log0 st' log' r H; simpl in H.
  - inversion H; subst. exists []. split; [symmetry; apply app_nil_r|]. exists 0%nat.
    split; [simpl; lia|]. split; [reflexivity|]. split; [intros e []|].
    destruct (s_closed st') eqn:Ecl.
    + split; [discriminate|]. split; [discriminate|]. reflexivity.
    + split; [discriminate|]. split; [|discriminate]. intros _. repeat split; try reflexivity; destruct H0.
  - destruct (s_closed st) eqn:Ecl.
    { inversion H; subst. exists []. split; [symmetry; apply app_nil_r|]. exists 0%nat.
      split; [simpl; lia|]. split; [reflexivity|]. split; [intros e []|].
      split; [discriminate|]. split; [discriminate|]. intros _. exact Ecl. }
    destruct outs as [|o outs'].
    { inversion H; subst. exists []. split; [symmetry; apply app_nil_r|]. exists 0%nat.
      split; [simpl; lia|]. split; [reflexivity|]. split; [intros e []|].
      split; [discriminate|]. split; discriminate. }
    assert (Hfail : forall o', (o' = BConnFail \/ o' = BReqFail) ->
      boot_loop st rest outs' (log0 ++ [(TBoot h, OB_ o')]) = (st', log', r) ->
      exists tries, log' = log0 ++ tries /\
      exists b, (b <= length (h :: rest))%nat /\
        map (fun e => tkey (fst e)) tries = map inr (firstn b (h :: rest)) /\
        (forall e, In e (removelast tries) -> try_failed (snd e) = true) /\
        (r = UOk -> exists pre a, tries = pre ++ [(TBoot a, OB_ BResp)]) /\
        (r = UUnavailable ->
           b = length (h :: rest) /\ false = false /\ s_closed st' = false /\
           forall e, In e tries -> try_failed (snd e) = true /\ try_closed (snd e) = false) /\
        (r = UCancelled -> s_closed st' = true)).
    { intros o' Ho' H'.
      assert (Ef : try_failed (OB_ o') = true /\ try_closed (OB_ o') = false) by (destruct Ho'; subst o'; split; reflexivity).
      destruct (IH _ _ _ _ _ _ H') as [tries [El [b [Hb [Hm [Hrl [Hok [Hun Hca]]]]]]]].
      exists ((TBoot h, OB_ o') :: tries). split; [rewrite El, <- app_assoc; reflexivity|].
      exists (S b). split; [simpl; lia|]. split; [simpl; rewrite Hm; reflexivity|].
      split.
      { intros e He. apply In_removelast_cons in He. destruct He as [->|He]; [apply Ef|apply Hrl; exact He]. }
      split.
      { intro Hr. destruct (Hok Hr) as [pre [a' Ht]]. exists ((TBoot h, OB_ o') :: pre), a'. rewrite Ht. reflexivity. }
      split; [|exact Hca].
      intro Hr. destruct (Hun Hr) as [Hb' [_ [Hc' Hall]]]. split; [simpl; lia|]. split; [reflexivity|].
      split; [exact Hc'|]. intros e [<-|He]; [exact Ef|apply Hall; exact He]. }
    assert (Hclose : forall o', (o' = BCloseConn \/ o' = BCloseReq) ->
      boot_loop (close_early st) rest outs' (log0 ++ [(TBoot h, OB_ o')]) = (st', log', r) ->
      exists tries, log' = log0 ++ tries /\
      exists b, (b <= length (h :: rest))%nat /\
        map (fun e => tkey (fst e)) tries = map inr (firstn b (h :: rest)) /\
        (forall e, In e (removelast tries) -> try_failed (snd e) = true) /\
        (r = UOk -> exists pre a, tries = pre ++ [(TBoot a, OB_ BResp)]) /\
        (r = UUnavailable ->
           b = length (h :: rest) /\ false = false /\ s_closed st' = false /\
           forall e, In e tries -> try_failed (snd e) = true /\ try_closed (snd e) = false) /\
        (r = UCancelled -> s_closed st' = true)).
    { intros o' Ho' H'. rewrite boot_loop_closed in H' by apply close_client_closed. inversion H'; subst.
      exists [(TBoot h, OB_ o')]. split; [reflexivity|]. exists 1%nat.
      split; [simpl; lia|]. split; [reflexivity|]. split; [intros e []|].
      split; [discriminate|]. split; [discriminate|]. intros _. reflexivity. }
    destruct o.
    + apply (Hfail BConnFail); [left; reflexivity|exact H].
    + apply (Hfail BReqFail); [right; reflexivity|exact H].
    + inversion H; subst. exists [(TBoot h, OB_ BResp)]. split; [reflexivity|]. exists 1%nat.
      split; [simpl; lia|]. split; [reflexivity|]. split; [intros e []|].
      split; [intros _; exists [], h; reflexivity|]. split; discriminate.
    + apply (Hclose BCloseConn); [left; reflexivity|exact H].
    + apply (Hclose BCloseReq); [right; reflexivity|exact H].
Qed.

(* ---- the fall-back order of _send_broker_unaware_request ----------------------------------------- *)
Lemma unaware_fallback : forall st u st' log r,
  unaware st u = (st', log, r) -> s_closed st = false -> r <> UScript ->
  let order := fallback_order st (u_shuf u) in
  order = filter (connected st) (u_shuf u) ++ filter (fun n => negb (connected st n)) (u_shuf u) /\
  Permutation (u_shuf u) (map fst (s_brokers st)) /\
  exists k b,
    (k <= length order)%nat /\ (b <= length (u_bshuf u))%nat /\
    map (fun e => tkey (fst e)) log = map inl (firstn k order) ++ map inr (firstn b (u_bshuf u)) /\
    (b <> 0%nat -> k = length order) /\
    (forall e, In e (removelast log) -> try_failed (snd e) = true) /\
    (r = UOk -> exists pre t o, log = pre ++ [(t, o)] /\ try_failed o = false) /\
    (r = UUnavailable ->
       k = length order /\ b = length (u_bshuf u) /\ Permutation (u_bshuf u) (s_boot st) /\
       (forall e, In e log -> try_failed (snd e) = true /\ try_closed (snd e) = false) /\ s_closed st' = false).
Proof.
  intros st u st' log r H Hopen Hr order.
  split; [apply csort_partition|].
  unfold unaware in H. rewrite Hopen in H.
  destruct (perm_b Z.eqb (u_shuf u) (map fst (s_brokers st))) eqn:Ep; simpl in H;
    [|inversion H; subst; contradiction].
  split; [apply (perm_b_sound Z.eqb Z.eqb_eq); exact Ep|].
  fold order in H.
  destruct (known_loop st order (u_kouts u) []) as [[st1 log1] r1] eqn:Ek.
  pose proof (known_loop_boot _ _ _ _ _ _ _ Ek) as Eboot.
  destruct (known_loop_log _ _ _ _ _ _ _ Ek) as [tries [El [k [Hk [Hm [Hrl [Hok [Hnone [Hc1 Hc2]]]]]]]]].
  simpl in El. subst log1.
  destruct r1 as [x|].
  - inversion H; subst st1 log x. clear H.
    exists k, 0%nat. split; [exact Hk|]. split; [lia|]. split; [rewrite Hm; simpl; rewrite app_nil_r; reflexivity|].
    split; [intro F; contradiction|]. split; [exact Hrl|].
    split.
    { intro E; subst r. destruct (Hok eq_refl) as [pre [n [a Ht]]]. exists pre, (TKnown n a), (OK_ KResp).
      split; [exact Ht|reflexivity]. }
    intro E; subst r. destruct (known_loop_res _ _ _ _ _ _ _ Ek) as [F|[F|[F|F]]]; discriminate.
  - destruct (Hnone eq_refl) as [Hk' Hall].
    destruct (perm_b addr_eqb (u_bshuf u) (s_boot st1)) eqn:Epb; simpl in H;
      [|inversion H; subst; contradiction].
    destruct (boot_loop_log _ _ _ _ _ _ _ H) as [tries2 [El2 [b [Hb [Hm2 [Hrl2 [Hok2 [Hun2 _]]]]]]]].
    exists k, b. split; [exact Hk|]. split; [exact Hb|].
    split; [rewrite El2, map_app, Hm, Hm2; reflexivity|].
    split; [intros _; exact Hk'|].
    split.
    { intros e He. rewrite El2 in He. destruct tries2 as [|e2 t2].
      - rewrite app_nil_r in He. apply Hall. apply In_removelast_in. exact He.
      - rewrite removelast_app in He by discriminate. apply in_app_or in He. destruct He as [He|He].
        + apply Hall. exact He.
        + apply Hrl2. exact He. }
    split.
    { intro E. destruct (Hok2 E) as [pre [a Ht]]. exists (tries ++ pre), (TBoot a), (OB_ BResp).
      split; [rewrite El2, Ht, app_assoc; reflexivity|reflexivity]. }
    intro E. destruct (Hun2 E) as [Hb' [Ho1 [Ho' Hall2]]].
    split; [exact Hk'|]. split; [exact Hb'|].
    split; [rewrite <- Eboot; apply (perm_b_sound addr_eqb addr_eqb_eq); exact Epb|].
    split; [|exact Ho'].
    intros e He. rewrite El2 in He. apply in_app_or in He. destruct He as [He|He].
    + split; [apply Hall; exact He|apply Hc2; assumption].
    + apply Hall2. exact He.
Qed.
