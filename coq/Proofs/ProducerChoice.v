(* The partition of a payload is the partition the partitioner chose for every request riding on it
   (producer.py:338, 390-392): an invariant of Model/Producer.v, used for "the chosen partition" in C01. *)
From AV Require Import Base.Util Model.Producer Proofs.ProducerBase Proofs.ProducerInv.
From Coq Require Import Lia.

Definition lk_choice (x : send) (l : lstate) : Prop := forall p, l = LDone (LOk p) -> p = s_choice x.
Definition res_choice (x : send) (r : lres) : Prop := forall p, r = LOk p -> p = s_choice x.
Definition pl_choice (pl : payload) : Prop := Forall (fun x => s_choice x = snd (p_tp pl)) (p_sends pl).

Definition ChInv (s : state) : Prop :=
  match ph s with
  | Idle => True
  | Looking reqs ls => Forall2 lk_choice reqs ls
  | VerWait reqs res => Forall2 res_choice reqs res
  | Sending pls _ | RetryWait pls _ _ => Forall pl_choice pls
  end.

Lemma resolve_choice : forall hp x, res_choice x (resolve hp x).
Proof. unfold resolve, res_choice; intros hp x p H. destruct (negb hp); [discriminate|]. destruct (s_choice x <? 0); inv H; auto. Qed.

Lemma lookup_head_choice : forall c s x s' o l, lookup_head c s x = (s', o, l) -> lk_choice x l.
Proof.
  unfold lookup_head; intros c s x s' o l H. destruct (cache_get (cache s) (s_topic x)) as [err hp].
  destruct (err =? 0); [inv H; intros p E; inv E; eapply resolve_choice; eauto|].
  destruct (c_max c <=? attempts s); inv H; intros p E; discriminate.
Qed.
Lemma lookup_loaded_choice : forall c s x s' o l, lookup_loaded c s x = (s', o, l) -> lk_choice x l.
Proof.
  unfold lookup_loaded; intros c s x s' o l H. destruct (stopping s); [inv H; intros p E; discriminate|].
  destruct (cache_get (cache s) (s_topic x)) as [err hp].
  destruct (err =? 0); inv H; intros p E; [inv E; eapply resolve_choice; eauto|discriminate].
Qed.

Lemma map_lookups_choice : forall f,
  (forall st x l st' o l', f st x l = Some (st', o, l') -> lk_choice x l') ->
  forall reqs ls s s' o ls', Forall2 lk_choice reqs ls -> map_lookups f s reqs ls = (s', o, ls') -> Forall2 lk_choice reqs ls'.
Proof.
  intros f Hf; induction reqs as [|x r IH]; simpl; intros ls s s' o ls' F H.
  - inv H. auto.
  - destruct ls as [|l ls]; [inv H; auto|]. inversion F; subst.
    destruct (f s x l) as [[[s1 o1] l1]|] eqn:E.
    + destruct (map_lookups f s1 r ls) as [[s2 o2] ls2] eqn:E2. inv H. constructor; eauto.
    + destruct (map_lookups f s r ls) as [[s2 o2] ls2] eqn:E2. inv H. constructor; eauto.
Qed.

Lemma all_done_choice : forall reqs ls res, Forall2 lk_choice reqs ls -> all_done ls = Some res -> Forall2 res_choice reqs res.
Proof.
  induction reqs as [|x r IH]; intros ls res F H; inversion F; subst.
  - inv H. constructor.
  - unfold all_done in *. simpl in H. destruct y; try discriminate.
    destruct (fold_right _ _ l') eqn:E; [|discriminate]. inv H. constructor; eauto.
    intros p X. subst. match goal with HH : lk_choice x _ |- _ => apply HH; reflexivity end.
Qed.

Lemma add_to_payload_choice : forall pls x p, Forall pl_choice pls -> Forall pl_choice (add_to_payload pls (s_topic x, p) x) \/ p <> s_choice x.
Proof.
  intros pls x p F. destruct (Z.eq_dec p (s_choice x)) as [->|N]; [left|right; auto].
  induction pls as [|q rest IH]; simpl.
  - repeat constructor.
  - inversion F; subst. destruct (tp_eqb (p_tp q) (s_topic x, s_choice x)) eqn:E.
    + constructor; auto. unfold pl_choice in *. simpl.
      assert (Q : snd (p_tp q) = s_choice x).
      { unfold tp_eqb in E. apply andb_true_iff in E as [_ E]. apply Z.eqb_eq in E. exact E. }
      apply Forall_app; split; [|repeat constructor].
      eapply Forall_impl; [|exact H1]. simpl. intros a Ha. congruence.
    + constructor; auto.
Qed.

Lemma group_requests_choice : forall reqs res s pls s' out pls',
  Forall2 res_choice reqs res -> Forall pl_choice pls -> group_requests s reqs res pls = (s', out, pls') -> Forall pl_choice pls'.
Proof.
  induction reqs as [|x r IH]; cbn [group_requests]; intros res s pls s' out pls' F P H.
  - inv H; auto.
  - destruct res as [|y res]; [inv H; auto|]. inversion F; subst.
    destruct (negb (zmem (s_id x) (outstanding s))); [eapply IH; eauto|].
    destruct y.
    + destruct (add_to_payload_choice pls x p P) as [Q|Q]; [eapply IH; eauto|]. exfalso. apply Q. match goal with HH : res_choice x _ |- _ => apply HH; reflexivity end.
    + destruct (deliver s [x] (OFail k 0)) as [s1 o1]. destruct (group_requests s1 r res pls) as [[s2 o2] pls2] eqn:E2. inv H.
      eapply IH; eauto.
Qed.

Lemma send_requests_choice : forall s reqs res s1 o1, Forall2 res_choice reqs res ->
  send_requests s reqs res = (s1, o1, false) -> ChInv s1.
Proof.
  unfold send_requests; intros s reqs res s1 o1 F H. destruct (stopping s); [discriminate|].
  destruct (api s =? 0); [inv H; exact F|].
  destruct (group_requests s reqs res []) as [[s2 o2] pls] eqn:E. apply group_requests_choice in E; auto.
  destruct pls as [|p pls]; [inv H|]. destruct (broken s2); inv H. exact E.
Qed.

Lemma lookups_progress_choice : forall s reqs ls s1 o1, Forall2 lk_choice reqs ls ->
  lookups_progress s reqs ls = (s1, o1, false) -> ChInv s1.
Proof.
  unfold lookups_progress; intros s reqs ls s1 o1 F H. destruct (all_done ls) eqn:E.
  - eapply send_requests_choice; [eapply all_done_choice; eauto|eauto].
  - inv H. exact F.
Qed.

Lemma check_retry_choice : forall c s pls fl s1 o1, Forall pl_choice pls -> check_retry c s pls fl = (s1, o1, false) -> ChInv s1.
Proof.
  unfold check_retry; intros c s pls fl s1 o1 F H. destruct ((c_max c <=? attempts s) || stopping s).
  - destruct (deliver_failed s pls fl); inv H.
  - inv H. exact F.
Qed.

Lemma handle_result_choice : forall c s pls cur v s1 o1, Forall pl_choice pls ->
  handle_result c s pls cur v = (s1, o1, false) -> ChInv s1.
Proof.
  unfold handle_result; intros c s pls cur v s1 o1 F H. destruct v.
  - destruct (deliver s (all_sends pls) _); inv H.
  - destruct (process_resps s pls rs) as [[s2 o2] f2]. destruct f2; [inv H|].
    destruct (check_retry c s2 pls _) as [[s3 o3] d3] eqn:E3. inv H. eapply check_retry_choice; eauto.
  - destruct (if c_acks c =? 0 then _ else _) as [s0 o0]. destruct (process_resps s0 pls rs) as [[s2 o2] f2].
    destruct (check_retry c s2 pls _) as [[s3 o3] d3] eqn:E3. inv H. eapply check_retry_choice; eauto.
  - eapply check_retry_choice; eauto.
  - destruct (deliver s (all_sends pls) _); inv H.
Qed.

Lemma core_choice : forall c s e s1 o1 ep, ChInv s -> core c s e = (s1, o1, ep) -> ep <> Fin -> ChInv s1.
Proof.
  intros c s e s1 o1 ep I H NF. unfold ChInv in I. destruct e; cbn [core] in H.
  - destruct ((cnt <? 1) || (bytes <? 0)); [|destruct (stopping s)]; inv H; exact I.
  - inv H; exact I.
  - destruct (cancel_send s sid) as [s2 o2] eqn:E. inv H. apply cancel_send_spec in E as (_ & P & _). unfold ChInv. rewrite P. exact I.
  - destruct (looper s); inv H; exact I.
  - inv H; exact I.
  - inv H; exact I.
  - destruct (ph s) eqn:P; try (inv H; unfold ChInv; rewrite P; exact I; fail).
    destruct (map_lookups _ s reqs ls) as [[s2 o2] ls2] eqn:E.
    apply map_lookups_choice in E; auto.
    2:{ intros st x l st' o' l' Hf. destruct l; try discriminate. destruct (lid0 =? lid); [|discriminate].
        inv Hf. destruct ok; [eapply lookup_loaded_choice; eauto|inv H1; intros p X; discriminate]. }
    destruct (lookups_progress s2 reqs ls2) as [[s3 o3] d3] eqn:E3. unfold fin_if in H. destruct d3; inv H; [congruence|].
    eapply lookups_progress_choice; eauto.
  - destruct (ph s) eqn:P; try (inv H; unfold ChInv; rewrite P; exact I; fail).
    + destruct (map_lookups _ s reqs ls) as [[s2 o2] ls2] eqn:E.
      apply map_lookups_choice in E; auto.
      2:{ intros st x l st' o' l' Hf. destruct l; try discriminate. destruct (tid0 =? tid); [|discriminate].
          inv Hf. eapply lookup_head_choice; eauto. }
      destruct (lookups_progress s2 reqs ls2) as [[s3 o3] d3] eqn:E3. unfold fin_if in H. destruct d3; inv H; [congruence|].
      eapply lookups_progress_choice; eauto.
    + destruct (tid0 =? tid); [|inv H; unfold ChInv; rewrite P; exact I]. destruct (broken s); inv H; [congruence|]. exact I.
  - destruct (ph s) eqn:P; try (inv H; unfold ChInv; rewrite P; exact I; fail).
    destruct (r =? 0); [|destruct (r =? 1)].
    + destruct (send_requests _ reqs res) as [[s2 o2] d2] eqn:E. unfold fin_if in H. destruct d2; inv H; [congruence|]. eapply send_requests_choice; eauto.
    + destruct (send_requests _ reqs res) as [[s2 o2] d2] eqn:E. unfold fin_if in H. destruct d2; inv H; [congruence|]. eapply send_requests_choice; eauto.
    + unfold version_failed in H. destruct (deliver s reqs _). inv H. congruence.
  - destruct (ph s) eqn:P; try (inv H; unfold ChInv; rewrite P; exact I; fail).
    destruct (result_ok c cur v); [|inv H; unfold ChInv; rewrite P; exact I].
    destruct (handle_result c s pls cur v) as [[s2 o2] d2] eqn:E. unfold fin_if in H. destruct d2; inv H; [congruence|]. eapply handle_result_choice; eauto.
  - destruct (ph s) eqn:P; try (inv H; unfold ChInv; rewrite P; exact I; fail).
    destruct (omit_ok c cur v); [|inv H; unfold ChInv; rewrite P; exact I].
    destruct (handle_result c s pls cur v) as [[s2 o2] d2] eqn:E. unfold fin_if in H. destruct d2; inv H; [congruence|]. eapply handle_result_choice; eauto.
  - inv H; exact I.
  - inv H; exact I.
Qed.

Lemma dispatch_choice : forall c s s' o, dispatch c s = (s', o) -> ChInv s'.
Proof.
  unfold dispatch; intros c s s' o H.
  destruct (map_lookups _ _ (queue s) _) as [[s1 o1] ls] eqn:E1.
  apply map_lookups_choice in E1.
  2:{ intros st x l st' o' l' Hf. inv Hf. eapply lookup_head_choice; eauto. }
  2:{ clear. induction (queue s); simpl; constructor; auto. intros p X; discriminate. }
  destruct (lookups_progress s1 (queue s) ls) as [[s2 o2] done] eqn:E2.
  destruct done; [unfold finish0 in H; inv H; exact I|]. inv H. eapply lookups_progress_choice; eauto.
Qed.

Lemma epi_choice : forall c s1 ep s2 o2, ChInv s1 -> apply_epi c s1 ep = (s2, o2) -> ChInv s2.
Proof.
  intros c s1 ep s2 o2 I A.
  assert (T : forall s s' o, ChInv s -> try_send_batch c s = (s', o) -> ChInv s').
  { intros s s' o Is H. apply try_send_batch_spec in H as [[_ D]|(_ & -> & _)]; auto. eapply dispatch_choice; eauto. }
  assert (Ck : forall s s' o, ChInv s -> check_send_batch c s = (s', o) -> ChInv s').
  { unfold check_send_batch; intros s s' o Is H. destruct (threshold c s); [eauto|inv H; auto]. }
  destruct ep; simpl in A; eauto.
  - inv A; auto.
  - unfold finish, finish0 in A. destruct (check_send_batch c _) as [s4 o4] eqn:E. inv A. eapply Ck; [|exact E]. exact Logic.I.
Qed.

Theorem step_choice : forall c s e s' out, ChInv s -> step c s e = (s', out) -> ChInv s'.
Proof.
  intros c s e s' out I H.
  assert (NS : (forall cv, e <> EStop cv) -> ChInv s').
  { intros NE. destruct (step_nonstop c s e s' out NE H) as (s1 & o1 & ep & o2 & C & A & _).
    destruct ep.
    - eapply epi_choice; [eapply core_choice; eauto; discriminate|exact A].
    - simpl in A. unfold finish, finish0 in A. destruct (check_send_batch c _) as [s4 o4] eqn:E. inv A.
      eapply (epi_choice c _ Check); [|exact E]. exact Logic.I.
    - eapply epi_choice; [eapply core_choice; eauto; discriminate|exact A].
    - eapply epi_choice; [eapply core_choice; eauto; discriminate|exact A]. }
  destruct e; try (apply NS; intros ? X; discriminate X).
  (* stop: the producer is idle afterwards *)
  unfold step in H. set (s0 := set_flags s true (looper s)) in *.
  destruct (cancel_batch c s0 cv) as [[s1 o1] done] eqn:E.
  unfold fin_if in H. destruct (apply_epi c s1 (if done then Fin else NoEpi)) as [s2 o2] eqn:A.
  destruct (cancel_all _ _) as [s4 o4] eqn:E4. inv H.
  apply cancel_all_frame in E4 as (F1 & _). unfold ChInv. rewrite F1. simpl.
  destruct done; simpl in A.
  - unfold finish, finish0 in A. destruct (check_send_batch c _) as [s5 o5] eqn:Ec. inv A.
    assert (X : ChInv s2) by (eapply (epi_choice c _ Check); [|exact Ec]; exact Logic.I). exact X.
  - inv A. (* nothing was in flight, or the cancel left the phase as it was *)
    unfold cancel_batch in E. simpl in E. unfold ChInv in I. destruct (ph s) eqn:P; try (inv E; simpl; rewrite P; exact I).
    + destruct (map_lookups _ s0 reqs ls) as [[s5 o5] ls5] eqn:E5.
      apply map_lookups_choice in E5; auto.
      2:{ intros st x l st' o' l' Hf. destruct l; [discriminate| |].
          - inv Hf. eapply lookup_loaded_choice; eauto.
          - inv Hf. intros p X; discriminate. }
      destruct (lookups_progress s5 reqs ls5) as [[s6 o6] d6] eqn:E6. inv E. eapply lookups_progress_choice; eauto.
    + unfold version_failed in E. destruct (deliver s0 reqs _). inv E.
    + eapply handle_result_choice; eauto.
    + destruct (deliver s0 (all_sends pls) _). inv E.
Qed.

Theorem reachable_choice : forall c s, reachable c s -> ChInv s.
Proof.
  intros c s (h & a & ca & evs & <-).
  assert (G : forall evs s0, ChInv s0 -> ChInv (fst (run c s0 evs))).
  { induction evs0 as [|e r IH]; simpl; intros s0 I; auto.
    destruct (step c s0 e) as [s1 o] eqn:E. destruct (run c s1 r) as [s2 t2] eqn:E2. simpl.
    replace s2 with (fst (run c s1 r)) by (rewrite E2; reflexivity). apply IH. eapply step_choice; eauto. }
  apply G. exact Logic.I.
Qed.
