(* C12, part 3b: the response decoders (Model/Responses.v, the model property C05 ties to kafkacodec.py) and hostile
   count fields.

   Every `for _ in range(n)` of those decoders is [Responses.for_range] running on fuel  S (length data)  with the
   count n read from the wire.  Proved here:
     * a loop whose body consumes at least c >= 1 bytes per successful iteration never runs out of that fuel, and
       invokes its body at most  length data / c + 1  times (and at most n times) - whatever n claims;
     * consequently NO public decoder ever answers Err Fuel: for every byte string each loop of each decoder stops
       because the count was reached or because a read failed, after at most  length data + 1  iterations.  The model's
       totality is therefore not an artefact of the fuel.
   (Err Fuel inside FetchResponse.messages - the nesting budget of the message-set decoder - is a different thing:
   see Proofs/DecodeTotal.v.) *)
From Coq Require Import Lia.
From AV Require Import Base.Util Model.Prim Model.Crc Model.MsgSet Model.Responses Proofs.DecodeTotal.

(* ------------------------------------------------------------------ "advances by at least c, or fails without Fuel" *)
Definition radv {A} (c : nat) (d : list Z) (x : res (A * list Z)) : Prop :=
  match x with Ok (_, r) => (length r + c <= length d)%nat | Err e => e <> Fuel end.
Definition gadv {A} (c : nat) (d : list Z) (g : gen A) : Prop :=
  match snd g with Ok r => (length r + c <= length d)%nat | Err e => e <> Fuel end.
Definition nf {A} (x : res A) : Prop := x <> Err Fuel.

Lemma radv_weaken {A} c c' d (x : res (A * list Z)) : radv c d x -> (c' <= c)%nat -> radv c' d x.
Proof. unfold radv. destruct x as [[a r]|e]; auto. lia. Qed.
Lemma gadv_weaken {A} c c' d (g : gen A) : gadv c d g -> (c' <= c)%nat -> gadv c' d g.
Proof. unfold gadv. destruct (snd g); auto. lia. Qed.

Lemma radv_ok {A} (a : A) r : radv 0 r (Ok (a, r)).
Proof. unfold radv. lia. Qed.

Lemma radv_bind {A B} c1 c2 d (x : res (A * list Z)) (f : A * list Z -> res (B * list Z)) :
  radv c1 d x -> (forall a r, radv c2 r (f (a, r))) -> radv (c1 + c2) d (bind x f).
Proof.
  unfold radv. destruct x as [[a r]|e]; cbn [bind]; auto.
  intros H1 H2. specialize (H2 a r). destruct (f (a, r)) as [[b r']|e]; auto. lia.
Qed.

Lemma nf_bind {A B} c d (x : res (A * list Z)) (f : A * list Z -> res B) :
  radv c d x -> (forall a r, nf (f (a, r))) -> nf (bind x f).
Proof.
  unfold radv, nf. destruct x as [[a r]|e]; cbn [bind]; auto. intros H H1 [= ->]. apply H. reflexivity.
Qed.

Lemma radv_unpack f d : radv (fmt_size f) d (unpack f d).
Proof.
  unfold radv. destruct (unpack f d) as [[v r]|e] eqn:E.
  - apply unpack_consumes in E. lia.
  - apply unpack_errors in E. subst. discriminate.
Qed.

Lemma radv_read_string f d : radv (fmt_size f) d (read_string f d).
Proof.
  unfold radv. destruct (read_string f d) as [[v r]|e] eqn:E.
  - apply read_string_consumes in E. lia.
  - apply read_string_errors in E. destruct E; subst; discriminate.
Qed.

Lemma radv_decoded valid d : radv 2 d (read_short_decoded valid d).
Proof.
  unfold radv. destruct (read_short_decoded valid d) as [[v r]|e] eqn:E.
  - apply read_short_decoded_consumes in E. lia.
  - unfold read_short_decoded, read_short_bytes in E.
    destruct (read_string Fh d) as [[ob r]|e'] eqn:R; cbn [bind] in E.
    + destruct ob as [b|]; [destruct (valid b)|]; inversion E; discriminate.
    + inversion E; subst. apply read_string_errors in R. destruct R; subst; discriminate.
Qed.

(* ------------------------------------------------------------------ the loop combinator *)
Lemma for_range_gadv {A} (body : list Z -> gen A) :
  (forall d, gadv 1 d (body d)) ->
  forall fuel n data, (length data < fuel)%nat -> gadv 0 data (for_range body fuel n data).
Proof.
  intros Hb. induction fuel as [|f IH]; intros n data Hl; [lia|].
  cbn [for_range]. destruct (n <=? 0). { unfold gadv; cbn [snd]. lia. }
  pose proof (Hb data) as H. destruct (body data) as [ys [rest|e]] eqn:B; unfold gadv in H; cbn [snd] in H.
  - assert (Hr : (length rest < f)%nat) by lia.
    specialize (IH (n - 1) rest Hr). destruct (for_range body f (n - 1) rest) as [zs out].
    unfold gadv in *; cbn [snd] in *. destruct out; [lia|auto].
  - unfold gadv; cbn [snd]; auto.
Qed.

Lemma loop_gadv {A} (body : list Z -> gen A) n data :
  (forall d, gadv 1 d (body d)) -> gadv 0 data (loop body n data).
Proof. intros Hb. unfold loop. apply for_range_gadv; auto. Qed.

(* how often the body is invoked *)
Fixpoint for_range_iters {A} (body : list Z -> gen A) (fuel : nat) (n : Z) (data : list Z) : nat :=
  if (n <=? 0) then O
  else match fuel with
       | O => O
       | S f => match body data with
                | (_, Ok rest) => S (for_range_iters body f (n - 1) rest)
                | (_, Err _) => 1%nat
                end
       end.

Theorem for_range_iters_linear {A} (body : list Z -> gen A) (c : nat) :
  (1 <= c)%nat -> (forall d, gadv c d (body d)) ->
  forall fuel n data, (length data < fuel)%nat ->
    (c * for_range_iters body fuel n data <= length data + c)%nat /\
    (forall r, snd (for_range body fuel n data) = Ok r -> (c * for_range_iters body fuel n data + length r <= length data)%nat).
Proof.
  intros Hc Hb. induction fuel as [|f IH]; intros n data Hl; [lia|].
  cbn [for_range for_range_iters]. destruct (n <=? 0). { cbn [snd]. split; [lia|]. intros r [= <-]. lia. }
  pose proof (Hb data) as H. destruct (body data) as [ys [rest|e]] eqn:B; unfold gadv in H; cbn [snd] in H.
  - assert (Hr : (length rest < f)%nat) by lia.
    destruct (IH (n - 1) rest Hr) as [I1 I2]. destruct (for_range body f (n - 1) rest) as [zs out]. cbn [snd] in *.
    split; [nia|]. intros r E. specialize (I2 r E). nia.
  - cbn [snd]. split; [lia|]. intros r [=].
Qed.

Theorem for_range_iters_count {A} (body : list Z -> gen A) : forall fuel n data,
  (for_range_iters body fuel n data <= Z.to_nat n)%nat.
Proof.
  induction fuel as [|f IH]; intros n data; cbn [for_range_iters]; destruct (n <=? 0) eqn:N; try lia.
  apply Z.leb_gt in N. destruct (body data) as [ys [rest|e]].
  - specialize (IH (n - 1) rest). lia.
  - lia.
Qed.

Lemma iter_unpack_nf {A} (rd : list Z -> res (A * list Z)) :
  (forall d, radv 1 d (rd d)) -> forall fuel data, (length data <= fuel)%nat -> nf (iter_unpack rd fuel data).
Proof.
  intros Hr. induction fuel as [|f IH]; intros data Hl.
  - destruct data; [cbn; discriminate|cbn in Hl; lia].
  - cbn [iter_unpack]. destruct data as [|x t]; [discriminate|].
    pose proof (Hr (x :: t)) as H. destruct (rd (x :: t)) as [[a r]|e]; unfold radv in H; cbn [bind].
    + assert (Hlr : (length r <= f)%nat) by (cbn [length] in *; lia).
      specialize (IH r Hlr). unfold nf in *. destruct (iter_unpack rd f r); cbn [bind]; [discriminate|].
      intros [= ->]. apply IH; reflexivity.
    + unfold nf. intros [= ->]. apply H; reflexivity.
Qed.

(* Responses.read_n: a counted loop that collects values *)
Lemma one_gadv {A} c (rd : list Z -> res (A * list Z)) d : radv c d (rd d) -> gadv c d (one rd d).
Proof. unfold radv, gadv, one. destruct (rd d) as [[a r]|e]; cbn [snd gfail]; auto. Qed.

Lemma read_n_radv {A} (rd : list Z -> res (A * list Z)) n data :
  (forall d, radv 1 d (rd d)) -> radv 0 data (Responses.read_n rd n data).
Proof.
  intros Hr. unfold Responses.read_n.
  pose proof (loop_gadv (one rd) n data (fun d => one_gadv 1 rd d (Hr d))) as H.
  destruct (loop (one rd) n data) as [xs [rest|e]]; unfold gadv in H; cbn [snd] in H; unfold radv; auto.
Qed.

Lemma read_ints_radv n data : radv 0 data (read_ints n data).
Proof.
  unfold read_ints. destruct (n <? 0); [unfold radv; discriminate|].
  destruct (len data <? 4 * n); [unfold radv; discriminate|].
  apply read_n_radv. intro d. eapply radv_weaken; [apply radv_unpack|cbn; lia].
Qed.

(* ------------------------------------------------------------------ tactics for `do` chains *)
Ltac prim :=
  first [ apply radv_unpack | apply radv_read_string | apply radv_decoded | apply read_ints_radv
        | apply radv_ok ].
Ltac unfold_readers :=
  unfold read_i8, read_u8, read_i16, read_u16, read_i32, read_u32, read_i64, read_int_string, read_short_bytes,
         read_short_ascii, read_short_text in *.
(* radv ?c d (bind x (fun '(a, r) => ...)) *)
Ltac chain :=
  unfold_readers;
  repeat first
    [ prim
    | eapply radv_bind; [ solve [prim] | intros ? ?; cbn beta iota ] ].

(* ------------------------------------------------------------------ the partition bodies and the five generators *)
Lemma gadv_match4 {A T} c d (x : res (T * list Z)) (mk : T -> A) :
  radv c d x -> gadv c d (match x with Ok (t, r) => ([mk t], Ok r) | Err e => gfail e end).
Proof. unfold radv, gadv. destruct x as [[t r]|e]; cbn [snd gfail]; auto. Qed.

Lemma produce_part_v0_gadv topic d : gadv 1 d (produce_part_v0 topic d).
Proof.
  unfold produce_part_v0.
  set (x := bind (read_i32 d) _).
  assert (H : radv 14 d x) by (subst x; eapply radv_weaken; [chain|cbn; lia]).
  destruct x as [[[[p e] o] r]|e]; unfold radv in H; unfold gadv; cbn [snd gfail]; [lia|auto].
Qed.

Lemma produce_part_v2_gadv topic d : gadv 1 d (produce_part_v2 topic d).
Proof.
  unfold produce_part_v2.
  set (x := bind (read_i32 d) _).
  assert (H : radv 22 d x) by (subst x; eapply radv_weaken; [chain|cbn; lia]).
  destruct x as [[[[p e] o] r]|e]; unfold radv in H; unfold gadv; cbn [snd gfail]; [lia|auto].
Qed.

Lemma fetch_part_gadv depth orc topic d : gadv 1 d (fetch_part depth orc topic d).
Proof.
  unfold fetch_part.
  set (x := bind (read_i32 d) _).
  assert (H : radv 18 d x) by (subst x; eapply radv_weaken; [chain|cbn; lia]).
  destruct x as [[[[[p e] h] ms] r]|e]; unfold radv in H; unfold gadv; cbn [snd gfail]; [lia|auto].
Qed.

Lemma offset_part_gadv topic d : gadv 1 d (offset_part topic d).
Proof.
  unfold offset_part.
  set (x := bind (read_i32 d) _).
  assert (H : radv 10 d x).
  { subst x. eapply radv_weaken.
    - unfold_readers. eapply radv_bind; [prim|intros ? ?; cbn beta iota].
      eapply radv_bind; [prim|intros ? ?; cbn beta iota].
      eapply radv_bind; [prim|intros ? ?; cbn beta iota].
      eapply radv_bind; [apply read_n_radv; intro; eapply radv_weaken; [apply radv_unpack|cbn; lia]|intros ? ?; cbn beta iota].
      apply radv_ok.
    - cbn; lia. }
  destruct x as [[[[p e] offs] r]|e]; unfold radv in H; unfold gadv; cbn [snd gfail]; [lia|auto].
Qed.

Lemma commit_part_gadv topic d : gadv 1 d (commit_part topic d).
Proof.
  unfold commit_part.
  set (x := bind (read_i32 d) _).
  assert (H : radv 6 d x) by (subst x; eapply radv_weaken; [chain|cbn; lia]).
  destruct x as [[[p e] r]|e]; unfold radv in H; unfold gadv; cbn [snd gfail]; [lia|auto].
Qed.

Lemma ofetch_part_gadv topic d : gadv 1 d (ofetch_part topic d).
Proof.
  unfold ofetch_part.
  set (x := bind (read_i32 d) _).
  assert (H : radv 16 d x) by (subst x; eapply radv_weaken; [chain|cbn; lia]).
  destruct x as [[[[[p o] md] e] r]|e]; unfold radv in H; unfold gadv; cbn [snd gfail]; [lia|auto].
Qed.

Lemma by_topic_gadv {A} (part : list Z -> list Z -> gen A) d :
  (forall t d', gadv 1 d' (part t d')) -> gadv 1 d (by_topic part d).
Proof.
  intros Hp. unfold by_topic.
  set (x := bind (read_short_ascii d) _).
  assert (H : radv 6 d x) by (subst x; eapply radv_weaken; [chain|cbn; lia]).
  destruct x as [[[t np] r]|e]; unfold radv in H.
  - pose proof (loop_gadv (part t) np r (Hp t)) as L. unfold gadv in *. destruct (snd (loop (part t) np r)); [lia|auto].
  - unfold gadv; cbn [snd gfail]; auto.
Qed.

Lemma topics_after_header_gadv {A} (part : list Z -> list Z -> gen A) d :
  (forall t d', gadv 1 d' (part t d')) -> gadv 0 d (topics_after_header part d).
Proof.
  intros Hp. unfold topics_after_header.
  set (x := bind (read_i32 d) _).
  assert (H : radv 8 d x) by (subst x; eapply radv_weaken; [chain|cbn; lia]).
  destruct x as [[nt r]|e]; unfold radv in H.
  - pose proof (loop_gadv (by_topic part) nt r (fun d' => by_topic_gadv part d' Hp)) as L.
    unfold gadv in *. destruct (snd (loop (by_topic part) nt r)); [lia|auto].
  - unfold gadv; cbn [snd gfail]; auto.
Qed.

Definition gnf {A} (g : gen A) : Prop := snd g <> Err Fuel.
Lemma gadv_gnf {A} c d (g : gen A) : gadv c d g -> gnf g.
Proof. unfold gadv, gnf. destruct (snd g); [discriminate|]. intros H [= ->]. apply H; reflexivity. Qed.

Theorem decode_produce_nf ver data g : decode_produce_response ver data = Some g -> gnf g.
Proof.
  unfold decode_produce_response. destruct (ver =? 0).
  - intros [= <-]. eapply gadv_gnf. apply topics_after_header_gadv. apply produce_part_v0_gadv.
  - destruct (1 <=? ver); [|discriminate]. intros [= <-]. unfold decode_produce_v2.
    pose proof (topics_after_header_gadv produce_part_v2 data produce_part_v2_gadv) as H.
    destruct (topics_after_header produce_part_v2 data) as [ys [rest|e]]; unfold gadv in H; cbn [snd] in H; unfold gnf.
    + pose proof (radv_unpack Fi rest) as U. unfold read_i32. destruct (unpack Fi rest) as [[v r]|e]; cbn [snd]; [discriminate|].
      unfold radv in U. intros [= ->]. apply U; reflexivity.
    + cbn [snd]. intros [= ->]. apply H; reflexivity.
Qed.

Theorem decode_fetch_nf ver depth orc data : gnf (decode_fetch_response ver depth orc data).
Proof.
  unfold decode_fetch_response. destruct (ver =? 0).
  - eapply gadv_gnf. apply topics_after_header_gadv. apply fetch_part_gadv.
  - destruct (2 <=? ver); [|unfold gnf; cbn; discriminate].
    set (x := bind (read_i32 data) _).
    assert (H : radv 12 data x) by (subst x; eapply radv_weaken; [chain|cbn; lia]).
    destruct x as [[nt r]|e]; unfold radv in H.
    + eapply gadv_gnf. apply loop_gadv. intro d'. apply by_topic_gadv. apply fetch_part_gadv.
    + unfold gnf; cbn [snd gfail]. intros [= ->]. apply H; reflexivity.
Qed.

Theorem decode_offset_nf data : gnf (decode_offset_response data).
Proof. eapply gadv_gnf. apply topics_after_header_gadv. apply offset_part_gadv. Qed.
Theorem decode_offset_commit_nf data : gnf (decode_offset_commit_response data).
Proof. eapply gadv_gnf. apply topics_after_header_gadv. apply commit_part_gadv. Qed.
Theorem decode_offset_fetch_nf data : gnf (decode_offset_fetch_response data).
Proof. eapply gadv_gnf. apply topics_after_header_gadv. apply ofetch_part_gadv. Qed.

(* ------------------------------------------------------------------ the value-returning decoders *)
Lemma radv_nf {A} c d (x : res (A * list Z)) : radv c d x -> nf x.
Proof. unfold radv, nf. destruct x as [[a r]|e]; [discriminate|]. intros H [= ->]. apply H; reflexivity. Qed.

(* nf (bind x (fun '(a, r) => ...)) for chains that end in a plain value *)
Ltac nfchain :=
  unfold_readers;
  repeat first
    [ eapply nf_bind; [ solve [prim] | intros ? ?; cbn beta iota ]
    | match goal with |- nf (Ok _) => discriminate end
    | match goal with |- nf (Err ?e) => discriminate end
    | match goal with |- nf (if ?b then _ else _) => destruct b end ].

Theorem correlation_id_nf data : nf (get_response_correlation_id data).
Proof. unfold get_response_correlation_id. nfchain. Qed.

Lemma read_api_version_radv d : radv 1 d (read_api_version d).
Proof. unfold read_api_version. eapply radv_weaken; [chain|cbn; lia]. Qed.

Theorem decode_api_versions_nf data : nf (decode_api_versions_response data).
Proof.
  unfold decode_api_versions_response. nfchain.
  match goal with |- nf (bind (iter_unpack _ (length ?r) ?r) _) =>
    pose proof (iter_unpack_nf read_api_version read_api_version_radv (length r) r (le_n _)) as H;
    destruct (iter_unpack read_api_version (length r) r); cbn [bind]; [discriminate|unfold nf in *; intros [= ->]; apply H; reflexivity] end.
Qed.

Lemma read_broker_radv d : radv 1 d (read_broker d).
Proof. unfold read_broker. eapply radv_weaken; [chain|cbn; lia]. Qed.

Lemma read_partition_metadata_radv topic d : radv 1 d (read_partition_metadata topic d).
Proof. unfold read_partition_metadata. eapply radv_weaken; [chain|cbn; lia]. Qed.

Lemma read_topic_metadata_radv d : radv 1 d (read_topic_metadata d).
Proof.
  unfold read_topic_metadata. eapply radv_weaken.
  - unfold_readers. eapply radv_bind; [prim|intros ? ?; cbn beta iota].
    eapply radv_bind; [prim|intros ? ?; cbn beta iota].
    eapply radv_bind; [prim|intros ? ?; cbn beta iota].
    eapply radv_bind; [apply read_n_radv; intro; apply read_partition_metadata_radv|intros ? ?; cbn beta iota].
    apply radv_ok.
  - cbn; lia.
Qed.

Theorem decode_metadata_nf data : nf (decode_metadata_response data).
Proof.
  unfold decode_metadata_response. unfold_readers.
  eapply nf_bind; [prim|intros ? ?; cbn beta iota].
  eapply nf_bind; [prim|intros ? ?; cbn beta iota].
  match goal with |- nf (if ?b then _ else _) => destruct b; [discriminate|] end.
  eapply nf_bind; [apply read_n_radv; intro; apply read_broker_radv|intros ? ?; cbn beta iota].
  eapply nf_bind; [prim|intros ? ?; cbn beta iota].
  eapply nf_bind; [apply read_n_radv; intro; apply read_topic_metadata_radv|intros ? ?; cbn beta iota].
  discriminate.
Qed.

Theorem decode_consumermetadata_nf data : nf (decode_consumermetadata_response data).
Proof. unfold decode_consumermetadata_response. nfchain. Qed.

Theorem decode_join_group_protocol_metadata_nf data : nf (decode_join_group_protocol_metadata data).
Proof.
  unfold decode_join_group_protocol_metadata. unfold_readers.
  eapply nf_bind; [prim|intros ? ?; cbn beta iota].
  eapply nf_bind; [prim|intros ? ?; cbn beta iota].
  eapply nf_bind; [apply read_n_radv; intro; eapply radv_weaken; [apply radv_decoded|lia]|intros ? ?; cbn beta iota].
  eapply nf_bind; [prim|intros ? ?; cbn beta iota].
  discriminate.
Qed.

Lemma read_join_member_radv d : radv 1 d (read_join_member d).
Proof. unfold read_join_member. eapply radv_weaken; [chain|cbn; lia]. Qed.

Theorem decode_join_group_response_nf data : nf (decode_join_group_response data).
Proof.
  unfold decode_join_group_response. unfold_readers.
  do 7 (eapply nf_bind; [prim|intros ? ?; cbn beta iota]).
  eapply nf_bind; [apply read_n_radv; intro; apply read_join_member_radv|intros ? ?; cbn beta iota].
  discriminate.
Qed.

Theorem decode_error_only_nf data : nf (decode_error_only data).
Proof. unfold decode_error_only. nfchain. Qed.

Theorem decode_sync_group_response_nf data : nf (decode_sync_group_response data).
Proof. unfold decode_sync_group_response. nfchain. Qed.

Lemma read_assigned_radv d : radv 1 d (read_assigned d).
Proof. unfold read_assigned. eapply radv_weaken; [chain|cbn; lia]. Qed.

Theorem decode_sync_group_member_assignment_nf data : nf (decode_sync_group_member_assignment data).
Proof.
  unfold decode_sync_group_member_assignment. unfold_readers.
  eapply nf_bind; [prim|intros ? ?; cbn beta iota].
  eapply nf_bind; [prim|intros ? ?; cbn beta iota].
  match goal with |- nf (if ?b then _ else _) => destruct b; [discriminate|] end.
  eapply nf_bind; [apply read_n_radv; intro; apply read_assigned_radv|intros ? ?; cbn beta iota].
  eapply nf_bind; [prim|intros ? ?; cbn beta iota].
  discriminate.
Qed.

(* ------------------------------------------------------------------ all of them *)
Theorem resp_decoders_never_out_of_fuel : forall data,
  get_response_correlation_id data <> Err Fuel /\
  decode_api_versions_response data <> Err Fuel /\
  (forall ver g, decode_produce_response ver data = Some g -> snd g <> Err Fuel) /\
  (forall ver depth orc, snd (decode_fetch_response ver depth orc data) <> Err Fuel) /\
  snd (decode_offset_response data) <> Err Fuel /\
  decode_metadata_response data <> Err Fuel /\
  decode_consumermetadata_response data <> Err Fuel /\
  snd (decode_offset_commit_response data) <> Err Fuel /\
  snd (decode_offset_fetch_response data) <> Err Fuel /\
  decode_join_group_protocol_metadata data <> Err Fuel /\
  decode_join_group_response data <> Err Fuel /\
  decode_leave_group_response data <> Err Fuel /\
  decode_heartbeat_response data <> Err Fuel /\
  decode_sync_group_response data <> Err Fuel /\
  decode_sync_group_member_assignment data <> Err Fuel.
Proof.
  intro data. repeat split.
  - apply correlation_id_nf.
  - apply decode_api_versions_nf.
  - intros ver g H. exact (decode_produce_nf ver data g H).
  - intros ver depth orc. apply decode_fetch_nf.
  - apply decode_offset_nf.
  - apply decode_metadata_nf.
  - apply decode_consumermetadata_nf.
  - apply decode_offset_commit_nf.
  - apply decode_offset_fetch_nf.
  - apply decode_join_group_protocol_metadata_nf.
  - apply decode_join_group_response_nf.
  - apply decode_error_only_nf.
  - apply decode_error_only_nf.
  - apply decode_sync_group_response_nf.
  - apply decode_sync_group_member_assignment_nf.
Qed.
