(* Some fuel suffices, part 4: whole runs.  For every configuration the constructor accepts (0 <= auto_commit_every_n),
   every event sequence has a fuel from which on the interpreter never runs out of fuel; the run-level theorems can
   therefore be read as  forall evs, exists fuel0, forall fuel >= fuel0, <statement>. *)
From Coq Require Import Lia.
From AV Require Import Base.Util Model.Consumer Proofs.ConsumerBase Proofs.ConsumerFrame Proofs.ConsumerStop Proofs.ConsumerShut
  Proofs.ConsumerInv Proofs.ConsumerRun Proofs.ConsumerFuel Proofs.ConsumerFuelEnoughStop Proofs.ConsumerFuelEnough
  Proofs.ConsumerFuelEnoughLoop Proofs.ConsumerNotStarted Proofs.ConsumerLimit Proofs.ConsumerShutInvNC Proofs.ConsumerShutInvFam Proofs.ConsumerShutInvTop.
Open Scope Z_scope.

Lemma step_cf fuel s e s' o : step fuel s e = (s', o) -> fuel_ok o = true -> s_cf s' = s_cf s.
Proof.
  intros H Hf. apply step_inv in H. destruct H as (o1 & H & ->). apply fuel_ok_app_inv in Hf. destruct Hf as (Hf & _).
  exact (proj1 (handle_sh _ _ _ _ _ H Hf)).
Qed.

Theorem run_enough n0 : forall evs s, Reach n0 s -> acn_ok s ->
  exists fuel0, forall fuel, (fuel0 <= fuel)%nat -> all_fuel_ok (run_steps fuel s evs) = true.
Proof.
  induction evs as [|e evs IH]; intros s HR Ha.
  - exists 0%nat. intros. reflexivity.
  - destruct (step (BE e s) s e) as [s1 o1] eqn:E1.
    assert (Hpe : s_pend s = []) by (destruct HR as (_ & _ & _ & Hx); exact Hx).
    pose proof (step_enough _ _ _ _ _ Hpe Ha (le_n _) E1) as Fo1.
    pose proof (reach_step _ _ _ _ _ _ HR E1 Fo1) as HR1.
    assert (Ha1 : acn_ok s1) by (unfold acn_ok in *; rewrite (step_cf _ _ _ _ _ E1 Fo1); exact Ha).
    destruct (IH s1 HR1 Ha1) as (f2 & H2).
    exists (Nat.max (BE e s) f2). intros fuel Hge.
    assert (E : step fuel s e = (s1, o1)) by (apply (step_mono (BE e s)); [lia | exact E1 | exact Fo1]).
    cbn [run_steps]. rewrite E. cbn [all_fuel_ok forallb t_out]. rewrite Fo1. cbn [andb]. apply H2. lia.
Qed.

(* from the initial state of every accepted configuration *)
Theorem fuel_enough n0 c buf evs : cfg_ok c = true ->
  exists fuel0, forall fuel, (fuel0 <= fuel)%nat ->
    forallb (fun t => fuel_ok (match t with (_, _, o, _) => o end)) (run_steps fuel (init c n0 buf) evs) = true.
Proof.
  intro Hc. assert (Ha : acn_ok (init c n0 buf)) by (unfold acn_ok, cfg_ok in *; cbn; apply Z.leb_le; exact Hc).
  destruct (run_enough n0 evs _ (reach_init n0 c buf) Ha) as (f0 & H). exists f0. exact H.
Qed.

(* ---------------- the run-level theorems without the fuel hypothesis ---------------- *)
Section NoHyp.
Variables (n0 : Z) (c : cfg) (buf : Z) (evs : list event).
Hypothesis Hc : cfg_ok c = true.
Let tr fuel := run_steps fuel (init c n0 buf) evs.

Lemma with_enough (P : nat -> Prop) : (forall fuel, all_fuel_ok (tr fuel) = true -> P fuel) ->
  exists fuel0, forall fuel, (fuel0 <= fuel)%nat -> P fuel.
Proof. intro H. destruct (fuel_enough n0 c buf evs Hc) as (f0 & H0). exists f0. intros fuel Hge. apply H. exact (H0 fuel Hge). Qed.

Theorem reachable_all : exists fuel0, forall fuel, (fuel0 <= fuel)%nat ->
  Forall (fun t => Reach n0 (t_pre t) /\ Reach n0 (t_post t)) (tr fuel).
Proof. apply with_enough. intros fuel H. apply reach_run; [apply reach_init | exact H]. Qed.
Theorem every_stop_quiescent_all : exists fuel0, forall fuel, (fuel0 <= fuel)%nat -> Forall (stop_ok n0) (tr fuel).
Proof. apply with_enough. intros fuel H. apply stop_run; [apply reach_init | exact H]. Qed.
Theorem shutdown_commits_all : exists fuel0, forall fuel, (fuel0 <= fuel)%nat ->
  forallb (fun t => forallb (shutd_ok (c_group c)) (t_out t)) (tr fuel) = true.
Proof. apply with_enough. intros fuel H. apply shutdown_commits_run; auto. Qed.
Theorem not_started_idle_all : exists fuel0, forall fuel, (fuel0 <= fuel)%nat ->
  forallb (fun t => not_started_idle (t_post t)) (tr fuel) = true.
Proof. apply with_enough. intros fuel H. apply (not_started_run n0); [apply reach_init | apply N_init | exact H]. Qed.
Theorem backoff_index_all : exists fuel0, forall fuel, (fuel0 <= fuel)%nat -> backoff_trace 0 (tr fuel) = true.
Proof. apply with_enough. intros fuel H. apply (backoff_run n0 fuel evs (init c n0 buf)); [apply reach_init | exact H]. Qed.
Theorem attempt_limit_all : exists fuel0, forall fuel, (fuel0 <= fuel)%nat -> limit_run n0 0 (tr fuel) = true.
Proof.
  apply with_enough. intros fuel H.
  apply limit_run_holds; [apply reach_init | apply LI_zero; apply (proj1 (Jtop_init n0 c buf)) | exact H].
Qed.
Theorem commit_idle_all : exists fuel0, forall fuel, (fuel0 <= fuel)%nat -> commit_idle_run (tr fuel) = true.
Proof. apply with_enough. intros fuel H. apply commit_idle_run_holds; [reflexivity | exact H]. Qed.
Theorem bookkeeping_all : exists fuel0, forall fuel, (fuel0 <= fuel)%nat -> forallb (fun t => sb_ok (t_post t)) (tr fuel) = true.
Proof. apply with_enough. intros fuel H. apply bookkeeping_run. exact H. Qed.
Theorem stop_then_restart_all : exists fuel0, forall fuel, (fuel0 <= fuel)%nat ->
  Forall (fun t => t_ev t = EStop -> s_startd (t_pre t) <> None ->
            s_shutting (t_post t) = false /\ s_shutd (t_post t) = false /\ restarts_and_delivers fuel (t_post t)) (tr fuel).
Proof. apply with_enough. intros fuel H. apply stop_then_restart_run. exact H. Qed.
End NoHyp.
